import Heathcliff.Proofs.C07S
import Heathcliff.Proofs.C07L
import Heathcliff.Proofs.GenScalingSpec
import Heathcliff.Proofs.C07F
import Heathcliff.Proofs.GenEvalCt
import Heathcliff.Proofs.GenEvalCt3
import Heathcliff.Proofs.GenDec12

/- Property theorems only (statements verbatim; proofs are the helper lemmas of Heathcliff/Proofs). -/
namespace HC.C07
open HC
variable {m : Modulus}

/-- bit count is monotone and characterised by powers of two -/
theorem bitCount_le_iff (v k : Nat) : bitCount v ≤ k ↔ v < 2^k := HC.bitCount_le_iff v k

theorem bitCount_mono {a b : Nat} (h : a ≤ b) : bitCount a ≤ bitCount b := HC.bitCount_mono h

theorem budget_eq (bfv : Bool) (t Q : Nat) (ph : Array Int) :
    Spec.budget bfv t Q ph = ((bitCount Q : Int) - (bitCount (noiseNorm bfv t Q ph) : Int) - 1).toNat := HC.budget_eq bfv t Q ph

/-- centred lift is odd for odd moduli (coefficient moduli are odd primes) -/
theorem centred_neg {Q : Nat} (hQ : Q % 2 = 1) (x : Int) :
    Spec.centred (Spec.imod (-x) Q) Q = - Spec.centred (Spec.imod x Q) Q := HC.centred_neg hQ x

/-- NEGATION preserves the budget exactly (Q odd) -/
theorem budget_negate (bfv : Bool) {t Q : Nat} (hQ : Q % 2 = 1) (ph : Array Int) :
    Spec.budget bfv t Q (ph.map (fun x => -x)) = Spec.budget bfv t Q ph := HC.budget_negate bfv hQ ph

/-- triangle inequality for the centred reduction -/
theorem centred_add_le {Q : Nat} (hQ : 0 < Q) (x y : Int) :
    (Spec.centred (Spec.imod (x + y) Q) Q).natAbs ≤ (Spec.centred (Spec.imod x Q) Q).natAbs + (Spec.centred (Spec.imod y Q) Q).natAbs := HC.centred_add_le hQ x y

/-- SUM OF k CIPHERTEXTS: the noise norm of a coefficient-wise sum of k phases is at most k times the largest norm,
    hence the budget drops by at most ⌈log2 k⌉ (the property allows one more bit) -/
theorem budget_add_k (bfv : Bool) {t Q n : Nat} (hQ : 0 < Q) (phs : List (Array Int)) (hk : phs ≠ [])
    (hn : ∀ ph ∈ phs, ph.size = n) (b : Nat) (hb : ∀ ph ∈ phs, b ≤ Spec.budget bfv t Q ph) :
    let sum : Array Int := Array.ofFn (n := n) fun j => (phs.map (fun ph => ph.getD j.val 0)).sum
    b ≤ Spec.budget bfv t Q sum + Nat.clog 2 phs.length + 1 := HC.budget_add_k bfv hQ phs hk hn b hb

/-- EXACTNESS BELOW THE THRESHOLD (BFV): if t·x = Q·m' + ν with 2|ν| < Q then rounding t·x/Q gives m' -/
theorem exact_below_threshold {t Q : Nat} (hQ : 0 < Q) {x m' ν : Int} (h : t * x = Q * m' + ν) (hν : 2 * ν.natAbs < Q) :
    Spec.roundDiv (t * x) Q = m' := HC.exact_below_threshold hQ h hν


/-! ### the model's noise budget = Spec.budget of the exact phase (all sizes), refusals, positive budget ⇒ exact decoding
    (statements, hypothesis bundles and non-vacuity instances: Heathcliff/Proofs/C07S.lean, section "Property theorems") -/

/-- NOISE BUDGET, size 2: on a coefficient-form ciphertext (c0, c1) of a BFV or BGV level the model's `noiseBudget` succeeds and
    returns exactly the budget of the definition, `Spec.budget`, evaluated on the exact big-integer phase `Spec.phase` -/
theorem noiseBudget_size2_eq_spec : type_of% @HC.noiseBudget_size2_eq_spec := @HC.noiseBudget_size2_eq_spec

/-- the same, with the hypothesis bundle discharged by the constructor: `l.tool.baseQ` is what `RNSBase.new` returns on the
    level's moduli (this is how `RNSTool.new` is fed) -/
theorem noiseBudget_size2_eq_spec_of_new : type_of% @HC.noiseBudget_size2_eq_spec_of_new := @HC.noiseBudget_size2_eq_spec_of_new

/-- NOISE BUDGET, any size ≥ 3 (coefficient form): the model's `noiseBudget` returns the budget of the definition on the
    exact phase Σ c_k s^k -/
theorem noiseBudget_gen_eq_spec : type_of% @HC.noiseBudget_gen_eq_spec := @HC.noiseBudget_gen_eq_spec

/-- NOISE BUDGET, any size ≥ 2 -/
theorem noiseBudget_eq_spec : type_of% @HC.noiseBudget_eq_spec := @HC.noiseBudget_eq_spec

/-- REFUSAL: a ciphertext in NTT form -/
theorem noiseBudget_refuses_ntt : type_of% @HC.noiseBudget_refuses_ntt := @HC.noiseBudget_refuses_ntt

/-- REFUSAL: CKKS levels -/
theorem noiseBudget_refuses_ckks : type_of% @HC.noiseBudget_refuses_ckks := @HC.noiseBudget_refuses_ckks

/-- REFUSAL: fewer than two polynomials -/
theorem noiseBudget_refuses_small : type_of% @HC.noiseBudget_refuses_small := @HC.noiseBudget_refuses_small

/-- a positive budget puts every noise value strictly below Q/2 -/
theorem budget_pos_noise_lt : type_of% @HC.budget_pos_noise_lt := @HC.budget_pos_noise_lt

/-- MONOTONICITY COROLLARY (BFV): with a positive budget every coefficient splits as t·x = Q·m' + ν with ν the measured noise,
    2|ν| < Q, and rounding t·x/Q returns the noiseless message m' -/
theorem budget_pos_bfv_round : type_of% @HC.budget_pos_bfv_round := @HC.budget_pos_bfv_round

/-- BFV decoding under a positive budget: for ANY message/noise splitting t·x_c = Q·m_c + e_c with 2|e_c| < Q of the phase
    coefficients, the decoded coefficient is m_c mod t; and such a splitting exists for every coefficient (`budget_pos_bfv_round`) -/
theorem budget_pos_bfvDecode : type_of% @HC.budget_pos_bfvDecode := @HC.budget_pos_bfvDecode

/-- model-level corollary: when the MODEL reports a positive budget on a BFV ciphertext (c0, c1), exact decoding of the phase
    returns the message part of every coefficient, and every noise value is below Q/2 -/
theorem noiseBudget_pos_bfvDecode : type_of% @HC.noiseBudget_pos_bfvDecode := @HC.noiseBudget_pos_bfvDecode

/-! ### translator tie, phase 4a: the scaled plaintext inside every fresh BFV ciphertext whose budget is measured -/

/-- the code generated from `multiply_add_plain` (src/util/scaling_variant.rs) adds exactly Δ(m_i) = round(Q·m_i/t) modulo q_j
    (= `HC.C01.gen_multiply_add_plain_spec`): the message part t·Δ(m) ≡ Q·m + (rounding ≤ t/2) that `noiseBudget` assumes -/
theorem gen_multiply_add_plain_spec : type_of% @HC.gen_multiply_add_plain_spec := @HC.gen_multiply_add_plain_spec

/-- … and it is the hand model `multiplyAddPlain` on the flat buffer (= `HC.C01.gen_multiply_add_plain_eq`) -/
theorem gen_multiply_add_plain_eq : type_of% @HC.gz_multiply_add_plain_eq := @HC.gz_multiply_add_plain_eq

/-! ### fresh budgets meet the worst-case bound (the clause "at least the budget implied by the deterministic bounds") -/

/-- BFV: every phase coefficient is Δ(m_c) + v_c (mod Q) with |v_c| ≤ B ⇒ budget ≥ bits(Q) − bits(t·(B+1)) − 1: the bound the
    `fresh_budget` oracle of the driver enforces with B = 21(2N+1) + N -/
theorem fresh_budget_bfv {Q t B : Nat} (hQ : 0 < Q) (ht : 0 < t) (ph : Array Int)
    (hph : ∀ x ∈ ph.toList, ∃ (m : Nat) (v : Int), v.natAbs ≤ B ∧ x = Spec.centred (Spec.imod ((deltaM Q t m : Int) + v) Q) Q) :
    (bitCount Q : Int) - (bitCount (t * (B + 1)) : Int) - 1 ≤ (Spec.budget true t Q ph : Int) := HC.fresh_budget_bfv hQ ht ph hph

/-- BGV: every phase coefficient is m_c + t·e_c (mod Q), m_c < t, |e_c| ≤ B ⇒ the same bound -/
theorem fresh_budget_bgv {Q t B : Nat} (hQ : 0 < Q) (ph : Array Int)
    (hph : ∀ x ∈ ph.toList, ∃ (m : Nat) (e : Int), m < t ∧ e.natAbs ≤ B ∧ x = Spec.centred (Spec.imod ((m : Int) + t * e) Q) Q) :
    (bitCount Q : Int) - (bitCount (t * (B + 1)) : Int) - 1 ≤ (Spec.budget false t Q ph : Int) := HC.fresh_budget_bgv hQ ph hph

/-- public-key BFV encryption, hypotheses discharged by `fresh_noise_bound`: ternary u, s and errors bounded by 21 (C16 `cbd_bound`) -/
theorem fresh_budget_bfv_pk : type_of% @HC.fresh_budget_bfv_pk := @HC.fresh_budget_bfv_pk

/-- the centred representative is a smallest one in absolute value (what makes the measured noise ≤ any noise decomposition) -/
theorem centred_le (y : Int) {Q : Nat} (hQ : 0 < Q) : (Spec.centred (Spec.imod y Q) Q).natAbs ≤ y.natAbs := HC.c07f_centred_le y hQ

/-! ### translator tie, phase 4d: the ciphertexts whose budget is measured are built by `negate_inplace` / `translate_inplace` -/

/-- `Evaluator::negate_inplace` (skeleton over the flat buffer) = `ctNegate` -/
theorem gen_ct_negate_inplace_eq : type_of% @HC.gc_negate_inplace_eq := @HC.gc_negate_inplace_eq

/-- … an invalid ciphertext is refused -/
theorem gen_ct_negate_inplace_refuses : type_of% @HC.gc_negate_inplace_refuses := @HC.gc_negate_inplace_refuses

/-- `Evaluator::translate_inplace` (add / sub), equal factors and equal sizes = `ctTranslate` -/
theorem gen_ct_translate_inplace_same_size : type_of% @HC.gc_translate_inplace_same_size := @HC.gc_translate_inplace_same_size

/-- PARTIAL (flat level): unequal factors: both operands scaled over all their polynomials, then the equal-factor routine -/
theorem gen_ct_translate_inplace_balance_partial : type_of% @HC.gc_translate_inplace_balance_partial := @HC.gc_translate_inplace_balance_partial

/-- PARTIAL (flat level): `size1 < size2`, subtraction: common part subtracted, tail copied and negated -/
theorem gen_ct_translate_inplace_sub_tail_partial : type_of% @HC.gc_translate_inplace_sub_tail_partial := @HC.gc_translate_inplace_sub_tail_partial

/-! ### translator tie, phase 4g: `Evaluator::translate_inplace` = `ctTranslate` / `ctTranslateBalanced` for all size pairs and unequal
     correction factors (Proofs/GenEvalCt3.lean; witnesses in Props/C02.lean) -/
theorem gen_ct_translate_inplace_eq_general : type_of% @HC.gt_translate_inplace_eq_general := @HC.gt_translate_inplace_eq_general
theorem gen_ct_translate_inplace_balanced : type_of% @HC.gt_translate_inplace_balanced := @HC.gt_translate_inplace_balanced

/-! ### Phase 4m (tools/rs2lean_dec.py, Gen/DecFns.lean): the decryptor's norm / budget / correction-factor code of src/encryptor.rs tied to the source -/
/-- GENERATED `bgv_decrypt` (skeleton: opaque steps 1 = phase, 2 = inverse NTT, 3 = `decrypt_mod_t`) = the model's correction-factor fix-up + trimming -/
theorem gen_bgv_decrypt_eq : type_of% @HC.gd_bgv_decrypt_eq := @HC.gd_bgv_decrypt_eq
/-- the `if ct.cf ≠ 1` block of `bgvDecrypt` (Model/Scheme.lean) is `bgvFixupL` -/
theorem bgvFixup_is_model : type_of% @HC.gd_bgvFixup_model := @HC.gd_bgvFixup_model
/-- EVERY plain modulus 2 ≤ t < 2^61, COMPOSITE included, every cf ≠ 1 coprime to t: every coefficient is multiplied by the inverse of cf mod t -/
theorem bgvFixup_spec : type_of% @HC.gd_bgvFixup_spec := @HC.gd_bgvFixup_spec
theorem bgvFixup_refuses : type_of% @HC.gd_bgvFixup_refuses := @HC.gd_bgvFixup_refuses
/-- witnesses: composite t = 12, cf = 5 -/
theorem bgv_decrypt_witness : type_of% @HC.gd_bgv_witness := @HC.gd_bgv_witness
theorem bgvFixup_witness : type_of% @HC.gd_bgvFixup_witness := @HC.gd_bgvFixup_witness
/-- GENERATED `invariant_noise_budget` (skeleton): refusals, plan, norm, bit counts, `bits(Q) - bits(norm) - 1` clamped at 0 -/
theorem gen_invariant_noise_budget_eq : type_of% @HC.gd_invariant_noise_budget_eq := @HC.gd_invariant_noise_budget_eq
theorem gen_budget_arith : type_of% @HC.gd_budget_arith := @HC.gd_budget_arith
theorem gen_budget_witness : type_of% @HC.gd_budget_witness := @HC.gd_budget_witness
/-- GENERATED `poly_infty_norm`: its frame, and the value-level meaning of one coefficient step (centred lift with `≥`, running maximum) -/
theorem gen_poly_infty_norm_unfold : type_of% @HC.gd_poly_infty_norm_unfold := @HC.gd_poly_infty_norm_unfold
theorem normStepW_spec : type_of% @HC.gd_normStepW_spec := @HC.gd_normStepW_spec
theorem gen_norm_witness : type_of% @HC.gd_norm_witness := @HC.gd_norm_witness

/-- GENERATED loop of `poly_infty_norm` = one `normStepW` per coefficient; the whole routine = the model's norm fold of the coefficient values -/
theorem gen_norm_loop_succ : type_of% @HC.gd_norm_loop_succ := @HC.gd_norm_loop_succ
theorem gen_poly_infty_norm_spec : type_of% @HC.gd_poly_infty_norm_spec := @HC.gd_poly_infty_norm_spec
/-- the counting helpers and the rounding helper of src/util/basic.rs, regenerated, = the hand models (C08) -/
theorem gen_get_significant_uint64_count_uint_eq : type_of% @HC.gd_get_significant_uint64_count_uint_eq := @HC.gd_get_significant_uint64_count_uint_eq
theorem gen_get_significant_bit_count_uint_eq : type_of% @HC.gd_get_significant_bit_count_uint_eq := @HC.gd_get_significant_bit_count_uint_eq
theorem gen_add_uint_u64_inplace_eq : type_of% @HC.gd_add_uint_u64_inplace_eq := @HC.gd_add_uint_u64_inplace_eq
theorem gen_half_round_up_uint_eq : type_of% @HC.gd_half_round_up_uint_eq := @HC.gd_half_round_up_uint_eq
theorem gen_threshold_spec : type_of% @HC.gd_threshold_spec := @HC.gd_threshold_spec
theorem gen_bgv_trim_eq : type_of% @HC.gd_bgv_trim_eq := @HC.gd_bgv_trim_eq
/-- the last lines of the model's `noiseBudget` in the vocabulary of the source tie (`budgetOfBits`, `normFoldV`) -/
theorem noiseBudget_unfold : type_of% @HC.gd_noiseBudget_unfold := @HC.gd_noiseBudget_unfold
/-- SOURCE → MODEL: generated `invariant_noise_budget` on the composed noise = plan of the opaque steps + the model's budget of the
    coefficient values (threshold `(Q+1)/2` with `≥`, `bits(Q) − bits(norm) − 1`, clamp at 0); with `noiseBudget_eq_spec` above: → the definition -/
theorem gen_budget_source_spec : type_of% @HC.gd_budget_source_spec_full := @HC.gd_budget_source_spec_full
theorem gen_budget_source_witness : type_of% @HC.gd_budget_source_witness := @HC.gd_budget_source_witness
/-- GENERATED `dot_product_ct_sk_array` (skeleton): order of the kernel calls and flat offsets for EVERY size ≥ 2, both representations;
    stride of the key powers = n · (prime count of the KEY level) -/
theorem gen_dot_product_plan_eq : type_of% @HC.gd_dot_product_plan_eq := @HC.gd_dot_product_plan_eq
theorem gen_dot_plan_witness : type_of% @HC.gd_dot_plan_witness := @HC.gd_dot_plan_witness
theorem gen_dot_plan_witness2 : type_of% @HC.gd_dot_plan_witness2 := @HC.gd_dot_plan_witness2
theorem gen_dot_plan_witness16 : type_of% @HC.gd_dot_plan_witness16 := @HC.gd_dot_plan_witness16

/-- GENERATED `bfv_decrypt` / `ckks_decrypt` / `decrypt` (skeletons): refusals, order of the opaque steps, destination sizes, trimming, dispatch -/
theorem gen_bfv_decrypt_eq : type_of% @HC.gd_bfv_decrypt_eq := @HC.gd_bfv_decrypt_eq
theorem gen_ckks_decrypt_eq : type_of% @HC.gd_ckks_decrypt_eq := @HC.gd_ckks_decrypt_eq
theorem gen_decrypt_dispatch_eq : type_of% @HC.gd_decrypt_dispatch_eq := @HC.gd_decrypt_dispatch_eq
theorem gen_bfv_witness : type_of% @HC.gd_bfv_witness := @HC.gd_bfv_witness
/-- `trimPlain` (Model/Scheme.lean) on lists is the `resize(max(sigWords, 1))` of the generated code (non-empty plaintexts) -/
theorem trimPlain_toList : type_of% @HC.gd_trimPlain_toList := @HC.gd_trimPlain_toList

end HC.C07
