import Heathcliff.Spec.Scheme
namespace HC.C07
theorem placeholder : Spec.budget true 3 17 #[] = 4 := by decide
end HC.C07
