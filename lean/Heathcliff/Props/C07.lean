import Heathcliff.Proofs.C07L

/- Property theorems only (statements verbatim; proofs are the helper lemmas of Heathcliff/Proofs). -/
namespace HC.C07
open HC
variable {m : Modulus}

/-- bit count is monotone and characterised by powers of two -/
theorem bitCount_le_iff (v k : Nat) : bitCount v ≤ k ↔ v < 2^k := HC.bitCount_le_iff v k

theorem bitCount_mono {a b : Nat} (h : a ≤ b) : bitCount a ≤ bitCount b := HC.bitCount_mono h

theorem budget_eq (bfv : Bool) (t Q : Nat) (ph : Array Int) :
    Spec.budget bfv t Q ph = ((bitCount Q : Int) - (bitCount (noiseNorm bfv t Q ph) : Int) - 1).toNat := HC.budget_eq bfv t Q ph

/-- centred lift is odd for odd moduli (coefficient moduli are odd primes) -/
theorem centred_neg {Q : Nat} (hQ : Q % 2 = 1) (x : Int) :
    Spec.centred (Spec.imod (-x) Q) Q = - Spec.centred (Spec.imod x Q) Q := HC.centred_neg hQ x

/-- NEGATION preserves the budget exactly (Q odd) -/
theorem budget_negate (bfv : Bool) {t Q : Nat} (hQ : Q % 2 = 1) (ph : Array Int) :
    Spec.budget bfv t Q (ph.map (fun x => -x)) = Spec.budget bfv t Q ph := HC.budget_negate bfv hQ ph

/-- triangle inequality for the centred reduction -/
theorem centred_add_le {Q : Nat} (hQ : 0 < Q) (x y : Int) :
    (Spec.centred (Spec.imod (x + y) Q) Q).natAbs ≤ (Spec.centred (Spec.imod x Q) Q).natAbs + (Spec.centred (Spec.imod y Q) Q).natAbs := HC.centred_add_le hQ x y

/-- SUM OF k CIPHERTEXTS: the noise norm of a coefficient-wise sum of k phases is at most k times the largest norm,
    hence the budget drops by at most ⌈log2 k⌉ (the property allows one more bit) -/
theorem budget_add_k (bfv : Bool) {t Q n : Nat} (hQ : 0 < Q) (phs : List (Array Int)) (hk : phs ≠ [])
    (hn : ∀ ph ∈ phs, ph.size = n) (b : Nat) (hb : ∀ ph ∈ phs, b ≤ Spec.budget bfv t Q ph) :
    let sum : Array Int := Array.ofFn (n := n) fun j => (phs.map (fun ph => ph.getD j.val 0)).sum
    b ≤ Spec.budget bfv t Q sum + Nat.clog 2 phs.length + 1 := HC.budget_add_k bfv hQ phs hk hn b hb

/-- EXACTNESS BELOW THE THRESHOLD (BFV): if t·x = Q·m' + ν with 2|ν| < Q then rounding t·x/Q gives m' -/
theorem exact_below_threshold {t Q : Nat} (hQ : 0 < Q) {x m' ν : Int} (h : t * x = Q * m' + ν) (hν : 2 * ν.natAbs < Q) :
    Spec.roundDiv (t * x) Q = m' := HC.exact_below_threshold hQ h hν

end HC.C07
