import Heathcliff.Proofs.C04R
import Heathcliff.Proofs.C04K
import Heathcliff.Proofs.C04T
import Heathcliff.Proofs.C01O
import Heathcliff.Proofs.C04M
import Heathcliff.Proofs.GenGalois
import Heathcliff.Proofs.GenGalois2
import Heathcliff.Proofs.GenGalois3
import Heathcliff.Proofs.GenWord6
import Heathcliff.Proofs.GenGalois4
import Heathcliff.Proofs.GenGaloisPlan
import Heathcliff.Proofs.GenGalois5

/- Property theorems only (statements verbatim; proofs are the helper lemmas of Heathcliff/Proofs). -/
namespace HC.C04
open HC
open Finset

/-- odd g is a bijection on indices mod N = 2^k: i ↦ (i·g) mod N is injective on [0, N) -/
theorem odd_mul_injective {k g i j : Nat} (hg : g % 2 = 1) (hi : i < 2^k) (hj : j < 2^k)
    (h : (i * g) % 2^k = (j * g) % 2^k) : i = j := HC.odd_mul_injective hg hi hj h

/-- COEFFICIENT FORM: `apply` writes a_i to position (i·g mod N), negated iff ⌊i·g/N⌋ is odd — for every odd g, every N = 2^k -/
theorem galoisApply_spec {k g : Nat} {m : Modulus} (hm : m.WF) (hg : g % 2 = 1) {a : Array Nat} (hs : a.size = 2^k)
    (ha : ∀ i, i < 2^k → a.getD i 0 < m.value) :
    ∃ r, galoisApply k a g m = .ok r ∧ r.size = 2^k ∧ ∀ i, i < 2^k →
      r.getD ((i * g) % 2^k) 0 = (if ((i * g) / 2^k) % 2 = 1 then (m.value - a.getD i 0) % m.value else a.getD i 0) := HC.galoisApply_spec hm hg hs ha

/-- … which is the substitution X ↦ X^g modulo X^N + 1: for any commutative ring and any x with x^N = −1,
    Σ_j r_j x^j = Σ_i a_i (x^g)^i  whenever r is related to a as in `galoisApply_spec` (as ring elements) -/
theorem subst_eval {R : Type} [CommRing R] {k g : Nat} (hg : g % 2 = 1) (x : R) (hx : x ^ (2^k) = -1) (a r : Nat → R)
    (hr : ∀ i, i < 2^k → r ((i * g) % 2^k) = (if ((i * g) / 2^k) % 2 = 1 then - a i else a i)) :
    ∑ j ∈ range (2^k), r j * x ^ j = ∑ i ∈ range (2^k), a i * (x ^ g) ^ i := HC.subst_eval hg x hx a r hr

/-- NTT FORM, the table: entry i = index of the slot holding the evaluation at psi^(g·(2·brev i + 1)) -/
theorem galoisTable_spec {k g i : Nat} (hg : g % 2 = 1) (hi : i < 2^k) :
    (galoisTableNtt k g).getD i 0 = brev k ((((g * (2 * brev k i + 1)) % (2 * 2^k)) - 1) / 2) ∧
    (galoisTableNtt k g).getD i 0 < 2^k := HC.galoisTable_spec hg hi

/-- the defining property of that index: 2·brev(table i) + 1 ≡ g·(2·brev i + 1) (mod 2N) -/
theorem galoisTable_exponent {k g i : Nat} (hg : g % 2 = 1) (hi : i < 2^k) :
    (2 * brev k ((galoisTableNtt k g).getD i 0) + 1) % (2 * 2^k) = (g * (2 * brev k i + 1)) % (2 * 2^k) := HC.galoisTable_exponent hg hi

/-- ROTATION STEP ↦ ELEMENT: 3^s for 0 < s < N/2, 3^(N/2 − |s|) for negative steps, 2N − 1 for step 0; refused otherwise -/
theorem eltFromStep_spec {k : Nat} {s : Int} (hs : s.natAbs < 2^k / 2) (hs0 : s ≠ 0) :
    eltFromStep k s = .ok (3 ^ (if s < 0 then 2^k / 2 - s.natAbs else s.natAbs) % (2 * 2^k)) := HC.eltFromStep_spec hs hs0

theorem eltFromStep_zero (k : Nat) : eltFromStep k 0 = .ok (2 * 2^k - 1) := HC.eltFromStep_zero k

/-- 3 has order N/2 modulo 2N (N = 2^k, k ≥ 2): 3^(N/2) ≡ 1 and 3^(N/4) ≢ 1 -/
theorem three_order {k : Nat} (hk : 2 ≤ k) : 3 ^ (2^k / 2) % (2 * 2^k) = 1 ∧ 3 ^ (2^k / 4) % (2 * 2^k) ≠ 1 := HC.three_order hk

/-- negative steps: 3^(N/2 − s) is the inverse of 3^s modulo 2N, so a rotation by −s undoes a rotation by s -/
theorem step_inverse {k s : Nat} (hk : 2 ≤ k) (hs : s < 2^k / 2) :
    (3 ^ s * 3 ^ (2^k / 2 - s)) % (2 * 2^k) = 1 := HC.step_inverse hk hs

/-- composition of automorphisms multiplies the elements; rotations add their steps modulo N/2 -/
theorem step_add {k a b : Nat} (hk : 2 ≤ k) :
    (3 ^ a * 3 ^ b) % (2 * 2^k) = 3 ^ ((a + b) % (2^k / 2)) % (2 * 2^k) := HC.step_add hk

/-! Three statements were false at degenerate corners (refuted in Proofs/C04M.lean) and are proved with the corner excluded:
    3^(2^j) ≡ 1 + 2^(j+2) needs j ≥ 1; refusal of out-of-range steps needs (s ≠ 0 ∨ N ≥ 2); the default key set is complete for
    k ≤ 62 (for k ≥ 63 the modulus 2N does not fit the code's u64 / i64 arithmetic at all; the library limits N to 2^17). -/
theorem three_pow_two_pow_pos : type_of% @HC.three_pow_two_pow_pos := @HC.three_pow_two_pow_pos
theorem eltFromStep_refuses' : type_of% @HC.eltFromStep_refuses' := @HC.eltFromStep_refuses'
theorem eltsAll_contains_le : type_of% @HC.eltsAll_contains_le := @HC.eltsAll_contains_le

/-- non-vacuity: N = 8: step 1 ↦ 3, step −1 ↦ 3^3 = 27 ≡ 11 (mod 16) -/
example : eltFromStep 3 1 = .ok 3 ∧ eltFromStep 3 (-1) = .ok 11 := by decide


/-! ### key switching (the algebra every rotation / relinearisation / key switch rests on) -/

/-- each gadget element (Q/q_j)·[(Q/q_j)^{-1}]_{q_j} is ≡ 1 modulo its own prime and ≡ 0 modulo the others — which is why the key
    generator adds P·s' only to component j of key j -/
theorem gadget_delta {b : RNSBase} (hb : b.WF) {i j : Nat} (hi : i < b.size) (hj : j < b.size) :
    (b.punct.getD j 0 * (b.invPunct.getD j default).operand) % (b.q i).value = if i = j then 1 % (b.q i).value else 0 :=
  HC.gadget_delta hb hi hj

/-- CRT GADGET: the RNS digits c mod q_j recombine with the gadget elements to c modulo Q -/
theorem gadget_crt {b : RNSBase} (hb : b.WF) (c : Nat) :
    (∑ j ∈ range b.size, (c % (b.q j).value) * (b.punct.getD j 0 * (b.invPunct.getD j default).operand)) % b.prod = c % b.prod :=
  HC.gadget_crt hb c

/-- KEY-SWITCH PHASE (any commutative ring): if every key row satisfies k0_j + k1_j·s = e_j + P·g_j·s' and Σ_j d_j·g_j = c, then the
    accumulated pair decrypts under s to P·c·s' + Σ_j d_j·e_j -/
theorem keyswitch_phase {R : Type} [CommRing R] (k : Nat) (d g e k0 k1 : Nat → R) (s s' P c : R)
    (hkey : ∀ j, j < k → k0 j + k1 j * s = e j + P * g j * s') (hg : ∑ j ∈ range k, d j * g j = c) :
    (∑ j ∈ range k, d j * k0 j) + (∑ j ∈ range k, d j * k1 j) * s = P * c * s' + ∑ j ∈ range k, d j * e j :=
  HC.keyswitch_phase k d g e k0 k1 s s' P c hkey hg

/-- MOD-DOWN by the special prime with rounding: X = P·Y + E ⇒ round(X/P) = Y + round(E/P) and |round(E/P)|·P ≤ |E| + P -/
theorem moddown_round {P : Nat} (hP : 0 < P) (X Y E : Int) (h : X = P * Y + E) :
    Spec.roundDiv X P = Y + Spec.roundDiv E P ∧ (Spec.roundDiv E P).natAbs * P ≤ E.natAbs + P :=
  HC.moddown_round hP X Y E h

/-- non-vacuity of the key-switch phase identity in ℤ: one digit, key row (k0,k1) = (7, 3) with s = 2, e = 1, P = 4, g = 1, s' = 3 -/
example : (7 : Int) + 3 * 2 = 1 + 4 * 1 * 3 := by decide


/-! ### key switching of the model: accumulation = NTT of the digit-key convolution, mod-down = rounding division by the special prime (BFV/CKKS and BGV branch), refusals
    (statements, hypothesis bundles and non-vacuity instances: Heathcliff/Proofs/C04T.lean, section "Property theorems") -/

/-- T1 `ksAccumulate_spec`.  For a well-formed key level (`KeyLevel.WF`), `dsz + 1 ≤ ksz`, an RNS index `i ≤ dsz`
    (index `dsz` = special prime; `c04t_keyIndex` is the key-level modulus used: `if i = dsz then ksz - 1 else i`), canonical
    coefficient-form target digits `targetCoef` (in NTT representation: `target` canonical and `targetCoef = intt target` per
    component, exactly what `switchKey` passes), canonical key residues at the key modulus, and the 128-bit accumulator bound
    `dsz·4q² < 2^128` (see `c04t_no_overflow_60`: implied by dsz ≤ 64 for q < 2^60, `c04t_no_overflow_61`: dsz ≤ 16 for q < 2^61):
    `ksAccumulate` succeeds; component k of the result has size n, canonical values, and is the NTT (w.r.t. the key modulus) of
    Σ_j D_j ⋆ K_{j,k} mod q — i.e. its `intt` is coefficientwise `(Σ_j negMulNat n q D_j (intt K_{j,k}) c) % q`, where D_j is the
    digit polynomial `targetCoef[j]` taken as integers in [0, q_j) (not reduced mod q) and ⋆ the negacyclic product. -/
theorem ksAccumulate_spec : type_of% @HC.ksAccumulate_spec := @HC.ksAccumulate_spec

/-- T1 with the overflow guard discharged from `dsz ≤ 64` and key moduli below 2^60 -/
theorem ksAccumulate_spec_dsz64 : type_of% @HC.ksAccumulate_spec_dsz64 := @HC.ksAccumulate_spec_dsz64

/-- refusals of `switch_key_inplace_internal` -/
theorem switchKey_refuses_sizes : type_of% @HC.switchKey_refuses_sizes := @HC.switchKey_refuses_sizes

theorem switchKey_refuses_bfv_ntt : type_of% @HC.switchKey_refuses_bfv_ntt := @HC.switchKey_refuses_bfv_ntt

theorem switchKey_refuses_coeff_form : type_of% @HC.switchKey_refuses_coeff_form := @HC.switchKey_refuses_coeff_form

/-- T2 `moddown_spec` (rounding branch: BFV in coefficient form, CKKS in NTT form).  For inputs satisfying `c04t_KSInput`
    (well-formed key level, `dsz + 1 ≤ ksz`, canonical target / key residues / ciphertext residues, 128-bit accumulator bound,
    `invPModQ[j]·P ≡ 1 (mod q_j)`), `switchKey` succeeds; only the first `kcc` polynomials change; and for k < kcc, j < dsz the
    new component is `ct[k][j] + δ (mod q_j)` where, coefficient by coefficient (through `intt` when the data is in NTT form),
    δ ≡ round(X / P) (mod q_j) (`Spec.roundDiv`) for EVERY integer X with X ≡ X_j[c] (mod q_j) and X ≡ X_P[c] (mod P), X_* being
    the accumulated polynomials Σ_j D_j ⋆ K_{j,k} of T1 in coefficient form (`c04t_accCoef`).  `moddown_round` then splits
    round(X/P) for X = P·Y + E. -/
theorem moddown_spec : type_of% @HC.moddown_spec := @HC.moddown_spec

/-- T2, BGV branch.  Same frame as `moddown_spec`; the added polynomial δ satisfies, coefficient by coefficient (through `intt`),
    δ ≡ (X − E)/P (mod q_j) for every integer X with X ≡ X_j[c] (mod q_j), X ≡ X_P[c] (mod P), where
    E = X_P[c] + P·((−X_P[c])·P^{-1} mod t) (`c04t_bgvE`) does not depend on j, is ≡ X (mod P), a multiple of t, and 0 ≤ E < P·t:
    the result is X·P^{-1} corrected so that the error is ≡ 0 (mod t). -/
theorem moddown_spec_bgv : type_of% @HC.moddown_spec_bgv := @HC.moddown_spec_bgv

/-- ring-level phase identity of key switching + mod-down (algebraic core of T3; see `c04t_phase_ring`) -/
theorem keyswitch_moddown_phase_ring : type_of% @HC.keyswitch_moddown_phase_ring := @HC.keyswitch_moddown_phase_ring

/-- `relinearize_internal` on a size-3 ciphertext is one `switchKey` of c2 (key for s²) followed by dropping c2 -/
theorem relinearize_size3 : type_of% @HC.relinearize_size3 := @HC.relinearize_size3

theorem relinearize_size2 : type_of% @HC.relinearize_size2 := @HC.relinearize_size2

theorem relinearize_refuses_small : type_of% @HC.relinearize_refuses_small := @HC.relinearize_refuses_small

theorem relinearize_refuses_missing_key : type_of% @HC.relinearize_refuses_missing_key := @HC.relinearize_refuses_missing_key

theorem applyGalois_refuses_size : type_of% @HC.applyGalois_refuses_size := @HC.applyGalois_refuses_size

theorem applyGalois_refuses_element : type_of% @HC.applyGalois_refuses_element := @HC.applyGalois_refuses_element

/-! ### translator tie: `GaloisTool::get_elt_from_step`, `get_elts_all`, `get_index_from_elt` (src/util/galois.rs) generated into
     Gen/GaloisFns.lean equal `eltFromStep` / `eltsAll` of Model/Galois.lean (Proofs/GenGalois.lean).  The bounds on `k` say exactly that
     the overflow-checked `*`/`-` of the code do not trap (the library has 1 ≤ k ≤ 17). -/
theorem gen_get_elt_from_step_eq (k : Nat) (hk : k ≤ 61) (step : Int) :
    GenG.get_elt_from_step step (2^k) = eltFromStep k step := HC.gx_get_elt_from_step_eq k hk step
theorem gen_get_elts_all_eq (k : Nat) (hk1 : 1 ≤ k) (hk : k ≤ 31) : GenG.get_elts_all (2^k) k = eltsAll k := HC.gx_get_elts_all_eq k hk1 hk
theorem gen_get_index_from_elt_eq (g : Nat) :
    GenG.get_index_from_elt g = if g % 2 = 1 then .ok ((g - 1) / 2) else .error .refused := HC.gx_get_index_from_elt_eq g


/-! ### translator tie, phase 3 (Proofs/GenGalois2.lean): `GaloisTool::apply` (index / sign loop) and `util::reverse_bits_u32`.
     `apply`: tool fields `coeff_count = 2^k`, `coeff_count_power = k`, zero-initialised result buffer.  `2^k ≤ operand.len()`: the code's
     guard is `i <= operand.len()` (not `<`), so a shorter operand panics at `i = len` where the model reads 0; `2^k·g < 2^64`: the
     running `index_raw += galois_elt` is overflow-checked. -/
theorem gen_galois_apply_eq (a : List Nat) (g : Nat) (m : Modulus) (k : Nat) (hk : k < 64) (ha : 2^k ≤ a.length) (hg : 2^k * g < 2^64) :
    GenG.galois_apply a g m (List.replicate (2^k) 0) (2^k) k = (galoisApply k a.toArray g m >>= fun r => pure r.toList) :=
  HC.gy_galois_apply_eq a g m k hk ha hg
/-- the generated loop from any position `i` (running index `i·g`) = the model's fold over the remaining indices -/
theorem gen_galois_apply_loop_eq (a : List Nat) (g : Nat) (m : Modulus) (k : Nat) (hk : k < 64) (ha : 2^k ≤ a.length)
    (hg : 2^k * g < 2^64) (cnt i : Nat) (res : List Nat) (h1 : i + cnt = 2^k) (h2 : res.length = 2^k) :
    GenG.galois_apply_loop1 a g m (2^k - 1) k cnt i res (i * g) = (List.range' i cnt).foldlM (gy_applyStep (2^k) a g m) res :=
  HC.gy_apply_loop_eq a g m k hk ha hg cnt i res h1 h2
/-- `reverse_bits_u32(x, bc)` = `brev bc x` (`u32::reverse_bits` is the primitive `revBits 32`) -/
theorem gen_reverse_bits_u32_eq (x bc : Nat) (hbc : bc ≤ 32) (hx : x < 2^bc) : GenW.reverse_bits_u32 x bc = .ok (brev bc x) :=
  HC.gy_reverse_bits_u32_eq x bc hbc hx

/-! ### translator tie, phase 4d (Proofs/GenGalois3.lean): `GaloisTool::generate_table_ntt` (the NTT-form permutation table) generated from
     source = `galoisTableNtt k g` of Model/Galois.lean, about which `galoisTableNtt_spec` & co. above are stated.  Tool fields
     `coeff_count = 2^k`, `coeff_count_power = k`.  `k ≤ 31`: `reverse_bits_u32(_, k + 1)` computes `32 - (k + 1)` with overflow checks and
     `i as u32` must not truncate; `g·(2^(k+1) − 1) < 2^64`: `galois_elt as u64 * reversed as u64` is overflow-checked and `reversed`
     reaches `2^(k+1) − 1` at the last index (`_lib`: implied by `g < 2N`, the range of Galois elements). -/
theorem gen_generate_table_ntt_eq (k g : Nat) (hk : k ≤ 31) (hg : g * (2^(k+1) - 1) < 2^64) :
    GenG.generate_table_ntt g (2^k) k = .ok (galoisTableNtt k g).toList := HC.gq_generate_table_ntt_eq k g hk hg
theorem gen_generate_table_ntt_eq_lib (k g : Nat) (hk : k ≤ 31) (hg : g < 2^(k+1)) :
    GenG.generate_table_ntt g (2^k) k = .ok (galoisTableNtt k g).toList := HC.gq_generate_table_ntt_eq_lib k g hk hg
/-- the generated loop from position `2^k + j` = writing entry `i` at position `i` for the remaining positions -/
theorem gen_generate_table_ntt_loop_eq (k g : Nat) (hk : k ≤ 31) (hg : g * (2^(k+1) - 1) < 2^64) (cnt j : Nat) (res : List Nat)
    (h1 : j + cnt = 2^k) (h2 : res.length = 2^k) :
    GenG.generate_table_ntt_loop1 g (2^k) (2^k - 1) k cnt (2^k + j) res =
      .ok ((List.range' j cnt).foldl (fun r i => r.set i (gq_entry k g i)) res) := HC.gq_table_loop_eq k g hk hg cnt j res h1 h2

/-! ### translator tie, phase 4d (Proofs/GenWord6.lean): `util::naf` (src/util/number_theory.rs; i32 arithmetic: `+ - *`, unary `-`, `abs` are
     overflow-checked `ckI32`, `&` is two's complement, `>> 1` arithmetic, `1 << i` checks only the amount) generated into Gen/Word2Fns.lean
     = `HC.naf` of Model/Word.lean (about which `naf_spec` / the default-key theorems are stated) for `|value| < 2^30`.  The bound is exactly
     where the two can part: the code computes a digit as `±1 * (1_i32 << i)`; from `|value| ≥ 2^30` on a digit at `i = 31` can occur, where
     `1 << 31 = i32::MIN`, whereas the model's `2^i` is unbounded (rotation steps are `< N/2 ≤ 2^16`).  `naf(i32::MIN)`: both refuse. -/
theorem gen_naf_eq (value : Int) (h : value.natAbs < 2^30) : GenW2.naf value = HC.naf value := HC.gn_naf_eq value h
theorem gen_naf_min : GenW2.naf (-2147483648) = .error .overflow ∧ HC.naf (-2147483648) = .error .overflow := HC.gn_naf_min
/-- the generated loop from any reachable state (`gn_Inv V v i`: `v·2^i < V + 2^i`, and `2^i ≤ 2V` while `v ≥ 1`) -/
theorem gen_naf_loop_eq (V : Nat) (hV : V < 2^30) (s : Bool) (fuel v i : Nat) (res : List Int) (h : gn_Inv V v i) :
    GenW2.naf_loop1 res s fuel (v : Int) (i : Int) = .ok (res ++ nafLoop fuel v i s []) := HC.gn_loop_eq V hV s fuel v i res h
/-- non-vacuity: a negative step -/
example : GenW2.naf (-7) = .ok [1, -8] ∧ HC.naf (-7) = .ok [1, -8] := by constructor <;> decide

/-! ### key switching of the model end to end: phase(ct') = phase(ct) + target*s' + nu modulo every level modulus / modulo Q / against Spec.phase, explicit noise bound, BGV branch (nu = 0 mod t), relinearize and applyGalois corollaries (phase of the result = sigma_g(phase) + nu)
    (statements, hypothesis bundles and non-vacuity instances: Heathcliff/Proofs/C04K.lean, section "Property theorems") -/

/-- `switchKey_phase` (rounding branch: BFV in coefficient form, CKKS in NTT form).
    Hypotheses: `c04t_KSInput` (well-formed key level, canonical inputs, accumulator guard, P^{-1} operands — C04T), a two-component
    key (`kcc = 2`), a ciphertext with at least two polynomials, and the KEY EQUATION `c04k_KeyEq`: for integer polynomials
    s, s', e_i and gadget integers G_i (G_i ≡ δ_ij mod q_j), the coefficient forms of the key rows satisfy
    k0_i + k1_i ⋆ s ≡ e_i + P·G_i·s' modulo every used key-level modulus (q_0 … q_{dsz-1} and P), ⋆ the negacyclic product.
    Conclusion: `switchKey` succeeds; representation flag, correction factor, number of polynomials and all polynomials of index ≥ 2
    are unchanged; the two new polynomials are canonical; and for every level modulus q_j and coefficient c (coefficient functions
    through `intt` when the data is in NTT form, `c05u_phase2 n c0 c1 s = c0 + c1 ⋆ s`):
      phase_s(ct'_0, ct'_1) ≡ phase_s(ct_0, ct_1) + target ⋆ s' + ν   (mod q_j)
    with ONE integer polynomial ν = `c04k_nuStd` independent of j: ν = (Σ_i D_i ⋆ e_i − r_0 − r_1 ⋆ s)/P (exact division), D_i the
    digits of … -/
theorem switchKey_phase : type_of% @HC.switchKey_phase := @HC.switchKey_phase

/-- explicit noise bound (rounding branch): with q_i ≤ A for the level moduli and ‖e_i‖∞ ≤ Be,
    P·‖ν‖∞ ≤ dsz·A·n·Be + ⌊P/2⌋·(1 + ‖s‖₁),  i.e. ‖ν‖∞ ≤ dsz·n·A·Be/P + (1 + ‖s‖₁)/2 -/
theorem switchKey_noise_bound : type_of% @HC.switchKey_noise_bound := @HC.switchKey_noise_bound

/-- `switchKey_phase` modulo Q_level = Π_{j<dsz} q_j (`b.prod`, `b` the well-formed RNS base of the level moduli): for ARBITRARY
    integer lifts Z_k, Z'_k, T of the old polynomials, the new polynomials and the target (`c04k_Lifts`: congruent to the component
    coefficient functions modulo every q_j — e.g. the CRT lifts `Spec.crtPoly`),
      Z'_0 + Z'_1 ⋆ s ≡ Z_0 + Z_1 ⋆ s + T ⋆ s' + ν   (mod Q_level). -/
theorem switchKey_phase_crt : type_of% @HC.switchKey_phase_crt := @HC.switchKey_phase_crt

/-- `switchKey_phase` against the exact specification `Spec.phase` (big-integer phase, centred, of the coefficient forms
    `c04k_coefRns` of the first two polynomials; `c01p_bvals b` = the list of level moduli, `b.prod` = Q_level), secret `sk : Array Int`:
      Spec.phase(ct')[c] ≡ Spec.phase(ct)[c] + (T ⋆ s')[c] + ν[c]   (mod Q_level),  T = `Spec.crtPoly` of the target. -/
theorem switchKey_phase_spec : type_of% @HC.switchKey_phase_spec := @HC.switchKey_phase_spec

/-- `switchKey_phase`, BGV branch (NTT form; `c04t_BgvData`: plain modulus t well-formed, `invPModT`·P ≡ 1 mod t).  Same frame;
    ν = `c04k_nuBgv` = (Σ_i D_i ⋆ e_i − r_0 − r_1 ⋆ s)/P with r_k the multiple of t in [0, P·t) congruent to the k-th accumulated
    polynomial modulo P.  The correction factor is unchanged (`ct'.cf = ct.cf`). -/
theorem switchKey_phase_bgv : type_of% @HC.switchKey_phase_bgv := @HC.switchKey_phase_bgv

/-- BGV noise: P·‖ν‖∞ ≤ dsz·A·n·Be + P·t·(1 + ‖s‖₁); and if every key error e_i is a multiple of t (BGV keys carry t·e), then
    ν ≡ 0 (mod t): the plaintext residue of the phase modulo t changes exactly by that of target ⋆ s', with the SAME correction factor. -/
theorem switchKey_noise_bound_bgv : type_of% @HC.switchKey_noise_bound_bgv := @HC.switchKey_noise_bound_bgv

theorem switchKey_noise_bgv_mod_t : type_of% @HC.switchKey_noise_bgv_mod_t := @HC.switchKey_noise_bgv_mod_t

theorem switchKey_phase_bgv_crt : type_of% @HC.switchKey_phase_bgv_crt := @HC.switchKey_phase_bgv_crt

theorem switchKey_phase_spec_bgv : type_of% @HC.switchKey_phase_spec_bgv := @HC.switchKey_phase_spec_bgv

/-- `relinearize_phase` (rounding branch): a size-3 ciphertext (c0, c1, c2) relinearised with a key `keys 2` from s² to s
    (key equation with s' = s ⋆ s) becomes a size-2 ciphertext whose phase under s is c0 + c1 ⋆ s + c2 ⋆ s² + ν modulo every q_j,
    ν = `c04k_nuStd … (target := c2)` (bounded by `switchKey_noise_bound`). -/
theorem relinearize_phase : type_of% @HC.relinearize_phase := @HC.relinearize_phase

/-- `relinearize_phase`, BGV branch (ν = `c04k_nuBgv`, ≡ 0 mod t when t ∣ e: `switchKey_noise_bgv_mod_t`; `cf` unchanged) -/
theorem relinearize_phase_bgv : type_of% @HC.relinearize_phase_bgv := @HC.relinearize_phase_bgv

/-- `applyGalois_phase` (rounding branch: BFV coefficient form / CKKS NTT form).  `l` is the ciphertext level (`c04k_LevelOf`: its
    moduli are the first `l.size` key-level moduli), `g` an odd Galois element ≤ 2N, `key` a key from s' (= σ_g(s) for a Galois key)
    to s.  `applyGalois` succeeds and, with σ(c_k) = `c04k_galRns l ct.ntt g c_k` the component-wise Galois-permuted polynomials
    (coefficient form: exactly X ↦ X^g, `c04k_galRns_coeff`; NTT form: the table permutation `galoisApplyNtt`),
      phase_s(result) ≡ σ(c0) + σ(c1) ⋆ s' + ν   (mod q_j),   ν = `c04k_nuStd … (target := σ(c1))`. -/
theorem applyGalois_phase : type_of% @HC.applyGalois_phase := @HC.applyGalois_phase

/-- `applyGalois_phase`, BGV branch -/
theorem applyGalois_phase_bgv : type_of% @HC.applyGalois_phase_bgv := @HC.applyGalois_phase_bgv

/-- `applyGalois_phase` in its final form: for a Galois key from s' = σ_g(s) to s (σ_g = `c04k_sigma n g`: X ↦ X^g on integer
    coefficient functions, multiplicative by `c04k_sigma_mul`), in BOTH representations (coefficient form via `galoisApply`, NTT form via
    `galoisApplyNtt` = `galoisApply` conjugated by the transform, `c04k_gal_ntt`):
      phase_s(result) ≡ σ_g(phase_s(ct)) + ν   (mod q_j),   phase_s(ct) = c0 + c1 ⋆ s. -/
theorem applyGalois_phase_sigma : type_of% @HC.applyGalois_phase_sigma := @HC.applyGalois_phase_sigma

theorem applyGalois_phase_sigma_bgv : type_of% @HC.applyGalois_phase_sigma_bgv := @HC.applyGalois_phase_sigma_bgv

/-- NON-VACUITY: the hypothesis bundles (`c04t_KSInput`, `c04k_KeyEq`, `c04k_BaseOf`, `c04t_BgvData`) hold on the concrete world
    `c04t_exKL` (N = 2, q = 13, P = 17, t = 5) with the genuine key `c04k_exKey` (s = 1 − X, s' = X, e = 1 − X), so the three branches
    of `switchKey_phase` and `applyGalois_phase` (with `c04k_LevelOf`, g = 3) apply there; the noise bound gives 17·|ν| ≤ 1·(13·(2·1)) + 8·(1 + 2) = 50, i.e. |ν| ≤ 2. -/
theorem switchKey_phase_nonvacuous : type_of% @HC.switchKey_phase_nonvacuous := @HC.switchKey_phase_nonvacuous


/-! ### rotations end to end: decoding commutes with sigma_g, batchDecode(sigma_{3^s} p) rotates the rows / sigma_{2N-1} swaps them, the model's applyGalois / rotatePlan results DECRYPT (model decryption) to the rotated slot matrix under explicit noise margins (BFV and BGV), CKKS integer-level corollary
    (statements, hypothesis bundles and non-vacuity instances: Heathcliff/Proofs/C04R.lean, section "Property theorems") -/

/-- R1, the INDEX / SIGN RULE of σ_g = `c04k_sigma (2^k) g` (g odd): coefficient i goes to index i·g mod N, negated iff ⌊i·g/N⌋ is odd -/
theorem sigma_index_sign_rule : type_of% @HC.sigma_index_sign_rule := @HC.sigma_index_sign_rule

/-- σ_h ∘ σ_g = σ_{g·h}; σ_g depends only on g mod 2N; ‖σ_g(e)‖∞ ≤ ‖e‖∞ -/
theorem sigma_comp : type_of% @HC.sigma_comp := @HC.sigma_comp

theorem sigma_mod : type_of% @HC.sigma_mod := @HC.sigma_mod

theorem sigma_natAbs_le : type_of% @HC.sigma_natAbs_le := @HC.sigma_natAbs_le

/-- R1 (BFV): for integer phases x, y (arrays of N = 2^k coefficients), any splitting t·x = Q·m + e with 2|e| < Q, and
    y ≡ σ_g(x) + ν (mod Q): if 2|σ_g(e) + t·ν| < Q coefficient-wise then `Spec.bfvDecode t Q y` = σ_g(`Spec.bfvDecode t Q x`) mod t,
    coefficient by coefficient -/
theorem bfvDecode_sigma : type_of% @HC.bfvDecode_sigma := @HC.bfvDecode_sigma

/-- … and the measured noise t·y − Q·round(t·y/Q) of the result is exactly σ_g(e) + t·ν -/
theorem bfv_noise_sigma : type_of% @HC.bfv_noise_sigma := @HC.bfv_noise_sigma

/-- R1 (BGV): y ≡ σ_g(x) + ν (mod Q), t ∣ ν, y centred, 2|σ_g(x) + ν| < Q ⇒ `Spec.bgvDecode t cf y` = σ_g(`Spec.bgvDecode t cf x`) mod t -/
theorem bgvDecode_sigma : type_of% @HC.bgvDecode_sigma := @HC.bgvDecode_sigma

/-- R2: for well-formed batching tables `t` (plain modulus prime, ≡ 1 mod 2N), a full-length canonical plaintext p and odd g, the model's
    `galoisApply` succeeds with a canonical result r and slot i of `batchDecode r` is slot i' of `batchDecode p` whenever
    slotExp(i)·g ≡ slotExp(i') (mod 2N) -/
theorem batchDecode_galois : type_of% @HC.batchDecode_galois := @HC.batchDecode_galois

/-- R2, rows: g ≡ 3^s (mod 2N), N ≥ 4 ⇒ both rows of the slot matrix rotate LEFT by s (`c04r_rotIdx`) -/
theorem batchDecode_rotate_rows : type_of% @HC.batchDecode_rotate_rows := @HC.batchDecode_rotate_rows

/-- R2, columns: g ≡ 2N − 1 (mod 2N), N ≥ 2 ⇒ the two rows are exchanged (`c04r_swapIdx`) -/
theorem batchDecode_swap_rows : type_of% @HC.batchDecode_swap_rows := @HC.batchDecode_swap_rows

/-- R2 for the element returned by the model's `eltFromStep` (signed steps; step 0 = columns) -/
theorem batchDecode_eltFromStep : type_of% @HC.batchDecode_eltFromStep := @HC.batchDecode_eltFromStep

theorem eltFromStep_slot : type_of% @HC.eltFromStep_slot := @HC.eltFromStep_slot

/-- R3: exact phase (`Spec.phase`) of the `applyGalois` result ≡ σ_g(exact input phase) + ν modulo Q (BFV coefficient form / BGV NTT form) -/
theorem applyGalois_spec_phase_bfv : type_of% @HC.applyGalois_spec_phase_bfv := @HC.applyGalois_spec_phase_bfv

theorem applyGalois_spec_phase_bgv : type_of% @HC.applyGalois_spec_phase_bgv := @HC.applyGalois_spec_phase_bgv

/-- R3, coefficient level: the model's decryption of the `applyGalois` result is σ_g(m) mod t, m the model's decryption of the input;
    hypotheses: `Level.WF`, `DecOK`, `c04k_LevelOf`, `c04t_KSInput`, key equation `c04k_KeyEq` with s' = σ_g(s), input noise ≤ E, key-switch noise
    ≤ V, and the BEHZ decode margin for E + t·V (BFV) resp. no wrap-around 2(X + V) < Q and t ∣ e_i (BGV).  Also returns the
    noise bound E + t·V of the result (noises add) -/
theorem applyGalois_decrypt_bfv : type_of% @HC.applyGalois_decrypt_bfv := @HC.applyGalois_decrypt_bfv

theorem applyGalois_decrypt_bgv : type_of% @HC.applyGalois_decrypt_bgv := @HC.applyGalois_decrypt_bgv

/-- R3, slot level: with g = `eltFromStep step`, the result decrypts to the plaintext whose slots are the input's rotated by `step`
    (rows) / swapped (step 0) -/
theorem rotate_rows_bfv : type_of% @HC.rotate_rows_bfv := @HC.rotate_rows_bfv

theorem rotate_rows_bgv : type_of% @HC.rotate_rows_bgv := @HC.rotate_rows_bgv

/-- the key-switching noise of one step from the explicit bound of `switchKey_noise_bound` -/
theorem rotate_step_noise : type_of% @HC.rotate_step_noise := @HC.rotate_step_noise

/-- R3 composed: `rotatePlan` — every element of the plan is in `keys`, odd, < 2N, and the product of the plan is 3^(steps mod N/2) mod 2N -/
theorem rotatePlan_ok : type_of% @HC.rotatePlan_ok := @HC.rotatePlan_ok

/-- a chain of `applyGalois` steps decrypts to σ_{Π gs}(m) mod t under the accumulated margin E + |gs|·t·V -/
theorem rotate_chain_bfv : type_of% @HC.rotate_chain_bfv := @HC.rotate_chain_bfv

/-- executing `rotatePlan`'s plan rotates the slot rows by `steps` -/
theorem rotatePlan_rotate_bfv : type_of% @HC.rotatePlan_rotate_bfv := @HC.rotatePlan_rotate_bfv

theorem rotatePlan_fuel0 : type_of% @HC.rotatePlan_fuel0 := @HC.rotatePlan_fuel0

theorem rotatePlan_refuses_range : type_of% @HC.rotatePlan_refuses_range := @HC.rotatePlan_refuses_range

theorem rotatePlan_zero : type_of% @HC.rotatePlan_zero := @HC.rotatePlan_zero

theorem applyChain_error : type_of% @HC.applyChain_error := @HC.applyChain_error

/-- R4 (CKKS): `rotate_vector(step)` = σ_{3^s}, conjugation = σ_{2N−1}, on the exact phase modulo every level modulus -/
theorem ckks_rotate_phase : type_of% @HC.ckks_rotate_phase := @HC.ckks_rotate_phase


/-! ### translator tie, round 7 (worker V; Proofs/GenGalois4.lean): `GaloisTool::apply` with a DIRTY result buffer, composed down to X ↦ X^g.
     The callers (`apply_p` from `apply_galois_inplace`) pass a scratch buffer that still holds the previous polynomial.  For ODD g the index map
     i ↦ i·g mod N is a permutation, so every word is overwritten and the generated function does not depend on the initial contents
     (`hodd` is necessary: see the `g = 2` example in Proofs/GenGalois4.lean, where slots 1 and 3 keep the dirty words). -/
theorem gen_galois_apply_dirty (a : List Nat) (g : Nat) (m : Modulus) (k : Nat) (hk : k < 64) (ha : 2^k ≤ a.length)
    (hg : 2^k * g < 2^64) (hodd : g % 2 = 1) (res : List Nat) (hres : res.length = 2^k) :
    GenG.galois_apply a g m res (2^k) k = (galoisApply k a.toArray g m >>= fun r => pure r.toList) :=
  HC.gz_galois_apply_dirty a g m k hk ha hg hodd res hres
/-- source → index / sign rule: the generated `apply` on canonical input succeeds and writes a_i to (i·g mod N), negated iff ⌊i·g/N⌋ is odd -/
theorem gen_galois_apply_spec (a : List Nat) (g : Nat) (m : Modulus) (k : Nat) (hm : m.WF) (hk : k < 64)
    (ha : a.length = 2^k) (hg : 2^k * g < 2^64) (hodd : g % 2 = 1) (hlt : ∀ i, i < 2^k → a.getD i 0 < m.value)
    (res : List Nat) (hres : res.length = 2^k) :
    ∃ r : List Nat, GenG.galois_apply a g m res (2^k) k = .ok r ∧ r.length = 2^k ∧ ∀ i, i < 2^k →
      r.getD ((i * g) % 2^k) 0 = (if ((i * g) / 2^k) % 2 = 1 then (m.value - a.getD i 0) % m.value else a.getD i 0) :=
  HC.gz_galois_apply_spec a g m k hm hk ha hg hodd hlt res hres
/-- source → mathematics: the generated `apply` IS the substitution X ↦ X^g modulo (X^N + 1, q): for every x ∈ ℤ/q with x^N = −1,
    Σ_j r_j x^j = Σ_i a_i (x^g)^i -/
theorem gen_galois_apply_subst (a : List Nat) (g : Nat) (m : Modulus) (k : Nat) (hm : m.WF) (hk : k < 64)
    (ha : a.length = 2^k) (hg : 2^k * g < 2^64) (hodd : g % 2 = 1) (hlt : ∀ i, i < 2^k → a.getD i 0 < m.value)
    (res : List Nat) (hres : res.length = 2^k) (x : ZMod m.value) (hx : x ^ (2^k) = -1) :
    ∃ r : List Nat, GenG.galois_apply a g m res (2^k) k = .ok r ∧ r.length = 2^k ∧
      ∑ j ∈ range (2^k), (r.getD j 0 : ZMod m.value) * x ^ j =
        ∑ i ∈ range (2^k), (a.getD i 0 : ZMod m.value) * (x ^ g) ^ i :=
  HC.gz_galois_apply_subst a g m k hm hk ha hg hodd hlt res hres x hx
/-- non-vacuity: N = 4, q = 17, g = 3, dirty buffer [9,9,9,9] -/
example : GenG.galois_apply [1, 2, 3, 4] 3 ⟨17, (2^128 / 17) % B64, (2^128 / 17) / B64, 2^128 % 17, bitCount 17⟩
    [9, 9, 9, 9] (2^2) 2 = .ok [1, 4, 14, 2] := by decide

/-! ### translator tie, round 7 (worker V; "plan mode" tools/rs2lean_gal.py, Gen/GaloisPlanFns.lean, Proofs/GenGaloisPlan.lean): the rotation layer of
     src/evaluator.rs.  `GenGal.rotate_internal_level steps n keys valid batching keys_ok` is ONE level of `Evaluator::rotate_internal` (result: the element
     applied directly, the NAF terms it recurses on, in order); `gal_rotateGen` closes it under the recursion.  `k ≤ 31`: every accepted step is then
     below 2^30, where `steps as i32` does not truncate and the `naf` tie holds. -/
theorem gen_rotate_internal_level_eq (k : Nat) (hk : k ≤ 31) (keys : List Nat) (steps : Int) :
    GenGal.rotate_internal_level steps (2^k) keys true true true = rotateLevel k keys steps := HC.gal_rotate_level_eq k hk keys steps
/-- the source's plan = the model's plan: direct key if present, else NAF terms in order, terms equal to ±N/2 skipped, recursively -/
theorem gen_rotate_internal_eq (k : Nat) (hk : k ≤ 31) (keys : List Nat) (fuel : Nat) (steps : Int) :
    gal_rotateGen k keys fuel steps = rotatePlan k keys fuel steps := HC.gal_rotateGen_eq k hk keys fuel steps
theorem gen_rotate_internal_refuses (steps : Int) (n : Nat) (keys : List Nat) (valid batching keysOk : Bool)
    (h : valid = false ∨ batching = false ∨ keysOk = false) :
    GenGal.rotate_internal_level steps n keys valid batching keysOk = .error .refused :=
  HC.gal_rotate_level_refuses steps n keys valid batching keysOk h
/-- the GENERATED plan uses only available keys (odd elements < 2N) and multiplies to 3^(steps mod N/2): it rotates by `steps` -/
theorem gen_rotate_internal_ok : type_of% @HC.gal_rotateGen_ok := @HC.gal_rotateGen_ok
/-- … and executing it with the model's `applyGalois` rotates the decrypted slot rows by `steps` (BFV, margins of `rotatePlan_rotate_bfv`) -/
theorem gen_rotate_internal_rotates_bfv : type_of% @HC.gal_rotateGen_bfv := @HC.gal_rotateGen_bfv
/-- non-vacuity / witness of the skipped term: N = 32, default keys, steps = 11 = −1 − 4 + 16: the term 16 = N/2 is skipped
    (a rotation of a row by N/2 is the identity; `get_elt_from_step(16)` would panic), plan = [3^-1, 3^-4] = [43, 49] -/
example : GenGal.rotate_internal_level 11 32 [63, 3, 43, 9, 57, 17, 49, 33, 33] true true true = .ok ([], [-1, -4]) := by decide
example : gal_rotateGen 5 [63, 3, 43, 9, 57, 17, 49, 33, 33] 2 11 = .ok [43, 49] := by decide
/-- `conjugate_internal` applies exactly the element 2N − 1 -/
theorem gen_conjugate_internal_eq (k : Nat) (hk : k ≤ 61) : GenGal.conjugate_internal (2^k) true true = .ok [2 * 2^k - 1] := HC.gal_conjugate_eq k hk
/-- `apply_galois_inplace`: refusals (no key for g; g even or > 2N; size > 2) and the step plan
    [apply c0 → temp, c0 := temp, apply c1 → temp, c1 := 0, switch key with target temp and key index (g − 1)/2], kernels chosen by the representation -/
theorem gen_apply_galois_plan_eq (g n k size : Nat) (ntt has : Bool) (hn : n * 2 < 2^64) (hnk : n * k < 2^64) :
    GenGal.apply_galois_inplace_plan g n k size ntt true true true has =
      if has = false then .error .refused
      else if g % 2 = 0 ∨ g > 2 * n then .error .refused
      else if size > 2 then .error .refused
      else .ok (galoisPlan ntt g) := HC.gal_apply_plan_eq g n k size ntt has hn hnk
/-- running that plan with the model's kernels and `switchKey` IS the model's `applyGalois` (size-2 ciphertext) -/
theorem gen_apply_galois_plan_runs : type_of% @HC.gal_runPlan_applyGalois := @HC.gal_runPlan_applyGalois
theorem gen_rotate_rows_gate (s : Scheme) :
    GenGal.rotate_rows_inplace s = if s = .bfv ∨ s = .bgv then .ok [1] else .error .refused := HC.gal_rotate_rows_gate s
theorem gen_rotate_columns_gate (s : Scheme) :
    GenGal.rotate_columns_inplace s = if s = .bfv ∨ s = .bgv then .ok [2] else .error .refused := HC.gal_rotate_columns_gate s
theorem gen_rotate_vector_gate (s : Scheme) :
    GenGal.rotate_vector_inplace s = if s = .ckks then .ok [1] else .error .refused := HC.gal_rotate_vector_gate s
theorem gen_complex_conjugate_gate (s : Scheme) :
    GenGal.complex_conjugate_inplace s = if s = .ckks then .ok [2] else .error .refused := HC.gal_complex_conjugate_gate s

/-! `switch_key_inplace_internal` (fragments, see tools/rs2lean_gal.py): the prologue's refusals = the gate of the model's `switchKey`; the key-level
    modulus / NTT-table index used for RNS index i of the accumulation loop (i = 0 .. dsz, `rns_modulus_size = dsz + 1`) = `keyIndex` of `ksAccumulate`:
    the special prime is the LAST key-level modulus (`ksz − 1`), not the modulus after the level's own ones (`dsz`) — they differ below the first level. -/
theorem gen_switch_key_prologue_eq (scheme : Scheme) (ntt : Bool) (index nkeys : Nat) :
    GenGal.switch_key_prologue scheme ntt true true true index nkeys =
      if index ≥ nkeys then .error .refused
      else (match scheme with
            | .bfv => if ntt then Except.error Err.refused else pure ()
            | _ => if !ntt then Except.error Err.refused else pure ()) >>= fun _ => .ok [] := HC.gal_switch_prologue_eq scheme ntt index nkeys
theorem gen_switch_key_prologue_refuses (scheme : Scheme) (ntt valid usingKs keysOk : Bool) (index nkeys : Nat)
    (h : valid = false ∨ usingKs = false ∨ keysOk = false) :
    GenGal.switch_key_prologue scheme ntt valid usingKs keysOk index nkeys = .error .refused :=
  HC.gal_switch_prologue_refuses scheme ntt valid usingKs keysOk index nkeys h
theorem gen_switch_key_indices_eq (dsz ksz : Nat) (hd : dsz + 1 < 2^64) (hk : 1 ≤ ksz) :
    GenGal.switch_key_indices dsz ksz = .ok ((List.range (dsz + 1)).map (fun i => if i = dsz then ksz - 1 else i)) :=
  HC.gal_switch_indices_eq dsz ksz hd hk
/-- non-vacuity: a ciphertext two levels below a 4-prime key level (dsz = 1, ksz = 4): indices [0, 3] -/
example : GenGal.switch_key_indices 1 4 = .ok [0, 3] := by decide

/-! `GaloisTool::apply_ntt`, the USE of the table (fragment after `let table = &(*reader)[index];`: length assertion + `result[i] = operand[table[i]]`; Proofs/GenGalois5.lean):
    with the model's table it is `galoisApplyNtt` whatever the result buffer held before; composed with the GENERATED `generate_table_ntt` it is source → model.
    `g % 2 = 1`: the table entries are < N only for odd g (`galoisTable_spec`); `2^k ≤ operand.len()`: the reads `operand[t]` are bounds-checked. -/
theorem gen_apply_ntt_permute_eq (k g : Nat) (hg : g % 2 = 1) (a res : List Nat) (ha : 2^k ≤ a.length) (hres : res.length = 2^k) :
    GenGal.galois_apply_ntt_permute a (galoisTableNtt k g).toList res (2^k) = .ok (galoisApplyNtt k a.toArray g).toList :=
  HC.gp_apply_ntt_permute_eq k g hg a res ha hres
/-- for ANY table of length n with entries in range: the gather `table.map (operand[·])` -/
theorem gen_apply_ntt_permute_map (a0 tab res : List Nat) (n : Nat) (htab : tab.length = n) (hres : res.length = n)
    (hrange : ∀ j, j < n → tab.getD j 0 < a0.length) :
    GenGal.galois_apply_ntt_permute a0 tab res n = .ok (tab.map (fun t => a0.getD t 0)) := HC.gp_permute_eq_map a0 tab res n htab hres hrange
theorem gen_apply_ntt_permute_refuses (a tab res : List Nat) (n : Nat) (h : res.length ≠ n) :
    GenGal.galois_apply_ntt_permute a tab res n = .error .refused := HC.gp_apply_ntt_permute_refuses a tab res n h
theorem gen_apply_ntt_eq (k g : Nat) (hk : k ≤ 31) (hg : g % 2 = 1) (hg2 : g < 2^(k+1)) (a res : List Nat)
    (ha : 2^k ≤ a.length) (hres : res.length = 2^k) :
    (GenG.generate_table_ntt g (2^k) k >>= fun tab => GenGal.galois_apply_ntt_permute a tab res (2^k)) =
      .ok (galoisApplyNtt k a.toArray g).toList := HC.gp_apply_ntt_gen k g hk hg hg2 a res ha hres
/-- non-vacuity: N = 4, g = 3 (table [2,3,0,1]), dirty result buffer -/
example : GenGal.galois_apply_ntt_permute [10, 20, 30, 40] (galoisTableNtt 2 3).toList [9, 9, 9, 9] 4 = .ok [30, 40, 10, 20] := by decide


end HC.C04
