import Heathcliff.Model.Galois
namespace HC.C04
theorem placeholder : galoisGenerator = 3 := rfl
end HC.C04
