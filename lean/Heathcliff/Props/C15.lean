/-
  C15  Serialization fails cleanly under I/O faults instead of corrupting or panicking.

  Model: Heathcliff/Model/Codec.lean (`Sink` = any stream defined by per-call acceptance limits and an
  optional failing call, obeying the `Write` contract; `writeAll` = the loop of std's `write_all`;
  `serialize` = the sequence of scalar I/O calls a Rust serializer issues, `?` on each; `dec` = readers
  over an in-memory stream with `read_exact`).  The write primitive of each scalar writer and the error
  treatment of each scalar reader are the ones extracted from the Rust source on this run
  (`genWMode`, `genRMode` over Gen/Serialize.lean).
-/
import Heathcliff.Proofs.Codec
import Heathcliff.Proofs.Sink
import Heathcliff.Proofs.SinkI
import Heathcliff.Model.CodecGen
import Heathcliff.Proofs.GenSerS
namespace HC.C15
open HC.Codec

/-! ### obligations over the table regenerated from the Rust source -/

/-- every `serialize*` / `deserialize*` pair of the anchored files writes and reads the same fields in the same order -/
theorem gen_field_order_agrees :
    HC.Gen.Serialize.fieldOrder.all (fun t => t.2.1 == t.2.2) = true := by decide

/-- every scalar writer uses `write_all` (fails on the pinned tree: they call `write` and return its count) -/
theorem gen_writers_use_write_all : ∀ k, genWMode k = .writeAll := by
  intro k; cases k <;> decide

/-- every scalar reader propagates the `read_exact` error with `?` (fails on the pinned tree: `unwrap()`) -/
theorem gen_readers_propagate : ∀ k, genRMode k = .propagate := by
  intro k; cases k <;> decide

/-- no raw stream primitive is called outside the three scalar impls (so every byte goes through them) -/
theorem gen_no_raw_io_elsewhere : HC.Gen.Serialize.rawIoOutsideScalars = 0 := by decide

/-! ### writers -/

/-- `write_all` terminates on every stream of the family — at most `|buf|` iterations, whatever the
    limits (a zero-length acceptance ends the loop with `WriteZero`) — and its result is: `Ok` and all
    bytes transmitted in order, or an error with a prefix transmitted. -/
theorem write_all_total (s : Sink) (buf : Bytes) :
    ∃ r, writeAllFuel buf.length s buf = some r ∧
      (r.1 = .ok () → r.2.out = s.out ++ buf) ∧
      (∀ e, r.1 = .error e → ∃ j, j ≤ buf.length ∧ r.2.out = s.out ++ buf.take j) := by
  obtain ⟨r, hr, h⟩ := writeAllFuel_spec buf.length s buf (Nat.le_refl _)
  exact ⟨r, hr, h.1, h.2⟩

/-- liveness (non-vacuity of the `Ok` branch): a stream that never fails and accepts at least one byte
    per call makes `write_all` return `Ok` with everything transmitted -/
theorem write_all_succeeds (s : Sink) (buf : Bytes) (hf : s.failAt = none) (hl : ∀ l ∈ s.limits, 1 ≤ l) :
    ∃ s', writeAllFuel buf.length s buf = some (.ok (), s') ∧ s'.out = s.out ++ buf :=
  writeAllFuel_ok buf.length s buf (Nat.le_refl _) hf hl

/-- For every object of every codec and every fault sequence (limits, failure point, any prior stream
    state): serialization returns an error (a prefix of the encoding is on the wire), or returns `Ok n`
    with `n = |enc x|` and the stream holds exactly `enc x`.  Stated for the scalar write primitives the
    source uses on this run. -/
theorem serialize_faulty {α} (c : Codec α) (x : α) (s : Sink) :
    (∀ n, (serialize genWMode (c.chunks x) s).1 = .ok n →
        n = (c.enc x).length ∧ (serialize genWMode (c.chunks x) s).2.out = s.out ++ c.enc x) ∧
    (∀ e, (serialize genWMode (c.chunks x) s).1 = .error e →
        ∃ j, j ≤ (c.enc x).length ∧ (serialize genWMode (c.chunks x) s).2.out = s.out ++ (c.enc x).take j) :=
  serialize_clean genWMode gen_writers_use_write_all (c.chunks x) s

/-- the same for an arbitrary sequence of scalar I/O calls (any chunking of any byte string) -/
theorem serialize_faulty_chunks (cs : List Chunk) (s : Sink) : Clean (flat cs) s (serialize genWMode cs s) :=
  serialize_clean genWMode gen_writers_use_write_all cs s

/-- why the pinned code violates the property: with `stream.write` (count returned) a stream accepting
    3 bytes per call makes a `u64` serializer return `Ok(3)` with 3 of 8 bytes sent — no error, incomplete -/
theorem pinned_writers_violate :
    serialize (fun _ => .write) (u64C.chunks 578437695752307201) ⟨[3], none, 0, []⟩
      = (.ok 3, ⟨[3], none, 1, [1, 2, 3]⟩) := pinned_short_write_witness

/-! ### readers -/

/-- Deserializing any strict prefix of a valid encoding returns `Err` (end of stream): never an object,
    never a panic — for every lawful codec, with the readers' error treatment extracted from the source. -/
theorem truncation_is_error {α} (c : Codec α) (hc : c.Lawful) (x : α) (hx : c.valid x)
    (k : Nat) (hk : k < (c.enc x).length) :
    readOutcome genRMode (c.dec ((c.enc x).take k)) = .err := by
  obtain ⟨s, hs⟩ := hc.pre x hx k hk
  rw [hs]
  simp [readOutcome, gen_readers_propagate s]

/-- model-level form: the decoder reports `eof` on every strict prefix -/
theorem truncation_is_eof {α} (c : Codec α) (hc : c.Lawful) (x : α) (hx : c.valid x)
    (k : Nat) (hk : k < (c.enc x).length) : ∃ s, c.dec ((c.enc x).take k) = .error (.eof s) :=
  hc.pre x hx k hk

/-- every modelled wire format is a lawful codec (so the two theorems above apply to each of them):
    scalars, `Vec<T>`, Modulus, SchemeType, ParmsID, EncryptionParameters, Plaintext (= SecretKey),
    Ciphertext (= PublicKey) in compact / selected-terms / full format, KSwitchKeys (= RelinKeys,
    GaloisKeys), Cipher/Plain 1d/2d/3d (plain and terms), rns_plain component sequences,
    PolynomialSerializer — for every context, term list and external `expand` / NTT function. -/
theorem modelled_types_lawful :
    u64C.Lawful ∧ usizeC.Lawful ∧ u8C.Lawful ∧ boolC.Lawful ∧ f64C.Lawful ∧ modulusC.Lawful ∧ schemeC.Lawful ∧
    pidC.Lawful ∧ (vecC u64C).Lawful ∧ (vecC modulusC).Lawful ∧ paramsC.Lawful ∧ plainC.Lawful ∧
    (∀ ctx expand, (ctC ctx expand).Lawful) ∧
    (∀ ctx expand fwd inv terms, (ctTermsC ctx expand fwd inv terms).Lawful) ∧
    (∀ ctx expand, (ctFullC ctx expand).Lawful) ∧
    (∀ ctx expand, (kswitchC (ctC ctx expand)).Lawful) ∧
    (∀ ctx expand, (c1dC (ctC ctx expand)).Lawful ∧ (c2dC (ctC ctx expand)).Lawful ∧ (c3dC (ctC ctx expand)).Lawful) ∧
    (∀ ctx expand fwd inv terms, (c1dC (ctTermsC ctx expand fwd inv terms)).Lawful ∧
        (c2dC (ctTermsC ctx expand fwd inv terms)).Lawful ∧ (c3dC (ctTermsC ctx expand fwd inv terms)).Lawful) ∧
    ((c1dC plainC).Lawful ∧ (c2dC plainC).Lawful ∧ (c3dC plainC).Lawful) ∧
    (∀ (ctxs : List Ctx) expand, (rnspC (ctxs.map fun cx => ctC cx expand)).Lawful) ∧
    (∀ (ctxs : List Ctx) expand, (rnspC (ctxs.map fun cx => kswitchC (ctC cx expand))).Lawful) ∧
    (∀ ctx, (polySerC ctx).Lawful) := by
  refine ⟨u64C_lawful, usizeC_lawful, u8C_lawful, boolC_lawful, u64C_lawful, u64C_lawful, schemeC_lawful,
    pidC_lawful, vecC_lawful _ u64C_lawful, vecC_lawful _ u64C_lawful, paramsC_lawful, plainC_lawful,
    ctC_lawful, ctTermsC_lawful, ctFullC_lawful, fun ctx e => kswitchC_lawful _ (ctC_lawful ctx e),
    fun ctx e => ⟨c1dC_lawful _ (ctC_lawful ctx e), c2dC_lawful _ (ctC_lawful ctx e), c3dC_lawful _ (ctC_lawful ctx e)⟩,
    fun ctx e f i t => ⟨c1dC_lawful _ (ctTermsC_lawful ctx e f i t), c2dC_lawful _ (ctTermsC_lawful ctx e f i t),
      c3dC_lawful _ (ctTermsC_lawful ctx e f i t)⟩,
    ⟨c1dC_lawful _ plainC_lawful, c2dC_lawful _ plainC_lawful, c3dC_lawful _ plainC_lawful⟩,
    fun ctxs e => rnspC_lawful _ (fun c hc => ?_), fun ctxs e => rnspC_lawful _ (fun c hc => ?_), polySerC_lawful⟩
  · obtain ⟨cx, _, rfl⟩ := List.mem_map.mp hc; exact ctC_lawful cx e
  · obtain ⟨cx, _, rfl⟩ := List.mem_map.mp hc; exact kswitchC_lawful _ (ctC_lawful cx e)

/-! ### streams that also report `ErrorKind::Interrupted` (standard `Write` contract: "retry") -/

/-- one `write_all` on a stream that interrupts ANY finite set of calls = `write_all` on the underlying stream: same result, same
    bytes transmitted, same stream state (so it also terminates: |buf| + #interrupts iterations suffice) -/
theorem write_all_interrupts_invisible (w : SinkI) (buf : Bytes) :
    (writeAllI w buf).1 = (writeAll w.s buf).1 ∧ (writeAllI w buf).2.s = (writeAll w.s buf).2 ∧ (writeAllI w buf).2.intr = w.intr :=
  writeAllI_erase w buf

/-- the serializers as extracted from the source (every scalar writer `write_all`): interrupts are invisible for whole objects -/
theorem serialize_interrupts_invisible (cs : List Chunk) (w : SinkI) :
    ((serializeI genWMode cs w).1 = match (serialize genWMode cs w.s).1 with | .ok n => .ok n | .error e => .error (.io e)) ∧
    (serializeI genWMode cs w).2.s = (serialize genWMode cs w.s).2 :=
  have h := serializeI_erase genWMode gen_writers_use_write_all cs w
  ⟨h.1, h.2.1⟩

/-- … hence complete encoding or error also on interrupting, short-writing, failing streams -/
theorem serialize_faulty_interrupting (cs : List Chunk) (w : SinkI) :
    (∀ n, (serializeI genWMode cs w).1 = .ok n → n = (flat cs).length ∧ (serializeI genWMode cs w).2.s.out = w.s.out ++ flat cs) ∧
    (∀ e, (serializeI genWMode cs w).1 = .error e → ∃ j, j ≤ (flat cs).length ∧ (serializeI genWMode cs w).2.s.out = w.s.out ++ (flat cs).take j) :=
  serializeI_clean genWMode gen_writers_use_write_all cs w

/-- the pinned `stream.write` form would surface an interrupted call as a failed serialization -/
theorem pinned_writers_not_interrupt_safe :
    (serializeI (fun _ => .write) (u64C.chunks 578437695752307201) ⟨⟨[8], none, 0, []⟩, [0], 0⟩).1 = .error .interrupted :=
  pinned_write_interrupt_witness

/-- non-vacuity: three interrupted calls, 3 bytes per call: all 8 bytes delivered, 8 reported -/
example : serializeI (fun _ => .writeAll) (u64C.chunks 578437695752307201) ⟨⟨[3], none, 0, []⟩, [0, 1, 3], 0⟩
    = (.ok 8, ⟨⟨[3], none, 3, [1, 2, 3, 4, 5, 6, 7, 8]⟩, [0, 1, 3], 6⟩) := by rfl

/-! ### non-vacuity -/

example : u64C.valid 578437695752307201 := by show (578437695752307201 : Nat) < 256 ^ 8; decide
example : (u64C.enc 578437695752307201).length = 8 := by rfl
/-- a stream that takes 3 bytes per call: the repaired writer delivers all 8 bytes and reports 8 -/
example : serialize (fun _ => .writeAll) (u64C.chunks 578437695752307201) ⟨[3], none, 0, []⟩
    = (.ok 8, ⟨[3], none, 3, [1, 2, 3, 4, 5, 6, 7, 8]⟩) := by rfl
/-- failing second call: an error, 3 bytes (a prefix) on the wire -/
example : serialize (fun _ => .writeAll) (u64C.chunks 578437695752307201) ⟨[3], some 1, 0, []⟩
    = (.error .fault, ⟨[3], some 1, 2, [1, 2, 3]⟩) := by rfl
example : u64C.dec ((u64C.enc 578437695752307201).take 5) = .error (.eof .u64) := by rfl
example : (vecC u64C).valid [1, 2, 3] := by
  refine ⟨(by show (3 : Nat) < 256 ^ 8; decide), rfl, ?_⟩
  exact ⟨(by show (1 : Nat) < 256 ^ 8; decide), (by show (2 : Nat) < 256 ^ 8; decide), (by show (3 : Nat) < 256 ^ 8; decide), trivial⟩


/-! ### translator phase 4i: the serializer SOURCE itself (src/serialize.rs regenerated into Gen/SerFns.lean) under I/O faults -/

/-- the generated writers run on a sink of the family ARE the model's `serialize` with every scalar writer in `write_all` mode — the
    write primitive is read off the translated scalar impl bodies (a `stream.write(..)` there would be translated as such and break this) -/
theorem gen_source_writers_are_model_serialize :
    type_of% @HC.GS.c15g_source_writers_are_model_serialize := @HC.GS.c15g_source_writers_are_model_serialize

/-- THE PROPERTY FOR THE SOURCE: generated `EncryptionParameters` / `Plaintext` (= `SecretKey`) / `Vec<u64>` / limited writers on every
    faulty sink (any limits, any failure point, any prior state): `Ok n` with `n = |enc x|` and exactly `enc x` appended, or the STREAM's
    error (never a panic) with a prefix appended -/
theorem gen_source_writers_fail_cleanly : type_of% @HC.GS.c15g_source_writers_fail_cleanly := @HC.GS.c15g_source_writers_fail_cleanly

/-- generated readers on every strict prefix of a valid encoding: `Err(UnexpectedEof)` -/
theorem gen_source_readers_truncation : type_of% @HC.GS.c15g_source_readers_truncation := @HC.GS.c15g_source_readers_truncation

/-- the same for the generated `Ciphertext::serialize_full` (flat-word format), on the view of any model ciphertext whose level has a
    real scheme and whose data vector holds the words to be sent -/
theorem gen_ct_serialize_full_fails_cleanly :
    type_of% @HC.GS.c15g_ct_serialize_full_fails_cleanly := @HC.GS.c15g_ct_serialize_full_fails_cleanly

/-- … and for the generated COMPACT `Ciphertext::serialize` (= `PublicKey`), on the view of any model ciphertext of its level's shape -/
theorem gen_ct_serialize_fails_cleanly :
    type_of% @HC.GS.c15g_ct_serialize_fails_cleanly := @HC.GS.c15g_ct_serialize_fails_cleanly

/-- … and for the generated `KSwitchKeys` (= `RelinKeys`, `GaloisKeys`) writer -/
theorem gen_kswitch_serialize_fails_cleanly :
    type_of% @HC.GS.c15g_kswitch_serialize_fails_cleanly := @HC.GS.c15g_kswitch_serialize_fails_cleanly

/-- INTERRUPTS: the generated `EncryptionParameters` / `Plaintext` writers on a stream that also answers `ErrorKind::Interrupted` are the
    model's `serializeI` in `write_all` mode — the object `serialize_interrupts_invisible` / `serialize_faulty_interrupting` are about -/
theorem gen_source_writers_interrupting :
    type_of% @HC.GS.c15g_source_writers_interrupting := @HC.GS.c15g_source_writers_interrupting

/-- … hence, for the generated `EncryptionParameters` writer, on every interrupting / short-writing / failing stream: complete encoding
    with the right count, or an error with a prefix on the wire -/
theorem gen_params_writer_interrupt_safe (p : Params) (hp : p.scheme < 256) (w : SinkI) :
    (∀ n, (HC.GenS.params_serialize HC.GS.sinkIStream p w).1 = .ok n →
      n = (paramsC.enc p).length ∧ (HC.GenS.params_serialize HC.GS.sinkIStream p w).2.s.out = w.s.out ++ paramsC.enc p) ∧
    (∀ e, (HC.GenS.params_serialize HC.GS.sinkIStream p w).1 = .error e →
      ∃ j, j ≤ (paramsC.enc p).length ∧ (HC.GenS.params_serialize HC.GS.sinkIStream p w).2.s.out = w.s.out ++ (paramsC.enc p).take j) := by
  have hm : genWMode = fun _ => WMode.writeAll := funext gen_writers_use_write_all
  have hc := serialize_faulty_interrupting (paramsC.chunks p) w
  rw [hm] at hc
  rw [(HC.GS.c15g_source_writers_interrupting w).1 p hp]
  rcases h : serializeI (fun _ => WMode.writeAll) (paramsC.chunks p) w with ⟨r, w'⟩
  rw [h] at hc
  cases r with
  | ok n =>
    refine ⟨fun m hm' => ?_, fun e he => ?_⟩
    · have : m = n := by simp only [HC.GS.liftIOI] at hm'; injection hm' with hm'; exact hm'.symm
      subst this; exact hc.1 m rfl
    · simp [HC.GS.liftIOI] at he
  | error e0 =>
    refine ⟨fun m hm' => ?_, fun e he => ?_⟩
    · simp [HC.GS.liftIOI] at hm'
    · exact hc.2 e0 rfl

/-- SECOND ROUND, READERS.  Prefix monotonicity of the generated reader programs (`RMono`: success on `p ++ t` implies, on `p`, the same
    success or `UnexpectedEof`) turns "accepts the full encoding" into the truncation clause: generated `Ciphertext::deserialize_full` on
    every strict prefix of a valid encoding returns `Err(UnexpectedEof)` — no object, no panic -/
theorem gen_ct_full_reader_truncation : type_of% @HC.GS.c15g_ct_full_reader_truncation := @HC.GS.c15g_ct_full_reader_truncation

/-- PARTIAL for the compact format: the generated compact `Ciphertext::deserialize` (windows, `chunks_mut`, indexed stores, `unwrap`)
    answers `UnexpectedEof` on every strict prefix of ANY stream it accepts completely; that it accepts every valid encoding is
    `C14.GenCtSourceRoundTripStatement` (not proved; exercised by the correspondence cases) -/
theorem gen_ct_reader_truncation_partial :
    type_of% @HC.GS.c15g_ct_reader_truncation_partial := @HC.GS.c15g_ct_reader_truncation_partial

/-- the general principle (any prefix-monotone reader, any stream it consumes completely) -/
theorem gen_reader_truncation_of_monotone : type_of% @HC.GS.gm_truncation := @HC.GS.gm_truncation

/-- not an I/O fault, recorded: `write_u64_limited` with a value that does not fit writes the truncated bytes, then panics -/
theorem gen_limited_writer_panics_after_writing :
    type_of% @HC.GS.c15g_limited_writer_panics_after_writing := @HC.GS.c15g_limited_writer_panics_after_writing

/-- the two routes agree: the mode the pattern table extracts (`genWMode`) is the mode the translated bodies use -/
theorem gen_source_mode_is_table_mode (p : Params) (hp : p.scheme < 256) (s : Sink) :
    HC.GenS.params_serialize HC.GS.sinkStream p s = HC.GS.liftIO (serialize genWMode (paramsC.chunks p) s) := by
  have : genWMode = fun _ => WMode.writeAll := funext gen_writers_use_write_all
  rw [this]; exact (HC.GS.c15g_source_writers_are_model_serialize s).2.2.2.1 p hp

/-- non-vacuity: the generated `u64` writer on a stream taking 3 bytes per call delivers all 8 bytes; with the second call failing it
    reports the stream's error with 3 bytes on the wire -/
example : HC.GenS.u64_serialize HC.GS.sinkStream 578437695752307201 ⟨[3], none, 0, []⟩
    = (.ok 8, ⟨[3], none, 3, [1, 2, 3, 4, 5, 6, 7, 8]⟩) := by rfl
example : HC.GenS.u64_serialize HC.GS.sinkStream 578437695752307201 ⟨[3], some 1, 0, []⟩
    = (.error (.io .fault), ⟨[3], some 1, 2, [1, 2, 3]⟩) := by rfl
/-- the generated `u64` writer with three interrupted calls on a 3-byte-per-call stream: all 8 bytes delivered -/
example : HC.GenS.u64_serialize HC.GS.sinkIStream 578437695752307201 ⟨⟨[3], none, 0, []⟩, [0, 1, 3], 0⟩
    = (.ok 8, ⟨⟨[3], none, 3, [1, 2, 3, 4, 5, 6, 7, 8]⟩, [0, 1, 3], 6⟩) := by rfl

end HC.C15
