import Heathcliff.Proofs.C10H

/- Property theorems only (statements verbatim; proofs are the helper lemmas of Heathcliff/Proofs). -/
namespace HC.C10
open HC
variable {m : Modulus}

theorem RNSBase.new_wf {ms : List Modulus} {b : RNSBase} (hm : ∀ m ∈ ms, m.WF) (hl : ms.length ≤ 64)
    (h : RNSBase.new ms = .ok b) : b.WF ∧ b.base = ms.toArray := HC.RNSBase.new_wf hm hl h

/-- CRT uniqueness below the product -/
theorem crt_unique {b : RNSBase} (hb : b.WF) {x y : Nat} (hx : x < b.prod) (hy : y < b.prod)
    (h : ∀ i, i < b.size → x % (b.q i).value = y % (b.q i).value) : x = y := HC.crt_unique hb hx hy h

theorem compose_spec {b : RNSBase} (hb : b.WF) {rs : Array Nat} (hs : rs.size = b.size) (hr : ∀ i, i < b.size → rs.getD i 0 < (b.q i).value) :
    ∃ x, b.compose rs = .ok x ∧ x < b.prod ∧ ∀ i, i < b.size → x % (b.q i).value = rs.getD i 0 % (b.q i).value := HC.compose_spec hb hs hr

/-- decompose ∘ compose = id on canonical residue vectors, compose ∘ decompose = id below the product -/
theorem compose_decompose {b : RNSBase} (hb : b.WF) {v : Nat} (hv : v < b.prod) :
    ∃ rs, b.decompose v = .ok rs ∧ b.compose rs = .ok v := HC.compose_decompose hb hv

theorem decompose_compose {b : RNSBase} (hb : b.WF) {rs : Array Nat} (hs : rs.size = b.size)
    (hr : ∀ i, i < b.size → rs.getD i 0 < (b.q i).value) :
    ∃ x, b.compose rs = .ok x ∧ b.decompose x = .ok rs := HC.decompose_compose hb hs hr

/-- FAST BASE CONVERSION: output = (x + alpha·Q) mod p_j for ONE alpha < k common to all output moduli -/
theorem fastConvert_spec {ib ob : RNSBase} {c : BaseConverter} (hi : ib.WF) (ho : ob.WF)
    (hc : BaseConverter.new ib ob = .ok c) {xs : Array Nat} (hs : xs.size = ib.size) (hx : ∀ i, i < ib.size → xs.getD i 0 < 2^64)
    {x : Nat} (hxl : x < ib.prod) (hxr : ∀ i, i < ib.size → x % (ib.q i).value = xs.getD i 0 % (ib.q i).value) :
    ∃ out alpha, c.fastConvert xs = .ok out ∧ out.size = ob.size ∧ alpha < ib.size ∧
      ∀ j, j < ob.size → out.getD j 0 = (x + alpha * ib.prod) % (ob.q j).value := HC.fastConvert_spec hi ho hc hs hx hxl hxr

/-- decomposition below the base product (for a single-modulus base the code does not reduce at all, so the statement for
    arbitrary v < 2^(64·size) is false: refuted as `decomposeSpecStatement_false` in Proofs/C10H.lean) -/
theorem decompose_spec_of {b : RNSBase} (hb : b.WF) {v : Nat} (hv : v < 2^(64 * b.size)) (hd : 1 < b.size ∨ v < b.prod) :
    ∃ rs, b.decompose v = .ok rs ∧ rs.size = b.size ∧ ∀ i, i < b.size → rs.getD i 0 = v % (b.q i).value :=
  HC.decompose_spec_of hb hv hd

end HC.C10
