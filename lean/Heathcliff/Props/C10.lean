import Heathcliff.Proofs.C10H
import Heathcliff.Proofs.C10I
import Heathcliff.Proofs.GenRns2
import Heathcliff.Proofs.GenRns5
import Heathcliff.Proofs.GenRns8
import Heathcliff.Proofs.GenRns11
import Heathcliff.Proofs.GenRns14
import Heathcliff.Proofs.GenRns16
import Heathcliff.Proofs.GenRns19
import Heathcliff.Proofs.GenRns20
import Heathcliff.Proofs.GenRns21
import Heathcliff.Proofs.GenRns22

/- Property theorems only (statements verbatim; proofs are the helper lemmas of Heathcliff/Proofs). -/
namespace HC.C10
open HC
variable {m : Modulus}

theorem RNSBase.new_wf {ms : List Modulus} {b : RNSBase} (hm : ∀ m ∈ ms, m.WF) (hl : ms.length ≤ 64)
    (h : RNSBase.new ms = .ok b) : b.WF ∧ b.base = ms.toArray := HC.RNSBase.new_wf hm hl h

/-- CRT uniqueness below the product -/
theorem crt_unique {b : RNSBase} (hb : b.WF) {x y : Nat} (hx : x < b.prod) (hy : y < b.prod)
    (h : ∀ i, i < b.size → x % (b.q i).value = y % (b.q i).value) : x = y := HC.crt_unique hb hx hy h

theorem compose_spec {b : RNSBase} (hb : b.WF) {rs : Array Nat} (hs : rs.size = b.size) (hr : ∀ i, i < b.size → rs.getD i 0 < (b.q i).value) :
    ∃ x, b.compose rs = .ok x ∧ x < b.prod ∧ ∀ i, i < b.size → x % (b.q i).value = rs.getD i 0 % (b.q i).value := HC.compose_spec hb hs hr

/-- decompose ∘ compose = id on canonical residue vectors, compose ∘ decompose = id below the product -/
theorem compose_decompose {b : RNSBase} (hb : b.WF) {v : Nat} (hv : v < b.prod) :
    ∃ rs, b.decompose v = .ok rs ∧ b.compose rs = .ok v := HC.compose_decompose hb hv

theorem decompose_compose {b : RNSBase} (hb : b.WF) {rs : Array Nat} (hs : rs.size = b.size)
    (hr : ∀ i, i < b.size → rs.getD i 0 < (b.q i).value) :
    ∃ x, b.compose rs = .ok x ∧ b.decompose x = .ok rs := HC.decompose_compose hb hs hr

/-- FAST BASE CONVERSION: output = (x + alpha·Q) mod p_j for ONE alpha < k common to all output moduli -/
theorem fastConvert_spec {ib ob : RNSBase} {c : BaseConverter} (hi : ib.WF) (ho : ob.WF)
    (hc : BaseConverter.new ib ob = .ok c) {xs : Array Nat} (hs : xs.size = ib.size) (hx : ∀ i, i < ib.size → xs.getD i 0 < 2^64)
    {x : Nat} (hxl : x < ib.prod) (hxr : ∀ i, i < ib.size → x % (ib.q i).value = xs.getD i 0 % (ib.q i).value) :
    ∃ out alpha, c.fastConvert xs = .ok out ∧ out.size = ob.size ∧ alpha < ib.size ∧
      ∀ j, j < ob.size → out.getD j 0 = (x + alpha * ib.prod) % (ob.q j).value := HC.fastConvert_spec hi ho hc hs hx hxl hxr


/-- ROUNDING DIVISION: the result is the nearest integer to x / q_L (ties up), reduced mod q_i -/
theorem divRoundLast_scalar {qL qi inv x : Nat} (hqL : 2 ≤ qL) (hqi : 2 ≤ qi) (hinv : (inv * qL) % qi = 1) :
    divRoundLastCoeff qL qi inv (x % qL) (x % qi) = ((x + qL / 2) / qL) % qi := HC.divRoundLast_scalar hqL hqi hinv

/-- BGV DIVISION: with y = (x - x_L)/q_L - neg (an integer, |y - x/q_L| ≤ t + 1) the routine returns y mod q_i,
    and y·q_L ≡ x (mod t): the value modulo t is preserved up to the known factor q_L^{-1} -/
theorem modTDivLast_scalar {t qL qi inv invt x : Nat} (ht : 2 ≤ t) (hqL : 2 ≤ qL) (hqi : 2 ≤ qi)
    (hinv : (inv * qL) % qi = 1) (hinvt : (invt * qL) % t = 1) (hit : invt < t) :
    let xL := x % qL
    let neg := (((t - xL % t) % t) * invt) % t
    let y : Int := ((x - xL) / qL : Nat) - (neg : Int)
    (modTDivLastCoeff t qL qi inv invt xL (x % qi) : Int) = y % (qi : Int) ∧
    (y * qL - x) % (t : Int) = 0 ∧ neg < t := HC.modTDivLast_scalar ht hqL hqi hinv hinvt hit

/-- LIFT to the model (coefficient form): every output component i < size-1, every coefficient j -/
theorem divideAndRoundQLast_spec {r : RNSTool} {p : RnsPoly}
    (hq : ∀ i, i < r.baseQ.size → (r.baseQ.q i).WF) (hs : 2 ≤ r.baseQ.size)
    (hinv : ∀ i, i < r.baseQ.size - 1 → WFOp (r.baseQ.q i) (r.invQLastModQ.getD i default) ∧
        ((r.invQLastModQ.getD i default).operand * (r.baseQ.q (r.baseQ.size - 1)).value) % (r.baseQ.q i).value = 1)
    (hp : p.size = r.baseQ.size) (hn : ∀ i, i < r.baseQ.size → (p.getD i #[]).size = r.n)
    (hc : ∀ i j, i < r.baseQ.size → j < r.n → (p.getD i #[]).getD j 0 < (r.baseQ.q i).value) :
    ∃ out, r.divideAndRoundQLast p = .ok out ∧ ∀ i j, i < r.baseQ.size - 1 → j < r.n →
      (out.getD i #[]).getD j 0 =
        divRoundLastCoeff (r.baseQ.q (r.baseQ.size - 1)).value (r.baseQ.q i).value (r.invQLastModQ.getD i default).operand
          ((p.getD (r.baseQ.size - 1) #[]).getD j 0) ((p.getD i #[]).getD j 0) := HC.divideAndRoundQLast_spec hq hs hinv hp hn hc


/-! ### BEHZ steps: integer lemmas for the per-coefficient formulas the model computes (`…Coeff` in Proofs/C10I.lean,
    tied to the array-level model by the `…_spec` lifting theorems below; statements as formulated and proved there). -/

/-- Montgomery reduction mod q (m̃ = 2^32): m̃ ∣ Y + q·rm, result = ((Y + q·rm)/m̃) mod b_i, rm ∈ [-m̃/2, m̃/2), size bound -/
theorem smMrq_scalar : type_of% @HC.smMrq_scalar := @HC.smMrq_scalar
/-- fast floor: (Y − (x + αQ))/Q = ⌊Y/Q⌋ − α (mod b_i) -/
theorem fastFloor_scalar : type_of% @HC.fastFloor_scalar := @HC.fastFloor_scalar
/-- Shenoy–Kumaresan: exact for 2|V| + 2kB ≤ B·m_sk -/
theorem fastbconvSk_scalar_bound : type_of% @HC.fastbconvSk_scalar_bound := @HC.fastbconvSk_scalar_bound
/-- γ-corrected scale-and-round: returns round(t·x̃/Q) mod t whenever 2γ|e| + 2kQ ≤ Qγ (|e/Q| ≤ 1/2 − k/γ) -/
theorem scaleAndRound_scalar_bound : type_of% @HC.scaleAndRound_scalar_bound := @HC.scaleAndRound_scalar_bound
/-- liftings: the array-level model routines compute exactly these per-coefficient formulas -/
theorem smMrq_spec : type_of% @HC.smMrq_spec := @HC.smMrq_spec
theorem fastFloor_spec : type_of% @HC.fastFloor_spec := @HC.fastFloor_spec
theorem fastbconvSk_spec : type_of% @HC.fastbconvSk_spec := @HC.fastbconvSk_spec
theorem decryptScaleAndRound_spec : type_of% @HC.decryptScaleAndRound_spec := @HC.decryptScaleAndRound_spec
theorem modTAndDivideQLast_spec : type_of% @HC.modTAndDivideQLast_spec := @HC.modTAndDivideQLast_spec

/-- decomposition below the base product (for a single-modulus base the code does not reduce at all, so the statement for
    arbitrary v < 2^(64·size) is false: refuted as `decomposeSpecStatement_false` in Proofs/C10H.lean) -/
theorem decompose_spec_of {b : RNSBase} (hb : b.WF) {v : Nat} (hv : v < 2^(64 * b.size)) (hd : 1 < b.size ∨ v < b.prod) :
    ∃ rs, b.decompose v = .ok rs ∧ rs.size = b.size ∧ ∀ i, i < b.size → rs.getD i 0 = v % (b.q i).value :=
  HC.decompose_spec_of hb hv hd

/-! ### translator tie, phase 4c (TRANSLATOR.md): `Gen/RnsFns.lean` is regenerated from src/util/polysmallmod.rs, src/modulus.rs and src/util/rns.rs
    on every run; the generated functions EQUAL the hand model (statements as proved in Proofs/GenRns.lean, Proofs/GenRns2.lean). -/

/-- `Modulus::reduce` -/
theorem gen_modulus_reduce_eq (m : Modulus) (x : Nat) : HC.GenR.modulus_reduce m x = barrett64 x m := HC.gr_modulus_reduce_eq m x
/-- the component-wise helpers of polysmallmod.rs (iterator chains in the source) are `mapM`s of the hand model's word functions -/
theorem gen_modulo_eq (c : List Nat) (m : Modulus) (r : List Nat) (h : r.length = c.length) :
    HC.GenR.modulo c m r = c.mapM (fun x => barrett64 x m) := HC.gr_modulo_eq c m r h
theorem gen_negate_inplace_eq (l : List Nat) (m : Modulus) : HC.GenR.negate_inplace l m = l.mapM (fun x => negateMod x m) := HC.gr_negate_inplace_eq l m
theorem gen_add_scalar_inplace_eq (l : List Nat) (s : Nat) (m : Modulus) :
    HC.GenR.add_scalar_inplace l s m = l.mapM (fun x => addMod x s m) := HC.gr_add_scalar_inplace_eq l s m
theorem gen_sub_scalar_inplace_eq (l : List Nat) (s : Nat) (m : Modulus) :
    HC.GenR.sub_scalar_inplace l s m = l.mapM (fun x => subMod x s m) := HC.gr_sub_scalar_inplace_eq l s m
theorem gen_sub_inplace_eq (a b : List Nat) (m : Modulus) (h : a.length ≤ b.length) :
    HC.GenR.sub_inplace a b m = (List.range' 0 a.length).mapM (fun j => subMod (a.getD j 0) (b.getD j 0) m) := HC.gr_sub_inplace_eq a b m h
theorem gen_multiply_operand_inplace_eq (l : List Nat) (o : MulOperand) (m : Modulus) :
    HC.GenR.multiply_operand_inplace l o m = l.mapM (fun x => mulOperandMod x o m) := HC.gr_multiply_operand_inplace_eq l o m
theorem gen_multiply_scalar_inplace_eq (l : List Nat) (s : Nat) (m : Modulus) :
    HC.GenR.multiply_scalar_inplace l s m = l.mapM (fun x => mulMod x s m) := HC.gr_multiply_scalar_inplace_eq l s m

/-- `RNSTool::divide_and_round_q_last_inplace` generated from the source = `RNSTool.divideAndRoundQLast` on the flat buffer `flatP p`
    (component i, coefficient j at i·n + j).  `self.base_q.len()`, `base_at(i)`, `coeff_count`, `inv_q_last_mod_q[i]` are inputs of the generated
    function, instantiated with the model tool's fields.  No range assumption on the coefficients. -/
theorem gen_divide_and_round_q_last_inplace_eq (r : RNSTool) (p : RnsPoly)
    (hs : 1 ≤ r.baseQ.size) (hq : ∀ i, i < r.baseQ.size → (r.baseQ.q i).WF) (hinv : r.baseQ.size - 1 ≤ r.invQLastModQ.size)
    (hsn : r.baseQ.size * r.n < 2^64) (hs64 : r.baseQ.size < 2^64) (hp : HC.gr_Shape r p) :
    HC.GenR.divide_and_round_q_last_inplace (HC.flatP p) r.baseQ.size r.baseQ.base.toList r.n r.invQLastModQ.toList
      = (r.divideAndRoundQLast p).map HC.flatP := HC.gr_divide_and_round_q_last_inplace_eq r p hs hq hinv hsn hs64 hp

/-- END TO END: the function generated from the Rust source returns, at position i·n + j, the residue mod q_i of the nearest integer to
    X_j / q_last (ties up), for every polynomial holding the canonical residues of integers X_j -/
theorem gen_divide_and_round_q_last_inplace_rounds (r : RNSTool) (p : RnsPoly) (X : Nat → Nat)
    (hq : ∀ i, i < r.baseQ.size → (r.baseQ.q i).WF) (hs : 2 ≤ r.baseQ.size)
    (hinv : ∀ i, i < r.baseQ.size - 1 → WFOp (r.baseQ.q i) (r.invQLastModQ.getD i default) ∧
        ((r.invQLastModQ.getD i default).operand * (r.baseQ.q (r.baseQ.size - 1)).value) % (r.baseQ.q i).value = 1)
    (hinvs : r.baseQ.size - 1 ≤ r.invQLastModQ.size)
    (hsn : r.baseQ.size * r.n < 2^64) (hs64 : r.baseQ.size < 2^64) (hp : HC.gr_Shape r p)
    (hX : ∀ i j, i < r.baseQ.size → j < r.n → (p.getD i #[]).getD j 0 = X j % (r.baseQ.q i).value) :
    ∃ out, HC.GenR.divide_and_round_q_last_inplace (HC.flatP p) r.baseQ.size r.baseQ.base.toList r.n r.invQLastModQ.toList = .ok out ∧
      ∀ i j, i < r.baseQ.size - 1 → j < r.n →
        out.getD (i * r.n + j) 0 = ((X j + (r.baseQ.q (r.baseQ.size - 1)).value / 2) / (r.baseQ.q (r.baseQ.size - 1)).value) % (r.baseQ.q i).value :=
  HC.gr_divide_and_round_q_last_inplace_rounds r p X hq hs hinv hinvs hsn hs64 hp hX

/-- `RNSTool::mod_t_and_divide_q_last_ntt_inplace` generated from the source = `RNSTool.modTAndDivideQLastNtt`; the calls `polymod::intt` /
    `polymod::ntt` with table i are abstract function inputs of the generated code, instantiated with the model's `intt` / `ntt` of `tables[i]` -/
theorem gen_mod_t_and_divide_q_last_ntt_inplace_eq : type_of% @HC.gr_mod_t_and_divide_q_last_ntt_inplace_eq :=
  @HC.gr_mod_t_and_divide_q_last_ntt_inplace_eq

/-- coefficient-form BGV division generated from the source = `RNSTool.modTAndDivideQLast` (the `+=` of the inner loop traps on both sides alike) -/
theorem gen_mod_t_and_divide_q_last_inplace_eq : type_of% @HC.gr_mod_t_and_divide_q_last_inplace_eq := @HC.gr_mod_t_and_divide_q_last_inplace_eq
/-- END TO END (BGV, coefficient form): the generated function returns y mod q_i with y = (X − [X]_{q_L})/q_L − [−X q_L⁻¹]_t and y·q_L ≡ X (mod t) -/
theorem gen_mod_t_and_divide_q_last_inplace_bgv : type_of% @HC.gr_mod_t_and_divide_q_last_inplace_bgv := @HC.gr_mod_t_and_divide_q_last_inplace_bgv
/-- `divide_and_round_q_last_ntt_inplace` generated from the source = `RNSTool.divideAndRoundQLastNtt` (abstract inverse / lazy forward NTT of table i
    instantiated with the model's `intt` / `nttLazy`; only `2^k = n` is used about the tables; no range assumption on the coefficients) -/
theorem gen_divide_and_round_q_last_ntt_inplace_eq : type_of% @HC.gr_divide_and_round_q_last_ntt_inplace_eq := @HC.gr_divide_and_round_q_last_ntt_inplace_eq

/-- BEHZ `sm_mrq` (Montgomery reduction mod q in base Bsk ∪ {m̃}) generated from the source = `RNSTool.smMrq`; destination buffer contents irrelevant;
    every checked operation traps on both sides alike (no well-formedness hypotheses, only shapes / table sizes / buffer length fits a usize) -/
theorem gen_sm_mrq_eq : type_of% @HC.gr_sm_mrq_eq := @HC.gr_sm_mrq_eq
/-- `polysmallmod::multiply_operand` -/
theorem gen_multiply_operand_eq (c : List Nat) (o : MulOperand) (m : Modulus) (r : List Nat) (h : r.length = c.length) :
    HC.GenR.multiply_operand c o m r = c.mapM (fun x => mulOperandMod x o m) := HC.gr_multiply_operand_eq c o m r h
/-- `util::set_uint` on buffers of exactly `len` words -/
theorem gen_set_uint_eq (src tgt : List Nat) (n : Nat) (h1 : src.length = n) (h2 : tgt.length = n) : HC.GenR.set_uint src n tgt = .ok src :=
  HC.gr_set_uint_eq src tgt n h1 h2

/-! ### translator tie, phase 4f: `BaseConverter::fast_convert_array` and the BEHZ routines built on it (Proofs/GenRns4.lean, GenRns5.lean) -/

/-- `BaseConverter::fast_convert_array` generated from the source = `BaseConverter.fastConvertArray` on the flat layout, for every converter built by
    `BaseConverter.new` from well-formed bases, word inputs, and ANY destination buffer of the right shape (every position is written) -/
theorem gen_fast_convert_array_eq : type_of% @HC.gr_fast_convert_array_eq := @HC.gr_fast_convert_array_eq
/-- the same for a converter given by its properties (`gr_ConvOK` is what `BaseConverter.new` establishes: `gen_convOK_new`) -/
theorem gen_fast_convert_array_core : type_of% @HC.gr_fca_core := @HC.gr_fca_core
theorem gen_convOK_new : type_of% @HC.gr_convOK_new := @HC.gr_convOK_new
/-- END TO END with the C10 theorem: the generated function returns `(X_j + α_j·Q) mod p_o` at position `o·n + j`, one `α_j < k` for all output moduli -/
theorem gen_fast_convert_array_crt : type_of% @HC.gr_fast_convert_array_crt := @HC.gr_fast_convert_array_crt
/-- `RNSTool::fast_floor` generated from the source = `RNSTool.fastFloor`; its call of `base_q_to_Bsk_conv.fast_convert_array` is the generated
    `fast_convert_array` on the fields of the model's `qToBsk` (`gr_convF`) -/
theorem gen_fast_floor_eq : type_of% @HC.gr_fast_floor_eq := @HC.gr_fast_floor_eq

/-- END TO END (BEHZ small Montgomery reduction): generated `sm_mrq` composed with `smMrq_spec` and `smMrq_scalar`: position `i·n + j` of ANY destination
    buffer receives `((Y_j + q·r_j)/m̃) mod b_i`, `r_j` the centred representative of `−Y_j·q⁻¹ mod m̃`, and `m̃ ∣ Y_j + q·r_j` -/
theorem gen_sm_mrq_montgomery : type_of% @HC.gr_sm_mrq_montgomery := @HC.gr_sm_mrq_montgomery

/-! ### translator tie, phase 4k: `RNSTool::decrypt_scale_and_round` (Proofs/GenRns6.lean, GenRns7.lean, GenRns8.lean) -/

/-- `RNSTool::decrypt_scale_and_round` generated from the source = `RNSTool.decryptScaleAndRound`; flat input of `|q|` components, ANY destination of `n`
    words; the `Option` fields are `Some`, `base_t_gamma = [t, γ]`; its call `base_q_to_t_gamma_conv.as_ref().unwrap().fast_convert_array(..)` is the
    generated `fast_convert_array` on the fields of the model's `qToTGamma`; the γ-correction traps on both sides alike -/
theorem gen_decrypt_scale_and_round_eq : type_of% @HC.gr_decrypt_scale_and_round_eq := @HC.gr_decrypt_scale_and_round_eq
/-- the two operand vectors `decrypt_scale_and_round` indexes have the lengths `RNSTool.new` gives them -/
theorem gen_dsr_sizes_of_new : type_of% @HC.gr_dsr_sizes_of_new := @HC.gr_dsr_sizes_of_new
/-- END TO END (BEHZ scale-and-round, BFV decryption): on a level whose tool is the level's BEHZ tool (`DecOK`), for every canonical input whose
    coefficient `j` has CRT value `X j < Q`, the GENERATED function returns word `j` = `round(t·x̃_j/Q) mod t` (x̃ centred) under the γ-condition
    `2γ|t·x̃ − Q·round(t·x̃/Q)| + 2kQ ≤ Qγ`; the destination buffer's old contents are irrelevant -/
theorem gen_decrypt_scale_and_round_rounds {l : Level} (hd : DecOK l) {ph : RnsPoly} (hph : RnsCanon l ph) (dst : Poly) (hdst : dst.size = l.n)
    (hops : l.tool.baseQ.size ≤ l.tool.prodTGammaModQ.size) (hnops : 2 ≤ l.tool.negInvQModTGamma.size)
    (hsn : l.size * l.n < 2^64) (h2n : 2 * l.n < 2^64) (hs64 : l.size < 2^64)
    (X : Nat → Nat)
    (hX : ∀ j, j < l.n → X j < l.tool.baseQ.prod ∧ ∀ i, i < l.size → X j % (l.q i).value = (ph.getD i #[]).getD j 0)
    (hnoise : ∀ j, j < l.n →
      2 * (l.tool.gamma.value : Int) *
          |(l.t.value : Int) * Spec.centred (X j) l.tool.baseQ.prod
            - (l.tool.baseQ.prod : Int) * Spec.roundDiv ((l.t.value : Int) * Spec.centred (X j) l.tool.baseQ.prod) l.tool.baseQ.prod|
        + 2 * (l.size : Int) * (l.tool.baseQ.prod : Int)
      ≤ (l.tool.baseQ.prod : Int) * (l.tool.gamma.value : Int)) :
    ∃ btg conv ig, l.tool.baseTGamma = some btg ∧ l.tool.qToTGamma = some conv ∧ l.tool.invGammaModT = some ig ∧
    ∃ out, HC.GenR.decrypt_scale_and_round (HC.flatP ph) dst.toList l.tool.baseQ.size l.tool.baseQ.base.toList btg.size btg.base.toList l.tool.n
        l.tool.prodTGammaModQ.toList l.tool.negInvQModTGamma.toList l.tool.t l.tool.gamma ig (HC.gr_convF conv) = .ok out ∧
      out.length = l.n ∧ ∀ j, j < l.n →
        out.getD j 0 = Spec.imod (Spec.roundDiv ((l.t.value : Int) * Spec.centred (X j) l.tool.baseQ.prod) l.tool.baseQ.prod) l.t.value :=
  HC.gr_decrypt_scale_and_round_rounds hd hph dst hdst hops hnops hsn h2n hs64 X hX hnoise

/-- `RNSTool::fastbconv_sk` (Shenoy–Kumaresan conversion Bsk → q) generated from the source = `RNSTool.fastbconvSk`; flat input of `|B| + 1` components, ANY
    destination of `|q|` components; its two receiver calls are the generated `fast_convert_array` on the model's `bToQ` / `bToMsk`; the element borrow
    `let dest = &mut destination[i * coeff_count + j]` is read as index + in-place access; every checked operation traps on both sides alike -/
theorem gen_fastbconv_sk_eq : type_of% @HC.gr_fastbconv_sk_eq := @HC.gr_fastbconv_sk_eq
/-- END TO END (exact window): if coefficient `j` holds the residues of an integer `V j` modulo the primes of `B` and modulo `m_sk` and
    `2|V j| + 2·|B|·prod(B) ≤ prod(B)·m_sk`, the GENERATED `fastbconv_sk` writes `V j mod q_i` at position `i·n + j` of any destination buffer -/
theorem gen_fastbconv_sk_exact : type_of% @HC.gr_fastbconv_sk_exact := @HC.gr_fastbconv_sk_exact

/-- BRIDGE between the two generated files: `polymod::multiply_scalar_p` (generated into `Gen/PolyFns.lean`, block form `gen_poly_multiply_scalar_p_blocks`
    of C02) on a flat buffer of `sq` components into a zeroed scratch buffer = component-wise `mulMod · s q_i` -/
theorem gen_multiply_scalar_p_components : type_of% @HC.gr_msp_list := @HC.gr_msp_list
/-- `RNSTool::fastbconv_m_tilde` generated from the source = `RNSTool.fastbconvMTilde`; it calls the GENERATED `multiply_scalar_p` and twice the generated
    `fast_convert_array` (on the model's `qToBsk`, `qToMt`), each conversion writing a sub-slice of ANY destination buffer of `|Bsk| + 1` components -/
theorem gen_fastbconv_m_tilde_eq : type_of% @HC.gr_fastbconv_m_tilde_eq := @HC.gr_fastbconv_m_tilde_eq
/-- END TO END: all `|Bsk| + 1` outputs of the generated `fastbconv_m_tilde` are residues of ONE integer `[m̃·X_j]_Q + α_j·Q`, `α_j < |q|` -/
theorem gen_fastbconv_m_tilde_crt : type_of% @HC.gr_fastbconv_m_tilde_crt := @HC.gr_fastbconv_m_tilde_crt

/-! ### translator tie, phase 4k: `RNSBase::decompose`, `decompose_array` (Proofs/GenRns15.lean, GenRns16.lean) -/

/-- `RNSBase::decompose` generated from the source = `RNSBase.decompose` on the value of the limbs (non-empty base: for the empty base, which
    `RNSBase::new` refuses, the code returns the empty buffer and the model `#[v]`) -/
theorem gen_rnsbase_decompose_eq : type_of% @HC.gr_rnsbase_decompose_eq := @HC.gr_rnsbase_decompose_eq
/-- a value buffer whose length differs from the base's is refused (`assert_eq!`) -/
theorem gen_rnsbase_decompose_refuses : type_of% @HC.gr_rnsbase_decompose_refuses := @HC.gr_rnsbase_decompose_refuses
/-- END TO END with `decompose_spec_of`: the generated `decompose` returns the residues `x mod q_i` -/
theorem gen_rnsbase_decompose_residues : type_of% @HC.gr_rnsbase_decompose_residues := @HC.gr_rnsbase_decompose_residues
/-- `RNSBase::decompose_array` generated from the source (`iter().enumerate()`, `chunks(size).enumerate()` read as index loops): component `i` of the
    result = `modulo_uint(value_j, q_i)`, `j < count` -/
theorem gen_rnsbase_decompose_array_eq : type_of% @HC.gr_rnsbase_decompose_array_eq := @HC.gr_rnsbase_decompose_array_eq
/-- END TO END: position `i·count + j` = `value_j mod q_i` -/
theorem gen_rnsbase_decompose_array_residues : type_of% @HC.gr_rnsbase_decompose_array_residues := @HC.gr_rnsbase_decompose_array_residues

/-! ### translator tie, phase 4k: `BaseConverter::exact_convey_array`, `RNSTool::decrypt_mod_t` (floats erased; Proofs/GenRns17.lean – GenRns19.lean) -/

/-- `BaseConverter::exact_convey_array` generated from the source — its f64 pipeline replaced by the abstract function input `roundQ : List Nat → Nat` of
    the scaled residues of one coefficient (table-declared reading, pinned to the exact float statements) — = the model's `exactConvey` on every
    column, PROVIDED `roundQ` returns a u64 equal to the exact rational rounding `exactRound` on every coefficient -/
theorem gen_exact_convey_array_eq : type_of% @HC.gr_exact_convey_array_eq := @HC.gr_exact_convey_array_eq
/-- `RNSTool::decrypt_mod_t` generated from the source = `RNSTool.decryptModT` (same proviso) -/
theorem gen_decrypt_mod_t_eq : type_of% @HC.gr_decrypt_mod_t_eq := @HC.gr_decrypt_mod_t_eq
/-- END TO END (BGV decryption): the generated `decrypt_mod_t` returns the centred residue of `X j` modulo t (composition with C01's
    `c01p_decryptModT_of_crt`), same proviso about the floating-point rounding -/
theorem gen_decrypt_mod_t_centred : type_of% @HC.gr_decrypt_mod_t_centred := @HC.gr_decrypt_mod_t_centred

/-- END TO END (BEHZ fast floor; the composition left open in phase 4f): the generated `fast_floor` writes `(⌊Y_j/Q⌋ − α_j) mod b_i` at `i·n + j` of ANY destination
    buffer, ONE `α_j ∈ [0, |q|)` for all `b_i ∈ Bsk` (composition of `gen_fast_floor_eq` with `fastFloor_spec`, `fastFloor_scalar`, `RNSH.crt_sum`) -/
theorem gen_fast_floor_floor : type_of% @HC.gr_fast_floor_floor := @HC.gr_fast_floor_floor

/-- stepping stone for `RNSBase::compose` (not tied yet): the C08 word-layer function `util::multiply_uint_u64` (src/util/basic.rs; left out in phase 4d)
    generated from the source = the hand model `multiplyUintU64`, for EVERY operand, word and result buffer (zero operand / one-word result / limb loop
    with the final carry) -/
theorem gen_multiply_uint_u64_eq (a : List Nat) (w : Nat) (r : List Nat) : HC.GenR.multiply_uint_u64 a w r = multiplyUintU64 a w r.length :=
  HC.gr_multiply_uint_u64_eq a w r

/-! ### translator tie, phase 4k: `RNSBase::compose` (generated into Gen/Rns2Fns.lean; Proofs/GenRns22.lean) -/

/-- `RNSBase::compose` generated from the source (calls the generated `multiply_uint_u64`, `add_uint_mod_inplace`, `multiply_u64operand_mod`) = the hand
    model's value-level `RNSBase.compose` on a well-formed base: the limbs left in `value` are the limbs of the model's value -/
theorem gen_rnsbase_compose_eq : type_of% @HC.gr_rnsbase_compose_eq := @HC.gr_rnsbase_compose_eq
/-- END TO END with `compose_spec`: for canonical residues the generated `compose` returns the limbs of THE integer below the product with these residues -/
theorem gen_rnsbase_compose_crt : type_of% @HC.gr_rnsbase_compose_crt := @HC.gr_rnsbase_compose_crt
/-- decompose ∘ compose = id on the GENERATED code -/
theorem gen_decompose_compose : type_of% @HC.gr_decompose_compose_gen := @HC.gr_decompose_compose_gen

end HC.C10
