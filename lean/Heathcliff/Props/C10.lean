import Heathcliff.Model.RNS
namespace HC.C10
theorem placeholder_isPow2 : isPow2 8 = true := by decide
end HC.C10
