import Heathcliff.Proofs.C06Y
import Heathcliff.Gen.Forms
import Heathcliff.Model.Evaluator
import Heathcliff.Proofs.GenValid
import Heathcliff.Proofs.GenEvalCt2
/-
  C06 — API variants agree: the shape of every public Evaluator method family is extracted from the Rust source on every run
  (`Heathcliff/Gen/Forms.lean`); the theorems below are about that generated table, so a `_new` / destination form that stops
  being "clone the read-only operand, then run the in-place core" (or the reverse construction through the destination form)
  breaks `forms_table_ok`.
-/
namespace HC.C06
open HC.Gen

/-- a family is well-formed if one form is the core and the other two are derived from it without touching the operand -/
def familyOk (f : FormFamily) : Bool :=
  match f.inplace, f.dest, f.new with
  | .core, .cloneThen c, .cloneThen c' => c == f.name ++ "_inplace" && c' == c
  | .direct d, .cloneThen c, .cloneThen c' => (c == f.name ++ "_inplace" || c == d) && c' == c
  | .viaDest c, .core, .viaDest c' => c == f.name && c' == f.name
  | _, _, _ => false

/-- OBLIGATION ON THE SOURCE: every one of the extracted families has an admissible shape -/
theorem forms_table_ok : evaluatorForms.all familyOk = true := by decide

/-- semantics of the shapes: `core` is a function from the object (with the other, read-only, arguments fixed) to the result;
    cloning is the identity on values; the destination form overwrites its destination with the result -/
def denote {α : Type} (core : α → α) : FormShape → α → α
  | .core => core
  | .cloneThen _ => fun a => core (id a)
  | .viaDest _ => fun a => core a
  | .direct _ => core

/-- FORMS AGREE: in every admissible family the in-place, destination and returning forms denote the same function of the
    operand (so they are bit-identical), and the read-only operand is only ever cloned -/
theorem forms_agree {α : Type} (core : α → α) (f : FormFamily) (_h : familyOk f = true) (a : α) :
    denote core f.inplace a = denote core f.dest a ∧ denote core f.dest a = denote core f.new a := by
  cases hi : f.inplace <;> cases hd : f.dest <;> cases hn : f.new <;> simp [denote]

/-- there are at least the 25 families of the pinned tree (a family silently losing one of its forms shrinks the table) -/
theorem forms_table_size : 25 ≤ evaluatorForms.length := by decide

/-- level walk / refusal model facts used by the check -/
theorem upward_refused {cur tgt : Nat} (h : cur < tgt) : switchSteps cur tgt = .error .refused := by
  unfold switchSteps; simp [h]

/-! ### translator tie: `Ciphertext::is_metadata_valid_for` / `is_buffer_valid` (src/valcheck.rs) generated into Gen/ValidFns.lean
     (Proofs/GenValid.lean): `ctValid` of the hand model = generated metadata check ∧ shape/data part -/
open HC in
theorem gen_ctValid_split (l : Level) (ct : Ct) (s1 s0 : Bool) :
    ctValid l ct s1 s0 = (HC.gx_ctMetaValid l ct s1 s0 && HC.gx_ctShapeOk l ct) := HC.gx_ctValid_split l ct s1 s0
open HC in
theorem gen_ct_is_metadata_valid_for_eq (l : Level) (ct : Ct) (s1 s0 allow : Bool) (chain first : Nat)
    (hk : allow = true ∨ chain ≤ first) :
    GenV.ct_is_metadata_valid_for allow true false chain first l.size l.n l.size l.n ct.polys.size
        (decide (l.scheme = .bfv)) (decide (l.scheme = .bgv)) (decide (l.scheme = .ckks)) (!s1) s0 ct.cf l.t.value =
      HC.gx_ctMetaValid l ct s1 s0 := HC.gx_ct_is_metadata_valid_for_eq l ct s1 s0 allow chain first hk
open HC in
theorem gen_ctValid_eq (l : Level) (ct : Ct) (s1 s0 allow : Bool) (chain first : Nat) (hk : allow = true ∨ chain ≤ first) :
    ctValid l ct s1 s0 =
      (GenV.ct_is_metadata_valid_for allow true false chain first l.size l.n l.size l.n ct.polys.size
        (decide (l.scheme = .bfv)) (decide (l.scheme = .bgv)) (decide (l.scheme = .ckks)) (!s1) s0 ct.cf l.t.value
       && HC.gx_ctShapeOk l ct) := HC.gx_ctValid_eq_gen l ct s1 s0 allow chain first hk
open HC in
theorem gen_ct_is_metadata_valid_for_refuses (allow pset missing : Bool) (chain first ls ln cc cn sz : Nat) (b1 b2 b3 sn sz0 : Bool) (cf t : Nat)
    (h : pset = false ∨ missing = true ∨ (allow = false ∧ chain > first) ∨ cc ≠ ls ∨ cn ≠ ln) :
    GenV.ct_is_metadata_valid_for allow pset missing chain first ls ln cc cn sz b1 b2 b3 sn sz0 cf t = false :=
  HC.gx_ct_is_metadata_valid_for_refuses allow pset missing chain first ls ln cc cn sz b1 b2 b3 sn sz0 cf t h
open HC in
theorem gen_ct_is_buffer_valid_eq (dataLen cc sz n : Nat) (h1 : cc * sz < 2^64) (h : cc * sz * n < 2^64) :
    GenV.ct_is_buffer_valid dataLen cc sz n = .ok (decide (dataLen = cc * sz * n)) := HC.gx_ct_is_buffer_valid_eq dataLen cc sz n h1 h


/-! ### validity (`ctValid`) is preserved by every modelled operation; refusals; exact relationship with canonicity; findings about the validity predicate (the accepted BGV correction factors are 1 ≤ cf ≤ t − 1 — `cf = t` is rejected since the repair of `is_metadata_valid_for` —; for a COMPOSITE t that range still contains non-units, for a PRIME t validity is closed under every operation without any unit hypothesis)
    (statements and hypothesis bundles: Heathcliff/Proofs/C06Y.lean; concrete witnesses in the NonVac world: Heathcliff/Proofs/C06YW.lean) -/

/-- Y1: `ctValid` is exactly: size 0 or 2..16, all polynomials canonical, scale condition, correction factor in range -/
theorem ctValid_iff : type_of% @HC.ctValid_iff := @HC.ctValid_iff

/-- Y1, converse of `CtCanon.of_ctValid`: a canonical ciphertext with the right scale flags is valid -/
theorem ctValid_of_CtCanon : type_of% @HC.ctValid_of_CtCanon := @HC.ctValid_of_CtCanon

/-- Y1: for a NON-EMPTY ciphertext, validity is canonicity plus the scale condition (an iff: the correction-factor ranges of the two
    predicates coincide, for BGV both are 1 ≤ cf ≤ t − 1) -/
theorem ctValid_iff_CtCanon : type_of% @HC.ctValid_iff_CtCanon := @HC.ctValid_iff_CtCanon

/-- Y1, the only difference: the EMPTY ciphertext (size 0) is valid (with the right flags and correction factor) but not `CtCanon` -/
theorem ctValid_empty : type_of% @HC.ctValid_empty := @HC.ctValid_empty

/-- Y1: the polynomial / size / correction-factor part of validity does not depend on the scale flags -/
theorem ctValid_flags : type_of% @HC.ctValid_flags := @HC.ctValid_flags

/-- Y1 (the repaired boundary): for BGV a correction factor EQUAL to `t` (≡ 0, not a unit modulo t) is rejected, whatever the rest of
    the ciphertext is (before the repair of `is_metadata_valid_for` it was accepted: `correction_factor > plain_modulus`) -/
theorem ctValid_rejects_cf_t : type_of% @HC.ctValid_rejects_cf_t := @HC.ctValid_rejects_cf_t

/-- Y1: for BGV the accepted correction factors are exactly 1 ≤ cf ≤ t − 1: replacing the factor of a valid ciphertext by `f` keeps it
    valid iff `f ≠ 0 ∧ f < t` -/
theorem ctValid_bgv_cf_range : type_of% @HC.ctValid_bgv_cf_range := @HC.ctValid_bgv_cf_range

/-- Y2 `negate`: total on valid ciphertexts, result valid (same size, representation, correction factor) -/
theorem ctNegate_valid : type_of% @HC.ctNegate_valid := @HC.ctNegate_valid

theorem ctNegate_preserves_valid : type_of% @HC.ctNegate_preserves_valid := @HC.ctNegate_preserves_valid

/-- Y2 `add` / `sub` (equal correction factors): total on valid operands in the same representation, result valid, size max -/
theorem ctTranslate_valid : type_of% @HC.ctTranslate_valid := @HC.ctTranslate_valid

theorem ctTranslate_preserves_valid : type_of% @HC.ctTranslate_preserves_valid := @HC.ctTranslate_preserves_valid

/-- Y2 `add` / `sub` with balancing: total on valid operands in the same representation whose correction factors are equal or
    both UNITS modulo t; the result is valid.  (For BFV / CKKS validity forces both factors to be 1, so the unit hypothesis is
    vacuous there; `ht` is only used when the factors differ, which forces BGV.) -/
theorem ctTranslateBalanced_valid : type_of% @HC.ctTranslateBalanced_valid := @HC.ctTranslateBalanced_valid

/-- Y2, `.ok` form: whenever the balanced add / sub of valid operands succeeds and (in case the factors differ) the SECOND factor
    is a unit, the result is valid (success already certifies that the first factor is a unit) -/
theorem ctTranslateBalanced_preserves_valid : type_of% @HC.ctTranslateBalanced_preserves_valid := @HC.ctTranslateBalanced_preserves_valid

/-- Y2 `add` / `sub` with balancing, PRIME plain modulus: strong closure — total on valid operands in the same representation, the
    result is valid; no unit hypothesis (every accepted factor 1 ≤ cf ≤ t − 1 is a unit modulo a prime) -/
theorem ctTranslateBalanced_valid_prime : type_of% @HC.ctTranslateBalanced_valid_prime := @HC.ctTranslateBalanced_valid_prime

/-- Y3 / Y4 refusal: an empty operand is refused by the dyadic product -/
theorem ctMultiplyDyadic_refuse_empty : type_of% @HC.ctMultiplyDyadic_refuse_empty := @HC.ctMultiplyDyadic_refuse_empty

/-- Y2 + Y4 `multiply` (CKKS product / dyadic step): on valid non-empty NTT-form operands whose product fits
    (`n1 + n2 − 1 ≤ 16`) the model succeeds, and the result has `n1 + n2 − 1` canonical polynomials and is VALID.  (Oversize
    products are refused, as `Ciphertext::resize` does in the code: `ctMultiplyDyadic_valid_or_refused`.) -/
theorem ctMultiplyDyadic_valid : type_of% @HC.ctMultiplyDyadic_valid := @HC.ctMultiplyDyadic_valid

/-- the size check of `Ciphertext::resize_internal` with the regenerated limits `HE_CIPHERTEXT_SIZE_MIN/MAX`: a size is accepted
    iff it is 0 or in [2, 16] (re-checked whenever `Gen/Constants.lean` changes) -/
theorem ctResizeRefuses_eq_false_iff : type_of% @HC.ctResizeRefuses_eq_false_iff := @HC.ctResizeRefuses_eq_false_iff

/-- Y4 refusal (size), as in the code (`Ciphertext::resize`: "[Invalid argument] Size invalid."): a product of more than 16
    polynomials is refused, whatever the operands are -/
theorem ctMultiplyDyadic_refuse_oversize : type_of% @HC.ctMultiplyDyadic_refuse_oversize := @HC.ctMultiplyDyadic_refuse_oversize

/-- Y4 refusal (size) for `bgv_multiply` -/
theorem bgvMultiply_refuse_oversize : type_of% @HC.bgvMultiply_refuse_oversize := @HC.bgvMultiply_refuse_oversize

/-- Y4 refusal (size) for `bfv_multiply`: `resize` comes first; a destination size it refuses (1, or more than 16) is refused
    whatever the operands and the level are -/
theorem bfvMultiply_refuse_size : type_of% @HC.bfvMultiply_refuse_size := @HC.bfvMultiply_refuse_size

/-- Y2 + Y4, the complete case analysis of `multiply` (CKKS product / dyadic step) on VALID operands: the model either returns a
    VALID result of `n1 + n2 − 1` polynomials or REFUSES (error code `refused`, never another error); it refuses exactly when an
    operand is not in NTT form, an operand is empty, or the product would have more than 16 polynomials. -/
theorem ctMultiplyDyadic_valid_or_refused : type_of% @HC.ctMultiplyDyadic_valid_or_refused := @HC.ctMultiplyDyadic_valid_or_refused

/-- for non-empty NTT-form valid operands: refused IFF the product would have more than 16 polynomials -/
theorem ctMultiplyDyadic_refused_iff : type_of% @HC.ctMultiplyDyadic_refused_iff := @HC.ctMultiplyDyadic_refused_iff

/-- Y2 + Y4 for `bgv_multiply` with a PRIME plain modulus, the complete case analysis on VALID operands: a VALID result or the
    error `refused`; refused exactly when an operand is not in NTT form, an operand is empty, or the product would have more than 16
    polynomials.  For composite t validity of the result additionally needs unit correction factors
    (`bgvMultiply_valid_needs_unit`). -/
theorem bgvMultiply_valid_or_refused : type_of% @HC.bgvMultiply_valid_or_refused := @HC.bgvMultiply_valid_or_refused

/-- Y2 for `bfv_multiply` (BEHZ), with the data part (C02W): on valid non-empty coefficient-form operands at a level satisfying
    `MulOK` (derived from the constructors: `c02w_mulOK_of_new`) whose product fits, the model succeeds and the result is VALID -/
theorem bfvMultiply_valid : type_of% @HC.bfvMultiply_valid := @HC.bfvMultiply_valid

/-- Y2 + Y4 for `bfv_multiply`, the complete case analysis on VALID operands at a `MulOK` level: a VALID result or the error
    `refused` (never another error: no overflow / out-of-range branch of the BEHZ pipeline is reachable); refused exactly when an
    operand is in NTT form, an operand is empty, or the product would have more than 16 polynomials -/
theorem bfvMultiply_valid_or_refused : type_of% @HC.bfvMultiply_valid_or_refused := @HC.bfvMultiply_valid_or_refused

theorem ctMultiplyDyadic_preserves_valid : type_of% @HC.ctMultiplyDyadic_preserves_valid := @HC.ctMultiplyDyadic_preserves_valid

/-- Y4: the size law of the product, from `.ok` alone (no validity needed) -/
theorem ctMultiplyDyadic_size : type_of% @HC.ctMultiplyDyadic_size := @HC.ctMultiplyDyadic_size

/-- Y2 `bgv_multiply`: on valid non-empty NTT-form BGV operands whose product fits (`n1 + n2 − 1 ≤ 16`; otherwise refused:
    `bgvMultiply_refuse_oversize`) the model succeeds with correction factor `cf_a·cf_b mod t`; the result is valid IF AND ONLY IF
    that product is non-zero modulo t -/
theorem bgvMultiply_valid_iff : type_of% @HC.bgvMultiply_valid_iff := @HC.bgvMultiply_valid_iff

/-- Y2 `bgv_multiply`, unit correction factors: the result is valid -/
theorem bgvMultiply_valid : type_of% @HC.bgvMultiply_valid := @HC.bgvMultiply_valid

theorem bgvMultiply_preserves_valid : type_of% @HC.bgvMultiply_preserves_valid := @HC.bgvMultiply_preserves_valid

/-- Y2 `bgv_multiply`, PRIME plain modulus: strong closure — valid non-empty NTT-form operands give a valid result (with a unit
    correction factor); no unit hypothesis (every accepted factor 1 ≤ cf ≤ t − 1 is a unit modulo a prime) -/
theorem bgvMultiply_valid_prime : type_of% @HC.bgvMultiply_valid_prime := @HC.bgvMultiply_valid_prime

/-- Y2 `multiply_plain_ntt`: total on valid NTT-form ciphertexts and canonical plaintexts, result valid -/
theorem ctMultiplyPlainNtt_valid : type_of% @HC.ctMultiplyPlainNtt_valid := @HC.ctMultiplyPlainNtt_valid

theorem ctMultiplyPlainNtt_preserves_valid : type_of% @HC.ctMultiplyPlainNtt_preserves_valid := @HC.ctMultiplyPlainNtt_preserves_valid

/-- FINDING (validity predicate, composite t): `bgv_multiply` of two VALID ciphertexts (t = 4, correction factors 2 and 2, in the accepted
    range but not units) succeeds and returns a ciphertext with correction factor 0, which is NOT valid: validity is not preserved
    without the unit hypothesis when t is composite (for prime t it is: `bgvMultiply_valid_prime`) -/
theorem bgvMultiply_valid_needs_unit : type_of% @HC.bgvMultiply_valid_needs_unit := @HC.bgvMultiply_valid_needs_unit

/-- FINDING (composite t): a VALID first operand (t = 4, correction factor 2) is REFUSED by the balanced add / sub ("accepted by any
    later operation" fails for the non-unit factors that `ctValid` admits when t is composite) -/
theorem ctTranslateBalanced_refuses_valid : type_of% @HC.ctTranslateBalanced_refuses_valid := @HC.ctTranslateBalanced_refuses_valid

/-- FINDING (composite t): with a unit first factor (1) and a VALID non-unit second factor (2, t = 4) the balanced add / sub SUCCEEDS and
    the result is valid, but its correction factor (2) is again not a unit: validity does not imply that the BGV factor is a unit -/
theorem ctTranslateBalanced_valid_nonunit_result : type_of% @HC.ctTranslateBalanced_valid_nonunit_result := @HC.ctTranslateBalanced_valid_nonunit_result

/-- Y2 `mod_switch_drop_to_next` (CKKS `mod_switch_to_next`, also the plain drop): total on valid ciphertexts at a level with ≥ 2
    moduli (CKKS: NTT form), the result is valid at the next level -/
theorem modSwitchDropNext_valid : type_of% @HC.modSwitchDropNext_valid := @HC.modSwitchDropNext_valid

theorem modSwitchDropNext_preserves_valid : type_of% @HC.modSwitchDropNext_preserves_valid := @HC.modSwitchDropNext_preserves_valid

/-- Y2 BFV `mod_switch_to_next`: total on valid coefficient-form ciphertexts, the result is valid at the next level -/
theorem modSwitchScaleNext_bfv_valid : type_of% @HC.modSwitchScaleNext_bfv_valid := @HC.modSwitchScaleNext_bfv_valid

/-- Y2 CKKS `rescale_to_next`: total on valid NTT-form ciphertexts, the result is valid at the next level (for the flags of the
    new scale use `ctValid_flags`) -/
theorem modSwitchScaleNext_ckks_valid : type_of% @HC.modSwitchScaleNext_ckks_valid := @HC.modSwitchScaleNext_ckks_valid

/-- Y2 BGV `mod_switch_to_next`, strong closure: total on valid NTT-form ciphertexts; the polynomials are canonical at the next level,
    the new correction factor is `cf·q_L^{-1} mod t`, and the result is VALID at the next level — for every valid operand, whatever t is
    (q_L^{-1} is a unit modulo t, so a factor in [1, t − 1] cannot be mapped to 0) -/
theorem modSwitchScaleNext_bgv_valid_closed : type_of% @HC.modSwitchScaleNext_bgv_valid_closed := @HC.modSwitchScaleNext_bgv_valid_closed

/-- Y2 BGV `mod_switch_to_next`: the result is valid IF AND ONLY IF `cf ≠ t` (statement kept from before the repair of the validity
    predicate; since `ctValid` now rejects `cf = t`, both sides hold for every valid operand) -/
theorem modSwitchScaleNext_bgv_valid_iff : type_of% @HC.modSwitchScaleNext_bgv_valid_iff := @HC.modSwitchScaleNext_bgv_valid_iff

theorem modSwitchScaleNext_bgv_valid : type_of% @HC.modSwitchScaleNext_bgv_valid := @HC.modSwitchScaleNext_bgv_valid

/-- Y2 BGV `mod_switch_to_next`, PRIME plain modulus: valid operand ⇒ valid result at the next level, and the new correction factor
    is again a unit (no unit hypothesis on the operand) -/
theorem modSwitchScaleNext_bgv_valid_prime : type_of% @HC.modSwitchScaleNext_bgv_valid_prime := @HC.modSwitchScaleNext_bgv_valid_prime

/-- Y2, `.ok` form for all three schemes: whenever the scheme-specific switch of a valid ciphertext succeeds (and, for BGV, the
    correction factor is not t), the result is valid at the next level.  `Level.WF` is needed for the NTT-form schemes only. -/
theorem modSwitchScaleNext_preserves_valid : type_of% @HC.modSwitchScaleNext_preserves_valid := @HC.modSwitchScaleNext_preserves_valid

/-- Y2, `.ok` form for all three schemes, strong closure: whenever the scheme-specific switch of a valid ciphertext succeeds, the result is
    valid at the next level (no side condition on the BGV correction factor: `ctValid` rejects `cf = t`) -/
theorem modSwitchScaleNext_preserves_valid_closed : type_of% @HC.modSwitchScaleNext_preserves_valid_closed := @HC.modSwitchScaleNext_preserves_valid_closed

/-- Y3: operands in different representations are never accepted by the balanced add / sub either (on the balancing path the
    error is the first one met: a failed balancing, or the representation check after the scaling) -/
theorem ctTranslateBalanced_refuse_ntt : type_of% @HC.ctTranslateBalanced_refuse_ntt := @HC.ctTranslateBalanced_refuse_ntt

/-- Y3, summary of the representation / scheme / level / size refusals of the modelled operations (a ciphertext of the model has
    no level tag: "operands at different levels" is not representable in the single-level signatures `op (l : Level) a b`;
    representation and scheme mismatches are, and they are refused) -/
theorem evaluator_refusals : type_of% @HC.evaluator_refusals := @HC.evaluator_refusals

/-- Y3, what the model does NOT do: the operations of the model are the bodies AFTER `check_ciphertext`; they do not re-run the
    validator.  E.g. `ctNegate` of a (canonical) ciphertext with the invalid correction factor 0 succeeds and returns an invalid
    ciphertext — the refusal of invalid operands is `ctValid` itself (`Evaluator::check_ciphertext` panics iff it is false). -/
theorem ctNegate_does_not_validate : type_of% @HC.ctNegate_does_not_validate := @HC.ctNegate_does_not_validate

/-- Y2 `switch_key_inplace`: for inputs satisfying the bundle `c04t_KSInput` of C04T (for BGV also `c04t_BgvData`), a valid ciphertext
    in the representation its scheme prescribes is switched to a VALID ciphertext of the same level (same size, representation,
    correction factor).  The ciphertext level is the first `l.size` moduli of the key level (`c06y_KeyLevelOf`). -/
theorem switchKey_valid : type_of% @HC.switchKey_valid := @HC.switchKey_valid

theorem switchKey_preserves_valid : type_of% @HC.switchKey_preserves_valid := @HC.switchKey_preserves_valid

/-- Y2 `relinearize` (any size 2..16, enough fuel): with a good key (`c06y_KeyOK`) for every power s^m, 2 ≤ m < size, a valid
    ciphertext (in the prescribed representation if there is anything to switch) is relinearized to a VALID size-2 ciphertext -/
theorem relinearize_valid : type_of% @HC.relinearize_valid := @HC.relinearize_valid

/-- Y2 `apply_galois_inplace` (size 2, odd element ≤ 2N): the Galois images of the two polynomials are canonical, and the key switch of
    (σ(c0), 0) with target σ(c1) returns a VALID ciphertext -/
theorem applyGalois_valid : type_of% @HC.applyGalois_valid := @HC.applyGalois_valid

/-- Y4 for `bfv_multiply`: whenever the model succeeds, both operands are non-empty and in coefficient form, the result has
    `n1 + n2 − 1` polynomials, coefficient form and the correction factor of the first operand -/
theorem bfvMultiply_shape_of_ok : type_of% @HC.bfvMultiply_shape_of_ok := @HC.bfvMultiply_shape_of_ok

/-- Y2 for `bfv_multiply` at ANY level (no `MulOK`): the result of a successful product of a valid first operand is valid iff its
    polynomials are canonical (the size fits because the model refuses otherwise; scale and correction factor are handled here;
    canonicity of the output of `fastbconvSk` at a `MulOK` level is `bfvMultiply_valid`) -/
theorem bfvMultiply_valid_iff_canon : type_of% @HC.bfvMultiply_valid_iff_canon := @HC.bfvMultiply_valid_iff_canon

/-- the product of two valid size-2 NTT-form ciphertexts (CKKS, or the dyadic step of BGV) is valid of size 3, is ACCEPTED by
    `relinearize` with a good key for s², whose result is valid of size 2 and is in turn ACCEPTED by `modSwitchDropNext`, giving a
    valid ciphertext at the next level — every intermediate object satisfies the hypotheses of the next operation -/
theorem multiply_relinearize_drop_valid : type_of% @HC.multiply_relinearize_drop_valid := @HC.multiply_relinearize_drop_valid

/-! ### translator tie (phase 4g): `Evaluator::multiply_plain_inplace` (dispatch over the four representation combinations, generated as a PLAN:
     which routines run in which order) and `multiply_plain_ntt` (on the flat buffers), src/evaluator.rs -> Gen/EvalCtFns.lean, = `multiplyPlainPlan`
     / `ctMultiplyPlainNtt` + `mulPlainScaleRule` of Model/Evaluator.lean (Proofs/GenEval2.lean, Proofs/GenEvalCt2.lean).  TRUSTED table reading:
     the step codes (1 `multiply_plain_ntt`, 2 `multiply_plain_normal`, 3 `transform_plain_to_ntt_inplace` on a clone, 4 / 5
     `transform_to_ntt_inplace` / `transform_from_ntt_inplace` = the checked, fully reducing transforms; the raw kernels `polymod::ntt_lazy_ps`,
     `intt_lazy_ps`, ... have codes of their own).  `multiply_plain_normal` itself is NOT tied (no hand model of the plaintext lift + NTT route). -/
theorem gen_multiply_plain_plan_eq : type_of% @HC.gl_multiply_plain_plan_eq := @HC.gl_multiply_plain_plan_eq
theorem gen_multiply_plain_plan_refuses : type_of% @HC.gl_multiply_plain_plan_refuses := @HC.gl_multiply_plain_plan_refuses
theorem gen_runPlainPlan : type_of% @HC.gl_runPlainPlan := @HC.gl_runPlainPlan
theorem gen_multiply_plain_ntt_eq : type_of% @HC.gc_multiply_plain_ntt_eq := @HC.gc_multiply_plain_ntt_eq
theorem gen_multiply_plain_ntt_refuses : type_of% @HC.gc_multiply_plain_ntt_refuses := @HC.gc_multiply_plain_ntt_refuses

/-- `multiply_plain_normal` (coefficient-form operands): the ROUTE (monomial shortcut / generic NTT route, with / without the fast plain lift; the
    data steps are codes, the last of the generic route being the FULL inverse transform `intt_ps`) and the CKKS scale rule at both exits -/
theorem gen_multiply_plain_normal_plan_eq : type_of% @HC.gl_multiply_plain_normal_plan_eq := @HC.gl_multiply_plain_normal_plan_eq
/-- non-vacuity of the hypothesis bundle of `gen_multiply_plain_ntt_eq`: the example BGV level (two moduli 17, n = 2), a size-2 ciphertext -/
example : HC.GenC.ct_multiply_plain_ntt (List.replicate 8 3) 2 (List.replicate 4 2) true true HC.c02v_exLevel.qs.toList HC.c02v_exLevel.n .bgv true true =
    (do let c ← HC.ctMultiplyPlainNtt HC.c02v_exLevel (HC.unflattenCt HC.c02v_exLevel 2 (List.replicate 8 3) true 1)
                  (HC.unflattenRns HC.c02v_exLevel.size HC.c02v_exLevel.n (List.replicate 4 2))
        let sc ← HC.mulPlainScaleRule .bgv true
        pure (HC.flattenCt HC.c02v_exLevel c, sc)) :=
  HC.gc_multiply_plain_ntt_eq HC.c02v_exLevel _ _ 2 1 .bgv true true (by decide) (by decide) (by decide) (by decide) (by decide)
end HC.C06
