import Heathcliff.Gen.Forms
import Heathcliff.Model.Evaluator
import Heathcliff.Proofs.GenValid
/-
  C06 — API variants agree: the shape of every public Evaluator method family is extracted from the Rust source on every run
  (`Heathcliff/Gen/Forms.lean`); the theorems below are about that generated table, so a `_new` / destination form that stops
  being "clone the read-only operand, then run the in-place core" (or the reverse construction through the destination form)
  breaks `forms_table_ok`.
-/
namespace HC.C06
open HC.Gen

/-- a family is well-formed if one form is the core and the other two are derived from it without touching the operand -/
def familyOk (f : FormFamily) : Bool :=
  match f.inplace, f.dest, f.new with
  | .core, .cloneThen c, .cloneThen c' => c == f.name ++ "_inplace" && c' == c
  | .direct d, .cloneThen c, .cloneThen c' => (c == f.name ++ "_inplace" || c == d) && c' == c
  | .viaDest c, .core, .viaDest c' => c == f.name && c' == f.name
  | _, _, _ => false

/-- OBLIGATION ON THE SOURCE: every one of the extracted families has an admissible shape -/
theorem forms_table_ok : evaluatorForms.all familyOk = true := by decide

/-- semantics of the shapes: `core` is a function from the object (with the other, read-only, arguments fixed) to the result;
    cloning is the identity on values; the destination form overwrites its destination with the result -/
def denote {α : Type} (core : α → α) : FormShape → α → α
  | .core => core
  | .cloneThen _ => fun a => core (id a)
  | .viaDest _ => fun a => core a
  | .direct _ => core

/-- FORMS AGREE: in every admissible family the in-place, destination and returning forms denote the same function of the
    operand (so they are bit-identical), and the read-only operand is only ever cloned -/
theorem forms_agree {α : Type} (core : α → α) (f : FormFamily) (_h : familyOk f = true) (a : α) :
    denote core f.inplace a = denote core f.dest a ∧ denote core f.dest a = denote core f.new a := by
  cases hi : f.inplace <;> cases hd : f.dest <;> cases hn : f.new <;> simp [denote]

/-- there are at least the 25 families of the pinned tree (a family silently losing one of its forms shrinks the table) -/
theorem forms_table_size : 25 ≤ evaluatorForms.length := by decide

/-- level walk / refusal model facts used by the check -/
theorem upward_refused {cur tgt : Nat} (h : cur < tgt) : switchSteps cur tgt = .error .refused := by
  unfold switchSteps; simp [h]

/-! ### translator tie: `Ciphertext::is_metadata_valid_for` / `is_buffer_valid` (src/valcheck.rs) generated into Gen/ValidFns.lean
     (Proofs/GenValid.lean): `ctValid` of the hand model = generated metadata check ∧ shape/data part -/
open HC in
theorem gen_ctValid_split (l : Level) (ct : Ct) (s1 s0 : Bool) :
    ctValid l ct s1 s0 = (HC.gx_ctMetaValid l ct s1 s0 && HC.gx_ctShapeOk l ct) := HC.gx_ctValid_split l ct s1 s0
open HC in
theorem gen_ct_is_metadata_valid_for_eq (l : Level) (ct : Ct) (s1 s0 allow : Bool) (chain first : Nat)
    (hk : allow = true ∨ chain ≤ first) :
    GenV.ct_is_metadata_valid_for allow true false chain first l.size l.n l.size l.n ct.polys.size
        (decide (l.scheme = .bfv)) (decide (l.scheme = .bgv)) (decide (l.scheme = .ckks)) (!s1) s0 ct.cf l.t.value =
      HC.gx_ctMetaValid l ct s1 s0 := HC.gx_ct_is_metadata_valid_for_eq l ct s1 s0 allow chain first hk
open HC in
theorem gen_ctValid_eq (l : Level) (ct : Ct) (s1 s0 allow : Bool) (chain first : Nat) (hk : allow = true ∨ chain ≤ first) :
    ctValid l ct s1 s0 =
      (GenV.ct_is_metadata_valid_for allow true false chain first l.size l.n l.size l.n ct.polys.size
        (decide (l.scheme = .bfv)) (decide (l.scheme = .bgv)) (decide (l.scheme = .ckks)) (!s1) s0 ct.cf l.t.value
       && HC.gx_ctShapeOk l ct) := HC.gx_ctValid_eq_gen l ct s1 s0 allow chain first hk
open HC in
theorem gen_ct_is_metadata_valid_for_refuses (allow pset missing : Bool) (chain first ls ln cc cn sz : Nat) (b1 b2 b3 sn sz0 : Bool) (cf t : Nat)
    (h : pset = false ∨ missing = true ∨ (allow = false ∧ chain > first) ∨ cc ≠ ls ∨ cn ≠ ln) :
    GenV.ct_is_metadata_valid_for allow pset missing chain first ls ln cc cn sz b1 b2 b3 sn sz0 cf t = false :=
  HC.gx_ct_is_metadata_valid_for_refuses allow pset missing chain first ls ln cc cn sz b1 b2 b3 sn sz0 cf t h
open HC in
theorem gen_ct_is_buffer_valid_eq (dataLen cc sz n : Nat) (h1 : cc * sz < 2^64) (h : cc * sz * n < 2^64) :
    GenV.ct_is_buffer_valid dataLen cc sz n = .ok (decide (dataLen = cc * sz * n)) := HC.gx_ct_is_buffer_valid_eq dataLen cc sz n h1 h

end HC.C06
