import Heathcliff.Proofs.C08A
import Heathcliff.Proofs.C08B
import Heathcliff.Proofs.C08C

/- Property theorems only (statements verbatim; proofs are the helper lemmas of Heathcliff/Proofs). -/
namespace HC.C08
open HC
variable {m : Modulus}

theorem incrementMod_exact (h : m.WF) {x : Nat} (hx : x ≤ 2 * m.value - 2) :
    incrementMod x m = .ok ((x + 1) % m.value) := HC.incrementMod_exact h hx

theorem decrementMod_exact (h : m.WF) {x : Nat} (hx : x < m.value) :
    decrementMod x m = .ok ((x + m.value - 1) % m.value) := HC.decrementMod_exact h hx

theorem negateMod_exact (h : m.WF) {x : Nat} (hx : x ≤ m.value) :
    negateMod x m = .ok ((m.value - x) % m.value) := HC.negateMod_exact h hx

/-- halving: for odd q the result is the unique y < q with 2y ≡ x -/
theorem div2Mod_exact (h : m.WF) (hodd : m.value % 2 = 1) {x : Nat} (hx : x < m.value) :
    ∃ y, div2Mod x m = .ok y ∧ y < m.value ∧ (2 * y) % m.value = x := HC.div2Mod_exact h hodd hx

theorem addMod_exact (h : m.WF) {x y : Nat} (hx : x < m.value) (hy : y < m.value) :
    addMod x y m = .ok ((x + y) % m.value) := HC.addMod_exact h hx hy

theorem subMod_exact (h : m.WF) {x y : Nat} (hx : x < m.value) (hy : y < m.value) :
    subMod x y m = .ok ((x + m.value - y) % m.value) := HC.subMod_exact h hx hy

/-- Barrett reduction of any 128-bit value, any modulus 2 ≤ q < 2^61 (prime or not) -/
theorem barrett128_exact (h : m.WF) {x0 x1 : Nat} (h0 : x0 < 2^64) (h1 : x1 < 2^64) :
    barrett128 x0 x1 m = .ok ((x0 + 2^64 * x1) % m.value) := HC.barrett128_exact h h0 h1

theorem barrett64_exact (h : m.WF) {x : Nat} (hx : x < 2^64) :
    barrett64 x m = .ok (x % m.value) := HC.barrett64_exact h hx

theorem mulMod_exact (h : m.WF) {x y : Nat} (hx : x < 2^64) (hy : y < 2^64) :
    mulMod x y m = .ok ((x * y) % m.value) := HC.mulMod_exact h hx hy

theorem mulOperand_new (h : m.WF) {y : Nat} (hy : y < m.value) :
    ∃ o, MulOperand.new y m = .ok o ∧ o.operand = y ∧ o.quotient = y * 2^64 / m.value := HC.mulOperand_new h hy

/-- Harvey lazy multiplication: for EVERY x < 2^64 the result is congruent and below 2q -/
theorem mulOperandModLazy_spec (h : m.WF) {x y : Nat} (hx : x < 2^64) (hy : y < m.value)
    {o : MulOperand} (ho : MulOperand.new y m = .ok o) :
    mulOperandModLazy x o m < 2 * m.value ∧ mulOperandModLazy x o m % m.value = (x * y) % m.value := HC.mulOperandModLazy_spec h hx hy ho

theorem mulOperandMod_exact (h : m.WF) {x y : Nat} (hx : x < 2^64) (hy : y < m.value)
    {o : MulOperand} (ho : MulOperand.new y m = .ok o) :
    mulOperandMod x o m = .ok ((x * y) % m.value) := HC.mulOperandMod_exact h hx hy ho

theorem mulAddMod_exact (h : m.WF) {x y z : Nat} (hx : x < 2^64) (hy : y < 2^64) (hz : z < 2^64) :
    mulAddMod x y z m = .ok ((x * y + z) % m.value) := HC.mulAddMod_exact h hx hy hz

theorem mulOperandAddMod_exact (h : m.WF) {x y z : Nat} (hx : x < 2^64) (hy : y < m.value) (hz : z < 2^64)
    {o : MulOperand} (ho : MulOperand.new y m = .ok o) :
    mulOperandAddMod x o z m = .ok ((x * y + z) % m.value) := HC.mulOperandAddMod_exact h hx hy hz ho

/-- dot product: exact whenever the true sum fits in 128 bits
    (in particular for ≤ 64 summands of factors below 2^61) -/
theorem dotProductMod_exact (h : m.WF) {xs ys : List Nat} (hl : xs.length = ys.length)
    (hxs : ∀ x ∈ xs, x < 2^64) (hys : ∀ y ∈ ys, y < 2^64)
    (hsum : ((xs.zip ys).map (fun p => p.1 * p.2)).sum < 2^128) :
    dotProductMod xs ys m = .ok (((xs.zip ys).map (fun p => p.1 * p.2)).sum % m.value) := HC.dotProductMod_exact h hl hxs hys hsum

theorem dotProduct_sum_bound {xs ys : List Nat} (hl : xs.length = ys.length) (hn : xs.length ≤ 64)
    (hxs : ∀ x ∈ xs, x < 2^61) (hys : ∀ y ∈ ys, y < 2^61) :
    ((xs.zip ys).map (fun p => p.1 * p.2)).sum < 2^128 := HC.dotProduct_sum_bound hl hn hxs hys

/-- multi-word value reduced modulo q, any number of limbs ≥ 1 -/
theorem moduloUint_exact (h : m.WF) {v : List Nat} (hne : v ≠ []) (hv : ∀ x ∈ v, x < 2^64) :
    moduloUint v m = .ok (toNat v % m.value) := HC.moduloUint_exact h hne hv

/-- exponentiation (operands already reduced): exponent 0 ↦ 1, exponent 1 ↦ the operand itself (unreduced, as coded),
    otherwise x^e mod q -/
theorem exponentiateMod_exact
    (hmul : ∀ {x y : Nat}, x < 2^64 → y < 2^64 → mulMod x y m = .ok ((x * y) % m.value))
    (h : m.WF) {x e : Nat} (hx : x < 2^64) (he : e < 2^64) :
    exponentiateMod x e m = .ok (if e = 0 then 1 else if e = 1 then x else (x ^ e) % m.value) := HC.exponentiateMod_exact hmul h hx he

theorem gcdU64_exact {x y : Nat} (hx : x < 2^64) (hy : y < 2^64) : gcdU64 x y = Nat.gcd x y := HC.gcdU64_exact hx hy

/-- non-adjacent form: digits sum to the value, each digit is ± a power of two with strictly increasing
    exponents differing by at least 2 -/
theorem naf_spec {v : Int} (hv : -(2^31 : Int) < v ∧ v < 2^31) :
    ∃ ds, naf v = .ok ds ∧ ds.sum = v ∧
      (∀ d ∈ ds, ∃ i : Nat, d = 2^i ∨ d = -(2^i : Int)) ∧
      List.Pairwise (fun a b => 4 * a.natAbs ≤ b.natAbs) ds := HC.naf_spec hv

theorem toNat_lt {l : List Nat} (h : Limbs l) : toNat l < 2^(64 * l.length) := HC.toNat_lt h

theorem toNat_fromNat (n v : Nat) : toNat (fromNat n v) = v % 2^(64*n) ∧ (fromNat n v).length = n ∧ Limbs (fromNat n v) := HC.toNat_fromNat n v

/-- single-word carry primitives -/
theorem addU64Carry_spec {a b c : Nat} (ha : a < 2^64) (hb : b < 2^64) (hc : c ≤ 1) :
    (addU64Carry a b c).1 + 2^64 * (addU64Carry a b c).2 = a + b + c ∧ (addU64Carry a b c).1 < 2^64 ∧ (addU64Carry a b c).2 ≤ 1 := HC.addU64Carry_spec ha hb hc

theorem subU64Borrow_spec {a b c : Nat} (ha : a < 2^64) (hb : b < 2^64) (hc : c ≤ 1) :
    (subU64Borrow a b c).1 + b + c = a + 2^64 * (subU64Borrow a b c).2 ∧ (subU64Borrow a b c).1 < 2^64 ∧ (subU64Borrow a b c).2 ≤ 1 := HC.subU64Borrow_spec ha hb hc

theorem addUint_spec {a b : List Nat} {n : Nat} (hn : 1 ≤ n) (ha : Limbs a) (hb : Limbs b)
    (hla : n ≤ a.length) (hlb : n ≤ b.length) :
    ∃ r c, addUint a b n = .ok (r, c) ∧ r.length = n ∧ Limbs r ∧ c ≤ 1 ∧
      toNat r + 2^(64*n) * c = toNat (a.take n) + toNat (b.take n) := HC.addUint_spec hn ha hb hla hlb

theorem subUint_spec {a b : List Nat} {n : Nat} (hn : 1 ≤ n) (ha : Limbs a) (hb : Limbs b)
    (hla : n ≤ a.length) (hlb : n ≤ b.length) :
    ∃ r c, subUint a b n = .ok (r, c) ∧ r.length = n ∧ Limbs r ∧ c ≤ 1 ∧
      toNat r + toNat (b.take n) = toNat (a.take n) + 2^(64*n) * c := HC.subUint_spec hn ha hb hla hlb

theorem addUintU64_spec {a : List Nat} {w n : Nat} (hn : 1 ≤ n) (ha : Limbs a) (hw : w < 2^64) (hla : n ≤ a.length) :
    ∃ r c, addUintU64 a w n = .ok (r, c) ∧ r.length = n ∧ Limbs r ∧ c ≤ 1 ∧
      toNat r + 2^(64*n) * c = toNat (a.take n) + w := HC.addUintU64_spec hn ha hw hla

theorem subUintU64_spec {a : List Nat} {w n : Nat} (hn : 1 ≤ n) (ha : Limbs a) (hw : w < 2^64) (hla : n ≤ a.length) :
    ∃ r c, subUintU64 a w n = .ok (r, c) ∧ r.length = n ∧ Limbs r ∧ c ≤ 1 ∧
      toNat r + w = toNat (a.take n) + 2^(64*n) * c := HC.subUintU64_spec hn ha hw hla

theorem negateUint_spec {a : List Nat} {n : Nat} (hn : 1 ≤ n) (ha : Limbs a) (hla : n ≤ a.length) :
    ∃ r, negateUint a n = .ok r ∧ r.length = n ∧ Limbs r ∧
      toNat r = (2^(64*n) - toNat (a.take n)) % 2^(64*n) := HC.negateUint_spec hn ha hla

/-- product by one word, for every result length n ≥ 1 (truncating) -/
theorem multiplyUintU64_spec {a : List Nat} {w n : Nat} (hn : 1 ≤ n) (ha : Limbs a) (hw : w < 2^64) :
    ∃ r, multiplyUintU64 a w n = .ok r ∧ r.length = n ∧ Limbs r ∧
      toNat r = (toNat a * w) % 2^(64*n) := HC.multiplyUintU64_spec hn ha hw

/-- full product, for every pair of operand lengths and every result length n ≥ 1 (incl. 1) -/
theorem multiplyUint_spec {a b : List Nat} {n : Nat} (hn : 1 ≤ n) (ha : Limbs a) (hb : Limbs b) :
    ∃ r, multiplyUint a b n = .ok r ∧ r.length = n ∧ Limbs r ∧
      toNat r = (toNat a * toNat b) % 2^(64*n) := HC.multiplyUint_spec hn ha hb

theorem leftShiftUint_spec {a : List Nat} {s cnt : Nat} (ha : Limbs a) (hl : cnt ≤ a.length) (hs : s < 64 * cnt) :
    ∃ r, leftShiftUint a s cnt = .ok r ∧ r.length = cnt ∧ Limbs r ∧
      toNat r = (toNat (a.take cnt) * 2^s) % 2^(64*cnt) := HC.leftShiftUint_spec ha hl hs

theorem rightShiftUint_spec {a : List Nat} {s cnt : Nat} (ha : Limbs a) (hl : cnt ≤ a.length) (hs : s < 64 * cnt) :
    ∃ r, rightShiftUint a s cnt = .ok r ∧ r.length = cnt ∧ Limbs r ∧
      toNat r = toNat (a.take cnt) / 2^s := HC.rightShiftUint_spec ha hl hs

theorem leftShiftU192_spec {a : List Nat} {s : Nat} (ha : Limbs a) (hl : a.length = 3) (hs : s < 192) :
    ∃ r, leftShiftU192 a s = .ok r ∧ r.length = 3 ∧ Limbs r ∧ toNat r = (toNat a * 2^s) % 2^192 := HC.leftShiftU192_spec ha hl hs

theorem rightShiftU192_spec {a : List Nat} {s : Nat} (ha : Limbs a) (hl : a.length = 3) (hs : s < 192) :
    ∃ r, rightShiftU192 a s = .ok r ∧ r.length = 3 ∧ Limbs r ∧ toNat r = toNat a / 2^s := HC.rightShiftU192_spec ha hl hs

theorem halfRoundUp_spec {a : List Nat} {n : Nat} (hn : 1 ≤ n) (ha : Limbs a) (hl : n ≤ a.length) :
    ∃ r, halfRoundUp a n = .ok r ∧ r.length = n ∧ Limbs r ∧
      toNat r = ((toNat (a.take n) + 1) / 2) % 2^(64*n) := HC.halfRoundUp_spec hn ha hl

/-- comparison of values of possibly different lengths -/
theorem compareUint_spec {a b : List Nat} (ha : Limbs a) (hb : Limbs b) :
    compareUint a b = (if toNat a < toNat b then -1 else if toNat a > toNat b then 1 else 0) := HC.compareUint_spec ha hb

theorem multiplyManyU64_spec {ops : List Nat} {n : Nat} (hne : ops ≠ []) (ho : Limbs ops) (hn : ops.length ≤ n) :
    ∃ r, multiplyManyU64 ops n = .ok r ∧ r.length = n ∧ Limbs r ∧ toNat r = ops.foldl (· * ·) 1 := HC.multiplyManyU64_spec hne ho hn

theorem addUintMod_spec {a b md : List Nat} (hn : 1 ≤ md.length) (ha : Limbs a) (hb : Limbs b) (hm : Limbs md)
    (hla : a.length = md.length) (hlb : b.length = md.length) (hax : toNat a < toNat md) (hbx : toNat b < toNat md) :
    ∃ r, addUintMod a b md = .ok r ∧ r.length = md.length ∧ Limbs r ∧ toNat r = (toNat a + toNat b) % toNat md := HC.addUintMod_spec hn ha hb hm hla hlb hax hbx

theorem subUintMod_spec {a b md : List Nat} (hn : 1 ≤ md.length) (ha : Limbs a) (hb : Limbs b) (hm : Limbs md)
    (hla : a.length = md.length) (hlb : b.length = md.length) (hax : toNat a < toNat md) (hbx : toNat b < toNat md) :
    ∃ r, subUintMod a b md = .ok r ∧ r.length = md.length ∧ Limbs r ∧ toNat r = (toNat a + toNat md - toNat b) % toNat md := HC.subUintMod_spec hn ha hb hm hla hlb hax hbx

theorem negateUintMod_spec {a md : List Nat} (hn : 1 ≤ md.length) (ha : Limbs a) (hm : Limbs md)
    (hla : a.length = md.length) (hax : toNat a < toNat md) :
    ∃ r, negateUintMod a md = .ok r ∧ r.length = md.length ∧ Limbs r ∧ toNat r = (toNat md - toNat a) % toNat md := HC.negateUintMod_spec hn ha hm hla hax

theorem modulus_new_wf {v : Nat} {m : Modulus} (h : Modulus.mk? v = .ok m) (hv : v ≠ 0) :
    m.WF ∧ m.value = v := Modulus.mk?_wf h hv

/-- FULL statement for inversion (any `v < 2^64`).  It is FALSE for the code: `xgcd`'s `i64` products overflow for
    `v ≥ 2^63` with a small modulus (`tryInvert (2^64-1) 2`), see `tryInvert_overflow_witness`.  The documented operand
    range is `v < q`; the proved theorem `tryInvert_spec_partial` covers all `v < 2^63`. -/
theorem tryInvert_full_statement_false : ¬ HC.TryInvertStatement := HC.tryInvertStatement_false
theorem tryInvert_overflow_witness : tryInvert (2^64-1) 2 = .error .overflow := HC.tryInvert_overflow_witness
theorem tryInvert_spec_partial {v q : Nat} (hq2 : 2 ≤ q) (hq : q < 2^61) (hv : v < 2^64) (hv' : v < 2^63) :
    (v ≠ 0 ∧ Nat.gcd v q = 1 → ∃ r, tryInvert v q = .ok (some r) ∧ r < q ∧ (r * v) % q = 1) ∧
    (v = 0 ∨ Nat.gcd v q ≠ 1 → tryInvert v q = .ok none) := HC.tryInvert_spec_partial hq2 hq hv hv'

/-- DIVISION WITH REMAINDER (shift-subtract loop of `divide_uint_inplace`), all lengths: n = q·d + r, r < d -/
theorem divideUint_spec : HC.DivideUintStatement := HC.divideUint_spec

/-- non-vacuity: a 61-bit modulus is well formed and the premises of the theorems are satisfiable -/
example : ∃ m, Modulus.mk? 2305843009213693951 = .ok m ∧ m.WF :=
  ⟨_, rfl, (Modulus.mk?_wf (v := 2305843009213693951) rfl (by decide)).1⟩

end HC.C08
