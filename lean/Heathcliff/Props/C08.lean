import Heathcliff.Proofs.C08A
import Heathcliff.Proofs.C08B
import Heathcliff.Proofs.C08C
import Heathcliff.Proofs.GenWord
import Heathcliff.Proofs.GenWord2
import Heathcliff.Proofs.GenWord3
import Heathcliff.Proofs.GenWord4
import Heathcliff.Proofs.GenWord5

/- Property theorems only (statements verbatim; proofs are the helper lemmas of Heathcliff/Proofs). -/
namespace HC.C08
open HC
variable {m : Modulus}

theorem incrementMod_exact (h : m.WF) {x : Nat} (hx : x ≤ 2 * m.value - 2) :
    incrementMod x m = .ok ((x + 1) % m.value) := HC.incrementMod_exact h hx

theorem decrementMod_exact (h : m.WF) {x : Nat} (hx : x < m.value) :
    decrementMod x m = .ok ((x + m.value - 1) % m.value) := HC.decrementMod_exact h hx

theorem negateMod_exact (h : m.WF) {x : Nat} (hx : x ≤ m.value) :
    negateMod x m = .ok ((m.value - x) % m.value) := HC.negateMod_exact h hx

/-- halving: for odd q the result is the unique y < q with 2y ≡ x -/
theorem div2Mod_exact (h : m.WF) (hodd : m.value % 2 = 1) {x : Nat} (hx : x < m.value) :
    ∃ y, div2Mod x m = .ok y ∧ y < m.value ∧ (2 * y) % m.value = x := HC.div2Mod_exact h hodd hx

theorem addMod_exact (h : m.WF) {x y : Nat} (hx : x < m.value) (hy : y < m.value) :
    addMod x y m = .ok ((x + y) % m.value) := HC.addMod_exact h hx hy

theorem subMod_exact (h : m.WF) {x y : Nat} (hx : x < m.value) (hy : y < m.value) :
    subMod x y m = .ok ((x + m.value - y) % m.value) := HC.subMod_exact h hx hy

/-- Barrett reduction of any 128-bit value, any modulus 2 ≤ q < 2^61 (prime or not) -/
theorem barrett128_exact (h : m.WF) {x0 x1 : Nat} (h0 : x0 < 2^64) (h1 : x1 < 2^64) :
    barrett128 x0 x1 m = .ok ((x0 + 2^64 * x1) % m.value) := HC.barrett128_exact h h0 h1

theorem barrett64_exact (h : m.WF) {x : Nat} (hx : x < 2^64) :
    barrett64 x m = .ok (x % m.value) := HC.barrett64_exact h hx

theorem mulMod_exact (h : m.WF) {x y : Nat} (hx : x < 2^64) (hy : y < 2^64) :
    mulMod x y m = .ok ((x * y) % m.value) := HC.mulMod_exact h hx hy

theorem mulOperand_new (h : m.WF) {y : Nat} (hy : y < m.value) :
    ∃ o, MulOperand.new y m = .ok o ∧ o.operand = y ∧ o.quotient = y * 2^64 / m.value := HC.mulOperand_new h hy

/-- Harvey lazy multiplication: for EVERY x < 2^64 the result is congruent and below 2q -/
theorem mulOperandModLazy_spec (h : m.WF) {x y : Nat} (hx : x < 2^64) (hy : y < m.value)
    {o : MulOperand} (ho : MulOperand.new y m = .ok o) :
    mulOperandModLazy x o m < 2 * m.value ∧ mulOperandModLazy x o m % m.value = (x * y) % m.value := HC.mulOperandModLazy_spec h hx hy ho

theorem mulOperandMod_exact (h : m.WF) {x y : Nat} (hx : x < 2^64) (hy : y < m.value)
    {o : MulOperand} (ho : MulOperand.new y m = .ok o) :
    mulOperandMod x o m = .ok ((x * y) % m.value) := HC.mulOperandMod_exact h hx hy ho

theorem mulAddMod_exact (h : m.WF) {x y z : Nat} (hx : x < 2^64) (hy : y < 2^64) (hz : z < 2^64) :
    mulAddMod x y z m = .ok ((x * y + z) % m.value) := HC.mulAddMod_exact h hx hy hz

theorem mulOperandAddMod_exact (h : m.WF) {x y z : Nat} (hx : x < 2^64) (hy : y < m.value) (hz : z < 2^64)
    {o : MulOperand} (ho : MulOperand.new y m = .ok o) :
    mulOperandAddMod x o z m = .ok ((x * y + z) % m.value) := HC.mulOperandAddMod_exact h hx hy hz ho

/-- dot product: exact whenever the true sum fits in 128 bits
    (in particular for ≤ 64 summands of factors below 2^61) -/
theorem dotProductMod_exact (h : m.WF) {xs ys : List Nat} (hl : xs.length = ys.length)
    (hxs : ∀ x ∈ xs, x < 2^64) (hys : ∀ y ∈ ys, y < 2^64)
    (hsum : ((xs.zip ys).map (fun p => p.1 * p.2)).sum < 2^128) :
    dotProductMod xs ys m = .ok (((xs.zip ys).map (fun p => p.1 * p.2)).sum % m.value) := HC.dotProductMod_exact h hl hxs hys hsum

theorem dotProduct_sum_bound {xs ys : List Nat} (hl : xs.length = ys.length) (hn : xs.length ≤ 64)
    (hxs : ∀ x ∈ xs, x < 2^61) (hys : ∀ y ∈ ys, y < 2^61) :
    ((xs.zip ys).map (fun p => p.1 * p.2)).sum < 2^128 := HC.dotProduct_sum_bound hl hn hxs hys

/-- multi-word value reduced modulo q, any number of limbs ≥ 1 -/
theorem moduloUint_exact (h : m.WF) {v : List Nat} (hne : v ≠ []) (hv : ∀ x ∈ v, x < 2^64) :
    moduloUint v m = .ok (toNat v % m.value) := HC.moduloUint_exact h hne hv

/-- exponentiation (operands already reduced): exponent 0 ↦ 1, exponent 1 ↦ the operand itself (unreduced, as coded),
    otherwise x^e mod q -/
theorem exponentiateMod_exact
    (hmul : ∀ {x y : Nat}, x < 2^64 → y < 2^64 → mulMod x y m = .ok ((x * y) % m.value))
    (h : m.WF) {x e : Nat} (hx : x < 2^64) (he : e < 2^64) :
    exponentiateMod x e m = .ok (if e = 0 then 1 else if e = 1 then x else (x ^ e) % m.value) := HC.exponentiateMod_exact hmul h hx he

theorem gcdU64_exact {x y : Nat} (hx : x < 2^64) (hy : y < 2^64) : gcdU64 x y = Nat.gcd x y := HC.gcdU64_exact hx hy

/-- non-adjacent form: digits sum to the value, each digit is ± a power of two with strictly increasing
    exponents differing by at least 2 -/
theorem naf_spec {v : Int} (hv : -(2^31 : Int) < v ∧ v < 2^31) :
    ∃ ds, naf v = .ok ds ∧ ds.sum = v ∧
      (∀ d ∈ ds, ∃ i : Nat, d = 2^i ∨ d = -(2^i : Int)) ∧
      List.Pairwise (fun a b => 4 * a.natAbs ≤ b.natAbs) ds := HC.naf_spec hv

theorem toNat_lt {l : List Nat} (h : Limbs l) : toNat l < 2^(64 * l.length) := HC.toNat_lt h

theorem toNat_fromNat (n v : Nat) : toNat (fromNat n v) = v % 2^(64*n) ∧ (fromNat n v).length = n ∧ Limbs (fromNat n v) := HC.toNat_fromNat n v

/-- single-word carry primitives -/
theorem addU64Carry_spec {a b c : Nat} (ha : a < 2^64) (hb : b < 2^64) (hc : c ≤ 1) :
    (addU64Carry a b c).1 + 2^64 * (addU64Carry a b c).2 = a + b + c ∧ (addU64Carry a b c).1 < 2^64 ∧ (addU64Carry a b c).2 ≤ 1 := HC.addU64Carry_spec ha hb hc

theorem subU64Borrow_spec {a b c : Nat} (ha : a < 2^64) (hb : b < 2^64) (hc : c ≤ 1) :
    (subU64Borrow a b c).1 + b + c = a + 2^64 * (subU64Borrow a b c).2 ∧ (subU64Borrow a b c).1 < 2^64 ∧ (subU64Borrow a b c).2 ≤ 1 := HC.subU64Borrow_spec ha hb hc

theorem addUint_spec {a b : List Nat} {n : Nat} (hn : 1 ≤ n) (ha : Limbs a) (hb : Limbs b)
    (hla : n ≤ a.length) (hlb : n ≤ b.length) :
    ∃ r c, addUint a b n = .ok (r, c) ∧ r.length = n ∧ Limbs r ∧ c ≤ 1 ∧
      toNat r + 2^(64*n) * c = toNat (a.take n) + toNat (b.take n) := HC.addUint_spec hn ha hb hla hlb

theorem subUint_spec {a b : List Nat} {n : Nat} (hn : 1 ≤ n) (ha : Limbs a) (hb : Limbs b)
    (hla : n ≤ a.length) (hlb : n ≤ b.length) :
    ∃ r c, subUint a b n = .ok (r, c) ∧ r.length = n ∧ Limbs r ∧ c ≤ 1 ∧
      toNat r + toNat (b.take n) = toNat (a.take n) + 2^(64*n) * c := HC.subUint_spec hn ha hb hla hlb

theorem addUintU64_spec {a : List Nat} {w n : Nat} (hn : 1 ≤ n) (ha : Limbs a) (hw : w < 2^64) (hla : n ≤ a.length) :
    ∃ r c, addUintU64 a w n = .ok (r, c) ∧ r.length = n ∧ Limbs r ∧ c ≤ 1 ∧
      toNat r + 2^(64*n) * c = toNat (a.take n) + w := HC.addUintU64_spec hn ha hw hla

theorem subUintU64_spec {a : List Nat} {w n : Nat} (hn : 1 ≤ n) (ha : Limbs a) (hw : w < 2^64) (hla : n ≤ a.length) :
    ∃ r c, subUintU64 a w n = .ok (r, c) ∧ r.length = n ∧ Limbs r ∧ c ≤ 1 ∧
      toNat r + w = toNat (a.take n) + 2^(64*n) * c := HC.subUintU64_spec hn ha hw hla

theorem negateUint_spec {a : List Nat} {n : Nat} (hn : 1 ≤ n) (ha : Limbs a) (hla : n ≤ a.length) :
    ∃ r, negateUint a n = .ok r ∧ r.length = n ∧ Limbs r ∧
      toNat r = (2^(64*n) - toNat (a.take n)) % 2^(64*n) := HC.negateUint_spec hn ha hla

/-- product by one word, for every result length n ≥ 1 (truncating) -/
theorem multiplyUintU64_spec {a : List Nat} {w n : Nat} (hn : 1 ≤ n) (ha : Limbs a) (hw : w < 2^64) :
    ∃ r, multiplyUintU64 a w n = .ok r ∧ r.length = n ∧ Limbs r ∧
      toNat r = (toNat a * w) % 2^(64*n) := HC.multiplyUintU64_spec hn ha hw

/-- full product, for every pair of operand lengths and every result length n ≥ 1 (incl. 1) -/
theorem multiplyUint_spec {a b : List Nat} {n : Nat} (hn : 1 ≤ n) (ha : Limbs a) (hb : Limbs b) :
    ∃ r, multiplyUint a b n = .ok r ∧ r.length = n ∧ Limbs r ∧
      toNat r = (toNat a * toNat b) % 2^(64*n) := HC.multiplyUint_spec hn ha hb

theorem leftShiftUint_spec {a : List Nat} {s cnt : Nat} (ha : Limbs a) (hl : cnt ≤ a.length) (hs : s < 64 * cnt) :
    ∃ r, leftShiftUint a s cnt = .ok r ∧ r.length = cnt ∧ Limbs r ∧
      toNat r = (toNat (a.take cnt) * 2^s) % 2^(64*cnt) := HC.leftShiftUint_spec ha hl hs

theorem rightShiftUint_spec {a : List Nat} {s cnt : Nat} (ha : Limbs a) (hl : cnt ≤ a.length) (hs : s < 64 * cnt) :
    ∃ r, rightShiftUint a s cnt = .ok r ∧ r.length = cnt ∧ Limbs r ∧
      toNat r = toNat (a.take cnt) / 2^s := HC.rightShiftUint_spec ha hl hs

theorem leftShiftU192_spec {a : List Nat} {s : Nat} (ha : Limbs a) (hl : a.length = 3) (hs : s < 192) :
    ∃ r, leftShiftU192 a s = .ok r ∧ r.length = 3 ∧ Limbs r ∧ toNat r = (toNat a * 2^s) % 2^192 := HC.leftShiftU192_spec ha hl hs

theorem rightShiftU192_spec {a : List Nat} {s : Nat} (ha : Limbs a) (hl : a.length = 3) (hs : s < 192) :
    ∃ r, rightShiftU192 a s = .ok r ∧ r.length = 3 ∧ Limbs r ∧ toNat r = toNat a / 2^s := HC.rightShiftU192_spec ha hl hs

theorem halfRoundUp_spec {a : List Nat} {n : Nat} (hn : 1 ≤ n) (ha : Limbs a) (hl : n ≤ a.length) :
    ∃ r, halfRoundUp a n = .ok r ∧ r.length = n ∧ Limbs r ∧
      toNat r = ((toNat (a.take n) + 1) / 2) % 2^(64*n) := HC.halfRoundUp_spec hn ha hl

/-- comparison of values of possibly different lengths -/
theorem compareUint_spec {a b : List Nat} (ha : Limbs a) (hb : Limbs b) :
    compareUint a b = (if toNat a < toNat b then -1 else if toNat a > toNat b then 1 else 0) := HC.compareUint_spec ha hb

theorem multiplyManyU64_spec {ops : List Nat} {n : Nat} (hne : ops ≠ []) (ho : Limbs ops) (hn : ops.length ≤ n) :
    ∃ r, multiplyManyU64 ops n = .ok r ∧ r.length = n ∧ Limbs r ∧ toNat r = ops.foldl (· * ·) 1 := HC.multiplyManyU64_spec hne ho hn

theorem addUintMod_spec {a b md : List Nat} (hn : 1 ≤ md.length) (ha : Limbs a) (hb : Limbs b) (hm : Limbs md)
    (hla : a.length = md.length) (hlb : b.length = md.length) (hax : toNat a < toNat md) (hbx : toNat b < toNat md) :
    ∃ r, addUintMod a b md = .ok r ∧ r.length = md.length ∧ Limbs r ∧ toNat r = (toNat a + toNat b) % toNat md := HC.addUintMod_spec hn ha hb hm hla hlb hax hbx

theorem subUintMod_spec {a b md : List Nat} (hn : 1 ≤ md.length) (ha : Limbs a) (hb : Limbs b) (hm : Limbs md)
    (hla : a.length = md.length) (hlb : b.length = md.length) (hax : toNat a < toNat md) (hbx : toNat b < toNat md) :
    ∃ r, subUintMod a b md = .ok r ∧ r.length = md.length ∧ Limbs r ∧ toNat r = (toNat a + toNat md - toNat b) % toNat md := HC.subUintMod_spec hn ha hb hm hla hlb hax hbx

theorem negateUintMod_spec {a md : List Nat} (hn : 1 ≤ md.length) (ha : Limbs a) (hm : Limbs md)
    (hla : a.length = md.length) (hax : toNat a < toNat md) :
    ∃ r, negateUintMod a md = .ok r ∧ r.length = md.length ∧ Limbs r ∧ toNat r = (toNat md - toNat a) % toNat md := HC.negateUintMod_spec hn ha hm hla hax

theorem modulus_new_wf {v : Nat} {m : Modulus} (h : Modulus.mk? v = .ok m) (hv : v ≠ 0) :
    m.WF ∧ m.value = v := Modulus.mk?_wf h hv

/-- FULL statement for inversion (any `v < 2^64`).  It is FALSE for the code: `xgcd`'s `i64` products overflow for
    `v ≥ 2^63` with a small modulus (`tryInvert (2^64-1) 2`), see `tryInvert_overflow_witness`.  The documented operand
    range is `v < q`; the proved theorem `tryInvert_spec_partial` covers all `v < 2^63`. -/
theorem tryInvert_full_statement_false : ¬ HC.TryInvertStatement := HC.tryInvertStatement_false
theorem tryInvert_overflow_witness : tryInvert (2^64-1) 2 = .error .overflow := HC.tryInvert_overflow_witness
theorem tryInvert_spec_partial {v q : Nat} (hq2 : 2 ≤ q) (hq : q < 2^61) (hv : v < 2^64) (hv' : v < 2^63) :
    (v ≠ 0 ∧ Nat.gcd v q = 1 → ∃ r, tryInvert v q = .ok (some r) ∧ r < q ∧ (r * v) % q = 1) ∧
    (v = 0 ∨ Nat.gcd v q ≠ 1 → tryInvert v q = .ok none) := HC.tryInvert_spec_partial hq2 hq hv hv'

/-- DIVISION WITH REMAINDER (shift-subtract loop of `divide_uint_inplace`), all lengths: n = q·d + r, r < d -/
theorem divideUint_spec : HC.DivideUintStatement := HC.divideUint_spec

/-! ### Tie to the source: the definitions of `Heathcliff/Gen/WordFns.lean`, regenerated from the Rust sources on every run by
    `tools/rs2lean.py`, EQUAL the hand-model functions the theorems above are about (for all arguments). -/
theorem gen_add_u64_eq (a b : Nat) : GenW.add_u64 a b = addU64 a b := HC.gw_add_u64_eq a b
theorem gen_add_u64_carry_eq (a b c : Nat) : GenW.add_u64_carry a b c = addU64Carry a b c := HC.gw_add_u64_carry_eq a b c
theorem gen_sub_u64_eq (a b : Nat) : GenW.sub_u64 a b = subU64 a b := HC.gw_sub_u64_eq a b
theorem gen_sub_u64_borrow_eq (a b c : Nat) : GenW.sub_u64_borrow a b c = subU64Borrow a b c := HC.gw_sub_u64_borrow_eq a b c
theorem gen_multiply_u64_high_word_eq (a b : Nat) : GenW.multiply_u64_high_word a b = mulHi a b := HC.gw_multiply_u64_high_word_eq a b
theorem gen_multiply_u64_u64_eq (a b : Nat) : GenW.multiply_u64_u64 a b = (mulLo a b, mulHi a b) := HC.gw_multiply_u64_u64_eq a b
theorem gen_increment_u64_mod_eq (x : Nat) (m : Modulus) : GenW.increment_u64_mod x m = incrementMod x m := HC.gw_increment_u64_mod_eq x m
theorem gen_decrement_u64_mod_eq (x : Nat) (m : Modulus) : GenW.decrement_u64_mod x m = decrementMod x m := HC.gw_decrement_u64_mod_eq x m
theorem gen_negate_u64_mod_eq (x : Nat) (m : Modulus) : GenW.negate_u64_mod x m = negateMod x m := HC.gw_negate_u64_mod_eq x m
theorem gen_div2_u64_mod_eq (x : Nat) (m : Modulus) : GenW.div2_u64_mod x m = div2Mod x m := HC.gw_div2_u64_mod_eq x m
theorem gen_add_u64_mod_eq (a b : Nat) (m : Modulus) : GenW.add_u64_mod a b m = addMod a b m := HC.gw_add_u64_mod_eq a b m
theorem gen_sub_u64_mod_eq (a b : Nat) (m : Modulus) : GenW.sub_u64_mod a b m = subMod a b m := HC.gw_sub_u64_mod_eq a b m
theorem gen_barrett_reduce_u128_eq (x0 x1 : Nat) (m : Modulus) : GenW.barrett_reduce_u128 x0 x1 m = barrett128 x0 x1 m := HC.gw_barrett_reduce_u128_eq x0 x1 m
theorem gen_barrett_reduce_u64_eq (x : Nat) (m : Modulus) : GenW.barrett_reduce_u64 x m = barrett64 x m := HC.gw_barrett_reduce_u64_eq x m
theorem gen_multiply_u64_mod_eq (a b : Nat) (m : Modulus) : GenW.multiply_u64_mod a b m = mulMod a b m := HC.gw_multiply_u64_mod_eq a b m
theorem gen_multiply_u64operand_mod_eq (x : Nat) (y : MulOperand) (m : Modulus) :
    GenW.multiply_u64operand_mod x y m = mulOperandMod x y m := HC.gw_multiply_u64operand_mod_eq x y m
theorem gen_multiply_u64operand_mod_lazy_eq (x : Nat) (y : MulOperand) (m : Modulus) :
    GenW.multiply_u64operand_mod_lazy x y m = mulOperandModLazy x y m := HC.gw_multiply_u64operand_mod_lazy_eq x y m
theorem gen_multiply_add_u64_mod_eq (a b c : Nat) (m : Modulus) : GenW.multiply_add_u64_mod a b c m = mulAddMod a b c m := HC.gw_multiply_add_u64_mod_eq a b c m
theorem gen_multiply_u64operand_add_u64_mod_eq (a : Nat) (b : MulOperand) (c : Nat) (m : Modulus) :
    GenW.multiply_u64operand_add_u64_mod a b c m = mulOperandAddMod a b c m := HC.gw_multiply_u64operand_add_u64_mod_eq a b c m
theorem gen_exponentiate_u64_mod_eq (x e : Nat) (m : Modulus) : GenW.exponentiate_u64_mod x e m = exponentiateMod x e m := HC.gw_exponentiate_u64_mod_eq x e m
/-- `u64::leading_zeros` is modelled as `64 - bitlength`, meaningful below 2^64 only -/
theorem gen_get_significant_bit_count_eq (v : Nat) (hv : v < 2^64) : GenW.get_significant_bit_count v = pure (bitCount v) := HC.gw_get_significant_bit_count_eq v hv
theorem gen_gcd_eq (x y : Nat) : GenW.gcd x y = pure (gcdU64 x y) := HC.gw_gcd_eq x y
/-- the empty slice panics with an arithmetic overflow in the code (`value.len() - 1`), the hand model reports `oob` -/
theorem gen_modulo_uint_eq (v : List Nat) (m : Modulus) (hv : v ≠ []) : GenW.modulo_uint v m = moduloUint v m := HC.gw_modulo_uint_eq v m hv
theorem gen_add_u128_inplace_eq (a0 a1 b0 b1 : Nat) : GenW.add_u128_inplace a0 a1 b0 b1 =
    ((addU128 a0 a1 b0 b1).1, (addU128 a0 a1 b0 b1).2, (addU64Carry a1 b1 (addU64 a0 b0).2).2) := HC.gw_add_u128_inplace_eq a0 a1 b0 b1
theorem gen_dot_product_mod_eq (xs ys : List Nat) (m : Modulus) : GenW.dot_product_mod xs ys m = dotProductMod xs ys m := HC.gw_dot_product_mod_eq xs ys m
/-- `(x % y) as i64 as u64` is the identity only below 2^64: hence `y < 2^64` -/
theorem gen_xgcd_eq (x y : Nat) (hy : y < 2^64) : GenW.xgcd x y = HC.xgcd x y := HC.gw_xgcd_eq x y hy
/-- (new `*result`, returned bool) against the hand model's `Option`, on the domain of `xgcd_spec` (v < 2^63, 2 ≤ m < 2^61) -/
theorem gen_try_invert_u64_mod_u64_eq (v m r0 : Nat) (hv : v < 2^63) (hm2 : 2 ≤ m) (hm : m < 2^61) :
    GenW.try_invert_u64_mod_u64 v m r0 =
      (tryInvert v m >>= fun o => pure (match o with | none => (r0, false) | some r => (r, true))) := HC.gw_try_invert_u64_mod_u64_eq v m r0 hv hm2 hm
--GEN-STRETCH

/-! ### translator tie, phase 2: `MultiplyU64ModOperand::new` / `set_quotient` / `divide_u128_u64_inplace` (Proofs/GenWord2.lean) -/
theorem gen_divide_u128_u64_inplace_eq (n0 n1 d : Nat) (h0 : n0 < 2^64) (h1 : n1 < 2^64) :
    GenW.divide_u128_u64_inplace n0 n1 d =
      if d = 0 then .error .other
      else .ok (((n1 <<< 64 ||| n0) % d) % B64, 0, ((n1 <<< 64 ||| n0) / d) % B64, ((n1 <<< 64 ||| n0) / d) / B64) :=
  HC.gx_divide_u128_u64_inplace_eq n0 n1 d h0 h1
theorem gen_mulop_new_eq (y : Nat) (m : Modulus) (hy : y < 2^64) : GenW.mulop_new y m = MulOperand.new y m := HC.gx_mulop_new_eq y m hy
theorem gen_mulop_set_quotient_eq (s : MulOperand) (m : Modulus) (hy : s.operand < 2^64) :
    GenW.mulop_set_quotient s m = MulOperand.new s.operand m := HC.gx_mulop_set_quotient_eq s m hy

/-! ### translator tie, phase 2: multi-word loops writing through `&mut [u64]` (Proofs/GenWord3.lean); the slice `result` is an input list
     (only its length matters) and the first component of the result -/
theorem gen_add_uint_eq (a b r : List Nat) : GenW.add_uint a b r = addUint a b r.length := HC.gx_add_uint_eq a b r
theorem gen_sub_uint_eq (a b r : List Nat) : GenW.sub_uint a b r = subUint a b r.length := HC.gx_sub_uint_eq a b r
theorem gen_add_uint_u64_eq (a : List Nat) (w : Nat) (r : List Nat) : GenW.add_uint_u64 a w r = addUintU64 a w r.length := HC.gx_add_uint_u64_eq a w r
theorem gen_sub_uint_u64_eq (a : List Nat) (w : Nat) (r : List Nat) : GenW.sub_uint_u64 a w r = subUintU64 a w r.length := HC.gx_sub_uint_u64_eq a w r

/-- non-vacuity: a 61-bit modulus is well formed and the premises of the theorems are satisfiable -/
example : ∃ m, Modulus.mk? 2305843009213693951 = .ok m ∧ m.WF :=
  ⟨_, rfl, (Modulus.mk?_wf (v := 2305843009213693951) rfl (by decide)).1⟩

/-! ### translator tie, phase 3 (Proofs/GenWord4.lean): `negate_uint` (src/util/basic.rs) generated into Gen/WordFns.lean equals
     `negateUint` (including the out-of-bounds panics when the operand is shorter than the result or the result is empty) -/
theorem gen_negate_uint_eq (a r : List Nat) : GenW.negate_uint a r = negateUint a r.length := HC.gy_negate_uint_eq a r

/-! ### translator tie, phase 4d (Proofs/GenWord5.lean, generated file Gen/Word2Fns.lean = namespace `GenW2`): more of src/util/basic.rs.
     `compare_uint` (returns `std::cmp::Ordering` = Lean's `Ordering`; never panics), `is_greater_than_or_equal_uint`, the in-place ripples
     `add_uint_inplace` / `sub_uint_inplace` (results: new contents of operand1, carry / borrow; including every out-of-bounds panic), the
     multi-word modular `add_uint_mod` / `add_uint_mod_inplace` / `sub_uint_mod` (hypothesis = the calling convention `result.len() =
     modulus.len()`: the model takes every length from the modulus, the code from the result buffer) and the 192-bit shifts
     (`a_i < 2^64` = the word type: `(x << b) | (y >> (64 - b))` is the sum of the model only for a 64-bit `y`; the previous contents
     `r0 r1 r2` of `result` are inputs of the generated function because every assignment to `result` is conditional, and irrelevant). -/
theorem gen_compare_uint_eq (a b : List Nat) : GenW2.compare_uint a b = .ok (gq_ofInt (compareUint a b)) := HC.gq_compare_uint_eq a b
theorem gen_is_greater_than_or_equal_uint_eq (a b : List Nat) :
    GenW2.is_greater_than_or_equal_uint a b = .ok (geUint a b) := HC.gq_is_greater_than_or_equal_uint_eq a b
theorem gen_add_uint_inplace_eq (a b : List Nat) : GenW2.add_uint_inplace a b = addUint a b a.length := HC.gq_add_uint_inplace_eq a b
theorem gen_sub_uint_inplace_eq (a b : List Nat) : GenW2.sub_uint_inplace a b = subUint a b a.length := HC.gq_sub_uint_inplace_eq a b
theorem gen_add_uint_mod_eq (a b m r : List Nat) (hr : r.length = m.length) : GenW2.add_uint_mod a b m r = addUintMod a b m :=
  HC.gq_add_uint_mod_eq a b m r hr
theorem gen_add_uint_mod_inplace_eq (a b m : List Nat) (hr : a.length = m.length) : GenW2.add_uint_mod_inplace a b m = addUintMod a b m :=
  HC.gq_add_uint_mod_inplace_eq a b m hr
theorem gen_sub_uint_mod_eq (a b m r : List Nat) (hr : r.length = m.length) : GenW2.sub_uint_mod a b m r = subUintMod a b m :=
  HC.gq_sub_uint_mod_eq a b m r hr
theorem gen_left_shift_u192_eq (a0 a1 a2 s r0 r1 r2 : Nat) (h0 : a0 < 2^64) (h1 : a1 < 2^64) :
    (GenW2.left_shift_u192 a0 a1 a2 s r0 r1 r2 >>= fun p => pure [p.1, p.2.1, p.2.2]) = leftShiftU192 [a0, a1, a2] s :=
  HC.gq_left_shift_u192_eq a0 a1 a2 s r0 r1 r2 h0 h1
theorem gen_right_shift_u192_eq (a0 a1 a2 s r0 r1 r2 : Nat) (h0 : a0 < 2^64) (h1 : a1 < 2^64) (h2 : a2 < 2^64) :
    (GenW2.right_shift_u192 a0 a1 a2 s r0 r1 r2 >>= fun p => pure [p.1, p.2.1, p.2.2]) = rightShiftU192 [a0, a1, a2] s :=
  HC.gq_right_shift_u192_eq a0 a1 a2 s r0 r1 r2 h0 h1 h2
/-- non-vacuity of the modular ties: 2^64 - 1 + 1 mod (2^64 - 1) on one limb goes through the carry branch -/
example : GenW2.add_uint_mod [18446744073709551615] [1] [18446744073709551615] [0] = .ok [1] := by decide

end HC.C08
