import Heathcliff.Proofs.Word
namespace HC.C08
theorem modulus_new_wf {v : Nat} {m : Modulus} (h : Modulus.mk? v = .ok m) (hv : v ≠ 0) :
    m.WF ∧ m.value = v := Modulus.mk?_wf h hv
end HC.C08
