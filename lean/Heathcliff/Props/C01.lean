import Heathcliff.Proofs.C01E
import Heathcliff.Proofs.C01L
import Heathcliff.Proofs.C01Q
import Heathcliff.Proofs.C01P
import Heathcliff.Proofs.C01O
import Heathcliff.Proofs.C01J
import Heathcliff.Proofs.C01V
import Heathcliff.Proofs.C01X
import Heathcliff.Proofs.C01Y
import Heathcliff.Proofs.GenScalingSpec
import Heathcliff.Proofs.GenDec12
import Heathcliff.Proofs.GenRns8
import Heathcliff.Proofs.GenRns19
import Heathcliff.Proofs.GenContextC01

/- Property theorems only (statements verbatim; proofs are the helper lemmas of Heathcliff/Proofs). -/
namespace HC.C01
open HC
open Finset
variable {R : Type} [CommRing R]

/-- it is the nearest integer to q·m/t (ties up):  ⌊(q·m + ⌊(t+1)/2⌋)/t⌋ -/
theorem deltaM_eq (q t m : Nat) (ht : 0 < t) : deltaM q t m = (q * m + (t + 1) / 2) / t := HC.deltaM_eq q t m ht

/-- |t·Δ(m) − q·m| ≤ t/2 + 1/2, i.e. the rounding error of the scaling is at most (t+1)/2 -/
theorem deltaM_err (q t m : Nat) (ht : 0 < t) :
    ((t * deltaM q t m : Nat) : Int) - (q * m : Nat) ≤ (t + 1) / 2 ∧ (q * m : Nat) - ((t * deltaM q t m : Nat) : Int) ≤ t / 2 := HC.deltaM_err q t m ht

/-- BFV SCALE ROUND TRIP: for every q, t ≥ 2, m < t and every noise v with 2·t·(|v| + 1) < q:
    decoding (Δ(m) + v) mod q — centred lift, multiply by t, divide by q with rounding, reduce mod t — returns m.
    Covers upper-half values, q mod t ≠ 0, t a power of two, t larger than a prime factor of q. -/
theorem bfv_scale_round_trip {q t m : Nat} {v : Int} (ht : 2 ≤ t) (hm : m < t) (hv : 2 * t * (v.natAbs + 1) < q) :
    Spec.imod (Spec.roundDiv (t * Spec.centred (Spec.imod ((deltaM q t m : Int) + v) q) q) q) t = m := HC.bfv_scale_round_trip ht hm hv

/-- BGV ROUND TRIP: phase = lift(m) + t·v with |lift(m) + t·v| < q/2 decodes (centred mod q, then mod t) to m -/
theorem bgv_round_trip {q t m : Nat} {v : Int} (ht : 2 ≤ t) (hm : m < t) (hq : 2 * (t * (v.natAbs + 1)) < q) :
    Spec.imod (Spec.centred (Spec.imod (bgvLift t m + t * v) q) q) t = m := HC.bgv_round_trip ht hm hq

/-- public-key encryption: pk = (−(a·s + e), a), ct = (pk0·u + e0 + M, pk1·u + e1): phase = M − e·u + e0 + e1·s -/
theorem phase_fresh_pk (a s e u e0 e1 M : R) :
    ((-(a * s + e)) * u + e0 + M) + (a * u + e1) * s = M - e * u + e0 + e1 * s := HC.phase_fresh_pk a s e u e0 e1 M

/-- secret-key encryption: ct = (−(a·s + e) + M, a): phase = M − e -/
theorem phase_fresh_sk (a s e M : R) : (-(a * s + e) + M) + a * s = M - e := HC.phase_fresh_sk a s e M

/-- BGV variants: errors enter multiplied by t -/
theorem phase_fresh_pk_bgv (a s e u e0 e1 M t : R) :
    ((-(a * s + t * e)) * u + t * e0 + M) + (a * u + t * e1) * s = M + t * (- e * u + e0 + e1 * s) := HC.phase_fresh_pk_bgv a s e u e0 e1 M t

/-- ‖a·b mod (X^n+1)‖∞ ≤ n·‖a‖∞·‖b‖∞ for integer coefficient vectors (negMulR over ℤ) -/
theorem negMul_norm_le (n : Nat) (a b : Nat → Int) (A B : Nat)
    (ha : ∀ i, i < n → (a i).natAbs ≤ A) (hb : ∀ i, i < n → (b i).natAbs ≤ B) :
    ∀ c, c < n → (negMulR n a b c).natAbs ≤ n * A * B := HC.negMul_norm_le n a b A B ha hb

/-- FRESH NOISE: with ternary u, s (‖·‖ ≤ 1) and errors bounded by 21 (C16: `cbd_bound`) the fresh public-key noise
    −e·u + e0 + e1·s has infinity norm ≤ 21·(2n + 1); the secret-key noise ≤ 21 -/
theorem fresh_noise_bound (n : Nat) (e u e0 e1 s : Nat → Int)
    (he : ∀ i, i < n → (e i).natAbs ≤ 21) (he0 : ∀ i, i < n → (e0 i).natAbs ≤ 21) (he1 : ∀ i, i < n → (e1 i).natAbs ≤ 21)
    (hu : ∀ i, i < n → (u i).natAbs ≤ 1) (hs : ∀ i, i < n → (s i).natAbs ≤ 1) :
    ∀ c, c < n → (- negMulR n e u c + e0 c + negMulR n e1 s c).natAbs ≤ 21 * (2 * n + 1) := HC.fresh_noise_bound n e u e0 e1 s he he0 he1 hu hs

theorem decrypt_fresh_bfv {n q t m : Nat} {v : Int} (ht : 2 ≤ t) (hm : m < t) (hok : FreshOK n t q)
    (hv : v.natAbs ≤ 21 * (2 * n + 1)) :
    Spec.imod (Spec.roundDiv (t * Spec.centred (Spec.imod ((deltaM q t m : Int) + v) q) q) q) t = m := HC.decrypt_fresh_bfv ht hm hok hv

/-- MODEL LINK: the coefficient `multiply_add_plain` adds in component j is Δ(m) mod q_j, for a well-formed modulus and
    the context constants ⌊Q/t⌋ mod q_j (as Harvey operand), Q mod t, ⌊(t+1)/2⌋ -/
theorem multiplyAddPlain_coeff {mq : Modulus} (hq : mq.WF) {Q t m d : Nat} (ht : 2 ≤ t) (ht64 : t < 2^61) (hm : m < t)
    (hd : d < mq.value) {op : MulOperand} (hop : WFOp mq op) (hopv : op.operand = (Q / t) % mq.value) :
    (do
      let lo := mulLo m (Q % t)
      let hi := mulHi m (Q % t)
      let (n0, carry) := addU64 lo ((t + 1) / 2)
      let n1 ← ckAdd hi carry
      let fix := ((n0 + B64 * n1) / t) % B64
      let sc ← mulOperandAddMod m op fix mq
      addMod d sc mq) = .ok ((d + deltaM Q t m) % mq.value) := HC.multiplyAddPlain_coeff hq ht ht64 hm hd hop hopv

/-- correction factor (BGV): decoding multiplies by cf^{-1} mod t.  The statement for arbitrarily large t is false only because the
    *spec-side* Euclid loop has bounded fuel (refuted in Proofs/C01J.lean); it is proved for every t < 2^199 (the library has t < 2^61). -/
theorem bgv_round_trip_cf_bounded {q t m cf : Nat} {v : Int} (ht : 2 ≤ t) (ht199 : t < 2 ^ 199) (hm : m < t) (hcf : Nat.Coprime cf t)
    (hq : 2 * (t * (v.natAbs + 1)) < q) {x : Int} (hx : x = bgvLift t ((cf * m) % t) + t * v) :
    (Spec.imod (Spec.centred (Spec.imod x q) q) t * Spec.invMod cf t) % t = m :=
  HC.bgv_round_trip_cf_bounded ht ht199 hm hcf hq hx

/-- non-vacuity of the BFV round trip: q = 2^40, t = 17, m = 16 (upper half), v = -3 -/
example : 2 * 17 * ((-3 : Int).natAbs + 1) < 2^40 := by decide


/-- MODEL LINK (decryption phase, NTT form, size 2): for a well-formed level, canonical operands and a full-length secret key the
    model of `dot_product_ct_sk_array` returns, in every RNS component, the NTT of c0 + c1·s mod (X^N+1, q_i) — the polynomial
    `Spec.phase` evaluates with big integers.  (`Level.WF`, `RnsCanon`, `skRes` are defined in Proofs/C01O.lean.) -/
theorem dotProduct_size2_ntt {l : Level} (hl : l.WF) {sk : Array Int} (hsk : sk.size = l.n) {c0 c1 : RnsPoly}
    (h0 : RnsCanon l c0) (h1 : RnsCanon l c1) :
    ∃ ph, dotProductCtSk l sk ⟨#[c0, c1], true, 1⟩ = .ok ph ∧ RnsCanon l ph ∧
      ∀ i, i < l.size → ∀ j, j < l.n →
        (intt (l.tbl i) (ph.getD i #[])).getD j 0 =
          ((intt (l.tbl i) (c0.getD i #[])).getD j 0 +
            negMulNat l.n (l.q i).value (intt (l.tbl i) (c1.getD i #[])) (skRes l sk i) j) % (l.q i).value :=
  HC.dotProduct_size2_ntt hl hsk h0 h1

/-- … and for coefficient-form (BFV) ciphertexts the model returns c0 + c1·s mod (X^N+1, q_i) in coefficient form -/
theorem dotProduct_size2_coeff {l : Level} (hl : l.WF) {sk : Array Int} (hsk : sk.size = l.n) {c0 c1 : RnsPoly}
    (h0 : RnsCanon l c0) (h1 : RnsCanon l c1) :
    ∃ ph, dotProductCtSk l sk ⟨#[c0, c1], false, 1⟩ = .ok ph ∧ RnsCanon l ph ∧
      ∀ i, i < l.size → ∀ j, j < l.n →
        (ph.getD i #[]).getD j 0 =
          ((c0.getD i #[]).getD j 0 + negMulNat l.n (l.q i).value (c1.getD i #[]) (skRes l sk i) j) % (l.q i).value :=
  HC.dotProduct_size2_coeff hl hsk h0 h1


/-! ### decryption of the model = exact-integer spec (BFV and BGV), refusals
    (statements, hypothesis bundles and non-vacuity instances: Heathcliff/Proofs/C01P.lean, section "Property theorems") -/

/-- MAIN (BFV, size 2, coefficient form): the model's `bfvDecrypt` equals the exact-integer specification
    `trim (bfvDecode t Q (phase …))`, under the BEHZ γ-condition on the exact phase -/
theorem bfvDecrypt_size2_eq_spec : type_of% @HC.bfvDecrypt_size2_eq_spec := @HC.bfvDecrypt_size2_eq_spec

/-- MAIN (BGV, size 2, NTT form, any correction factor cf < 2^63 coprime to t): the model's `bgvDecrypt` equals the
    exact-integer specification on the coefficient forms of the input polynomials; ties x̃ = Q/2 excluded -/
theorem bgvDecrypt_size2_eq_spec : type_of% @HC.bgvDecrypt_size2_eq_spec := @HC.bgvDecrypt_size2_eq_spec

/-- BFV decryption refuses NTT-form ciphertexts -/
theorem bfvDecrypt_refuses_ntt : type_of% @HC.bfvDecrypt_refuses_ntt := @HC.bfvDecrypt_refuses_ntt

/-- BGV decryption refuses coefficient-form ciphertexts -/
theorem bgvDecrypt_refuses_coeff : type_of% @HC.bgvDecrypt_refuses_coeff := @HC.bgvDecrypt_refuses_coeff

/-- both refuse ciphertexts with fewer than two polynomials -/
theorem bfvDecrypt_refuses_small : type_of% @HC.bfvDecrypt_refuses_small := @HC.bfvDecrypt_refuses_small

theorem bgvDecrypt_refuses_small : type_of% @HC.bgvDecrypt_refuses_small := @HC.bgvDecrypt_refuses_small

/-- BFV decryption refuses when the tool has no plain-modulus constants (built with t = 0, the CKKS case) -/
theorem bfvDecrypt_refuses_noT : type_of% @HC.bfvDecrypt_refuses_noT := @HC.bfvDecrypt_refuses_noT

/-- BGV decryption (size 2, NTT form) refuses a correction factor that is not invertible modulo t -/
theorem bgvDecrypt_size2_refuses_cf : type_of% @HC.bgvDecrypt_size2_refuses_cf := @HC.bgvDecrypt_size2_refuses_cf

theorem bfvDecrypt_eq_spec_of_phase : type_of% @HC.bfvDecrypt_eq_spec_of_phase := @HC.bfvDecrypt_eq_spec_of_phase

theorem bgvDecrypt_eq_spec_of_phase : type_of% @HC.bgvDecrypt_eq_spec_of_phase := @HC.bgvDecrypt_eq_spec_of_phase

/-- the hypothesis `hres` of `bfvDecrypt_eq_spec_of_phase` is what C01O proves for size 2 (so the general theorem
    specialises to `bfvDecrypt_size2_eq_spec`; non-vacuity of `hres`) -/
theorem c01p_hres_size2 : type_of% @HC.c01p_hres_size2 := @HC.c01p_hres_size2

/-- NON-VACUITY of `DecOK`: a level whose tool was built by the model's constructors (`RNSBase.new` on the level's moduli,
    then `RNSTool.new` with the level's degree and plain modulus) satisfies `DecOK` -/
theorem c01p_decOK_of_new : type_of% @HC.c01p_decOK_of_new := @HC.c01p_decOK_of_new

/-- NON-VACUITY of `Level.WF` (C01O): tables built by `NTTTables.new` for the level's moduli -/
theorem c01p_levelWF_of_new : type_of% @HC.c01p_levelWF_of_new := @HC.c01p_levelWF_of_new

/-- all hypotheses of `bfvDecrypt_size2_eq_spec` hold simultaneously for a concrete level built by the model's
    constructors (N = 2, q = 17, t = 5, γ = 11) and a concrete ciphertext with non-zero noise -/
theorem c01p_hypotheses_satisfiable : type_of% @HC.c01p_hypotheses_satisfiable := @HC.c01p_hypotheses_satisfiable


/-! ### general size, CKKS, and the driver's own level constructor: every level `Drv.Sch.mkLevel` builds satisfies all hypothesis bundles, and whenever the oracle commits the driver's model column equals its spec column
    (statements, hypothesis bundles and non-vacuity instances: Heathcliff/Proofs/C01Q.lean, section "Property theorems") -/

/-- Q1 (BFV, ANY size ≥ 2, coefficient form): the model's `bfvDecrypt` equals the exact-integer specification
    `trim (bfvDecode t Q (phase …))` under the BEHZ γ-condition on the exact phase; same hypotheses as
    `bfvDecrypt_size2_eq_spec` -/
theorem bfvDecrypt_eq_spec : type_of% @HC.bfvDecrypt_eq_spec := @HC.bfvDecrypt_eq_spec

/-- Q1 (BGV, ANY size ≥ 2, NTT form, correction factor cf < 2^63 coprime to t): the model's `bgvDecrypt` equals the
    exact-integer specification on the coefficient forms of the input polynomials; ties x̃ = Q/2 excluded -/
theorem bgvDecrypt_eq_spec : type_of% @HC.bgvDecrypt_eq_spec := @HC.bgvDecrypt_eq_spec

/-- BGV decryption (any size ≥ 2, NTT form) refuses a correction factor ≠ 1 that is not invertible modulo t -/
theorem bgvDecrypt_refuses_cf : type_of% @HC.bgvDecrypt_refuses_cf := @HC.bgvDecrypt_refuses_cf

/-- Q2 (CKKS, ANY size ≥ 2, NTT form): the model's `ckksDecrypt` returns exactly the NTT form of the exact phase
    `Spec.phase` (of the coefficient forms of the input) reduced modulo every q_i — the expression the driver's oracle evaluates.
    Needs no plain-modulus constants: only `Level.WF` and `c07s_LevelQ`. -/
theorem ckksDecrypt_eq_spec : type_of% @HC.ckksDecrypt_eq_spec := @HC.ckksDecrypt_eq_spec

/-- Q2, component form: the result is canonical, and the inverse transform of component i is the exact phase modulo q_i;
    the exact phase is the centred lift (all coefficients in (-Q/2, Q/2]) -/
theorem ckksDecrypt_intt_eq_phase : type_of% @HC.ckksDecrypt_intt_eq_phase := @HC.ckksDecrypt_intt_eq_phase

/-- CKKS decryption refuses coefficient-form ciphertexts -/
theorem ckksDecrypt_refuses_coeff : type_of% @HC.ckksDecrypt_refuses_coeff := @HC.ckksDecrypt_refuses_coeff

/-- CKKS decryption refuses ciphertexts with fewer than two polynomials -/
theorem ckksDecrypt_refuses_small : type_of% @HC.ckksDecrypt_refuses_small := @HC.ckksDecrypt_refuses_small

/-- Q3, all bundles at once, from `RNSBase.new`, `RNSTool.new`, `NTTTables.new` (bundle `c01q_Built` = literally these calls) -/
theorem level_bundles_of_constructors : type_of% @HC.level_bundles_of_constructors := @HC.level_bundles_of_constructors

/-- Q4: every level returned by the driver's `Drv.Sch.mkLevel` satisfies all hypothesis bundles of the end-to-end theorems —
    with NO hypothesis on the inputs (everything needed is checked by the constructors the driver calls) — and its fields are
    the driver's inputs.  The plain-modulus bundles (`DecOK`, `c05u_BgvOK`) need t ≠ 0 (for t = 0, the CKKS case, the tool has
    no such constants: see `mkLevel_t0`). -/
theorem mkLevel_ok : type_of% @HC.mkLevel_ok := @HC.mkLevel_ok

/-- with t = 0 the tool carries no plain-modulus constants, and BFV decryption at such a level refuses -/
theorem mkLevel_t0 : type_of% @HC.mkLevel_t0 := @HC.mkLevel_t0

/-- necessary conditions on the inputs (contrapositive = refusals of `mkLevel`): degree a power of two in [2, 2^17],
    between 1 and 64 moduli, each in [2, 2^61), ≡ 1 mod 2n, accepted by the Miller–Rabin test -/
theorem mkLevel_ok_inputs : type_of% @HC.mkLevel_ok_inputs := @HC.mkLevel_ok_inputs

/-- END TO END on the driver's objects (BFV): for the level the driver builds, the model's decryption equals the expression the
    driver's oracle `exactDec` evaluates (`trim (bfvDecode t (prodL qs) (exactPhase …))`), for every size ≥ 2, under the BEHZ
    γ-condition on the exact phase -/
theorem mkLevel_bfvDecrypt_eq_oracle : type_of% @HC.mkLevel_bfvDecrypt_eq_oracle := @HC.mkLevel_bfvDecrypt_eq_oracle

/-- END TO END on the driver's objects (BGV) -/
theorem mkLevel_bgvDecrypt_eq_oracle : type_of% @HC.mkLevel_bgvDecrypt_eq_oracle := @HC.mkLevel_bgvDecrypt_eq_oracle

/-- END TO END on the driver's objects (CKKS, any t): the model returns exactly the oracle's value -/
theorem mkLevel_ckksDecrypt_eq_oracle : type_of% @HC.mkLevel_ckksDecrypt_eq_oracle := @HC.mkLevel_ckksDecrypt_eq_oracle

/-- BFV: whenever the oracle commits to a value (`bfvSafe`) and the BEHZ γ-condition holds, the two strings the driver
    compares are equal -/
theorem driver_dec_bfv : type_of% @HC.driver_dec_bfv := @HC.driver_dec_bfv

/-- BGV: whenever the oracle commits to a value, the two strings are equal -/
theorem driver_dec_bgv : type_of% @HC.driver_dec_bgv := @HC.driver_dec_bgv

/-- CKKS: the two strings are equal for every canonical NTT-form ciphertext of size ≥ 2 -/
theorem driver_dec_ckks : type_of% @HC.driver_dec_ckks := @HC.driver_dec_ckks

/-- BFV, the driver's two columns: whenever the oracle commits to a value (`bfvSafe`), the model's output string equals the
    oracle's — for EVERY canonical coefficient-form ciphertext of size ≥ 2, with no further hypothesis (the oracle's safety
    margin 2^-40 implies the BEHZ γ-condition because γ > 2^60 and there are at most 64 moduli) -/
theorem driver_dec_bfv_safe : type_of% @HC.driver_dec_bfv_safe := @HC.driver_dec_bfv_safe

/-- BGV, the driver's two columns: whenever the oracle commits to a value, the model's output string equals the oracle's
    (the oracle's test excludes ties) -/
theorem driver_dec_bgv_safe : type_of% @HC.driver_dec_bgv_safe := @HC.driver_dec_bgv_safe

/-- all hypotheses of `mkLevel_bfvDecrypt_eq_oracle` hold simultaneously for a size-3 ciphertext on a level the driver builds -/
theorem c01q_hypotheses_satisfiable : type_of% @HC.c01q_hypotheses_satisfiable := @HC.c01q_hypotheses_satisfiable

/-! ### translator tie, phase 4a: `multiply_add_plain` (src/util/scaling_variant.rs) generated by tools/rs2lean.py into
    `Heathcliff/Gen/ScalingFns.lean` (`HC.GenS`); proofs in Proofs/GenScaling.lean, Proofs/GenScalingSpec.lean; see TRANSLATOR.md -/

/-- the flat buffer layout of the code (`destination[j * coeff_count + i]`) and the model's `RnsPoly` are inverse to each other -/
theorem flatten_unflatten (size n : Nat) (d : List Nat) (h : d.length = size * n) : flattenRns size n (unflattenRns size n d) = d :=
  HC.flatten_unflatten size n d h

/-- GENERATED = MODEL: `multiply_add_plain`, generated from the Rust source, run on the flat destination buffer, IS the hand model
    `multiplyAddPlain` on the corresponding `RnsPoly` (flattened again) — successes, the `assert!` refusal of a plaintext longer than
    the degree, and arithmetic traps (all overflows, on both sides).  The context getters are instantiated with the level's data. -/
theorem gen_multiply_add_plain_eq (l : Level) (cdp : Array MulOperand) (qModT upperHalf : Nat) (plain : Poly) (dest : List Nat)
    (hcdp : l.size ≤ cdp.size) (ht : l.t.value ≠ 0) (hq : qModT < 2^64)
    (hw : ∀ i, i < plain.size → plain.getD i 0 < 2^64) (hl : dest.length = l.size * l.n) (hB : dest.length < B64) :
    GenS.multiply_add_plain dest l.qs.toList plain.size l.n l.t cdp.toList upperHalf qModT plain.toList =
      Except.map (flattenRns l.size l.n) (multiplyAddPlain l cdp qModT upperHalf plain (unflattenRns l.size l.n dest)) :=
  HC.gz_multiply_add_plain_eq l cdp qModT upperHalf plain dest hcdp ht hq hw hl hB

/-- the second `assert!`: a coefficient count beyond the plaintext's data buffer is refused -/
theorem gen_multiply_add_plain_refuses_short (dest : List Nat) (cm : List Modulus) (pc N : Nat) (pm : Modulus) (cdp : List MulOperand)
    (uh qModT : Nat) (pd : List Nat) (h : pd.length < pc) :
    GenS.multiply_add_plain dest cm pc N pm cdp uh qModT pd = .error .refused :=
  HC.gz_multiply_add_plain_refuses_short dest cm pc N pm cdp uh qModT pd h

/-- ONE THEOREM from the Rust source to the arithmetic: the code generated from `multiply_add_plain`, on a buffer whose words under
    the plaintext are canonical, with the context constants of a BFV level (`ScalingOK`: well-formed moduli, 2 ≤ t < 2^61, Harvey
    operands of ⌊Q/t⌋ mod q_j; ⌊(t+1)/2⌋; Q mod t), adds Δ(m_i) = round(Q·m_i/t) modulo q_j to coefficient i of component j and
    leaves the other words unchanged -/
theorem gen_multiply_add_plain_spec {l : Level} {Q : Nat} {cdp : Array MulOperand} (h : ScalingOK l Q cdp) (plain : Poly) (dest : List Nat)
    (hp : plain.size ≤ l.n) (hm : ∀ i, i < plain.size → plain.getD i 0 < l.t.value)
    (hl : dest.length = l.size * l.n) (hB : dest.length < B64)
    (hd : ∀ j, j < l.size → ∀ i, i < plain.size → dest.getD (j * l.n + i) 0 < (l.q j).value) :
    GenS.multiply_add_plain dest l.qs.toList plain.size l.n l.t cdp.toList ((l.t.value + 1) / 2) (Q % l.t.value) plain.toList =
      .ok ((List.range (l.size * l.n)).map fun p =>
        if p % l.n < plain.size then (dest.getD p 0 + deltaM Q l.t.value (plain.getD (p % l.n) 0)) % (l.q (p / l.n)).value
        else dest.getD p 0) :=
  HC.gen_multiply_add_plain_spec h plain dest hp hm hl hB hd

/-- non-vacuity of `ScalingOK`: N = 2, moduli 97·113, t = 17 -/
theorem scalingOK_example : type_of% @HC.gz_ex_scalingOK := @HC.gz_ex_scalingOK

/-- … and of all hypotheses of `gen_multiply_add_plain_spec` at once: buffer [5, 6 | 7, 8], plaintext (16, 3) ↦ [39, 0 | 40, 21] -/
theorem gen_multiply_add_plain_example : type_of% @HC.gz_ex_multiply_add_plain := @HC.gz_ex_multiply_add_plain


/-! ### ENCRYPTION in the model (Heathcliff/Model/Encrypt.lean: `encryptZeroAsym`, `encryptZeroSym`, the level dispatch, `bfvEncrypt` /
    `bgvEncrypt` / `ckksEncrypt`, `expandSeed`); compared bit for bit with the code on `enc_op` lines.  Statements, hypothesis bundles
    (`PkRel`, `FreshEncOK`, `rnsOfInt`, `padPlain`) : Heathcliff/Proofs/C01E.lean; concrete satisfiable instance: Proofs/C01EW.lean -/

/-- E1 (public key, coefficient form): polynomial k of `encryptZeroAsym` is (intt(pk_k) ⋆ u + e_k) mod q_i in every RNS component -/
theorem encryptZeroAsym_coeff : type_of% @HC.encryptZeroAsym_coeff := @HC.encryptZeroAsym_coeff

/-- E1' (secret key, coefficient form, with / without saved seed): c0 = −(c1 ⋆ s + e) mod q_i, c1 = coefficient form of the mask -/
theorem encryptZeroSym_coeff : type_of% @HC.encryptZeroSym_coeff := @HC.encryptZeroSym_coeff

/-- the ring identity `phase_fresh_pk` on integer coefficient functions, pulled back from ℤ[X]/(X^n+1) -/
theorem enc_pk_identity : type_of% @HC.c01e_pk_identity := @HC.c01e_pk_identity

/-- (a) the exact phase (`Spec.phase`, the quantity the model's decryption computes: `dotProduct_size2_coeff`, `bfvDecrypt_size2_eq_spec`)
    of the model's fresh public-key ciphertext is −e·u + e0 + e1·s modulo Q -/
theorem encryptZeroAsym_phase : type_of% @HC.encryptZeroAsym_phase := @HC.encryptZeroAsym_phase

/-- (a') … of the fresh secret-key ciphertext: −e modulo Q (both seed variants) -/
theorem encryptZeroSym_phase : type_of% @HC.encryptZeroSym_phase := @HC.encryptZeroSym_phase

/-- `multiplyAddPlain` on a whole canonical polynomial adds Δ(m_i) modulo q_j -/
theorem multiplyAddPlain_spec : type_of% @HC.multiplyAddPlain_spec := @HC.multiplyAddPlain_spec

/-- a phase ≡ Δ(m) + v (mod Q) with ‖v‖ ≤ B under the margin `FreshEncOK l B` is decrypted by the model to the padded plaintext -/
theorem decrypt_of_phase : type_of% @HC.c01e_decrypt_of_phase := @HC.c01e_decrypt_of_phase

/-- (b) END TO END, BFV, PUBLIC KEY: `bfvDecrypt l sk (bfvEncrypt … m) = .ok (trimPlain (m padded to N))` for ternary u, s, errors ≤ 21,
    a public key that is an encryption of zero with error ≤ 21, plaintext coefficients < t, margin `FreshEncOK l (21(2N+1))` -/
theorem bfv_encrypt_decrypt_pk : type_of% @HC.bfv_encrypt_decrypt_pk := @HC.bfv_encrypt_decrypt_pk

/-- (b') END TO END, BFV, SECRET KEY and SEED-COMPRESSED (expanded view) -/
theorem bfv_encrypt_decrypt_sk : type_of% @HC.bfv_encrypt_decrypt_sk := @HC.bfv_encrypt_decrypt_sk

/-- `expand_seed` of the seed-compressed object (c0, seed) is (c0, c1) when the seed expands to c1 (Rng model) -/
theorem expandSeed_toSeeded : type_of% @HC.expandSeed_toSeeded := @HC.expandSeed_toSeeded

/-- the modulus switch inside public-key encryption (special-prime / lower-level path) IS `modSwitchScaleNext` of the previous level
    (BFV, CKKS): C05's `modSwitchScaleNext_bfv_spec` / `_ckks_spec` and their phase consequences apply to it -/
theorem encDivideQLast_eq_modSwitch : type_of% @HC.encDivideQLast_eq_modSwitch := @HC.encDivideQLast_eq_modSwitch

/-! ### ENCRYPTION, completed (Proofs/C01F … C01L; concrete satisfiable instances of every hypothesis bundle: Proofs/C01LW.lean).
    `FreshZero l sk r ν`: the computation `r` yields a canonical size-2 ciphertext in the scheme's form with correction factor 1 whose exact
    phase is tt·ν modulo Q (tt = t for BGV, 1 otherwise).  Every branch of the level dispatch `encryptZeroInternal` is covered:
    public key without previous level (`_fresh_pk`), secret key / seeded (`_fresh_sk`), public key through the previous level
    (`_fresh_pk_prev`: special-prime path and lower levels) — each for BFV, CKKS and BGV. -/

/-- F1 (public key, NTT form — CKKS, BGV): coefficient form of polynomial k = (intt(pk_k) ⋆ u + tt·e_k) mod q_i in every component -/
theorem encryptZeroAsym_ntt : type_of% @HC.encryptZeroAsym_ntt := @HC.encryptZeroAsym_ntt

/-- F1' (secret key, NTT form; also the public key of every scheme): c1 = a, coefficient form of c0 = −(intt(a) ⋆ s + tt·e) mod q_i -/
theorem encryptZeroSym_ntt : type_of% @HC.encryptZeroSym_ntt := @HC.encryptZeroSym_ntt

/-- KEY GENERATION: the stored secret key made from the ternary sample is `skNtt` of the signed coefficients -/
theorem genSecretKey_eq_skNtt : type_of% @HC.genSecretKey_eq_skNtt := @HC.genSecretKey_eq_skNtt

/-- KEY GENERATION: `PkRel` is a THEOREM about the model's `genPublicKey` (= `KeyGenerator::create_public_key`, compared bit for bit on
    `keygen_op` lines): for every secret, mask and error polynomial the generated key is an encryption of zero with error tt·e -/
theorem genPublicKey_pkRel : type_of% @HC.genPublicKey_pkRel := @HC.genPublicKey_pkRel

/-- … and the relation of the key level holds at every level below it -/
theorem pkRel_lower : type_of% @HC.PkRel.lower := @HC.PkRel.lower

/-- ‖tt·e‖ ≤ tt·21 -/
theorem genPublicKey_error_bound : type_of% @HC.genPublicKey_error_bound := @HC.genPublicKey_error_bound

/-- phase of two polynomials whose residues are congruent to integer lifts -/
theorem phase_of_lift : type_of% @HC.c01g_phase_of_lift := @HC.c01g_phase_of_lift

/-- adding M to c0 adds M to the exact phase -/
theorem phase_add_c0 : type_of% @HC.c01g_phase_add_c0 := @HC.c01g_phase_add_c0

/-- ‖−e_pk⋆u + e0 + e1⋆s‖ ≤ 21(2N+1) -/
theorem pkNoise_bound : type_of% @HC.pkNoise_bound := @HC.pkNoise_bound

/-- `encryptZeroAsym` in the scheme's own form (all three schemes) is a fresh encryption of zero with noise `pkNoise` -/
theorem encryptZeroAsym_fresh : type_of% @HC.encryptZeroAsym_fresh := @HC.encryptZeroAsym_fresh

/-- `encryptZeroSym` in the scheme's own form (all three schemes, both seed variants): noise −e -/
theorem encryptZeroSym_fresh : type_of% @HC.encryptZeroSym_fresh := @HC.encryptZeroSym_fresh

/-- DISPATCH branch: public key, level without a previous level -/
theorem encryptZeroInternal_fresh_pk : type_of% @HC.encryptZeroInternal_fresh_pk := @HC.encryptZeroInternal_fresh_pk

/-- DISPATCH branch: secret key / seed-compressed, every level -/
theorem encryptZeroInternal_fresh_sk : type_of% @HC.encryptZeroInternal_fresh_sk := @HC.encryptZeroInternal_fresh_sk

/-- THE DIVISION STEP (`encDivideQLast`) maps a fresh zero at the previous level to a fresh zero at the level: q_L·ν' = ν + ρ,
    2‖ρ‖∞ ≤ slack·q_L·(1+‖s‖₁) (slack 1: BFV / CKKS rounding; 2: BGV t-compatible division) -/
theorem encDivideQLast_fresh : type_of% @HC.encDivideQLast_fresh := @HC.encDivideQLast_fresh

/-- DISPATCH branch: public key THROUGH THE PREVIOUS LEVEL (special-prime path of the first level, every lower level) -/
theorem encryptZeroInternal_fresh_pk_prev : type_of% @HC.encryptZeroInternal_fresh_pk_prev := @HC.encryptZeroInternal_fresh_pk_prev

/-- … with the standard bounds: ‖ν'‖∞ ≤ ⌊(2·21(2N+1) + slack·q_L(1+N)) / (2 q_L)⌋ -/
theorem encryptZeroInternal_fresh_pk_prev_bounded : type_of% @HC.encryptZeroInternal_fresh_pk_prev_bounded :=
  @HC.encryptZeroInternal_fresh_pk_prev_bounded

theorem spBound_le : type_of% @HC.spBound_le := @HC.spBound_le

/-- BFV on ANY fresh zero (any mode, any dispatch branch): decrypt ∘ encrypt = id under `FreshEncOK l B` -/
theorem bfv_encrypt_decrypt_of_fresh : type_of% @HC.bfv_encrypt_decrypt_of_fresh := @HC.bfv_encrypt_decrypt_of_fresh

/-- END TO END, BFV, PUBLIC KEY THROUGH THE SPECIAL PRIME (the default) with the explicit rounding term in the margin -/
theorem bfv_encrypt_decrypt_pk_sp : type_of% @HC.bfv_encrypt_decrypt_pk_sp := @HC.bfv_encrypt_decrypt_pk_sp

/-- BGV plaintext lift, fast path: ≡ centred lift of m modulo every q_i, canonical -/
theorem bgvLiftPlain_fast_spec : type_of% @HC.bgvLiftPlain_fast_spec := @HC.bgvLiftPlain_fast_spec

/-- BGV plaintext lift, multi-word path (`add_uint_u64` + `decompose_array`) -/
theorem bgvLiftPlain_multiword_spec : type_of% @HC.bgvLiftPlain_multiword_spec := @HC.bgvLiftPlain_multiword_spec

theorem bgvLiftPlain_spec : type_of% @HC.bgvLiftPlain_spec := @HC.bgvLiftPlain_spec

/-- a phase ≡ lift(m) + t·v, ‖v‖ ≤ B, 2t(B+1) < Q, is decrypted by the model (NTT form, cf = 1) to the padded plaintext -/
theorem bgv_decrypt_of_phase : type_of% @HC.c01i_bgv_decrypt_of_phase := @HC.c01i_bgv_decrypt_of_phase

/-- BGV on ANY fresh zero: decrypt ∘ encrypt = id, correction factor 1, under `FreshEncOKBgv l B` -/
theorem bgv_encrypt_decrypt_of_fresh : type_of% @HC.bgv_encrypt_decrypt_of_fresh := @HC.bgv_encrypt_decrypt_of_fresh

/-- END TO END, BGV: public key / secret key + seeded / public key through the special prime -/
theorem bgv_encrypt_decrypt_pk : type_of% @HC.bgv_encrypt_decrypt_pk := @HC.bgv_encrypt_decrypt_pk
theorem bgv_encrypt_decrypt_sk : type_of% @HC.bgv_encrypt_decrypt_sk := @HC.bgv_encrypt_decrypt_sk
theorem bgv_encrypt_decrypt_pk_sp : type_of% @HC.bgv_encrypt_decrypt_pk_sp := @HC.bgv_encrypt_decrypt_pk_sp

/-- CKKS on ANY fresh zero: decrypted RNS plaintext = plaintext + ONE integer noise vector ν in every RNS component -/
theorem ckks_encrypt_decrypt_of_fresh : type_of% @HC.ckks_encrypt_decrypt_of_fresh := @HC.ckks_encrypt_decrypt_of_fresh

/-- CKKS STATEMENT per mode, with the fresh bound on ‖ν‖∞ -/
theorem ckks_encrypt_decrypt_pk : type_of% @HC.ckks_encrypt_decrypt_pk := @HC.ckks_encrypt_decrypt_pk
theorem ckks_encrypt_decrypt_sk : type_of% @HC.ckks_encrypt_decrypt_sk := @HC.ckks_encrypt_decrypt_sk
theorem ckks_encrypt_decrypt_pk_sp : type_of% @HC.ckks_encrypt_decrypt_pk_sp := @HC.ckks_encrypt_decrypt_pk_sp


/-! ### END TO END ON THE DRIVER'S OWN OBJECTS (Proofs/C01U, C01V; concrete satisfiable instances of every hypothesis: Proofs/C01VW).
    No hypothesis bundle is left abstract: levels are what `Drv.Sch.mkLevel` returns, context constants are what the driver computes from
    their definitions (`Drv.C01E.bfvConsts`, `Drv.C01E.bgvIncr`), the public key is what the model's `genPublicKey` returns
    (`DrvCtx`), the call of `encrypt_zero_internal` is one of the admissible ones (`DrvMode`: public key at the head of the chain,
    public key through the previous level = special-prime path and every lower level, secret key / seed-compressed), the drawn
    polynomials are in their proved ranges (ternary, ‖e‖∞ ≤ 21), the plaintext is valid, and a decidable margin holds. -/

/-- U1: `mkLevel` on a modulus list and on a prefix of it: same `Modulus` / `NTTTables` objects in the common positions, same plain
    modulus and scheme (`LevelPrefix`) -/
theorem mkLevel_prefix : type_of% @HC.mkLevel_prefix := @HC.mkLevel_prefix

/-- U1': the whole bundle `PrevLevelOK` of the special-prime path for the levels on `qs` and `qs ++ [qL]` (only input hypothesis: a
    BGV context has t ≠ 0) -/
theorem mkLevel_prevLevelOK : type_of% @HC.mkLevel_prevLevelOK := @HC.mkLevel_prevLevelOK

/-- U2: the BFV constants the driver computes (`bfvConsts`: Harvey operands of ⌊Q/t⌋ mod q_j) exist and satisfy `ScalingOK` -/
theorem bfvConsts_scalingOK : type_of% @HC.bfvConsts_scalingOK := @HC.bfvConsts_scalingOK

/-- U3: the BGV lift constants the driver computes (`bgvIncr`: fast path iff every q_i > t) satisfy `BgvLiftOK` when t < Q -/
theorem bgvIncr_liftOK : type_of% @HC.bgvIncr_liftOK := @HC.bgvIncr_liftOK

/-- the generated public key of a `DrvCtx` is an encryption of zero with error tt·e, ‖e‖∞ ≤ 21 -/
theorem drvCtx_pkRel : type_of% @HC.DrvCtx.pkRel := @HC.DrvCtx.pkRel

/-- EVERY ADMISSIBLE CALL of `encrypt_zero_internal` on the driver's objects IS A FRESH ENCRYPTION OF ZERO within the bound of its mode:
    21(2N+1) (public key, head of the chain), ⌊(2·21(2N+1) + slack·q_L(1+N))/(2q_L)⌋ (through the previous level), 21 (secret key) -/
theorem drvMode_fresh {scheme : Scheme} {n t : Nat} {kqs : List Nat} {kl : Level} {sk : Array Int} {pk0 pk1 : RnsPoly}
    {lqs : List Nat} {l : Level} {mode : EncMode} {B : Nat}
    (hc : DrvCtx scheme n t kqs kl sk pk0 pk1) (hl : Drv.Sch.mkLevel scheme n lqs t = .ok l)
    (hm : DrvMode scheme n t kqs sk pk0 pk1 lqs l mode B) :
    ∃ ν : Nat → Int, FreshZero l sk (encryptZeroInternal l mode) ν ∧ ∀ c, c < l.n → (ν c).natAbs ≤ B := HC.drvMode_fresh hc hl hm

/-- the BFV margin from the inputs: 4·t·(B+1) ≤ Q implies `FreshEncOK l B` for the level `mkLevel` builds (γ > 2^60, ≤ 64 moduli) -/
theorem mkLevel_freshEncOK : type_of% @HC.mkLevel_freshEncOK := @HC.mkLevel_freshEncOK

/-- the BGV margin IS the input condition 2·t·(B+1) < Q -/
theorem mkLevel_freshEncOKBgv : type_of% @HC.mkLevel_freshEncOKBgv := @HC.mkLevel_freshEncOKBgv

/-- V1, END TO END, BFV, ALL MODES AT ONCE: `bfvDecrypt l sk (bfvEncrypt … m) = m` (padded to N, trimmed) for every plaintext of length
    ≤ N with coefficients < t, under the decidable margin `FreshEncOK l B` of the mode's bound B -/
theorem drv_bfv_encrypt_decrypt {n t : Nat} {kqs : List Nat} {kl : Level} {sk : Array Int} {pk0 pk1 : RnsPoly}
    {lqs : List Nat} {l : Level} {mode : EncMode} {B : Nat}
    (hc : DrvCtx .bfv n t kqs kl sk pk0 pk1) (hl : Drv.Sch.mkLevel .bfv n lqs t = .ok l) (ht : t ≠ 0)
    (hm : DrvMode .bfv n t kqs sk pk0 pk1 lqs l mode B)
    {plain : Poly} (hp : plain.size ≤ n) (hpm : ∀ i, i < plain.size → plain.getD i 0 < t) (hok : FreshEncOK l B) :
    ∃ cdp ct, Drv.C01E.bfvConsts l lqs t = .ok cdp ∧
      bfvEncrypt l cdp (Spec.prodL lqs % t) ((t + 1) / 2) mode plain = .ok ct ∧
      bfvDecrypt l sk ct = .ok (trimPlain (padPlain n plain)) := HC.drv_bfv_encrypt_decrypt hc hl ht hm hp hpm hok

/-- V1 with the margin on the inputs: 4·t·(B+1) ≤ Q -/
theorem drv_bfv_encrypt_decrypt_inputs : type_of% @HC.drv_bfv_encrypt_decrypt_inputs := @HC.drv_bfv_encrypt_decrypt_inputs

/-- V2, END TO END, BGV, ALL MODES AT ONCE, lift constants chosen by the driver's own rule (fast / multi-word), fresh correction factor 1,
    margin 2·t·(B+1) < Q on the inputs -/
theorem drv_bgv_encrypt_decrypt {n t : Nat} {kqs : List Nat} {kl : Level} {sk : Array Int} {pk0 pk1 : RnsPoly}
    {lqs : List Nat} {l : Level} {mode : EncMode} {B : Nat}
    (hc : DrvCtx .bgv n t kqs kl sk pk0 pk1) (hl : Drv.Sch.mkLevel .bgv n lqs t = .ok l)
    (hm : DrvMode .bgv n t kqs sk pk0 pk1 lqs l mode B)
    {plain : Poly} (hp : plain.size ≤ n) (hpm : ∀ i, i < plain.size → plain.getD i 0 < t)
    (hok : 2 * (t * (B + 1)) < Spec.prodL lqs) :
    ∃ ct, bgvEncrypt l (Drv.C01E.bgvIncr lqs t).1 ((t + 1) / 2) (Drv.C01E.bgvIncr lqs t).2 mode plain = .ok ct ∧ ct.cf = 1 ∧
      bgvDecrypt l sk ct = .ok (trimPlain (padPlain n plain)) := HC.drv_bgv_encrypt_decrypt hc hl hm hp hpm hok

/-- CKKS on ANY fresh zero, OVER THE INTEGERS: plaintext encoding the integer polynomial M, 2(|M_c| + B) < Q: the exact phase (centred lift
    of the decryption) is EXACTLY M + ν, the decrypted residues are those of M + ν -/
theorem ckks_encrypt_decrypt_int_of_fresh : type_of% @HC.ckks_encrypt_decrypt_int_of_fresh := @HC.ckks_encrypt_decrypt_int_of_fresh

/-- the NTT-form RNS plaintext of an integer polynomial is canonical and its coefficient form is M modulo every q_i -/
theorem ckksPlainOfInt_spec : type_of% @HC.ckksPlainOfInt_spec := @HC.ckksPlainOfInt_spec

/-- V3, END TO END, CKKS, ALL MODES AT ONCE, OVER THE INTEGERS: `ckksDecrypt (ckksEncrypt M) = M + ν` coefficient-wise (centred lift =
    the driver oracle's `exactPhase`; residues of the decrypted RNS plaintext), ‖ν‖∞ ≤ B -/
theorem drv_ckks_encrypt_decrypt {n t : Nat} {kqs : List Nat} {kl : Level} {sk : Array Int} {pk0 pk1 : RnsPoly}
    {lqs : List Nat} {l : Level} {mode : EncMode} {B : Nat}
    (hc : DrvCtx .ckks n t kqs kl sk pk0 pk1) (hl : Drv.Sch.mkLevel .ckks n lqs t = .ok l)
    (hm : DrvMode .ckks n t kqs sk pk0 pk1 lqs l mode B)
    {M : Array Int} (hMs : M.size = n) (hsmall : ∀ c, c < n → 2 * ((M.getD c 0).natAbs + B) < Spec.prodL lqs) :
    ∃ (ν : Nat → Int) (ct : Ct) (dec : RnsPoly), (∀ c, c < n → (ν c).natAbs ≤ B) ∧
      ckksEncrypt l mode (ckksPlainOfInt l M) = .ok ct ∧ ckksDecrypt l sk ct = .ok dec ∧ RnsCanon l dec ∧
      (∀ c, c < n → (Drv.Sch.exactPhase l lqs sk ct).getD c 0 = M.getD c 0 + ν c) ∧
      ∀ i, i < l.size → ∀ c, c < n → (intt (l.tbl i) (dec.getD i #[])).getD c 0 = Spec.imod (M.getD c 0 + ν c) (l.q i).value :=
  HC.drv_ckks_encrypt_decrypt hc hl hm hMs hsmall

/-- V4: any fresh encryption of zero within the margin decrypts to the zero plaintext (BFV / BGV) -/
theorem bfv_decrypt_fresh_zero : type_of% @HC.bfv_decrypt_fresh_zero := @HC.bfv_decrypt_fresh_zero
theorem bgv_decrypt_fresh_zero : type_of% @HC.bgv_decrypt_fresh_zero := @HC.bgv_decrypt_fresh_zero

/-- the zero plaintext as the decryptor returns it -/
theorem trimPlain_padPlain_empty : type_of% @HC.trimPlain_padPlain_empty := @HC.trimPlain_padPlain_empty

/-- V4, END TO END, `encrypt_zero_at` (every level, every mode): decrypts to `#[0]` (BFV; BGV with correction factor 1); CKKS: the centred
    lift of the decryption IS the noise ν, ‖ν‖∞ ≤ B, whenever 2B < Q -/
theorem drv_bfv_encrypt_zero_decrypt : type_of% @HC.drv_bfv_encrypt_zero_decrypt := @HC.drv_bfv_encrypt_zero_decrypt
theorem drv_bgv_encrypt_zero_decrypt : type_of% @HC.drv_bgv_encrypt_zero_decrypt := @HC.drv_bgv_encrypt_zero_decrypt
theorem drv_ckks_encrypt_zero_decrypt : type_of% @HC.drv_ckks_encrypt_zero_decrypt := @HC.drv_ckks_encrypt_zero_decrypt

/-! ### the SEED-COMPRESSED path end to end (Proofs/C01X; concrete instance with the driver's rejection sampler: Proofs/C01XW) -/

/-- X1: with a saved seed, polynomial 1 of the symmetric encryption of zero IS the mask the seed expands to (either form) -/
theorem encryptZeroSym_seeded_shape : type_of% @HC.encryptZeroSym_seeded_shape := @HC.encryptZeroSym_seeded_shape
theorem encryptZeroInternal_seeded_shape : type_of% @HC.encryptZeroInternal_seeded_shape := @HC.encryptZeroInternal_seeded_shape

/-- … the plaintext layers touch polynomial 0 only -/
theorem bfvEncrypt_seeded_shape : type_of% @HC.bfvEncrypt_seeded_shape := @HC.bfvEncrypt_seeded_shape
theorem bgvEncrypt_seeded_shape : type_of% @HC.bgvEncrypt_seeded_shape := @HC.bgvEncrypt_seeded_shape
theorem ckksEncrypt_seeded_shape : type_of% @HC.ckksEncrypt_seeded_shape := @HC.ckksEncrypt_seeded_shape

/-- X2: storing (c0, seed) and expanding restores the ciphertext whenever the seed expands to its polynomial 1 (`SeedExpands`) -/
theorem expandSeed_of_shape : type_of% @HC.expandSeed_of_shape := @HC.expandSeed_of_shape

/-- X2, END TO END, SEED-COMPRESSED: the driver's pipeline for `mode = seed` — encrypt (expanded view), store (c0, seed), `expand_seed`,
    decrypt — returns the plaintext (BFV, BGV; CKKS: M + ν over the integers) -/
theorem drv_bfv_encrypt_decrypt_seeded {n t : Nat} {kqs : List Nat} {kl : Level} {sk : Array Int} {pk0 pk1 : RnsPoly}
    {lqs : List Nat} {l : Level} (hc : DrvCtx .bfv n t kqs kl sk pk0 pk1) (hl : Drv.Sch.mkLevel .bfv n lqs t = .ok l) (ht : t ≠ 0)
    {a : RnsPoly} {e : Array Int} (ha : RnsCanon l a) (hes : e.size = n) (he : ∀ p, p < n → (e.getD p 0).natAbs ≤ 21)
    (hs : seedSaved l true = true) {U : Rng.Uniform} {xof : Rng.Xof} {seed : Rng.Seed} (hx : SeedExpands U xof l seed a)
    {plain : Poly} (hp : plain.size ≤ n) (hpm : ∀ i, i < plain.size → plain.getD i 0 < t) (hok : FreshEncOK l 21) :
    ∃ cdp ct, Drv.C01E.bfvConsts l lqs t = .ok cdp ∧
      bfvEncrypt l cdp (Spec.prodL lqs % t) ((t + 1) / 2) (.sym sk a (rnsOfInt l e) true) plain = .ok ct ∧
      expandSeed U xof l (ct.toSeeded seed) = .ok ct ∧
      bfvDecrypt l sk ct = .ok (trimPlain (padPlain n plain)) :=
  HC.drv_bfv_encrypt_decrypt_seeded hc hl ht ha hes he hs hx hp hpm hok
theorem drv_bgv_encrypt_decrypt_seeded : type_of% @HC.drv_bgv_encrypt_decrypt_seeded := @HC.drv_bgv_encrypt_decrypt_seeded
theorem drv_ckks_encrypt_decrypt_seeded : type_of% @HC.drv_ckks_encrypt_decrypt_seeded := @HC.drv_ckks_encrypt_decrypt_seeded

/-- when flag + seed do not fit into one polynomial the seeded call IS the unseeded one -/
theorem encryptZeroSym_seed_fallback : type_of% @HC.encryptZeroSym_seed_fallback := @HC.encryptZeroSym_seed_fallback

/-! ### THE TAPE FROM THE GENERATORS (Proofs/C01Y; concrete instance: Proofs/C01YW): the ranges of the drawn polynomials that `DrvMode`
    asks for are THEOREMS about the samplers of the generator model (Model/Rng.lean, specs C16B), for every byte-valued XOF, every
    generator state and every integer sampler within its range contract (`Rng.randUniform`: `randUniform_contract`) -/

/-- `sample::ternary` at a level's moduli returns `rnsOfInt` of a ternary polynomial -/
theorem ternary_tape : type_of% @HC.ternary_tape := @HC.ternary_tape

/-- `sample::centered_binomial` returns `rnsOfInt` of a polynomial with ‖e‖∞ ≤ 21 -/
theorem cbd_tape : type_of% @HC.cbd_tape := @HC.cbd_tape

/-- `sample::uniform` returns a canonical polynomial -/
theorem uniform_tape : type_of% @HC.uniform_tape := @HC.uniform_tape

/-- `sample::centered_binomial` is total (no rejection loop): every generator state yields an error polynomial -/
theorem centeredBinomial_total : type_of% @HC.centeredBinomial_total := @HC.centeredBinomial_total
theorem noiseMany_total2 : type_of% @HC.noiseMany_total2 := @HC.noiseMany_total2

/-- the draws of `Rng.asymCore` (draw order of `asymmetric_with_u_prng`) at the level's parameters are an admissible public-key mode -/
theorem drvMode_pk_of_prng : type_of% @HC.drvMode_pk_of_prng := @HC.drvMode_pk_of_prng

/-- … at the PREVIOUS level's parameters: admissible mode through the previous level (special-prime path, lower levels) -/
theorem drvMode_pkPrev_of_prng : type_of% @HC.drvMode_pkPrev_of_prng := @HC.drvMode_pkPrev_of_prng

/-- the draws of `Rng.symCore` (draw order of `symmetric_with_c1_prng`) are an admissible secret-key mode, and the public seed the c1
    generator delivered expands to the mask (`SeedExpands`: the hypothesis of the seed-compressed theorems) -/
theorem drvMode_sk_of_prng : type_of% @HC.drvMode_sk_of_prng := @HC.drvMode_sk_of_prng

/-- END TO END FROM THE GENERATOR STATES: BFV through the special prime / lower level; BGV secret key; CKKS head of the chain -/
theorem drv_bfv_encrypt_decrypt_prng_sp : type_of% @HC.drv_bfv_encrypt_decrypt_prng_sp := @HC.drv_bfv_encrypt_decrypt_prng_sp
theorem drv_bgv_encrypt_decrypt_prng_sk : type_of% @HC.drv_bgv_encrypt_decrypt_prng_sk := @HC.drv_bgv_encrypt_decrypt_prng_sk
theorem drv_ckks_encrypt_decrypt_prng_pk : type_of% @HC.drv_ckks_encrypt_decrypt_prng_pk := @HC.drv_ckks_encrypt_decrypt_prng_pk

/-- the model's generator-level function IS the tape-level function on the tape the generators deliver -/
theorem encryptZeroAsymPrng_eq_tape : type_of% @HC.encryptZeroAsymPrng_eq_tape := @HC.encryptZeroAsymPrng_eq_tape

/-- WHATEVER the model's generator-level public-key encryption of zero (`encryptZeroAsymPrng`) returns at the head of the chain is a fresh
    encryption of zero with ‖ν‖∞ ≤ 21(2N+1) — every generator state, byte-valued XOF, integer sampler within its contract -/
theorem encryptZeroAsymPrng_fresh : type_of% @HC.encryptZeroAsymPrng_fresh := @HC.encryptZeroAsymPrng_fresh

/-- … the generator-level secret-key encryption of zero (`encryptZeroSymPrng`): fresh with ‖ν‖∞ ≤ 21 at every level, either seed flag;
    the returned public seed expands to the mask, which is polynomial 1 when the seed is saved -/
theorem encryptZeroSymPrng_fresh : type_of% @HC.encryptZeroSymPrng_fresh := @HC.encryptZeroSymPrng_fresh

/-- THE KEY MATERIAL FROM THE GENERATORS: ternary draw ↦ secret (stored form = `genSecretKey` of the draw), `symCore` draws ↦ public key;
    together a `DrvCtx` -/
theorem drvCtx_of_prng : type_of% @HC.drvCtx_of_prng := @HC.drvCtx_of_prng

/-- the SHARP BFV margin on the inputs, 2·t·(B+1) ≤ Q·(1 − 2^-53) (written 2^54·t·(B+1) ≤ (2^53 − 1)·Q), implies `FreshEncOK l B` -/
theorem mkLevel_freshEncOK_sharp : type_of% @HC.mkLevel_freshEncOK_sharp := @HC.mkLevel_freshEncOK_sharp
theorem drv_bfv_encrypt_decrypt_inputs_sharp : type_of% @HC.drv_bfv_encrypt_decrypt_inputs_sharp := @HC.drv_bfv_encrypt_decrypt_inputs_sharp
/-! ### translator tie, phase 4k: the two RNS back ends of decryption on the code GENERATED from src/util/rns.rs (Proofs/GenRns8.lean, GenRns19.lean) -/

/-- BFV: the generated `RNSTool::decrypt_scale_and_round` returns `round(t·x̃/Q) mod t` under the BEHZ γ-condition (see `C10.gen_decrypt_scale_and_round_rounds`) -/
theorem gen_decrypt_scale_and_round_rounds : type_of% @HC.gr_decrypt_scale_and_round_rounds := @HC.gr_decrypt_scale_and_round_rounds
/-- BGV: the generated `RNSTool::decrypt_mod_t` returns the centred residue modulo t, provided the erased f64 rounding is exact (see `C10.gen_decrypt_mod_t_centred`) -/
theorem gen_decrypt_mod_t_centred : type_of% @HC.gr_decrypt_mod_t_centred := @HC.gr_decrypt_mod_t_centred

/-! ### round 7 (worker T): the scaling constants `multiply_add_plain` reads from the context are the ones GENERATED from `HeContext::validate`
    (Gen/ContextFns.lean `GenX.validate_bfv_consts`, see Props/C13.lean `gen_validate_bfv_consts_eq`); Proofs/GenContextC01.lean -/

/-- the constants produced by the code generated from `HeContext::validate` for a level (well-formed moduli, `2 ≤ t < 2^61`, `t < Q = Π q_j`;
    `ops` turned into `MultiplyU64ModOperand`s entry by entry with the generated `MultiplyU64ModOperand::new`) satisfy `ScalingOK`, the threshold is
    `⌊(t+1)/2⌋` and the remainder is `Q mod t` -/
theorem gen_validate_constants_scalingOK {l : Level} {cdp : Array MulOperand} {ops uhi puhi : List Nat} {fast qmt puht : Nat} {c0 u0 p0 : List Nat}
    (hw : ∀ m ∈ l.qs.toList, m.WF) (hk : 1 ≤ l.size) (ht2 : 2 ≤ l.t.value) (ht61 : l.t.value < 2^61)
    (htQ : l.t.value < Ctx.prodL (HC.gcx_vals l))
    (hgen : GenX.validate_bfv_consts l.qs.toList l.t.value (fromNat l.size (Ctx.prodL (HC.gcx_vals l))) c0 u0 p0 = .ok (ops, uhi, puhi, fast, qmt, puht))
    (hsz : l.size ≤ cdp.size)
    (hcdp : ∀ j, j < l.size → GenW.mulop_new (ops.getD j 0) (l.q j) = .ok (cdp.getD j default)) :
    ScalingOK l (Ctx.prodL (HC.gcx_vals l)) cdp ∧ puht = (l.t.value + 1) / 2 ∧ qmt = Ctx.prodL (HC.gcx_vals l) % l.t.value :=
  HC.gcx_scalingOK hw hk ht2 ht61 htQ hgen hsz hcdp

/-- **source of `validate` → source of `multiply_add_plain` → arithmetic**: with exactly those generated constants as its context inputs, the code
    generated from `multiply_add_plain` adds `Δ(m_i) = round(Q·m_i/t)` modulo `q_j` to coefficient `i` of component `j` -/
theorem gen_multiply_add_plain_with_validated_constants :
    type_of% @HC.gcx_multiply_add_plain_with_validated_constants := @HC.gcx_multiply_add_plain_with_validated_constants

/- non-vacuity: the level of `scalingOK_example` (97·113, t = 17): the generated `validate` code yields the operands (62, 79), threshold 9, remainder 13,
   and `MultiplyU64ModOperand::new` on the operands gives the table used there -/
set_option maxRecDepth 100000 in
example : GenX.validate_bfv_consts HC.gz_exLevel.qs.toList HC.gz_exLevel.t.value (fromNat HC.gz_exLevel.size (Ctx.prodL (HC.gcx_vals HC.gz_exLevel))) [] [] [] =
    .ok ([62, 79], [13, 13], [80, 96], 1, 13, 9) := by decide
example : GenW.mulop_new 62 (HC.gz_exLevel.q 0) = .ok (HC.gz_exCdp.getD 0 default) ∧ GenW.mulop_new 79 (HC.gz_exLevel.q 1) = .ok (HC.gz_exCdp.getD 1 default) := by
  constructor <;> rfl

/-! ### Phase 4m: the BGV decryption fix-up as regenerated from src/encryptor.rs (details in Props/C07.lean) -/
theorem gen_bgv_decrypt_fixup_eq : type_of% @HC.gd_bgv_decrypt_eq := @HC.gd_bgv_decrypt_eq
theorem gen_bgv_fixup_inverse_every_t : type_of% @HC.gd_bgvFixup_spec := @HC.gd_bgvFixup_spec
theorem gen_bgv_fixup_composite_witness : type_of% @HC.gd_bgv_witness := @HC.gd_bgv_witness

/-- the phase computation `dot_product_ct_sk_array` as regenerated: order of kernel calls / offsets = the model's, every size ≥ 2 -/
theorem gen_dot_product_plan_eq : type_of% @HC.gd_dot_product_plan_eq := @HC.gd_dot_product_plan_eq
theorem gen_dot_plan_witness : type_of% @HC.gd_dot_plan_witness := @HC.gd_dot_plan_witness

theorem gen_bfv_decrypt_eq : type_of% @HC.gd_bfv_decrypt_eq := @HC.gd_bfv_decrypt_eq
theorem gen_ckks_decrypt_eq : type_of% @HC.gd_ckks_decrypt_eq := @HC.gd_ckks_decrypt_eq
theorem gen_decrypt_dispatch_eq : type_of% @HC.gd_decrypt_dispatch_eq := @HC.gd_decrypt_dispatch_eq

end HC.C01
