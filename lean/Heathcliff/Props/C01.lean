import Heathcliff.Model.Scheme
namespace HC.C01
theorem placeholder : trimPlain #[1, 0, 0] = #[1] := by decide
end HC.C01
