/-
  C17 — a Decryptor / KeyGenerator / Evaluator shared by several threads is linearizable under every interleaving.

  The theorems are about the transition systems of `Model/Conc.lean` (one atomic step per lock region, the code
  between two regions touches thread-local data only) and quantify over EVERY schedule (a list of thread ids of any
  length), ANY number of threads and ANY requested powers / Galois elements.  Cache contents are abstract: any type of
  "polynomials" `P` with any product, any secret `s`; any table type `T` with any generator `gen`.
  The models are tied to the Rust code by trace validation (harness `c17.rs` + driver `Driver/C17.lean`): every
  schedule of the yield points of the real code is replayed in the model and must give the same observations.
  Not expressible here (trusted): behaviour below the lock abstraction (`std::sync::RwLock`, the Rust memory model,
  lock poisoning).
-/
import Heathcliff.Proofs.C17
import Heathcliff.Gen.Sync
import Heathcliff.Proofs.GenConc
namespace HC.C17
open HC.Conc

variable {P : Type} (A : Alg P)

/-! ## secret-key power cache (`Decryptor`, `KeyGenerator`) -/

/-- `cache_inv`: in every reachable state the cache is exactly `[s^1, …, s^n]` (entry `i` is `s^(i+1)`), and it
    is never shorter than initially (`n ≥ n0 ≥ 1`): no thread ever observes a partially built or shrunken cache. -/
theorem cache_inv (n0 : Nat) (h0 : 1 ≤ n0) (wants sched : List Nat) :
    let σ := run true A sched (init A n0 wants)
    σ.cache = powers A σ.cache.length ∧ n0 ≤ σ.cache.length ∧ 1 ≤ σ.cache.length ∧
      ∀ i, i < σ.cache.length → σ.cache[i]? = some (A.pow (i + 1)) := by
  intro σ
  have h := run_inv A sched (init_inv A h0 wants)
  have hl : (init A n0 wants).cache.length = n0 := by simp [init]
  refine ⟨h.1.2.1, by rw [← hl]; exact h.2, h.1.1, ?_⟩
  intro i hi
  have : σ.cache = powers A σ.cache.length := h.1.2.1
  rw [this]
  exact powers_getElem? A _ i (by simpa using hi)

/-- `n` never decreases along any continuation of any schedule -/
theorem cache_monotone (n0 : Nat) (h0 : 1 ≤ n0) (wants sched sched' : List Nat) :
    (run true A sched (init A n0 wants)).cache.length ≤ (run true A (sched ++ sched') (init A n0 wants)).cache.length := by
  rw [run_append]
  exact (run_inv A sched' (run_inv A sched (init_inv A h0 wants)).1).2

/-- `use_sees_enough`: a thread that asked for power `p` and stands before its use phase finds `n ≥ p`
    (so the slice it takes is in range and correct), whatever happened between its update and its use. -/
theorem use_sees_enough (n0 : Nat) (h0 : 1 ≤ n0) (wants sched : List Nat) (i : Nat) (t : Thr P)
    (ht : (run true A sched (init A n0 wants)).thr[i]? = some t) (hpc : t.pc = .U) :
    t.want ≤ (run true A sched (init A n0 wants)).cache.length ∧ wants[i]? = some t.want := by
  have h := (run_inv A sched (init_inv A h0 wants)).1
  have hok := h.2.2 t (List.mem_of_getElem? ht)
  unfold ThrOk at hok
  simp only [hpc] at hok
  refine ⟨hok.1, ?_⟩
  have hw := run_want A true sched i (init A n0 wants)
  rw [ht] at hw
  simp [init] at hw
  cases hwi : wants[i]? with
  | none => simp [hwi] at hw
  | some w => simp [hwi] at hw; rw [hw]

/-- no call ever panics (the index arithmetic `old_size + i - 1` and the slices of the use phase stay in range) -/
theorem never_panics (n0 : Nat) (h0 : 1 ≤ n0) (wants sched : List Nat) :
    ∀ t ∈ (run true A sched (init A n0 wants)).thr, t.pc ≠ .panicked := by
  intro t ht hp
  have h := (run_inv A sched (init_inv A h0 wants)).1
  have hok := h.2.2 t ht
  unfold ThrOk at hok
  simp only [hp] at hok

/-- `result_deterministic`: what a finished call read is a function of its request and the secret only
    (`[s^1..s^want]`) — independent of the schedule, of the other threads and of the initial cache length. -/
theorem result_deterministic (n0 : Nat) (h0 : 1 ≤ n0) (wants sched : List Nat) (i : Nat) (t : Thr P)
    (ht : (run true A sched (init A n0 wants)).thr[i]? = some t) (hpc : t.pc = .done) :
    t.result = some (powers A t.want) := by
  have h := (run_inv A sched (init_inv A h0 wants)).1
  have hok := h.2.2 t (List.mem_of_getElem? ht)
  unfold ThrOk at hok
  simpa only [hpc] using hok

/-- linearizability: the sequential execution in call order completes every call, and every call that finished
    under ANY schedule returned exactly what it returns in that sequential execution. -/
theorem linearizable (n0 : Nat) (h0 : 1 ≤ n0) (wants sched : List Nat) (i : Nat) (t : Thr P)
    (ht : (run true A sched (init A n0 wants)).thr[i]? = some t) (hpc : t.pc = .done) :
    ∃ t', (run true A (seqSchedule wants.length) (init A n0 wants)).thr[i]? = some t' ∧ t'.pc = .done ∧
      t'.result = t.result := by
  have hi : i < wants.length := by
    have := getElem?_lt_of_some ht
    have hl : (run true A sched (init A n0 wants)).thr.length = wants.length := by
      rw [run_thr_length]; simp [init]
    omega
  have h0' : (init A n0 wants).thr[i]? = some { want := wants[i] } := by simp [init, hi]
  obtain ⟨t', h1, h2, h3⟩ := thread_finishes A (init_inv A h0 wants) (seqSchedule wants.length) i _ h0' (count_seqSchedule hi)
  refine ⟨t', h1, h2, ?_⟩
  rw [h3, result_deterministic A n0 h0 wants sched i t ht hpc]
  have hw := run_want A true sched i (init A n0 wants)
  rw [ht, h0'] at hw
  simp at hw
  rw [hw]

/-- `no_deadlock`: every non-final state (reachable or not) has an enabled step — a thread that has not finished can
    always take its next step, no step waits for another thread. -/
theorem no_deadlock (σ : St P) (h : σ.final = false) : ∃ i, step true A i σ ≠ σ := by
  unfold St.final at h
  have : ∃ t ∈ σ.thr, t.pc.live = true := by
    rcases List.all_eq_false.mp h with ⟨t, ht, hl⟩
    exact ⟨t, ht, by simpa using hl⟩
  obtain ⟨t, ht, hl⟩ := this
  obtain ⟨i, hi⟩ := List.getElem?_of_mem ht
  exact ⟨i, step_ne_of_live A true i σ t hi hl⟩

/-- wait-freedom: a call that is scheduled four times has finished with the sequential result, no matter how the
    other threads' steps are interleaved with it. -/
theorem wait_free (n0 : Nat) (h0 : 1 ≤ n0) (wants sched : List Nat) (i : Nat) (hi : i < wants.length)
    (hc : 4 ≤ sched.count i) :
    ∃ t, (run true A sched (init A n0 wants)).thr[i]? = some t ∧ t.pc = .done ∧
      t.result = some (powers A wants[i]) := by
  have h0' : (init A n0 wants).thr[i]? = some { want := wants[i] } := by simp [init, hi]
  exact thread_finishes A (init_inv A h0 wants) sched i _ h0' hc

/-- no livelock: a scheduler that only resumes unfinished threads makes at most `4 · #threads` steps. -/
theorem bounded_steps (n0 : Nat) (wants sched : List Nat) (h : Productive A true sched (init A n0 wants)) :
    sched.length ≤ 4 * wants.length := by
  have := productive_length A true sched _ h
  rw [measure_init] at this
  omega

/-! ### what the re-check under the write lock is for -/

def natAlg : Alg Nat := { mul := (· * ·), s := 2 }

/-- the BUGGY variant (write phase swaps without re-checking): thread 0 wants 3 powers, thread 1 wants 2, both
    snapshot length 1; thread 0 installs 3 powers, then thread 1 overwrites them with its 2: the cache SHRINKS, and
    thread 0's use phase then reads out of range. -/
theorem norecheck_shrinks :
    ∃ (wants sched : List Nat) (k : Nat),
      (run false natAlg sched (init natAlg 1 wants)).cache.length
        < (run false natAlg (sched.take k) (init natAlg 1 wants)).cache.length ∧
      ∃ t ∈ (run false natAlg (sched ++ [0]) (init natAlg 1 wants)).thr, t.pc = .panicked :=
  ⟨[3, 2], [0, 1, 0, 0, 1, 1], 4, by decide⟩

/-- the same schedule with the re-check (the code as it is): nothing shrinks, both calls finish -/
example : (run true natAlg [0, 1, 0, 0, 1, 1, 0, 1] (init natAlg 1 [3, 2])).cache.length = 3 ∧
    (run true natAlg [0, 1, 0, 0, 1, 1, 0, 1] (init natAlg 1 [3, 2])).final = true := by decide

/-- non-vacuity: the hypotheses of the theorems above are satisfiable and the racy schedule is a real run -/
example : (run true natAlg [0, 1, 0, 0, 1, 1, 0, 1] (init natAlg 1 [3, 2])).thr.map (·.result)
    = [some [2, 4, 8], some [2, 4]] := by decide

/-! ## Galois permutation-table cache (`GaloisTool::apply_ntt`) -/

variable {T : Type} (gen : Nat → T)

/-- `cache_inv` for the tables: in every reachable state an entry is either absent or THE table of its index
    (never a partially built one), the number of tables is constant, and a table once present stays. -/
theorem table_inv (n : Nat) (pre : List Nat) (progs : List (List Nat)) (hp : ∀ p ∈ progs, ∀ idx ∈ p, idx < n)
    (sched : List Nat) :
    let σ := grun gen sched (ginit gen n pre progs)
    σ.tables.length = n ∧ (∀ (i : Nat) (x : T), σ.tables[i]? = some (some x) → x = gen i) ∧
      ∀ (sched' : List Nat) (i : Nat) (x : T), σ.tables[i]? = some (some x) →
        (grun gen sched' σ).tables[i]? = some (some x) := by
  intro σ
  have h := grun_inv gen sched (ginit_inv gen n pre progs hp)
  refine ⟨?_, h.1.1, ?_⟩
  · rw [← h.2.1]; simp [ginit, ginitTables]
  · intro sched' i x hx
    exact (grun_inv gen sched' h.1).2.2 i x hx

/-- `use_sees_enough` for the tables: a thread before its use phase finds the table it needs, complete. -/
theorem table_use_sees_table (n : Nat) (pre : List Nat) (progs : List (List Nat)) (hp : ∀ p ∈ progs, ∀ idx ∈ p, idx < n)
    (sched : List Nat) (i : Nat) (t : GThr T)
    (ht : (grun gen sched (ginit gen n pre progs)).thr[i]? = some t) (hpc : t.pc = .use) :
    ∃ idx, t.calls[t.pos]? = some idx ∧ (grun gen sched (ginit gen n pre progs)).tables[idx]? = some (some (gen idx)) := by
  have h := (grun_inv gen sched (ginit_inv gen n pre progs hp)).1
  have hok := h.2 t (List.mem_of_getElem? ht)
  obtain ⟨_, _, _, h4⟩ := hok
  simpa only [hpc] using h4

/-- `result_deterministic` for the tables: every finished operation permuted with exactly the tables of its
    elements, in order — a function of the operation only; and no call panics. -/
theorem table_result_deterministic (n : Nat) (pre : List Nat) (progs : List (List Nat))
    (hp : ∀ p ∈ progs, ∀ idx ∈ p, idx < n) (sched : List Nat) (t : GThr T)
    (ht : t ∈ (grun gen sched (ginit gen n pre progs)).thr) :
    t.pc ≠ .panicked ∧ (t.pc = .done → t.seen = t.calls.map fun i => some (gen i)) := by
  have h := (grun_inv gen sched (ginit_inv gen n pre progs hp)).1
  obtain ⟨h1, _, h3, h4⟩ := h.2 t ht
  refine ⟨fun hpc => by simp only [hpc] at h4, fun hpc => ?_⟩
  simp only [hpc] at h4
  rw [h3, h4, List.take_length]

/-- `no_deadlock` for the tables -/
theorem table_no_deadlock (σ : GSt T) (h : σ.final = false) : ∃ i, gstep gen i σ ≠ σ := by
  unfold GSt.final at h
  rcases List.all_eq_false.mp h with ⟨t, ht, hl⟩
  obtain ⟨i, hi⟩ := List.getElem?_of_mem ht
  exact ⟨i, gstep_ne_of_live gen i σ t hi (by simpa using hl)⟩

/-! ## lock level: regions never nest, so nobody waits while holding a lock -/

/-- `no_deadlock` with the `RwLock` explicit: in every state reachable from lock-free threads by acquire / release
    steps (readers share, a writer excludes everybody), as long as some thread has not finished, some thread's next
    step is enabled and changes the state.  (Every thread inside a region can always leave it; if nobody is inside
    a region the lock is free and every waiting thread can enter.) -/
theorem lock_no_deadlock (k : Nat) (sched : List (Nat × LPC)) :
    let σ := lrun sched (linit k)
    (∃ pc ∈ σ.thr, pc ≠ LPC.fin) → ∃ (i : Nat) (pc : LPC), σ.thr[i]? = some pc ∧ lenabled σ pc = true ∧
      ∀ nxt, lstep nxt i σ ≠ σ := by
  intro σ hl
  have hinv : LInv σ := lrun_inv sched (linit_inv k)
  obtain ⟨i, pc, h1, h2⟩ := lenabled_exists hinv hl
  exact ⟨i, pc, h1, h2, fun nxt => lstep_ne nxt i σ pc h1 h2⟩

/-- mutual exclusion at the lock level: a writer is alone -/
theorem lock_exclusion (k : Nat) (sched : List (Nat × LPC)) :
    let σ := lrun sched (linit k)
    σ.thr.countP isInW ≤ 1 ∧ (0 < σ.thr.countP isInW → σ.thr.countP isInR = 0) := by
  intro σ
  obtain ⟨h1, h2, h3⟩ : LInv σ := lrun_inv sched (linit_inv k)
  cases hw : σ.writer with
  | false => simp [hw] at h2; omega
  | true => simp [hw] at h2; have := h3 hw; omega

/-! ## everything that is interior-mutable is modelled -/

/-- the interior-mutable state of the crate (regenerated from the sources on every run): the three modelled caches
    plus `Participant::common_rng`, an `Rc<RefCell<_>>` (`Rc` is `!Send`/`!Sync`, a `Participant` cannot be shared
    between threads).  A new `RwLock`/`Mutex`/`RefCell`/`Cell`/`Atomic*`/`OnceCell` field makes this fail until it
    is modelled.  All other shared objects (`BatchEncoder`, `CKKSEncoder`, `HeContext`, `Evaluator`, `Encryptor`)
    therefore have no state that a `&self` call could change: linearizability is immediate. -/
def modelledSyncFields : List (String × String × String) :=
  [("src/encryptor.rs", "Decryptor", "secret_key_array"),
   ("src/key.rs", "KeyGenerator", "secret_key_array"),
   ("src/multiparty/participant.rs", "Participant", "common_rng"),
   ("src/util/galois.rs", "GaloisTool", "permutation_tables")]

theorem sync_fields_modelled : HC.Gen.syncFields = modelledSyncFields := by decide

/-- the lock regions of the model are the acquisition sites of the code, in source order: R, W (`compute_…`), U
    (`dot_product_ct_sk_array` / `generate_rlk`); `generate_sk` runs under `&mut self` (construction, unshared);
    check, generate-store, use (`apply_ntt`). -/
def modelledLockSites : List (String × String × String) :=
  [("src/encryptor.rs", "compute_secret_key_array", "secret_key_array.read"),
   ("src/encryptor.rs", "compute_secret_key_array", "secret_key_array.write"),
   ("src/encryptor.rs", "dot_product_ct_sk_array", "secret_key_array.read"),
   ("src/key.rs", "generate_sk", "secret_key_array.write"),
   ("src/key.rs", "compute_secret_key_array", "secret_key_array.read"),
   ("src/key.rs", "compute_secret_key_array", "secret_key_array.write"),
   ("src/key.rs", "generate_rlk", "secret_key_array.read"),
   ("src/multiparty/participant.rs", "borrow_common_rng", "common_rng.borrow_mut"),
   ("src/util/galois.rs", "apply_ntt", "permutation_tables.read"),
   ("src/util/galois.rs", "apply_ntt", "permutation_tables.write"),
   ("src/util/galois.rs", "apply_ntt", "permutation_tables.read")]

theorem lock_sites_modelled : HC.Gen.lockSites = modelledLockSites := by decide

/-! ## The PHASE STRUCTURE of the code is the model's (translator phase 4m, Gen/ConcFns.lean regenerated from the sources on every run)

`GenConc.*` are the functions the translator produces from `Decryptor::compute_secret_key_array`, `dot_product_ct_sk_array`
(src/encryptor.rs), `KeyGenerator::compute_secret_key_array`, `generate_rlk` (src/key.rs) and `GaloisTool::apply_ntt` (src/util/galois.rs):
the program of ONE thread - the flat list of action codes (`ConcProg.Act`) - as a function of the values the thread observes in each lock
region.  The theorems below say that for ALL observations these programs are the ones the step functions `stepThr` / `gstepThr` of
Model/Conc.lean perform, so the theorems above (arbitrary schedules, arbitrary thread counts) are about the phase structure the code has:
what is read under the read lock, the early return, what is computed holding no lock, the re-check under the write lock, ONE read region
in the use phase whose indices do not depend on an earlier region.
Trusted (tools/rs2lean_conc.py): the reading of `RwLock::read()/write()` guards, `drop`, scope end and `return` as region boundaries; the
data readings of the elided statements (copy, compute loop, publish, slices). -/

section GenConc
open HC.ConcProg

/-- `stepActs` (the actions of a model step) is a faithful reading of `stepThr`: EXECUTING the actions (copy = prefix of the shared
    vector, MUL a b c = the polynomial at word offset `c` := that at `a` times that at `b`, store = publish the local array) on the cache
    the thread sees and its local array yields the cache and the local array `stepThr` yields, and fails exactly when `stepThr` panics -
    in particular the MULs the code's index arithmetic produces ARE the model's `extend`.  `hC`: in the compute phase the local array is
    what was copied in the read phase. -/
theorem gen_step_actions_sound (d : Nat) (hd : 0 < d) (rc : Bool) (cache : List P) (t : Thr P)
    (hpc : t.pc = .R ∨ t.pc = .C ∨ t.pc = .W) (hC : t.pc = .C → t.newArr.length = t.oldR) :
    execActs A d (stepActs d rc A cache t) (cache, t.newArr) =
      if (stepThr rc A cache t).2.pc = .panicked then none
      else some ((stepThr rc A cache t).1, (stepThr rc A cache t).2.newArr) :=
  gq_stepActs_sound A d hd rc cache t hpc hC

/-- ... at the level of the whole system: a step of thread `i` of ANY state (its R, C or W phase, not panicking) changes the shared cache
    exactly as the execution of that step's actions does -/
theorem gen_global_step_is_exec (d : Nat) (hd : 0 < d) (σ : St P) (i : Nat) (t : Thr P) (ht : σ.thr[i]? = some t)
    (hpc : t.pc = .R ∨ t.pc = .C ∨ t.pc = .W) (hC : t.pc = .C → t.newArr.length = t.oldR)
    (hnp : (stepThr true A σ.cache t).2.pc ≠ .panicked) :
    ∃ arr, execActs A d (stepActs d true A σ.cache t) (σ.cache, t.newArr) = some ((step true A i σ).cache, arr) ∧
      (step true A i σ).thr[i]? = some (stepThr true A σ.cache t).2 ∧ arr = (stepThr true A σ.cache t).2.newArr := by
  refine ⟨(stepThr true A σ.cache t).2.newArr, ?_, ?_, rfl⟩
  · rw [gq_stepActs_sound A d hd true σ.cache t hpc hC, if_neg hnp]
    simp [step, ht]
  · exact step_getElem?_self A true i σ t ht

/-- `Decryptor::compute_secret_key_array` IS the model's R, C, W steps (with the re-check): for every requested power, every `n`, `k`
    (degree, key primes), every cache `cR` seen under the read lock and every cache `cW` seen under the write lock (whatever the other
    threads did in between).  Hypotheses: `n·k > 0`; the new array fits a `usize` (else `vec![0; …]`'s size computation panics);
    `cR` non-empty (the constructor stores `s^1`, `cache_inv` keeps `n ≥ 1`); the EMPTY cache is `gen_compute_empty_cache_panics`. -/
theorem gen_dec_compute_secret_key_array_eq (want n k : Nat) (cR cW : List P) (hd : 0 < n * k) (hnk : n * k < B64)
    (hA : max cR.length want * n * k < B64) (h1 : 1 ≤ cR.length) :
    GenConc.dec_compute_secret_key_array want n k (cR.length * (n * k)) (cW.length * (n * k)) =
      .ok (encode (callActs (n * k) true A want cR cW)) :=
  gq_dec_compute_eq A want n k cR cW hd hnk hA h1

/-- the excluded point of the two equalities: on an EMPTY cache (request > 0) the generated program traps in `old_size + i - 1` of the
    first loop iteration, and the model panics in its compute step (`extendOnce []`): they agree there too -/
theorem gen_compute_empty_cache_panics (want n k M : Nat) (hw : 0 < want) (hd : 0 < n * k) (hnk : n * k < B64) (hA : want * n * k < B64) :
    GenConc.dec_compute_secret_key_array want n k 0 (M * (n * k)) = .error .overflow ∧
    (stepThr true A [] (stepThr true A [] ({ want := want } : Thr P)).2).2.pc = .panicked :=
  ⟨gq_dec_compute_empty want n k M hw hd hnk hA, gq_model_empty_panics A want hw⟩

/-- the same for `KeyGenerator::compute_secret_key_array` (proved separately: a change to ONE of the two copies breaks that one) -/
theorem gen_kg_compute_secret_key_array_eq (want n k : Nat) (cR cW : List P) (hd : 0 < n * k) (hnk : n * k < B64)
    (hA : max cR.length want * n * k < B64) (h1 : 1 ≤ cR.length) :
    GenConc.kg_compute_secret_key_array want n k (cR.length * (n * k)) (cW.length * (n * k)) =
      .ok (encode (callActs (n * k) true A want cR cW)) :=
  gq_kg_compute_eq A want n k cR cW hd hnk hA h1

/-- ... in every run: for the caches of ANY two states along ANY schedule (the thread reads in the first, writes in the second) the
    generated program is the model's call and respects the lock discipline (no lock is requested while one is held) -/
theorem gen_compute_in_run (n0 : Nat) (h0 : 1 ≤ n0) (wants sched sched' : List Nat) (want n k : Nat) (hd : 0 < n * k)
    (hnk : n * k < B64) (hA : max (run true A sched (init A n0 wants)).cache.length want * n * k < B64) :
    let cR := (run true A sched (init A n0 wants)).cache
    let cW := (run true A (sched ++ sched') (init A n0 wants)).cache
    GenConc.dec_compute_secret_key_array want n k (cR.length * (n * k)) (cW.length * (n * k)) =
        .ok (encode (callActs (n * k) true A want cR cW)) ∧
      LockWF (callActs (n * k) true A want cR cW) := by
  intro cR cW
  have h1 : 1 ≤ cR.length := (cache_inv A n0 h0 wants sched).2.2.1
  exact ⟨gq_dec_compute_eq A want n k cR cW hd hnk hA h1, gq_callActs_lockWF _ A want cR cW h1⟩

/-- the model's call in closed form: early return iff enough powers are cached; otherwise allocate, copy ALL cached powers, release,
    one MUL per missing power (`muls`: entry `L+i` := entry `L+i−1` · entry 0, holding NO lock), take the write lock, and publish UNLESS the
    cache seen there already has `want` powers -/
theorem gen_call_closed_form (d want : Nat) (cR cW : List P) (h1 : 1 ≤ cR.length) :
    callActs d true A want cR cW =
      if cR.length = max cR.length want then [.acqR, .relR]
      else [.acqR, .alloc (max cR.length want * d), .copy (cR.length * d), .relR] ++
        muls d cR.length (max cR.length want - cR.length) ++ [.acqW] ++
        (if cW.length = max cW.length want then [.relW] else [.store (max cR.length want * d), .relW]) :=
  gq_callActs d A want cR cW h1

/-- use phase of `Decryptor::dot_product_ct_sk_array` (ciphertext of `size ≥ 2`, level with `k ≤ kkey` primes) on a snapshot of `L`
    powers with `size − 1 ≤ L`: nested call, ONE read region, power `i` read at `i·(n·kkey)` - a stride that is a constant of the
    context - over `n·k` words.  Entry `i` of the model's `cache.take want` is the polynomial at that offset. -/
theorem gen_dot_product_use_eq (size n k kkey : Nat) (ntt : Bool) (L : Nat) (h2 : 2 ≤ size) (hk : k ≤ kkey)
    (hB : size * (n * kkey) < B64) (hsee : size - 1 ≤ L) :
    GenConc.dec_dot_product_ct_sk_array size n k kkey ntt (L * (n * kkey)) =
      .ok (encode ([.call (size - 1), .acqR] ++
        (if size = 2 then [.readFirst] else (List.range (size - 1)).map fun i => .read (i * (n * kkey)) (i * (n * kkey) + n * k)) ++
        [.relR])) :=
  gq_dot_product_eq size n k kkey ntt L h2 hk hB hsee

/-- ... and it is refused (a slice leaves the snapshot) when fewer than `size − 1` powers are there: the model's use phase panicking -/
theorem gen_dot_product_use_refuses (size n k kkey : Nat) (ntt : Bool) (L : Nat) (h3 : 3 ≤ size) (hk : k ≤ kkey) (hd : 0 < n * k)
    (hB : size * (n * kkey) < B64) (hsee : L < size - 1) :
    GenConc.dec_dot_product_ct_sk_array size n k kkey ntt (L * (n * kkey)) = .error .refused :=
  gq_dot_product_refuses size n k kkey ntt L h3 hk hd hB hsee

/-- composition with `use_sees_enough`: along ANY schedule, a thread that stands before its use phase executes the generated use phase
    on the cache AS IT IS THEN without refusal, inside one read region, reading exactly the powers `0 … want − 1` -/
theorem gen_use_phase_in_run (n0 : Nat) (h0 : 1 ≤ n0) (wants sched : List Nat) (i : Nat) (t : Thr P)
    (ht : (run true A sched (init A n0 wants)).thr[i]? = some t) (hpc : t.pc = .U)
    (size n k kkey : Nat) (ntt : Bool) (h2 : 2 ≤ size) (hw : t.want = size - 1) (hk : k ≤ kkey) (hB : size * (n * kkey) < B64) :
    GenConc.dec_dot_product_ct_sk_array size n k kkey ntt ((run true A sched (init A n0 wants)).cache.length * (n * kkey)) =
      .ok (encode ([.call (size - 1), .acqR] ++
        (if size = 2 then [.readFirst] else (List.range (size - 1)).map fun i => .read (i * (n * kkey)) (i * (n * kkey) + n * k)) ++
        [.relR])) ∧
    LockWF ([.call (size - 1), .acqR] ++
        (if size = 2 then [.readFirst] else (List.range (size - 1)).map fun i => .read (i * (n * kkey)) (i * (n * kkey) + n * k)) ++
        [.relR]) := by
  have h := (use_sees_enough A n0 h0 wants sched i t ht hpc).1
  exact ⟨gq_dot_product_eq size n k kkey ntt _ h2 hk hB (by omega), gq_use_lockWF size _ _⟩

/-- use phase of `KeyGenerator::generate_rlk` (`count ∈ [1, 14]`, else refused before): nested call for `count + 1` powers, ONE read
    region, `count` polynomials from word offset `n·k`; the slice is inside a cache of `L` powers iff `count + 1 ≤ L` -/
theorem gen_generate_rlk_use_eq (count n k lenU : Nat) (hc : 1 ≤ count) (hc2 : count ≤ 14) (hnk : n * k < B64) :
    GenConc.kg_generate_rlk count true n k lenU =
      (if n * k ≤ lenU then .ok (encode [.call (count + 1), .acqR, .keys (n * k) count, .relR]) else .error .refused) ∧
    LockWF [.call (count + 1), .acqR, .keys (n * k) count, .relR] ∧
    ∀ L, 0 < n * k → (n * k + count * (n * k) ≤ L * (n * k) ↔ count + 1 ≤ L) :=
  ⟨gq_generate_rlk_eq count n k lenU hc hc2 hnk, gq_rlk_lockWF count (n * k), fun L hd => gq_keys_in_range (n * k) count L hd⟩

/-- `GaloisTool::apply_ntt` IS the model's check / generate-store / use steps: for every table index and every two table vectors the
    thread observes (check region, use region), the generated program is the model's call; it is refused (index out of range) exactly
    when the model panics; and it respects the lock discipline: the check region is left before the write lock is requested.
    `hpos`: a generated table is not empty (`coeff_count ≥ 2` entries), so `is_empty()` means "not generated". -/
theorem gen_apply_ntt_eq (len : T → Nat) (hpos : ∀ x, 0 < len x) (ix cc : Nat) (tK tU : List (Option T)) :
    GenConc.galois_apply_ntt ix cc cc (lens len tK) (lens len tU) =
      (match gCallActs len gen ix tK tU with
       | none => .error .oob
       | some a => .ok (encode a)) ∧
    ∀ a, gCallActs len gen ix tK tU = some a → LockWF a :=
  ⟨gq_apply_ntt_eq len hpos gen ix cc tK tU, fun a h => gq_gCallActs_lockWF len gen ix tK tU a h⟩

/-- witnesses (non-vacuity; N = 4, 2 primes, 8 words per power).  The racy situation of `norecheck_shrinks`: a thread that wants 2
    powers read a 1-power cache, another thread published 3 powers before it takes the write lock: the generated program KEEPS the cache
    (no STORE = code 13) ... -/
example : GenConc.dec_compute_secret_key_array 2 4 2 (1 * 8) (3 * 8) = .ok [1, 10, 16, 11, 8, 2, 12, 0, 8, 0, 8, 8, 8, 3, 4] := rfl
/-- ... as the model with the re-check does, while the model WITHOUT the re-check publishes (the cache shrinks) -/
example : encode (callActs 8 true natAlg 2 [2] [2, 4, 8]) = [1, 10, 16, 11, 8, 2, 12, 0, 8, 0, 8, 8, 8, 3, 4] ∧
    encode (callActs 8 false natAlg 2 [2] [2, 4, 8]) = [1, 10, 16, 11, 8, 2, 12, 0, 8, 0, 8, 8, 8, 3, 13, 16, 4] := by decide
/-- nothing changed in between: two MULs (s^2 = s^1·s^1 at word 8, s^3 = s^2·s^1 at word 16), the thread publishes; enough powers cached: early
    return; an empty cache: trap -/
example : GenConc.kg_compute_secret_key_array 3 4 2 (1 * 8) (1 * 8) =
      .ok [1, 10, 24, 11, 8, 2, 12, 0, 8, 0, 8, 8, 8, 12, 8, 8, 0, 8, 16, 8, 3, 13, 24, 4] ∧
    GenConc.kg_compute_secret_key_array 2 4 2 (3 * 8) (3 * 8) = .ok [1, 2] ∧
    GenConc.kg_compute_secret_key_array 2 4 2 0 0 = .error .overflow := ⟨rfl, rfl, rfl⟩
/-- a size-4 ciphertext at a level with 1 of the 2 key primes: powers 0, 1, 2 at stride 8, 4 words each; a 2-power snapshot is refused -/
example : GenConc.dec_dot_product_ct_sk_array 4 4 1 2 true (3 * 8) = .ok [14, 3, 1, 15, 0, 4, 15, 8, 12, 15, 16, 20, 2] ∧
    GenConc.dec_dot_product_ct_sk_array 4 4 1 2 true (2 * 8) = .error .refused ∧
    GenConc.dec_dot_product_ct_sk_array 2 4 1 2 true (1 * 8) = .ok [14, 1, 1, 16, 2] := ⟨rfl, rfl, rfl⟩
example : GenConc.kg_generate_rlk 2 true 4 2 (3 * 8) = .ok [14, 3, 1, 17, 8, 2, 2] := rfl
/-- table 1 absent at the check, present (4 entries) at the use: check region, write region (generate + store), use region; present at
    the check: no write region; index out of range: refused -/
example : GenConc.galois_apply_ntt 1 4 4 [0, 0] [0, 4] = .ok [1, 2, 3, 20, 1, 4, 1, 21, 1, 4, 2] ∧
    GenConc.galois_apply_ntt 1 4 4 [0, 4] [0, 4] = .ok [1, 2, 1, 21, 1, 4, 2] ∧
    GenConc.galois_apply_ntt 2 4 4 [0, 4] [0, 4] = .error .oob := ⟨rfl, rfl, rfl⟩

end GenConc

end HC.C17
