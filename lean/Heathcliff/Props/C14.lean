/-
  C14  Serialization round-trips every object exactly, sizes exact, across contexts.

  Model: Heathcliff/Model/Codec.lean.  A `Codec α` is one `serialize`/`deserialize` pair: `enc`, `dec`,
  the Rust `serialized_size` (`size`), the domain (`valid`) and what a round trip returns (`norm`:
  the object itself; its seed-expanded form; for the selected-terms format polynomial 0 reduced to the
  selected coefficients).  External functions are parameters: `expand` (seed -> uniform polynomial; C16),
  `fwd`/`inv` (NTT of a component; C09).  Contexts are arbitrary maps from parms ids to levels, so a
  context rebuilt independently from the serialized parameters is covered as soon as it has the same
  levels (C13).
-/
import Heathcliff.Proofs.Codec
import Heathcliff.Proofs.CodecExact
import Heathcliff.Gen.Serialize
namespace HC.C14
open HC.Codec

/-- (regenerated from the Rust source on every run) every `serialize*` / `deserialize*` pair of the
    anchored files writes and reads the same fields in the same order -/
theorem gen_field_order_agrees :
    HC.Gen.Serialize.fieldOrder.all (fun t => t.2.1 == t.2.2) = true := by decide

/-- Round trip with a continuation: decoding an encoding followed by any further bytes returns the
    (normalised) object and exactly those further bytes — for every lawful codec. -/
theorem round_trip {α} (c : Codec α) (hc : c.Lawful) (x : α) (hx : c.valid x) (rest : Bytes) :
    c.dec (c.enc x ++ rest) = .ok (c.norm x, rest) := hc.rt x hx rest

/-- announced size = bytes written (= bytes consumed, by `round_trip`) -/
theorem size_exact {α} (c : Codec α) (hc : c.Lawful) (x : α) (hx : c.valid x) :
    (c.enc x).length = c.size x := hc.len x hx

/-- consecutive objects in one stream are recovered independently, whatever follows -/
theorem stream_framing {α β} (a : Codec α) (b : Codec β) (ha : a.Lawful) (hb : b.Lawful)
    (x : α) (y : β) (hx : a.valid x) (hy : b.valid y) (rest : Bytes) :
    a.dec (a.enc x ++ (b.enc y ++ rest)) = .ok (a.norm x, b.enc y ++ rest) ∧
    b.dec (b.enc y ++ rest) = .ok (b.norm y, rest) :=
  ⟨ha.rt x hx _, hb.rt y hy _⟩

/-- every modelled wire format is a lawful codec, for every context, term list and external function -/
theorem modelled_types_lawful :
    u64C.Lawful ∧ usizeC.Lawful ∧ u8C.Lawful ∧ boolC.Lawful ∧ f64C.Lawful ∧ modulusC.Lawful ∧ schemeC.Lawful ∧
    pidC.Lawful ∧ (vecC u64C).Lawful ∧ (vecC modulusC).Lawful ∧ paramsC.Lawful ∧ plainC.Lawful ∧
    (∀ ctx expand, (ctC ctx expand).Lawful) ∧
    (∀ ctx expand fwd inv terms, (ctTermsC ctx expand fwd inv terms).Lawful) ∧
    (∀ ctx expand, (ctFullC ctx expand).Lawful) ∧
    (∀ ctx expand, (kswitchC (ctC ctx expand)).Lawful) ∧
    (∀ ctx expand, (c1dC (ctC ctx expand)).Lawful ∧ (c2dC (ctC ctx expand)).Lawful ∧ (c3dC (ctC ctx expand)).Lawful) ∧
    (∀ ctx expand fwd inv terms, (c1dC (ctTermsC ctx expand fwd inv terms)).Lawful ∧
        (c2dC (ctTermsC ctx expand fwd inv terms)).Lawful ∧ (c3dC (ctTermsC ctx expand fwd inv terms)).Lawful) ∧
    ((c1dC plainC).Lawful ∧ (c2dC plainC).Lawful ∧ (c3dC plainC).Lawful) ∧
    (∀ (ctxs : List Ctx) expand, (rnspC (ctxs.map fun cx => ctC cx expand)).Lawful) ∧
    (∀ (ctxs : List Ctx) expand, (rnspC (ctxs.map fun cx => kswitchC (ctC cx expand))).Lawful) ∧
    (∀ ctx, (polySerC ctx).Lawful) := by
  refine ⟨u64C_lawful, usizeC_lawful, u8C_lawful, boolC_lawful, u64C_lawful, u64C_lawful, schemeC_lawful,
    pidC_lawful, vecC_lawful _ u64C_lawful, vecC_lawful _ u64C_lawful, paramsC_lawful, plainC_lawful,
    ctC_lawful, ctTermsC_lawful, ctFullC_lawful, fun ctx e => kswitchC_lawful _ (ctC_lawful ctx e),
    fun ctx e => ⟨c1dC_lawful _ (ctC_lawful ctx e), c2dC_lawful _ (ctC_lawful ctx e), c3dC_lawful _ (ctC_lawful ctx e)⟩,
    fun ctx e f i t => ⟨c1dC_lawful _ (ctTermsC_lawful ctx e f i t), c2dC_lawful _ (ctTermsC_lawful ctx e f i t),
      c3dC_lawful _ (ctTermsC_lawful ctx e f i t)⟩,
    ⟨c1dC_lawful _ plainC_lawful, c2dC_lawful _ plainC_lawful, c3dC_lawful _ plainC_lawful⟩,
    fun ctxs e => rnspC_lawful _ (fun c hc => ?_), fun ctxs e => rnspC_lawful _ (fun c hc => ?_), polySerC_lawful⟩
  · obtain ⟨cx, _, rfl⟩ := List.mem_map.mp hc; exact ctC_lawful cx e
  · obtain ⟨cx, _, rfl⟩ := List.mem_map.mp hc; exact kswitchC_lawful _ (ctC_lawful cx e)

/-- `get_u64_limit`: the per-modulus byte width of the compact format holds every residue:
    `v < q ⇒ v < 256^limit(q)` (so `write_u64_limited` never trips its assertion and loses nothing) -/
theorem limit_width (q v : Nat) (h : v < q) : v < 256 ^ u64Limit q := u64Limit_width q v h

/-- hence a residue below the modulus survives `write_u64_limited` / `read_u64_limited` exactly -/
theorem limited_round_trip (q v : Nat) (h : v < q) (rest : Bytes) :
    (limC (u64Limit q)).dec ((limC (u64Limit q)).enc v ++ rest) = .ok (v, rest) := by
  have hv : (limC (u64Limit q)).valid v := limC_valid_of_lt _ v (u64Limit_width q v h)
  rw [(limC_lawful _).rt v hv rest, limC_exact _ v hv]

/-- Compact ciphertext (= public key) format, unseeded object: the restored object IS the original. -/
theorem ciphertext_round_trip (ctx : Ctx) (expand : List Nat → Level → Poly) (c : Ct)
    (hv : (ctC ctx expand).valid c) (hd : CtDefaults ctx c) (hs : c.seed = []) (rest : Bytes) :
    (ctC ctx expand).dec ((ctC ctx expand).enc c ++ rest) = .ok (c, rest) := by
  rw [(ctC_lawful ctx expand).rt c hv rest, ctC_norm ctx expand c hv, ctOfWire_toWire_id ctx expand c hd hs]

/-- Seed-compressed ciphertext: the restored object is the seed-expanded form — polynomial 0 as sent,
    polynomial 1 = `expand seed level`, no seed left. -/
theorem ciphertext_round_trip_seeded (ctx : Ctx) (expand : List Nat → Level → Poly) (c : Ct)
    (hv : (ctC ctx expand).valid c) (hd : CtDefaults ctx c) (hs : c.seed ≠ []) (rest : Bytes) :
    (ctC ctx expand).dec ((ctC ctx expand).enc c ++ rest)
      = .ok ({ c with polys := c.polys ++ [expand c.seed ((ctx.find c.pid).getD noLevel)], seed := [] }, rest) := by
  rw [(ctC_lawful ctx expand).rt c hv rest, ctC_norm ctx expand c hv, ctOfWire_toWire_seeded ctx expand c hd hs]

/-- Selected-terms format: the restored object has, in every component `j` of polynomial 0, the vector
    `fwd j (scatter terms (gather terms (inv j comp)))` (transforms only when in NTT form), i.e. the
    selected coefficients of the coefficient-form polynomial written into a zero polynomial; every
    other polynomial, the header fields and the expansion of a seed are as in the compact format. -/
theorem ciphertext_terms_round_trip (ctx : Ctx) (expand : List Nat → Level → Poly)
    (fwd inv : Level → Nat → List Nat → List Nat) (terms : List Nat) (c : Ct)
    (hv : (ctTermsC ctx expand fwd inv terms).valid c) (rest : Bytes) :
    (ctTermsC ctx expand fwd inv terms).dec ((ctTermsC ctx expand fwd inv terms).enc c ++ rest)
      = .ok (ctOfWire ctx expand (fun lv ntt p => mapIdx (fun j vals =>
              let comp := scatter lv.n terms vals
              if ntt then fwd lv j comp else comp) 0 p)
            (ctToWire ctx (fun lv ntt p => mapIdx (fun j comp =>
              gather terms (if ntt then inv lv j comp else comp)) 0 p) c), rest) := by
  rw [(ctTermsC_lawful ctx expand fwd inv terms).rt c hv rest, ctTermsC_norm ctx expand fwd inv terms c hv]

/-- containers and key sets inherit exactness from their items: a round trip of `Vec<I>` is the identity
    when it is for `I` (used for `Vec<Vec<PublicKey>>`, `Cipher1d/2d/3d`, `Plain1d/2d/3d`; a missing key
    is an empty inner vector and is restored as such) -/
theorem vec_round_trip {α} (c : Codec α) (hc : c.Lawful) (he : c.Exact) (l : List α) (hv : (vecC c).valid l)
    (rest : Bytes) : (vecC c).dec ((vecC c).enc l ++ rest) = .ok (l, rest) := by
  rw [(vecC_lawful c hc).rt l hv rest, vecC_exact c he l hv]

/-- Left as a statement (not proved here): the selected-terms mask in closed form, and the closed-form
    Rust size formulas of the three ciphertext formats equal the compositional `size` the theorems use.
    Both are exercised on every correspondence case (announced size = written = consumed = model size). -/
def TermsMaskStatement : Prop :=
  ∀ (n : Nat) (terms v : List Nat), v.length = n → (∀ t ∈ terms, t < n) →
    scatter n terms (gather terms v) = (List.range n).map (fun i => if i ∈ terms then v.getD i 0 else 0)

def SizeClosedFormStatement : Prop :=
  ∀ (ctx : Ctx) (expand : List Nat → Level → Poly) (c : Ct), (ctC ctx expand).valid c →
    (ctC ctx expand).size c = ctSerializedSize ((ctx.find c.pid).getD noLevel) c.size c.seeded

/-! ### non-vacuity -/

example : (5 : Nat) < 256 ^ u64Limit 17 := limit_width 17 5 (by decide)
example : u64Limit 255 = 1 ∧ u64Limit 256 = 2 ∧ u64Limit 65537 = 3 ∧ u64Limit (2 ^ 56 - 1) = 7 ∧ u64Limit (2 ^ 56) = 8 := by
  refine ⟨?_, ?_, ?_, ?_, ?_⟩ <;> decide
example : plainC.dec (plainC.enc ⟨[1, 2, 3, 4], [7, 8], 4607182418800017408⟩ ++ [9, 9])
    = .ok (⟨[1, 2, 3, 4], [7, 8], 4607182418800017408⟩, [9, 9]) := by rfl

end HC.C14
