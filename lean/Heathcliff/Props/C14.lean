import Heathcliff.Proofs.C14S
import Heathcliff.Proofs.C14T
import Heathcliff.Proofs.GenSerS
/-
  C14  Serialization round-trips every object exactly, sizes exact, across contexts.

  Model: Heathcliff/Model/Codec.lean.  A `Codec α` is one `serialize`/`deserialize` pair: `enc`, `dec`,
  the Rust `serialized_size` (`size`), the domain (`valid`) and what a round trip returns (`norm`:
  the object itself; its seed-expanded form; for the selected-terms format polynomial 0 reduced to the
  selected coefficients).  External functions are parameters: `expand` (seed -> uniform polynomial; C16),
  `fwd`/`inv` (NTT of a component; C09).  Contexts are arbitrary maps from parms ids to levels, so a
  context rebuilt independently from the serialized parameters is covered as soon as it has the same
  levels (C13).
-/
import Heathcliff.Proofs.Codec
import Heathcliff.Proofs.CodecExact
import Heathcliff.Gen.Serialize
namespace HC.C14
open HC.Codec

/-- (regenerated from the Rust source on every run) every `serialize*` / `deserialize*` pair of the
    anchored files writes and reads the same fields in the same order -/
theorem gen_field_order_agrees :
    HC.Gen.Serialize.fieldOrder.all (fun t => t.2.1 == t.2.2) = true := by decide

/-- Round trip with a continuation: decoding an encoding followed by any further bytes returns the
    (normalised) object and exactly those further bytes — for every lawful codec. -/
theorem round_trip {α} (c : Codec α) (hc : c.Lawful) (x : α) (hx : c.valid x) (rest : Bytes) :
    c.dec (c.enc x ++ rest) = .ok (c.norm x, rest) := hc.rt x hx rest

/-- announced size = bytes written (= bytes consumed, by `round_trip`) -/
theorem size_exact {α} (c : Codec α) (hc : c.Lawful) (x : α) (hx : c.valid x) :
    (c.enc x).length = c.size x := hc.len x hx

/-- consecutive objects in one stream are recovered independently, whatever follows -/
theorem stream_framing {α β} (a : Codec α) (b : Codec β) (ha : a.Lawful) (hb : b.Lawful)
    (x : α) (y : β) (hx : a.valid x) (hy : b.valid y) (rest : Bytes) :
    a.dec (a.enc x ++ (b.enc y ++ rest)) = .ok (a.norm x, b.enc y ++ rest) ∧
    b.dec (b.enc y ++ rest) = .ok (b.norm y, rest) :=
  ⟨ha.rt x hx _, hb.rt y hy _⟩

/-- every modelled wire format is a lawful codec, for every context, term list and external function -/
theorem modelled_types_lawful :
    u64C.Lawful ∧ usizeC.Lawful ∧ u8C.Lawful ∧ boolC.Lawful ∧ f64C.Lawful ∧ modulusC.Lawful ∧ schemeC.Lawful ∧
    pidC.Lawful ∧ (vecC u64C).Lawful ∧ (vecC modulusC).Lawful ∧ paramsC.Lawful ∧ plainC.Lawful ∧
    (∀ ctx expand, (ctC ctx expand).Lawful) ∧
    (∀ ctx expand fwd inv terms, (ctTermsC ctx expand fwd inv terms).Lawful) ∧
    (∀ ctx expand, (ctFullC ctx expand).Lawful) ∧
    (∀ ctx expand, (kswitchC (ctC ctx expand)).Lawful) ∧
    (∀ ctx expand, (c1dC (ctC ctx expand)).Lawful ∧ (c2dC (ctC ctx expand)).Lawful ∧ (c3dC (ctC ctx expand)).Lawful) ∧
    (∀ ctx expand fwd inv terms, (c1dC (ctTermsC ctx expand fwd inv terms)).Lawful ∧
        (c2dC (ctTermsC ctx expand fwd inv terms)).Lawful ∧ (c3dC (ctTermsC ctx expand fwd inv terms)).Lawful) ∧
    ((c1dC plainC).Lawful ∧ (c2dC plainC).Lawful ∧ (c3dC plainC).Lawful) ∧
    (∀ (ctxs : List Ctx) expand, (rnspC (ctxs.map fun cx => ctC cx expand)).Lawful) ∧
    (∀ (ctxs : List Ctx) expand, (rnspC (ctxs.map fun cx => kswitchC (ctC cx expand))).Lawful) ∧
    (∀ ctx, (polySerC ctx).Lawful) := by
  refine ⟨u64C_lawful, usizeC_lawful, u8C_lawful, boolC_lawful, u64C_lawful, u64C_lawful, schemeC_lawful,
    pidC_lawful, vecC_lawful _ u64C_lawful, vecC_lawful _ u64C_lawful, paramsC_lawful, plainC_lawful,
    ctC_lawful, ctTermsC_lawful, ctFullC_lawful, fun ctx e => kswitchC_lawful _ (ctC_lawful ctx e),
    fun ctx e => ⟨c1dC_lawful _ (ctC_lawful ctx e), c2dC_lawful _ (ctC_lawful ctx e), c3dC_lawful _ (ctC_lawful ctx e)⟩,
    fun ctx e f i t => ⟨c1dC_lawful _ (ctTermsC_lawful ctx e f i t), c2dC_lawful _ (ctTermsC_lawful ctx e f i t),
      c3dC_lawful _ (ctTermsC_lawful ctx e f i t)⟩,
    ⟨c1dC_lawful _ plainC_lawful, c2dC_lawful _ plainC_lawful, c3dC_lawful _ plainC_lawful⟩,
    fun ctxs e => rnspC_lawful _ (fun c hc => ?_), fun ctxs e => rnspC_lawful _ (fun c hc => ?_), polySerC_lawful⟩
  · obtain ⟨cx, _, rfl⟩ := List.mem_map.mp hc; exact ctC_lawful cx e
  · obtain ⟨cx, _, rfl⟩ := List.mem_map.mp hc; exact kswitchC_lawful _ (ctC_lawful cx e)

/-- `get_u64_limit`: the per-modulus byte width of the compact format holds every residue:
    `v < q ⇒ v < 256^limit(q)` (so `write_u64_limited` never trips its assertion and loses nothing) -/
theorem limit_width (q v : Nat) (h : v < q) : v < 256 ^ u64Limit q := u64Limit_width q v h

/-- hence a residue below the modulus survives `write_u64_limited` / `read_u64_limited` exactly -/
theorem limited_round_trip (q v : Nat) (h : v < q) (rest : Bytes) :
    (limC (u64Limit q)).dec ((limC (u64Limit q)).enc v ++ rest) = .ok (v, rest) := by
  have hv : (limC (u64Limit q)).valid v := limC_valid_of_lt _ v (u64Limit_width q v h)
  rw [(limC_lawful _).rt v hv rest, limC_exact _ v hv]

/-- Compact ciphertext (= public key) format, unseeded object: the restored object IS the original. -/
theorem ciphertext_round_trip (ctx : Ctx) (expand : List Nat → Level → Poly) (c : Ct)
    (hv : (ctC ctx expand).valid c) (hd : CtDefaults ctx c) (hs : c.seed = []) (rest : Bytes) :
    (ctC ctx expand).dec ((ctC ctx expand).enc c ++ rest) = .ok (c, rest) := by
  rw [(ctC_lawful ctx expand).rt c hv rest, ctC_norm ctx expand c hv, ctOfWire_toWire_id ctx expand c hd hs]

/-- Seed-compressed ciphertext: the restored object is the seed-expanded form — polynomial 0 as sent,
    polynomial 1 = `expand seed level`, no seed left. -/
theorem ciphertext_round_trip_seeded (ctx : Ctx) (expand : List Nat → Level → Poly) (c : Ct)
    (hv : (ctC ctx expand).valid c) (hd : CtDefaults ctx c) (hs : c.seed ≠ []) (rest : Bytes) :
    (ctC ctx expand).dec ((ctC ctx expand).enc c ++ rest)
      = .ok ({ c with polys := c.polys ++ [expand c.seed ((ctx.find c.pid).getD noLevel)], seed := [] }, rest) := by
  rw [(ctC_lawful ctx expand).rt c hv rest, ctC_norm ctx expand c hv, ctOfWire_toWire_seeded ctx expand c hd hs]

/-- Selected-terms format: the restored object has, in every component `j` of polynomial 0, the vector
    `fwd j (scatter terms (gather terms (inv j comp)))` (transforms only when in NTT form), i.e. the
    selected coefficients of the coefficient-form polynomial written into a zero polynomial; every
    other polynomial, the header fields and the expansion of a seed are as in the compact format. -/
theorem ciphertext_terms_round_trip (ctx : Ctx) (expand : List Nat → Level → Poly)
    (fwd inv : Level → Nat → List Nat → List Nat) (terms : List Nat) (c : Ct)
    (hv : (ctTermsC ctx expand fwd inv terms).valid c) (rest : Bytes) :
    (ctTermsC ctx expand fwd inv terms).dec ((ctTermsC ctx expand fwd inv terms).enc c ++ rest)
      = .ok (ctOfWire ctx expand (fun lv ntt p => mapIdx (fun j vals =>
              let comp := scatter lv.n terms vals
              if ntt then fwd lv j comp else comp) 0 p)
            (ctToWire ctx (fun lv ntt p => mapIdx (fun j comp =>
              gather terms (if ntt then inv lv j comp else comp)) 0 p) c), rest) := by
  rw [(ctTermsC_lawful ctx expand fwd inv terms).rt c hv rest, ctTermsC_norm ctx expand fwd inv terms c hv]

/-- containers and key sets inherit exactness from their items: a round trip of `Vec<I>` is the identity
    when it is for `I` (used for `Vec<Vec<PublicKey>>`, `Cipher1d/2d/3d`, `Plain1d/2d/3d`; a missing key
    is an empty inner vector and is restored as such) -/
theorem vec_round_trip {α} (c : Codec α) (hc : c.Lawful) (he : c.Exact) (l : List α) (hv : (vecC c).valid l)
    (rest : Bytes) : (vecC c).dec ((vecC c).enc l ++ rest) = .ok (l, rest) := by
  rw [(vecC_lawful c hc).rt l hv rest, vecC_exact c he l hv]

/-- Left as a statement (not proved here): the selected-terms mask in closed form, and the closed-form
    Rust size formulas of the three ciphertext formats equal the compositional `size` the theorems use.
    Both are exercised on every correspondence case (announced size = written = consumed = model size). -/
def TermsMaskStatement : Prop :=
  ∀ (n : Nat) (terms v : List Nat), v.length = n → (∀ t ∈ terms, t < n) →
    scatter n terms (gather terms v) = (List.range n).map (fun i => if i ∈ terms then v.getD i 0 else 0)

def SizeClosedFormStatement : Prop :=
  ∀ (ctx : Ctx) (expand : List Nat → Level → Poly) (c : Ct), (ctC ctx expand).valid c →
    (ctC ctx expand).size c = ctSerializedSize ((ctx.find c.pid).getD noLevel) c.size c.seeded

/-! ### non-vacuity -/

example : (5 : Nat) < 256 ^ u64Limit 17 := limit_width 17 5 (by decide)
example : u64Limit 255 = 1 ∧ u64Limit 256 = 2 ∧ u64Limit 65537 = 3 ∧ u64Limit (2 ^ 56 - 1) = 7 ∧ u64Limit (2 ^ 56) = 8 := by
  refine ⟨?_, ?_, ?_, ?_, ?_⟩ <;> decide
example : plainC.dec (plainC.enc ⟨[1, 2, 3, 4], [7, 8], 4607182418800017408⟩ ++ [9, 9])
    = .ok (⟨[1, 2, 3, 4], [7, 8], 4607182418800017408⟩, [9, 9]) := by rfl


/-! ### closed-form sizes for every modelled type (= the Rust size functions), selected-terms mask identity and idempotence, the byte-width rule (q < 256^w, tight unless q is a power of 256), stream framing as a monoid law, refusals
    (statements, bundles, concrete instances and three refuted statements with witnesses: Heathcliff/Proofs/C14S.lean) -/

/-- scalars: `u64`/`usize`/`f64`/`Modulus` 8 bytes, `u8`/`bool`/`SchemeType` 1 byte, `ParmsID` 32 bytes -/
theorem len_scalars : type_of% @HC.Codec.c14s_len_scalars := @HC.Codec.c14s_len_scalars

/-- a residue written with width `w` takes `w` bytes (whatever its value) -/
theorem len_residue : type_of% @HC.Codec.c14s_len_residue := @HC.Codec.c14s_len_residue

/-- `Vec<I>` and the 1-d containers: 8 + the item sizes -/
theorem len_vec : type_of% @HC.Codec.c14s_len_vec := @HC.Codec.c14s_len_vec

/-- `EncryptionParameters`: 1 + 8 + (8 + 8k) + [8 if BFV/BGV] + 1 -/
theorem len_params : type_of% @HC.Codec.c14s_len_params := @HC.Codec.c14s_len_params

/-- `Plaintext` / `SecretKey`: 32 + (8 + 8·|data|) + 8 -/
theorem len_plain : type_of% @HC.Codec.c14s_len_plain := @HC.Codec.c14s_len_plain

/-- one polynomial in the compact format: `N · Σ_j limit(q_j)` -/
theorem len_poly : type_of% @HC.Codec.c14s_len_poly := @HC.Codec.c14s_len_poly

/-- `Ciphertext` / `PublicKey`, compact format, fully explicit:
    32 (parms id) + 8 (size) + 1 (NTT flag) + [8 scale/correction factor if CKKS/BGV] + 1 (seed flag)
    + (1 if seeded else size) · N · Σ_j limit(q_j) + [64 seed bytes if seeded] -/
theorem len_ct : type_of% @HC.Codec.c14s_len_ct := @HC.Codec.c14s_len_ct

/-- … and this is the Rust `Ciphertext::serialized_size` -/
theorem len_ct_rust : type_of% @HC.Codec.c14s_len_ct_rust := @HC.Codec.c14s_len_ct_rust

/-- selected-terms format: header + 1 + |T|·Σ limit for polynomial 0 + (size−1)·N·Σ limit for the others
    (seeded: |T|·Σ limit + 64) -/
theorem len_ct_terms : type_of% @HC.Codec.c14s_len_ct_terms := @HC.Codec.c14s_len_ct_terms

/-- … which is the Rust `serialized_terms_size` except at `size = 0` unseeded (see `c14s_TermsSizeStatement_false`) -/
theorem len_ct_terms_rust : type_of% @HC.Codec.c14s_len_ct_terms_rust := @HC.Codec.c14s_len_ct_terms_rust

/-- full format: header + 8 (word count) + 8 per word sent -/
theorem len_ct_full : type_of% @HC.Codec.c14s_len_ct_full := @HC.Codec.c14s_len_ct_full

/-- key sets: 32 + 8 + 8 per entry (present or missing) + `s` per key, all keys of size `s` -/
theorem len_kswitch : type_of% @HC.Codec.c14s_len_kswitch := @HC.Codec.c14s_len_kswitch

/-- containers of dimensions `d1`, `d1 × d2`, `d1 × d2 × d3` with items of size `s` -/
theorem len_c1d : type_of% @HC.Codec.c14s_len_c1d := @HC.Codec.c14s_len_c1d

theorem len_c2d : type_of% @HC.Codec.c14s_len_c2d := @HC.Codec.c14s_len_c2d

theorem len_c3d : type_of% @HC.Codec.c14s_len_c3d := @HC.Codec.c14s_len_c3d

/-- rns_plain objects: the component sizes added up -/
theorem len_rnsp : type_of% @HC.Codec.c14s_len_rnsp := @HC.Codec.c14s_len_rnsp

/-- `PolynomialSerializer` -/
theorem len_polySer : type_of% @HC.Codec.c14s_len_polySer := @HC.Codec.c14s_len_polySer

/-- monotonicity facts (see also `c14s_terms_le_compact`, `c14s_terms_mono`, `c14s_seeded_saving`,
    `c14s_full_seeded_lt_iff`): compact < full for `u64` moduli; seeded < expanded iff a polynomial exceeds 64 bytes -/
theorem size_monotonicity : type_of% @HC.Codec.c14s_size_monotonicity := @HC.Codec.c14s_size_monotonicity

/-- `decodeTerms (encodeTerms ct T ++ rest) = (maskTerms ct T, rest)`; `maskTerms` idempotent; `T ⊇ [0, N)` ⇒ identity -/
theorem terms_format : type_of% @HC.Codec.c14s_terms_format := @HC.Codec.c14s_terms_format

/-- `T ⊇ [0, N)`: the terms format restores what the compact format restores; on an unseeded API-built
    object that is the object itself -/
theorem terms_all : type_of% @HC.Codec.c14s_terms_all := @HC.Codec.c14s_terms_all

/-- the two statements Props/C14 left open, verbatim -/
theorem TermsMaskStatement_proof : type_of% @HC.Codec.c14s_TermsMaskStatement_proof := @HC.Codec.c14s_TermsMaskStatement_proof

theorem SizeClosedFormStatement_proof : type_of% @HC.Codec.c14s_SizeClosedFormStatement_proof := @HC.Codec.c14s_SizeClosedFormStatement_proof

/-- for every admissible modulus `2 ≤ q < 2^61`: `get_u64_limit q` is the least `w` with `q < 256^w`, lies in
    `[1, 8]`, every residue round-trips with it, and — unless `q` is a power of 256 — a width is lossless for
    the largest residue `q − 1` iff it is at least `get_u64_limit q` -/
theorem width_rule : type_of% @HC.Codec.c14s_width_rule := @HC.Codec.c14s_width_rule

theorem framing_monoid : type_of% @HC.Codec.c14s_framing_monoid := @HC.Codec.c14s_framing_monoid

/-- the writer's `assert_eq!(value, 0)`: a value that does not fit the width is outside the writer's domain -/
theorem limC_refuses : type_of% @HC.Codec.c14s_limC_refuses := @HC.Codec.c14s_limC_refuses

/-- any strict prefix of any valid encoding is refused with `UnexpectedEof` (every lawful format) -/
theorem truncated_eof : type_of% @HC.Codec.c14s_truncated_eof := @HC.Codec.c14s_truncated_eof

theorem guard_pid_dec_bad : type_of% @HC.Codec.c14s_guard_pid_dec_bad := @HC.Codec.c14s_guard_pid_dec_bad

/-- a parms id unknown to the context is refused by every ciphertext reader (compact, terms, full)
    right after the 32 id bytes, whatever follows -/
theorem unknown_pid_refused : type_of% @HC.Codec.c14s_unknown_pid_refused := @HC.Codec.c14s_unknown_pid_refused

/-- a scheme byte above 3 is refused (`SchemeType::from` panics) -/
theorem scheme_refused : type_of% @HC.Codec.c14s_scheme_refused := @HC.Codec.c14s_scheme_refused

/-- S1 for a key set of expanded public keys at one level: every present key costs the compact size of a
    size-2 ciphertext -/
theorem kswitch_ct_size : type_of% @HC.Codec.c14s_kswitch_ct_size := @HC.Codec.c14s_kswitch_ct_size

/-- for the transforms the driver uses (C09 `ntt` / `intt` on tables belonging to the level) and an NTT- or
    coefficient-form ciphertext whose polynomial 0 has reduced components of length `N`: masking is idempotent,
    and selecting all terms restores what the compact format restores -/
theorem terms_format_ntt : type_of% @HC.Codec.c14s_terms_format_ntt := @HC.Codec.c14s_terms_format_ntt

theorem getD_lt_of_all : type_of% @HC.Codec.c14s_getD_lt_of_all := @HC.Codec.c14s_getD_lt_of_all

theorem exCtNtt_hp0 : type_of% @HC.Codec.c14s_exCtNtt_hp0 := @HC.Codec.c14s_exCtNtt_hp0

/-- the hypotheses of `c14s_terms_format_ntt` hold on a concrete NTT-form seeded ciphertext with tables built by `NTTTables.new` -/
theorem ex_ntt_instance : type_of% @HC.Codec.c14s_ex_ntt_instance := @HC.Codec.c14s_ex_ntt_instance

/-! ### the validity predicate of the ciphertext codecs in plain terms (IFF), and the converse `valid ⇒ CtWF` (Proofs/C14T.lean) -/

/-- well-formedness ⇒ validity (compact format; C14S) -/
theorem ctC_valid_of_CtWF : type_of% @HC.Codec.c14s_ctC_valid := @HC.Codec.c14s_ctC_valid

/-- COMPACT FORMAT, validity in plain terms (IFF): header words in range where the level's scheme puts them on the wire, the parms
    id known to the context, polynomial count right for the seed flag, the seed 8 words or absent, every polynomial of the level's
    shape with coefficients representable in `limit(q_j)` bytes (`c14t_CtWFw` = `c14s_CtWF` with the scale / correction-factor
    bounds required only for CKKS / BGV levels) -/
theorem ctC_valid_iff : type_of% @HC.Codec.c14t_ctC_valid_iff := @HC.Codec.c14t_ctC_valid_iff

/-- SELECTED-TERMS FORMAT, validity in plain terms (IFF) -/
theorem ctTermsC_valid_iff : type_of% @HC.Codec.c14t_ctTermsC_valid_iff := @HC.Codec.c14t_ctTermsC_valid_iff

/-- `c14s_CtWF ⇔ c14t_CtWFw ∧ scale < 2^64 ∧ cf < 2^64` -/
theorem CtWF_iff : type_of% @HC.Codec.c14t_CtWF_iff := @HC.Codec.c14t_CtWF_iff

/-- THE CONVERSE on the image of the code (every Rust `Ciphertext` has `scale: f64`, `correction_factor: u64`): a valid ciphertext
    whose two header fields are 64-bit words is well formed (`c14s_CtWF`) and its polynomial 0 fits -/
theorem ctC_valid_imp_CtWF : type_of% @HC.Codec.c14t_ctC_valid_imp_CtWF := @HC.Codec.c14t_ctC_valid_imp_CtWF

theorem ctTermsC_valid_imp_CtWF : type_of% @HC.Codec.c14t_ctTermsC_valid_imp_CtWF := @HC.Codec.c14t_ctTermsC_valid_imp_CtWF

/-- `valid ⇔ c14s_CtWF ∧ polynomial 0 fits` for objects whose two header fields are words -/
theorem ctC_valid_iff_CtWF : type_of% @HC.Codec.c14t_ctC_valid_iff_CtWF := @HC.Codec.c14t_ctC_valid_iff_CtWF

/-- REFUTED naive converse `valid ⇒ c14s_CtWF` for the model's unbounded `Nat` fields (witness: one BFV level, scale field 2^64 —
    BFV does not serialize the scale, so the codec's domain does not constrain it).  A finding about the model's domain, not the
    library. -/
theorem validImpCtWF_refuted : type_of% @HC.Codec.c14t_validImpCtWF_refuted := @HC.Codec.c14t_validImpCtWF_refuted

/-- converses of the elementary lemmas: fixed-length sequences and the compact polynomial codec accept exactly what fits -/
theorem repC_valid_iff : type_of% @HC.Codec.c14t_repC_valid_iff := @HC.Codec.c14t_repC_valid_iff
theorem polyC_valid_iff : type_of% @HC.Codec.c14t_polyC_valid_iff := @HC.Codec.c14t_polyC_valid_iff


/-! ### translator phase 4i: the serializer SOURCE (src/serialize.rs, regenerated into Gen/SerFns.lean on every run) is the model
    (Proofs/GenSer.lean writers, GenSerR.lean readers and sizes, GenSerL.lean compact-width helpers, GenSerP.lean these statements) -/

/-- SOURCE WRITERS: on an in-memory stream every generated `serialize` (u64, usize, u8, bool, f64, Modulus, SchemeType, Vec<u64>,
    Vec<Modulus>, ParmsID, EncryptionParameters, Plaintext, `write_u64_limited`) appends exactly `Codec.enc` and returns its length -/
theorem gen_writers_produce_enc : type_of% @HC.GS.c14g_writers_produce_enc := @HC.GS.c14g_writers_produce_enc

/-- SOURCE READERS: every generated `deserialize` is `Codec.dec`; `EncryptionParameters` = `paramsC.dec` followed by the count check of
    `set_coeff_modulus` (a panic in the code); `read_u64_limited` = `limC.dec` for widths ≤ 8 on a stream of bytes -/
theorem gen_readers_are_dec : type_of% @HC.GS.c14g_readers_are_dec := @HC.GS.c14g_readers_are_dec

/-- SOURCE SIZES: every generated `serialized_size`, `get_u64_limit`, `Ciphertext::serialized_size / serialized_terms_size /
    serialized_full_size` is the model's size function (`len_*`, `len_ct_rust`, … are about those) -/
theorem gen_sizes_are_model : type_of% @HC.GS.c14g_sizes_are_model := @HC.GS.c14g_sizes_are_model

/-- from source to source: generated `Plaintext::deserialize` ∘ generated `Plaintext::serialize` = identity, with continuation -/
theorem gen_plain_source_round_trip : type_of% @HC.GS.c14g_plain_source_round_trip := @HC.GS.c14g_plain_source_round_trip

/-- the same for `EncryptionParameters` with 1..64 coefficient moduli -/
theorem gen_params_source_round_trip : type_of% @HC.GS.c14g_params_source_round_trip := @HC.GS.c14g_params_source_round_trip

/-- the excluded point, as a theorem: a parameter object WITHOUT coefficient moduli is serialized, the model decodes it, the code's
    reader refuses (panic in `set_coeff_modulus`) — the model's `paramsC` is more permissive than the code here -/
theorem gen_params_empty_modulus_refused : type_of% @HC.GS.c14g_params_empty_modulus_refused := @HC.GS.c14g_params_empty_modulus_refused

/-- `serialized_terms_size` of an empty unseeded ciphertext at a level with ≥ 1 modulus TRAPS in `upper - 1` (the model's closed form
    returns a number there; cf. `c14s_TermsSizeStatement_false`) -/
theorem gen_terms_size_traps_on_empty : type_of% @HC.GS.gr_ct_terms_size_traps := @HC.GS.gr_ct_terms_size_traps

/-- the compact width from the SOURCE composed with the width rule: a residue below a `u64` modulus survives the generated
    `write_u64_limited` / `read_u64_limited` pair exactly (bytes = model bytes, value back, rest untouched) -/
theorem gen_limited_source_round_trip (q v : Nat) (hq : q < 2 ^ 64) (hv : v < q) (rest : Bytes) (hr : ∀ b ∈ rest, b < 256) :
    ∃ w, HC.GenS.get_u64_limit q = .ok w ∧
      HC.GenS.read_u64_limited w ((HC.GenS.write_u64_limited HC.GS.idealStream v w []).2 ++ rest) = .ok (v, rest) := by
  refine ⟨u64Limit q, HC.GS.gr_get_u64_limit q hq, ?_⟩
  have hw := u64Limit_width q v hv
  have hwr := (HC.GS.c14g_writers_produce_enc []).2.2.2.2.2.2.2.2.2.2.2.2 v (u64Limit q) hw
  rw [hwr]
  simp only [List.nil_append]
  have hb : ∀ b ∈ (limC (u64Limit q)).enc v ++ rest, b < 256 := by
    intro b hb
    rcases List.mem_append.mp hb with h | h
    · have he : (limC (u64Limit q)).enc v = flat (seqChunks (List.replicate (u64Limit q) u8C) (leBytes (u64Limit q) v)) := rfl
      rw [he] at h
      exact HC.GS.gs_limC_enc_bytes _ _ b h
    · exact hr b h
  rw [HC.GS.gl_read_u64_limited _ (HC.GS.gl_u64Limit_le q hq) _ hb]
  exact limited_round_trip q v hv rest

/-- CIPHERTEXT LEVEL (skeleton readings: context lookup = the level, ciphertext = the view `CtV`): generated `Ciphertext::serialize_full`
    on an in-memory stream appends exactly `ctFullC.enc` (seeded objects: `k·N + 1 + 8` words) and returns its length -/
theorem gen_ct_serialize_full_produces_enc : type_of% @HC.GS.c14g_ct_serialize_full := @HC.GS.c14g_ct_serialize_full

/-- COMPACT FORMAT (the format of `Ciphertext` / `PublicKey` and, item-wise, of key sets and `Cipher1d/2d/3d`): generated
    `impl SerializableWithHeContext for Ciphertext :: serialize` — three nested loops, every coefficient through `write_u64_limited` with
    the width `get_u64_limit(q_j)`, then the seed words — on an in-memory stream appends exactly `ctC.enc` and returns its length,
    for every ciphertext of the level's shape (`CtShape`: counts, `k × N` coefficients, coefficients representable — e.g. reduced) -/
theorem gen_ct_serialize_produces_enc : type_of% @HC.GS.c14g_ct_serialize := @HC.GS.c14g_ct_serialize

/-- KEY SETS: generated `KSwitchKeys::serialize` (parms id, then the context-dependent `Vec<Vec<PublicKey>>`, each key through the compact
    ciphertext writer; `RelinKeys` / `GaloisKeys` are the same function) appends exactly `kswitchC.enc`; a missing key is an empty inner
    vector.  The generated code works on views of the keys: `PkView ctx v x` = "`v` is the view of the model ciphertext `x`, whose level the
    context finds, with `u64` moduli, a real scheme and the level's shape" -/
theorem gen_kswitch_serialize_produces_enc : type_of% @HC.GS.c14g_kswitch_serialize := @HC.GS.c14g_kswitch_serialize

/-- reduced residues are representable (the `fit` clause of `CtShape` from `limit_width`) -/
theorem gen_ct_shape_fit_of_reduced : type_of% @HC.GS.gd_fit_of_reduced := @HC.GS.gd_fit_of_reduced

/-- its refusals: unknown parms id (panic) and shape mismatch (`InvalidData`) before anything is written; scheme `None` after 41 header bytes -/
theorem gen_ct_serialize_full_refusals : type_of% @HC.GS.c14g_ct_serialize_full_refusals := @HC.GS.c14g_ct_serialize_full_refusals

/-- SECOND ROUND, READERS.  Generated `Ciphertext::deserialize_full` agrees with the model's `ctFullC.dec` on everything the model accepts
    (same ciphertext as the flat `from_members` record, same remaining bytes); `hpos`: k·N > 0 at every level -/
theorem gen_ct_full_reader_agrees : type_of% @HC.GS.gf_full_ok := @HC.GS.gf_full_ok

/-- flat-word format, from source to source: generated reader ∘ generated writer = the round-trip value (seed expanded), with continuation -/
theorem gen_ct_full_source_round_trip : type_of% @HC.GS.c14g_ct_full_source_round_trip := @HC.GS.c14g_ct_full_source_round_trip

/-- `SecretKey` (writer, reader, size) = its plaintext's, from the source; source round trip -/
theorem gen_secret_key : type_of% @HC.GS.c14g_secret_key := @HC.GS.c14g_secret_key

/-- KEY SETS, sizes from the source: generated `KSwitchKeys::serialized_size` (through `PublicKey`, the context `Vec<I>`, `Ciphertext`
    size functions) = `kswitchC.size`; `RelinKeys` / `GaloisKeys` are the same function -/
theorem gen_kswitch_sizes_are_model : type_of% @HC.GS.gs2_kswitch_size := @HC.GS.gs2_kswitch_size

/-- … hence announced size = count returned by the writer = bytes on the wire, all three from the source -/
theorem gen_kswitch_announced_eq_written : type_of% @HC.GS.c14g_kswitch_announced_eq_written := @HC.GS.c14g_kswitch_announced_eq_written

/-- STATEMENT ONLY (not proved): the generated COMPACT reader `Ciphertext::deserialize` returns the model's round-trip value on every valid
    encoding.  Proved about that reader: prefix monotonicity (Props/C15 `gen_ct_reader_truncation_partial`). -/
def GenCtSourceRoundTripStatement : Prop := HC.GS.GenCtSourceRoundTripStatement

/-! non-vacuity of the phase-4i statements -/
example : HC.GenS.plain_deserialize ((HC.GenS.plain_serialize HC.GS.idealStream ⟨[1, 2, 3, 4], [7, 8], 4607182418800017408⟩ []).2 ++ [9, 9])
    = .ok (⟨[1, 2, 3, 4], [7, 8], 4607182418800017408⟩, [9, 9]) := by rfl
example : (HC.GenS.params_serialize HC.GS.idealStream ⟨1, 8, [17, 257], 65537, true⟩ []) =
    (.ok 42, [1, 8,0,0,0,0,0,0,0, 2,0,0,0,0,0,0,0, 17,0,0,0,0,0,0,0, 1,1,0,0,0,0,0,0, 1,0,1,0,0,0,0,0, 1]) := by rfl
example : HC.GenS.params_deserialize (HC.GenS.params_serialize HC.GS.idealStream ⟨1, 8, [17, 257], 65537, true⟩ []).2
    = .ok (⟨1, 8, [17, 257], 65537, true⟩, []) := by rfl
example : HC.GenS.ct_serialized_size ⟨[⟨[1, 2, 3, 4], 3, 8, [17, 65537]⟩], 5, 8⟩ ⟨[1, 2, 3, 4], 2, true, 0, 1, false, [], fun _ => [], fun _ _ => [], 2, 8⟩ = .ok (32 + 8 + 1 + 8 + 1 + 2 * 8 * 1 + 2 * 8 * 3) := by rfl
example : HC.GenS.ct_serialized_terms_size ⟨[⟨[1, 2, 3, 4], 1, 8, [17]⟩], 5, 8⟩ ⟨[1, 2, 3, 4], 0, true, 0, 1, false, [], fun _ => [], fun _ _ => [], 1, 8⟩ 3 = .error .overflow := by rfl
/-- `serialize_full` of a seeded BGV ciphertext at a level with one modulus, N = 2: the hypotheses of `gen_ct_serialize_full_produces_enc`
    hold and 32 + 8 + 1 + 8 + 8 + (2 + 1 + 8)·8 = 145 bytes are produced -/
example :
    let ctx : Ctx := ⟨[⟨[1, 2, 3, 4], 3, 2, [17]⟩], 5, 2⟩
    let c : CtFull := ⟨[1, 2, 3, 4], 2, false, 4607182418800017408, 1, [3, 4, 18446744073709551615, 1, 2, 3, 4, 5, 6, 7, 8]⟩
    let lv : Level := ⟨[1, 2, 3, 4], 3, 2, [17]⟩
    ctx.find c.pid = some lv ∧ c.pid.length = 4 ∧ lv.scheme = 3 ∧ fullSent lv c = 11 ∧
    (HC.GenS.ct_serialize_full HC.GS.idealStream ctx (HC.GS.ctvOfFull lv c) []).1 = .ok 145 := by
  refine ⟨rfl, rfl, rfl, rfl, rfl⟩
/-- compact format, seeded BFV ciphertext, two moduli (1 and 2 bytes wide), N = 2: `CtShape` holds and
    32 + 8 + 1 + 1 + 2·1 + 2·2 + 64 = 112 bytes are produced, equal to the model's encoding -/
example :
    let ctx : Ctx := ⟨[⟨[1, 2, 3, 4], 1, 2, [17, 257]⟩], 5, 2⟩
    let c : Ct := ⟨[1, 2, 3, 4], 2, true, 4607182418800017408, 1, [[[3, 16], [256, 7]]], [1, 2, 3, 4, 5, 6, 7, 8]⟩
    let lv : Level := ⟨[1, 2, 3, 4], 1, 2, [17, 257]⟩
    ctx.find c.pid = some lv ∧ HC.GS.CtShape lv c ∧
    HC.GenS.ct_serialize HC.GS.idealStream ctx (HC.GS.ctvOfCt lv c) [] = (.ok 112, (ctC ctx (fun _ _ => [])).enc c) := by
  refine ⟨rfl, ⟨rfl, ?_, ?_, rfl⟩, by rfl⟩
  · intro p hp
    have : p = [[3, 16], [256, 7]] := by simpa using hp
    subst this
    refine ⟨rfl, ?_⟩
    intro comp hc
    have : comp = [3, 16] ∨ comp = [256, 7] := by simpa using hc
    rcases this with rfl | rfl <;> rfl
  · intro p hp j hj x hx
    have : p = [[3, 16], [256, 7]] := by simpa using hp
    subst this
    have hj2 : j < 2 := hj
    match j, hj2 with
    | 0, _ =>
      have : x = 3 ∨ x = 16 := by simpa using hx
      rcases this with rfl | rfl <;> decide
    | 1, _ =>
      have : x = 256 ∨ x = 7 := by simpa using hx
      rcases this with rfl | rfl <;> decide
/-- a key set with one present key (size-2 BFV ciphertext, one 1-byte modulus, N = 2) and one missing entry:
    32 + 8 + (8 + (32 + 8 + 1 + 1 + 4)) + 8 = 102 bytes, equal to the model's encoding -/
example :
    let lv : Level := ⟨[1, 2, 3, 4], 1, 2, [17]⟩
    let ctx : Ctx := ⟨[lv], 5, 2⟩
    let c : Ct := ⟨[1, 2, 3, 4], 2, true, 4607182418800017408, 1, [[[3, 16]], [[5, 6]]], []⟩
    HC.GenS.kswitch_serialize HC.GS.idealStream ctx ⟨[1, 2, 3, 4], [[HC.GS.ctvOfCt lv c], []]⟩ []
      = (.ok 102, (kswitchC (ctC ctx (fun _ _ => []))).enc ⟨[1, 2, 3, 4], [[c], []]⟩) := by rfl
set_option maxRecDepth 8000 in
/-- flat-word format, seeded BGV ciphertext (one modulus, N = 9; a seeded object needs k·N ≥ 9 words for flag + seed): the generated
    reader applied to the generated writer's 201 bytes gives the seed-expanded ciphertext (`expand seed _ = seed ++ [0]` here), nothing left -/
example :
    let lv : Level := ⟨[1, 2, 3, 4], 3, 9, [17]⟩
    let ctx : Ctx := ⟨[lv], 5, 9⟩
    let c : CtFull := ⟨[1, 2, 3, 4], 2, false, 4607182418800017408, 1, [3, 4, 5, 6, 7, 8, 9, 10, 11, 18446744073709551615, 1, 2, 3, 4, 5, 6, 7, 8]⟩
    HC.GenS.ct_deserialize_full (fun s _ => s ++ [0]) ctx (HC.GenS.ct_serialize_full HC.GS.idealStream ctx (HC.GS.ctvOfFull lv c) []).2
      = .ok (⟨2, 1, 9, [3, 4, 5, 6, 7, 8, 9, 10, 11, 1, 2, 3, 4, 5, 6, 7, 8, 0], [1, 2, 3, 4], 4607182418800017408, 1, false⟩, []) := by rfl

end HC.C14
