import Heathcliff.Proofs.C09D
import Heathcliff.Proofs.C09E
import Heathcliff.Proofs.C09F
import Heathcliff.Proofs.C09G
import Heathcliff.Proofs.GenNtt
import Heathcliff.Proofs.GenDwt2
import Heathcliff.Proofs.GenPolyLazy

/- Property theorems only (statements verbatim; proofs are the helper lemmas of Heathcliff/Proofs). -/
namespace HC.C09
open HC
variable {m : Modulus}
open Finset
variable {R : Type} [CommRing R]

theorem brev_lt (k i : Nat) : brev k i < 2^k := HC.brev_lt k i

theorem brev_brev {k i : Nat} (h : i < 2^k) : brev k (brev k i) = i := HC.brev_brev h

theorem brev_two_mul (k m : Nat) : brev (k+1) (2*m) = brev k m := HC.brev_two_mul k m

theorem brev_two_mul_add_one (k m : Nat) : brev (k+1) (2*m+1) = 2^k + brev k m := HC.brev_two_mul_add_one k m

/-- a value that fits in k bits, reversed in a (k+1)-bit window, is doubled -/
theorem brev_succ_of_lt {k m : Nat} (h : m < 2^k) : brev (k+1) m = 2 * brev k m := HC.brev_succ_of_lt h

/-- index identity linking the scrambled inverse table to the bit-reversed forward table -/
theorem brev_pred {k l i : Nat} (hl : l < k) (hi : i < 2^l) :
    brev k (brev k (2^l + i) - 1) = 2^k - 2^(l+1) + i := HC.brev_pred hl hi

/-- the network only looks at indices below 2^k -/
theorem runFwd_congr (k : Nat) (roots : Nat → R) (a a' : Nat → R) (h : ∀ p, p < 2^k → a p = a' p) :
    ∀ l, l ≤ k → ∀ p, p < 2^k → runFwd (exactArith R) k roots a l p = runFwd (exactArith R) k roots a' l p := HC.runFwd_congr k roots a a' h

theorem runInv_congr (k : Nat) (roots : Nat → R) (a a' : Nat → R) (h : ∀ p, p < 2^k → a p = a' p) :
    ∀ l, l ≤ k → ∀ p, p < 2^k → runInv (exactArith R) k roots a l p = runInv (exactArith R) k roots a' l p := HC.runInv_congr k roots a a' h

/-- FORWARD: output i is the evaluation of the input polynomial at psi^(2·brev k i + 1) -/
theorem fwd_eval (k : Nat) (ψ : R) (hψ : ψ^(2^k) = -1) (roots : Nat → R)
    (hroots : ∀ j, 0 < j → j < 2^k → roots j = ψ^(brev k j)) (a : Nat → R) :
    ∀ i, i < 2^k → runFwd (exactArith R) k roots a k i = ∑ j ∈ range (2^k), a j * (ψ^(2 * brev k i + 1))^j := HC.fwd_eval k ψ hψ roots hroots a

/-- INVERSE ∘ FORWARD = 2^k · id (the remaining factor is cancelled by the scalar n^{-1}) -/
theorem inv_fwd (k : Nat) (ψ ψi : R) (hinv : ψ * ψi = 1) (roots iroots : Nat → R)
    (hroots : ∀ j, 0 < j → j < 2^k → roots j = ψ^(brev k j))
    (hiroots : ∀ p, 0 < p → p < 2^k → iroots p = ψi^(brev k (p-1) + 1)) (a : Nat → R) :
    ∀ p, p < 2^k → runInv (exactArith R) k iroots (runFwd (exactArith R) k roots a k) k p = 2^k * a p := HC.inv_fwd k ψ ψi hinv roots iroots hroots hiroots a

/-- FORWARD ∘ INVERSE = 2^k · id -/
theorem fwd_inv (k : Nat) (ψ ψi : R) (hinv : ψ * ψi = 1) (roots iroots : Nat → R)
    (hroots : ∀ j, 0 < j → j < 2^k → roots j = ψ^(brev k j))
    (hiroots : ∀ p, 0 < p → p < 2^k → iroots p = ψi^(brev k (p-1) + 1)) (a : Nat → R) :
    ∀ p, p < 2^k → runFwd (exactArith R) k roots (runInv (exactArith R) k iroots a k) k p = 2^k * a p := HC.fwd_inv k ψ ψi hinv roots iroots hroots hiroots a

/-- evaluation at a root of X^n + 1 is multiplicative for the negacyclic product -/
theorem eval_negMul (n : Nat) (hn : 0 < n) (x : R) (hx : x^n = -1) (a b : Nat → R) :
    ∑ c ∈ range n, negMulR n a b c * x^c = (∑ i ∈ range n, a i * x^i) * (∑ j ∈ range n, b j * x^j) := HC.eval_negMul n hn x hx a b

/-- CONVOLUTION: inverse transform of the pointwise product of transforms = 2^k · negacyclic product -/
theorem ntt_convolution (k : Nat) (ψ ψi : R) (hψ : ψ^(2^k) = -1) (hinv : ψ * ψi = 1) (roots iroots : Nat → R)
    (hroots : ∀ j, 0 < j → j < 2^k → roots j = ψ^(brev k j))
    (hiroots : ∀ p, 0 < p → p < 2^k → iroots p = ψi^(brev k (p-1) + 1)) (a b : Nat → R) :
    ∀ c, c < 2^k →
      runInv (exactArith R) k iroots
        (fun i => runFwd (exactArith R) k roots a k i * runFwd (exactArith R) k roots b k i) k c
      = 2^k * negMulR (2^k) a b c := HC.ntt_convolution k ψ ψi hψ hinv roots iroots hroots hiroots a b

/-- lazy multiplication by a well-formed operand: < 2q and congruent, for every x < 2^64 -/
theorem mulRoot_lazy (h : m.WF) {o : MulOperand} (ho : WFOp m o) {x : Nat} (hx : x < 2^64) :
    (modArithLazy m).mulRoot x o < 2 * m.value ∧
    (((modArithLazy m).mulRoot x o : Nat) : ZMod m.value) = (x : ZMod m.value) * (o.operand : ZMod m.value) := HC.mulRoot_lazy h ho hx

/-- FORWARD lazy network: inputs < 4q ⇒ every intermediate and output value < 4q (< 2^63: no overflow in `a + b`,
    `a + 2q - b`), and it computes the exact network modulo q -/
theorem fwd_lazy_sim (h : m.WF) (k : Nat) (roots : Nat → MulOperand)
    (hr : ∀ j, 0 < j → j < 2^k → WFOp m (roots j)) (a : Nat → Nat) (ha : ∀ p, p < 2^k → a p < 4 * m.value) :
    ∀ l, l ≤ k → ∀ p, p < 2^k →
      runFwd (modArithLazy m) k roots a l p < 4 * m.value ∧
      ((runFwd (modArithLazy m) k roots a l p : Nat) : ZMod m.value)
        = runFwd (exactArith (ZMod m.value)) k (fun j => ((roots j).operand : ZMod m.value))
            (fun p => (a p : ZMod m.value)) l p := HC.fwd_lazy_sim h k roots hr a ha

/-- INVERSE lazy network: inputs < 2q ⇒ every intermediate and output value < 2q, exact modulo q -/
theorem inv_lazy_sim (h : m.WF) (k : Nat) (roots : Nat → MulOperand)
    (hr : ∀ j, 0 < j → j < 2^k → WFOp m (roots j)) (a : Nat → Nat) (ha : ∀ p, p < 2^k → a p < 2 * m.value) :
    ∀ l, l ≤ k → ∀ p, p < 2^k →
      runInv (modArithLazy m) k roots a l p < 2 * m.value ∧
      ((runInv (modArithLazy m) k roots a l p : Nat) : ZMod m.value)
        = runInv (exactArith (ZMod m.value)) k (fun j => ((roots j).operand : ZMod m.value))
            (fun p => (a p : ZMod m.value)) l p := HC.inv_lazy_sim h k roots hr a ha

/-- the array-cached executable network is the function-level network -/
theorem runFwdA_eq {α ρ : Type} [Inhabited α] (A : Arith α ρ) (k : Nat) (roots : Nat → ρ) (a : Array α)
    (hs : a.size = 2^k) : ∀ l, l ≤ k →
      (runFwdA A k roots a l).size = 2^k ∧
      ∀ p, p < 2^k → arrFn (runFwdA A k roots a l) p = runFwd A k roots (arrFn a) l p := HC.runFwdA_eq A k roots a hs

theorem runInvA_eq {α ρ : Type} [Inhabited α] (A : Arith α ρ) (k : Nat) (roots : Nat → ρ) (a : Array α)
    (hs : a.size = 2^k) : ∀ l, l ≤ k →
      (runInvA A k roots a l).size = 2^k ∧
      ∀ p, p < 2^k → arrFn (runInvA A k roots a l) p = runInv A k roots (arrFn a) l p := HC.runInvA_eq A k roots a hs

/-- final reductions of the non-lazy wrappers -/
theorem reduce4 {q x : Nat} (hq : 0 < q) (hx : x < 4 * q) :
    (let y := if x ≥ 2*q then x - 2*q else x; if y ≥ q then y - q else y) = x % q := HC.reduce4 hq hx

theorem reduce2 {q x : Nat} (hq : 0 < q) (hx : x < 2 * q) : (if x ≥ q then x - q else x) = x % q := HC.reduce2 hq hx

theorem isPrimitiveRoot_spec (h : m.WF) {n g : Nat} (hg : g < m.value) (hn0 : 0 < n) (hn : 2 * n < 2^64) :
    ∃ b, isPrimitiveRoot g (2*n) m = .ok b ∧ (b = true ↔ IsPrim n m.value g) := HC.isPrimitiveRoot_spec h hg hn0 hn

/-- odd powers of a primitive root are primitive -/
theorem isPrim_odd_pow {n q g : Nat} (hq : 2 < q) (hn : 0 < n) (hg : IsPrim n q g) (j : Nat) :
    IsPrim n q (g^(2*j+1) % q) := HC.isPrim_odd_pow hq hn hg j

/-- the value `minimalRootFrom` returns: the minimum of the N odd powers g^1, g^3, …, g^(2N-1) (mod q) -/
theorem minimalRootFrom_spec (h : m.WF) {n g : Nat} (hn : 0 < n) (hg : g < m.value) :
    ∃ r, minimalRootFrom (2*n) m g = .ok r ∧
      (∃ j, j < n ∧ r = g^(2*j+1) % m.value) ∧ (∀ j, j < n → r ≤ g^(2*j+1) % m.value) := HC.minimalRootFrom_spec h hn hg

/-- the determinism genuinely needs primality: for q = 85 = 5·17, N = 2, both 13 and 38 are primitive and minimal
    for their own orbit of odd powers (this is the defect repaired in NTTTables::new) -/
theorem composite_counterexample :
    IsPrim 2 85 13 ∧ IsPrim 2 85 38 ∧
    (∀ j, j < 2 → 13 ≤ 13^(2*j+1) % 85) ∧ (∀ j, j < 2 → 38 ≤ 38^(2*j+1) % 85) := HC.composite_counterexample 

/-! ### API level: the tables `NTTTables::new` builds, and `ntt` / `intt` / `dyadic_product` on arrays -/
variable {t : NTTTables}

/-- TABLE LINK: every successfully constructed table (root0 a `u64`) is well formed: bit-reversed powers of the root,
    scrambled powers of its inverse, n^-1 — for every modulus and every degree 2^k, k ≤ 60 -/
theorem NTTTables.new_wf_u64 {k : Nat} {m : Modulus} {pr : Bool} {root0 : Nat} {t : NTTTables}
    (hm : m.WF) (hk : k ≤ 60) (hr0 : root0 < 2^64) (h : NTTTables.new k m pr root0 = .ok t) :
    t.WF ∧ t.k = k ∧ t.modulus = m ∧ pr = true := HC.NTTTables.new_wf_u64 hm hk hr0 h


/-- FORWARD, lazy form: inputs < 4q ⇒ outputs < 4q and congruent to the evaluations -/
theorem nttLazy_spec (hw : t.WF) (a : Array Nat) (hs : a.size = 2^t.k) (ha : ∀ j, j < 2^t.k → a.getD j 0 < 4 * t.modulus.value) :
    (nttLazy t a).size = 2^t.k ∧ ∀ i, i < 2^t.k →
      (nttLazy t a).getD i 0 < 4 * t.modulus.value ∧ (nttLazy t a).getD i 0 % t.modulus.value = evalSpec t a i := HC.nttLazy_spec hw a hs ha

/-- FORWARD: `ntt` returns the canonical residues of the evaluations at ψ^(2·brev(i)+1) -/
theorem ntt_eval (hw : t.WF) (a : Array Nat) (hs : a.size = 2^t.k) (ha : ∀ j, j < 2^t.k → a.getD j 0 < 4 * t.modulus.value) :
    (ntt t a).size = 2^t.k ∧ ∀ i, i < 2^t.k → (ntt t a).getD i 0 = evalSpec t a i := HC.ntt_eval hw a hs ha

/-- INVERSE, lazy form: inputs < 2q ⇒ outputs < 2q -/
theorem inttLazy_range (hw : t.WF) (a : Array Nat) (hs : a.size = 2^t.k) (ha : ∀ j, j < 2^t.k → a.getD j 0 < 2 * t.modulus.value) :
    (inttLazy t a).size = 2^t.k ∧ ∀ i, i < 2^t.k → (inttLazy t a).getD i 0 < 2 * t.modulus.value := HC.inttLazy_range hw a hs ha

/-- INVERSE ∘ FORWARD = id on canonical vectors -/
theorem intt_ntt (hw : t.WF) (a : Array Nat) (hs : a.size = 2^t.k) (ha : ∀ j, j < 2^t.k → a.getD j 0 < t.modulus.value) :
    intt t (ntt t a) = a := HC.intt_ntt hw a hs ha

/-- FORWARD ∘ INVERSE = id on canonical vectors -/
theorem ntt_intt (hw : t.WF) (a : Array Nat) (hs : a.size = 2^t.k) (ha : ∀ j, j < 2^t.k → a.getD j 0 < t.modulus.value) :
    ntt t (intt t a) = a := HC.ntt_intt hw a hs ha

/-- CONVOLUTION: pointwise multiplication of transforms corresponds to multiplication modulo X^N + 1 -/
theorem ntt_convolution_api (hw : t.WF) (a b : Array Nat) (hsa : a.size = 2^t.k) (hsb : b.size = 2^t.k)
    (ha : ∀ j, j < 2^t.k → a.getD j 0 < t.modulus.value) (hb : ∀ j, j < 2^t.k → b.getD j 0 < t.modulus.value) :
    ∃ p, dyadicProduct (ntt t a) (ntt t b) t.modulus = .ok p ∧
      (intt t p).size = 2^t.k ∧ ∀ c, c < 2^t.k → (intt t p).getD c 0 = negMulNat (2^t.k) t.modulus.value a b c := HC.ntt_convolution_api hw a b hsa hsb ha hb


/-! ### root determinism (the degree N is a power of two, as everywhere in the library).
    The statements for ARBITRARY n > 0 are false (q = 7, n = 3: 6 and 3 both satisfy x^3 = -1 but 3 is not an odd power of 6);
    they are kept as `…Statement` definitions in Proofs/C09F.lean together with their machine-checked refutations. -/

theorem prim_is_odd_power_pow2 {n q g g' : Nat} (hp : Nat.Prime q) (hn2 : ∃ k, n = 2^k)
    (hg : IsPrim n q g) (hg' : IsPrim n q g') : ∃ j, j < n ∧ g' = g^(2*j+1) % q :=
  HC.prim_is_odd_power_pow2 hp hn2 hg hg'

/-- ROOT DETERMINISM: for prime q the minimal root does not depend on which primitive root the random search found -/
theorem root_deterministic_pow2 (h : m.WF) (hp : Nat.Prime m.value) {n g g' : Nat} (hn2 : ∃ k, n = 2^k)
    (hg : IsPrim n m.value g) (hg' : IsPrim n m.value g') :
    minimalRootFrom (2*n) m g = minimalRootFrom (2*n) m g' := HC.root_deterministic_pow2 h hp hn2 hg hg'

theorem minimalRoot_least_pow2 (h : m.WF) (hp : Nat.Prime m.value) {n g : Nat} (hn2 : ∃ k, n = 2^k)
    (hg : IsPrim n m.value g) :
    ∃ r, minimalRootFrom (2*n) m g = .ok r ∧ IsPrim n m.value r ∧ ∀ x, IsPrim n m.value x → r ≤ x :=
  HC.minimalRoot_least_pow2 h hp hn2 hg

theorem root_deterministic_general_false : ¬ HC.root_deterministicStatement := HC.root_deterministicStatement_false

/-! ### translator tie: `impl Arithmetic for ModArithLazy`, `ModArithLazy::new` (src/util/ntt.rs) generated into Gen/NttFns.lean
     equal the instance `modArithLazy` the layers `fwdLayer`/`invLayer` are run with (Proofs/GenNtt.lean).  The hypotheses say exactly
     that the overflow-checked `+`/`-` of the code do not trap (the hand model uses unbounded `Nat`). -/
theorem gen_mal_new_modulus (m : Modulus) : (GenN.mal_new m).modulus = m := HC.gx_mal_new_modulus m
theorem gen_mal_new_two (m : Modulus) (hm : m.value < 2^63) : (GenN.mal_new m).two_times_modulus = 2 * m.value := HC.gx_mal_new_two m hm
theorem gen_mal_add_eq (s : GenN.ModArithLazy) (m : Modulus) (a b : Nat) (h : a + b < 2^64) :
    GenN.mal_add s a b = .ok ((modArithLazy m).add a b) := HC.gx_mal_add_eq s m a b h
theorem gen_mal_sub_eq (s : GenN.ModArithLazy) (m : Modulus) (a b : Nat) (hs : s.two_times_modulus = 2 * m.value)
    (h1 : a + 2 * m.value < 2^64) (h2 : b ≤ a + 2 * m.value) :
    GenN.mal_sub s a b = .ok ((modArithLazy m).sub a b) := HC.gx_mal_sub_eq s m a b hs h1 h2
theorem gen_mal_mul_root_eq (s : GenN.ModArithLazy) (m : Modulus) (a : Nat) (r : MulOperand) (hs : s.modulus = m) :
    GenN.mal_mul_root s a r = (modArithLazy m).mulRoot a r := HC.gx_mal_mul_root_eq s m a r hs
theorem gen_mal_mul_scalar_eq (s : GenN.ModArithLazy) (m : Modulus) (a : Nat) (r : MulOperand) (hs : s.modulus = m) :
    GenN.mal_mul_scalar s a r = (modArithLazy m).mulRoot a r := HC.gx_mal_mul_scalar_eq s m a r hs
theorem gen_mal_guard_eq (s : GenN.ModArithLazy) (m : Modulus) (a : Nat) (hs : s.two_times_modulus = 2 * m.value) :
    GenN.mal_guard s a = .ok ((modArithLazy m).guard a) := HC.gx_mal_guard_eq s m a hs
theorem gen_new_add_eq (m : Modulus) (a b : Nat) (h : a + b < 2^64) :
    GenN.mal_add (GenN.mal_new m) a b = .ok ((modArithLazy m).add a b) := HC.gx_new_add_eq m a b h
theorem gen_new_sub_eq (m : Modulus) (hm : m.value < 2^63) (a b : Nat) (h1 : a + 2 * m.value < 2^64) (h2 : b ≤ a + 2 * m.value) :
    GenN.mal_sub (GenN.mal_new m) a b = .ok ((modArithLazy m).sub a b) := HC.gx_new_sub_eq m hm a b h1 h2
theorem gen_new_mul_root_eq (m : Modulus) (a : Nat) (r : MulOperand) :
    GenN.mal_mul_root (GenN.mal_new m) a r = (modArithLazy m).mulRoot a r := HC.gx_new_mul_root_eq m a r
theorem gen_new_mul_scalar_eq (m : Modulus) (a : Nat) (r : MulOperand) :
    GenN.mal_mul_scalar (GenN.mal_new m) a r = (modArithLazy m).mulRoot a r := HC.gx_new_mul_scalar_eq m a r
theorem gen_new_guard_eq (m : Modulus) (hm : m.value < 2^63) (a : Nat) :
    GenN.mal_guard (GenN.mal_new m) a = .ok ((modArithLazy m).guard a) := HC.gx_new_guard_eq m hm a

theorem gen_is_primitive_root_eq (root degree : Nat) (m : Modulus) (hm : 1 ≤ m.value) :
    GenN.is_primitive_root root degree m = isPrimitiveRoot root degree m := HC.gx_is_primitive_root_eq root degree m hm

/-! ### translator tie, phase 4e: the butterfly NETWORK itself.  `DWTHandler::transform_to_rev` / `transform_from_rev`
     (src/util/dwthandler.rs; generic over `trait Arithmetic`, closures mutating the captured `offset`, iterator chains over sub-slices)
     and the wrappers of src/util/ntt.rs are regenerated from the source into Gen/DwtFns.lean (`HC.GenD`) and proved EQUAL to the hand
     model (`runFwdA` / `runInvA`, `nttLazy` / `ntt` / `inttLazy` / `intt`) - Proofs/GenDwt.lean, Proofs/GenDwt2.lean.
     `RealFwd A' A P Q`: the (possibly panicking) generated operations `A'` return the values of the total arithmetic `A` on every
     butterfly whose inputs satisfy `P` and whose root satisfies `Q`.  Hypotheses forced by the proof: `log_n < 64` (`1 << log_n`
     traps at 64), input length `2^log_n`, the table has at least `2^log_n` entries, and the range invariant `P` on every layer. -/

/-- GENERATED = MODEL (forward), any realised arithmetic -/
theorem gen_transform_to_rev_eq {α ρ σ : Type} {A' : GenD.Arithmetic α ρ σ} {A : Arith α ρ} {P : α → Prop} {Q : ρ → Prop} [Inhabited α]
    (h : RealFwd A' A P Q) (k : Nat) (hk : k < 64) (vals : List α) (hv : vals.length = 2^k)
    (roots : List ρ) (rf : Nat → ρ) (hrf : ∀ j, j < 2^k → roots[j]? = some (rf j)) (hQ : ∀ j, 0 < j → j < 2^k → Q (rf j))
    (hP : ∀ l, l < k → ∀ p, p < 2^k → P (arrFn (runFwdA A k rf vals.toArray l) p))
    (sc : Option σ) (ms : α → σ → α)
    (hs : ∀ s, sc = some s → ∀ p, p < 2^k → A'.mul_scalar (arrFn (runFwdA A k rf vals.toArray k) p) s
            = .ok (ms (arrFn (runFwdA A k rf vals.toArray k) p) s)) :
    GenD.transform_to_rev A' vals k roots sc = .ok (gd_scaled ms sc (runFwdA A k rf vals.toArray k).toList) :=
  HC.gd_transform_to_rev_eq h k hk vals hv roots rf hrf hQ hP sc ms hs

/-- GENERATED = MODEL (inverse), any realised arithmetic -/
theorem gen_transform_from_rev_eq {α ρ σ : Type} {A' : GenD.Arithmetic α ρ σ} {A : Arith α ρ} {P : α → Prop} {Q : ρ → Prop} [Inhabited α]
    (h : RealInv A' A P Q) (k : Nat) (hk : k < 64) (vals : List α) (hv : vals.length = 2^k)
    (roots : List ρ) (rf : Nat → ρ) (hrf : ∀ j, j < 2^k → roots[j]? = some (rf j)) (hQ : ∀ j, 0 < j → j < 2^k → Q (rf j))
    (hP : ∀ l, l < k → ∀ p, p < 2^k → P (arrFn (runInvA A k rf vals.toArray l) p))
    (sc : Option σ) (ms : α → σ → α)
    (hs : ∀ s, sc = some s → ∀ p, p < 2^k → A'.mul_scalar (arrFn (runInvA A k rf vals.toArray k) p) s
            = .ok (ms (arrFn (runInvA A k rf vals.toArray k) p) s)) :
    GenD.transform_from_rev A' vals k roots sc = .ok (gd_scaled ms sc (runInvA A k rf vals.toArray k).toList) :=
  HC.gd_transform_from_rev_eq h k hk vals hv roots rf hrf hQ hP sc ms hs

/-- for ANY arithmetic structure with total operations: no hypothesis beyond the shapes -/
theorem gen_transform_to_rev_total {α ρ σ : Type} [Inhabited α] (A : Arith α ρ) (ms : α → σ → α) (k : Nat) (hk : k < 64) (vals : List α)
    (hv : vals.length = 2^k) (roots : List ρ) (rf : Nat → ρ) (hrf : ∀ j, j < 2^k → roots[j]? = some (rf j)) (sc : Option σ) :
    GenD.transform_to_rev (gd_total A ms) vals k roots sc = .ok (gd_scaled ms sc (runFwdA A k rf vals.toArray k).toList) :=
  HC.gd_transform_to_rev_total A ms k hk vals hv roots rf hrf sc

theorem gen_transform_from_rev_total {α ρ σ : Type} [Inhabited α] (A : Arith α ρ) (ms : α → σ → α) (k : Nat) (hk : k < 64) (vals : List α)
    (hv : vals.length = 2^k) (roots : List ρ) (rf : Nat → ρ) (hrf : ∀ j, j < 2^k → roots[j]? = some (rf j)) (sc : Option σ) :
    GenD.transform_from_rev (gd_total A ms) vals k roots sc = .ok (gd_scaled ms sc (runInvA A k rf vals.toArray k).toList) :=
  HC.gd_transform_from_rev_total A ms k hk vals hv roots rf hrf sc

/-- the lazy modular instance realises `modArithLazy` on `[0, 4q)` (forward) and `[0, 2q)` (inverse): none of the checked `+` / `-` traps -/
theorem gen_lazy_fwd_realised (hm : m.WF) (s : GenN.ModArithLazy) (hs1 : s.modulus = m) (hs2 : s.two_times_modulus = 2 * m.value) :
    RealFwd (GenD.arith_ModArithLazy s) (modArithLazy m) (fun x => x < 4 * m.value) (WFOp m) := HC.gd_lazy_fwd hm s hs1 hs2

theorem gen_lazy_inv_realised (hm : m.WF) (s : GenN.ModArithLazy) (hs1 : s.modulus = m) (hs2 : s.two_times_modulus = 2 * m.value) :
    RealInv (GenD.arith_ModArithLazy s) (modArithLazy m) (fun x => x < 2 * m.value) (WFOp m) := HC.gd_lazy_inv hm s hs1 hs2

/-- GENERATED = MODEL for the lazy modular instance (partial, checked operations), forward: inputs `< 4q` (the invariant of `fwd_lazy_sim`) -/
theorem gen_lazy_transform_to_rev (hm : m.WF) (s : GenN.ModArithLazy) (hs1 : s.modulus = m) (hs2 : s.two_times_modulus = 2 * m.value)
    (k : Nat) (hk : k < 64) (vals : List Nat) (hv : vals.length = 2^k) (ha : ∀ x ∈ vals, x < 4 * m.value)
    (roots : List MulOperand) (rf : Nat → MulOperand) (hrf : ∀ j, j < 2^k → roots[j]? = some (rf j))
    (hQ : ∀ j, 0 < j → j < 2^k → WFOp m (rf j)) :
    GenD.transform_to_rev (GenD.arith_ModArithLazy s) vals k roots none = .ok (runFwdA (modArithLazy m) k rf vals.toArray k).toList :=
  HC.gd_lazy_transform_to_rev hm s hs1 hs2 k hk vals hv ha roots rf hrf hQ

/-- … inverse: inputs `< 2q` (the invariant of `inv_lazy_sim`), scalar pass included -/
theorem gen_lazy_transform_from_rev (hm : m.WF) (s : GenN.ModArithLazy) (hs1 : s.modulus = m) (hs2 : s.two_times_modulus = 2 * m.value)
    (k : Nat) (hk : k < 64) (vals : List Nat) (hv : vals.length = 2^k) (ha : ∀ x ∈ vals, x < 2 * m.value)
    (roots : List MulOperand) (rf : Nat → MulOperand) (hrf : ∀ j, j < 2^k → roots[j]? = some (rf j))
    (hQ : ∀ j, 0 < j → j < 2^k → WFOp m (rf j)) (sc : MulOperand) :
    GenD.transform_from_rev (GenD.arith_ModArithLazy s) vals k roots (some sc)
      = .ok ((runInvA (modArithLazy m) k rf vals.toArray k).toList.map (fun x => (modArithLazy m).mulRoot x sc)) :=
  HC.gd_lazy_transform_from_rev hm s hs1 hs2 k hk vals hv ha roots rf hrf hQ sc

/-- the wrappers of src/util/ntt.rs (handler call + final correction loop) on the fields of a well-formed table = the model functions -/
theorem gen_ntt_lazy_eq (hw : t.WF) (a : List Nat) (hs : a.length = 2^t.k) (ha : ∀ x ∈ a, x < 4 * t.modulus.value) :
    GenD.ntt_negacyclic_harvey_lazy (gd_view t) a = .ok (nttLazy t a.toArray).toList := HC.gd_ntt_lazy_eq hw a hs ha
theorem gen_ntt_eq (hw : t.WF) (a : List Nat) (hs : a.length = 2^t.k) (ha : ∀ x ∈ a, x < 4 * t.modulus.value) :
    GenD.ntt_negacyclic_harvey (gd_view t) a = .ok (ntt t a.toArray).toList := HC.gd_ntt_eq hw a hs ha
theorem gen_intt_lazy_eq (hw : t.WF) (a : List Nat) (hs : a.length = 2^t.k) (ha : ∀ x ∈ a, x < 2 * t.modulus.value) :
    GenD.inverse_ntt_negacyclic_harvey_lazy (gd_view t) a = .ok (inttLazy t a.toArray).toList := HC.gd_intt_lazy_eq hw a hs ha
theorem gen_intt_eq (hw : t.WF) (a : List Nat) (hs : a.length = 2^t.k) (ha : ∀ x ∈ a, x < 2 * t.modulus.value) :
    GenD.inverse_ntt_negacyclic_harvey (gd_view t) a = .ok (intt t a.toArray).toList := HC.gd_intt_eq hw a hs ha

/-- FROM SOURCE TO MATHEMATICS, one statement.  For tables built by `NTTTables.new` (any WF modulus, any degree 2^k, k ≤ 60): ψ = `t.root`
    is a primitive 2N-th root of unity mod q (ψ^N = -1), and the function GENERATED from the Rust source of
    `NTTTables::ntt_negacyclic_harvey` (butterfly network `DWTHandler::transform_to_rev` run with `ModArithLazy`, then the correction loop)
    maps the canonical coefficient vector `a` of a polynomial to its evaluations at ψ^(2·brev(i)+1), and the function generated from
    `inverse_ntt_negacyclic_harvey` maps these evaluations back to `a`. -/
theorem gen_ntt_source_to_math {k : Nat} {m : Modulus} {pr : Bool} {root0 : Nat} {t : NTTTables}
    (hm : m.WF) (hk : k ≤ 60) (hr0 : root0 < 2^64) (h : NTTTables.new k m pr root0 = .ok t)
    (a : List Nat) (hs : a.length = 2^k) (ha : ∀ x ∈ a, x < m.value) :
    t.k = k ∧ t.modulus = m ∧ t.root ^ (2^k) % m.value = m.value - 1 ∧
    ∃ out, GenD.ntt_negacyclic_harvey (gd_view t) a = .ok out ∧ out.length = 2^k ∧
      (∀ i, i < 2^k → out[i]? = some ((∑ j ∈ range (2^k), a.toArray.getD j 0 * (t.root ^ (2 * brev k i + 1)) ^ j) % m.value)) ∧
      GenD.inverse_ntt_negacyclic_harvey (gd_view t) out = .ok a := by
  obtain ⟨hw, rfl, rfl, _⟩ := HC.NTTTables.new_wf_u64 hm hk hr0 h
  exact ⟨rfl, rfl, hw.root_pow, HC.gd_source_roundtrip hw a hs ha⟩

/-- the inverse statement: the generated inverse transform maps canonical evaluations `b` to the canonical coefficient vector whose
    evaluations at ψ^(2·brev(i)+1) they are (and the generated forward transform maps it back to `b`) -/
theorem gen_intt_source_to_math {k : Nat} {m : Modulus} {pr : Bool} {root0 : Nat} {t : NTTTables}
    (hm : m.WF) (hk : k ≤ 60) (hr0 : root0 < 2^64) (h : NTTTables.new k m pr root0 = .ok t)
    (b : List Nat) (hs : b.length = 2^k) (hb : ∀ x ∈ b, x < m.value) :
    ∃ a, GenD.inverse_ntt_negacyclic_harvey (gd_view t) b = .ok a ∧ a.length = 2^k ∧ (∀ x ∈ a, x < m.value) ∧
      GenD.ntt_negacyclic_harvey (gd_view t) a = .ok b ∧
      ∀ i, i < 2^k → b[i]? = some ((∑ j ∈ range (2^k), a.toArray.getD j 0 * (t.root ^ (2 * brev k i + 1)) ^ j) % m.value) := by
  obtain ⟨hw, rfl, rfl, _⟩ := HC.NTTTables.new_wf_u64 hm hk hr0 h
  exact HC.gd_source_inverse hw b hs hb

/-- the same two statements for any well-formed table -/
theorem gen_ntt_source_eval (hw : t.WF) (a : List Nat) (hs : a.length = 2^t.k) (ha : ∀ x ∈ a, x < 4 * t.modulus.value) :
    ∃ out, GenD.ntt_negacyclic_harvey (gd_view t) a = .ok out ∧ out.length = 2^t.k ∧
      ∀ i, i < 2^t.k → out[i]? = some (evalSpec t a.toArray i) := HC.gd_ntt_source_eval hw a hs ha

/-- non-vacuity of the generic bundle and a run of the generated code inside the kernel: the total arithmetic of `Nat`
    (guard = id, root multiplication = `*`), N = 4, table [1, 2, 3, 5]: layer 0 uses root 2 on the halves, layer 1 roots 3 and 5 -/
example : RealFwd (gd_total (⟨(· + ·), (· - ·), (· * ·), id⟩ : Arith Nat Nat) (fun a (s : Nat) => a * s))
    ⟨(· + ·), (· - ·), (· * ·), id⟩ (fun _ => True) (fun _ => True) := HC.gd_total_fwd _ _
example : GenD.transform_to_rev (gd_total (⟨(· + ·), (· - ·), (· * ·), id⟩ : Arith Nat Nat) (fun a (s : Nat) => a * s))
    [100, 10, 1, 0] 2 [1, 2, 3, 5] (some 2) = .ok [264, 144, 296, 96] := by decide

/-- non-vacuity: q = 17, N = 4 (2N = 8 divides 16): 2 is a primitive 8th root (2^4 = 16 = -1) -/
example : IsPrim 4 17 2 := by unfold IsPrim; decide

/-! ### pointwise products on LAZY operands, from the source (`Proofs/GenPolyLazy.lean`) -/

/-- SOURCE TO MATHEMATICS: the generated `dyadic_product_inplace` (src/util/polysmallmod.rs, regenerated on every run) turns position i into
    comp1[i] · comp2[i] mod q for ANY 64-bit words — in particular for the unreduced output (< 4q) of the lazy forward transform that
    `multiply_plain` feeds into it; no "operands below q" hypothesis, every modulus with 2 ≤ q < 2^61 -/
theorem gen_dyadic_product_inplace_any_operands : type_of% @HC.gpl_dyadic_inplace_any := @HC.gpl_dyadic_inplace_any
/-- the same for `dyadic_product` into a destination with arbitrary old contents -/
theorem gen_dyadic_product_any_operands : type_of% @HC.gpl_dyadic_any := @HC.gpl_dyadic_any

end HC.C09
