import Heathcliff.Model.NTT
namespace HC.C09
theorem brev_zero (i : Nat) : brev 0 i = 0 := rfl
end HC.C09
