import Heathcliff.Model.Galois
namespace HC.C11
theorem placeholder : galoisGenerator = 3 := rfl
end HC.C11
