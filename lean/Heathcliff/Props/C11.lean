import Heathcliff.Proofs.C11N
import Heathcliff.Proofs.C11P
import Heathcliff.Proofs.GenAppBatch

/- Property theorems only (statements verbatim; proofs are the helper lemmas of Heathcliff/Proofs). -/
namespace HC.C11
open HC
open Finset

/-- INDEX MAP: entry i is brev((slotExp i − 1)/2), i.e. the NTT position holding the evaluation at psi^(slotExp i) -/
theorem batchIndexMap_spec {k i : Nat} (hk : 1 ≤ k) (hi : i < 2^k) :
    (batchIndexMap k).size = 2^k ∧ (batchIndexMap k).getD i 0 = brev k ((slotExp k i - 1) / 2) ∧
    slotExp k i % 2 = 1 ∧ slotExp k i < 2 * 2^k := HC.batchIndexMap_spec hk hi

/-- the slot exponents ±3^i are pairwise distinct modulo 2N (so they are ALL odd residues: 3 has order N/2 and −1 ∉ ⟨3⟩) -/
theorem slotExp_injective {k i j : Nat} (hk : 1 ≤ k) (hi : i < 2^k) (hj : j < 2^k) (h : slotExp k i = slotExp k j) : i = j := HC.slotExp_injective hk hi hj h

/-- INDEX MAP IS A PERMUTATION of [0, N) -/
theorem batchIndexMap_perm {k : Nat} (hk : 1 ≤ k) :
    (∀ i, i < 2^k → (batchIndexMap k).getD i 0 < 2^k) ∧
    (∀ i j, i < 2^k → j < 2^k → (batchIndexMap k).getD i 0 = (batchIndexMap k).getD j 0 → i = j) := HC.batchIndexMap_perm hk

/-- DECODE = evaluation: slot i of `decode p` is p(psi^(slotExp i)) mod t (psi the table's root) -/
theorem batchDecode_eval (hw : t.WF) (hk : 1 ≤ t.k) (p : Array Nat) (hs : p.size ≤ 2^t.k)
    (hp : ∀ j, j < p.size → p.getD j 0 < t.modulus.value) :
    (batchDecode t p).size = 2^t.k ∧ ∀ i, i < 2^t.k →
      (batchDecode t p).getD i 0 =
        (∑ j ∈ range (2^t.k), p.getD j 0 * (t.root ^ slotExp t.k i) ^ j) % t.modulus.value := HC.batchDecode_eval hw hk p hs hp

/-- ROUND TRIP: decoding inverts encoding; shorter inputs are zero-padded -/
theorem batch_decode_encode (hw : t.WF) (hk : 1 ≤ t.k) (v : Array Nat) (hs : v.size ≤ 2^t.k)
    (hv : ∀ j, j < v.size → v.getD j 0 < t.modulus.value) :
    ∃ p, batchEncode t v = .ok p ∧ p.size = 2^t.k ∧ (∀ j, j < 2^t.k → p.getD j 0 < t.modulus.value) ∧
      ∀ i, i < 2^t.k → (batchDecode t p).getD i 0 = v.getD i 0 := HC.batch_decode_encode hw hk v hs hv

/-- and encoding inverts decoding on full-length canonical plaintexts (bijection) -/
theorem batch_encode_decode (hw : t.WF) (hk : 1 ≤ t.k) (p : Array Nat) (hs : p.size = 2^t.k)
    (hp : ∀ j, j < 2^t.k → p.getD j 0 < t.modulus.value) :
    batchEncode t (batchDecode t p) = .ok p := HC.batch_encode_decode hw hk p hs hp

/-- RING ISOMORPHISM (product): the slots of the negacyclic product are the products of the slots -/
theorem batch_mul_slots (hw : t.WF) (hk : 1 ≤ t.k) (a b : Array Nat) (hsa : a.size = 2^t.k) (hsb : b.size = 2^t.k)
    (ha : ∀ j, j < 2^t.k → a.getD j 0 < t.modulus.value) (hb : ∀ j, j < 2^t.k → b.getD j 0 < t.modulus.value) :
    let prod : Array Nat := Array.ofFn (n := 2^t.k) fun c => negMulNat (2^t.k) t.modulus.value a b c.val
    ∀ i, i < 2^t.k → (batchDecode t prod).getD i 0 =
      ((batchDecode t a).getD i 0 * (batchDecode t b).getD i 0) % t.modulus.value := HC.batch_mul_slots hw hk a b hsa hsb ha hb

/-- (sum) -/
theorem batch_add_slots (hw : t.WF) (hk : 1 ≤ t.k) (a b : Array Nat) (hsa : a.size = 2^t.k) (hsb : b.size = 2^t.k)
    (ha : ∀ j, j < 2^t.k → a.getD j 0 < t.modulus.value) (hb : ∀ j, j < 2^t.k → b.getD j 0 < t.modulus.value) :
    let sum : Array Nat := Array.ofFn (n := 2^t.k) fun c => (a.getD c.val 0 + b.getD c.val 0) % t.modulus.value
    ∀ i, i < 2^t.k → (batchDecode t sum).getD i 0 =
      ((batchDecode t a).getD i 0 + (batchDecode t b).getD i 0) % t.modulus.value := HC.batch_add_slots hw hk a b hsa hsb ha hb

/-- GALOIS ACTION ON SLOTS (exponent level): substituting X ↦ X^(3^s) moves slot (i + s mod N/2) of the same row to slot i,
    and X ↦ X^(2N−1) exchanges the rows: slotExp(i)·3^s ≡ slotExp(rot i), slotExp(i)·(2N−1) ≡ slotExp(swap i) (mod 2N) -/
theorem slotExp_rotate {k i s : Nat} (hk : 2 ≤ k) (hi : i < 2^k) :
    let row := 2^k / 2
    (slotExp k i * 3 ^ s) % (2 * 2^k) = slotExp k ((i / row) * row + (i % row + s) % row) := HC.slotExp_rotate hk hi

theorem slotExp_swap {k i : Nat} (hk : 1 ≤ k) (hi : i < 2^k) :
    (slotExp k i * (2 * 2^k - 1)) % (2 * 2^k) = slotExp k ((i + 2^k / 2) % 2^k) := HC.slotExp_swap hk hi

/-! ### the model's encoder / decoder on tables built by the model's constructor (Proofs/C11P.lean) -/

/-- **MODEL ROUND TRIP for every N = 2^k (1 ≤ k ≤ 60) and every plain modulus `NTTTables.new` accepts** (only primes t ≡ 1 mod 2N are
    accepted: `batch_tables_only_for_batching_primes`): the model's `batchEncode` followed by the model's `batchDecode` is the
    identity with zero padding; the encoding is a canonical plaintext of N coefficients -/
theorem batch_round_trip_of_new : type_of% @HC.batch_round_trip_of_new := @HC.batch_round_trip_of_new

/-- ... and `batchEncode ∘ batchDecode` = identity on canonical plaintexts of full length (bijection) -/
theorem batch_encode_decode_of_new : type_of% @HC.batch_encode_decode_of_new := @HC.batch_encode_decode_of_new

/-- the constructor returns tables only for a prime modulus with 2N | t − 1 -/
theorem batch_tables_only_for_batching_primes : type_of% @HC.batch_tables_only_for_batching_primes :=
  @HC.batch_tables_only_for_batching_primes

/-! ### translator tie (phase 4h, app mode): `reverse_bits_u64` (src/util/basic.rs) and the `matrix_reps_index_map` loop of
    `BatchEncoder::new` (src/batch_encoder.rs; a fragment: generator 3, `pos`, `index1`, `index2`, bit reversal) are REGENERATED
    on every run (`Gen/AppFns.lean`) and proved equal to the model -/

/-- `reverse_bits_u64(x, k)` = `brev k x` for `k ≤ 64`, `x < 2^k` (`64 - bit_count` is a checked subtraction) -/
theorem gen_reverse_bits_u64_eq : type_of% @HC.ga_reverse_bits_u64_eq := @HC.ga_reverse_bits_u64_eq

/-- the generated index-map loop at `slots = 2^k`, `logn = k` (the values `BatchEncoder::new` passes: `poly_modulus_degree` and its
    `get_power_of_two`, asserted positive) returns exactly the model's `batchIndexMap k`, `1 ≤ k ≤ 61` -/
theorem gen_batch_index_map_eq : type_of% @HC.ga_be_index_map_eq := @HC.ga_be_index_map_eq

/-- **one statement from source to mathematics**: the table the GENERATED loop builds is a PERMUTATION of [0, N) whose entry `i` is the
    NTT position of the evaluation point psi^(slotExp i) (composition with `batchIndexMap_spec` / `batchIndexMap_perm`) -/
theorem gen_batch_index_map_perm {k : Nat} (hk : 1 ≤ k) (hk2 : k ≤ 61) :
    ∃ m : List Nat, GenApp.be_index_map (2^k) k = .ok m ∧ m.length = 2^k ∧
      (∀ i, i < 2^k → m.getD i 0 = brev k ((slotExp k i - 1) / 2) ∧ m.getD i 0 < 2^k) ∧
      (∀ i j, i < 2^k → j < 2^k → m.getD i 0 = m.getD j 0 → i = j) := by
  refine ⟨(batchIndexMap k).toList, HC.ga_be_index_map_eq k hk hk2, ?_, ?_, ?_⟩
  · rw [Array.length_toList]; exact (batchIndexMap_spec hk (Nat.two_pow_pos k)).1
  · intro i hi
    have e : (batchIndexMap k).toList.getD i 0 = (batchIndexMap k).getD i 0 := by simp [Array.getD_eq_getD_getElem?]
    rw [e]
    exact ⟨(batchIndexMap_spec hk hi).2.1, (batchIndexMap_perm hk).1 i hi⟩
  · intro i j hi hj h
    have e : ∀ x, (batchIndexMap k).toList.getD x 0 = (batchIndexMap k).getD x 0 := by intro x; simp [Array.getD_eq_getD_getElem?]
    rw [e, e] at h
    exact (batchIndexMap_perm hk).2 i j hi hj h

/-! non-vacuity: the generated loop runs and returns the table of the code (N = 8: [0, 5, 3, 6 | 7, 2, 4, 1]) -/
example : GenApp.be_index_map 8 3 = .ok (batchIndexMap 3).toList := by rfl
example : GenApp.reverse_bits_u64 6 3 = .ok 3 := by rfl

end HC.C11
