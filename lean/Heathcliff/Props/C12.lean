import Heathcliff.Proofs.C12A
import Heathcliff.Proofs.C12D
import Heathcliff.Proofs.C12E
import Heathcliff.Proofs.GenDwt
import Heathcliff.Proofs.GenCkks3

/- C12 — CKKS encoding is the rounded scaled canonical embedding on every path.
   Property theorems only (proofs are the helper lemmas of Heathcliff/Proofs/C12A..E).  The model is
   Heathcliff/Model/CkksEncoder.lean + the generic butterfly network of Heathcliff/Model/NTT.lean.

   PROVED (for all inputs): the integer → RNS conversion of a rounded coefficient on each magnitude path (negative values
   included), `encode_internal_i64_single` (repaired form), decode's centred lift and limb fold (exact rational value), the
   slot index map (permutation; slot i ↔ psi^(3^i), slot i+N/2 ↔ its conjugate), the 8-fold symmetry reduction of `get_root`
   (abstractly and over ℂ with `Complex.exp`), the root tables the encoder builds, and over any commutative *-ring with a
   primitive 2N-th root (in particular ℂ): decode ∘ encode = id on ≤ N/2 slots, conjugate symmetry ⇒ real coefficients,
   slot order.

   PARTIAL (not expressible: Lean's `Float` is opaque to the kernel): everything that depends on `f64` rounding — the error of
   the double-precision FFT, `scale.log2()`, `log2().ceil()` in the bit-count computation, the rounding of `value * scale`,
   `1.0 / scale` and the limb products of decode.  The full claim is kept as `EncodeWithinDoubleBoundStatement` below; what is
   proved is the exact-arithmetic skeleton around it, and the double-precision clause is checked by the tolerance oracle of the
   correspondence harness (bound derived in lean/Driver/C12.lean). -/
namespace HC.C12
open HC Ckks Finset

/-! ### COEFF_TO_RNS — one rounded coefficient ↦ residues, on every path -/

/-- `f64::round` of a dyadic rational: exact for e ≥ 0, within 1/2 otherwise -/
theorem round_dyadic : type_of% @HC.roundDyadic_spec := @HC.roundDyadic_spec

/-- whichever path the bit count selects, under that path's selection condition (|c| < 2^64 / < 2^128 / < 2^(64·size), the
    last one needing at least two moduli) the result is (c mod q_j)_j — for EVERY integer c, negative ones included -/
theorem coeff_to_rns {b : RNSBase} (hb : b.WF) {bits : Nat} {c : Int}
    (h64 : bits ≤ 64 → c.natAbs < 2^64) (h128 : 64 < bits → bits ≤ 128 → c.natAbs < 2^128)
    (hbig : 128 < bits → 1 < b.size ∧ c.natAbs < 2^(64 * b.size)) :
    ∃ rs, coeffToRns b bits c = .ok rs ∧ rs.size = b.size ∧ ∀ i, i < b.size → rs.getD i 0 = c12_res c (b.q i).value :=
  HC.coeffToRns_spec hb h64 h128 hbig

theorem path64 : type_of% @HC.path64_spec := @HC.path64_spec
theorem path128 : type_of% @HC.path128_spec := @HC.path128_spec
theorem pathBig : type_of% @HC.pathBig_spec := @HC.pathBig_spec
/-- the selection `bit count ≤ 64` admits |c| = 2^64, where the saturating cast loses exactly 1 (covered by the oracle's tolerance) -/
theorem path64_saturated : type_of% @HC.path64_saturated := @HC.path64_saturated

/-! ### I64_SINGLE -/

/-- residues of v for every `i64` v (repaired form `negate(reduce(|v|))`) -/
theorem i64_single {qs : Array Modulus} (hq : ∀ i, i < qs.size → (qs.getD i ⟨0,0,0,0,0⟩).WF) {v : Int}
    (hv : -2^63 ≤ v ∧ v < 2^63) :
    ∃ rs, i64Residues qs v = .ok rs ∧ rs.size = qs.size ∧
      ∀ i, i < qs.size → rs.getD i 0 = c12_res v (qs.getD i ⟨0,0,0,0,0⟩).value := HC.i64Residues_spec hq hv

/-- the whole function: refusal exactly when bits(|v|) + 2 ≥ total bits, else every coefficient of component j is v mod q_j
    (the NTT form of the constant polynomial v) -/
theorem i64_single_encode : type_of% @HC.encodeI64Single_spec := @HC.encodeI64Single_spec

/-- the formula of the pinned tree, `reduce(q.wrapping_sub(-v))`, is wrong: v = −2^35, q = 1073479681 -/
theorem i64_pinned_formula_wrong : type_of% @HC.i64_pinned_formula_wrong := @HC.i64_pinned_formula_wrong

/-! ### DECODE_LIFT -/

/-- the limb loop's numerator is the centred lift of the composed value x < Q -/
theorem decode_lift {size Q x : Nat} (hQ : Q < 2^(64 * size)) (hx : x < Q) :
    (decodeFold size Q (upperHalfThreshold Q) x).1 = if x ≥ (Q + 1) / 2 then (x : Int) - Q else (x : Int) :=
  HC.decodeFold_spec hQ hx

/-- it is congruent to x and of least absolute value (Q odd) -/
theorem decode_lift_centred : type_of% @HC.decodeFold_centred := @HC.decodeFold_centred
theorem decode_fold_abs : type_of% @HC.decodeFold_abs := @HC.decodeFold_abs
theorem limb_sum : type_of% @HC.limb_sum := @HC.limb_sum

/-- fold = c / scale in ℚ -/
theorem decode_value {size Q x : Nat} (hQ : Q < 2^(64 * size)) (hx : x < Q) (scale : ℚ) :
    decodeValue (decodeFold size Q (upperHalfThreshold Q) x).1 scale
      = ((if x ≥ (Q + 1) / 2 then (x : Int) - Q else (x : Int) : Int) : ℚ) / scale := by
  rw [HC.decodeFold_spec hQ hx]; rfl

/-! ### INDEX_MAP_PERM -/

theorem index_map_spec : type_of% @HC.indexMap_spec := @HC.indexMap_spec
/-- range, injective, surjective -/
theorem index_map_perm : type_of% @HC.indexMap_perm := @HC.indexMap_perm
theorem index_map_conj : type_of% @HC.indexMap_conj := @HC.indexMap_conj
theorem slot_exp_injective : type_of% @HC.c12_slotExp_injective := @HC.c12_slotExp_injective
theorem index_map_eq_batch : type_of% @HC.indexMap_eq_batch := @HC.indexMap_eq_batch

/-! ### GET_ROOT_INDEX -/

/-- abstract: any commutative *-ring, zeta^(m/4) = I, I² = −1, zeta·star zeta = 1 -/
theorem get_root_index : type_of% @HC.getRootSel_spec := @HC.getRootSel_spec
/-- over ℂ, on (re, im) pairs exactly as the code manipulates them, with exp(2πi·j/m) -/
theorem get_root_index_complex : type_of% @HC.get_root_index_complex := @HC.get_root_index_complex
theorem sel_complex : type_of% @HC.selVal_complex := @HC.selVal_complex
/-- `root_powers[j] = psi^brev(j)`, `inv_root_powers[j] = psi^-(brev(j−1)+1)`: the tables the network theorems need -/
theorem root_table : type_of% @HC.c12e_rootTable := @HC.c12e_rootTable
theorem inv_root_table : type_of% @HC.c12e_invRootTable := @HC.c12e_invRootTable

/-! ### EMBEDDING_EXACT -/
variable {K : Type} [CommRing K] [StarRing K]

theorem scatter_at : type_of% @HC.c12e_scatter_at := @HC.c12e_scatter_at
theorem scatter_conj : type_of% @HC.c12e_scatter_conj := @HC.c12e_scatter_conj
/-- generic tables (any N = 2^k ≥ 2) -/
theorem decode_encode : type_of% @HC.c12e_decode_encode := @HC.c12e_decode_encode
theorem encode_real : type_of% @HC.c12e_encode_real := @HC.c12e_encode_real
theorem decode_slot : type_of% @HC.c12e_decode_slot := @HC.c12e_decode_slot

/-- EMBEDDING_EXACT with the tables the model selects (N = 2^k ≥ 4; for N = 2 the code hard-wires i and −i):
    over any commutative *-ring K with ψ^(N/2) = I, I² = −1, ψ·star ψ = 1 (ℂ with ψ = exp(2πi/2N), `psi_complex`),
    N and the scale invertible, the scale real:
    (1) decode ∘ encode = id on ≤ N/2 slots (missing slots give 0),
    (2) conjugate symmetry ⇒ every coefficient is fixed by star (real),
    (3) slot i of decode is the evaluation at ψ^(3^i) — the library's slot order. -/
theorem embedding_exact (k : Nat) (hk : 2 ≤ k) (ψ I : K) (hI : ψ^(2 * 2^k / 4) = I) (hI2 : I * I = -1) (hu : ψ * star ψ = 1)
    (Ninv s sinv : K) (hN : Ninv * 2^k = 1) (hs : s * sinv = 1) (hsr : star s = s) (v : Nat → K) (len : Nat) (hlen : len ≤ 2^k/2) :
    (∀ i, i < 2^k/2 →
      c12_decodeExact k (c12_rootTable k ψ I) sinv (c12_encodeExact k (c12_invRootTable k ψ I) s Ninv v len) i
        = if i < len then v i else 0) ∧
    (∀ j, j < 2^k →
      star (c12_encodeExact k (c12_invRootTable k ψ I) s Ninv v len j) = c12_encodeExact k (c12_invRootTable k ψ I) s Ninv v len j) ∧
    (∀ (c : Nat → K) i, i < 2^k/2 →
      c12_decodeExact k (c12_rootTable k ψ I) sinv c i = ∑ j ∈ range (2^k), (c j * sinv) * (ψ^(3^i))^j) := by
  have hψ := c12e_psi_pow k hk ψ I hI hI2
  have hr : ∀ j, 0 < j → j < 2^k → c12_rootTable k ψ I j = ψ^(brev k j) := fun j _ _ => c12e_rootTable k hk ψ I hI hI2 hu j
  have hir : ∀ p, 0 < p → p < 2^k → c12_invRootTable k ψ I p = (star ψ)^(brev k (p-1) + 1) :=
    fun p _ _ => c12e_invRootTable k hk ψ I hI hI2 hu p
  refine ⟨?_, ?_, ?_⟩
  · exact c12e_decode_encode k (by omega) ψ hu _ _ hr hir Ninv s sinv hN hs v len hlen
  · exact c12e_encode_real k (by omega) ψ hψ hu _ _ hr hir Ninv s hN hsr v len hlen
  · intro c i hi
    exact (c12e_decode_slot k (by omega) ψ hψ hu _ hr sinv c i hi).1

/-- ψ = exp(2πi/2N) ∈ ℂ has ψ^N = −1 and unit modulus -/
theorem psi_complex : type_of% @HC.psi_complex := @HC.psi_complex

/-- the instance over ℂ: ψ = exp(2πi/2N), I = Complex.I, real positive scale σ -/
theorem embedding_exact_complex (k : Nat) (hk : 2 ≤ k) (σ : ℝ) (hσ : σ ≠ 0) (v : Nat → ℂ) (len : Nat) (hlen : len ≤ 2^k/2) :
    let ψ := Complex.exp (2 * Real.pi * Complex.I / ((2 ^ (k+1) : ℕ) : ℂ))
    let enc := c12_encodeExact k (c12_invRootTable k ψ Complex.I) (σ : ℂ) (1 / 2^k) v len
    (∀ i, i < 2^k/2 → c12_decodeExact k (c12_rootTable k ψ Complex.I) (1 / (σ : ℂ)) enc i = if i < len then v i else 0) ∧
    (∀ j, j < 2^k → (enc j).im = 0) := by
  intro ψ enc
  obtain ⟨s0, _, _, _⟩ := HC.get_root_index_complex (k+1) (by omega) 0   -- (non-vacuity of the ℂ instance of get_root)
  have hpow : ∀ n : ℕ, ψ ^ n = Complex.exp (n * (2 * Real.pi * Complex.I / ((2 ^ (k+1) : ℕ) : ℂ))) := fun n => c12d_pow _ n
  have h2 : ((2 ^ k : ℕ) : ℂ) ≠ 0 := by exact_mod_cast (pow_pos (by norm_num : 0 < 2) k).ne'
  have hI : ψ ^ (2 * 2^k / 4) = Complex.I := by
    obtain ⟨u, rfl⟩ : ∃ u, k = u + 1 := ⟨k - 1, by omega⟩
    have h4 : 2 * 2 ^ (u + 1) / 4 = 2 ^ u := by rw [pow_succ]; omega
    rw [h4, hpow]
    refine Eq.trans ?_ Complex.exp_pi_div_two_mul_I
    congr 1
    have h3 : ((2 ^ u : ℕ) : ℂ) ≠ 0 := by exact_mod_cast (pow_pos (by norm_num : 0 < 2) u).ne'
    push_cast
    push_cast at h3
    field_simp
    ring
  have hu : ψ * star ψ = 1 := by
    have := c12d_unit (2 * Real.pi / ((2 ^ (k+1) : ℕ) : ℝ))
    have e : 2 * (Real.pi : ℂ) * Complex.I / ((2 ^ (k+1) : ℕ) : ℂ) = ((2 * Real.pi / ((2 ^ (k+1) : ℕ) : ℝ) : ℝ) : ℂ) * Complex.I := by
      push_cast; ring
    show Complex.exp _ * star (Complex.exp _) = 1
    rw [e]; exact this
  have hN : (1 / 2^k : ℂ) * 2^k = 1 := by
    push_cast at h2; field_simp
  have hs : (σ : ℂ) * (1 / (σ : ℂ)) = 1 := by
    have : (σ : ℂ) ≠ 0 := by exact_mod_cast hσ
    field_simp
  have hsr : star (σ : ℂ) = σ := by rw [Complex.star_def, Complex.conj_ofReal]
  obtain ⟨a, b, _⟩ := embedding_exact k hk ψ Complex.I hI Complex.I_mul_I hu (1 / 2^k) (σ : ℂ) (1 / (σ : ℂ)) hN hs hsr v len hlen
  refine ⟨a, fun j hj => ?_⟩
  have := b j hj
  rw [Complex.star_def] at this
  exact Complex.conj_eq_iff_im.mp this

/-! ### the part that is NOT provable here (floating point): kept as a statement -/

/-- The double-precision clause of the property: for a hypothetical function `fl` describing what the `f64` FFT of
    `encode_internal_c64_array` returns for the coefficient j (before rounding), the property asks for a bound
    |fl − exact| ≤ bound(k, scale, v).  Lean's kernel has no model of IEEE arithmetic for `Float`, so neither `fl` can be
    defined from the code nor the bound proved; the harness measures it on every case against the big-integer oracle
    (tolerance (10k+3)·2^-53·scale·(2Σ|v_i|)/N + 3/2, derivation in lean/Driver/C12.lean). -/
def EncodeWithinDoubleBoundStatement : Prop :=
  ∀ (k : Nat) (fl exact : Nat → ℚ) (bound : ℚ), (∀ j, j < 2^k → |fl j - exact j| ≤ bound) →
    ∀ j, j < 2^k → ∃ c : Int, |(c : ℚ) - exact j| ≤ bound + 1/2 ∧ |(c : ℚ) - fl j| ≤ 1/2

/-- the integer part of that clause IS provable: rounding a value within `bound` of the exact one gives an integer within
    bound + 1/2 — this is all the arithmetic the tolerance oracle relies on -/
theorem encode_within_bound_partial : EncodeWithinDoubleBoundStatement := by
  intro k fl exact bound h j hj
  refine ⟨round (fl j), ?_, ?_⟩
  · have h1 := abs_sub_round (fl j)
    have h2 := h j hj
    calc |(round (fl j) : ℚ) - exact j| = |((round (fl j) : ℚ) - fl j) + (fl j - exact j)| := by ring_nf
      _ ≤ |(round (fl j) : ℚ) - fl j| + |fl j - exact j| := abs_add_le _ _
      _ ≤ 1/2 + bound := by
          have : |(round (fl j) : ℚ) - fl j| ≤ 1/2 := by rw [abs_sub_comm]; exact h1
          linarith
      _ = bound + 1/2 := by ring
  · rw [abs_sub_comm]; exact abs_sub_round (fl j)

/-! ### translator tie (phase 4e): the encoder's FFT is the SAME generic handler `DWTHandler` (src/util/dwthandler.rs) that serves the NTT,
     instantiated with complex arithmetic.  The functions generated from its source (Gen/DwtFns.lean) equal the model network
     `runFwdA` / `runInvA` for ANY arithmetic whose operations are total (f64 / complex operations never panic): `encode` calls
     `transform_from_rev(.., Some(&fix))`, `decode` calls `transform_to_rev(.., None)`.  (Proofs/GenDwt.lean; the numeric content of the
     double-precision instance stays with the tolerance oracle, see above.) -/
theorem gen_fft_transform_to_rev_eq {α ρ σ : Type} [Inhabited α] (A : Arith α ρ) (ms : α → σ → α) (k : Nat) (hk : k < 64) (vals : List α)
    (hv : vals.length = 2^k) (roots : List ρ) (rf : Nat → ρ) (hrf : ∀ j, j < 2^k → roots[j]? = some (rf j)) (sc : Option σ) :
    GenD.transform_to_rev (gd_total A ms) vals k roots sc = .ok (gd_scaled ms sc (runFwdA A k rf vals.toArray k).toList) :=
  HC.gd_transform_to_rev_total A ms k hk vals hv roots rf hrf sc

theorem gen_fft_transform_from_rev_eq {α ρ σ : Type} [Inhabited α] (A : Arith α ρ) (ms : α → σ → α) (k : Nat) (hk : k < 64) (vals : List α)
    (hv : vals.length = 2^k) (roots : List ρ) (rf : Nat → ρ) (hrf : ∀ j, j < 2^k → roots[j]? = some (rf j)) (sc : Option σ) :
    GenD.transform_from_rev (gd_total A ms) vals k roots sc = .ok (gd_scaled ms sc (runInvA A k rf vals.toArray k).toList) :=
  HC.gd_transform_from_rev_total A ms k hk vals hv roots rf hrf sc

/-! ### translator tie (phase 4k, "encoder mode"): the INTEGER side of `encode_internal_c64_array` / `_f64_polynomial` / `_f64_single` /
     `_i64_single` is regenerated from src/ckks_encoder.rs into Gen/CkksFns.lean (`HC.GenK`): the maximum scan giving the bit count, the refusal,
     the three-way path selection, the sign branches and the reduction loops; floats enter through the documented readings only
     (tools/rs2lean_ckks.py, notes/work7-Y.md).  Proved about the GENERATED code (Proofs/GenCkks.lean): -/

/-- ≤ 64-bit path, as generated (both sign branches): `negate_u64_mod(reduce(|c| as u64))` resp. `reduce(|c| as u64)` is c mod q for EVERY
    integer c with |c| < 2^64, negatives (and negative multiples of q: residue 0) included -/
theorem gen_path64_element : type_of% @HC.gk_elem64 := @HC.gk_elem64
/-- ≤ 128-bit path, as generated: the two-word split `[|c| % 2^64, |c| / 2^64]`, `barrett_reduce_u128`, `negate_u64_mod` when negative -/
theorem gen_path128_element : type_of% @HC.gk_elem128 := @HC.gk_elem128
/-- the scan the generated code performs (`maxAll`: ALL entries) bounds EVERY per-coefficient bit count -/
theorem gen_max_scan_all : type_of% @HC.gk_maxAll_spec := @HC.gk_maxAll_spec
/-- the generated functions refuse as soon as (max over all coefficients) + 1 ≥ total bit count -/
theorem gen_c64_array_refuses : type_of% @HC.gk_c64_array_refuses := @HC.gk_c64_array_refuses
theorem gen_f64_polynomial_refuses : type_of% @HC.gk_f64_polynomial_refuses := @HC.gk_f64_polynomial_refuses
/-- the `[component][coefficient]` layout of the generated nested loops: a loop storing `f j` at `i + j·N` fills row i only; all rows -/
theorem gen_row_layout : type_of% @HC.gk_row_spec := @HC.gk_row_spec
theorem gen_rows_layout : type_of% @HC.gk_rows_spec := @HC.gk_rows_spec

/-- DISPATCH EQUALITY (definitional): the generated `encode_internal_c64_array` / `encode_internal_f64_polynomial` are guards, the scan over ALL
    entries, the refusal, resize (+ zero-fill, before the scan, for the polynomial function), then `gkStageRaw`: rows `gkRow64` if bits ≤ 64, else
    `gkRow128` if bits ≤ 128, else `gkRowBig` — the row bodies being the generated text.  A swap of the thresholds, a different comparison or a
    different row body breaks these `rfl`s. -/
theorem gen_c64_array_dispatch : type_of% @HC.gk_c64_array_unfold := @HC.gk_c64_array_unfold
theorem gen_f64_polynomial_dispatch : type_of% @HC.gk_f64_polynomial_unfold := @HC.gk_f64_polynomial_unfold
/-- generated rows: row i of the buffer receives c_i mod q_j for every j (both sign branches), the other rows are untouched -/
theorem gen_row64 : type_of% @HC.gkRow64_spec := @HC.gkRow64_spec
theorem gen_row128 : type_of% @HC.gkRow128_spec := @HC.gkRow128_spec
/-- INTEGER STAGE, ≤ 64-bit and ≤ 128-bit paths (`_partial`: the multi-word path is not covered; full statement below): the generated
    `encode_internal_c64_array` computes, for every coefficient, the MODEL's `Ckks.coeffToRns base (mb + 1) c_i` — the model's dispatch at the
    bit count the scan over all coefficients gives — laid out at i + j·N (= c_i mod q_j, negatives included), and hands that buffer to `ntt_p`.
    Hypotheses: `b.WF` (what the context construction establishes), N = 2·slots, N·k < 2^64 (buffer size is a usize), `cb` / `rc` have N
    entries (the FFT buffer), |c_i| ≤ 2^cb[i] (the meaning of `ceil(log2(max(|x_i|,1)))` for c_i = round(x_i)), scan result mb, mb + 1 below the
    total bit count (else refusal: `gen_c64_array_refuses`) and ≤ 128. -/
theorem gen_c64_array_integer_stage_partial : type_of% @HC.gk_c64_array_integer_stage_partial := @HC.gk_c64_array_integer_stage_partial
/-- the same for `encode_internal_f64_polynomial` (nvalues ≤ N coefficients; every other position of the zero-filled buffer is 0) -/
theorem gen_f64_polynomial_integer_stage_partial : type_of% @HC.gk_f64_polynomial_integer_stage_partial := @HC.gk_f64_polynomial_integer_stage_partial
/-- `encode_internal_i64_single` as generated, for EVERY i64 (i64::MIN, negative multiples of a prime included): refuses exactly when
    bits(|v|) + 2 ≥ total bits, otherwise component j is filled with the model's `i64Residues` entry = v mod q_j -/
theorem gen_i64_single : type_of% @HC.gk_i64_single_spec := @HC.gk_i64_single_spec
theorem gen_chunks_layout : type_of% @HC.gk_chunks_spec := @HC.gk_chunks_spec

/-- FULL statement (NOT proved; `gen_c64_array_integer_stage_partial` covers bit counts ≤ 128; missing: the multi-word path — its `while` limb loop and the tie of the
    `decompose` parameter to `RNSBase.decompose`): for a valid CKKS level with well-formed moduli, N = 2·slots coefficients whose scan bit
    count is below the total bit count, the generated `encode_internal_c64_array` hands `ntt_p` a buffer with `c_i mod q_j` at `i + j·N`. -/
def GenC64ArrayStatement : Prop :=
  ∀ (moduli : List Modulus) (cc slots nvalues total_bits : Nat) (cb : List Nat) (rc : List Int)
    (decompose : List Nat → R (List Nat)) (nttP : List Nat → Nat → R (List Nat)) (dest : List Nat) (mb : Nat),
    (∀ j (h : j < moduli.length), moduli[j].WF) → slots * 2 = cc → 0 < cc → cc * moduli.length < 2^64 → nvalues ≤ slots →
    cb.length = cc → rc.length = cc → (∀ i (h1 : i < cb.length) (h2 : i < rc.length), rc[i].natAbs ≤ 2^cb[i]) →
    GenK.maxAll cb = .ok mb → mb + 1 < total_bits → total_bits ≤ 64 * moduli.length →
    (∀ a ws, a < 2^(64 * moduli.length) → ws = limbsOf moduli.length a →
      decompose ws = .ok ((List.range moduli.length).map fun j => a % (moduli.getD j default).value)) →
    ∃ d', d'.length = cc * moduli.length ∧
      (∀ i j (hi : i < rc.length) (hj : j < moduli.length), d'[i + j * cc]? = some (c12_res rc[i] moduli[j].value)) ∧
      GenK.encode_internal_c64_array true true nvalues slots true total_bits moduli cc moduli.length cb rc decompose nttP dest = nttP d' cc

/-! ### non-vacuity -/
/-- a negative coefficient crossing 2^64: the generated two-word split of −(2^64 + 5) is [5, 1]; its residue mod 7 -/
example : GenK.fToU64 (GenK.fmod64 (GenK.fabs (-(2^64 + 5)))) = 5 ∧ GenK.fToU64 (GenK.fdiv64 (GenK.fabs (-(2^64 + 5)))) = 1 := by decide
/-- … and 2^64 + 5 is a multiple of 7: the negative branch must give 0 (the zero case of `negate_u64_mod`), not 7 -/
example : c12_res (-(2^64 + 5)) 7 = 0 ∧ c12_res (-(2^64 + 6)) 7 = 6 := by decide
/-- a magnitude between two primes of a non-monotone chain (101, 97): 100 is reduced mod 97 but not mod 101; −97 gives residue 0 -/
example : c12_res 100 101 = 100 ∧ c12_res 100 97 = 3 ∧ c12_res (-97) 97 = 0 := by decide
/-- i64::MIN and a negative multiple of a prime satisfy the hypotheses of `gen_i64_single` -/
example : (-2^63 : Int) ≤ -2^63 ∧ (-2^63 : Int) < 2^63 ∧ c12_res (-2^63) 97 = 18 ∧ c12_res (-3 * 97) 97 = 0 := by decide
/-- the scan: the dominant coefficient sits in the second half; a scan of the first half would give 3, not 70 -/
example : GenK.maxAll [3, 1, 70, 2] = .ok 70 ∧ GenK.maxPrefix [3, 1, 70, 2] 2 = .ok 3 := by decide
example : c12_res (-5) 7 = 2 := by decide
example : getRootSel 8 3 3 = .ok ⟨1, false, true, false⟩ := by decide
example : (indexMap 2).toList = [0, 2, 3, 1] := by decide
/-- q = 7 fits every hypothesis of `decode_lift` with size = 1: x = 5 ≥ 4 lifts to −2 -/
example : (decodeFold 1 7 (upperHalfThreshold 7) 5).1 = -2 := by decide

end HC.C12
