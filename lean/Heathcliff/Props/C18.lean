import Heathcliff.Proofs.C18
import Heathcliff.Proofs.GenMpRlk
import Mathlib.Tactic.Choose

/- C18 — multiparty protocols agree across parties and message orders, keep plaintexts.
   Property theorems only; helper lemmas are in Heathcliff/Proofs/C18.lean.

   Reading guide.  `revealRun o count id own d` is one party's whole use of `PolynomialRevelationProtocol`: a fresh object holding
   the party's own polynomial, the messages `d = [(sender, polynomial), …]` fed to `receive` IN ARRIVAL ORDER, then `finish`.
   The round functions (`pkShare`, `rlkRound1/2`, `ksShare`, `decShare`, `pksShare`, `c2sShare`, `s2cShare`) are the code's
   formulas, written once over the ring operations (`Ops`); here they are instantiated with an arbitrary commutative ring `A`
   (`Ops.ring`; the NTT is a ring isomorphism, so representation changes are the identity at this level — the RNS/NTT instance
   is tied to the Rust code bit for bit and to exact schoolbook arithmetic in Z_q[X]/(X^N+1) by the correspondence harness).
   `c18_nz sch t e` is the noise term as the code adds it: `t·e` in BGV, `e` otherwise.  Parties are 0..n-1, sums are over `range n`. -/
namespace HC.C18
open HC HC.MP Finset

variable {α : Type} {A : Type} [CommRing A]

/-! ## finish: order independence, agreement, refusal -/

/-- ORDER INDEPENDENCE (any ring operations, any party): two delivery histories that are permutations of each other (each sender
    at most once) leave the party with the same outcome of `finish` — result or refusal. -/
theorem finish_order_independent (o : Ops α) (count id : Nat) (own : α) (d1 d2 : List (Nat × α))
    (hp : d1.Perm d2) (hn : (d1.map Prod.fst).Nodup) :
    revealRun o count id own d1 = revealRun o count id own d2 := by
  unfold revealRun
  rw [c18_receiveAll_perm hp hn]

/-- the fold itself is insensitive to the order of the slots (commutative fold): permuting the filled slots does not change the sum.
    (The code adds in slot order, and different parties skip different slots; this is why they still agree.) -/
theorem finish_fold_perm (l1 l2 : List (Option A)) (hp : l1.Perm l2) (acc : A) :
    sumSlots (Ops.ring (α := A)).add acc l1 = sumSlots (Ops.ring (α := A)).add acc l2 := by
  rw [c18_sumSlots_ring, c18_sumSlots_ring, (hp.filterMap _).sum_eq]

/-- EVERY PARTY COMPUTES THE SAME SUM: party `id` broadcasts `msg id`; once the messages of all other parties have arrived
    (any order, repetitions of the same message allowed) `finish` returns Σ_j msg j — the same value for every party. -/
theorem finish_sum (count id : Nat) (hid : id < count) (msg : Nat → A) (d : List (Nat × A))
    (hr : ∀ x ∈ d, x.1 < count ∧ x.1 ≠ id ∧ x.2 = msg x.1)
    (hall : ∀ j, j < count → j ≠ id → j ∈ d.map Prod.fst) :
    revealRun (Ops.ring (α := A)) count id (msg id) d = .ok (∑ j ∈ range count, msg j) :=
  c18_run_sum count id hid msg d hr hall

theorem all_parties_agree (count i k : Nat) (hi : i < count) (hk : k < count) (msg : Nat → A) (di dk : List (Nat × A))
    (hri : ∀ x ∈ di, x.1 < count ∧ x.1 ≠ i ∧ x.2 = msg x.1) (hai : ∀ j, j < count → j ≠ i → j ∈ di.map Prod.fst)
    (hrk : ∀ x ∈ dk, x.1 < count ∧ x.1 ≠ k ∧ x.2 = msg x.1) (hak : ∀ j, j < count → j ≠ k → j ∈ dk.map Prod.fst) :
    revealRun (Ops.ring (α := A)) count i (msg i) di = revealRun (Ops.ring (α := A)) count k (msg k) dk := by
  rw [finish_sum count i hi msg di hri hai, finish_sum count k hk msg dk hrk hak]

/-- REFUSAL (any ring operations): if the message of some other party `j` has not arrived, `finish` refuses. -/
theorem finish_refuses_incomplete (o : Ops α) (count id : Nat) (own : α) (d : List (Nat × α))
    (hr : ∀ x ∈ d, x.1 < count) (j : Nat) (hj : j < count) (hji : j ≠ id) (hmiss : j ∉ d.map Prod.fst) :
    revealRun o count id own d = .error .refused :=
  c18_run_incomplete o count id own d hr j hj hji hmiss

/-- non-vacuity: three parties, party 1 receives 2 then 0, or 0 then 2: same sum; without party 2's message: refusal -/
example : revealRun (Ops.ring (α := ℤ)) 3 1 10 [(2, 100), (0, 1)] = .ok 111 ∧
          revealRun (Ops.ring (α := ℤ)) 3 1 10 [(0, 1), (2, 100)] = .ok 111 ∧
          revealRun (Ops.ring (α := ℤ)) 3 1 10 [(0, 1)] = .error .refused := by decide

/-! ## collective keys -/

/-- COLLECTIVE PUBLIC KEY: the sum of the broadcast shares p0_i = -(s_i·a + e_i) is exactly the single-party share for the secret
    Σ s_i with noise Σ e_i, and (Σ p0_i, a) satisfies the public-key relation p0 + a·s = -noise. -/
theorem collective_pk (n : Nat) (sch : Scheme) (t : Nat) (s e : Nat → A) (a : A) :
    ∃ p0 : Nat → A, (∀ i, pkShare Ops.ring sch t (s i) a (e i) = .ok (p0 i)) ∧
      pkShare Ops.ring sch t (∑ i ∈ range n, s i) a (∑ i ∈ range n, e i) = .ok (∑ i ∈ range n, p0 i) ∧
      (∑ i ∈ range n, p0 i) + a * (∑ i ∈ range n, s i) = - c18_nz sch t (∑ i ∈ range n, e i) := by
  refine ⟨fun i => -(s i * a + c18_nz sch t (e i)), fun i => c18_pkShare sch t (s i) a (e i), ?_, ?_⟩
  · rw [c18_pkShare, Finset.sum_neg_distrib, c18_sum_mul_add, c18_nz_sum]
  · rw [Finset.sum_neg_distrib, c18_sum_mul_add, c18_nz_sum]; ring

/-- … and every party obtains this key: party `id`, having received all other shares in any order, finishes with Σ p0_i. -/
theorem collective_pk_all_parties (n id : Nat) (hid : id < n) (sch : Scheme) (t : Nat) (s e : Nat → A) (a : A)
    (d : List (Nat × A))
    (hr : ∀ x ∈ d, x.1 < n ∧ x.1 ≠ id ∧ pkShare Ops.ring sch t (s x.1) a (e x.1) = .ok x.2)
    (hall : ∀ j, j < n → j ≠ id → j ∈ d.map Prod.fst) :
    ∃ own, pkShare Ops.ring sch t (s id) a (e id) = .ok own ∧
      (revealRun (Ops.ring (α := A)) n id own d).toOption
        = (pkShare Ops.ring sch t (∑ i ∈ range n, s i) a (∑ i ∈ range n, e i)).toOption := by
  obtain ⟨p0, h1, h2, _⟩ := collective_pk n sch t s e a
  refine ⟨p0 id, h1 id, ?_⟩
  rw [h2, finish_sum n id hid p0 d (fun x hx => ?_) hall]
  obtain ⟨ha, hb, hc⟩ := hr x hx
  refine ⟨ha, hb, ?_⟩
  rw [h1 x.1] at hc
  exact (Except.ok.inj hc).symm

/-- COLLECTIVE RELINEARISATION KEY (two rounds, one decomposition index with gadget element `w`, common `a`):
    with h0 = Σ h0_i, h1 = Σ h1_i of round 1 and h0' = Σ h0'_i, h1' = Σ h1'_i of round 2 (computed from the summed h0, h1),
    the assembled key (k0, k1) = (h0' + h1', h1) satisfies the EXACT identity
        k0 + k1·s = s²·w + ( s·E0 + u·E1 + E2 + E3 ),     s = Σ s_i, u = Σ u_i, Ej = noise(Σ e_j,i):
    it is a key-switching key for s² under s whose noise is the small polynomial in brackets. -/
theorem collective_rlk (n : Nat) (sch : Scheme) (t : Nat) (s u e0 e1 e2 e3 : Nat → A) (a w : A) :
    ∃ (r1 r2 : Nat → A × A) (k : A × A),
      (∀ i, rlkRound1 Ops.ring sch t (s i) a (u i) (e0 i) (e1 i) w = .ok (r1 i)) ∧
      (∀ i, rlkRound2 Ops.ring sch t (s i) (u i) (∑ j ∈ range n, (r1 j).1) (∑ j ∈ range n, (r1 j).2) (e2 i) (e3 i) = .ok (r2 i)) ∧
      rlkFinish Ops.ring (∑ i ∈ range n, (r2 i).1) (∑ i ∈ range n, (r2 i).2) (∑ j ∈ range n, (r1 j).2) = .ok k ∧
      k.1 + k.2 * (∑ i ∈ range n, s i)
        = (∑ i ∈ range n, s i) * (∑ i ∈ range n, s i) * w
          + ((∑ i ∈ range n, s i) * c18_nz sch t (∑ i ∈ range n, e0 i) + (∑ i ∈ range n, u i) * c18_nz sch t (∑ i ∈ range n, e1 i)
             + c18_nz sch t (∑ i ∈ range n, e2 i) + c18_nz sch t (∑ i ∈ range n, e3 i)) := by
  refine ⟨fun i => (-(u i * a) + s i * w + c18_nz sch t (e0 i), s i * a + c18_nz sch t (e1 i)),
          fun i => (s i * (∑ j ∈ range n, (-(u j * a) + s j * w + c18_nz sch t (e0 j))) + c18_nz sch t (e2 i),
                    (u i - s i) * (∑ j ∈ range n, (s j * a + c18_nz sch t (e1 j))) + c18_nz sch t (e3 i)),
          _, fun i => c18_rlkRound1 .., fun i => c18_rlkRound2 .., c18_rlkFinish .., ?_⟩
  simp only
  have h0 : ∑ j ∈ range n, (-(u j * a) + s j * w + c18_nz sch t (e0 j))
      = -((∑ j ∈ range n, u j) * a) + (∑ j ∈ range n, s j) * w + c18_nz sch t (∑ j ∈ range n, e0 j) := by
    rw [Finset.sum_add_distrib, Finset.sum_add_distrib, Finset.sum_neg_distrib, ← Finset.sum_mul, ← Finset.sum_mul, c18_nz_sum]
  have h1 : ∑ j ∈ range n, (s j * a + c18_nz sch t (e1 j)) = (∑ j ∈ range n, s j) * a + c18_nz sch t (∑ j ∈ range n, e1 j) := by
    rw [c18_sum_mul_add, c18_nz_sum]
  rw [h0, h1, c18_sum_mul_add, c18_nz_sum, c18_sum_mul_add, c18_nz_sum, Finset.sum_sub_distrib]
  ring

/-! ## protocols on ciphertexts: new phase = old phase + Σ noise -/

/-- COLLECTIVE DECRYPTION: c0 + Σ h_i = (c0 + c1·s) + noise(Σ e_i), s = Σ s_i -/
theorem decrypt_sum (n : Nat) (sch : Scheme) (t : Nat) (ntt : Bool) (s e : Nat → A) (c0 c1 : A) :
    ∃ h : Nat → A, (∀ i, decShare Ops.ring sch t ntt (s i) c1 (e i) = .ok (h i)) ∧
      c0 + ∑ i ∈ range n, h i = (c0 + c1 * ∑ i ∈ range n, s i) + c18_nz sch t (∑ i ∈ range n, e i) := by
  refine ⟨fun i => s i * c1 + c18_nz sch t (e i), fun i => c18_decShare .., ?_⟩
  rw [c18_sum_mul_add, c18_nz_sum]; ring

/-- KEY SWITCH to s' = Σ s'_i: the new ciphertext (c0 + Σ h_i, c1) has, under s', the old phase under s plus noise(Σ e_i) -/
theorem keyswitch_sum (n : Nat) (sch : Scheme) (t : Nat) (ntt : Bool) (s s' e : Nat → A) (c0 c1 : A) :
    ∃ h : Nat → A, (∀ i, ksShare Ops.ring sch t ntt (s i) (s' i) c1 (e i) = .ok (h i)) ∧
      (c0 + ∑ i ∈ range n, h i) + c1 * (∑ i ∈ range n, s' i)
        = (c0 + c1 * ∑ i ∈ range n, s i) + c18_nz sch t (∑ i ∈ range n, e i) := by
  refine ⟨fun i => (s i - s' i) * c1 + c18_nz sch t (e i), fun i => c18_ksShare .., ?_⟩
  rw [c18_sum_mul_add, c18_nz_sum, Finset.sum_sub_distrib]; ring

/-- PUBLIC-KEY SWITCH to the key (p0', p1') of a receiver with secret `sk'`: the new ciphertext (c0 + Σ h0_i, Σ h1_i) has, under
    sk', the old phase plus u·(p0' + p1'·sk') + E0 + E1·sk' (u = Σ u_i); p0' + p1'·sk' is minus the receiver's key noise. -/
theorem pks_sum (n : Nat) (sch : Scheme) (t : Nat) (ntt : Bool) (s u e0 e1 : Nat → A) (c0 c1 p0 p1 sk' : A) :
    ∃ h : Nat → A × A, (∀ i, pksShare Ops.ring sch t ntt (s i) c1 p0 p1 (u i) (e0 i) (e1 i) = .ok (h i)) ∧
      (c0 + ∑ i ∈ range n, (h i).1) + (∑ i ∈ range n, (h i).2) * sk'
        = (c0 + c1 * ∑ i ∈ range n, s i) + (∑ i ∈ range n, u i) * (p0 + p1 * sk')
          + c18_nz sch t (∑ i ∈ range n, e0 i) + c18_nz sch t (∑ i ∈ range n, e1 i) * sk' := by
  refine ⟨fun i => (s i * c1 + u i * p0 + c18_nz sch t (e0 i), p1 * u i + c18_nz sch t (e1 i)), fun i => c18_pksShare .., ?_⟩
  simp only
  rw [Finset.sum_add_distrib, Finset.sum_add_distrib, Finset.sum_add_distrib, ← Finset.sum_mul, ← Finset.sum_mul,
      ← Finset.mul_sum, c18_nz_sum, c18_nz_sum]
  ring

/-! ## shares -/

/-- CIPHERTEXT → SHARES (aggregator = party 0; `P i` = the scaled plaintext of share i, so party i ≠ 0 adds `-P i`):
    the phase party 0 decodes is (c0 + c1·s) + noise − Σ_{i≠0} P_i -/
theorem c2s_phase (n : Nat) (sch : Scheme) (t : Nat) (ntt : Bool) (s e P : Nat → A) (c0 c1 : A) :
    ∃ h : Nat → A, (∀ i, c2sShare Ops.ring sch t ntt i (s i) c1 (e i) (-(P i)) = .ok (h i)) ∧
      c0 + ∑ i ∈ range n, h i
        = (c0 + c1 * ∑ i ∈ range n, s i) + c18_nz sch t (∑ i ∈ range n, e i) - ∑ i ∈ range n, (if i ≠ 0 then P i else 0) := by
  refine ⟨fun i => s i * c1 + c18_nz sch t (e i) + (if i ≠ 0 then -(P i) else 0), fun i => c18_c2sShare .., ?_⟩
  rw [Finset.sum_add_distrib, c18_sum_mul_add, c18_nz_sum]
  have : ∑ i ∈ range n, (if i ≠ 0 then -(P i) else 0) = -∑ i ∈ range n, (if i ≠ 0 then P i else 0) := by
    rw [← Finset.sum_neg_distrib]; apply Finset.sum_congr rfl; intro i _; split <;> simp
  rw [this]; ring

/-- SHARES → CIPHERTEXT, result of party 0 (own ciphertext (P 0, a), h_i = -s_i·a + e_i (+ P_i for i ≠ 0)):
    (P 0 + Σ h_i) + a·s = Σ_i P_i + noise — an encryption of the sum of all shares under s = Σ s_i -/
theorem s2c_phase (n : Nat) (hn : 0 < n) (sch : Scheme) (t : Nat) (ntt : Bool) (s e P : Nat → A) (a : A) :
    ∃ h : Nat → A, (∀ i, s2cShare Ops.ring sch t ntt i (s i) a (e i) (P i) = .ok (h i)) ∧
      (P 0 + ∑ i ∈ range n, h i) + a * (∑ i ∈ range n, s i)
        = ∑ i ∈ range n, P i + c18_nz sch t (∑ i ∈ range n, e i) := by
  refine ⟨fun i => -(s i) * a + c18_nz sch t (e i) + (if i ≠ 0 then P i else 0), fun i => c18_s2cShare .., ?_⟩
  rw [Finset.sum_add_distrib, c18_sum_mul_add, c18_nz_sum, Finset.sum_neg_distrib]
  have : P 0 + ∑ i ∈ range n, (if i ≠ 0 then P i else 0) = ∑ i ∈ range n, P i := by
    have h0 : ∀ i ∈ range n, (if i ≠ 0 then P i else 0) = P i - (if i = 0 then P 0 else 0) := by
      intro i _; by_cases hi : i = 0 <;> simp [hi]
    rw [Finset.sum_congr rfl h0, Finset.sum_sub_distrib, Finset.sum_ite_eq' (range n) 0 (fun _ => P 0)]
    simp [hn]
  rw [← this]; ring

/-- what the code gives a party k ≠ 0 that calls `finish` on `shares_to_cipher` (the protocol is aggregator-based like
    `cipher_to_shares`; only party 0's result is an encryption of the sum): its own share is counted twice and party 0's is missing -/
theorem s2c_other_party_phase (n k : Nat) (hn : 0 < n) (sch : Scheme) (t : Nat) (ntt : Bool) (s e P : Nat → A) (a : A) :
    ∃ h : Nat → A, (∀ i, s2cShare Ops.ring sch t ntt i (s i) a (e i) (P i) = .ok (h i)) ∧
      (P k + ∑ i ∈ range n, h i) + a * (∑ i ∈ range n, s i)
        = (∑ i ∈ range n, P i + c18_nz sch t (∑ i ∈ range n, e i)) + (P k - P 0) := by
  obtain ⟨h, h1, h2⟩ := s2c_phase n hn sch t ntt s e P a
  refine ⟨h, h1, ?_⟩
  rw [← h2]; ring

/-- ROUND TRIP at the plaintext level (`enc` = the share encoder, an additive bijection between share vectors and plaintexts,
    e.g. the batch encoder for a batching plain modulus): if party 0's share is the decoding of m − Σ_{i≠0} enc(share_i)
    (what `c2s_phase` gives after exact decryption), then the shares add up to dec(m), and the plaintexts that `shares_to_cipher`
    adds up (`s2c_phase`) give back m. -/
theorem shares_roundtrip {S M : Type} [AddCommGroup S] [AddCommGroup M] (enc : S ≃+ M) (n : Nat) (m : M) (sh : Nat → S)
    (h0 : sh 0 = enc.symm (m - ∑ i ∈ range n, enc (sh (i + 1)))) :
    ∑ i ∈ range (n + 1), sh i = enc.symm m ∧ ∑ i ∈ range (n + 1), enc (sh i) = m := by
  have key : ∑ i ∈ range (n + 1), enc (sh i) = m := by
    rw [Finset.sum_range_succ', h0, AddEquiv.apply_symm_apply]; abel
  refine ⟨?_, key⟩
  rw [← key, map_sum]
  simp

/-! ## noise size (exact integers) -/

/-- the summed noise of n parties is at most n times the single-party bound, coefficient by coefficient -/
theorem noise_sum_bound (n N : Nat) (B : ℤ) (e : Nat → Fin N → ℤ) (hb : ∀ i, i < n → ∀ c, |e i c| ≤ B) (c : Fin N) :
    |∑ i ∈ range n, e i c| ≤ n * B := by
  calc |∑ i ∈ range n, e i c| ≤ ∑ i ∈ range n, |e i c| := Finset.abs_sum_le_sum_abs _ _
    _ ≤ ∑ _i ∈ range n, B := Finset.sum_le_sum (fun i hi => hb i (Finset.mem_range.mp hi) c)
    _ = n * B := by simp

/-! ## final decoding = the ordinary decryptor's decoding of the same phase -/

/-- BFV: `decrypt_polynomial` applied to the phase c0 + c1·s is what `Decryptor::bfv_decrypt` computes -/
theorem final_decode_bfv (l : Level) (hs : l.scheme = .bfv) (sk : Array Int) (ct : Ct) (hn : ct.ntt = false) (ph : RnsPoly)
    (hph : dotProductCtSk l sk ct = .ok ph) :
    (bfvDecrypt l sk ct).map PlainOut.coeffs = decryptPolynomial l ct.ntt ct.cf ph := by
  simp only [bfvDecrypt, hn, hph, decryptPolynomial, hs, bind, Except.bind, pure, Except.pure, Except.map, Bool.false_eq_true, if_false]
  cases l.tool.decryptScaleAndRound ph <;> rfl

/-- BGV (repaired `decrypt_polynomial`): the same decoding as `Decryptor::bgv_decrypt` -/
theorem final_decode_bgv (l : Level) (hs : l.scheme = .bgv) (sk : Array Int) (ct : Ct) (hn : ct.ntt = true) (ph : RnsPoly)
    (hph : dotProductCtSk l sk ct = .ok ph) :
    (bgvDecrypt l sk ct).map PlainOut.coeffs = decryptPolynomial l ct.ntt ct.cf ph := by
  simp only [bgvDecrypt, hn, hph, decryptPolynomial, hs, bind, Except.bind, pure, Except.pure, Except.map, Bool.not_true,
    Bool.false_eq_true, if_false, if_true]
  cases l.tool.decryptModT (rnsIntt l ph) with
  | error e => rfl
  | ok d =>
    simp only
    by_cases hcf : ct.cf ≠ 1
    · simp only [hcf, if_true, ne_eq, not_false_eq_true]
      cases tryInvert ct.cf l.t.value with
      | error e => rfl
      | ok v =>
        cases v with
        | none => rfl
        | some fix => simp only; cases mapM' d (fun x => mulMod x fix l.t) <;> rfl
    · simp only [hcf, if_false]

/-- CKKS: the decoding is the phase itself (the plaintext object takes level and scale from the ciphertext) -/
theorem final_decode_ckks (l : Level) (hs : l.scheme = .ckks) (sk : Array Int) (ct : Ct) (hn : ct.ntt = true) :
    (ckksDecrypt l sk ct).map PlainOut.rns = (dotProductCtSk l sk ct).bind (decryptPolynomial l ct.ntt ct.cf) := by
  simp only [ckksDecrypt, hn, Bool.not_true, Bool.false_eq_true, if_false]
  cases dotProductCtSk l sk ct with
  | error e => rfl
  | ok ph => simp [Except.map, Except.bind, decryptPolynomial, hs, pure, Except.pure]


/-! ## the protocol functions GENERATED from src/multiparty/participant.rs (Gen/MpFns.lean, tools/rs2lean_mp.py)

    Skeleton translation: polynomial buffers are values of an abstract type, the `polymod` kernels are the operations of `Ops`, the
    samplers are draws from a tape whose entries carry the sampler's tag (`Tape`, `draw`): a theorem that gives the tape as
    `(.cbd, e) :: rest` says that the function draws exactly ONE centred-binomial polynomial and leaves `rest`. -/

/-- `sample_noise` = `noiseOf`: one centred-binomial draw, transformed, in BGV multiplied by t -/
theorem gen_sample_noise (o : Ops α) (sch : Scheme) (t : Nat) (e : α) (rest : Tape α) :
    GenMp.sample_noise o sch t true ((.cbd, e) :: rest) = (do let x ← noiseOf o sch t e; pure (x, rest)) :=
  genmp_sample_noise o sch t e rest

/-- `Participant::key_switch` (any ring operations): a 2-polynomial ciphertext, ONE noise draw; the fresh reveal object holds
    `ksShare` = (s - s')·c1 + noise as own polynomial, one empty slot per participant -/
theorem gen_key_switch (o : Ops α) (sch : Scheme) (t count pid : Nat) (ntt : Bool) (s s' c1 e : α) (rest : Tape α) :
    GenMp.key_switch o sch t count pid 2 ntt s s' c1 ((.cbd, e) :: rest)
      = (do let h ← ksShare o sch t ntt s s' c1 e; pure (Reveal.new count pid h, rest)) :=
  genmp_key_switch o sch t count pid ntt s s' c1 e rest

/-- `Participant::decrypt` (expanded seed, valid ciphertext of size 2) -/
theorem gen_decrypt (o : Ops α) (sch : Scheme) (t count pid : Nat) (ntt : Bool) (s c1 e : α) (rest : Tape α) :
    GenMp.decrypt o sch t count pid 2 false true ntt s c1 ((.cbd, e) :: rest)
      = (do let h ← decShare o sch t ntt s c1 e; pure (Reveal.new count pid h, rest)) :=
  genmp_decrypt o sch t count pid ntt s c1 e rest

/-- `Participant::public_key_switch`: draws (ternary u, noise e0, noise e1) in this order; both reveal objects -/
theorem gen_public_key_switch (o : Ops α) (sch : Scheme) (t count pid : Nat) (ntt : Bool) (s c1 p0 p1 u e0 e1 : α) (rest : Tape α) :
    GenMp.public_key_switch o sch t count pid 2 ntt s c1 p0 p1 ((.ternary, u) :: (.cbd, e0) :: (.cbd, e1) :: rest)
      = (do let h ← pksShare o sch t ntt s c1 p0 p1 u e0 e1
            pure (Reveal.new count pid h.1, Reveal.new count pid h.2, rest)) :=
  genmp_public_key_switch o sch t count pid ntt s c1 p0 p1 u e0 e1 rest

/-- a ciphertext that does not have exactly two polynomials is refused by all three constructors -/
theorem gen_constructors_refuse_size (o : Ops α) (sch : Scheme) (t count pid sz : Nat) (hsz : sz ≠ 2) (ntt cs vf : Bool)
    (s s' c1 p0 p1 : α) (tape : Tape α) :
    GenMp.key_switch o sch t count pid sz ntt s s' c1 tape = .error .refused ∧
    GenMp.decrypt o sch t count pid sz cs vf ntt s c1 tape = .error .refused ∧
    GenMp.public_key_switch o sch t count pid sz ntt s c1 p0 p1 tape = .error .refused := by
  have h : (sz == 2) = false := by simpa using hsz
  refine ⟨by simp [GenMp.key_switch, need, h, bind, Except.bind], ?_, by simp [GenMp.public_key_switch, need, h, bind, Except.bind]⟩
  by_cases h2 : 2 ≤ sz <;> cases cs <;> cases vf <;>
    simp [GenMp.decrypt, need, h, h2, bind, Except.bind, Gen.HE_CIPHERTEXT_SIZE_MIN]

/-- `PolynomialRevelationProtocol::receive` / `send` / `finish` = the model (`receive` only overwrites the sender's slot, `send`
    is the own polynomial whatever was received, `finish` = completeness assertion + sum in slot order) -/
theorem gen_reveal (o : Ops α) (pa : α → α → R α) (p : Reveal α) (sender : Nat) (m : α) (rest : List α) :
    GenMp.reveal_receive p sender (m :: rest) = (do let p' ← p.receive sender m; pure (p', rest)) ∧
    (∀ p', p.receive sender m = .ok p' → GenMp.reveal_send p' = GenMp.reveal_send p) ∧
    GenMp.reveal_finish o pa false p = p.finish o :=
  ⟨genmp_reveal_receive p sender m rest, fun p' h => genmp_reveal_send_receive p sender m p' h, genmp_reveal_finish o pa p⟩

/-- a whole run through the GENERATED functions (fresh object, the deliveries one by one through `receive`, `finish`) = `revealRun`:
    so `finish_order_independent`, `finish_sum`, `all_parties_agree`, `finish_refuses_incomplete` are statements about them -/
theorem gen_run (o : Ops α) (pa : α → α → R α) (count id : Nat) (own : α) (d : List (Nat × α)) :
    (do let p ← genRecvAll (Reveal.new count id own) d; GenMp.reveal_finish o pa false p) = revealRun o count id own d :=
  genmp_run o pa count id own d

/-- the `finish` of the four protocol objects -/
theorem gen_finish (o : Ops α) (pa : α → α → R α) (c0 c1 : α) (p q : Reveal α) :
    GenMp.key_switch_finish o c0 c1 pa p = (do let h ← p.finish o; let c ← addToC0 o c0 h; pure (c, c1)) ∧
    GenMp.decrypt_finish o c0 c1 pa p = (do let h ← p.finish o; addToC0 o c0 h) ∧
    GenMp.public_key_switch_finish o c0 c1 pa p q
      = (do let h0 ← p.finish o; let h1 ← q.finish o; let c ← addToC0 o c0 h0; pure (c, h1)) ∧
    GenMp.public_key_finish o c0 c1 pa p = (do let h ← p.finish o; pure (h, c1)) :=
  ⟨genmp_key_switch_finish o pa c0 c1 p, genmp_decrypt_finish o pa c0 c1 p, genmp_public_key_switch_finish o pa c0 c1 p q,
   genmp_public_key_finish o pa c0 c1 p⟩

/-- relinearisation key, constructor: ONE common uniform a_j per decomposition index j (all K-1 drawn from the common tape before
    anything else), (u_j, e0_j, e1_j) from the own tape per index; pair j = `rlkRound1` with a_j and the gadget element w_j -/
theorem gen_rlk_new (o : Ops α) (sch : Scheme) (t count pid K : Nat) (s : α) (w a u e0 e1 : Nat → α) (r : Nat → α × α)
    (rc rs : Tape α) (hr : ∀ j, j < K - 1 → rlkRound1 o sch t s (a j) (u j) (e0 j) (e1 j) (w j) = .ok (r j)) :
    GenMp.rlk_new o sch t count pid K s w
        (tapeRem (fun j => [(.uniform, a j)]) rc (K - 1) 0)
        (tapeRem (fun j => [(.ternary, u j), (.cbd, e0 j), (.cbd, e1 j)]) rs (K - 1) 0)
      = .ok ((List.range (K - 1)).map (fun j => Reveal.new count pid (r j).1),
             (List.range (K - 1)).map (fun j => Reveal.new count pid (r j).2),
             (List.range (K - 1)).map (fun j => o.toNtt (u j)), rc, rs) :=
  genmp_rlk_new o sch t count pid K s w a u e0 e1 r rc rs hr

theorem gen_rlk_step2 (o : Ops α) (pa : α → α → R α) (sch : Scheme) (t count pid K : Nat) (s : α) (u e2 e3 H0 H1 d : Nat → α)
    (R0 R1 : Nat → Reveal α) (r : Nat → α × α) (rs : Tape α)
    (hf0 : ∀ j, j < K - 1 → (R0 j).finish o = .ok (H0 j)) (hf1 : ∀ j, j < K - 1 → (R1 j).finish o = .ok (H1 j))
    (hd : ∀ j, j < K - 1 → o.sub (o.toNtt (u j)) s = .ok (d j))
    (hr : ∀ j, j < K - 1 → rlkRound2 o sch t s (u j) (H0 j) (H1 j) (e2 j) (e3 j) = .ok (r j)) :
    GenMp.rlk_step2 o sch t count pid K s pa ((List.range (K - 1)).map R0) ((List.range (K - 1)).map R1)
        ((List.range (K - 1)).map (fun j => o.toNtt (u j)))
        (tapeRem (fun j => [(.cbd, e2 j), (.cbd, e3 j)]) rs (K - 1) 0)
      = .ok ((List.range (K - 1)).map (fun j => Reveal.new count pid (r j).1),
             (List.range (K - 1)).map (fun j => Reveal.new count pid (r j).2),
             (List.range (K - 1)).map d, (List.range (K - 1)).map H1, rs) :=
  genmp_rlk_step2 o pa sch t count pid K s u e2 e3 H0 H1 d R0 R1 r rs hf0 hf1 hd hr

theorem gen_rlk_finish (o : Ops α) (pa : α → α → R α) (K : Nat) (P0 P1 : Nat → Reveal α) (H0p H1p h1 : Nat → α) (k : Nat → α × α)
    (hf0 : ∀ j, j < K - 1 → (P0 j).finish o = .ok (H0p j)) (hf1 : ∀ j, j < K - 1 → (P1 j).finish o = .ok (H1p j))
    (hk : ∀ j, j < K - 1 → rlkFinish o (H0p j) (H1p j) (h1 j) = .ok (k j)) :
    GenMp.rlk_finish o K pa ((List.range (K - 1)).map P0) ((List.range (K - 1)).map P1) ((List.range (K - 1)).map h1)
      = .ok ((List.range (K - 1)).map k) :=
  genmp_rlk_finish o pa K P0 P1 H0p H1p h1 k hf0 hf1 hk

/-- a missing round-1 message makes `step2` refuse (the completeness assertion of the first unfinished reveal object) -/
theorem gen_rlk_step2_refuses (o : Ops α) (pa : α → α → R α) (sch : Scheme) (t count pid K : Nat) (s : α) (p : Reveal α)
    (rest h1d : List (Reveal α)) (u : List α) (tape : Tape α) (hp : p.allSent = false) :
    GenMp.rlk_step2 o sch t count pid K s pa (p :: rest) h1d u tape = .error .refused := by
  unfold GenMp.rlk_step2
  have : GenMp.reveal_finish o pa false p = .error .refused := by
    rw [genmp_reveal_finish]; unfold Reveal.finish; simp [hp]
  simp [mapRM, this, bind, Except.bind]

/-- relin protocol, message flow: `receive_step1` / `receive_step2` hand the first |h0| polynomials of a sender's message to the h0
    objects and the next |h1| to the h1 objects, each into the SENDER's slot (`putSlot`), nothing else changes; `send_step1/2` emit the own
    polynomials in exactly this order. (Hypotheses: the message has one polynomial per object; the sender id is a valid slot - otherwise
    the code's index panic, `Reveal.receive` = `.error .oob`.) -/
theorem gen_rlk_receive_send (sender : Nat) (h0d h1d : List (Reveal α)) (m0 m1 rest : List α)
    (hl0 : m0.length = h0d.length) (hl1 : m1.length = h1d.length)
    (hs0 : ∀ p ∈ h0d, sender < p.slots.length) (hs1 : ∀ p ∈ h1d, sender < p.slots.length) :
    GenMp.rlk_receive_step1 h0d h1d sender (m0 ++ (m1 ++ rest))
      = .ok (List.zipWith (putSlot sender) h0d m0, List.zipWith (putSlot sender) h1d m1, rest) ∧
    GenMp.rlk_receive_step2 h0d h1d sender (m0 ++ (m1 ++ rest))
      = .ok (List.zipWith (putSlot sender) h0d m0, List.zipWith (putSlot sender) h1d m1, rest) ∧
    GenMp.rlk_send_step1 h0d h1d = h0d.map Reveal.own ++ h1d.map Reveal.own ∧
    GenMp.rlk_send_step2 h0d h1d = h0d.map Reveal.own ++ h1d.map Reveal.own :=
  ⟨(genmp_rlk_receive_step1 sender h0d h1d m0 m1 rest hl0 hl1 hs0 hs1).1, (genmp_rlk_receive_step1 sender h0d h1d m0 m1 rest hl0 hl1 hs0 hs1).2,
   (genmp_rlk_send h0d h1d).1, (genmp_rlk_send h0d h1d).2⟩

/-- the two-polynomial message of the public-key switch: first polynomial to the h0 object, second to the h1 object -/
theorem gen_pks_receive (p0 p1 : Reveal α) (sender : Nat) (m0 m1 : α) (rest : List α) :
    GenMp.public_key_switch_receive p0 p1 sender (m0 :: m1 :: rest)
      = (do let p0' ← p0.receive sender m0; let p1' ← p1.receive sender m1; pure (p0', p1', rest)) ∧
    GenMp.public_key_switch_send p0 p1 = [p0.own, p1.own] :=
  ⟨genmp_public_key_switch_receive p0 p1 sender m0 m1 rest, rfl⟩

/-! ### composition: the generated functions, run by n parties over a commutative ring -/

/-- COLLECTIVE DECRYPTION through the generated functions: party i calls `decrypt` (one noise draw e_i) and obtains a reveal object
    whose message is h_i; ANY party `id` that has fed the messages of all others (any order) to `receive` and calls `finish` hands
    (c0 + c1·Σs_i) + noise(Σe_i) to the final decoding - the single-party phase for the secret Σ s_i. -/
theorem gen_collective_decrypt (n : Nat) (sch : Scheme) (t : Nat) (ntt : Bool) (s e : Nat → A) (c0 c1 : A) (pa : A → A → R A) :
    ∃ h : Nat → A,
      (∀ i, GenMp.decrypt Ops.ring sch t n i 2 false true ntt (s i) c1 [(.cbd, e i)] = .ok (Reveal.new n i (h i), [])) ∧
      ∀ id, id < n → ∀ d : List (Nat × A),
        (∀ x ∈ d, x.1 < n ∧ x.1 ≠ id ∧ x.2 = GenMp.reveal_send (Reveal.new n x.1 (h x.1))) →
        (∀ j, j < n → j ≠ id → j ∈ d.map Prod.fst) →
        (do let p ← genRecvAll (Reveal.new n id (h id)) d; GenMp.decrypt_finish Ops.ring c0 c1 pa p)
          = .ok ((c0 + c1 * ∑ i ∈ range n, s i) + c18_nz sch t (∑ i ∈ range n, e i)) := by
  obtain ⟨h, hh, hsum⟩ := decrypt_sum n sch t ntt s e c0 c1
  refine ⟨h, fun i => by rw [genmp_decrypt, hh i]; rfl, fun id hid d hr hall => ?_⟩
  have hrun := finish_sum n id hid h d hr hall
  rw [← genmp_run Ops.ring pa] at hrun
  simp only [genmp_decrypt_finish]
  cases hq : genRecvAll (Reveal.new n id (h id)) d with
  | error e => rw [hq] at hrun; cases hrun
  | ok q =>
    rw [hq] at hrun
    simp only [genmp_ok_bind, genmp_reveal_finish] at hrun ⊢
    rw [hrun, ← hsum]; rfl

/-- COLLECTIVE KEY SWITCH through the generated functions: every party ends with the ciphertext (c0 + Σh_i, c1) whose phase under
    Σ s'_i is the old phase under Σ s_i plus noise(Σ e_i) -/
theorem gen_collective_key_switch (n : Nat) (sch : Scheme) (t : Nat) (ntt : Bool) (s s' e : Nat → A) (c0 c1 : A) (pa : A → A → R A) :
    ∃ h : Nat → A,
      (∀ i, GenMp.key_switch Ops.ring sch t n i 2 ntt (s i) (s' i) c1 [(.cbd, e i)] = .ok (Reveal.new n i (h i), [])) ∧
      ∀ id, id < n → ∀ d : List (Nat × A),
        (∀ x ∈ d, x.1 < n ∧ x.1 ≠ id ∧ x.2 = GenMp.reveal_send (Reveal.new n x.1 (h x.1))) →
        (∀ j, j < n → j ≠ id → j ∈ d.map Prod.fst) →
        ∃ c0', (do let p ← genRecvAll (Reveal.new n id (h id)) d; GenMp.key_switch_finish Ops.ring c0 c1 pa p) = .ok (c0', c1) ∧
          c0' + c1 * (∑ i ∈ range n, s' i) = (c0 + c1 * ∑ i ∈ range n, s i) + c18_nz sch t (∑ i ∈ range n, e i) := by
  obtain ⟨h, hh, hsum⟩ := keyswitch_sum n sch t ntt s s' e c0 c1
  refine ⟨h, fun i => by rw [genmp_key_switch, hh i]; rfl, fun id hid d hr hall => ⟨c0 + ∑ i ∈ range n, h i, ?_, hsum⟩⟩
  have hrun := finish_sum n id hid h d hr hall
  rw [← genmp_run Ops.ring pa] at hrun
  simp only [genmp_key_switch_finish]
  cases hq : genRecvAll (Reveal.new n id (h id)) d with
  | error e => rw [hq] at hrun; cases hrun
  | ok q =>
    rw [hq] at hrun
    simp only [genmp_ok_bind, genmp_reveal_finish] at hrun ⊢
    rw [hrun]; rfl

/-- COLLECTIVE PUBLIC-KEY SWITCH through the generated functions: party i draws (u_i, e0_i, e1_i), the message is the PAIR (h0_i, h1_i);
    any party that has received all other pairs ends with (c0 + Σh0_i, Σh1_i), whose phase under the receiver's secret sk' is the old
    phase plus u·(p0' + p1'·sk') + E0 + E1·sk' -/
theorem gen_collective_pks (n : Nat) (sch : Scheme) (t : Nat) (ntt : Bool) (s u e0 e1 : Nat → A) (c0 c1 p0 p1 sk' : A) (pa : A → A → R A) :
    ∃ h : Nat → A × A,
      (∀ i, GenMp.public_key_switch Ops.ring sch t n i 2 ntt (s i) c1 p0 p1 [(.ternary, u i), (.cbd, e0 i), (.cbd, e1 i)]
              = .ok (Reveal.new n i (h i).1, Reveal.new n i (h i).2, [])) ∧
      ∀ id, id < n → ∀ d0 d1 : List (Nat × A),
        (∀ x ∈ d0, x.1 < n ∧ x.1 ≠ id ∧ x.2 = (h x.1).1) → (∀ j, j < n → j ≠ id → j ∈ d0.map Prod.fst) →
        (∀ x ∈ d1, x.1 < n ∧ x.1 ≠ id ∧ x.2 = (h x.1).2) → (∀ j, j < n → j ≠ id → j ∈ d1.map Prod.fst) →
        ∃ c0' c1', (do let q0 ← genRecvAll (Reveal.new n id (h id).1) d0
                       let q1 ← genRecvAll (Reveal.new n id (h id).2) d1
                       GenMp.public_key_switch_finish Ops.ring c0 c1 pa q0 q1) = .ok (c0', c1') ∧
          c0' + c1' * sk' = (c0 + c1 * ∑ i ∈ range n, s i) + (∑ i ∈ range n, u i) * (p0 + p1 * sk')
              + c18_nz sch t (∑ i ∈ range n, e0 i) + c18_nz sch t (∑ i ∈ range n, e1 i) * sk' := by
  obtain ⟨h, hh, hsum⟩ := pks_sum n sch t ntt s u e0 e1 c0 c1 p0 p1 sk'
  refine ⟨h, fun i => by rw [genmp_public_key_switch, hh i]; rfl, fun id hid d0 d1 hr0 ha0 hr1 ha1 =>
    ⟨c0 + ∑ i ∈ range n, (h i).1, ∑ i ∈ range n, (h i).2, ?_, hsum⟩⟩
  have hrun0 := finish_sum n id hid (fun i => (h i).1) d0 hr0 ha0
  have hrun1 := finish_sum n id hid (fun i => (h i).2) d1 hr1 ha1
  rw [← genmp_run Ops.ring pa] at hrun0 hrun1
  simp only [genmp_public_key_switch_finish]
  cases hq0 : genRecvAll (Reveal.new n id (h id).1) d0 with
  | error e => rw [hq0] at hrun0; cases hrun0
  | ok q0 =>
    cases hq1 : genRecvAll (Reveal.new n id (h id).2) d1 with
    | error e => rw [hq1] at hrun1; cases hrun1
    | ok q1 =>
      rw [hq0] at hrun0; rw [hq1] at hrun1
      simp only [genmp_ok_bind, genmp_reveal_finish] at hrun0 hrun1 ⊢
      rw [hrun0, hrun1]; rfl

/-- COLLECTIVE PUBLIC KEY through the generated `generate_public_key` / `finish` (the generator call is an opaque step whose reading
    k0_i = `pkShare (s_i, a, e_i)`, k1 = a is the hypothesis `hk`): the object broadcasts k0_i, and every party that has received all
    other shares ends with the key (Σ k0_i, a) = the single-party key for the secret Σ s_i with noise Σ e_i -/
theorem gen_collective_pk (n : Nat) (sch : Scheme) (t : Nat) (s e : Nat → A) (a : A) (k0 : Nat → A) (pa : A → A → R A)
    (hk : ∀ i, pkShare Ops.ring sch t (s i) a (e i) = .ok (k0 i)) :
    ∀ id, id < n → ∀ d : List (Nat × A),
      (∀ x ∈ d, x.1 < n ∧ x.1 ≠ id ∧ x.2 = GenMp.reveal_send (GenMp.generate_public_key n x.1 (k0 x.1) a).1) →
      (∀ j, j < n → j ≠ id → j ∈ d.map Prod.fst) →
      ∃ p0, (do let q ← genRecvAll (GenMp.generate_public_key n id (k0 id) a).1 d
                GenMp.public_key_finish Ops.ring (GenMp.generate_public_key n id (k0 id) a).2.1 (GenMp.generate_public_key n id (k0 id) a).2.2 pa q)
              = .ok (p0, a) ∧
        pkShare Ops.ring sch t (∑ i ∈ range n, s i) a (∑ i ∈ range n, e i) = .ok p0 ∧
        p0 + a * (∑ i ∈ range n, s i) = - c18_nz sch t (∑ i ∈ range n, e i) := by
  intro id hid d hr hall
  obtain ⟨p0, h1, h2, h3⟩ := collective_pk n sch t s e a
  have hp : ∀ i, p0 i = k0 i := fun i => by have := h1 i; rw [hk i] at this; exact (Except.ok.inj this).symm
  refine ⟨∑ i ∈ range n, p0 i, ?_, h2, h3⟩
  have hrun := finish_sum n id hid k0 d hr hall
  rw [← genmp_run Ops.ring pa] at hrun
  simp only [genmp_public_key_finish, GenMp.generate_public_key]
  have hnew : (⟨id, k0 id, List.replicate n none⟩ : Reveal A) = Reveal.new n id (k0 id) := rfl
  rw [hnew]
  cases hq : genRecvAll (Reveal.new n id (k0 id)) d with
  | error e => rw [hq] at hrun; cases hrun
  | ok q =>
    rw [hq] at hrun
    simp only [genmp_ok_bind, genmp_reveal_finish] at hrun ⊢
    rw [hrun, Finset.sum_congr rfl (fun i _ => hp i)]; rfl

/-- COLLECTIVE RELINEARISATION KEY through the generated `new` / `step2` / `finish` (n parties, K key primes, K-1 decomposition indices;
    common tape = a_0 … a_{K-2}, party i's own tape = (u_ij, e0_ij, e1_ij)_j then (e2_ij, e3_ij)_j; `R0 j`, `R1 j`, `P0 j`, `P1 j` are the
    reveal objects after the deliveries - by `gen_run` + `finish_sum` they finish with the sums over all parties, which is all that is
    assumed about them): all three generated functions succeed, and the assembled key j satisfies
        k0_j + k1_j·s = s²·w_j + ( s·E0_j + u_j·E1_j + E2_j + E3_j ),   s = Σ s_i, u_j = Σ u_ij, E·_j = noise(Σ_i e·_ij) -/
theorem gen_collective_rlk (n K : Nat) (sch : Scheme) (t : Nat) (s w a : Nat → A) (u e0 e1 e2 e3 : Nat → Nat → A) (pa : A → A → R A) :
    ∃ (r1 r2 : Nat → Nat → A × A) (k : Nat → A × A),
      (∀ i, GenMp.rlk_new Ops.ring sch t n i K (s i) w
              (tapeRem (fun j => [(.uniform, a j)]) [] (K - 1) 0)
              (tapeRem (fun j => [(.ternary, u i j), (.cbd, e0 i j), (.cbd, e1 i j)]) [] (K - 1) 0)
            = .ok ((List.range (K - 1)).map (fun j => Reveal.new n i (r1 j i).1),
                   (List.range (K - 1)).map (fun j => Reveal.new n i (r1 j i).2),
                   (List.range (K - 1)).map (fun j => (Ops.ring (α := A)).toNtt (u i j)), [], [])) ∧
      (∀ i (R0 R1 : Nat → Reveal A),
          (∀ j, j < K - 1 → (R0 j).finish Ops.ring = .ok (∑ x ∈ range n, (r1 j x).1)) →
          (∀ j, j < K - 1 → (R1 j).finish Ops.ring = .ok (∑ x ∈ range n, (r1 j x).2)) →
          GenMp.rlk_step2 Ops.ring sch t n i K (s i) pa ((List.range (K - 1)).map R0) ((List.range (K - 1)).map R1)
              ((List.range (K - 1)).map (fun j => (Ops.ring (α := A)).toNtt (u i j)))
              (tapeRem (fun j => [(.cbd, e2 i j), (.cbd, e3 i j)]) [] (K - 1) 0)
            = .ok ((List.range (K - 1)).map (fun j => Reveal.new n i (r2 j i).1),
                   (List.range (K - 1)).map (fun j => Reveal.new n i (r2 j i).2),
                   (List.range (K - 1)).map (fun j => u i j - s i),
                   (List.range (K - 1)).map (fun j => ∑ x ∈ range n, (r1 j x).2), [])) ∧
      (∀ (P0 P1 : Nat → Reveal A),
          (∀ j, j < K - 1 → (P0 j).finish Ops.ring = .ok (∑ x ∈ range n, (r2 j x).1)) →
          (∀ j, j < K - 1 → (P1 j).finish Ops.ring = .ok (∑ x ∈ range n, (r2 j x).2)) →
          GenMp.rlk_finish Ops.ring K pa ((List.range (K - 1)).map P0) ((List.range (K - 1)).map P1)
              ((List.range (K - 1)).map (fun j => ∑ x ∈ range n, (r1 j x).2))
            = .ok ((List.range (K - 1)).map k)) ∧
      ∀ j, (k j).1 + (k j).2 * (∑ i ∈ range n, s i)
        = (∑ i ∈ range n, s i) * (∑ i ∈ range n, s i) * w j
          + ((∑ i ∈ range n, s i) * c18_nz sch t (∑ i ∈ range n, e0 i j) + (∑ i ∈ range n, u i j) * c18_nz sch t (∑ i ∈ range n, e1 i j)
             + c18_nz sch t (∑ i ∈ range n, e2 i j) + c18_nz sch t (∑ i ∈ range n, e3 i j)) := by
  have H := fun j => collective_rlk n sch t s (fun i => u i j) (fun i => e0 i j) (fun i => e1 i j) (fun i => e2 i j) (fun i => e3 i j) (a j) (w j)
  choose r1 r2 k h1 h2 h3 h4 using H
  refine ⟨r1, r2, k, fun i => ?_, fun i R0 R1 hf0 hf1 => ?_, fun P0 P1 hf0 hf1 => ?_, h4⟩
  · exact gen_rlk_new Ops.ring sch t n i K (s i) w a (u i) (e0 i) (e1 i) (fun j => r1 j i) [] [] (fun j _ => h1 j i)
  · exact gen_rlk_step2 Ops.ring pa sch t n i K (s i) (u i) (e2 i) (e3 i) _ _ (fun j => u i j - s i) R0 R1 (fun j => r2 j i) [] hf0 hf1
      (fun j _ => rfl) (fun j _ => h2 j i)
  · exact gen_rlk_finish Ops.ring pa K P0 P1 _ _ _ k hf0 hf1 (fun j _ => h3 j)

/-- non-vacuity of the generated-function theorems: two parties over ℤ (BFV reading: noise added as is), c = (100, 7), secrets 2 and 3,
    noises 1 and -1: both constructors succeed, party 0 after receiving party 1's message hands 100 + 7·5 + 0 = 135 to the decoder;
    without the message `finish` refuses -/
example :
    GenMp.decrypt (Ops.ring (α := ℤ)) .bfv 5 2 0 2 false true true 2 7 [(.cbd, 1)] = .ok (Reveal.new 2 0 15, []) ∧
    GenMp.decrypt (Ops.ring (α := ℤ)) .bfv 5 2 1 2 false true true 3 7 [(.cbd, -1)] = .ok (Reveal.new 2 1 20, []) ∧
    (do let p ← genRecvAll (Reveal.new 2 0 (15 : ℤ)) [(1, 20)]; GenMp.decrypt_finish Ops.ring 100 7 (fun a b => .ok (a + b)) p) = .ok 135 ∧
    (do let p ← genRecvAll (Reveal.new 2 0 (15 : ℤ)) []; GenMp.decrypt_finish Ops.ring 100 7 (fun a b => .ok (a + b)) p) = .error .refused ∧
    GenMp.decrypt (Ops.ring (α := ℤ)) .bfv 5 2 0 2 false true true 2 7 [(.ternary, 1)] = .error .other :=
  ⟨rfl, rfl, rfl, rfl, rfl⟩

/-- non-vacuity (relinearisation key, one party over ℤ, K = 3 key primes = 2 decomposition indices, w_j = j+1): the common tape must
    hold TWO uniform polynomials (3 and 4), the own tape (u, e0, e1) twice; h0_j = -(u_j·a_j) + s·w_j + e0_j, h1_j = s·a_j + e1_j.
    A common tape with one polynomial only is an error (the code draws a fresh a_j per index). -/
example :
    GenMp.rlk_new (Ops.ring (α := ℤ)) .bfv 5 1 0 3 2 (fun j => (j : ℤ) + 1)
        [(.uniform, 3), (.uniform, 4)] [(.ternary, 1), (.cbd, 0), (.cbd, 1), (.ternary, -1), (.cbd, 1), (.cbd, 0)]
      = .ok ([Reveal.new 1 0 (-1), Reveal.new 1 0 9], [Reveal.new 1 0 7, Reveal.new 1 0 8], [1, -1], [], []) ∧
    GenMp.rlk_new (Ops.ring (α := ℤ)) .bfv 5 1 0 3 2 (fun j => (j : ℤ) + 1)
        [(.uniform, 3)] [(.ternary, 1), (.cbd, 0), (.cbd, 1), (.ternary, -1), (.cbd, 1), (.cbd, 0)] = .error .other :=
  ⟨rfl, rfl⟩

end HC.C18
