import Heathcliff.Proofs.C02K

/- Property theorems only (statements verbatim; proofs are the helper lemmas of Heathcliff/Proofs). -/
namespace HC.C02
open HC
open Finset
variable {R : Type} [CommRing R]

/-- INDEX ARITHMETIC: for output polynomial i the loop visits exactly the pairs (a, b), a < n1, b < n2, a + b = i, each once -/
theorem mulPairs_spec {n1 n2 i : Nat} (h1 : 1 ≤ n1) (h2 : 1 ≤ n2) (hi : i < n1 + n2 - 1) :
    (mulPairs n1 n2 i).Nodup ∧ ∀ a b, (a, b) ∈ mulPairs n1 n2 i ↔ (a < n1 ∧ b < n2 ∧ a + b = i) := HC.mulPairs_spec h1 h2 hi

/-- PRODUCT: the polynomials d_i = Σ_{(a,b) ∈ mulPairs} c_a·e_b, i < n1+n2-1, have phase(c)·phase(e) — for every pair of sizes -/
theorem ct_mul_phase {n1 n2 : Nat} (h1 : 1 ≤ n1) (h2 : 1 ≤ n2) (c e : Nat → R) (s : R) :
    ctPhase (n1 + n2 - 1) (fun i => ((mulPairs n1 n2 i).map (fun p => c p.1 * e p.2)).sum) s
      = ctPhase n1 c s * ctPhase n2 e s := HC.ct_mul_phase h1 h2 c e s

/-- ADD / SUB of ciphertexts of different sizes: the shorter operand is zero-extended; in a subtraction the polynomials taken
    over from a larger subtrahend are negated -/
theorem translate_phase (n1 n2 : Nat) (sub : Bool) (a b : Nat → R) (s : R) :
    ctPhase (max n1 n2) (fun i => ((translateShape n1 n2).map (trVal sub a b)).getD i 0) s
      = if sub then ctPhase n1 a s - ctPhase n2 b s else ctPhase n1 a s + ctPhase n2 b s := HC.translate_phase n1 n2 sub a b s

/-- negation -/
theorem negate_phase (n : Nat) (a : Nat → R) (s : R) : ctPhase n (fun i => - a i) s = - ctPhase n a s := HC.negate_phase n a s

/-- multiplication by a plaintext polynomial p (every ciphertext polynomial multiplied by p) -/
theorem mul_plain_phase (n : Nat) (a : Nat → R) (p s : R) : ctPhase n (fun i => a i * p) s = ctPhase n a s * p := HC.mul_plain_phase n a p s

/-- adding a plaintext touches only c_0 -/
theorem add_plain_phase (n : Nat) (hn : 1 ≤ n) (a : Nat → R) (p s : R) :
    ctPhase n (fun i => if i = 0 then a i + p else a i) s = ctPhase n a s + p := HC.add_plain_phase n hn a p s

/-- BALANCING: whenever `balance_correction_factors` succeeds, e1·f1 ≡ e2·f2 ≡ f (mod t) and f < t -/
theorem balance_spec {t : Modulus} (ht : t.WF) {f1 f2 f e1 e2 : Nat} (h1 : f1 < t.value) (h2 : f2 < t.value)
    (h : balanceCorrectionFactors f1 f2 t = .ok (f, e1, e2)) :
    (e1 * f1) % t.value = f ∧ (e2 * f2) % t.value = f ∧ f < t.value := HC.balance_spec ht h1 h2 h

/-- and it always succeeds for unit factors -/
theorem balance_total {t : Modulus} (ht : t.WF) {f1 f2 : Nat} (h1 : f1 < t.value) (h2 : f2 < t.value)
    (hc1 : Nat.Coprime f1 t.value) : ∃ r, balanceCorrectionFactors f1 f2 t = .ok r := HC.balance_total ht h1 h2 hc1

/-- SUM UNDER BALANCING: if phase_k ≡ f_k·m_k (mod t) then e1·phase1 + e2·phase2 ≡ f·(m1 + m2) (mod t) -/
theorem bgv_add_balanced {t : Int} {f1 f2 f e1 e2 p1 p2 m1 m2 : Int}
    (hp1 : p1 ≡ f1 * m1 [ZMOD t]) (hp2 : p2 ≡ f2 * m2 [ZMOD t])
    (he1 : e1 * f1 ≡ f [ZMOD t]) (he2 : e2 * f2 ≡ f [ZMOD t]) :
    e1 * p1 + e2 * p2 ≡ f * (m1 + m2) [ZMOD t] := HC.bgv_add_balanced hp1 hp2 he1 he2

/-- PRODUCT: correction factors multiply -/
theorem bgv_mul_factor {t : Int} {f1 f2 p1 p2 m1 m2 : Int}
    (hp1 : p1 ≡ f1 * m1 [ZMOD t]) (hp2 : p2 ≡ f2 * m2 [ZMOD t]) :
    p1 * p2 ≡ (f1 * f2) * (m1 * m2) [ZMOD t] := HC.bgv_mul_factor hp1 hp2

theorem prog_hom {S T : Type} [CommRing S] [CommRing T] (dec : S →+* T) (inp pl : Nat → S) (p : Prog) :
    dec (p.eval inp pl) = p.eval (fun k => dec (inp k)) (fun k => dec (pl k)) := HC.prog_hom dec inp pl p

/-- non-vacuity: sizes 3 × 2: output polynomial 2 collects the pairs (1,1), (2,0) -/
example : mulPairs 3 2 2 = [(1, 1), (2, 0)] := by decide

end HC.C02
