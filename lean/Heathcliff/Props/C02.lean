import Heathcliff.Proofs.C02X
import Heathcliff.Proofs.C02S
import Heathcliff.Proofs.C02SB
import Heathcliff.Proofs.GenEvalSq
import Heathcliff.Proofs.C02W
import Heathcliff.Proofs.C02V
import Heathcliff.Proofs.C02K
import Heathcliff.Proofs.GenEval
import Heathcliff.Proofs.GenScalingSpec
import Heathcliff.Proofs.GenPolySpec
import Heathcliff.Proofs.GenEvalCt
import Heathcliff.Proofs.GenEvalCt3
import Heathcliff.Proofs.C02PH
import Heathcliff.Proofs.C02PW
import Heathcliff.Proofs.C02PG
import Heathcliff.Proofs.C02PGW
import Heathcliff.Proofs.C02PF
import Heathcliff.Proofs.C02PFW
import Heathcliff.Proofs.C02PRW

/- Property theorems only (statements verbatim; proofs are the helper lemmas of Heathcliff/Proofs). -/
namespace HC.C02
open HC
open Finset
variable {R : Type} [CommRing R]

/-- INDEX ARITHMETIC: for output polynomial i the loop visits exactly the pairs (a, b), a < n1, b < n2, a + b = i, each once -/
theorem mulPairs_spec {n1 n2 i : Nat} (h1 : 1 ≤ n1) (h2 : 1 ≤ n2) (hi : i < n1 + n2 - 1) :
    (mulPairs n1 n2 i).Nodup ∧ ∀ a b, (a, b) ∈ mulPairs n1 n2 i ↔ (a < n1 ∧ b < n2 ∧ a + b = i) := HC.mulPairs_spec h1 h2 hi

/-- PRODUCT: the polynomials d_i = Σ_{(a,b) ∈ mulPairs} c_a·e_b, i < n1+n2-1, have phase(c)·phase(e) — for every pair of sizes -/
theorem ct_mul_phase {n1 n2 : Nat} (h1 : 1 ≤ n1) (h2 : 1 ≤ n2) (c e : Nat → R) (s : R) :
    ctPhase (n1 + n2 - 1) (fun i => ((mulPairs n1 n2 i).map (fun p => c p.1 * e p.2)).sum) s
      = ctPhase n1 c s * ctPhase n2 e s := HC.ct_mul_phase h1 h2 c e s

/-- ADD / SUB of ciphertexts of different sizes: the shorter operand is zero-extended; in a subtraction the polynomials taken
    over from a larger subtrahend are negated -/
theorem translate_phase (n1 n2 : Nat) (sub : Bool) (a b : Nat → R) (s : R) :
    ctPhase (max n1 n2) (fun i => ((translateShape n1 n2).map (trVal sub a b)).getD i 0) s
      = if sub then ctPhase n1 a s - ctPhase n2 b s else ctPhase n1 a s + ctPhase n2 b s := HC.translate_phase n1 n2 sub a b s

/-- negation -/
theorem negate_phase (n : Nat) (a : Nat → R) (s : R) : ctPhase n (fun i => - a i) s = - ctPhase n a s := HC.negate_phase n a s

/-- multiplication by a plaintext polynomial p (every ciphertext polynomial multiplied by p) -/
theorem mul_plain_phase (n : Nat) (a : Nat → R) (p s : R) : ctPhase n (fun i => a i * p) s = ctPhase n a s * p := HC.mul_plain_phase n a p s

/-- adding a plaintext touches only c_0 -/
theorem add_plain_phase (n : Nat) (hn : 1 ≤ n) (a : Nat → R) (p s : R) :
    ctPhase n (fun i => if i = 0 then a i + p else a i) s = ctPhase n a s + p := HC.add_plain_phase n hn a p s

/-- BALANCING: whenever `balance_correction_factors` succeeds, e1·f1 ≡ e2·f2 ≡ f (mod t) and f < t -/
theorem balance_spec {t : Modulus} (ht : t.WF) {f1 f2 f e1 e2 : Nat} (h1 : f1 < t.value) (h2 : f2 < t.value)
    (h : balanceCorrectionFactors f1 f2 t = .ok (f, e1, e2)) :
    (e1 * f1) % t.value = f ∧ (e2 * f2) % t.value = f ∧ f < t.value := HC.balance_spec ht h1 h2 h

/-- and it always succeeds for unit factors -/
theorem balance_total {t : Modulus} (ht : t.WF) {f1 f2 : Nat} (h1 : f1 < t.value) (h2 : f2 < t.value)
    (hc1 : Nat.Coprime f1 t.value) : ∃ r, balanceCorrectionFactors f1 f2 t = .ok r := HC.balance_total ht h1 h2 hc1

/-- SUM UNDER BALANCING: if phase_k ≡ f_k·m_k (mod t) then e1·phase1 + e2·phase2 ≡ f·(m1 + m2) (mod t) -/
theorem bgv_add_balanced {t : Int} {f1 f2 f e1 e2 p1 p2 m1 m2 : Int}
    (hp1 : p1 ≡ f1 * m1 [ZMOD t]) (hp2 : p2 ≡ f2 * m2 [ZMOD t])
    (he1 : e1 * f1 ≡ f [ZMOD t]) (he2 : e2 * f2 ≡ f [ZMOD t]) :
    e1 * p1 + e2 * p2 ≡ f * (m1 + m2) [ZMOD t] := HC.bgv_add_balanced hp1 hp2 he1 he2

/-- PRODUCT: correction factors multiply -/
theorem bgv_mul_factor {t : Int} {f1 f2 p1 p2 m1 m2 : Int}
    (hp1 : p1 ≡ f1 * m1 [ZMOD t]) (hp2 : p2 ≡ f2 * m2 [ZMOD t]) :
    p1 * p2 ≡ (f1 * f2) * (m1 * m2) [ZMOD t] := HC.bgv_mul_factor hp1 hp2

theorem prog_hom {S T : Type} [CommRing S] [CommRing T] (dec : S →+* T) (inp pl : Nat → S) (p : Prog) :
    dec (p.eval inp pl) = p.eval (fun k => dec (inp k)) (fun k => dec (pl k)) := HC.prog_hom dec inp pl p

/-- non-vacuity: sizes 3 × 2: output polynomial 2 collects the pairs (1,1), (2,0) -/
example : mulPairs 3 2 2 = [(1, 1), (2, 0)] := by decide


/-! ### evaluator operations of the model are the ring operations on phases, for all sizes 2..16
    (statements, hypothesis bundles and non-vacuity instances: Heathcliff/Proofs/C02V.lean, section "Property theorems") -/

/-- V1 residues: `ctNegate` succeeds on a canonical ciphertext, keeps size / representation / correction factor, the result is
    canonical and every residue is `(q_i − x) mod q_i` -/
theorem ctNegate_spec : type_of% @HC.ctNegate_spec := @HC.ctNegate_spec

/-- V1 phase: in every commutative ring in which `q_i = 0`, for every secret `s` (and every reading `e` of the positions),
    the phase Σ_k c_k s^k of component `i` is negated -/
theorem ctNegate_phase : type_of% @HC.ctNegate_phase := @HC.ctNegate_phase

/-- V2 residues: `ctTranslate` (add / sub of canonical ciphertexts of ANY two sizes, same representation and correction factor)
    succeeds; the result has size max(n1, n2), is canonical, and polynomial k is `a_k ± b_k` where both exist, `a_k` beyond the
    size of b, and `b_k` resp. `−b_k` (subtraction) beyond the size of a -/
theorem ctTranslate_spec : type_of% @HC.ctTranslate_spec := @HC.ctTranslate_spec

/-- V2 phase: in every commutative ring in which `q_i = 0`, the phase of the result of `ctTranslate` is the sum resp. difference
    of the phases — for all pairs of sizes (this is `translate_phase` of C02K instantiated with the model's output) -/
theorem ctTranslate_phase : type_of% @HC.ctTranslate_phase := @HC.ctTranslate_phase

/-- V2 refusals: operands in different representations are refused; different correction factors are not handled by
    `ctTranslate` itself (error; they go through `ctTranslateBalanced`) -/
theorem ctTranslate_refuse_ntt : type_of% @HC.ctTranslate_refuse_ntt := @HC.ctTranslate_refuse_ntt

theorem ctTranslate_error_cf : type_of% @HC.ctTranslate_error_cf := @HC.ctTranslate_error_cf

/-- V3 refusal: the dyadic product needs both operands in NTT form -/
theorem ctMultiplyDyadic_refuse : type_of% @HC.ctMultiplyDyadic_refuse := @HC.ctMultiplyDyadic_refuse

/-- V3 residues: the dyadic product of canonical NTT-form ciphertexts of ANY sizes n1, n2 with n1 + n2 − 1 ≤ 16 (a larger product is
    refused as in the code: `ctMultiplyDyadic_refuse_size`) succeeds, has n1 + n2 − 1 canonical polynomials, and residue (i, j) of polynomial k is Σ_{x + y = k} a_x[i][j] · b_y[i][j] mod q_i (the pairs are those of
    `mulPairs`, characterised by `mulPairs_spec`) -/
theorem ctMultiplyDyadic_spec : type_of% @HC.ctMultiplyDyadic_spec := @HC.ctMultiplyDyadic_spec

/-- V3 phase: in every commutative ring in which `q_i = 0`, reading the NTT slots through orthogonal idempotents `e`
    (`e j = δ_j` in the product ring of the slots, or `e = δ_{j0}` for one slot), the phase of the result is the PRODUCT of
    the phases, for every secret `s` — `ct_mul_phase` of C02K instantiated with the model's output -/
theorem ctMultiplyDyadic_phase : type_of% @HC.ctMultiplyDyadic_phase := @HC.ctMultiplyDyadic_phase

/-- one NTT slot, in `ZMod q_i` (the reading `e = δ_j`; `q_i = 0` holds by `ZMod.natCast_self`): the slot-wise phase of the
    dyadic product is the product of the slot-wise phases, for every value `s` of the secret in that slot -/
theorem ctMultiplyDyadic_slot : type_of% @HC.ctMultiplyDyadic_slot := @HC.ctMultiplyDyadic_slot

/-- V3 coefficient form (NTT multiplicativity of C09): for a level whose tables are well formed, the coefficient form
    `intt` of result polynomial k is Σ_{x + y = k} (intt a_x) ⊛ (intt b_y), the NEGACYCLIC products modulo (X^N + 1, q_i)
    (`negMulNat`), summed modulo q_i — i.e. the coefficient-form ciphertext is the Cauchy product of the coefficient-form
    operands in Z_{q_i}[X]/(X^N + 1), whose phase is the product of the phases by `ct_mul_phase` -/
theorem ctMultiplyDyadic_coeff : type_of% @HC.ctMultiplyDyadic_coeff := @HC.ctMultiplyDyadic_coeff

/-- V5 refusal: `multiply_plain_ntt` needs the ciphertext in NTT form -/
theorem ctMultiplyPlainNtt_refuse : type_of% @HC.ctMultiplyPlainNtt_refuse := @HC.ctMultiplyPlainNtt_refuse

/-- V5 residues: every polynomial of a canonical NTT-form ciphertext is multiplied dyadically by the canonical plaintext -/
theorem ctMultiplyPlainNtt_spec : type_of% @HC.ctMultiplyPlainNtt_spec := @HC.ctMultiplyPlainNtt_spec

/-- V5 phase: the phase is multiplied by the value of the plaintext (NTT slots read through orthogonal idempotents) -/
theorem ctMultiplyPlainNtt_phase : type_of% @HC.ctMultiplyPlainNtt_phase := @HC.ctMultiplyPlainNtt_phase

/-- V4 product: `bgvMultiply` is the dyadic product (all conclusions of `ctMultiplyDyadic_spec` / `_phase` apply to `c`) with the
    correction factor replaced by the product of the factors modulo t -/
theorem bgvMultiply_spec : type_of% @HC.bgvMultiply_spec := @HC.bgvMultiply_spec

theorem bgvMultiply_refuse : type_of% @HC.bgvMultiply_refuse := @HC.bgvMultiply_refuse

/-- the product of unit correction factors is a unit in range, so the product of canonical BGV ciphertexts is canonical -/
theorem bgvMultiply_canon : type_of% @HC.bgvMultiply_canon := @HC.bgvMultiply_canon

/-- V4 sum, equal factors: no balancing -/
theorem ctTranslateBalanced_same : type_of% @HC.ctTranslateBalanced_same := @HC.ctTranslateBalanced_same

/-- V4 refusal: a first correction factor that is not a unit modulo t cannot be balanced -/
theorem ctTranslateBalanced_refuse : type_of% @HC.ctTranslateBalanced_refuse := @HC.ctTranslateBalanced_refuse

/-- V4 sum, different factors: with the multipliers (f, e1, e2) returned by `balanceCorrectionFactors` (characterised by
    `balance_spec`: e1·f1 ≡ e2·f2 ≡ f mod t), the result has correction factor f and polynomial k is
    `e1·a_k ± e2·b_k` (all residue-wise mod q_i) with the tail of the longer operand scaled (and negated for a subtrahend) -/
theorem ctTranslateBalanced_spec : type_of% @HC.ctTranslateBalanced_spec := @HC.ctTranslateBalanced_spec

/-- V4 phase: in every commutative ring in which `q_i = 0`, phase(result) = e1·phase(a) ± e2·phase(b) -/
theorem ctTranslateBalanced_phase : type_of% @HC.ctTranslateBalanced_phase := @HC.ctTranslateBalanced_phase

/-- V4 totality: for unit correction factors below t the balanced add / sub always succeeds -/
theorem ctTranslateBalanced_total : type_of% @HC.ctTranslateBalanced_total := @HC.ctTranslateBalanced_total

/-- V4 decoding (per coefficient, `Spec.bgvDecode = map (c02v_dec t cf)`): if the exact phase coefficient of the balanced sum is
    congruent to e1·x1 ± e2·x2 modulo t (which the phase theorem gives as long as the integers do not wrap modulo Q), then
    decoding with the new factor f gives the sum resp. difference of the operands' decodings modulo t -/
theorem bgvDecode_balanced : type_of% @HC.bgvDecode_balanced := @HC.bgvDecode_balanced

/-- V4 decoding of a product: correction factors multiply, decodings multiply -/
theorem bgvDecode_mul : type_of% @HC.bgvDecode_mul := @HC.bgvDecode_mul

/-- V4 decoding, whole polynomials under `Spec.bgvDecode` -/
theorem bgvDecode_balanced_poly : type_of% @HC.bgvDecode_balanced_poly := @HC.bgvDecode_balanced_poly

/-- `CtCanon` is what the model's validator `ctValid` (`Ciphertext::is_valid_for`) establishes for a non-empty ciphertext -/
theorem CtCanon_of_ctValid : type_of% @HC.CtCanon.of_ctValid := @HC.CtCanon.of_ctValid


/-! ### squaring: the model's OWN squaring routines (`bgvSquare`, `ckksSquare`: size-2 fast path `c0², c0·c1 + c0·c1, c1²`, fallback to the
    product routine for every other size — mirrors of `bgv_square` / `ckks_square`, which the driver now runs for `ct_op square`) are the
    products of the ciphertext with itself; every `_spec` / `_phase` theorem of the product transfers (Heathcliff/Proofs/C02S.lean) -/

/-- S1 (BGV): `bgvSquare l x = bgvMultiply l x x` for EVERY canonical ciphertext `x` (sizes 2..16, either representation; refusals
    included: coefficient form, result size 2n − 1 > 16).  Hypotheses: the moduli are well-formed word moduli (`c02v_QsWF`: what
    `Modulus::new` builds — Barrett reduction is exact), the ciphertext is canonical (`CtCanon`: what `is_valid_for` establishes) — needed
    because the fast path computes `c0·c1 + c0·c1` where the product routine computes `(0 + c0·c1) + c1·c0`: the two agree as VALUES only
    on reduced residues and equal component lengths. -/
theorem bgvSquare_eq : type_of% @HC.bgvSquare_eq := @HC.bgvSquare_eq

/-- S1 (CKKS / dyadic part): `ckksSquare l x = ctMultiplyDyadic l x x` for every canonical ciphertext -/
theorem ckksSquare_eq : type_of% @HC.ckksSquare_eq := @HC.ckksSquare_eq

/-- S2 residues: the square of a canonical NTT-form ciphertext of size n ≤ 8 succeeds, has 2n − 1 canonical polynomials, and residue
    (i, j) of polynomial k is Σ_{x + y = k} a_x[i][j] · a_y[i][j] mod q_i -/
theorem ckksSquare_spec : type_of% @HC.ckksSquare_spec := @HC.ckksSquare_spec

/-- S2 phase: phase(square x) = phase(x)² in every commutative ring in which `q_i = 0`, for every secret -/
theorem ckksSquare_phase : type_of% @HC.ckksSquare_phase := @HC.ckksSquare_phase

/-- S2 (BGV): success on canonical BGV ciphertexts of size ≤ 8 with unit factor; result canonical, factor cf² mod t (a unit), polynomial
    part = the dyadic square -/
theorem bgvSquare_spec : type_of% @HC.bgvSquare_spec := @HC.bgvSquare_spec

theorem bgvSquare_phase : type_of% @HC.bgvSquare_phase := @HC.bgvSquare_phase

theorem bgvSquare_cf : type_of% @HC.bgvSquare_cf := @HC.bgvSquare_cf

/-- refusals: coefficient form; more than 8 polynomials (result size > 16), whatever the data are -/
theorem bgvSquare_refuse : type_of% @HC.bgvSquare_refuse := @HC.bgvSquare_refuse
theorem bgvSquare_refuse_size : type_of% @HC.bgvSquare_refuse_size := @HC.bgvSquare_refuse_size
theorem ckksSquare_refuse : type_of% @HC.ckksSquare_refuse := @HC.ckksSquare_refuse
theorem ckksSquare_refuse_size : type_of% @HC.ckksSquare_refuse_size := @HC.ckksSquare_refuse_size

/-- S1 (BFV): `bfvSquare l T x = bfvMultiply l T x x` — the model of `bfv_square` (BEHZ with the size-2 fast path `c0², c0·c1 + c0·c1, c1²`
    in base q and base Bsk) is the BEHZ product of the ciphertext with itself, for every ciphertext with canonical polynomials at a level
    satisfying `MulOK` (any size, refusals included) -/
theorem bfvSquare_eq : type_of% @HC.bfvSquare_eq := @HC.bfvSquare_eq

/-- S2 (BFV): totality, shape, canonicity and closed form of the square for n ≤ 8 polynomials -/
theorem bfvSquare_ok : type_of% @HC.bfvSquare_ok := @HC.bfvSquare_ok

theorem bfvSquare_refuse_ntt : type_of% @HC.bfvSquare_refuse_ntt := @HC.bfvSquare_refuse_ntt
theorem bfvSquare_refuse_size : type_of% @HC.bfvSquare_refuse_size := @HC.bfvSquare_refuse_size

/-- non-vacuity: the fast path (size 2 → 3, factor 2·2 mod 5 = 4) and the fallback (size 3 → 5) on the example BGV level -/
theorem bgvSquare_witness_fast : type_of% @HC.c02s_witness_fast := @HC.c02s_witness_fast
theorem bgvSquare_witness_fallback : type_of% @HC.c02s_witness_fallback := @HC.c02s_witness_fallback

/-! ### BEHZ `bfvMultiply` of the model end to end: totality and shape for all sizes, exact integer semantics per coefficient (one alpha < |q| per coefficient), ring-level phase identity; constants derived from RNSTool.new
    (statements, hypothesis bundles and non-vacuity instances: Heathcliff/Proofs/C02W.lean, section "Property theorems") -/

/-- W1 (totality, shape, closed form).  For coefficient-form operands of ANY sizes ≥ 1 whose polynomials are canonical at a level
    satisfying `MulOK` and whose destination size `resize` accepts (`ctResizeRefuses … = false`, i.e. 2 ≤ n1 + n2 − 1 ≤ 16; anything
    else is refused: `bfvMultiply_refuse_size`), `bfvMultiply` succeeds (no overflow / out-of-range branch is reachable); the result has
    `size a + size b − 1` canonical polynomials, stays in coefficient form, keeps the correction factor, and every residue is the
    closed form `c02w_mulVal`. -/
theorem bfvMultiply_ok : type_of% @HC.bfvMultiply_ok := @HC.bfvMultiply_ok

/-- W1 for valid BFV ciphertexts: canonical operands with `size a + size b − 1 ≤ 16` give a canonical ciphertext -/
theorem bfvMultiply_canon : type_of% @HC.bfvMultiply_canon := @HC.bfvMultiply_canon

/-- refusal: an operand in NTT form -/
theorem bfvMultiply_refuse_ntt : type_of% @HC.bfvMultiply_refuse_ntt := @HC.bfvMultiply_refuse_ntt

/-- refusal (size): `resize` comes first in `bfv_multiply`; a destination size n1 + n2 − 1 that it refuses (1, or more than 16)
    is refused whatever the operands and the level are -/
theorem bfvMultiply_refuse_size : type_of% @HC.bfvMultiply_refuse_size := @HC.bfvMultiply_refuse_size

/-- refusal (size) of the dyadic product (`ckks_multiply`, dyadic step of `bgv_multiply`) -/
theorem ctMultiplyDyadic_refuse_size : type_of% @HC.ctMultiplyDyadic_refuse_size := @HC.ctMultiplyDyadic_refuse_size

/-- refusal: an operand without polynomials (after the lifts of both operands succeeded) -/
theorem bfvMultiply_refuse_empty : type_of% @HC.bfvMultiply_refuse_empty := @HC.bfvMultiply_refuse_empty

/-- W2, operands: the lifted coefficient `c02w_liftZ` of a canonical polynomial is congruent to the input residue modulo every
    q_i and satisfies `2·m̃·|X| ≤ Q·(m̃ + 2|q|)` (|X| ≤ Q/2 + |q|·Q/m̃, m̃ = 2^32): the "small BEHZ offset" -/
theorem bfvLift_spec : type_of% @HC.bfvLift_spec := @HC.bfvLift_spec

/-- W2, exact integer semantics of every output coefficient: under the window condition `c02w_Window`, for every output
    polynomial `k` and coefficient `c` there is ONE `α < |q|` (the fast-floor error) such that for every prime q_i the residue
    returned by the model is `⌊t·Z_k[c]/Q⌋ − α  mod q_i`, where `Z_k = Σ_{x+y=k} X_x ⋆ Y_y` over ℤ[X]/(X^N+1) is formed from the
    lifted operand coefficients (`bfvLift_spec`); the Montgomery correction is exact and Shenoy–Kumaresan is exact in the window. -/
theorem bfvMultiply_coeff : type_of% @HC.bfvMultiply_coeff := @HC.bfvMultiply_coeff

/-- W2 with every hypothesis discharged from the model's constructors: level tables well formed, tool built by `RNSBase.new` +
    `RNSTool.new` (auxiliary moduli well formed and ≥ 2^61 − 2^54), Bsk tables built by `NTTTables.new`, `min(n1,n2)·N ≤ 2^30` -/
theorem bfvMultiply_coeff_of_new : type_of% @HC.bfvMultiply_coeff_of_new := @HC.bfvMultiply_coeff_of_new

/-- W3 (ring form).  In ANY commutative ring `S` with an element `ξ`, `ξ^N = −1` (e.g. `ℤ[X]/(X^N+1)` or `ℤ_Q[X]/(X^N+1)`) and for ANY
    secret `s ∈ S`: there are integer polynomials `D_k` (the exact lifts of the output polynomials: every residue the model returns
    is `D_k[c] mod q_i`) and `E_k` with `0 ≤ E_k[c] < |q|·Q` such that
    `Q · phase_s(D) + phase_s(E) = t · phase_s(X) · phase_s(Y)`, i.e. `phase(result) = (t·phase(X)·phase(Y) − phase_s(E))/Q`,
    where `X`, `Y` are the lifted operands of `bfvLift_spec` (≡ the inputs modulo every q_i, size ≤ Q/2 + |q|Q/2^32). -/
theorem bfvMultiply_phase : type_of% @HC.bfvMultiply_phase := @HC.bfvMultiply_phase

/-! ### translator tie (phase 3): `Evaluator::balance_correction_factors` (src/evaluator.rs) generated into Gen/EvalFns.lean equals
     `balanceCorrectionFactors` of Model/Evaluator.lean (Proofs/GenEval.lean).  The hypotheses are the types of the parameters
     (`factor2 : u64`), the domain of the `try_invert_u64_mod_u64` tie (`factor1 < 2^63`, the `as i64` casts) and a well-formed plain
     modulus (2 ≤ t < 2^61 with its Barrett ratio: what `Modulus::new` builds).  On that domain NONE of the overflow-checked i64
     operations of the code that the hand model leaves unchecked (`x as i64 - t as i64`, `abs`, `+`, `/`, `%`, `q * b`) can trap: the
     proof carries the invariant of the extended Euclid (0 ≤ a ≤ prev_a ≤ t, alternating cofactor signs, |b|·prev_a + |prev_b|·a = t). -/
theorem gen_balance_correction_factors_eq {t : Modulus} (ht : t.WF) (f1 f2 : Nat) (h1 : f1 < 2^63) (h2 : f2 < 2^64) :
    GenE.balance_correction_factors f1 f2 t = balanceCorrectionFactors f1 f2 t := HC.gy_balance_correction_factors_eq ht f1 f2 h1 h2

/-- the closure `sum_abs` of the code = |bal x| + |bal y| of the hand model (no i64 trap below 2^62) -/
theorem gen_balance_sum_abs_eq (t x y : Nat) (ht : t < 2^61) (hx : x < 2^62) (hy : y < 2^62) :
    GenE.balance_correction_factors_closure1 t (t >>> 1) x y = .ok (((gy_bal t x).natAbs + (gy_bal t y).natAbs : Nat) : Int) :=
  HC.gy_closure1_eq t x y ht hx hy

/-- the generated loop = the hand model's `balanceLoop` followed by the final `multiply_u64_mod`, from any state satisfying the Euclid invariant -/
theorem gen_balance_loop_eq {t : Modulus} (ht : t.WF) (f1 fuel : Nat) (prevA a prevB b : Int) (e1 e2 : Nat) (sum : Int)
    (hI : gy_Inv t.value prevA a prevB b) :
    GenE.balance_correction_factors_loop1 f1 t t.value (t.value >>> 1) fuel e1 e2 sum prevA prevB a b
    = (balanceLoop t fuel prevA a prevB b e1 e2 sum >>= fun r => mulMod r.1 f1 t >>= fun f => pure (f, r.1, r.2)) :=
  HC.gy_loop_eq ht f1 fuel prevA a prevB b e1 e2 sum hI


/-! ### BEHZ multiply: noise growth bound, exact decoding of the product, soundness of the harness's conservative budget rule, model-level `bfvDecrypt (bfvMultiply a b) = trim (decode a * decode b)`
    (statements, hypothesis bundles and non-vacuity instances: Heathcliff/Proofs/C02X.lean, section "Property theorems") -/

/-- X1, operands (the invariant-noise convention of `Spec.budget`): every phase coefficient splits as `t·x = Q·m + ν` with
    `ν = [t·x]_Q` the centred residue measured by the budget (`c07l_v true t Q x`), `2|ν| ≤ Q`, `m = c02x_msg t Q x` -/
theorem bfv_noise_split : type_of% @HC.bfv_noise_split := @HC.bfv_noise_split

/-- X1 (ANY operand sizes ≥ 1, any integer secret key).  With the exact centred phases `x_a, x_b, x_r` (`Spec.phase`) of the
    operands and of the result of `bfvMultiply`, `Q = Π q_i`, `t·x_a = Q·m_a + ν_a`, `t·x_b = Q·m_b + ν_b` (`bfv_noise_split`),
    `‖ν_a‖∞ ≤ V_a`, `‖ν_b‖∞ ≤ V_b`: for every coefficient `c`
    `t·x_r[c] = Q·μ + ν`,  `μ ≡ (m_a ⋆ m_b)[c] (mod t)` (⋆ negacyclic over ℤ),  `2·2^33·|ν| ≤ c02x_F N t |q| ‖s‖₁ n_a n_b V_a V_b`,
    i.e. `‖ν_mul‖∞ ≤ N·t·(½+|q|/2^32)·(G_a·V_b + G_b·V_a) + N·(V_a+2V_b)/2 + t·|q|·G_r`, `G_x = Σ_{k<n_x}‖s‖₁^k`, `G_r = Σ_{k<n_a+n_b−1}‖s‖₁^k`. -/
theorem bfvMultiply_noise : type_of% @HC.bfvMultiply_noise := @HC.bfvMultiply_noise

/-- X1 for two fresh-size ciphertexts (2 × 2 → size 3, phase `c0 + c1·s + c2·s²`): the bound with the geometric sums spelled out -/
theorem bfvMultiply_noise_2x2 : type_of% @HC.bfvMultiply_noise_2x2 := @HC.bfvMultiply_noise_2x2

/-- X2 (decoding, ANY sizes): if the operand noises are below Q/2 and the bound `F` of `bfvMultiply_noise` is below `2^33·Q`
    (i.e. `‖ν_mul‖∞ < Q/2`), the exact decoding of the product's phase is the negacyclic product modulo `(X^N+1, t)` of the
    exact decodings of the operands' phases -/
theorem bfvMultiply_decode : type_of% @HC.bfvMultiply_decode := @HC.bfvMultiply_decode

/-- X3 (model level): `bfvDecrypt (bfvMultiply a b) = trim (decode(a) ⋆ decode(b) mod (X^N+1, t))` under the BEHZ decryption
    threshold `γ·F + 2^34·|q|·Q ≤ 2^33·Q·γ` (`‖ν_mul‖∞ ≤ Q·(½ − |q|/γ)`; it implies X2's condition `F < 2^33·Q`) -/
theorem bfvDecrypt_bfvMultiply : type_of% @HC.bfvDecrypt_bfvMultiply := @HC.bfvDecrypt_bfvMultiply

theorem c02x_noiseNorm_half : type_of% @HC.c02x_noiseNorm_half := @HC.c02x_noiseNorm_half

/-- X2, budget form (ANY sizes).  With the noise-growth factor `G = c02x_G N t |q| ‖s‖₁ n_a n_b`
    (`≈ N·t·(2^33+4|q|)·(G_a + G_b) + 3·2^33·N + 2^34·t·|q|·G_r`, scaled by 2^34) and any `L` with `G ≤ 2^(34+L)`:
    `budget(result) ≥ min(budget a, budget b, bits(Q) − 2) − L`. -/
theorem bfvMultiply_budget : type_of% @HC.bfvMultiply_budget := @HC.bfvMultiply_budget

/-- X2 from budgets (ANY sizes): if `G ≤ 2^(34+L)` and both operand budgets are at least `L + 2` bits, the decoding of the product
    is exact (X2's threshold holds) -/
theorem bfvMultiply_decode_of_budget : type_of% @HC.bfvMultiply_decode_of_budget := @HC.bfvMultiply_decode_of_budget

/-- X2, the harness rule `Prog::pred_mul` (harness/src/c02.rs: `min(pred a, pred b) − (log2 t + 2·log2 N + 10 + size a + size b)`)
    is SOUND for 2 × 2 products, for every secret with `‖s‖₁ ≤ N` (e.g. ternary), `t ≤ 2^lt`, `N = 2^k`:
    (i) the true budget of the product is at least `min(budget a, budget b) − (lt + 2k + 9)` — the rule subtracts `lt + 2k + 14`;
    (ii) whenever `min(budget a, budget b) ≥ lt + 2k + 10` (in particular whenever the rule predicts ≥ 1 bit from lower bounds of
    the operand budgets) the decoding of the product is exact. -/
theorem pred_mul_sound_2x2 : type_of% @HC.pred_mul_sound_2x2 := @HC.pred_mul_sound_2x2

/-- X3 with every hypothesis bundle discharged from the model's constructors (`RNSBase.new`, `RNSTool.new`, `NTTTables.new`; at most
    62 moduli, auxiliary moduli ≥ 2^61 − 2^54, `min(n_a, n_b)·N ≤ 2^30`): decryption of the product is the negacyclic product of the
    operands' exact decodings whenever the noise bound satisfies `F ≤ (2^33 − 1)·Q` (`‖ν_mul‖∞ ≤ Q/2·(1 − 2^-33)`; the BEHZ
    γ-correction costs nothing more because γ > 2^60) -/
theorem bfvDecrypt_bfvMultiply_of_new : type_of% @HC.bfvDecrypt_bfvMultiply_of_new := @HC.bfvDecrypt_bfvMultiply_of_new

/-- X2, the worst-case-sound form of the product rule for ANY operand sizes `n_a, n_b ≥ 2` (secret with `‖s‖₁ ≤ N`, `N = 2^k ≥ 2`,
    `t ≤ 2^lt`): (i) `budget(result) ≥ min(budget a, budget b) − (lt + (n_a+n_b−2)·k + 9)`; (ii) decoding of the product is exact
    whenever `min(budget a, budget b) ≥ lt + (n_a+n_b−2)·k + 10`.  The harness rule subtracts `lt + 2k + 10 + n_a + n_b`; it is
    covered by this worst-case bound exactly when `(n_a+n_b−4)·k ≤ n_a+n_b` (always for 2 × 2, see `pred_mul_sound_2x2`). -/
theorem pred_mul_sound_general : type_of% @HC.pred_mul_sound_general := @HC.pred_mul_sound_general

/-- X3 from budgets (ANY sizes): with `G ≤ 2^(34+L)`, both operand budgets `≥ L + 3` bits and γ ≥ 2^40, the model's decryption
    of the model's product is the negacyclic product modulo t of the operands' exact decodings -/
theorem bfvDecrypt_bfvMultiply_of_budget : type_of% @HC.bfvDecrypt_bfvMultiply_of_budget := @HC.bfvDecrypt_bfvMultiply_of_budget

/-- X3, end to end for two size-2 ciphertexts on a level built by the model's constructors, in the terms of the harness rule:
    whenever both operand budgets are at least `lt + 2k + 11` bits (in particular whenever `Prog::pred_mul`, which subtracts
    `lt + 2k + 14`, predicts ≥ 1 bit from lower bounds of the operand budgets), `bfvDecrypt (bfvMultiply a b)` succeeds and equals
    `trim (decode a ⋆ decode b mod (X^N+1, t))` -/
theorem pred_mul_decrypt_2x2_of_new : type_of% @HC.pred_mul_decrypt_2x2_of_new := @HC.pred_mul_decrypt_2x2_of_new

/-- `c02x_NoiseLe` is always satisfied by the norm `Spec.budget` is computed from -/
theorem c02x_noiseLe_norm : type_of% @HC.c02x_noiseLe_norm := @HC.c02x_noiseLe_norm

/-- X2, budget form with the multiplicative and the additive (BEHZ) parts separated (ANY sizes): if `c02x_G1 ≤ 2^(34+L1)` and
    `2^34·t·|q|·G_r ≤ 2^(34+L2)` then `budget(result) ≥ min(budget a, budget b) − L1 − 1` or `budget(result) ≥ bits(Q) − L2 − 3`
    (i.e. `budget(result) ≥ min(min(budget a, budget b) − L1 − 1, bits(Q) − L2 − 3)`) -/
theorem bfvMultiply_budget_split : type_of% @HC.bfvMultiply_budget_split := @HC.bfvMultiply_budget_split

/-- X2 from budgets, split form (ANY sizes): `c02x_G1 ≤ 2^(34+L1)`, additive part `≤ 2^(34+L2)`, both operand budgets `≥ L1 + 2`
    and `bits(Q) ≥ L2 + 3` give exact decoding of the product -/
theorem bfvMultiply_decode_of_budget_split : type_of% @HC.bfvMultiply_decode_of_budget_split := @HC.bfvMultiply_decode_of_budget_split

/-- X2, the harness rule `Prog::pred_mul` is SOUND for the directed shapes of the harness (2×2, 3×2, 2×3), for at most 8 moduli,
    `N = 2^k` with `1 ≤ k ≤ 8`, `‖s‖₁ ≤ N`, `t ≤ 2^lt`:
    (i) the rule's value `p = min(budget a, budget b) − (lt + 2k + 10 + n_a + n_b)` is a LOWER BOUND of the true budget of the product;
    (ii) when the rule predicts at least one bit the decoding of the product is exact. -/
theorem pred_mul_sound_small : type_of% @HC.pred_mul_sound_small := @HC.pred_mul_sound_small

/-- X1, chaining form: the invariant noise of the product (the quantity `Spec.budget` measures) is bounded by `F / 2^34`, so the
    result can be fed to the next `bfvMultiply_noise` -/
theorem bfvMultiply_noiseLe : type_of% @HC.bfvMultiply_noiseLe := @HC.bfvMultiply_noiseLe

/-- why X3 needs `n_a + n_b ≥ 3`: the product of two single-polynomial operands would have size 1, which `resize` refuses (as in
    the code: `[Invalid argument] Size invalid.`), so nothing reaches decryption — for every level and all operands -/
theorem bfvDecrypt_bfvMultiply_refuses_1x1 : type_of% @HC.bfvDecrypt_bfvMultiply_refuses_1x1 := @HC.bfvDecrypt_bfvMultiply_refuses_1x1

/-- refusal: operands in NTT form never reach decryption -/
theorem bfvDecrypt_bfvMultiply_refuses_ntt : type_of% @HC.bfvDecrypt_bfvMultiply_refuses_ntt := @HC.bfvDecrypt_bfvMultiply_refuses_ntt

theorem c02x_threshold_example : type_of% @HC.c02x_threshold_example := @HC.c02x_threshold_example

/-! ### translator tie, phase 4a: the BFV scaling behind `add_plain` / `sub_plain` (src/util/scaling_variant.rs, generated into
    `Heathcliff/Gen/ScalingFns.lean`); the `multiply_add_plain` half is restated in Props/C01.lean -/

/-- GENERATED = MODEL: `multiply_sub_plain`, generated from the Rust source, run on the flat destination buffer, IS the hand model
    `multiplySubPlain` on the corresponding `RnsPoly` (flattened again), successes and arithmetic traps alike.
    `plain.size ≤ l.n` is a hypothesis because the code has NO `assert!` here: a longer plaintext writes into the neighbouring
    component and ends in an out-of-bounds panic (non-empty chain), where the model refuses. -/
theorem gen_multiply_sub_plain_eq (l : Level) (cdp : Array MulOperand) (qModT upperHalf : Nat) (plain : Poly) (dest : List Nat)
    (hcdp : l.size ≤ cdp.size) (hp : plain.size ≤ l.n) (ht : l.t.value ≠ 0) (hq : qModT < 2^64)
    (hw : ∀ i, i < plain.size → plain.getD i 0 < 2^64) (hl : dest.length = l.size * l.n) (hB : dest.length < B64) :
    GenS.multiply_sub_plain dest l.qs.toList plain.size l.n l.t cdp.toList upperHalf qModT plain.toList =
      Except.map (flattenRns l.size l.n) (multiplySubPlain l cdp qModT upperHalf plain (unflattenRns l.size l.n dest)) :=
  HC.gz_multiply_sub_plain_eq l cdp qModT upperHalf plain dest hcdp hp ht hq hw hl hB

/-- ONE THEOREM (`sub_plain`, BFV): the code generated from `multiply_sub_plain` subtracts Δ(m_i) = round(Q·m_i/t) modulo q_j from
    coefficient i of component j and leaves the other words unchanged -/
theorem gen_multiply_sub_plain_spec {l : Level} {Q : Nat} {cdp : Array MulOperand} (h : ScalingOK l Q cdp) (plain : Poly) (dest : List Nat)
    (hp : plain.size ≤ l.n) (hm : ∀ i, i < plain.size → plain.getD i 0 < l.t.value)
    (hl : dest.length = l.size * l.n) (hB : dest.length < B64)
    (hd : ∀ j, j < l.size → ∀ i, i < plain.size → dest.getD (j * l.n + i) 0 < (l.q j).value) :
    GenS.multiply_sub_plain dest l.qs.toList plain.size l.n l.t cdp.toList ((l.t.value + 1) / 2) (Q % l.t.value) plain.toList =
      .ok ((List.range (l.size * l.n)).map fun p =>
        if p % l.n < plain.size then
          (dest.getD p 0 + (l.q (p / l.n)).value - deltaM Q l.t.value (plain.getD (p % l.n) 0) % (l.q (p / l.n)).value) % (l.q (p / l.n)).value
        else dest.getD p 0) :=
  HC.gen_multiply_sub_plain_spec h plain dest hp hm hl hB hd

/-- ONE THEOREM (`add_plain`, BFV): `multiply_add_plain` adds Δ(m_i) modulo q_j (= `HC.C01.gen_multiply_add_plain_spec`) -/
theorem gen_multiply_add_plain_spec : type_of% @HC.gen_multiply_add_plain_spec := @HC.gen_multiply_add_plain_spec

/-! ### translator tie, phase 4b: the coefficient-wise kernels of src/util/polysmallmod.rs (generated into `Heathcliff/Gen/PolyFns.lean`,
    `HC.GenP`; proofs and full statements in Proofs/GenPoly.lean, Proofs/GenPolySpec.lean; the seven kernels tied in phase 4c
    (Proofs/GenRns.lean) are not repeated here) -/

/-- `add(comp1, comp2, modulus, result)` = `zipM'` with `addMod` on the first `result.len()` words (body of `rnsAdd`); `assert!` refusal for shorter inputs -/
theorem gen_poly_add_eq : type_of% @HC.gp_poly_add_eq := @HC.gp_poly_add_eq

/-- `add_inplace` = `zipM'` with `addMod`; refusal when `comp2` is shorter -/
theorem gen_poly_add_inplace_eq : type_of% @HC.gp_poly_add_inplace_eq := @HC.gp_poly_add_inplace_eq

/-- `sub` = `zipM'` with `subMod` (body of `rnsSub`) -/
theorem gen_poly_sub_eq : type_of% @HC.gp_poly_sub_eq := @HC.gp_poly_sub_eq

/-- `negate` (zip: stops at the shorter slice, rest of `result` kept) -/
theorem gen_poly_negate_eq : type_of% @HC.gp_poly_negate_eq := @HC.gp_poly_negate_eq

/-- `negate` for equal lengths = `mapM'` with `negateMod` (body of `rnsNeg`) -/
theorem gen_poly_negate_model : type_of% @HC.gp_poly_negate_model := @HC.gp_poly_negate_model

/-- `add_scalar` (zip truncation) -/
theorem gen_poly_add_scalar_eq : type_of% @HC.gp_poly_add_scalar_eq := @HC.gp_poly_add_scalar_eq

/-- `sub_scalar` (zip truncation) -/
theorem gen_poly_sub_scalar_eq : type_of% @HC.gp_poly_sub_scalar_eq := @HC.gp_poly_sub_scalar_eq

/-- `multiply_scalar` (zip truncation) -/
theorem gen_poly_multiply_scalar_eq : type_of% @HC.gp_poly_multiply_scalar_eq := @HC.gp_poly_multiply_scalar_eq

/-- `multiply_scalar` for equal lengths = `mapM'` with `mulMod · scalar` (body of `rnsScale`) -/
theorem gen_poly_multiply_scalar_model : type_of% @HC.gp_poly_multiply_scalar_model := @HC.gp_poly_multiply_scalar_model

/-- `multiply_operand` (zip truncation) -/
theorem gen_poly_multiply_operand_eq : type_of% @HC.gp_poly_multiply_operand_eq := @HC.gp_poly_multiply_operand_eq

/-- `dyadic_product` = the hand model's `dyadicProduct` (body of `rnsDyadic`); inputs at least as long as `result` (shorter: index panic) -/
theorem gen_poly_dyadic_product_eq : type_of% @HC.gp_poly_dyadic_product_eq := @HC.gp_poly_dyadic_product_eq

/-- `dyadic_product_inplace` = `dyadicProduct` -/
theorem gen_poly_dyadic_product_inplace_eq : type_of% @HC.gp_poly_dyadic_product_inplace_eq := @HC.gp_poly_dyadic_product_inplace_eq

/-- `multiply_scalar_p`: the kernel applied to the consecutive `degree`-blocks of the flat buffer, block i with `moduli[i]` -/
theorem gen_poly_multiply_scalar_p_blocks : type_of% @HC.gp_poly_multiply_scalar_p_blocks := @HC.gp_poly_multiply_scalar_p_blocks

/-- ONE THEOREM (`add`): generated code computes (a + b) mod q coefficient-wise on canonical inputs -/
theorem gen_poly_add_spec : type_of% @HC.gen_poly_add_spec := @HC.gen_poly_add_spec

/-- ONE THEOREM (`add_inplace`) -/
theorem gen_poly_add_inplace_spec : type_of% @HC.gen_poly_add_inplace_spec := @HC.gen_poly_add_inplace_spec

/-- ONE THEOREM (`sub`): (a − b) mod q -/
theorem gen_poly_sub_spec : type_of% @HC.gen_poly_sub_spec := @HC.gen_poly_sub_spec

/-- ONE THEOREM (`negate_inplace`): (−a) mod q -/
theorem gen_poly_negate_inplace_spec : type_of% @HC.gen_poly_negate_inplace_spec := @HC.gen_poly_negate_inplace_spec

/-- ONE THEOREM (`multiply_scalar`): a·s mod q -/
theorem gen_poly_multiply_scalar_spec : type_of% @HC.gen_poly_multiply_scalar_spec := @HC.gen_poly_multiply_scalar_spec

/-- ONE THEOREM (`dyadic_product`): a·b mod q -/
theorem gen_poly_dyadic_product_spec : type_of% @HC.gen_poly_dyadic_product_spec := @HC.gen_poly_dyadic_product_spec

/-- non-vacuity of the hypotheses of `gen_poly_add_spec`: q = 97, (5, 96) + (95, 3) = (3, 2) -/
example : GenP.poly_add [5, 96] [95, 3] gz_m97 [0, 0] = .ok [3, 2] := by
  have h := HC.gen_poly_add_spec gz_m97_wf [5, 96] [95, 3] [0, 0] (by decide) (by decide) (by decide) (by decide)
  exact h

/-! ### translator tie, phases 4b' / 4d: the multi-component wrappers of polysmallmod.rs on the flat layout = the model's `RnsPoly` operations
    (Proofs/GenPolyRns.lean), and the ciphertext-level `negate_inplace` / `translate_inplace` of src/evaluator.rs (Proofs/GenEvalCt.lean) -/

/-- `add_inplace_p` on the flat layout = `rnsAdd` on `unflattenRns` -/
theorem gen_poly_add_inplace_p_model : type_of% @HC.gp_poly_add_inplace_p_model := @HC.gp_poly_add_inplace_p_model

/-- `sub_inplace_p` = `rnsSub` -/
theorem gen_poly_sub_inplace_p_model : type_of% @HC.gp_poly_sub_inplace_p_model := @HC.gp_poly_sub_inplace_p_model

/-- `negate_inplace_p` = `rnsNeg` -/
theorem gen_poly_negate_inplace_p_model : type_of% @HC.gp_poly_negate_inplace_p_model := @HC.gp_poly_negate_inplace_p_model

/-- `dyadic_product_inplace_p` = `rnsDyadic` -/
theorem gen_poly_dyadic_product_inplace_p_model : type_of% @HC.gp_poly_dyadic_product_inplace_p_model := @HC.gp_poly_dyadic_product_inplace_p_model

/-- `multiply_scalar_inplace_p` = `compsMap l.qs · (mulMod · scalar)` -/
theorem gen_poly_multiply_scalar_inplace_p_model : type_of% @HC.gp_poly_multiply_scalar_inplace_p_model := @HC.gp_poly_multiply_scalar_inplace_p_model

/-- `add_inplace_ps`: `rnsAdd` of the first `pcount` polynomials, the rest kept -/
theorem gen_poly_add_inplace_ps_model : type_of% @HC.gp_poly_add_inplace_ps_model := @HC.gp_poly_add_inplace_ps_model

/-- `sub_inplace_ps` -/
theorem gen_poly_sub_inplace_ps_model : type_of% @HC.gp_poly_sub_inplace_ps_model := @HC.gp_poly_sub_inplace_ps_model

/-- `negate_inplace_ps` -/
theorem gen_poly_negate_inplace_ps_model : type_of% @HC.gp_poly_negate_inplace_ps_model := @HC.gp_poly_negate_inplace_ps_model

/-- `multiply_scalar_inplace_ps` -/
theorem gen_poly_multiply_scalar_inplace_ps_model : type_of% @HC.gp_poly_multiply_scalar_inplace_ps_model := @HC.gp_poly_multiply_scalar_inplace_ps_model

/-- FLATTEN LEMMA: `flattenRns` of a list of `n`-blocks = their concatenation -/
theorem flattenRns_blocks : type_of% @HC.flattenRns_blocks := @HC.flattenRns_blocks

/-- `Evaluator::negate_inplace` (skeleton over the flat buffer) = `ctNegate` -/
theorem gen_ct_negate_inplace_eq : type_of% @HC.gc_negate_inplace_eq := @HC.gc_negate_inplace_eq

/-- … an invalid ciphertext is refused -/
theorem gen_ct_negate_inplace_refuses : type_of% @HC.gc_negate_inplace_refuses := @HC.gc_negate_inplace_refuses

/-- `Evaluator::translate_inplace` (add / sub), equal factors and equal sizes = `ctTranslate` -/
theorem gen_ct_translate_inplace_same_size : type_of% @HC.gc_translate_inplace_same_size := @HC.gc_translate_inplace_same_size

/-- PARTIAL (flat level): unequal factors: both operands scaled over all their polynomials, then the equal-factor routine -/
theorem gen_ct_translate_inplace_balance_partial : type_of% @HC.gc_translate_inplace_balance_partial := @HC.gc_translate_inplace_balance_partial

/-- PARTIAL (flat level): `size1 < size2`, subtraction: common part subtracted, tail copied and negated -/
theorem gen_ct_translate_inplace_sub_tail_partial : type_of% @HC.gc_translate_inplace_sub_tail_partial := @HC.gc_translate_inplace_sub_tail_partial

/-! ### translator tie, phase 4g: `Evaluator::translate_inplace` = `ctTranslate` / `ctTranslateBalanced` IN GENERAL (Proofs/GenEvalCt3.lean):
     all size pairs (the longer-second-operand tail is copied and, in a subtraction, negated; the longer-first-operand rest is kept) and
     unequal correction factors (BGV balancing: both operands scaled over ALL their polynomials, common factor, equal-factor routine).
     This closes the two `_partial` statements above (kept: the balanced theorem is proved through the first). -/
theorem gen_ct_translate_inplace_eq_general : type_of% @HC.gt_translate_inplace_eq_general := @HC.gt_translate_inplace_eq_general
theorem gen_ct_translate_inplace_balanced : type_of% @HC.gt_translate_inplace_balanced := @HC.gt_translate_inplace_balanced
theorem gen_ct_translate_inplace_top_eq : type_of% @HC.gt_translate_inplace_top_eq := @HC.gt_translate_inplace_top_eq
theorem gen_ct_translate_inplace_refuses_size : type_of% @HC.gt_translate_inplace_refuses_size := @HC.gt_translate_inplace_refuses_size
/-- non-vacuity: the hypothesis bundle of the two general theorems holds on the example BGV level (two moduli 17, n = 2, t = 5) for a
    size-2 and a size-3 ciphertext with factors 1 and 2, subtraction -/
example : HC.GenC.ct_translate_inplace (List.replicate 8 1) 2 1 (List.replicate 12 2) 3 2 true true true true false true
      HC.c02v_exLevel.qs.toList HC.c02v_exLevel.t HC.c02v_exLevel.n =
    Except.map (fun c => (HC.flattenCt HC.c02v_exLevel c, max 2 3, c.cf))
      (HC.ctTranslateBalanced HC.c02v_exLevel (HC.unflattenCt HC.c02v_exLevel 2 (List.replicate 8 1) true 1)
        (HC.unflattenCt HC.c02v_exLevel 3 (List.replicate 12 2) true 2) true) :=
  HC.gt_translate_inplace_balanced HC.c02v_exLevel _ _ 2 3 true 1 2 true (by decide) HC.c02v_exT_wf (by norm_num) (by norm_num)
    (Or.inr (by decide)) (by decide) (by decide) (by decide) (by decide) (by decide)
example : HC.GenC.ct_translate_inplace_eq (List.replicate 12 1) 3 1 (List.replicate 8 2) 2 1 false true true true false true
      HC.c02v_exLevel.qs.toList HC.c02v_exLevel.t HC.c02v_exLevel.n =
    Except.map (fun c => (HC.flattenCt HC.c02v_exLevel c, max 3 2, 1))
      (HC.ctTranslate HC.c02v_exLevel (HC.unflattenCt HC.c02v_exLevel 3 (List.replicate 12 1) true 1)
        (HC.unflattenCt HC.c02v_exLevel 2 (List.replicate 8 2) true 1) false) :=
  HC.gt_translate_inplace_eq_general HC.c02v_exLevel _ _ 3 2 true 1 false _ (Or.inr (by decide)) (by decide) (by decide) (by decide) (by decide) (by decide)

/-! ### THE PROGRAM-LEVEL HOMOMORPHISM THEOREM (BGV), by induction over programs of model operations
    (program syntax / evaluation / a-priori bookkeeping: Model/Program.lean; proofs: Proofs/C02P.lean, C02PL.lean, C02PH.lean; witness: C02PW.lean) -/

/-- HOM (BGV, ring operations).  For EVERY level the constructors build (`c02p_LevelOK`: tables, CRT base, decryption constants; any degree
    N = 2^k, any chain, any plain modulus), every secret key of length N, EVERY program over negate / add / sub (all size pairs, balancing of
    unequal correction factors included) / multiply, square (all size pairs) / multiply_plain, and every assignment of inputs:
    * each ciphertext input read by the program is canonical, NTT form, has the unit correction factor `(inB i).1`, and its exact phase is
      congruent modulo Q to some `v_i` with `v_i ≡ cf_i·M_i (mod t)`, `‖v_i‖∞ ≤ (inB i).2` (`c02p_Enc`; fresh: `v = m + t·e`, `c02p_enc_of_fresh`),
    * each plaintext input read is canonical (NTT form) with integer coefficient-form reading `PL k`, `‖PL k‖∞ ≤ plB k`,
    * the MODEL DOES NOT REFUSE the program (`eval = .ok r`; refusals propagate),
    * the decidable a-priori bound `BProg.noiseUB` (‖a ⋆ b‖ ≤ N‖a‖‖b‖, ‖e1·a ± e2·b‖ ≤ e1‖a‖ + e2‖b‖) returns `(f, V)` with `2·V < Q`;
    then `bgvDecrypt (eval prog)` succeeds and equals the shadow program evaluated in ℤ[X]/(X^N+1), read modulo t. -/
theorem hom_program_bgv {l : Level} (h : c02p_LevelOK l) {sk : Array Int} (hsk : sk.size = l.n) (cts : Nat → Ct) (pls : Nat → RnsPoly)
    (M PL : Nat → Nat → Int) (inB : Nat → Nat × Nat) (plB : Nat → Nat) (prog : BProg) {r : Ct}
    (hin : ∀ i ∈ prog.ctInputs, c02p_Enc l sk (cts i) (M i) (inB i).2 ∧ (cts i).cf = (inB i).1)
    (hpl : ∀ k ∈ prog.plInputs, RnsCanon l (pls k) ∧ c02p_PlainLift l (pls k) (PL k) ∧ ∀ j, j < l.n → (PL k j).natAbs ≤ plB k)
    (hev : prog.eval l cts pls = .ok r) {f V : Nat} (hub : prog.noiseUB l.t l.n inB plB = some (f, V))
    (hV : 2 * V < l.tool.baseQ.prod) :
    bgvDecrypt l sk r = .ok (Spec.trim (Array.ofFn (n := l.n) fun j => Spec.imod (prog.shadow l.n M PL j.val) l.t.value)) :=
  HC.hom_program_bgv h hsk cts pls M PL inB plB prog hin hpl hev hub hV

/-- the induction behind HOM: wherever the model succeeds the bookkeeping succeeds, returns the RESULT's correction factor, and the result
    encrypts the shadow value with phase norm at most the returned bound (so results can be fed to further programs) -/
theorem hom_program_bgv_noiseUB : type_of% @HC.hom_program_bgv_noiseUB := @HC.hom_program_bgv_noiseUB

/-- per operation, on EXACT phases (`Spec.phase`, what `bgvDecrypt_eq_spec` decodes), modulo Q, coefficient-wise; each also re-establishes
    the invariant (canonical, NTT form, unit correction factor) for its result -/
theorem ctNegate_exact_phase : type_of% @HC.c02p_negate_ph := @HC.c02p_negate_ph
/-- add / sub, ANY two sizes, equal factors (e1 = e2 = 1) or balanced: ph(r) ≡ e1·ph(a) ± e2·ph(b), e1·cf_a ≡ e2·cf_b ≡ cf_r (mod t) -/
theorem ctTranslateBalanced_exact_phase : type_of% @HC.c02p_translate_ph := @HC.c02p_translate_ph
/-- multiply / square, ANY two sizes: ph(r) ≡ ph(a) ⋆ ph(b) (negacyclic), cf_r = cf_a·cf_b mod t -/
theorem bgvMultiply_exact_phase : type_of% @HC.c02p_mul_ph := @HC.c02p_mul_ph
/-- multiply_plain (NTT-form plaintext with integer reading P): ph(r) ≡ ph(a) ⋆ P -/
theorem ctMultiplyPlainNtt_exact_phase : type_of% @HC.c02p_mulPlain_ph := @HC.c02p_mulPlain_ph

/-- decryption of any ciphertext satisfying the invariant with `2·V < Q` is its message modulo t -/
theorem bgvDecrypt_of_enc : type_of% @HC.c02p_decrypt_of_enc := @HC.c02p_decrypt_of_enc
/-- the input hypothesis from the usual description of a ciphertext: exact phase `cf·m + t·e`, `‖m‖ ≤ Bm`, `‖e‖ ≤ Be` -/
theorem enc_of_fresh : type_of% @HC.c02p_enc_of_fresh := @HC.c02p_enc_of_fresh
/-- the level bundle is what the constructors establish -/
theorem levelOK_of_built : type_of% @HC.c02p_levelOK_of_built := @HC.c02p_levelOK_of_built

/-- NON-VACUITY (N = 4, q = {97, 113}, t = 17, constructor-built level, two fresh ciphertexts, depth-2 program (x0 + x1)·(−x0) − x1 with a
    2×2 product and a mixed-size 3 − 2 subtraction): every hypothesis of HOM is discharged and the conclusion evaluates to (8, 10, 16, 3) -/
theorem hom_program_bgv_example : type_of% @HC.hom_program_bgv_example := @HC.hom_program_bgv_example
theorem hom_program_bgv_example_val : type_of% @HC.hom_program_bgv_example_val := @HC.hom_program_bgv_example_val

/-! ### levelled programs: the same operations plus `mod_switch_to_next` along a chain (Model/Program.lean `LProg`; Proofs/C02PM.lean, C02PG.lean,
    witness C02PGW.lean) -/

/-- BGV `mod_switch_to_next` on exact phases: for `phase(a) ≡ v (mod Q)` there are `v'`, `Δ` with `phase'(r) ≡ v' (mod Q')`,
    `q_L·v' = v + Δ`, `t ∣ Δ`, `‖Δ‖∞ ≤ q_L·t·Σ_{k<size} S^k` for every bound `S ≥ ‖s‖₁`; the result is canonical at the next level, in NTT form,
    with the unit correction factor `cf·q_L^{-1} mod t` -/
theorem modSwitchScaleNext_exact_phase : type_of% @HC.c02p_modswitch_ph := @HC.c02p_modswitch_ph

/-- … as a step of the induction: same message, norm `≤ V / q_L + t·Σ_{k<size} S^k` -/
theorem modSwitchScaleNext_enc : type_of% @HC.c02p_step_ms := @HC.c02p_step_ms

/-- HOM (BGV, levelled).  For every chain of constructor-built levels (`c02p_ChainOK`: bundles of every level, consecutive levels share
    moduli / tables / plain modulus), every secret with `‖s‖₁ ≤ S`, EVERY program over negate / add / sub / multiply / multiply_plain /
    mod_switch_to_next / relinearize (operands of different levels refused, switching below the last level refused, relinearisation of sizes
    above 3 outside the program class; if the program relinearises: `rk` is a key for s² satisfying the KEY EQUATION with errors `t·(…)`,
    `‖e_i‖∞ ≤ Be`, at a well-formed key level whose first moduli / tables are those of every level: `c02p_KeyLevelOf`, `c02p_RelinOK`),
    inputs as in HOM at their levels:
    if the model returns `(lv, r)` and the bookkeeping bound `V` satisfies `2·V < Q_lv`, then `bgvDecrypt` at level `lv` returns the shadow
    value modulo t. -/
theorem hom_program_bgv_levelled {chain : Nat → Level} {top : Nat} (hch : c02p_ChainOK chain top) {sk : Array Int}
    (hsk : sk.size = (chain top).n) {S : Nat} (hS : ∑ k ∈ range (chain top).n, (c02p_sk sk k).natAbs ≤ S)
    (kl : KeyLevel) (rk : KSKey) (e : Nat → Nat → Int) (G : Nat → Int) (A Be : Nat)
    (cts : Nat → Nat × Ct) (pls : Nat → Nat × RnsPoly) (M PL : Nat → Nat → Int) (inB : Nat → Nat × Nat × Nat × Nat)
    (plB : Nat → Nat × Nat) (prog : LProg) {lv : Nat} {r : Ct}
    (hrk : prog.usesRelin = true → ∀ c, c ≤ top → c02p_KeyLevelOf kl (chain c) ∧ c02p_RelinOK kl (chain c).size rk (c02p_sk sk) e G A Be)
    (hin : ∀ i ∈ prog.ctInputs, (cts i).1 ≤ top ∧ c02p_Enc (chain (cts i).1) sk (cts i).2 (M i) (inB i).2.2.2 ∧
        inB i = ((cts i).1, (cts i).2.cf, (cts i).2.polys.size, (inB i).2.2.2))
    (hpl : ∀ k ∈ prog.plInputs, RnsCanon (chain (pls k).1) (pls k).2 ∧ c02p_PlainLift (chain (pls k).1) (pls k).2 (PL k) ∧
        (∀ j, j < (chain top).n → (PL k j).natAbs ≤ (plB k).2) ∧ (plB k).1 = (pls k).1)
    (hev : prog.eval chain kl rk cts pls = .ok (lv, r)) {st : Nat × Nat × Nat} {V : Nat}
    (hub : prog.noiseUB chain kl A Be S inB plB = some (st.1, st.2.1, st.2.2, V)) (hV : 2 * V < (chain lv).tool.baseQ.prod) :
    bgvDecrypt (chain lv) sk r = .ok (Spec.trim (Array.ofFn (n := (chain lv).n) fun j =>
      Spec.imod (prog.shadow (chain top).n M PL j.val) (chain lv).t.value)) :=
  HC.hom_program_bgv_levelled hch hsk hS kl rk e G A Be cts pls M PL inB plB prog hrk hin hpl hev hub hV

/-- the induction behind it (level stays within the chain, bookkeeping = (level, factor, size, bound) of the result) -/
theorem hom_program_bgv_levelled_inv : type_of% @HC.c02p_lprog_inv := @HC.c02p_lprog_inv

/-- BGV relinearisation (size 3 → 2) on exact phases: phase(r) ≡ phase(a) + ν (mod Q), t ∣ ν, P·‖ν‖∞ ≤ dsz·A·N·Be + P·t·(1 + ‖s‖₁) -/
theorem relinearize_exact_phase : type_of% @HC.c02p_relin_ph := @HC.c02p_relin_ph
/-- … as a step of the induction: same message and factor, norm `≤ V + ⌊(dsz·A·N·Be + P·t·(1 + S)) / P⌋` -/
theorem relinearize_enc : type_of% @HC.c02p_step_relin := @HC.c02p_step_relin

/-- NON-VACUITY on a two-level chain built by `Drv.Sch.mkLevel` (q = {97, 113, 193} → {97, 113}, t = 17): program
    mod_switch(x0·x1) − mod_switch(x0); result at the lower level with correction factor 3; decrypts to (0, 3, 14) -/
theorem hom_program_bgv_levelled_example : type_of% @HC.hom_program_bgv_levelled_example := @HC.hom_program_bgv_levelled_example
theorem hom_program_bgv_levelled_example_val : type_of% @HC.hom_program_bgv_levelled_example_val := @HC.hom_program_bgv_levelled_example_val
theorem chainOK_example : type_of% @HC.c02p_wChainOK := @HC.c02p_wChainOK

/-! ### BFV: the program theorem for the ring operations (Model/Program.lean `FProg`; Proofs/C02PF.lean).  PARTIAL with respect to the
    operation list of the property: BFV plaintext operations (the Δ-scaling of `multiply_add_plain` / `multiply_sub_plain` and the
    `multiply_plain` routes), modulus switching and relinearisation are proved per operation elsewhere (C01, C05U, C04K) but NOT composed
    into the BFV induction. -/

/-- HOM (BFV, ring operations).  For every BFV level satisfying the constructor bundles (`c02f_LevelOK`: `MulOK`, `DecOK`, BEHZ window for
    sizes ≤ 16), every secret with `‖s‖₁ ≤ S`, EVERY program over negate / add / sub (all size pairs) / multiply, square (BEHZ, all size
    pairs), inputs canonical in coefficient form with invariant noise `‖[t·x_i]_Q‖∞ ≤ (inB i).2 < Q/2` and message part ≡ `M i` (mod t):
    if the model does not refuse, the decidable bookkeeping `FProg.noiseUB` (sum of noises for add / sub, the BEHZ growth bound `c02x_F / 2^34`
    for products, `2V < Q` checked at every node) returns `(s, V)` and `V` is below the BEHZ decryption threshold
    `2·γ·V + 2·|q|·Q ≤ Q·γ`, then `bfvDecrypt (eval prog)` succeeds and equals the shadow program in ℤ[X]/(X^N+1) read modulo t. -/
theorem hom_program_bfv_partial {l : Level} {T : Array NTTTables} (h : c02f_LevelOK l T) {sk : Array Int} (hsk : sk.size = l.n) {S : Nat}
    (hS : ∑ k ∈ range l.n, (sk.getD k 0).natAbs ≤ S) (cts : Nat → Ct) (M : Nat → Nat → Int) (inB : Nat → Nat × Nat) (prog : FProg)
    {r : Ct} (hin : ∀ i ∈ prog.ctInputs, c02f_Enc l sk (cts i) (M i) (inB i).2 ∧ (cts i).polys.size = (inB i).1)
    (hev : prog.eval l T cts = .ok r) {s V : Nat}
    (hub : prog.noiseUB l.n l.t.value l.size l.tool.baseQ.prod S inB = some (s, V))
    (hγ : 2 * l.tool.gamma.value * V + 2 * l.size * l.tool.baseQ.prod ≤ l.tool.baseQ.prod * l.tool.gamma.value) :
    bfvDecrypt l sk r = .ok (Spec.trim (Array.ofFn (n := l.n) fun j => Spec.imod (prog.shadow l.n M j.val) l.t.value)) :=
  HC.hom_program_bfv_partial h hsk hS cts M inB prog hin hev hub hγ

/-- the induction behind it -/
theorem hom_program_bfv_inv : type_of% @HC.c02f_prog_inv := @HC.c02f_prog_inv
/-- BFV negate / add / sub on exact phases of coefficient-form ciphertexts, all size pairs -/
theorem ctNegate_exact_phase_coeff : type_of% @HC.c02f_negate_ph := @HC.c02f_negate_ph
theorem ctTranslate_exact_phase_coeff : type_of% @HC.c02f_translate_ph := @HC.c02f_translate_ph
/-- invariant noise and message part of a linear combination `x_r ≡ α·x_a + β·x_b (mod Q)` -/
theorem bfv_noise_linear : type_of% @HC.c02f_noise_lin := @HC.c02f_noise_lin
/-- the BEHZ product as a step of the induction (from `bfvMultiply_noise`, `bfvMultiply_canon`) -/
theorem bfvMultiply_enc : type_of% @HC.c02f_step_mul := @HC.c02f_step_mul
/-- decryption below the BEHZ threshold; the input hypothesis from any split `t·x = Q·m + ν` with small ν -/
theorem bfvDecrypt_of_enc : type_of% @HC.c02f_decrypt_of_enc := @HC.c02f_decrypt_of_enc
theorem bfv_enc_of_split : type_of% @HC.c02f_enc_of_split := @HC.c02f_enc_of_split

/-- NON-VACUITY (BFV): the level `Drv.Sch.mkLevel .bfv 4 [97, 113, 193] 17` with Bsk tables built by `NTTTables.new` satisfies `c02f_LevelOK`
    (a concrete instance of `MulOK`, `DecOK` and the BEHZ window), and the program x0·x1 − x0 on two fresh ciphertexts satisfies every
    hypothesis of `hom_program_bfv_partial` (bookkeeping (3, 10986), Q = 2115473); the result decrypts to (0, 3, 14) -/
theorem bfv_levelOK_example : type_of% @HC.c02f_wLevelOK := @HC.c02f_wLevelOK
theorem hom_program_bfv_example : type_of% @HC.hom_program_bfv_example := @HC.hom_program_bfv_example
theorem hom_program_bfv_example_val : type_of% @HC.hom_program_bfv_example_val := @HC.hom_program_bfv_example_val

/-- NON-VACUITY of the relinearisation hypotheses together with the level bundles: ciphertext level `mkLevel .bgv 4 [97, 113] 17`, key level
    = moduli / tables / constants of `mkLevel .bgv 4 [97, 113, 193] 17` (P = 193), a GENUINE relinearisation key for s² (two digits, gadget
    elements 10283 / 679, errors 17·ε_i) satisfying the key equation (`relinKeyEq_example`), `c02p_RelinOK`, `c02p_KeyLevelOf`; the program
    relin(x0·x1) satisfies every hypothesis of `hom_program_bgv_levelled` (bookkeeping (0, 1, 2, 1747)) and decrypts to (1, 5, 14, 16) -/
theorem relinKeyEq_example : type_of% @HC.c02p_rKeyEq := @HC.c02p_rKeyEq
theorem relinOK_example : type_of% @HC.c02p_rRelinOK := @HC.c02p_rRelinOK
theorem keyLevelOf_example : type_of% @HC.c02p_rKeyLevelOf := @HC.c02p_rKeyLevelOf
theorem hom_program_bgv_relin_example : type_of% @HC.hom_program_bgv_relin_example := @HC.hom_program_bgv_relin_example
theorem hom_program_bgv_relin_example_val : type_of% @HC.hom_program_bgv_relin_example_val := @HC.hom_program_bgv_relin_example_val
/-! ### translator tie (task S): the DATA of `Evaluator::bgv_square` (src/evaluator.rs), generated over the flat ciphertext buffer into
     Gen/EvalCtFns.lean (`GenC.ct_bgv_square`; tables tools/rs2lean_sq.py), = `bgvSquare` of the model (Proofs/GenEvalSq.lean).  Together with
     `bgvSquare_eq` above: the code's squaring routine computes the product of the ciphertext with itself. -/

/-- `dyadic_product_p(poly1, poly2, degree, moduli, result)` on the flat layout = `rnsDyadic` on `unflattenRns` (the out-of-place wrapper the
    squaring and multiplication routines call; generated since phase 4b', no equality until now) -/
theorem gen_poly_dyadic_product_p_model : type_of% @HC.gs_poly_dyadic_product_p_model := @HC.gs_poly_dyadic_product_p_model

/-- dispatch: coefficient form is refused, every size but 2 goes to `bgv_multiply(x, &x.clone())` (route 1, nothing touched) -/
theorem gen_ct_bgv_square_dispatch : type_of% @HC.gs_bgv_square_dispatch := @HC.gs_bgv_square_dispatch

/-- … and so does the model, by definition -/
theorem bgvSquare_fallback : type_of% @HC.bgvSquare_fallback := @HC.bgvSquare_fallback

/-- GENERATED = MODEL, fast path (size 2, NTT form): buffer, size 3, factor cf·cf mod t - successes and arithmetic traps alike.
    Hypotheses: the buffer holds two polynomials of `l.size` components of `l.n` words, at least one modulus (`3·n·k` is computed as
    `(3·n)·k`), and the resized buffer is addressable (`3·k·n < 2^64`) -/
theorem gen_ct_bgv_square_eq : type_of% @HC.gs_bgv_square_eq := @HC.gs_bgv_square_eq

/-- non-vacuity: the example BGV level (two moduli 17, n = 2, t = 5), a size-2 buffer of eight words, factor 2 -/
example : HC.GenC.ct_bgv_square (List.replicate 8 3) 2 2 true HC.c02v_exLevel.qs.toList HC.c02v_exLevel.t HC.c02v_exLevel.n =
    Except.map (fun c => (HC.flattenCt HC.c02v_exLevel c, 3, c.cf, 0))
      (HC.bgvSquare HC.c02v_exLevel (HC.unflattenCt HC.c02v_exLevel 2 (List.replicate 8 3) true 2)) :=
  HC.gs_bgv_square_eq HC.c02v_exLevel _ 2 (by decide) (by decide) (by decide)

/-- GENERATED = MODEL (`bgv_multiply`, DATA LOOPS: resize, `for i in 0..dest_size { for j in 0..steps { dyadic_product_p; add_inplace_p } }`, copy back, factor
    product; generated as `GenC.ct_bgv_multiply` over the flat buffers): for NTT-form operands of ANY sizes s1, s2 ≥ 1 = the flattened `bgvMultiply` of the
    model, size s1 + s2 − 1, the model's factor — the `resize` refusal and every arithmetic trap included (same order of operations on both sides).
    Hypotheses: buffer lengths = size·(l.size·l.n), at least one modulus, the product buffer addressable (`(s1+s2−1)·k·n < 2^64`), `s1 + s2 < 2^64`. -/
theorem gen_ct_bgv_multiply_eq : type_of% @HC.gs_bgv_multiply_eq := @HC.gs_bgv_multiply_eq

/-- GENERATED = MODEL (`bgv_square`, EVERY size ≥ 1, both representations): the generated dispatch / fast path, the fallback route resolved by the generated
    `bgv_multiply` on the ciphertext and its clone (`gs_bgv_square_run`), = the flattened `bgvSquare`, size 2s − 1, the model's factor.  Composed with
    `bgvSquare_eq` and `ctMultiplyDyadic_phase`: what the code's `bgv_square` returns has phase(x)². -/
theorem gen_ct_bgv_square_all : type_of% @HC.gs_bgv_square_run_eq := @HC.gs_bgv_square_run_eq

/-- non-vacuity: size 3 (fallback route) on the example BGV level -/
example : HC.gs_bgv_square_run (List.replicate 12 3) 3 2 true HC.c02v_exLevel.qs.toList HC.c02v_exLevel.t HC.c02v_exLevel.n =
    Except.map (fun c => (HC.flattenCt HC.c02v_exLevel c, 5, c.cf))
      (HC.bgvSquare HC.c02v_exLevel (HC.unflattenCt HC.c02v_exLevel 3 (List.replicate 12 3) true 2)) :=
  HC.gs_bgv_square_run_eq HC.c02v_exLevel _ 3 2 true (by decide) (by decide) (by decide) (by decide) (by decide)

end HC.C02
