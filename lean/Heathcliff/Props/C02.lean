import Heathcliff.Model.Scheme
namespace HC.C02
theorem placeholder : trimPlain #[0, 0] = #[0] := by decide
end HC.C02
