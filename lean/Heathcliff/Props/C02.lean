import Heathcliff.Proofs.C02W
import Heathcliff.Proofs.C02V
import Heathcliff.Proofs.C02K

/- Property theorems only (statements verbatim; proofs are the helper lemmas of Heathcliff/Proofs). -/
namespace HC.C02
open HC
open Finset
variable {R : Type} [CommRing R]

/-- INDEX ARITHMETIC: for output polynomial i the loop visits exactly the pairs (a, b), a < n1, b < n2, a + b = i, each once -/
theorem mulPairs_spec {n1 n2 i : Nat} (h1 : 1 ≤ n1) (h2 : 1 ≤ n2) (hi : i < n1 + n2 - 1) :
    (mulPairs n1 n2 i).Nodup ∧ ∀ a b, (a, b) ∈ mulPairs n1 n2 i ↔ (a < n1 ∧ b < n2 ∧ a + b = i) := HC.mulPairs_spec h1 h2 hi

/-- PRODUCT: the polynomials d_i = Σ_{(a,b) ∈ mulPairs} c_a·e_b, i < n1+n2-1, have phase(c)·phase(e) — for every pair of sizes -/
theorem ct_mul_phase {n1 n2 : Nat} (h1 : 1 ≤ n1) (h2 : 1 ≤ n2) (c e : Nat → R) (s : R) :
    ctPhase (n1 + n2 - 1) (fun i => ((mulPairs n1 n2 i).map (fun p => c p.1 * e p.2)).sum) s
      = ctPhase n1 c s * ctPhase n2 e s := HC.ct_mul_phase h1 h2 c e s

/-- ADD / SUB of ciphertexts of different sizes: the shorter operand is zero-extended; in a subtraction the polynomials taken
    over from a larger subtrahend are negated -/
theorem translate_phase (n1 n2 : Nat) (sub : Bool) (a b : Nat → R) (s : R) :
    ctPhase (max n1 n2) (fun i => ((translateShape n1 n2).map (trVal sub a b)).getD i 0) s
      = if sub then ctPhase n1 a s - ctPhase n2 b s else ctPhase n1 a s + ctPhase n2 b s := HC.translate_phase n1 n2 sub a b s

/-- negation -/
theorem negate_phase (n : Nat) (a : Nat → R) (s : R) : ctPhase n (fun i => - a i) s = - ctPhase n a s := HC.negate_phase n a s

/-- multiplication by a plaintext polynomial p (every ciphertext polynomial multiplied by p) -/
theorem mul_plain_phase (n : Nat) (a : Nat → R) (p s : R) : ctPhase n (fun i => a i * p) s = ctPhase n a s * p := HC.mul_plain_phase n a p s

/-- adding a plaintext touches only c_0 -/
theorem add_plain_phase (n : Nat) (hn : 1 ≤ n) (a : Nat → R) (p s : R) :
    ctPhase n (fun i => if i = 0 then a i + p else a i) s = ctPhase n a s + p := HC.add_plain_phase n hn a p s

/-- BALANCING: whenever `balance_correction_factors` succeeds, e1·f1 ≡ e2·f2 ≡ f (mod t) and f < t -/
theorem balance_spec {t : Modulus} (ht : t.WF) {f1 f2 f e1 e2 : Nat} (h1 : f1 < t.value) (h2 : f2 < t.value)
    (h : balanceCorrectionFactors f1 f2 t = .ok (f, e1, e2)) :
    (e1 * f1) % t.value = f ∧ (e2 * f2) % t.value = f ∧ f < t.value := HC.balance_spec ht h1 h2 h

/-- and it always succeeds for unit factors -/
theorem balance_total {t : Modulus} (ht : t.WF) {f1 f2 : Nat} (h1 : f1 < t.value) (h2 : f2 < t.value)
    (hc1 : Nat.Coprime f1 t.value) : ∃ r, balanceCorrectionFactors f1 f2 t = .ok r := HC.balance_total ht h1 h2 hc1

/-- SUM UNDER BALANCING: if phase_k ≡ f_k·m_k (mod t) then e1·phase1 + e2·phase2 ≡ f·(m1 + m2) (mod t) -/
theorem bgv_add_balanced {t : Int} {f1 f2 f e1 e2 p1 p2 m1 m2 : Int}
    (hp1 : p1 ≡ f1 * m1 [ZMOD t]) (hp2 : p2 ≡ f2 * m2 [ZMOD t])
    (he1 : e1 * f1 ≡ f [ZMOD t]) (he2 : e2 * f2 ≡ f [ZMOD t]) :
    e1 * p1 + e2 * p2 ≡ f * (m1 + m2) [ZMOD t] := HC.bgv_add_balanced hp1 hp2 he1 he2

/-- PRODUCT: correction factors multiply -/
theorem bgv_mul_factor {t : Int} {f1 f2 p1 p2 m1 m2 : Int}
    (hp1 : p1 ≡ f1 * m1 [ZMOD t]) (hp2 : p2 ≡ f2 * m2 [ZMOD t]) :
    p1 * p2 ≡ (f1 * f2) * (m1 * m2) [ZMOD t] := HC.bgv_mul_factor hp1 hp2

theorem prog_hom {S T : Type} [CommRing S] [CommRing T] (dec : S →+* T) (inp pl : Nat → S) (p : Prog) :
    dec (p.eval inp pl) = p.eval (fun k => dec (inp k)) (fun k => dec (pl k)) := HC.prog_hom dec inp pl p

/-- non-vacuity: sizes 3 × 2: output polynomial 2 collects the pairs (1,1), (2,0) -/
example : mulPairs 3 2 2 = [(1, 1), (2, 0)] := by decide


/-! ### evaluator operations of the model are the ring operations on phases, for all sizes 2..16
    (statements, hypothesis bundles and non-vacuity instances: Heathcliff/Proofs/C02V.lean, section "Property theorems") -/

/-- V1 residues: `ctNegate` succeeds on a canonical ciphertext, keeps size / representation / correction factor, the result is
    canonical and every residue is `(q_i − x) mod q_i` -/
theorem ctNegate_spec : type_of% @HC.ctNegate_spec := @HC.ctNegate_spec

/-- V1 phase: in every commutative ring in which `q_i = 0`, for every secret `s` (and every reading `e` of the positions),
    the phase Σ_k c_k s^k of component `i` is negated -/
theorem ctNegate_phase : type_of% @HC.ctNegate_phase := @HC.ctNegate_phase

/-- V2 residues: `ctTranslate` (add / sub of canonical ciphertexts of ANY two sizes, same representation and correction factor)
    succeeds; the result has size max(n1, n2), is canonical, and polynomial k is `a_k ± b_k` where both exist, `a_k` beyond the
    size of b, and `b_k` resp. `−b_k` (subtraction) beyond the size of a -/
theorem ctTranslate_spec : type_of% @HC.ctTranslate_spec := @HC.ctTranslate_spec

/-- V2 phase: in every commutative ring in which `q_i = 0`, the phase of the result of `ctTranslate` is the sum resp. difference
    of the phases — for all pairs of sizes (this is `translate_phase` of C02K instantiated with the model's output) -/
theorem ctTranslate_phase : type_of% @HC.ctTranslate_phase := @HC.ctTranslate_phase

/-- V2 refusals: operands in different representations are refused; different correction factors are not handled by
    `ctTranslate` itself (error; they go through `ctTranslateBalanced`) -/
theorem ctTranslate_refuse_ntt : type_of% @HC.ctTranslate_refuse_ntt := @HC.ctTranslate_refuse_ntt

theorem ctTranslate_error_cf : type_of% @HC.ctTranslate_error_cf := @HC.ctTranslate_error_cf

/-- V3 refusal: the dyadic product needs both operands in NTT form -/
theorem ctMultiplyDyadic_refuse : type_of% @HC.ctMultiplyDyadic_refuse := @HC.ctMultiplyDyadic_refuse

/-- V3 residues: the dyadic product of canonical NTT-form ciphertexts of ANY sizes n1, n2 succeeds, has n1 + n2 − 1 canonical
    polynomials, and residue (i, j) of polynomial k is Σ_{x + y = k} a_x[i][j] · b_y[i][j] mod q_i (the pairs are those of
    `mulPairs`, characterised by `mulPairs_spec`) -/
theorem ctMultiplyDyadic_spec : type_of% @HC.ctMultiplyDyadic_spec := @HC.ctMultiplyDyadic_spec

/-- V3 phase: in every commutative ring in which `q_i = 0`, reading the NTT slots through orthogonal idempotents `e`
    (`e j = δ_j` in the product ring of the slots, or `e = δ_{j0}` for one slot), the phase of the result is the PRODUCT of
    the phases, for every secret `s` — `ct_mul_phase` of C02K instantiated with the model's output -/
theorem ctMultiplyDyadic_phase : type_of% @HC.ctMultiplyDyadic_phase := @HC.ctMultiplyDyadic_phase

/-- one NTT slot, in `ZMod q_i` (the reading `e = δ_j`; `q_i = 0` holds by `ZMod.natCast_self`): the slot-wise phase of the
    dyadic product is the product of the slot-wise phases, for every value `s` of the secret in that slot -/
theorem ctMultiplyDyadic_slot : type_of% @HC.ctMultiplyDyadic_slot := @HC.ctMultiplyDyadic_slot

/-- V3 coefficient form (NTT multiplicativity of C09): for a level whose tables are well formed, the coefficient form
    `intt` of result polynomial k is Σ_{x + y = k} (intt a_x) ⊛ (intt b_y), the NEGACYCLIC products modulo (X^N + 1, q_i)
    (`negMulNat`), summed modulo q_i — i.e. the coefficient-form ciphertext is the Cauchy product of the coefficient-form
    operands in Z_{q_i}[X]/(X^N + 1), whose phase is the product of the phases by `ct_mul_phase` -/
theorem ctMultiplyDyadic_coeff : type_of% @HC.ctMultiplyDyadic_coeff := @HC.ctMultiplyDyadic_coeff

/-- V5 refusal: `multiply_plain_ntt` needs the ciphertext in NTT form -/
theorem ctMultiplyPlainNtt_refuse : type_of% @HC.ctMultiplyPlainNtt_refuse := @HC.ctMultiplyPlainNtt_refuse

/-- V5 residues: every polynomial of a canonical NTT-form ciphertext is multiplied dyadically by the canonical plaintext -/
theorem ctMultiplyPlainNtt_spec : type_of% @HC.ctMultiplyPlainNtt_spec := @HC.ctMultiplyPlainNtt_spec

/-- V5 phase: the phase is multiplied by the value of the plaintext (NTT slots read through orthogonal idempotents) -/
theorem ctMultiplyPlainNtt_phase : type_of% @HC.ctMultiplyPlainNtt_phase := @HC.ctMultiplyPlainNtt_phase

/-- V4 product: `bgvMultiply` is the dyadic product (all conclusions of `ctMultiplyDyadic_spec` / `_phase` apply to `c`) with the
    correction factor replaced by the product of the factors modulo t -/
theorem bgvMultiply_spec : type_of% @HC.bgvMultiply_spec := @HC.bgvMultiply_spec

theorem bgvMultiply_refuse : type_of% @HC.bgvMultiply_refuse := @HC.bgvMultiply_refuse

/-- the product of unit correction factors is a unit in range, so the product of canonical BGV ciphertexts is canonical -/
theorem bgvMultiply_canon : type_of% @HC.bgvMultiply_canon := @HC.bgvMultiply_canon

/-- V4 sum, equal factors: no balancing -/
theorem ctTranslateBalanced_same : type_of% @HC.ctTranslateBalanced_same := @HC.ctTranslateBalanced_same

/-- V4 refusal: a first correction factor that is not a unit modulo t cannot be balanced -/
theorem ctTranslateBalanced_refuse : type_of% @HC.ctTranslateBalanced_refuse := @HC.ctTranslateBalanced_refuse

/-- V4 sum, different factors: with the multipliers (f, e1, e2) returned by `balanceCorrectionFactors` (characterised by
    `balance_spec`: e1·f1 ≡ e2·f2 ≡ f mod t), the result has correction factor f and polynomial k is
    `e1·a_k ± e2·b_k` (all residue-wise mod q_i) with the tail of the longer operand scaled (and negated for a subtrahend) -/
theorem ctTranslateBalanced_spec : type_of% @HC.ctTranslateBalanced_spec := @HC.ctTranslateBalanced_spec

/-- V4 phase: in every commutative ring in which `q_i = 0`, phase(result) = e1·phase(a) ± e2·phase(b) -/
theorem ctTranslateBalanced_phase : type_of% @HC.ctTranslateBalanced_phase := @HC.ctTranslateBalanced_phase

/-- V4 totality: for unit correction factors below t the balanced add / sub always succeeds -/
theorem ctTranslateBalanced_total : type_of% @HC.ctTranslateBalanced_total := @HC.ctTranslateBalanced_total

/-- V4 decoding (per coefficient, `Spec.bgvDecode = map (c02v_dec t cf)`): if the exact phase coefficient of the balanced sum is
    congruent to e1·x1 ± e2·x2 modulo t (which the phase theorem gives as long as the integers do not wrap modulo Q), then
    decoding with the new factor f gives the sum resp. difference of the operands' decodings modulo t -/
theorem bgvDecode_balanced : type_of% @HC.bgvDecode_balanced := @HC.bgvDecode_balanced

/-- V4 decoding of a product: correction factors multiply, decodings multiply -/
theorem bgvDecode_mul : type_of% @HC.bgvDecode_mul := @HC.bgvDecode_mul

/-- V4 decoding, whole polynomials under `Spec.bgvDecode` -/
theorem bgvDecode_balanced_poly : type_of% @HC.bgvDecode_balanced_poly := @HC.bgvDecode_balanced_poly

/-- `CtCanon` is what the model's validator `ctValid` (`Ciphertext::is_valid_for`) establishes for a non-empty ciphertext -/
theorem CtCanon_of_ctValid : type_of% @HC.CtCanon.of_ctValid := @HC.CtCanon.of_ctValid


/-! ### BEHZ `bfvMultiply` of the model end to end: totality and shape for all sizes, exact integer semantics per coefficient (one alpha < |q| per coefficient), ring-level phase identity; constants derived from RNSTool.new
    (statements, hypothesis bundles and non-vacuity instances: Heathcliff/Proofs/C02W.lean, section "Property theorems") -/

/-- W1 (totality, shape, closed form).  For coefficient-form operands of ANY sizes ≥ 1 whose polynomials are canonical at a level
    satisfying `MulOK`, `bfvMultiply` succeeds (no overflow / out-of-range branch is reachable); the result has
    `size a + size b − 1` canonical polynomials, stays in coefficient form, keeps the correction factor, and every residue is the
    closed form `c02w_mulVal`. -/
theorem bfvMultiply_ok : type_of% @HC.bfvMultiply_ok := @HC.bfvMultiply_ok

/-- W1 for valid BFV ciphertexts: canonical operands with `size a + size b − 1 ≤ 16` give a canonical ciphertext -/
theorem bfvMultiply_canon : type_of% @HC.bfvMultiply_canon := @HC.bfvMultiply_canon

/-- refusal: an operand in NTT form -/
theorem bfvMultiply_refuse_ntt : type_of% @HC.bfvMultiply_refuse_ntt := @HC.bfvMultiply_refuse_ntt

/-- refusal: an operand without polynomials (after the lifts of both operands succeeded) -/
theorem bfvMultiply_refuse_empty : type_of% @HC.bfvMultiply_refuse_empty := @HC.bfvMultiply_refuse_empty

/-- W2, operands: the lifted coefficient `c02w_liftZ` of a canonical polynomial is congruent to the input residue modulo every
    q_i and satisfies `2·m̃·|X| ≤ Q·(m̃ + 2|q|)` (|X| ≤ Q/2 + |q|·Q/m̃, m̃ = 2^32): the "small BEHZ offset" -/
theorem bfvLift_spec : type_of% @HC.bfvLift_spec := @HC.bfvLift_spec

/-- W2, exact integer semantics of every output coefficient: under the window condition `c02w_Window`, for every output
    polynomial `k` and coefficient `c` there is ONE `α < |q|` (the fast-floor error) such that for every prime q_i the residue
    returned by the model is `⌊t·Z_k[c]/Q⌋ − α  mod q_i`, where `Z_k = Σ_{x+y=k} X_x ⋆ Y_y` over ℤ[X]/(X^N+1) is formed from the
    lifted operand coefficients (`bfvLift_spec`); the Montgomery correction is exact and Shenoy–Kumaresan is exact in the window. -/
theorem bfvMultiply_coeff : type_of% @HC.bfvMultiply_coeff := @HC.bfvMultiply_coeff

/-- W2 with every hypothesis discharged from the model's constructors: level tables well formed, tool built by `RNSBase.new` +
    `RNSTool.new` (auxiliary moduli well formed and ≥ 2^61 − 2^54), Bsk tables built by `NTTTables.new`, `min(n1,n2)·N ≤ 2^30` -/
theorem bfvMultiply_coeff_of_new : type_of% @HC.bfvMultiply_coeff_of_new := @HC.bfvMultiply_coeff_of_new

/-- W3 (ring form).  In ANY commutative ring `S` with an element `ξ`, `ξ^N = −1` (e.g. `ℤ[X]/(X^N+1)` or `ℤ_Q[X]/(X^N+1)`) and for ANY
    secret `s ∈ S`: there are integer polynomials `D_k` (the exact lifts of the output polynomials: every residue the model returns
    is `D_k[c] mod q_i`) and `E_k` with `0 ≤ E_k[c] < |q|·Q` such that
    `Q · phase_s(D) + phase_s(E) = t · phase_s(X) · phase_s(Y)`, i.e. `phase(result) = (t·phase(X)·phase(Y) − phase_s(E))/Q`,
    where `X`, `Y` are the lifted operands of `bfvLift_spec` (≡ the inputs modulo every q_i, size ≤ Q/2 + |q|Q/2^32). -/
theorem bfvMultiply_phase : type_of% @HC.bfvMultiply_phase := @HC.bfvMultiply_phase

end HC.C02
