import Heathcliff.Proofs.C02K
import Heathcliff.Proofs.C07L
import Heathcliff.Proofs.GenValid
/-
  C03 — the algebra of CKKS evaluation is scheme independent: the theorems of C02 (`ct_mul_phase`, `translate_phase`,
  `negate_phase`, `mul_plain_phase`, `add_plain_phase`) hold in any commutative ring and are restated here because the CKKS
  evaluator uses exactly the same index arithmetic (`mulPairs`, `translateShape`); rescaling error and level drop are the
  integer lemmas proved for C05.  Float behaviour (encoder error, `log2`) is outside every theorem.
-/
namespace HC.C03
open HC Finset
variable {R : Type} [CommRing R]

/-- products of CKKS ciphertexts of any sizes multiply the phases exactly (no noise is added by the tensor product) -/
theorem ckks_mul_phase {n1 n2 : Nat} (h1 : 1 ≤ n1) (h2 : 1 ≤ n2) (c e : Nat → R) (s : R) :
    ctPhase (n1 + n2 - 1) (fun i => ((mulPairs n1 n2 i).map (fun p => c p.1 * e p.2)).sum) s
      = ctPhase n1 c s * ctPhase n2 e s := HC.ct_mul_phase h1 h2 c e s

/-- sums / differences of ciphertexts of different sizes add / subtract the phases exactly -/
theorem ckks_translate_phase (n1 n2 : Nat) (sub : Bool) (a b : Nat → R) (s : R) :
    ctPhase (max n1 n2) (fun i => ((translateShape n1 n2).map (trVal sub a b)).getD i 0) s
      = if sub then ctPhase n1 a s - ctPhase n2 b s else ctPhase n1 a s + ctPhase n2 b s := HC.translate_phase n1 n2 sub a b s

/-- RESCALE: |x' − x/q_L| ≤ E in exact integers when x = q_L·x' + ρ, |ρ| ≤ q_L·E -/
theorem rescale_error {qL : Nat} (hq : 0 < qL) {x x' ρ : Int} {E : Nat} (hx : x = qL * x' + ρ) (hρ : ρ.natAbs ≤ qL * E) :
    (x' * qL - x).natAbs ≤ qL * E := HC.ckks_rescale_error hq hx hρ

/-- LEVEL DROP: the phase is unchanged modulo the smaller product -/
theorem drop_phase {Q' qL : Nat} (x : Int) : (x % ((Q' * qL : Nat) : Int)) % (Q' : Int) = x % (Q' : Int) := HC.ckks_drop_phase x

/-- SCALE BOOKKEEPING over programs: the recorded scale is the fold of the operations' scale actions — one multiplication per
    product, one division per dropped prime, nothing for additive operations — for abstract scale operations `mulS`, `divS` -/
inductive SOp where | add | mul (other : Nat) | rescale (prime : Nat) | other
def scaleAfter {σ : Type} (mulS : σ → σ → σ) (divS : σ → Nat → σ) (scales : Nat → σ) : σ → List SOp → σ
  | s, [] => s
  | s, .add :: r => scaleAfter mulS divS scales s r
  | s, .other :: r => scaleAfter mulS divS scales s r
  | s, .mul j :: r => scaleAfter mulS divS scales (mulS s (scales j)) r
  | s, .rescale p :: r => scaleAfter mulS divS scales (divS s p) r

/-- additive operations never change the scale; appending programs composes the folds -/
theorem scale_append {σ : Type} (mulS : σ → σ → σ) (divS : σ → Nat → σ) (scales : Nat → σ) (s : σ) (p q : List SOp) :
    scaleAfter mulS divS scales s (p ++ q) = scaleAfter mulS divS scales (scaleAfter mulS divS scales s p) q := by
  induction p generalizing s with
  | nil => rfl
  | cons o r ih => cases o <;> simp [scaleAfter, ih]

/-! ### translator tie: `Evaluator::is_scale_within_bounds` (src/evaluator.rs) generated into Gen/ValidFns.lean (Proofs/GenValid.lean).
     The accessor chains on the context data and the two float facts (`scale <= 0.0`, `scale.log2() as isize`) are inputs of the generated
     function; the float fact linking `log2` to the hand model's `scale < 2^bits` is an explicit hypothesis (Lean's `Float` is opaque). -/
theorem gen_is_scale_within_bounds_eq (s : Scheme) (plainBits totalBits : Nat) (nonPos : Bool) (l2 : Int)
    (hp : plainBits < 2^63) (ht : totalBits < 2^63) :
    GenV.is_scale_within_bounds s plainBits totalBits nonPos l2 =
      HC.gx_scaleOk nonPos l2 (match s with | .bfv | .bgv => (plainBits : Int) | .ckks => (totalBits : Int)) :=
  HC.gx_is_scale_within_bounds_eq s plainBits totalBits nonPos l2 hp ht
theorem gen_is_scale_within_bounds_ckks (scale : Float) (plainBits totalBits : Nat) (l2 : Int) (ht : totalBits < 2^63) (hp : plainBits < 2^63)
    (hfl : (scale < Float.ofScientific 1 false 0 * (Float.ofNat 2) ^ (Float.ofNat totalBits)) ↔ l2 < (totalBits : Int)) :
    GenV.is_scale_within_bounds .ckks plainBits totalBits (decide (scale ≤ 0.0)) l2 = ckksScaleOk scale totalBits :=
  HC.gx_is_scale_within_bounds_ckks scale plainBits totalBits l2 ht hp hfl

end HC.C03
