import Heathcliff.Proofs.C03K
import Heathcliff.Proofs.C03S
import Heathcliff.Proofs.GenEvalSq
import Heathcliff.Proofs.C02K
import Heathcliff.Proofs.C07L
import Heathcliff.Proofs.GenValid
import Heathcliff.Proofs.GenEvalCt2
import Heathcliff.Proofs.C03T
/-
  C03 — the algebra of CKKS evaluation is scheme independent: the theorems of C02 (`ct_mul_phase`, `translate_phase`,
  `negate_phase`, `mul_plain_phase`, `add_plain_phase`) hold in any commutative ring and are restated here because the CKKS
  evaluator uses exactly the same index arithmetic (`mulPairs`, `translateShape`); rescaling error and level drop are the
  integer lemmas proved for C05.  Float behaviour (encoder error, `log2`) is outside every theorem.
-/
namespace HC.C03
open HC Finset
variable {R : Type} [CommRing R]

/-- products of CKKS ciphertexts of any sizes multiply the phases exactly (no noise is added by the tensor product) -/
theorem ckks_mul_phase {n1 n2 : Nat} (h1 : 1 ≤ n1) (h2 : 1 ≤ n2) (c e : Nat → R) (s : R) :
    ctPhase (n1 + n2 - 1) (fun i => ((mulPairs n1 n2 i).map (fun p => c p.1 * e p.2)).sum) s
      = ctPhase n1 c s * ctPhase n2 e s := HC.ct_mul_phase h1 h2 c e s

/-- sums / differences of ciphertexts of different sizes add / subtract the phases exactly -/
theorem ckks_translate_phase (n1 n2 : Nat) (sub : Bool) (a b : Nat → R) (s : R) :
    ctPhase (max n1 n2) (fun i => ((translateShape n1 n2).map (trVal sub a b)).getD i 0) s
      = if sub then ctPhase n1 a s - ctPhase n2 b s else ctPhase n1 a s + ctPhase n2 b s := HC.translate_phase n1 n2 sub a b s

/-- RESCALE: |x' − x/q_L| ≤ E in exact integers when x = q_L·x' + ρ, |ρ| ≤ q_L·E -/
theorem rescale_error {qL : Nat} (hq : 0 < qL) {x x' ρ : Int} {E : Nat} (hx : x = qL * x' + ρ) (hρ : ρ.natAbs ≤ qL * E) :
    (x' * qL - x).natAbs ≤ qL * E := HC.ckks_rescale_error hq hx hρ

/-- LEVEL DROP: the phase is unchanged modulo the smaller product -/
theorem drop_phase {Q' qL : Nat} (x : Int) : (x % ((Q' * qL : Nat) : Int)) % (Q' : Int) = x % (Q' : Int) := HC.ckks_drop_phase x

/-- SCALE BOOKKEEPING over programs: the recorded scale is the fold of the operations' scale actions — one multiplication per
    product, one division per dropped prime, nothing for additive operations — for abstract scale operations `mulS`, `divS` -/
inductive SOp where | add | mul (other : Nat) | rescale (prime : Nat) | other
def scaleAfter {σ : Type} (mulS : σ → σ → σ) (divS : σ → Nat → σ) (scales : Nat → σ) : σ → List SOp → σ
  | s, [] => s
  | s, .add :: r => scaleAfter mulS divS scales s r
  | s, .other :: r => scaleAfter mulS divS scales s r
  | s, .mul j :: r => scaleAfter mulS divS scales (mulS s (scales j)) r
  | s, .rescale p :: r => scaleAfter mulS divS scales (divS s p) r

/-- additive operations never change the scale; appending programs composes the folds -/
theorem scale_append {σ : Type} (mulS : σ → σ → σ) (divS : σ → Nat → σ) (scales : Nat → σ) (s : σ) (p q : List SOp) :
    scaleAfter mulS divS scales s (p ++ q) = scaleAfter mulS divS scales (scaleAfter mulS divS scales s p) q := by
  induction p generalizing s with
  | nil => rfl
  | cons o r ih => cases o <;> simp [scaleAfter, ih]

/-! ### translator tie: `Evaluator::is_scale_within_bounds` (src/evaluator.rs) generated into Gen/ValidFns.lean (Proofs/GenValid.lean).
     The accessor chains on the context data and the two float facts (`scale <= 0.0`, `scale.log2() as isize`) are inputs of the generated
     function; the float fact linking `log2` to the hand model's `scale < 2^bits` is an explicit hypothesis (Lean's `Float` is opaque). -/
theorem gen_is_scale_within_bounds_eq (s : Scheme) (plainBits totalBits : Nat) (nonPos : Bool) (l2 : Int)
    (hp : plainBits < 2^63) (ht : totalBits < 2^63) :
    GenV.is_scale_within_bounds s plainBits totalBits nonPos l2 =
      HC.gx_scaleOk nonPos l2 (match s with | .bfv | .bgv => (plainBits : Int) | .ckks => (totalBits : Int)) :=
  HC.gx_is_scale_within_bounds_eq s plainBits totalBits nonPos l2 hp ht
theorem gen_is_scale_within_bounds_ckks (scale : Float) (plainBits totalBits : Nat) (l2 : Int) (ht : totalBits < 2^63) (hp : plainBits < 2^63)
    (hfl : (scale < Float.ofScientific 1 false 0 * (Float.ofNat 2) ^ (Float.ofNat totalBits)) ↔ l2 < (totalBits : Int)) :
    GenV.is_scale_within_bounds .ckks plainBits totalBits (decide (scale ≤ 0.0)) l2 = ckksScaleOk scale totalBits :=
  HC.gx_is_scale_within_bounds_ckks scale plainBits totalBits l2 ht hp hfl


/-! ### CKKS evaluation of the MODEL at the integer level: every operation's effect on Spec.phase (add, sub, negate, multiply = negacyclic product, multiply_plain, rescale with explicit rounding error, drop, relinearize + noise), a program-level soundness theorem by induction over programs (model result within the propagated worst-case bound of the exact reference; scales as exact rationals), refusals
    (statements, hypothesis bundles and non-vacuity instances: Heathcliff/Proofs/C03K.lean, section "Property theorems") -/

/-- K1 ADD (`ctTranslate … false`, any two sizes): on canonical NTT-form ciphertexts with equal correction factor (CKKS: both 1)
    the model succeeds, the result is canonical of size max(n1, n2), and its exact phase is the sum of the exact phases modulo Q -/
theorem ckks_add_phase : type_of% @HC.ckks_add_phase := @HC.ckks_add_phase

/-- K1 SUB (`ctTranslate … true`): the exact phase of the result is the difference of the exact phases modulo Q -/
theorem ckks_sub_phase : type_of% @HC.ckks_sub_phase := @HC.ckks_sub_phase

/-- K1 NEGATE (`ctNegate`): the exact phase is negated modulo Q -/
theorem ckks_negate_phase : type_of% @HC.ckks_negate_phase := @HC.ckks_negate_phase

/-- K1 MULTIPLY (`ctMultiplyDyadic` = `ckks_multiply`, any sizes n1, n2 in 2..16 with n1 + n2 − 1 ≤ 16 — a larger product is
    refused by `resize`, in the code and in the model): the model succeeds, the result is a canonical ciphertext of n1 + n2 − 1
    polynomials, and its exact phase is the NEGACYCLIC PRODUCT of the exact phases modulo Q: phase(r) ≡ phase(a) ⋆ phase(b).
    No noise is added by the tensor product. -/
theorem ckks_multiply_phase : type_of% @HC.ckks_multiply_phase := @HC.ckks_multiply_phase

/-- K1 MULTIPLY_PLAIN (`ctMultiplyPlainNtt`): for ANY integer lift `M` of the plaintext polynomial (`c03k_PlainLift`; e.g. the CRT
    lift or the centred CRT lift, `c03k_plainLift_crt/_centred`) the exact phase of the result is phase(a) ⋆ M modulo Q -/
theorem ckks_multiply_plain_phase : type_of% @HC.ckks_multiply_plain_phase := @HC.ckks_multiply_plain_phase

/-- every exact phase is the centred representative: coefficients in (−Q/2, Q/2] -/
theorem ckks_phase_centred : type_of% @HC.ckks_phase_centred := @HC.ckks_phase_centred

/-- no wrap-around: a congruence `phase ≡ y (mod Q)` with |y| < Q/2 is an equality of integers -/
theorem ckks_phase_exact : type_of% @HC.ckks_phase_exact := @HC.ckks_phase_exact

/-- K1 DROP (`modSwitchDropNext` = CKKS `mod_switch_to_next`): the last RNS component is removed, nothing else changes; the exact
    phase at the lower level is the old exact phase modulo Q' = Q / q_last (so it is its centred remainder, `ckks_phase_exact`) -/
theorem ckks_mod_switch_drop_phase : type_of% @HC.ckks_mod_switch_drop_phase := @HC.ckks_mod_switch_drop_phase

/-- K1 RESCALE (`modSwitchScaleNext` on a CKKS level = `rescale_to_next`, any size): the model succeeds, the result is canonical at
    the next level, and with the explicit error polynomial ρ = Σ_k ρ_k ⋆ s^k (`c03k_rescaleErr`; ρ_k the rounding remainders of the
    CRT lifts of the polynomials)
        q_L · phase(result) ≡ phase(ct) + ρ   (mod Q),     2‖ρ‖∞ ≤ q_L · Σ_{k<size} ‖s‖₁^k
    (size 2: 2‖ρ‖∞ ≤ q_L(1 + ‖s‖₁)). -/
theorem ckks_rescale_phase : type_of% @HC.ckks_rescale_phase := @HC.ckks_rescale_phase

/-- K1 RELINEARIZE (+ν) (`relinearize` of C04 on a CKKS level, size 3 → 2): with a relinearisation key satisfying the key equation
    for s² → s (`c04k_KeyEq`, hypotheses of C04K's `relinearize_phase`; concrete instance `c04k_exRelinKeyEq`), the model succeeds,
    the result is a canonical size-2 ciphertext and its exact phase is the old exact phase plus the key-switching noise
    ν = `c04k_nuStd` modulo Q; ‖ν‖∞ is bounded by `switchKey_noise_bound` (restated below) -/
theorem ckks_relinearize_phase : type_of% @HC.ckks_relinearize_phase := @HC.ckks_relinearize_phase

/-- the relinearisation noise: P·‖ν‖∞ ≤ dsz·A·n·Be + ⌊P/2⌋·(1 + ‖s‖₁) for level moduli ≤ A and key errors ‖e_i‖∞ ≤ Be -/
theorem ckks_relinearize_noise : type_of% @HC.ckks_relinearize_noise := @HC.ckks_relinearize_noise

/-- K1 RESCALE, exact form: when phase(ct) + ρ does not wrap around modulo Q the congruence is an equality of integers; then
    |q_L·phase(result) − phase(ct)| ≤ (q_L/2)·Σ_{k<size}‖s‖₁^k, i.e. |phase(result) − phase(ct)/q_L| ≤ (1/2)·Σ_{k<size}‖s‖₁^k
    (size 2: (1 + ‖s‖₁)/2) -/
theorem ckks_rescale_phase_exact : type_of% @HC.ckks_rescale_phase_exact := @HC.ckks_rescale_phase_exact

/-- model level: relinearising a size-3 ciphertext without a key for s² is refused; a size-2 ciphertext is returned unchanged;
    fewer than two polynomials are refused -/
theorem ckks_relinearize_refusals : type_of% @HC.ckks_relinearize_refusals := @HC.ckks_relinearize_refusals

theorem c03k_inv_of_modEq : type_of% @HC.c03k_inv_of_modEq := @HC.c03k_inv_of_modEq

theorem c03k_translate_sound : type_of% @HC.c03k_translate_sound := @HC.c03k_translate_sound

theorem c03k_neg_sound : type_of% @HC.c03k_neg_sound := @HC.c03k_neg_sound

theorem c03k_mul_sound : type_of% @HC.c03k_mul_sound := @HC.c03k_mul_sound

theorem c03k_mulPlain_sound : type_of% @HC.c03k_mulPlain_sound := @HC.c03k_mulPlain_sound

theorem c03k_drop_sound : type_of% @HC.c03k_drop_sound := @HC.c03k_drop_sound

theorem c03k_abs_natAbs_le : type_of% @HC.c03k_abs_natAbs_le := @HC.c03k_abs_natAbs_le

theorem c03k_rescale_sound : type_of% @HC.c03k_rescale_sound := @HC.c03k_rescale_sound

theorem c03k_relin_sound : type_of% @HC.c03k_relin_sound := @HC.c03k_relin_sound

theorem c03k_obind : type_of% @HC.c03k_obind := @HC.c03k_obind

/-- K2 (invariant form): if the MODEL evaluation of a program succeeds and the reference evaluation (interval arithmetic) is defined,
    the model's result satisfies the invariant against the reference result -/
theorem ckks_program_inv : type_of% @HC.ckks_program_inv := @HC.ckks_program_inv

/-- K2: the integer-level statement of C03's first sentence.  For every program over add, sub, negate, multiply, multiply_plain,
    rescale, mod-switch, relinearize (the key-switching hypotheses `c03k_RelinOK` are needed only if the program relinearises): if the MODEL evaluation succeeds with value `v` and the reference evaluation yields `r`, then the result is
    at the level the reference predicts, its recorded scale is EXACTLY the reference scale (products for multiplications, quotients
    by the dropped primes for rescalings), it has the predicted number of polynomials, and every coefficient of its exact phase is
    within the computed worst-case bound `r.err` of the reference polynomial `r.val` (itself bounded by `r.mag`) -/
theorem ckks_program_sound : type_of% @HC.ckks_program_sound := @HC.ckks_program_sound

/-- operands in different representations are refused by add / sub -/
theorem ckks_add_refuses_repr : type_of% @HC.ckks_add_refuses_repr := @HC.ckks_add_refuses_repr

/-- multiply refuses coefficient-form operands -/
theorem ckks_multiply_refuses_coeff : type_of% @HC.ckks_multiply_refuses_coeff := @HC.ckks_multiply_refuses_coeff

/-- K1 SQUARE: `ckksSquare` (the model of `ckks_square`: size-2 fast path `c0², c0·c1 + c0·c1, c1²`, `ckks_multiply(x, x.clone())` otherwise;
    run by the driver for `ct_op square`) IS the product of the ciphertext with itself, for every canonical ciphertext -/
theorem ckksSquare_eq : type_of% @HC.ckksSquare_eq := @HC.ckksSquare_eq

/-- K1 SQUARE, integer level (any size n in 2..8): the exact phase of the square is the negacyclic square of the exact phase modulo Q;
    the result is a canonical ciphertext of 2n − 1 polynomials; no noise is added -/
theorem ckks_square_phase : type_of% @HC.ckks_square_phase := @HC.ckks_square_phase

/-- square refuses a coefficient-form operand, and more than 8 polynomials (result size > 16) -/
theorem ckks_square_refuses_coeff : type_of% @HC.ckks_square_refuses_coeff := @HC.ckks_square_refuses_coeff
theorem ckks_square_refuses_size : type_of% @HC.ckksSquare_refuse_size := @HC.ckksSquare_refuse_size

/-- translator tie (task S): the DATA of `Evaluator::ckks_square`, generated over the flat buffer (`GenC.ct_ckks_square`), fast path (size 2,
    NTT form) = the flattened `ckksSquare` of the model - the in-place order `c2 = c1·c1, c1 = c0·c1, c1 += c1, c0 = c0·c0` -, THEN the
    bookkeeping of a ciphertext product (`ckksProductBookkeeping`) -/
theorem gen_ct_ckks_square_eq : type_of% @HC.gs_ckks_square_eq := @HC.gs_ckks_square_eq

/-- dispatch: coefficient form refused; every size but 2 goes to `ckks_multiply(x, &x.clone())` (route 1) - as the model by definition -/
theorem gen_ct_ckks_square_dispatch : type_of% @HC.gs_ckks_square_dispatch := @HC.gs_ckks_square_dispatch
theorem ckksSquare_fallback : type_of% @HC.ckksSquare_fallback := @HC.ckksSquare_fallback

/-- translator tie (task S): the DATA LOOPS of `Evaluator::ckks_multiply` (`GenC.ct_ckks_multiply` over the flat buffers: resize, nested loops over the
    visited pairs, copy over the whole buffer, scale bookkeeping) = the flattened `ctMultiplyDyadic` of the model, THEN `ckksProductBookkeeping` — operands
    of ANY sizes s1, s2 ≥ 1; the `resize` refusal and arithmetic traps included -/
theorem gen_ct_ckks_multiply_eq : type_of% @HC.gs_ckks_multiply_eq := @HC.gs_ckks_multiply_eq

/-- GENERATED = MODEL (`ckks_square`, EVERY size ≥ 1, both representations): the generated dispatch / fast path with the fallback route resolved by the
    generated `ckks_multiply` on the ciphertext and its clone (`gs_ckks_square_run`) = the flattened `ckksSquare`, then the product bookkeeping.
    With `ckksSquare_eq` / `ckks_square_phase`: what the code's `ckks_square` returns has the negacyclic square of the exact phase. -/
theorem gen_ct_ckks_square_all : type_of% @HC.gs_ckks_square_run_eq := @HC.gs_ckks_square_run_eq

/-- multiply_plain refuses a coefficient-form ciphertext -/
theorem ckks_multiply_plain_refuses_coeff : type_of% @HC.ckks_multiply_plain_refuses_coeff := @HC.ckks_multiply_plain_refuses_coeff

/-- rescale / mod-switch refuse on the last level and (CKKS) on coefficient-form input -/
theorem ckks_rescale_refusals : type_of% @HC.ckks_rescale_refusals := @HC.ckks_rescale_refusals

/-- the model's float scale predicate: refusal exactly when scale ≤ 0 or scale ≥ 2^bits (IEEE comparisons) -/
theorem ckks_scaleOk_false_iff : type_of% @HC.ckks_scaleOk_false_iff := @HC.ckks_scaleOk_false_iff

theorem c03k_scaleOk_iff : type_of% @HC.c03k_scaleOk_iff := @HC.c03k_scaleOk_iff

/-- program level: operands on different levels are refused by add / sub / multiply / multiply_plain -/
theorem ckks_prog_refuses_levels : type_of% @HC.ckks_prog_refuses_levels := @HC.ckks_prog_refuses_levels

/-- program level: disagreeing scales are refused by add / sub -/
theorem ckks_prog_refuses_scale_mismatch : type_of% @HC.ckks_prog_refuses_scale_mismatch := @HC.ckks_prog_refuses_scale_mismatch

/-- program level: a product scale out of bounds (not 0 < s·s' < 2^bits(Q)) is refused by multiply / multiply_plain -/
theorem ckks_prog_refuses_oversize_scale : type_of% @HC.ckks_prog_refuses_oversize_scale := @HC.ckks_prog_refuses_oversize_scale

/-- program level: invalid operands (`ctValid` false, empty, or coefficient form) are refused by every operation -/
theorem ckks_prog_refuses_invalid : type_of% @HC.ckks_prog_refuses_invalid := @HC.ckks_prog_refuses_invalid

/-- program level: relinearisation refuses invalid operands and sizes other than 3 -/
theorem ckks_prog_relin_refusals : type_of% @HC.ckks_prog_relin_refusals := @HC.ckks_prog_relin_refusals

/-- program level: rescale / mod-switch below level 0 are refused -/
theorem ckks_prog_refuses_last_level : type_of% @HC.ckks_prog_refuses_last_level := @HC.ckks_prog_refuses_last_level

theorem c03k_exL1_ok : type_of% @HC.c03k_exL1_ok := @HC.c03k_exL1_ok

theorem c03k_exL0_ok : type_of% @HC.c03k_exL0_ok := @HC.c03k_exL0_ok

/-- `c03k_Next` holds between the two levels the driver builds for {97, 113} and {97} -/
theorem c03k_exNext : type_of% @HC.c03k_exNext := @HC.c03k_exNext

/-- `c03k_ChainOK` is satisfiable (all parts except the concrete `Next` come from `mkLevel_ok`, i.e. from the model's constructors) -/
theorem c03k_exChainOK : type_of% @HC.c03k_exChainOK := @HC.c03k_exChainOK

theorem c03k_exPhase : type_of% @HC.c03k_exPhase := @HC.c03k_exPhase

theorem c03k_exPhase0 : type_of% @HC.c03k_exPhase0 := @HC.c03k_exPhase0

theorem c03k_exCanon : type_of% @HC.c03k_exCanon := @HC.c03k_exCanon

theorem c03k_exInv : type_of% @HC.c03k_exInv := @HC.c03k_exInv

/-- an environment with one input ciphertext and no plaintexts -/
theorem c03k_env_single : type_of% @HC.c03k_env_single := @HC.c03k_env_single

/-- `c03k_EnvOK` is satisfiable -/
theorem c03k_exEnv : type_of% @HC.c03k_exEnv := @HC.c03k_exEnv

theorem c03k_exRun_ok : type_of% @HC.c03k_exRun_ok := @HC.c03k_exRun_ok

theorem c03k_exRef_ok : type_of% @HC.c03k_exRef_ok := @HC.c03k_exRef_ok

/-- the main theorem applies to a concrete run: level 0, scale 8·8/113, size 3, and every phase coefficient within the bound -/
theorem c03k_program_nonvacuous : type_of% @HC.c03k_program_nonvacuous := @HC.c03k_program_nonvacuous

theorem c03k_exRL_wf : type_of% @HC.c03k_exRL_wf := @HC.c03k_exRL_wf

theorem c03k_exRL_levelQ : type_of% @HC.c03k_exRL_levelQ := @HC.c03k_exRL_levelQ

/-- `c03k_KeyLevelOf` is satisfiable -/
theorem c03k_exRL_of : type_of% @HC.c03k_exRL_of := @HC.c03k_exRL_of

theorem c03k_exRL_ct : type_of% @HC.c03k_exRL_ct := @HC.c03k_exRL_ct

/-- all hypotheses of `ckks_relinearize_phase` hold simultaneously; its conclusion on the instance -/
theorem c03k_relinearize_nonvacuous : type_of% @HC.c03k_relinearize_nonvacuous := @HC.c03k_relinearize_nonvacuous

theorem c03k_canon_kl : type_of% @HC.c03k_canon_kl := @HC.c03k_canon_kl

theorem c03k_exRL_tool : type_of% @HC.c03k_exRL_tool := @HC.c03k_exRL_tool

theorem c03k_exChain1OK : type_of% @HC.c03k_exChain1OK := @HC.c03k_exChain1OK

theorem c03k_exPhase2 : type_of% @HC.c03k_exPhase2 := @HC.c03k_exPhase2

theorem c03k_exInv2 : type_of% @HC.c03k_exInv2 := @HC.c03k_exInv2

/-- `c03k_RelinOK` is satisfiable -/
theorem c03k_exRelinOK : type_of% @HC.c03k_exRelinOK := @HC.c03k_exRelinOK

theorem c03k_exRun2_ok : type_of% @HC.c03k_exRun2_ok := @HC.c03k_exRun2_ok

theorem c03k_exRef2_ok : type_of% @HC.c03k_exRef2_ok := @HC.c03k_exRef2_ok

/-- the program theorem applies to a concrete run that multiplies and relinearises -/
theorem c03k_program_relin_nonvacuous : type_of% @HC.c03k_program_relin_nonvacuous := @HC.c03k_program_relin_nonvacuous

/-! ### translator tie (phase 4g): the CKKS scale bookkeeping of `Evaluator::ckks_multiply`, `ckks_square`, `multiply_plain_ntt` and the scale
     refusal of `mod_switch_drop_to_next_internal`, generated from src/evaluator.rs (Gen/EvalCtFns.lean, Gen/EvalFns.lean) = the decision
     functions of Model/Evaluator.lean (Proofs/GenEval2.lean, Proofs/GenEvalCt2.lean).  Scales are floats, opaque to the translator: the skeletons
     track WHICH scale the slot holds (own / product) and take the verdicts of `is_scale_within_bounds` about the own and the product scale, at
     the operands' level and at the first level, as separate Boolean inputs.  Tied by the proofs: the product is recorded, the check comes AFTER
     the data, and the verdict consulted is the one about the PRODUCT at the OPERANDS' level (rule of `c03k_opMul` / `c03k_opMulPlain`). -/
theorem gen_ckks_multiply_bookkeeping_eq : type_of% @HC.gl_ckks_multiply_eq := @HC.gl_ckks_multiply_eq
theorem gen_ckks_square_bookkeeping_eq : type_of% @HC.gl_ckks_square_eq := @HC.gl_ckks_square_eq
theorem gen_ckks_multiply_refuses : type_of% @HC.gl_ckks_multiply_refuses := @HC.gl_ckks_multiply_refuses
theorem gen_multiply_plain_ntt_eq : type_of% @HC.gc_multiply_plain_ntt_eq := @HC.gc_multiply_plain_ntt_eq
theorem gen_mod_switch_drop_decision_bits : type_of% @HC.gl_mod_switch_drop_decision_bits := @HC.gl_mod_switch_drop_decision_bits
theorem gen_mod_switch_drop_refuses_unfit : type_of% @HC.gl_mod_switch_drop_refuses_unfit := @HC.gl_mod_switch_drop_refuses_unfit
/-- non-vacuity of the hypothesis bundle of the bookkeeping ties (two fresh ciphertexts, N = 8192, three moduli) -/
example : HC.GenC.ckks_multiply_sk true true 2 2 8192 3 true true true true = .ok (3, 1) := by
  rw [HC.gl_ckks_multiply_eq _ _ _ _ _ _ _ _ _ _ (by norm_num) (by norm_num) (by norm_num) (by norm_num)]; decide

/-- `multiply_plain_normal` (coefficient-form operands): the ROUTE (monomial shortcut / generic NTT route, with / without the fast plain lift; the
    data steps are codes, the last of the generic route being the FULL inverse transform `intt_ps`) and the CKKS scale rule at both exits -/
theorem gen_multiply_plain_normal_plan_eq : type_of% @HC.gl_multiply_plain_normal_plan_eq := @HC.gl_multiply_plain_normal_plan_eq
example : HC.GenC.ckks_square_sk true 2 8192 3 true true true true = .ok (3, 1) := by
  rw [HC.gl_ckks_square_eq _ _ _ _ _ _ _ _ (by norm_num) (by norm_num) (by norm_num) (by norm_num) (by norm_num)]; decide
example : HC.GenC.ct_multiply_plain_normal_plan 5 false true 8192 3 .ckks true false = .error .refused := by
  rw [HC.gl_multiply_plain_normal_plan_eq _ _ _ _ _ _ _ _ (by norm_num)]; rfl
/-! ### scale agreement ("operands whose scales disagree are refused"): `util::are_close_f64`, exact-arithmetic model `areCloseDy` -/

/-- identical scales are accepted -/
theorem scales_close_self : type_of% @HC.c03t_areClose_self := @HC.c03t_areClose_self
/-- the verdict is symmetric in the operands -/
theorem scales_close_symm : type_of% @HC.c03t_areClose_symm := @HC.c03t_areClose_symm
/-- scales whose relative difference is at least 2^-45 are refused (e.g. a rescaled product s²/q against the nominal s unless q is within
    2^-45 of s); the statement is in the scaled integers of the definition -/
theorem scales_far_refused : type_of% @HC.c03t_areClose_far := @HC.c03t_areClose_far
/-- non-vacuity: 2^40 against 2^40·(1 + 2^-30) (mantissas 2^52 and 2^52 + 2^22 at exponent -12) is refused; against itself accepted;
    one unit in the last place apart is still accepted (the tolerance of the code is one machine epsilon) -/
example : HC.areCloseDy 4503599627370496 (-12) 4503599631564800 (-12) = false := by decide
example : HC.areCloseDy 4503599627370496 (-12) 4503599627370496 (-12) = true := by decide
example : HC.areCloseDy 4503599627370496 (-12) 4503599627370497 (-12) = true := by decide
example : HC.areCloseDy 4503599627370496 (-12) 4503599627370498 (-12) = false := by decide

end HC.C03
