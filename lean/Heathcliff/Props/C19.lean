import Heathcliff.Proofs.C19K
/-
  C19 — LWE extraction, field trace and packing place coefficients as documented.

  Objects: `negacyclicShift` (Model/NTT.lean), `extractLwe` / `assembleLwe` (value level, Model/Lwe.lean) and the
  phase-level programs `shiftPoly`, `sigmaPoly`, `fieldTracePoly`, `packPoly` (Model/Lwe.lean) instantiated over an
  arbitrary commutative ring `R` (the coefficient ring of the phase: Z_Q for BFV / BGV / CKKS alike).
  `negMulR n a b c` (Proofs/NTTDefs.lean) is coefficient c of a·b mod X^n + 1 by the explicit sum;
  `c19_mono n s` is the monomial X^s reduced with X^n = -1; `c19_negQ q` is the code's negation (0 ↦ 0, x ↦ q - x).
  Helper lemmas: Proofs/C19.lean.
-/
import Heathcliff.Proofs.C19
import Heathcliff.Proofs.GenAppLwe3
import Heathcliff.Proofs.GenShift
namespace HC.C19
open HC Finset

/-! ### negacyclic shift -/

/-- Index / sign rule of `negacyclic_shift` for EVERY shift s (in particular every s < 2N): output coefficient e is
    input coefficient e - s (mod N), negated once per wrap past N (`s mod N` decides the wrap, the parity of `s / N` the
    global sign). -/
theorem shift_coeff_rule (a : Array Nat) (s : Nat) (m : Modulus) (e : Nat) (he : e < a.size) :
    (negacyclicShift a s m).getD e 0 =
      if s % a.size ≤ e then
        (if (s / a.size) % 2 = 1 then c19_negQ m.value (a.getD (e - s % a.size) 0) else a.getD (e - s % a.size) 0)
      else
        (if (s / a.size) % 2 = 1 then a.getD (e + a.size - s % a.size) 0 else c19_negQ m.value (a.getD (e + a.size - s % a.size) 0)) :=
  c19_shift_coeff_rule a s m e he

theorem shift_size (a : Array Nat) (s : Nat) (m : Modulus) : (negacyclicShift a s m).size = a.size :=
  c19_negacyclicShift_size a s m

/-- `negacyclic_shift` by s is multiplication by X^s modulo (X^N + 1, q): in Z_q, every output coefficient equals the
    coefficient of the negacyclic product of the input with the monomial X^s (for every s; the property needs s < 2N). -/
theorem shift_is_monomial_mul (a : Array Nat) (s : Nat) (m : Modulus)
    (hcan : ∀ i < a.size, a.getD i 0 ≤ m.value) (e : Nat) (he : e < a.size) :
    (((negacyclicShift a s m).getD e 0 : Nat) : ZMod m.value) =
      negMulR a.size (fun i => ((a.getD i 0 : Nat) : ZMod m.value)) (c19_mono a.size s) e := by
  rw [c19_shift_value_is_phase a s m hcan e he, c19_shift_is_mul a.size (by omega) _ s e he]
  simp only [c19_map_getD]

/-- the same for the phase-level shift over any commutative ring -/
theorem shiftPoly_is_monomial_mul {R : Type} [CommRing R] (n : Nat) (hn : 0 < n) (a : Array R) (s e : Nat) (he : e < n) :
    (shiftPoly n a s).getD e 0 = negMulR n (fun i => a.getD i 0) (c19_mono n s) e :=
  c19_shift_is_mul n hn a s e he

example : negacyclicShift #[1, 2, 0, 4] 6 ⟨17, 0, 0, 0, 5⟩ = #[0, 4, 16, 15] := by decide

/-! ### extraction and re-assembly -/

/-- Ring identity of the extraction, any commutative ring, every index t < N: with c1' = X^(2N - t)·c1 (t > 0; c1 itself
    for t = 0) the constant coefficient of c1'·s equals coefficient t of c1·s. -/
theorem extract_identity {R : Type} [CommRing R] (n : Nat) (a : Array R) (s : Nat → R) (t : Nat) (ht : t < n) :
    negMulR n (fun j => (shiftPoly n a (if t = 0 then 0 else n * 2 - t)).getD j 0) s 0 =
      negMulR n (fun j => a.getD j 0) s t :=
  c19_extract_identity n a s t ht

/-- `extract_lwe` followed by `assemble_lwe` on the model, either input representation (`c19_coeffPoly` is the
    coefficient form the code computes first), every index `term < N`, every RNS component i and every secret vector s
    over Z_{q_i}: the assembled ciphertext is in coefficient form with the same correction factor, and the constant
    coefficient of its phase c0' + c1'·s equals coefficient `term` of the phase c0 + c1·s of the source. -/
theorem extract_assemble (l : Level) (ct : Ct) (term : Nat) (h2 : ct.polys.size = 2) (hv : ctValidFor l ct = true)
    (ht : term < l.n) :
    ∃ w, extractLwe l ct term = .ok w ∧ (assembleLwe l w).ntt = false ∧ (assembleLwe l w).cf = ct.cf ∧
      ∀ i, i < l.size →
        ((c19_coeffPoly l ct 1).getD i #[]).size = l.n →
        (∀ j < l.n, ((c19_coeffPoly l ct 1).getD i #[]).getD j 0 ≤ (l.q i).value) →
        ∀ s : Nat → ZMod (l.q i).value,
          ((((assembleLwe l w).polys.getD 0 #[]).getD i #[]).getD 0 0 : ZMod (l.q i).value)
            + negMulR l.n (fun j => (((((assembleLwe l w).polys.getD 1 #[]).getD i #[]).getD j 0 : Nat) : ZMod (l.q i).value)) s 0
          = ((((c19_coeffPoly l ct 0).getD i #[]).getD term 0 : Nat) : ZMod (l.q i).value)
            + negMulR l.n (fun j => ((((c19_coeffPoly l ct 1).getD i #[]).getD j 0 : Nat) : ZMod (l.q i).value)) s term :=
  c19_extract_assemble l ct term h2 hv ht

/-- indices past the degree are refused -/
theorem extract_refuses (l : Level) (ct : Ct) (term : Nat) (ht : l.n ≤ term) : ∃ e, extractLwe l ct term = .error e := by
  unfold extractLwe
  by_cases h2 : ct.polys.size = 2 <;> by_cases hv : ctValidFor l ct = true <;>
    by_cases ht0 : term = 0 <;> by_cases hle : term ≤ l.n * 2 <;>
    simp [h2, hv, bind, Except.bind, pure, Except.pure, ht0, ckSub, hle, ht]
  all_goals first | omega | exact ⟨.oob, by rw [if_pos (by omega)]⟩

/-! ### field trace -/

/-- σ_{2^m+1} on N = 2^k coefficients acts on X^j, j = (N/2^m)·u, by the sign (-1)^u. -/
theorem sigma_sign {R : Type} [CommRing R] (k m : Nat) (hm1 : 1 ≤ m) (hm : m ≤ k) (a : Array R) (u : Nat) (hu : u < 2^m) :
    (sigmaPoly (2^k) a (2^m+1)).getD (2^(k-m) * u) 0 =
      if u % 2 = 1 then - a.getD (2^(k-m) * u) 0 else a.getD (2^(k-m) * u) 0 :=
  c19_sigma_at_mult k m hm1 hm a u hu

/-- The field trace with parameter l ≤ log2 N (N = 2^k) on the phase: coefficient j of the result is (N/2^l)·a_j when
    N/2^l divides j, and 0 otherwise — for every coefficient vector over any commutative ring. -/
theorem field_trace_coeffs {R : Type} [CommRing R] (k l : Nat) (hl : l ≤ k) (a : Array R) (j : Nat) (hj : j < 2^k) :
    (fieldTracePoly k l a).getD j 0 =
      if (2^k / 2^l) ∣ j then ((2^k / 2^l : Nat) : R) * a.getD j 0 else 0 := by
  have hdiv : 2^k / 2^l = 2^(k-l) := Nat.pow_div hl (by norm_num)
  rw [c19_fieldTrace_eq, c19_traceSteps_coeff k (k-l) (by omega) a j hj, hdiv]
  push_cast
  rfl

/-- a parameter at or above log2 N leaves the operand unchanged (the loop body never runs) -/
theorem field_trace_noop {R : Type} [CommRing R] (k l : Nat) (hl : k ≤ l) (a : Array R) : fieldTracePoly k l a = a := by
  unfold fieldTracePoly
  have : k - l = 0 := by omega
  rw [this]; rfl

example : fieldTracePoly 2 1 (#[1, 2, 3, 4] : Array Int) = #[2, 0, 6, 0] := by decide
example : fieldTracePoly 2 0 (#[1, 2, 3, 4] : Array Int) = #[4, 0, 0, 0] := by decide

/-! ### packing -/

/-- `l = packLog count` is ⌈log2 count⌉: the least l with count ≤ 2^l -/
theorem packLog_is_ceil_log2 (count : Nat) :
    count ≤ 2^(packLog count) ∧ ∀ l', count ≤ 2^l' → packLog count ≤ l' :=
  ⟨c19_packLog_ge count, fun l' h => c19_packLog_min count l' h⟩

/-- PackLWEs on the phases (N = 2^k, any commutative ring in which `ninv` inverts N, any 1 ≤ count ≤ N input
    polynomials, l = ⌈log2 count⌉): coefficient r·N/2^l of the result is the CONSTANT coefficient of input r for
    r < count; every other coefficient — the remaining multiples of N/2^l and all non-multiples, whatever the other
    coefficients of the inputs are — is 0.  The 1/N pre-scale cancels the factor 2^l of the merges times N/2^l of the trace. -/
theorem pack_spec {R : Type} [CommRing R] (k : Nat) (ninv : R) (hinv : ninv * (2:R)^k = 1) (ins : Array (Array R))
    (hc : ins.size ≤ 2^k) (j : Nat) (hj : j < 2^k) :
    (packPoly k ninv ins).getD j 0 =
      if (2^k / 2^(packLog ins.size)) ∣ j ∧ j / (2^k / 2^(packLog ins.size)) < ins.size
      then (ins.getD (j / (2^k / 2^(packLog ins.size))) #[]).getD 0 0 else 0 := by
  set l := packLog ins.size with hldef
  have hl : l ≤ k := c19_packLog_min _ _ hc
  have hdiv : 2^k / 2^l = 2^(k-l) := Nat.pow_div hl (by norm_num)
  have hwpos : 0 < 2^(k-l) := Nat.two_pow_pos _
  rw [c19_packPoly_eq, c19_fieldTrace_eq, c19_traceSteps_coeff k (k-l) (by omega) _ j hj, hdiv]
  by_cases hd : 2^(k-l) ∣ j
  · obtain ⟨u, hu⟩ := hd
    have hu' : u < 2^l := by
      by_contra hge
      have : 2^(k-l) * 2^l ≤ 2^(k-l) * u := Nat.mul_le_mul_left _ (Nat.le_of_not_lt hge)
      rw [c19_pow_split k l hl] at this; omega
    have hju : j / 2^(k-l) = u := by rw [hu, Nat.mul_div_cancel_left _ hwpos]
    rw [if_pos ⟨u, hu⟩, hju]
    have hinvt := c19_packLayers_inv k l hl (packLeaves k l ninv ins) l (le_refl _) 0 (Nat.two_pow_pos _) (dvd_zero _) u hu'
    rw [← hu] at hinvt
    rw [hinvt, Nat.zero_add, c19_packLeaves_const k l ninv ins _ (brev_lt l u), brev_brev hu']
    have hprod : (2:R)^(k-l) * (2:R)^l = (2:R)^k := by rw [← pow_add]; congr 1; omega
    by_cases hlt : u < ins.size
    · rw [if_pos hlt, if_pos ⟨⟨u, hu⟩, hlt⟩]
      calc (2:R)^(k-l) * ((2:R)^l * (ninv * (ins.getD u #[]).getD 0 0))
          = (ninv * ((2:R)^(k-l) * (2:R)^l)) * (ins.getD u #[]).getD 0 0 := by ring
        _ = (ins.getD u #[]).getD 0 0 := by rw [hprod, hinv, one_mul]
    · rw [if_neg hlt, if_neg (fun h => hlt h.2)]; ring
  · rw [if_neg hd, if_neg (fun h => hd h.1)]

/-- the documented example: N = 8, five inputs ↦ stride 1, three inputs ↦ stride 2 (inputs with arbitrary other coefficients) -/
example : packPoly 3 (1 : Int) #[#[1, 9, 9, 9, 9, 9, 9, 9], #[2, 7, 7, 7, 7, 7, 7, 7], #[3, 5, 5, 5, 5, 5, 5, 5]]
    = #[8, 0, 16, 0, 24, 0, 0, 0] := by decide     -- without the pre-scale: the factor N
/-- the hypothesis of `pack_spec` is satisfiable (N = 8 in Z_17) -/
example : ∃ ninv : ZMod 17, ninv * (2 : ZMod 17)^3 = 1 := ⟨15, by decide⟩
example : packLog 5 = 3 ∧ packLog 3 = 2 ∧ packLog 1 = 0 ∧ packLog 8 = 3 := by decide


/-! ### field trace and packing on the MODEL's key-switched automorphisms: phase(result) = fieldTracePoly / packed layout + accumulated key-switch noise with explicit bounds (BGV: noise = 0 mod t), refusals
    (statements, hypothesis bundles and non-vacuity instances: Heathcliff/Proofs/C19K.lean, section "Property theorems") -/

/-- L1, ONE LAYER of the field trace on the model (rounding branch: BFV in coefficient form, CKKS in NTT form):
    `ct' = ct + applyGalois(ct, g)` for an odd g ≤ 2N with a Galois key from σ_g(s) to s (`c04k_KeyEq … s (σ_g s) e G`) succeeds, stays
    canonical, keeps representation and correction factor, and modulo every level modulus q_j
      phase_s(ct') ≡ x + σ_g(x) + ν,   x = phase_s(ct),   ν = `c04k_nuStd` of the switched σ_g(c1)   (`c19k_LayerSpec`),
    with P·‖ν‖∞ ≤ dsz·A·N·Be + ⌊P/2⌋·(1 + ‖s‖₁)  (`c19k_boundStd`; q_j ≤ A, ‖e_i‖∞ ≤ Be). -/
theorem fieldTrace_layer_noisy : type_of% @HC.fieldTrace_layer_noisy := @HC.fieldTrace_layer_noisy

/-- L1, one layer, BGV (NTT form): the same with ν = `c04k_nuBgv`, P·‖ν‖∞ ≤ dsz·A·N·Be + P·t·(1 + ‖s‖₁), and ν ≡ 0 (mod t) when
    every key error is a multiple of t. -/
theorem fieldTrace_layer_noisy_bgv : type_of% @HC.fieldTrace_layer_noisy_bgv := @HC.fieldTrace_layer_noisy_bgv

/-- L1, THE WHOLE LOOP `field_trace_inplace(ct, keys, logn)` on the model (`c19k_fieldTraceCt`: the fold of `applyGalois` +
    `add_inplace` over g = N+1, N/2+1, …; N = 2^(l.k)), rounding branch.  Hypotheses: canonical two-polynomial input, and for every
    layer i < log2 N − logn a Galois key for g_i = 2^(l.k−i)+1 from σ_{g_i}(s) to s with errors ‖e_i‖∞ ≤ Be.
    Conclusion: success, and modulo every q_j
        phase_s(result) ≡ fieldTracePoly(phase_s(ct)) + N_acc,
    `fieldTracePoly` the exact phase-level program of C19 (`C19.field_trace_coeffs`), N_acc = `c19k_accNoise` the propagated noise
    N_0 = 0, N_{i+1} = N_i + σ_{g_i}(N_i) + ν_i with ν_i the switch-key noise of layer i (of the i-th intermediate ciphertext),
    and the explicit bound  P·‖N_acc‖∞ ≤ (2^m − 1)·B = Σ_{i<m} 2^(m−1−i)·B,  m = log2 N − logn, B = `c19k_boundStd`. -/
theorem fieldTrace_noisy : type_of% @HC.fieldTrace_noisy := @HC.fieldTrace_noisy

/-- L1, the whole loop, BGV: bound with B = `c19k_boundBgv`, and N_acc ≡ 0 (mod t) when all key errors are multiples of t — the
    plaintext residue of the phase modulo t is exactly that of the exact field trace, same correction factor. -/
theorem fieldTrace_noisy_bgv : type_of% @HC.fieldTrace_noisy_bgv := @HC.fieldTrace_noisy_bgv

/-- coefficient form of `fieldTrace_noisy(_bgv)`: whenever phase(result) ≡ fieldTracePoly(x) + N (the conclusion of the two theorems),
    coefficient c of the result phase is (N/2^logn)·x_c + N_c when N/2^logn divides c, and N_c alone otherwise. -/
theorem fieldTrace_noisy_coeffs : type_of% @HC.fieldTrace_noisy_coeffs := @HC.fieldTrace_noisy_coeffs

/-- refusal: a missing Galois key for the first element N + 1 (when the loop runs at all) -/
theorem fieldTrace_refuses_missing_key : type_of% @HC.fieldTrace_refuses_missing_key := @HC.fieldTrace_refuses_missing_key

/-- refusal: a ciphertext that does not have exactly two polynomials (when the loop runs at all) -/
theorem fieldTrace_refuses_size : type_of% @HC.fieldTrace_refuses_size := @HC.fieldTrace_refuses_size

/-- logn ≥ log2 N: the loop body never runs -/
theorem fieldTrace_noop : type_of% @HC.fieldTrace_noop := @HC.fieldTrace_noop

/-- L2, ONE BUTTERFLY of the merge tree of `pack_lwe_ciphertexts` on the model (rounding branch: BFV, or CKKS with the NTT round trip
    around the automorphism): the monomial shift, `sub`, `add_inplace` are exact on phases, the one `apply_galois_inplace` adds ν:
      phase(even') ≡ packMerge(phase even, phase odd) + ν   (mod q_j),   P·‖ν‖∞ ≤ `c19k_boundStd`. -/
theorem pack_merge_noisy : type_of% @HC.pack_merge_noisy := @HC.pack_merge_noisy

/-- L2, THE WHOLE `pack_lwe_ciphertexts` on the model after leaf preparation (`c19k_packCt`: merge tree of L layers over 2^L canonical
    coefficient-form leaves `rlwes[o]`, then `field_trace_inplace(·, L)`; rounding branch).  With Galois keys for the merge elements
    2^(lam+1)+1 (lam < L) and the trace elements 2^(log2 N − i)+1 (i < log2 N − L), all errors ‖·‖∞ ≤ Be:
    the result phase, modulo every q_j, has
      coefficient (N/2^L)·u  ≡ N · (constant coefficient of the phase of leaf reverse_bits(u, L)) + (N/2^L)·Z + T,
      every other coefficient ≡ T,
    with integer noise arrays Z (merge tree) and T (trace), P·|Z| ≤ (2^L − 1)·B at the coefficients read, P·‖T‖∞ ≤ (N/2^L − 1)·B,
    hence P·|(N/2^L)·Z + T| ≤ (N − 1)·B, B = `c19k_boundStd`.  (With leaves = inputs divided by N, N·leaf = input: the
    documented placement `C19.pack_spec` up to this noise.) -/
theorem pack_noisy : type_of% @HC.pack_noisy := @HC.pack_noisy

/-- NON-VACUITY of the L1 hypotheses: on the key level `c04t_exKL` (N = 2, q = 13, P = 17, t = 5), ciphertext level {13}, the genuine
    Galois key `c19k_exKey` for g = 3 (s = 1 − X, σ_3(s) = 1 + X, e = 1 − X) satisfies `c19k_KeyOK` and the key equation, the example
    ciphertext satisfies `c19k_CtOK`; hence the full trace (logn = 0, one layer) succeeds in BFV and BGV with P·‖N_acc‖∞ ≤ B. -/
theorem fieldTrace_noisy_nonvacuous : type_of% @HC.fieldTrace_noisy_nonvacuous := @HC.fieldTrace_noisy_nonvacuous

/-- NON-VACUITY of the L2 hypotheses: on the same concrete world (N = 2, q = 13, P = 17), two coefficient-form leaves, one merge
    layer (L = 1, Galois element 3, the genuine key `c19k_exKey`), BFV: `pack_noisy` applies, so the model's pack succeeds. -/
theorem pack_noisy_nonvacuous : type_of% @HC.pack_noisy_nonvacuous := @HC.pack_noisy_nonvacuous

/-! ### translator tie (phase 4h, app mode): index / loop arithmetic of src/app/lwe.rs, REGENERATED on every run (`Gen/AppFns.lean`,
    fragments of `extract_lwe`, `pack_lwe_ciphertexts`, `field_trace_inplace`; evaluator calls are opaque steps recorded in a plan) -/

/-- `extract_lwe`: the generated `let shift = if term == 0 {0} else {poly_modulus_degree * 2 - term}` is the shift computation of the
    model's `extractLwe` (checked subtraction included: `term > 2N` traps in both) -/
theorem gen_lwe_extract_shift_eq : type_of% @HC.ga_lwe_extract_shift_eq := @HC.ga_lwe_extract_shift_eq

/-- ... composed with `extract_identity`'s exponent: for an index inside the polynomial the shift is the exponent `s < 2N` with
    `s + term ≡ 0 (mod 2N)`, i.e. the monomial `X^(2N − term)` = `X^(−term)` -/
theorem gen_lwe_extract_shift_spec (term n : Nat) (ht : term < n) (hn : n * 2 < 2^64) :
    ∃ s, GenApp.lwe_extract_shift term n = .ok s ∧ s < 2 * n ∧ (s + term) % (2 * n) = 0 := by
  rw [HC.ga_lwe_extract_shift_eq term n hn]
  by_cases h : term = 0
  · subst h; exact ⟨0, by simp [pure, Except.pure], by omega, by simp⟩
  · refine ⟨n * 2 - term, by rw [if_neg h, HC.ga_ckSub (by omega)], by omega, ?_⟩
    rw [show n * 2 - term + term = 2 * n by omega]; exact Nat.mod_self _

/-- `pack_lwe_ciphertexts`: the generated `let mut l = 0; while (1<<l) < lwes_count { l += 1; }` = `packLog` (at most 2^63 inputs; the
    code admits at most N.  Above 2^63 the code would reach `1 << 64`: a trap, where the model's `packLog` returns 64) -/
theorem gen_lwe_pack_log_eq : type_of% @HC.ga_lwe_pack_log_eq := @HC.ga_lwe_pack_log_eq

/-- ... composed with `packLog_is_ceil_log2`: the GENERATED loop returns ⌈log2 count⌉ -/
theorem gen_lwe_pack_log_is_ceil_log2 (count : Nat) (hc : count ≤ 2^63) :
    ∃ l, GenApp.lwe_pack_log count = .ok l ∧ count ≤ 2^l ∧ ∀ l', count ≤ 2^l' → l ≤ l' :=
  ⟨packLog count, HC.ga_lwe_pack_log_eq count hc, (packLog_is_ceil_log2 count).1, (packLog_is_ceil_log2 count).2⟩

/-- `field_trace_inplace`: with the key-level degree `2^k`, the generated loop performs `apply_galois(·, g)` + `add_inplace` exactly for
    `g = 2^(k−i) + 1`, `i = 0, …, k − logn − 1`, in this order (the loop structure of the model's `fieldTracePoly`) -/
theorem gen_lwe_field_trace_plan_eq : type_of% @HC.ga_lwe_field_trace_plan_eq := @HC.ga_lwe_field_trace_plan_eq

/-- ... composed with `field_trace_coeffs`: running the phase-level layer `a ↦ a + σ_g(a)` over the plan the GENERATED loop produces
    leaves `(N/2^l)·a_j` on the multiples of `N/2^l` and 0 elsewhere (any commutative ring) -/
theorem gen_lwe_field_trace_coeffs {R : Type} [CommRing R] (k l : Nat) (hl : l ≤ k) (hk : k ≤ 62) (a : Array R) (j : Nat) (hj : j < 2^k) :
    ∃ plan, GenApp.lwe_field_trace_plan l (2^k) = .ok plan ∧
      (plan.foldl (fun a g => addPoly (2^k) a (sigmaPoly (2^k) a g)) a).getD j 0 =
        if (2^k / 2^l) ∣ j then ((2^k / 2^l : Nat) : R) * a.getD j 0 else 0 := by
  refine ⟨_, HC.ga_lwe_field_trace_plan_eq k l hk (by omega), ?_⟩
  rw [← HC.ga_fieldTracePoly_plan]
  exact field_trace_coeffs k l hl a j hj

/-- `pack_lwe_ciphertexts`, leaf loop (skeleton reading: `assemble_lwe` + `divide_by_poly_modulus_degree_inplace` into slot `i` is recorded as
    the input index, the zero ciphertext as `count`): slot `i < 2^l` receives input `brev l i` iff that index exists.  Uses the second
    generated copy of `reverse_bits_u64`. -/
theorem gen_lwe_pack_leaves_eq : type_of% @HC.ga_lwe_pack_leaves_eq := @HC.ga_lwe_pack_leaves_eq
/-- ... and the model's `packLeaves` reads its inputs through exactly this plan -/
theorem gen_lwe_pack_leaves_model : type_of% @HC.ga_packLeaves_plan := @HC.ga_packLeaves_plan

/-- `pack_lwe_ciphertexts`, merge layers (skeleton reading: per butterfly the plan records odd slot, shift, even slot, Galois element; the
    `unsafe` pointer arithmetic `rlwes.as_mut_ptr().add(offset [+ gap])` is read as the slot index): layers `0 … l−1`, butterflies on the slots
    `q·2^(layer+1)` / `+ 2^layer`, shift `N >> (layer+1)`, element `2^(layer+1) + 1`; independent of `ntt_form` -/
theorem gen_lwe_pack_merge_plan_eq : type_of% @HC.ga_lwe_pack_merge_plan_eq := @HC.ga_lwe_pack_merge_plan_eq
/-- ... and the model's `packLayer` performs exactly that butterfly at the even slot of every plan entry -/
theorem gen_lwe_pack_merge_model : type_of% @HC.ga_packLayer_plan := @HC.ga_packLayer_plan

/-! #### second round: the WHOLE plan of `pack_lwe_ciphertexts` as one generated function -/

/-- the generated whole-plan function (`let mut l = 0;` … `self.field_trace_inplace(&mut ret, keys, l)`, 12 statements, skeleton reading):
    `[l] ++ leaves ++ butterflies of the layers 0 … l−1 ++ [l]` with `l = packLog count`, for every count ≤ 2^62 -/
theorem gen_lwe_pack_plan_eq : type_of% @HC.ga_lwe_pack_plan_eq := @HC.ga_lwe_pack_plan_eq

/-- interpreting that plan over the phase polynomials (`ga_runPack`: leaf slots, butterflies in order on the slots, field trace of slot 0
    — the reading of the opaque evaluator steps) IS the model's program `packPoly`: the in-place butterfly loop = the index-wise `packLayer` -/
theorem gen_lwe_pack_plan_is_packPoly : type_of% @HC.ga_runPack_eq := @HC.ga_runPack_eq

/-- **`pack_spec` as a statement about the GENERATED code**, every count `1 … N`, `N = 2^k ≤ 2^62`, both values of `ntt_form`: the generated
    function returns a plan, and running it leaves the constant coefficient of input `r` at position `r·N/2^⌈log2 count⌉` and zeros everywhere
    else -/
theorem gen_pack_spec {R : Type} [CommRing R] (k : Nat) (hk : k ≤ 62) (ninv : R) (hinv : ninv * (2:R)^k = 1) (ins : Array (Array R))
    (hc : ins.size ≤ 2^k) (ntt : Bool) (j : Nat) (hj : j < 2^k) :
    ∃ plan, GenApp.lwe_pack_plan ins.size (2^k) ntt = .ok plan ∧
      (ga_runPack k ninv ins plan).getD j 0 =
        if (2^k / 2^(packLog ins.size)) ∣ j ∧ j / (2^k / 2^(packLog ins.size)) < ins.size
        then (ins.getD (j / (2^k / 2^(packLog ins.size))) #[]).getD 0 0 else 0 := by
  have h62 : ins.size ≤ 2^62 := Nat.le_trans hc (Nat.pow_le_pow_right (by omega) hk)
  refine ⟨_, HC.ga_lwe_pack_plan_eq ins.size (2^k) ntt h62, ?_⟩
  rw [HC.ga_runPack_eq]
  exact pack_spec k ninv hinv ins hc j hj

/-- `polymod::negacyclic_shift` (src/util/polysmallmod.rs, regenerated into `Gen/PolyFns.lean` since phase 4b, there "generated only") = the
    model's `negacyclicShift`, on the zero-initialised buffer `extract_lwe` passes: the data rule of the extracted `c1` -/
theorem gen_negacyclic_shift_eq : type_of% @HC.gs_negacyclic_shift_eq := @HC.gs_negacyclic_shift_eq

/-- **`extract_lwe`'s `c1`, one RNS component, from source**: the generated shift computation followed by the generated `negacyclic_shift` returns the
    model's `negacyclicShift a (2N − term) q` (to which `shift_coeff_rule` / `shift_is_monomial_mul` / `extract_identity` apply), `0 < term < N` -/
theorem gen_extract_c1_eq (a : List Nat) (k term : Nat) (m : Modulus) (hlen : a.length = 2^k) (ht0 : term ≠ 0) (ht : term < 2^k)
    (hq : ∀ i, i < 2^k → a.getD i 0 ≤ m.value) (hk : 2^k * 3 < 2^64) :
    ∃ s, GenApp.lwe_extract_shift term (2^k) = .ok s ∧
      GenP.poly_negacyclic_shift a s m (List.replicate (2^k) 0) = .ok (negacyclicShift a.toArray (2^k * 2 - term) m).toList := by
  refine ⟨2^k * 2 - term, ?_, HC.gs_negacyclic_shift_eq a k _ m hlen (by omega) hq (by omega)⟩
  rw [HC.ga_lwe_extract_shift_eq term (2^k) (by omega), if_neg ht0, HC.ga_ckSub (by omega)]

/-! non-vacuity of the ties: the generated fragments run -/
example : GenP.poly_negacyclic_shift [1, 2, 3, 4] 5 ⟨7, 0, 0, 0, 3⟩ [0, 0, 0, 0] = .ok [4, 6, 5, 4] := by rfl
example : GenApp.lwe_pack_plan 3 8 false = .ok [2, 0, 2, 1, 3, 1, 4, 0, 3, 3, 4, 2, 3, 2, 2, 0, 5, 2] := by rfl
example := gen_pack_spec (R := ZMod 17) 1 (by decide) 9 (by decide) #[#[3, 4], #[5, 6]] (by decide) false 1 (by decide)
example : GenApp.lwe_pack_leaves 2 3 = .ok [0, 2, 1, 3] := by rfl
example : GenApp.lwe_pack_merge_plan 2 8 false = .ok [1, 4, 0, 3, 3, 4, 2, 3, 2, 2, 0, 5] := by rfl
example : GenApp.lwe_pack_log 5 = .ok 3 := by rfl
example : GenApp.lwe_field_trace_plan 1 8 = .ok [9, 5] := by rfl
example : GenApp.lwe_extract_shift 3 8 = .ok 13 := by rfl
example := gen_lwe_field_trace_coeffs (R := ℤ) 3 1 (by decide) (by decide) #[1, 2, 3, 4, 5, 6, 7, 8] 4 (by decide)

end HC.C19
