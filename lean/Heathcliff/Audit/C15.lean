import Heathcliff.Props.C15
#print axioms HC.C15.gen_field_order_agrees
#print axioms HC.C15.gen_writers_use_write_all
#print axioms HC.C15.gen_readers_propagate
#print axioms HC.C15.gen_no_raw_io_elsewhere
#print axioms HC.C15.write_all_total
#print axioms HC.C15.write_all_succeeds
#print axioms HC.C15.serialize_faulty
#print axioms HC.C15.serialize_faulty_chunks
#print axioms HC.C15.pinned_writers_violate
#print axioms HC.C15.truncation_is_error
#print axioms HC.C15.truncation_is_eof
#print axioms HC.C15.modelled_types_lawful
#print axioms HC.C15.write_all_interrupts_invisible
#print axioms HC.C15.serialize_interrupts_invisible
#print axioms HC.C15.serialize_faulty_interrupting
#print axioms HC.C15.pinned_writers_not_interrupt_safe
