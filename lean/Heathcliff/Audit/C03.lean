import Heathcliff.Props.C03
#print axioms HC.C03.ckks_mul_phase
#print axioms HC.C03.ckks_translate_phase
#print axioms HC.C03.rescale_error
#print axioms HC.C03.drop_phase
#print axioms HC.C03.scale_append
#print axioms HC.C03.gen_is_scale_within_bounds_eq
#print axioms HC.C03.gen_is_scale_within_bounds_ckks
