import Heathcliff.Props.C11
#print axioms HC.C11.placeholder
