import Heathcliff.Props.C11
#print axioms HC.C11.batchIndexMap_spec
#print axioms HC.C11.slotExp_injective
#print axioms HC.C11.batchIndexMap_perm
#print axioms HC.C11.batchDecode_eval
#print axioms HC.C11.batch_decode_encode
#print axioms HC.C11.batch_encode_decode
#print axioms HC.C11.batch_mul_slots
#print axioms HC.C11.batch_add_slots
#print axioms HC.C11.slotExp_rotate
#print axioms HC.C11.slotExp_swap
#print axioms HC.C11.batch_round_trip_of_new
#print axioms HC.C11.batch_encode_decode_of_new
#print axioms HC.C11.batch_tables_only_for_batching_primes
#print axioms HC.C11.gen_reverse_bits_u64_eq
#print axioms HC.C11.gen_batch_index_map_eq
#print axioms HC.C11.gen_batch_index_map_perm
