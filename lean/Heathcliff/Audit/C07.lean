import Heathcliff.Props.C07
#print axioms HC.C07.bitCount_le_iff
#print axioms HC.C07.bitCount_mono
#print axioms HC.C07.budget_eq
#print axioms HC.C07.centred_neg
#print axioms HC.C07.budget_negate
#print axioms HC.C07.centred_add_le
#print axioms HC.C07.budget_add_k
#print axioms HC.C07.exact_below_threshold
