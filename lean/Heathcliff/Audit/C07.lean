import Heathcliff.Props.C07
#print axioms HC.C07.placeholder
