import Heathcliff.Props.C06
#print axioms HC.C06.forms_table_ok
#print axioms HC.C06.forms_agree
#print axioms HC.C06.forms_table_size
#print axioms HC.C06.upward_refused
#print axioms HC.C06.gen_ctValid_split
#print axioms HC.C06.gen_ct_is_metadata_valid_for_eq
#print axioms HC.C06.gen_ctValid_eq
#print axioms HC.C06.gen_ct_is_metadata_valid_for_refuses
#print axioms HC.C06.gen_ct_is_buffer_valid_eq
