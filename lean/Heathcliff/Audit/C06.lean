import Heathcliff.Props.C06
#print axioms HC.C06.forms_table_ok
#print axioms HC.C06.forms_agree
#print axioms HC.C06.forms_table_size
#print axioms HC.C06.upward_refused
