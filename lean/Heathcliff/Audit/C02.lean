import Heathcliff.Props.C02
#print axioms HC.C02.placeholder
