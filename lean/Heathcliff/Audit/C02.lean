import Heathcliff.Props.C02
#print axioms HC.C02.mulPairs_spec
#print axioms HC.C02.ct_mul_phase
#print axioms HC.C02.translate_phase
#print axioms HC.C02.negate_phase
#print axioms HC.C02.mul_plain_phase
#print axioms HC.C02.add_plain_phase
#print axioms HC.C02.balance_spec
#print axioms HC.C02.balance_total
#print axioms HC.C02.bgv_add_balanced
#print axioms HC.C02.bgv_mul_factor
#print axioms HC.C02.prog_hom
