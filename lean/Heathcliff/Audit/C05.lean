import Heathcliff.Props.C05
#print axioms HC.C05.switch_up_refused
#print axioms HC.C05.switch_steps
#print axioms HC.C05.bfv_switch_noise
#print axioms HC.C05.bfv_switch_message
#print axioms HC.C05.bgv_switch_message
#print axioms HC.C05.ckks_drop_phase
#print axioms HC.C05.ckks_rescale_error
