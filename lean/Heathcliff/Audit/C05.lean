import Heathcliff.Props.C05
#print axioms HC.C05.switch_up_refused
