import Heathcliff.Props.C14
#print axioms HC.C14.gen_field_order_agrees
#print axioms HC.C14.round_trip
#print axioms HC.C14.size_exact
#print axioms HC.C14.stream_framing
#print axioms HC.C14.modelled_types_lawful
#print axioms HC.C14.limit_width
#print axioms HC.C14.limited_round_trip
#print axioms HC.C14.ciphertext_round_trip
#print axioms HC.C14.ciphertext_round_trip_seeded
#print axioms HC.C14.ciphertext_terms_round_trip
#print axioms HC.C14.vec_round_trip
