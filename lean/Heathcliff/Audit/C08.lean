import Heathcliff.Props.C08
#print axioms HC.C08.modulus_new_wf
