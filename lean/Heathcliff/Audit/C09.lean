import Heathcliff.Props.C09
#print axioms HC.C09.brev_zero
