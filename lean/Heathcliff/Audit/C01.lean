import Heathcliff.Props.C01
#print axioms HC.C01.placeholder
