import Heathcliff.Props.C01
#print axioms HC.C01.deltaM_eq
#print axioms HC.C01.deltaM_err
#print axioms HC.C01.bfv_scale_round_trip
#print axioms HC.C01.bgv_round_trip
#print axioms HC.C01.phase_fresh_pk
#print axioms HC.C01.phase_fresh_sk
#print axioms HC.C01.phase_fresh_pk_bgv
#print axioms HC.C01.negMul_norm_le
#print axioms HC.C01.fresh_noise_bound
#print axioms HC.C01.decrypt_fresh_bfv
#print axioms HC.C01.multiplyAddPlain_coeff
#print axioms HC.C01.bgv_round_trip_cf_bounded
#print axioms HC.C01.dotProduct_size2_ntt
#print axioms HC.C01.dotProduct_size2_coeff
