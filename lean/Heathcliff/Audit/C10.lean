import Heathcliff.Props.C10
#print axioms HC.C10.placeholder_isPow2
