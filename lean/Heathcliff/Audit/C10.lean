import Heathcliff.Props.C10
#print axioms HC.C10.RNSBase.new_wf
#print axioms HC.C10.crt_unique
#print axioms HC.C10.compose_spec
#print axioms HC.C10.compose_decompose
#print axioms HC.C10.decompose_compose
#print axioms HC.C10.fastConvert_spec
#print axioms HC.C10.decompose_spec_of
