import Heathcliff.Props.C04
#print axioms HC.C04.odd_mul_injective
#print axioms HC.C04.galoisApply_spec
#print axioms HC.C04.subst_eval
#print axioms HC.C04.galoisTable_spec
#print axioms HC.C04.galoisTable_exponent
#print axioms HC.C04.eltFromStep_spec
#print axioms HC.C04.eltFromStep_zero
#print axioms HC.C04.three_order
#print axioms HC.C04.step_inverse
#print axioms HC.C04.step_add
#print axioms HC.C04.three_pow_two_pow_pos
#print axioms HC.C04.eltFromStep_refuses'
#print axioms HC.C04.eltsAll_contains_le
#print axioms HC.C04.gadget_delta
#print axioms HC.C04.gadget_crt
#print axioms HC.C04.keyswitch_phase
#print axioms HC.C04.moddown_round
