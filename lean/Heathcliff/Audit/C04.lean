import Heathcliff.Props.C04
#print axioms HC.C04.placeholder
