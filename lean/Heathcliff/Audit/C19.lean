import Heathcliff.Props.C19
#print axioms HC.C19.shift_coeff_rule
#print axioms HC.C19.shift_size
#print axioms HC.C19.shift_is_monomial_mul
#print axioms HC.C19.shiftPoly_is_monomial_mul
#print axioms HC.C19.extract_identity
#print axioms HC.C19.extract_assemble
#print axioms HC.C19.extract_refuses
#print axioms HC.C19.sigma_sign
#print axioms HC.C19.field_trace_coeffs
#print axioms HC.C19.field_trace_noop
#print axioms HC.C19.packLog_is_ceil_log2
#print axioms HC.C19.pack_spec
