import Heathcliff.Proofs.GenGalois2
import Heathcliff.Proofs.C04M
import Mathlib.Data.ZMod.Basic

/-!
  `GaloisTool::apply` (generated, Gen/GaloisFns.lean) with a DIRTY result buffer: for odd `galois_elt` the map
  `i ↦ i·g mod N` is a permutation of `0..N`, every slot of `result` is overwritten, so the outcome does not depend on the
  initial contents of the `&mut [u64]` buffer.  Helper names start with `gz_`.
-/
namespace HC
open HC.GenG Finset

/-- run the loop of `apply` on two buffers in lock-step: same error, or two results that agree wherever the inputs
    agreed (`P`) and on every position written (`i·g mod n`, `i ∈ l`).  No hypothesis on `g` is needed here. -/
theorem gz_lockstep (n : Nat) (a : List Nat) (g : Nat) (m : Modulus) :
    ∀ (l : List Nat) (P : Nat → Prop) (res res' : List Nat), res.length = res'.length →
      (∀ p, P p → res[p]? = res'[p]?) →
      (∃ e, l.foldlM (gy_applyStep n a g m) res = .error e ∧ l.foldlM (gy_applyStep n a g m) res' = .error e) ∨
      (∃ r r', l.foldlM (gy_applyStep n a g m) res = .ok r ∧ l.foldlM (gy_applyStep n a g m) res' = .ok r' ∧
        r.length = res.length ∧ r'.length = res'.length ∧
        ∀ p, (P p ∨ ∃ i ∈ l, p = i * g % n) → r[p]? = r'[p]?) := by
  intro l
  induction l with
  | nil =>
    intro P res res' _ hP
    refine Or.inr ⟨res, res', rfl, rfl, rfl, rfl, ?_⟩
    intro p hp
    rcases hp with hp | ⟨i, hi, _⟩
    · exact hP p hp
    · exact absurd hi (by simp)
  | cons i tl ih =>
    intro P res res' hlen hP
    rw [List.foldlM_cons, List.foldlM_cons]
    unfold gy_applyStep
    cases hv : (if (i * g / n) % 2 = 1 then negateMod (a.getD i 0) m else pure (a.getD i 0) : R Nat) with
    | error e => exact Or.inl ⟨e, rfl, rfl⟩
    | ok v =>
      simp only [gy_ok_bind, gy_pure_eq]
      have hP' : ∀ p, (P p ∨ p = i * g % n) → (res.set (i * g % n) v)[p]? = (res'.set (i * g % n) v)[p]? := by
        intro p hp
        rw [List.getElem?_set, List.getElem?_set, hlen]
        by_cases hq : i * g % n = p
        · rw [if_pos hq, if_pos hq]
        · rw [if_neg hq, if_neg hq]
          rcases hp with hp | hp
          · exact hP p hp
          · exact absurd hp.symm hq
      rcases ih (fun p => P p ∨ p = i * g % n) (res.set (i * g % n) v) (res'.set (i * g % n) v)
        (by rw [List.length_set, List.length_set]; exact hlen) hP' with ⟨e, h1, h2⟩ | ⟨r, r', h1, h2, h3, h4, h5⟩
      · exact Or.inl ⟨e, h1, h2⟩
      · refine Or.inr ⟨r, r', h1, h2, by rw [h3, List.length_set], by rw [h4, List.length_set], ?_⟩
        intro p hp
        apply h5
        rcases hp with hp | ⟨j, hj, hpj⟩
        · exact Or.inl (Or.inl hp)
        · rcases List.mem_cons.mp hj with rfl | hj
          · exact Or.inl (Or.inr hpj)
          · exact Or.inr ⟨j, hj, hpj⟩

/-- for odd `g`, every position `< 2^k` is `i·g mod 2^k` for some `i < 2^k` -/
theorem gz_surj {k g : Nat} (hodd : g % 2 = 1) (p : Nat) (hp : p < 2^k) : ∃ i, i < 2^k ∧ p = i * g % 2^k := by
  have h : p ∈ (range (2^k)).image (fun i => (i * g) % 2^k) := by
    rw [c04m_image_eq hodd]; exact Finset.mem_range.mpr hp
  obtain ⟨i, hi, hip⟩ := Finset.mem_image.mp h
  exact ⟨i, Finset.mem_range.mp hi, hip.symm⟩

/-- the full loop of `apply` (odd `g`) gives the same outcome from any two buffers of length `2^k` -/
theorem gz_fold_indep (a : List Nat) (g : Nat) (m : Modulus) (k : Nat) (hodd : g % 2 = 1) (res res' : List Nat)
    (hres : res.length = 2^k) (hres' : res'.length = 2^k) :
    (List.range' 0 (2^k)).foldlM (gy_applyStep (2^k) a g m) res =
      (List.range' 0 (2^k)).foldlM (gy_applyStep (2^k) a g m) res' := by
  rcases gz_lockstep (2^k) a g m (List.range' 0 (2^k)) (fun _ => False) res res' (by rw [hres, hres'])
    (fun p hp => absurd hp id) with ⟨e, h1, h2⟩ | ⟨r, r', h1, h2, h3, h4, h5⟩
  · rw [h1, h2]
  · rw [h1, h2]
    congr 1
    apply List.ext_getElem?
    intro p
    by_cases hp : p < 2^k
    · obtain ⟨i, hi, hip⟩ := gz_surj hodd p hp
      exact h5 p (Or.inr ⟨i, List.mem_range'_1.mpr ⟨Nat.zero_le _, by omega⟩, hip⟩)
    · rw [List.getElem?_eq_none (by omega), List.getElem?_eq_none (by omega)]

/-- `GaloisTool::apply` (generated) with an ARBITRARY (dirty) result buffer of the right length, odd `galois_elt`:
    same outcome as the hand model `galoisApply` (which starts from zeros). -/
theorem gz_galois_apply_dirty (a : List Nat) (g : Nat) (m : Modulus) (k : Nat) (hk : k < 64) (ha : 2^k ≤ a.length)
    (hg : 2^k * g < 2^64) (hodd : g % 2 = 1) (res : List Nat) (hres : res.length = 2^k) :
    GenG.galois_apply a g m res (2^k) k = (galoisApply k a.toArray g m >>= fun r => pure r.toList) := by
  rw [← gy_galois_apply_eq a g m k hk ha hg]
  unfold GenG.galois_apply
  have hs : ckSub (2^k) 1 = .ok (2^k - 1) := by unfold ckSub; rw [if_pos Nat.one_le_two_pow]
  simp only [hs, gy_ok_bind]
  have h0 := gy_apply_loop_eq a g m k hk ha hg (2^k) 0 res (by omega) hres
  have h1 := gy_apply_loop_eq a g m k hk ha hg (2^k) 0 (List.replicate (2^k) 0) (by omega) (by simp)
  rw [Nat.zero_mul] at h0 h1
  rw [h0, h1]
  exact gz_fold_indep a g m k hodd res _ hres (by simp)

/-- index / sign rule of the generated `GaloisTool::apply` for any dirty result buffer -/
theorem gz_galois_apply_spec (a : List Nat) (g : Nat) (m : Modulus) (k : Nat) (hm : m.WF) (hk : k < 64)
    (ha : a.length = 2^k) (hg : 2^k * g < 2^64) (hodd : g % 2 = 1) (hlt : ∀ i, i < 2^k → a.getD i 0 < m.value)
    (res : List Nat) (hres : res.length = 2^k) :
    ∃ r : List Nat, GenG.galois_apply a g m res (2^k) k = .ok r ∧ r.length = 2^k ∧ ∀ i, i < 2^k →
      r.getD ((i * g) % 2^k) 0 = (if ((i * g) / 2^k) % 2 = 1 then (m.value - a.getD i 0) % m.value else a.getD i 0) := by
  have hget : ∀ i, a.toArray.getD i 0 = a.getD i 0 := by intro i; simp
  obtain ⟨r, h1, h2, h3⟩ := galoisApply_spec (k := k) (g := g) hm hodd (a := a.toArray) (by simpa using ha)
    (by intro i hi; rw [hget]; exact hlt i hi)
  refine ⟨r.toList, ?_, by simpa using h2, ?_⟩
  · rw [gz_galois_apply_dirty a g m k hk ha.ge hg hodd res hres, h1]; rfl
  · intro i hi
    have := h3 i hi
    rw [hget] at this
    rw [← this]
    simp

theorem gz_cast_neg (q y : Nat) (hy : y ≤ q) : (((q - y) % q : Nat) : ZMod q) = - (y : ZMod q) := by
  rw [ZMod.natCast_mod, Nat.cast_sub hy, ZMod.natCast_self, zero_sub]

/-- the generated `GaloisTool::apply` (dirty result buffer, odd `g`) is the substitution `X ↦ X^g` modulo `X^N + 1` over
    `Z/q`: evaluating the output at any `x` with `x^N = -1` equals evaluating the operand at `x^g`. -/
theorem gz_galois_apply_subst (a : List Nat) (g : Nat) (m : Modulus) (k : Nat) (hm : m.WF) (hk : k < 64)
    (ha : a.length = 2^k) (hg : 2^k * g < 2^64) (hodd : g % 2 = 1) (hlt : ∀ i, i < 2^k → a.getD i 0 < m.value)
    (res : List Nat) (hres : res.length = 2^k) (x : ZMod m.value) (hx : x ^ (2^k) = -1) :
    ∃ r : List Nat, GenG.galois_apply a g m res (2^k) k = .ok r ∧ r.length = 2^k ∧
      ∑ j ∈ range (2^k), (r.getD j 0 : ZMod m.value) * x ^ j =
        ∑ i ∈ range (2^k), (a.getD i 0 : ZMod m.value) * (x ^ g) ^ i := by
  obtain ⟨r, h1, h2, h3⟩ := gz_galois_apply_spec a g m k hm hk ha hg hodd hlt res hres
  refine ⟨r, h1, h2, ?_⟩
  apply subst_eval hodd x hx (fun i => (a.getD i 0 : ZMod m.value)) (fun j => (r.getD j 0 : ZMod m.value))
  intro i hi
  show ((r.getD ((i * g) % 2^k) 0 : Nat) : ZMod m.value) = _
  rw [h3 i hi]
  by_cases h : ((i * g) / 2^k) % 2 = 1
  · rw [if_pos h, if_pos h]; exact gz_cast_neg _ _ (hlt i hi).le
  · rw [if_neg h, if_neg h]

/-- non-vacuity: N = 4, g = 3, q = 17, dirty buffer `[9,9,9,9]`: `1 + 2X + 3X^2 + 4X^3 ↦ 1 + 4X - 3X^2 + 2X^3` -/
example : GenG.galois_apply [1, 2, 3, 4] 3 ⟨17, (2^128 / 17) % B64, (2^128 / 17) / B64, 2^128 % 17, bitCount 17⟩
    [9, 9, 9, 9] (2^2) 2 = .ok [1, 4, 14, 2] := by decide

/-- `hodd` is needed: for even `g = 2` slots 1 and 3 are never written and keep the dirty contents -/
example : GenG.galois_apply [1, 2, 3, 4] 2 ⟨17, (2^128 / 17) % B64, (2^128 / 17) / B64, 2^128 % 17, bitCount 17⟩
    [9, 9, 9, 9] (2^2) 2 = .ok [14, 9, 13, 9] := by decide
end HC
