import Heathcliff.Gen.ContextFns
import Heathcliff.Model.Context
import Heathcliff.Proofs.GenWord3
import Heathcliff.Proofs.C08A
import Heathcliff.Proofs.C08C

/-!
  Translator tie, round 7 (worker T): the pre-computed CONSTANTS of `HeContext::validate` (src/context.rs) and `RNSBase::decompose`
  (src/util/rns.rs), generated into `Gen/ContextFns.lean` (`HC.GenX`), against their mathematical definitions.

  part 1 (this file): the generated loops / functions evaluated on well-formed inputs
    * `rns_decompose`            = residues `v mod q_i` (identity for a single modulus),
    * `validate_total`           = limbs of `Π q_i` and its bit count,
    * `validate_bfv_consts`      = `(⌊Q/t⌋ mod q_i, (Q mod t) mod q_i, q_i − t | limbs of Q − t, fast-lift flag, Q mod t, ⌈t/2⌉)`.
  Helper names start with `gcx_`.
-/
namespace HC
open HC.GenW

/-! ### list helpers -/

theorem gcx_idxT_eq {α : Type} (l : List α) (i : Nat) (h : i < l.length) : GenX.idxT l i = .ok l[i] := by
  unfold GenX.idxT; rw [List.getElem?_eq_getElem h]

theorem gcx_take_set_succ (a : List Nat) (i x : Nat) (h : i < a.length) : (a.set i x).take (i+1) = a.take i ++ [x] := by
  rw [List.take_add_one, List.take_set_of_le (Nat.le_refl i), List.getElem?_set_self (by simpa using h)]
  rfl

theorem gcx_fromNat_toNat : ∀ (l : List Nat), Limbs l → fromNat l.length (toNat l) = l
  | [], _ => rfl
  | x :: xs, h => by
    have hx : x < B64 := (limbs_cons.mp h).1
    have ih := gcx_fromNat_toNat xs (limbs_cons.mp h).2
    show ((x + B64 * toNat xs) % B64) :: fromNat xs.length ((x + B64 * toNat xs) / B64) = x :: xs
    rw [Nat.add_mul_mod_self_left, Nat.mod_eq_of_lt hx, Nat.add_mul_div_left _ _ B64_pos, Nat.div_eq_of_lt hx, Nat.zero_add, ih]

/-- a limb list is determined by its length and value -/
theorem gcx_eq_fromNat {l : List Nat} {k v : Nat} (hl : Limbs l) (hk : l.length = k) (hv : toNat l = v) : l = fromNat k v := by
  rw [← hk, ← hv, gcx_fromNat_toNat l hl]

theorem gcx_prodL_foldl (l : List Nat) : l.foldl (· * ·) 1 = Ctx.prodL l := by
  have : ∀ (l : List Nat) (a : Nat), l.foldl (· * ·) a = a * Ctx.prodL l := by
    intro l
    induction l with
    | nil => intro a; simp [Ctx.prodL]
    | cons x xs ih => intro a; rw [List.foldl_cons, ih, Ctx.prodL, Nat.mul_assoc]
  rw [this, Nat.one_mul]

theorem gcx_forall₂_map {α β : Type} (R : α → β → Prop) (f : α → β) :
    ∀ l : List α, (∀ x ∈ l, R x (f x)) → List.Forall₂ R l (l.map f)
  | [], _ => List.Forall₂.nil
  | x :: xs, h => List.Forall₂.cons (h x (by simp)) (gcx_forall₂_map R f xs (fun y hy => h y (by simp [hy])))

/-! ### `RNSBase::decompose` -/

theorem gcx_decompose_loop (ms : List Modulus) (v : List Nat) :
    ∀ (n i : Nat) (a rs : List Nat), i + n = ms.length → a.length = ms.length →
      List.Forall₂ (fun m r => GenW.modulo_uint v m = .ok r) (ms.drop i) rs →
      GenX.rns_decompose_loop1 ms v n i a = .ok (a.take i ++ rs) := by
  intro n
  induction n with
  | zero =>
    intro i a rs hi ha hf
    have hd : ms.drop i = [] := List.drop_eq_nil_of_le (by omega)
    rw [hd] at hf; cases hf
    rw [List.append_nil, List.take_of_length_le (by omega)]; rfl
  | succ n ih =>
    intro i a rs hi ha hf
    have hlt : i < ms.length := by omega
    rw [List.drop_eq_getElem_cons hlt] at hf
    cases hf with
    | cons h1 h2 =>
      rename_i r rs'
      unfold GenX.rns_decompose_loop1
      simp only [gcx_idxT_eq ms i hlt, bind, Except.bind, h1, gx_setIdx_ok a i r (by omega)]
      rw [ih (i+1) (a.set i r) rs' (by omega) (by simp [ha]) h2, gcx_take_set_succ a i r (by omega)]
      simp

/-- `decompose` on a value with as many limbs as there are moduli: the residues, or the value itself for a single modulus -/
theorem gcx_decompose_ok {ms : List Modulus} {v : List Nat} (hw : ∀ m ∈ ms, m.WF) (hv : Limbs v) (hl : v.length = ms.length) :
    GenX.rns_decompose ms v = .ok (if 1 < ms.length then ms.map (fun m => toNat v % m.value) else v) := by
  unfold GenX.rns_decompose
  rw [if_pos hl]
  by_cases h1 : 1 < ms.length
  · have hne : v ≠ [] := by intro h; rw [h] at hl; simp at hl; omega
    have hf : List.Forall₂ (fun m r => GenW.modulo_uint v m = .ok r) (ms.drop 0) (ms.map (fun m => toNat v % m.value)) := by
      rw [List.drop_zero]
      refine gcx_forall₂_map _ _ ms (fun m hm => ?_)
      rw [gw_modulo_uint_eq v m hne]
      exact moduloUint_exact (hw m hm) hne hv
    have hgt : ms.length > 1 := h1
    simp only [if_pos hgt, if_pos h1, bind, Except.bind, gcx_decompose_loop ms v ms.length 0 v _ (by omega) hl hf]
    simp
  · have hgt : ¬ ms.length > 1 := h1
    simp only [if_neg hgt, if_neg h1, bind, Except.bind, pure, Except.pure]

/-! ### the product of the coefficient moduli and its bit count -/

theorem gcx_validate_total_ok {qs tot0 : List Nat} (hne : qs ≠ []) (hq : Limbs qs) :
    GenX.validate_total qs tot0 = .ok (fromNat qs.length (Ctx.prodL qs), bitCount (Ctx.prodL qs)) := by
  obtain ⟨r, hr, hlen, hlim, hval⟩ := multiplyManyU64_spec hne hq (Nat.le_refl _)
  rw [gcx_prodL_foldl] at hval
  have hr' : r = fromNat qs.length (Ctx.prodL qs) := gcx_eq_fromNat hlim hlen hval
  have hre : r.isEmpty = false := by
    cases r with
    | nil => simp at hlen; exact absurd (List.length_eq_zero_iff.mp hlen.symm) hne
    | cons _ _ => rfl
  unfold GenX.validate_total GenX.multiply_many_u64 GenX.get_significant_bit_count_uint bitCountUint
  simp only [List.length_replicate, hr, bind, Except.bind, hre, pure, Except.pure, hval]
  rw [hr']
  simp
end HC
