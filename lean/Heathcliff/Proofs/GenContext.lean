import Heathcliff.Gen.ContextFns
import Heathcliff.Model.Context
import Heathcliff.Proofs.GenWord3
import Heathcliff.Proofs.C08A
import Heathcliff.Proofs.C08C

/-!
  Translator tie, round 7 (worker T): the pre-computed CONSTANTS of `HeContext::validate` (src/context.rs) and `RNSBase::decompose`
  (src/util/rns.rs), generated into `Gen/ContextFns.lean` (`HC.GenX`), against their mathematical definitions.

  part 1 (this file): the generated loops / functions evaluated on well-formed inputs
    * `rns_decompose`            = residues `v mod q_i` (identity for a single modulus),
    * `validate_total`           = limbs of `Π q_i` and its bit count,
    * `validate_bfv_consts`      = `(⌊Q/t⌋ mod q_i, (Q mod t) mod q_i, q_i − t | limbs of Q − t, fast-lift flag, Q mod t, ⌈t/2⌉)`.
  Helper names start with `gcx_`.
-/
namespace HC
open HC.GenW

/-! ### list helpers -/

theorem gcx_idxT_eq {α : Type} (l : List α) (i : Nat) (h : i < l.length) : GenX.idxT l i = .ok l[i] := by
  unfold GenX.idxT; rw [List.getElem?_eq_getElem h]

theorem gcx_take_set_succ (a : List Nat) (i x : Nat) (h : i < a.length) : (a.set i x).take (i+1) = a.take i ++ [x] := by
  rw [List.take_add_one, List.take_set_of_le (Nat.le_refl i), List.getElem?_set_self (by simpa using h)]
  rfl

theorem gcx_fromNat_toNat : ∀ (l : List Nat), Limbs l → fromNat l.length (toNat l) = l
  | [], _ => rfl
  | x :: xs, h => by
    have hx : x < B64 := (limbs_cons.mp h).1
    have ih := gcx_fromNat_toNat xs (limbs_cons.mp h).2
    show ((x + B64 * toNat xs) % B64) :: fromNat xs.length ((x + B64 * toNat xs) / B64) = x :: xs
    rw [Nat.add_mul_mod_self_left, Nat.mod_eq_of_lt hx, Nat.add_mul_div_left _ _ B64_pos, Nat.div_eq_of_lt hx, Nat.zero_add, ih]

/-- a limb list is determined by its length and value -/
theorem gcx_eq_fromNat {l : List Nat} {k v : Nat} (hl : Limbs l) (hk : l.length = k) (hv : toNat l = v) : l = fromNat k v := by
  rw [← hk, ← hv, gcx_fromNat_toNat l hl]

theorem gcx_prodL_foldl (l : List Nat) : l.foldl (· * ·) 1 = Ctx.prodL l := by
  have : ∀ (l : List Nat) (a : Nat), l.foldl (· * ·) a = a * Ctx.prodL l := by
    intro l
    induction l with
    | nil => intro a; simp [Ctx.prodL]
    | cons x xs ih => intro a; rw [List.foldl_cons, ih, Ctx.prodL, Nat.mul_assoc]
  rw [this, Nat.one_mul]

theorem gcx_forall₂_map {α β : Type} (R : α → β → Prop) (f : α → β) :
    ∀ l : List α, (∀ x ∈ l, R x (f x)) → List.Forall₂ R l (l.map f)
  | [], _ => List.Forall₂.nil
  | x :: xs, h => List.Forall₂.cons (h x (by simp)) (gcx_forall₂_map R f xs (fun y hy => h y (by simp [hy])))

/-! ### `RNSBase::decompose` -/

theorem gcx_decompose_loop (ms : List Modulus) (v : List Nat) :
    ∀ (n i : Nat) (a rs : List Nat), i + n = ms.length → a.length = ms.length →
      List.Forall₂ (fun m r => GenW.modulo_uint v m = .ok r) (ms.drop i) rs →
      GenX.rns_decompose_loop1 ms v n i a = .ok (a.take i ++ rs) := by
  intro n
  induction n with
  | zero =>
    intro i a rs hi ha hf
    have hd : ms.drop i = [] := List.drop_eq_nil_of_le (by omega)
    rw [hd] at hf; cases hf
    rw [List.append_nil, List.take_of_length_le (by omega)]; rfl
  | succ n ih =>
    intro i a rs hi ha hf
    have hlt : i < ms.length := by omega
    rw [List.drop_eq_getElem_cons hlt] at hf
    cases hf with
    | cons h1 h2 =>
      rename_i r rs'
      unfold GenX.rns_decompose_loop1
      simp only [gcx_idxT_eq ms i hlt, bind, Except.bind, h1, gx_setIdx_ok a i r (by omega)]
      rw [ih (i+1) (a.set i r) rs' (by omega) (by simp [ha]) h2, gcx_take_set_succ a i r (by omega)]
      simp

/-- `decompose` on a value with as many limbs as there are moduli: the residues, or the value itself for a single modulus -/
theorem gcx_decompose_ok {ms : List Modulus} {v : List Nat} (hw : ∀ m ∈ ms, m.WF) (hv : Limbs v) (hl : v.length = ms.length) :
    GenX.rns_decompose ms v = .ok (if 1 < ms.length then ms.map (fun m => toNat v % m.value) else v) := by
  unfold GenX.rns_decompose
  rw [if_pos hl]
  by_cases h1 : 1 < ms.length
  · have hne : v ≠ [] := by intro h; rw [h] at hl; simp at hl; omega
    have hf : List.Forall₂ (fun m r => GenW.modulo_uint v m = .ok r) (ms.drop 0) (ms.map (fun m => toNat v % m.value)) := by
      rw [List.drop_zero]
      refine gcx_forall₂_map _ _ ms (fun m hm => ?_)
      rw [gw_modulo_uint_eq v m hne]
      exact moduloUint_exact (hw m hm) hne hv
    have hgt : ms.length > 1 := h1
    simp only [if_pos hgt, if_pos h1, bind, Except.bind, gcx_decompose_loop ms v ms.length 0 v _ (by omega) hl hf]
    simp
  · have hgt : ¬ ms.length > 1 := h1
    simp only [if_neg hgt, if_neg h1, bind, Except.bind, pure, Except.pure]

/-! ### the product of the coefficient moduli and its bit count -/

theorem gcx_validate_total_ok {qs tot0 : List Nat} (hne : qs ≠ []) (hq : Limbs qs) :
    GenX.validate_total qs tot0 = .ok (fromNat qs.length (Ctx.prodL qs), bitCount (Ctx.prodL qs)) := by
  obtain ⟨r, hr, hlen, hlim, hval⟩ := multiplyManyU64_spec hne hq (Nat.le_refl _)
  rw [gcx_prodL_foldl] at hval
  have hr' : r = fromNat qs.length (Ctx.prodL qs) := gcx_eq_fromNat hlim hlen hval
  have hre : r.isEmpty = false := by
    cases r with
    | nil => simp at hlen; exact absurd (List.length_eq_zero_iff.mp hlen.symm) hne
    | cons _ _ => rfl
  unfold GenX.validate_total GenX.multiply_many_u64 GenX.get_significant_bit_count_uint bitCountUint
  simp only [List.length_replicate, hr, bind, Except.bind, hre, pure, Except.pure, hval]
  rw [hr']
  simp

/-! ### the BFV / BGV constants -/

theorem gcx_prodL_le : ∀ (qs : List Nat), Limbs qs → Ctx.prodL qs ≤ 2^(64 * qs.length)
  | [], _ => by simp [Ctx.prodL]
  | x :: xs, h => by
    have hx : x < 2^64 := (limbs_cons.mp h).1
    have ih := gcx_prodL_le xs (limbs_cons.mp h).2
    rw [Ctx.prodL, List.length_cons, Nat.mul_succ, Nat.pow_add, Nat.mul_comm (2^(64 * xs.length))]
    exact Nat.mul_le_mul (Nat.le_of_lt hx) ih

theorem gcx_prodL_lt {qs : List Nat} (hne : qs ≠ []) (h : Limbs qs) : Ctx.prodL qs < 2^(64 * qs.length) := by
  match qs, hne, h with
  | x :: xs, _, h =>
    have hx : x < 2^64 := (limbs_cons.mp h).1
    have ih := gcx_prodL_le xs (limbs_cons.mp h).2
    rw [Ctx.prodL, List.length_cons, Nat.mul_succ, Nat.pow_add, Nat.mul_comm (2^(64 * xs.length))]
    exact Nat.mul_lt_mul_of_lt_of_le hx ih (Nat.pow_pos (by decide))

/-- the `for each in coeff_modulus` loop that clears `using_fast_plain_lift`: the flag survives iff every remaining modulus exceeds `t` -/
theorem gcx_fast_loop (ms : List Modulus) (t : Nat) (total : List Nat) (k : Nat) :
    ∀ (n i f : Nat), i + n = ms.length →
      GenX.validate_bfv_consts_loop1 ms t total k n i f =
        GenX.validate_bfv_consts_loop1 ms t total k 0 0 (if (ms.drop i).all (fun m => decide (t < m.value)) then f else 0) := by
  intro n
  induction n with
  | zero =>
    intro i f hi
    have hd : ms.drop i = [] := List.drop_eq_nil_of_le (by omega)
    rw [hd]; rfl
  | succ n ih =>
    intro i f hi
    have hlt : i < ms.length := by omega
    rw [List.drop_eq_getElem_cons hlt, List.all_cons]
    conv => lhs; unfold GenX.validate_bfv_consts_loop1
    simp only [gcx_idxT_eq ms i hlt, bind, Except.bind]
    rw [ih (i+1) _ (by omega)]
    by_cases hle : ms[i].value ≤ t
    · have : ¬ t < ms[i].value := by omega
      simp [hle, this]
    · have : t < ms[i].value := by omega
      simp [hle, this]

/-- the fast-lift branch: `plain_upper_half_increment[i] = coeff_modulus[i].value() - plain_modulus.value()` -/
theorem gcx_sub_loop (ms : List Modulus) (t k : Nat) :
    ∀ (n i : Nat) (a : List Nat), i + n = ms.length → a.length = ms.length → (∀ m ∈ ms.drop i, t ≤ m.value) →
      GenX.validate_bfv_consts_loop2 ms t k n i a = .ok (a.take i ++ (ms.drop i).map (fun m => m.value - t)) := by
  intro n
  induction n with
  | zero =>
    intro i a hi ha _
    have hd : ms.drop i = [] := List.drop_eq_nil_of_le (by omega)
    rw [hd, List.map_nil, List.append_nil, List.take_of_length_le (by omega)]; rfl
  | succ n ih =>
    intro i a hi ha hm
    have hlt : i < ms.length := by omega
    have hmem : ms[i] ∈ ms.drop i := by rw [List.drop_eq_getElem_cons hlt]; exact List.mem_cons_self
    have hsub : ∀ m ∈ ms.drop (i+1), m ∈ ms.drop i := by
      intro m h; rw [List.drop_eq_getElem_cons hlt]; exact List.mem_cons_of_mem _ h
    have h0 : t ≤ ms[i].value := hm _ hmem
    unfold GenX.validate_bfv_consts_loop2
    simp only [gcx_idxT_eq ms i hlt, bind, Except.bind, ckSub, if_pos h0, gx_setIdx_ok a i _ (show i < a.length by omega)]
    rw [ih (i+1) (a.set i _) (by omega) (by simp [ha]) (fun m hm' => hm m (hsub m hm')), gcx_take_set_succ a i _ (by omega),
      List.drop_eq_getElem_cons hlt]
    simp only [List.map_cons, List.append_assoc, List.singleton_append]

/-- the zero-extended plain modulus `wide_plain_modulus` -/
theorem gcx_wide (k t : Nat) (hk : 1 ≤ k) (ht : t < 2^64) :
    GenW.setIdx (List.replicate k 0) 0 t = .ok (t :: List.replicate (k-1) 0) ∧
    Limbs (t :: List.replicate (k-1) 0) ∧ (t :: List.replicate (k-1) 0).length = k ∧ toNat (t :: List.replicate (k-1) 0) = t := by
  obtain ⟨j, rfl⟩ : ∃ j, k = j + 1 := ⟨k - 1, by omega⟩
  refine ⟨?_, ?_, by simp, ?_⟩
  · rw [gx_setIdx_ok _ _ _ (by simp)]; simp [List.replicate_succ]
  · exact limbs_cons.mpr ⟨ht, Limbs.replicate_zero _⟩
  · simp [toNat_replicate_zero]

theorem gcx_head_fromNat (k v : Nat) (hk : 1 ≤ k) (hv : v < 2^64) : GenW.idx (fromNat k v) 0 = .ok v ∧ (fromNat k v).headD 0 = v := by
  obtain ⟨j, rfl⟩ : ∃ j, k = j + 1 := ⟨k - 1, by omega⟩
  have : v % B64 = v := Nat.mod_eq_of_lt hv
  constructor
  · show GenW.idx ((v % B64) :: fromNat j (v / B64)) 0 = _
    rw [this]; rfl
  · show ((v % B64) :: fromNat j (v / B64)).headD 0 = v
    rw [this]; rfl

theorem gcx_toNat_fromNat_lt {k v : Nat} (h : v < 2^(64*k)) : toNat (fromNat k v) = v := by
  rw [toNat_fromNat', Nat.mod_eq_of_lt h]

/-- `divide_uint(total, wide_plain_modulus, quotient, remainder)`: limbs of `⌊Q/t⌋` and of `Q mod t` -/
theorem gcx_divide_ok {k Q t : Nat} {wideT : List Nat} (hk : 1 ≤ k) (hQ : Q < 2^(64*k))
    (hw : Limbs wideT) (hwl : wideT.length = k) (hwv : toNat wideT = t) (ht : 1 ≤ t) :
    GenX.divide_uint (fromNat k Q) wideT (List.replicate k 0) (List.replicate k 0) = .ok (fromNat k (Q / t), fromNat k (Q % t)) := by
  obtain ⟨r, q, hd, hrl, hql, hrL, hqL, heq, hlt⟩ :=
    divideUint_spec hk (fromNat_limbs k Q) hw (fromNat_length k Q) hwl (by rw [hwv]; omega)
  rw [gcx_toNat_fromNat_lt hQ, hwv] at heq
  rw [hwv] at hlt
  have hdm : Q / t = toNat q ∧ Q % t = toNat r :=
    (Nat.div_mod_unique (by omega : 0 < t)).mpr ⟨by rw [heq, Nat.mul_comm, Nat.add_comm], hlt⟩
  unfold GenX.divide_uint
  rw [if_pos ⟨by simp [fromNat_length], by simp [hwl], by simp⟩]
  simp only [List.length_replicate, hd, bind, Except.bind, pure, Except.pure]
  rw [gcx_eq_fromNat hqL hql hdm.1.symm, gcx_eq_fromNat hrL hrl hdm.2.symm]

/-- `sub_uint(total, wide_plain_modulus, result)` with `t ≤ Q`: limbs of `Q − t`, no borrow out — whatever the low word of `Q` is -/
theorem gcx_sub_ok {k Q t : Nat} {wideT : List Nat} (hk : 1 ≤ k) (hQ : Q < 2^(64*k))
    (hw : Limbs wideT) (hwl : wideT.length = k) (hwv : toNat wideT = t) (htQ : t ≤ Q) :
    GenW.sub_uint (fromNat k Q) wideT (List.replicate k 0) = .ok (fromNat k (Q - t), 0) := by
  obtain ⟨r, c, hs, hrl, hrL, hc, heq⟩ :=
    subUint_spec hk (fromNat_limbs k Q) hw (by rw [fromNat_length]) (by omega)
  rw [List.take_of_length_le (by omega), List.take_of_length_le (by rw [fromNat_length]), gcx_toNat_fromNat_lt hQ, hwv] at heq
  have hr := toNat_lt hrL
  rw [hrl] at hr
  have hc0 : c = 0 := by
    rcases Nat.lt_or_ge c 1 with h | h
    · omega
    · have : c = 1 := by omega
      subst this
      omega
  subst hc0
  rw [gx_sub_uint_eq, List.length_replicate, hs, gcx_eq_fromNat hrL hrl (show toNat r = Q - t by omega)]

/-- **the constants of the BFV / BGV branch of `HeContext::validate`, as generated from the source**: for EVERY chain of well-formed moduli
    (`2 ≤ q_i < 2^61`), every plain modulus `1 ≤ t ≤ Q`, `t + 1 < 2^64`, with `total` = the limbs of `Q = Π q_i`, the generated statement range
    returns `(⌊Q/t⌋ mod q_i, (Q mod t) mod q_i, [q_i − t] if every q_i > t else the limbs of Q − t, the fast-lift flag, Q mod t, ⌈t/2⌉)`
    (a single modulus: the decomposition is the identity).  The initial contents of the three output vectors are irrelevant. -/
theorem gcx_validate_bfv_consts_ok {ms : List Modulus} {t Q : Nat} {total c0 u0 p0 : List Nat}
    (hw : ∀ m ∈ ms, m.WF) (hk : 1 ≤ ms.length) (ht1 : 1 ≤ t) (ht : t + 1 < 2^64)
    (hQ : Q = Ctx.prodL (ms.map (·.value))) (htot : total = fromNat ms.length Q) (htQ : t ≤ Q) :
    GenX.validate_bfv_consts ms t total c0 u0 p0 =
      .ok ((if 1 < ms.length then ms.map (fun m => Q / t % m.value) else fromNat ms.length (Q / t)),
           (if 1 < ms.length then ms.map (fun m => Q % t % m.value) else fromNat ms.length (Q % t)),
           (if ms.all (fun m => decide (t < m.value)) then ms.map (fun m => m.value - t) else fromNat ms.length (Q - t)),
           (if ms.all (fun m => decide (t < m.value)) then 1 else 0), Q % t, (t + 1) / 2) := by
  have hlimb : Limbs (ms.map (·.value)) := by
    intro x hx
    obtain ⟨m, hm, rfl⟩ := List.mem_map.mp hx
    have := (hw m hm).lt
    omega
  have hne : ms.map (·.value) ≠ [] := by
    intro h; have := congrArg List.length h; rw [List.length_map, List.length_nil] at this; omega
  have hQlt : Q < 2^(64 * ms.length) := by
    have := gcx_prodL_lt hne hlimb
    rw [List.length_map] at this; rw [hQ]; exact this
  obtain ⟨hw1, hw2, hw3, hw4⟩ := gcx_wide ms.length t hk (by omega)
  have hqlt : Q / t < 2^(64 * ms.length) := Nat.lt_of_le_of_lt (Nat.div_le_self _ _) hQlt
  have hrlt : Q % t < 2^(64 * ms.length) := Nat.lt_of_le_of_lt (Nat.mod_le _ _) hQlt
  have hr64 : Q % t < 2^64 := by have := Nat.mod_lt Q (show t > 0 by omega); omega
  have hdq := gcx_decompose_ok hw (fromNat_limbs ms.length (Q / t)) (fromNat_length _ _)
  have hdr := gcx_decompose_ok hw (fromNat_limbs ms.length (Q % t)) (fromNat_length _ _)
  rw [gcx_toNat_fromNat_lt hqlt] at hdq
  rw [gcx_toNat_fromNat_lt hrlt] at hdr
  unfold GenX.validate_bfv_consts
  simp only []
  rw [gcx_fast_loop ms t total ms.length ms.length 0 1 (by omega), List.drop_zero]
  unfold GenX.validate_bfv_consts_loop1
  subst htot
  simp only [hw1, bind, Except.bind, gcx_divide_ok hk hQlt hw2 hw3 hw4 ht1, (gcx_head_fromNat ms.length (Q % t) hk hr64).1, hdq, hdr,
    ckAdd_ok (show t + 1 < B64 by unfold B64; omega), Nat.shiftRight_eq_div_pow, Nat.pow_one]
  by_cases hf : ms.all (fun m => decide (t < m.value)) = true
  · have hall : ∀ m ∈ ms.drop 0, t ≤ m.value := by
      intro m hm
      rw [List.drop_zero] at hm
      have := (List.all_eq_true.mp hf) m hm
      simp at this; omega
    simp only [hf, if_true, gcx_sub_loop ms t ms.length ms.length 0 (List.replicate ms.length 0) (by omega) List.length_replicate hall, pure, Except.pure]
    simp
  · simp only [hf, gcx_sub_ok hk hQlt hw2 hw3 hw4 htQ, pure, Except.pure]
    simp
end HC
