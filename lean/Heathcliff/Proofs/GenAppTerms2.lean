/-
  Translator phase 4h (app mode): `Conv2dHelper::output_terms` (src/app/conv2d.rs, four nested loops pushing `mask_index`)
  regenerated into Gen/AppFns.lean = `cvOutputTerms` of the hand model.  Helper prefix `ga_`.
-/
import Heathcliff.Proofs.GenAppTerms

namespace HC
open HC.MM HC.GenApp

theorem ga_quads_map {β : Type} (A B C D : Nat) (g : Nat → Nat → Nat → Nat → β) :
    (quads A B C D).map (fun q => g q.1 q.2.1 q.2.2.1 q.2.2.2)
      = (List.range A).flatMap fun a => (List.range B).flatMap fun b => (List.range C).flatMap fun c =>
          (List.range D).map fun d => g a b c d := by
  simp [quads, List.map_flatMap, List.map_map, Function.comp_def]

/-- **`Conv2dHelper::output_terms`, generated = model**, for every helper whose blocks contain a non-empty kernel, whose input-channel
    block is non-zero and whose block product fits a word (what `Conv2dHelper::new` returns: `gen_cv_new_sound`) -/
theorem ga_cv_output_terms_eq (H : Conv2dHelper)
    (hkh1 : 1 ≤ H.kernel_height) (hkh2 : H.kernel_height ≤ H.image_height_block)
    (hkw1 : 1 ≤ H.kernel_width) (hkw2 : H.kernel_width ≤ H.image_width_block) (hbb : 1 ≤ H.batch_block)
    (hcib : 1 ≤ H.input_channel_block) (hcob : 1 ≤ H.output_channel_block)
    (hfit : H.batch_block * H.input_channel_block * H.output_channel_block * (H.image_height_block * H.image_width_block) < 2^64) :
    cv_output_terms H = .ok (cvOutputTerms (ga_toCHelper H)) := by
  -- abbreviations are kept as the structure projections; the nonlinear facts are prepared per index tuple
  have inner : ∀ b, b < H.batch_block → ∀ c, c < H.output_channel_block → ∀ i, i < H.image_height_block - H.kernel_height + 1 →
      ∀ j l, j < H.image_width_block - H.kernel_width + 1 →
      cv_output_terms_loop1 H (H.image_height_block * H.image_width_block) (H.image_height_block - H.kernel_height + 1)
        (H.image_width_block - H.kernel_width + 1) b c i j l = .ok (.next (l ++ [cyPos (ga_toCHelper H) b c i j])) := by
    intro b hb c hc i hi j l hj
    have q1 : H.image_height_block - (H.image_height_block - H.kernel_height + 1) + i ≤ H.image_height_block - 1 := by omega
    have q2 : H.image_width_block - (H.image_width_block - H.kernel_width + 1) + j ≤ H.image_width_block - 1 := by omega
    have q3 : H.image_height_block - H.kernel_height + 1 ≤ H.image_height_block := by omega
    have q4 : H.image_width_block - H.kernel_width + 1 ≤ H.image_width_block := by omega
    have hX := ga_block_le (ib := H.input_channel_block) hb hc
    generalize hXd : b * H.input_channel_block * H.output_channel_block + c * H.input_channel_block + H.input_channel_block = X at hX
    have e1 : b * H.input_channel_block ≤ b * H.input_channel_block * H.output_channel_block := Nat.le_mul_of_pos_right _ (by omega)
    have hI : 1 ≤ H.image_height_block * H.image_width_block := Nat.mul_pos (by omega) (by omega)
    have hT : X * (H.image_height_block * H.image_width_block)
        ≤ H.batch_block * H.input_channel_block * H.output_channel_block * (H.image_height_block * H.image_width_block) :=
      Nat.mul_le_mul_right _ hX
    have hXT : X ≤ X * (H.image_height_block * H.image_width_block) := Nat.le_mul_of_pos_right _ hI
    have hIT : H.image_height_block * H.image_width_block ≤ X * (H.image_height_block * H.image_width_block) :=
      Nat.le_mul_of_pos_left _ (by omega)
    have hh' : H.image_height_block ≤ H.image_height_block * H.image_width_block := Nat.le_mul_of_pos_right _ (by omega)
    have hw' : H.image_width_block ≤ H.image_height_block * H.image_width_block := Nat.le_mul_of_pos_left _ (by omega)
    have hA : (X - 1) * (H.image_height_block * H.image_width_block) + H.image_height_block * H.image_width_block
        = X * (H.image_height_block * H.image_width_block) := by
      rw [← Nat.succ_mul, Nat.succ_eq_add_one, Nat.sub_add_cancel (by omega)]
    have hB : (H.image_height_block - (H.image_height_block - H.kernel_height + 1) + i) * H.image_width_block
        ≤ (H.image_height_block - 1) * H.image_width_block := Nat.mul_le_mul_right _ q1
    have hC : (H.image_height_block - 1) * H.image_width_block + H.image_width_block = H.image_height_block * H.image_width_block := by
      rw [← Nat.succ_mul, Nat.succ_eq_add_one, Nat.sub_add_cancel (by omega)]
    simp only [cv_output_terms_loop1, ga_ckMul (show b * H.input_channel_block < 2^64 by omega),
      ga_ckMul (show b * H.input_channel_block * H.output_channel_block < 2^64 by omega),
      ga_ckMul (show c * H.input_channel_block < 2^64 by omega),
      ga_ckAdd (show b * H.input_channel_block * H.output_channel_block + c * H.input_channel_block < 2^64 by omega),
      ga_ckAdd (show b * H.input_channel_block * H.output_channel_block + c * H.input_channel_block + H.input_channel_block < 2^64 by omega),
      hXd, ga_ckSub (show 1 ≤ X by omega), ga_ckMul (show (X - 1) * (H.image_height_block * H.image_width_block) < 2^64 by omega),
      ga_ckSub q3,
      ga_ckAdd (show H.image_height_block - (H.image_height_block - H.kernel_height + 1) + i < 2^64 by omega),
      ga_ckMul (show (H.image_height_block - (H.image_height_block - H.kernel_height + 1) + i) * H.image_width_block < 2^64 by omega),
      ga_ckAdd (show (X - 1) * (H.image_height_block * H.image_width_block)
        + (H.image_height_block - (H.image_height_block - H.kernel_height + 1) + i) * H.image_width_block < 2^64 by omega),
      ga_ckSub q4,
      ga_ckAdd (show H.image_width_block - (H.image_width_block - H.kernel_width + 1) + j < 2^64 by omega),
      ga_ckAdd (show (X - 1) * (H.image_height_block * H.image_width_block)
        + (H.image_height_block - (H.image_height_block - H.kernel_height + 1) + i) * H.image_width_block
        + (H.image_width_block - (H.image_width_block - H.kernel_width + 1) + j) < 2^64 by omega), ga_ok_bind]
    subst hXd
    rfl
  have l2 : ∀ b, b < H.batch_block → ∀ c, c < H.output_channel_block → ∀ i l, i < H.image_height_block - H.kernel_height + 1 →
      cv_output_terms_loop2 H (H.image_height_block * H.image_width_block) (H.image_height_block - H.kernel_height + 1)
        (H.image_width_block - H.kernel_width + 1) b c i l
        = .ok (.next (l ++ (List.range (H.image_width_block - H.kernel_width + 1)).map (fun j => cyPos (ga_toCHelper H) b c i j))) := by
    intro b hb c hc i l hi
    simp only [cv_output_terms_loop2, Nat.sub_zero,
      ga_forUp_push _ (fun j => cyPos (ga_toCHelper H) b c i j) _ l (fun j l hj => inner b hb c hc i hi j l hj), ga_ok_bind]
    rfl
  have l3 : ∀ b, b < H.batch_block → ∀ c l, c < H.output_channel_block →
      cv_output_terms_loop3 H (H.image_height_block * H.image_width_block) (H.image_height_block - H.kernel_height + 1)
        (H.image_width_block - H.kernel_width + 1) b c l
        = .ok (.next (l ++ (List.range (H.image_height_block - H.kernel_height + 1)).flatMap fun i =>
            (List.range (H.image_width_block - H.kernel_width + 1)).map (fun j => cyPos (ga_toCHelper H) b c i j))) := by
    intro b hb c l hc
    simp only [cv_output_terms_loop3, Nat.sub_zero,
      ga_forUp_push_list _ (fun i => (List.range (H.image_width_block - H.kernel_width + 1)).map (fun j => cyPos (ga_toCHelper H) b c i j))
        _ l (fun i l hi => l2 b hb c hc i l hi), ga_ok_bind]
    rfl
  have l4 : ∀ b l, b < H.batch_block →
      cv_output_terms_loop4 H (H.image_height_block * H.image_width_block) (H.image_height_block - H.kernel_height + 1)
        (H.image_width_block - H.kernel_width + 1) b l
        = .ok (.next (l ++ (List.range H.output_channel_block).flatMap fun c =>
            (List.range (H.image_height_block - H.kernel_height + 1)).flatMap fun i =>
              (List.range (H.image_width_block - H.kernel_width + 1)).map (fun j => cyPos (ga_toCHelper H) b c i j))) := by
    intro b l hb
    simp only [cv_output_terms_loop4, Nat.sub_zero,
      ga_forUp_push_list _ (fun c => (List.range (H.image_height_block - H.kernel_height + 1)).flatMap fun i =>
          (List.range (H.image_width_block - H.kernel_width + 1)).map (fun j => cyPos (ga_toCHelper H) b c i j))
        _ l (fun c l hc => l3 b hb c l hc), ga_ok_bind]
    rfl
  have hP : 1 ≤ H.batch_block * H.input_channel_block * H.output_channel_block :=
    Nat.mul_pos (Nat.mul_pos (by omega) (by omega)) (by omega)
  have hprod : H.image_height_block * H.image_width_block
      ≤ H.batch_block * H.input_channel_block * H.output_channel_block * (H.image_height_block * H.image_width_block) :=
    Nat.le_mul_of_pos_left _ hP
  have hh : H.image_height_block ≤ H.image_height_block * H.image_width_block := Nat.le_mul_of_pos_right _ (by omega)
  have hw : H.image_width_block ≤ H.image_height_block * H.image_width_block := Nat.le_mul_of_pos_left _ (by omega)
  simp only [cv_output_terms, ga_ckMul (show H.image_height_block * H.image_width_block < 2^64 by omega), ga_ckSub hkh2,
    ga_ckAdd (show H.image_height_block - H.kernel_height + 1 < 2^64 by omega), ga_ckSub hkw2,
    ga_ckAdd (show H.image_width_block - H.kernel_width + 1 < 2^64 by omega), ga_ok_bind, Nat.sub_zero,
    ga_forUp_push_list _ (fun b => (List.range H.output_channel_block).flatMap fun c =>
        (List.range (H.image_height_block - H.kernel_height + 1)).flatMap fun i =>
          (List.range (H.image_width_block - H.kernel_width + 1)).map (fun j => cyPos (ga_toCHelper H) b c i j))
      _ [] (fun b l hb => l4 b l hb), cvOutputTerms]
  rw [ga_quads_map (ga_toCHelper H).bb (ga_toCHelper H).cob ((ga_toCHelper H).hb - (ga_toCHelper H).S.kh + 1)
    ((ga_toCHelper H).wb - (ga_toCHelper H).S.kw + 1) (cyPos (ga_toCHelper H))]
  rfl

/-- **`Conv2dHelper::get_total_batch_size`, generated = `CHelper.totalBatch`** (number of input groups: batch blocks × tile rows × tile columns)
    for a helper whose blocks contain a non-empty kernel that fits the image, non-zero batch block, dimensions ≤ 2^15 -/
theorem ga_cv_total_batch_eq (H : Conv2dHelper)
    (hkh1 : 1 ≤ H.kernel_height) (hkh2 : H.kernel_height ≤ H.image_height_block) (hkh3 : H.kernel_height ≤ H.image_height)
    (hkw1 : 1 ≤ H.kernel_width) (hkw2 : H.kernel_width ≤ H.image_width_block) (hkw3 : H.kernel_width ≤ H.image_width)
    (hbb : 1 ≤ H.batch_block) (hsz : H.batch_size ≤ 2^15 ∧ H.image_height ≤ 2^15 ∧ H.image_width ≤ 2^15)
    (hblk : H.batch_block ≤ 2^15 ∧ H.image_height_block ≤ 2^15 ∧ H.image_width_block ≤ 2^15) :
    cv_total_batch H = .ok (ga_toCHelper H).totalBatch := by
  obtain ⟨s1, s2, s3⟩ := hsz
  obtain ⟨k1, k2, k3⟩ := hblk
  have d1 : 1 ≤ H.image_height_block - (H.kernel_height - 1) := by omega
  have d2 : 1 ≤ H.image_width_block - (H.kernel_width - 1) := by omega
  have b1 : ceilDiv H.batch_size H.batch_block ≤ 2^15 := Nat.le_trans (c20_ceilDiv_le hbb) s1
  have b2 : ceilDiv (H.image_height - (H.kernel_height - 1)) (H.image_height_block - (H.kernel_height - 1)) ≤ 2^15 :=
    Nat.le_trans (c20_ceilDiv_le d1) (by omega)
  have b3 : ceilDiv (H.image_width - (H.kernel_width - 1)) (H.image_width_block - (H.kernel_width - 1)) ≤ 2^15 :=
    Nat.le_trans (c20_ceilDiv_le d2) (by omega)
  have p1 := Nat.mul_le_mul b1 b2
  have p2 := Nat.mul_le_mul p1 b3
  simp only [cv_total_batch, ga_ckSub hkh1, ga_ckSub hkw1, ga_ckSub (show H.kernel_height - 1 ≤ H.image_height by omega),
    ga_ckSub (show H.kernel_height - 1 ≤ H.image_height_block by omega),
    ga_cv_ceil_div d1 (show H.image_height - (H.kernel_height - 1) + (H.image_height_block - (H.kernel_height - 1)) < 2^64 by omega),
    ga_ckSub (show H.kernel_width - 1 ≤ H.image_width by omega), ga_ckSub (show H.kernel_width - 1 ≤ H.image_width_block by omega),
    ga_cv_ceil_div d2 (show H.image_width - (H.kernel_width - 1) + (H.image_width_block - (H.kernel_width - 1)) < 2^64 by omega),
    ga_cv_ceil_div hbb (show H.batch_size + H.batch_block < 2^64 by omega), ga_ok_bind,
    ga_ckMul (show ceilDiv H.batch_size H.batch_block
      * ceilDiv (H.image_height - (H.kernel_height - 1)) (H.image_height_block - (H.kernel_height - 1)) < 2^64 by omega),
    ga_ckMul (show ceilDiv H.batch_size H.batch_block
      * ceilDiv (H.image_height - (H.kernel_height - 1)) (H.image_height_block - (H.kernel_height - 1))
      * ceilDiv (H.image_width - (H.kernel_width - 1)) (H.image_width_block - (H.kernel_width - 1)) < 2^64 by omega)]
  rfl

end HC
