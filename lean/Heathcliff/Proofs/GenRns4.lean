import Heathcliff.Proofs.GenRns

/-!
  Phase 4f of the translator tie, list level: `BaseConverter::fast_convert_array` (src/util/rns.rs) as generated into
  `Heathcliff/Gen/RnsFns.lean`.  The scratch buffer `temp` is written with stride `ibase_size` (`temp[j * ibase_size + i]`): the strided
  loop is characterised pointwise (`gr_strideloop`), the buffer after the first phase by extensionality; the second phase reads the
  rows `temp[j*k .. (j+1)*k]` and writes `output[i * count + j]` (component-wise, as the other routines).  Helper names start with `gr_`.
-/
namespace HC
open HC.GenW HC.GenR

theorem gr_idx_lt {a A b B : Nat} (ha : a < A) (hb : b < B) : a * B + b < A * B := by
  have h1 : (a + 1) * B ≤ A * B := Nat.mul_le_mul_right B ha
  rw [Nat.succ_mul] at h1
  omega

theorem gr_mul_add_mod (j k i : Nat) (hi : i < k) : (j * k + i) % k = i := by
  rw [Nat.mul_comm, Nat.mul_add_mod, Nat.mod_eq_of_lt hi]

theorem gr_mul_add_div (j k i : Nat) (hi : i < k) : (j * k + i) / k = j := by
  rw [Nat.mul_comm, Nat.mul_add_div (by omega), Nat.div_eq_of_lt hi, Nat.add_zero]

/-- strided write loop: position `j * k + i` receives `G j` for `j = j0, j0+1, …` (nothing else changes) -/
theorem gr_strideloop (loop : Nat → Nat → List Nat → R (List Nat)) (G : Nat → Nat) (k i N : Nat) (hi : i < k)
    (h0 : ∀ j l, loop 0 j l = .ok l)
    (hs : ∀ f j (l : List Nat), j * k + i < l.length → j < N → loop (f+1) j l = loop f (j+1) (l.set (j * k + i) (G j))) :
    ∀ f j (l : List Nat), (j + f) * k ≤ l.length → j + f ≤ N →
      ∃ l', loop f j l = .ok l' ∧ l'.length = l.length ∧
        ∀ pos, l'.getD pos 0 = if pos % k = i ∧ j ≤ pos / k ∧ pos / k < j + f then G (pos / k) else l.getD pos 0 := by
  intro f
  induction f with
  | zero =>
    intro j l _ _
    refine ⟨l, h0 j l, rfl, fun pos => ?_⟩
    rw [if_neg (by omega)]
  | succ f ih =>
    intro j l hl hN
    have hlt : j * k + i < l.length := by
      have := gr_idx_lt (a := j) (A := j + (f + 1)) (b := i) (B := k) (by omega) hi
      omega
    rw [hs f j l hlt (by omega)]
    obtain ⟨l', e, hlen, hp⟩ := ih (j + 1) (l.set (j * k + i) (G j)) (by rw [List.length_set]; rw [show j + 1 + f = j + (f + 1) by omega]; exact hl) (by omega)
    refine ⟨l', e, by rw [hlen, List.length_set], fun pos => ?_⟩
    rw [hp pos]
    by_cases hpos : pos = j * k + i
    · subst hpos
      rw [gr_mul_add_mod j k i hi, gr_mul_add_div j k i hi, if_neg (by omega), if_pos ⟨rfl, Nat.le_refl _, by omega⟩,
        gr_getD_set_self _ _ _ _ hlt]
    · rw [gr_getD_set_ne _ _ _ _ _ (Ne.symm hpos)]
      by_cases c1 : pos % k = i ∧ j + 1 ≤ pos / k ∧ pos / k < j + 1 + f
      · rw [if_pos c1, if_pos ⟨c1.1, by omega, by omega⟩]
      · rw [if_neg c1, if_neg]
        intro c2
        have hj : pos / k = j := by
          rcases c2 with ⟨c21, c22, c23⟩
          by_contra hne
          exact c1 ⟨c21, by omega, by omega⟩
        apply hpos
        have := Nat.div_add_mod pos k
        rw [hj, c2.1, Nat.mul_comm] at this
        exact this.symm

/-! ### first phase: `temp[j * k + i] = scaled residue of input[i * n + j]` -/

theorem gr_fca_loop2 (inp : List (List Nat)) (k n i : Nat) (q : Modulus) (T : Nat → Nat)
    (hi : i < k) (hkn : k * n < 2^64) (hnk : n * k < 2^64) (hinp : inp.length = k) (hin : ∀ c ∈ inp, c.length = n)
    (hT : ∀ j, j < n → barrett64 ((inp.getD i []).getD j 0) q = .ok (T j)) :
    ∀ (temp : List Nat), temp.length = n * k →
      ∃ t', GenR.fast_convert_array_loop2 inp.flatten k n i q n 0 temp = .ok t' ∧ t'.length = n * k ∧
        ∀ pos, t'.getD pos 0 = if pos % k = i ∧ pos / k < n then T (pos / k) else temp.getD pos 0 := by
  intro temp htl
  have hfl := gr_flat_length n inp hin
  rw [hinp] at hfl
  obtain ⟨t', e, hlen, hp⟩ := gr_strideloop (GenR.fast_convert_array_loop2 inp.flatten k n i q) T k i n hi (fun _ _ => rfl) (by
    intro f j l hl hj
    have h1 : i * n + j < k * n := gr_idx_lt hi hj
    have h2 : j * k + i < n * k := gr_idx_lt hj hi
    have e1 : ckMul i n = .ok (i * n) := gr_ckMul_ok (by omega)
    have e2 : ckAdd (i * n) j = .ok (i * n + j) := gr_ckAdd_ok (by omega)
    have hlt : i * n + j < inp.flatten.length := by omega
    have e3 : GenW.idx inp.flatten (i * n + j) = .ok ((inp.getD i []).getD j 0) := by
      rw [gw_idx_eq _ _ hlt, ← gr_getD_of_lt _ _ hlt, gr_flat_getD n inp i j hin (by omega) hj]
    have e4 : ckMul j k = .ok (j * k) := gr_ckMul_ok (by omega)
    have e5 : ckAdd (j * k) i = .ok (j * k + i) := gr_ckAdd_ok (by omega)
    rw [GenR.fast_convert_array_loop2]
    simp only [e1, e2, e3, e4, e5, gw_barrett_reduce_u64_eq, hT j hj, gx_setIdx_ok _ _ _ hl, gr_ok_bind]) n 0 temp (by rw [htl, Nat.zero_add]) (by omega)
  refine ⟨t', e, by rw [hlen, htl], fun pos => ?_⟩
  rw [hp pos]
  by_cases c : pos % k = i ∧ pos / k < n
  · rw [if_pos c, if_pos ⟨c.1, Nat.zero_le _, by rw [Nat.zero_add]; exact c.2⟩]
  · rw [if_neg c, if_neg]
    intro c2
    exact c ⟨c2.1, by have := c2.2.2; omega⟩

theorem gr_fca_loop3 (inp : List (List Nat)) (k n i : Nat) (op : MulOperand) (q : Modulus) (T : Nat → Nat)
    (hi : i < k) (hkn : k * n < 2^64) (hnk : n * k < 2^64) (hinp : inp.length = k) (hin : ∀ c ∈ inp, c.length = n)
    (hT : ∀ j, j < n → mulOperandMod ((inp.getD i []).getD j 0) op q = .ok (T j)) :
    ∀ (temp : List Nat), temp.length = n * k →
      ∃ t', GenR.fast_convert_array_loop3 inp.flatten k n i op q n 0 temp = .ok t' ∧ t'.length = n * k ∧
        ∀ pos, t'.getD pos 0 = if pos % k = i ∧ pos / k < n then T (pos / k) else temp.getD pos 0 := by
  intro temp htl
  have hfl := gr_flat_length n inp hin
  rw [hinp] at hfl
  obtain ⟨t', e, hlen, hp⟩ := gr_strideloop (GenR.fast_convert_array_loop3 inp.flatten k n i op q) T k i n hi (fun _ _ => rfl) (by
    intro f j l hl hj
    have h1 : i * n + j < k * n := gr_idx_lt hi hj
    have h2 : j * k + i < n * k := gr_idx_lt hj hi
    have e1 : ckMul i n = .ok (i * n) := gr_ckMul_ok (by omega)
    have e2 : ckAdd (i * n) j = .ok (i * n + j) := gr_ckAdd_ok (by omega)
    have hlt : i * n + j < inp.flatten.length := by omega
    have e3 : GenW.idx inp.flatten (i * n + j) = .ok ((inp.getD i []).getD j 0) := by
      rw [gw_idx_eq _ _ hlt, ← gr_getD_of_lt _ _ hlt, gr_flat_getD n inp i j hin (by omega) hj]
    have e4 : ckMul j k = .ok (j * k) := gr_ckMul_ok (by omega)
    have e5 : ckAdd (j * k) i = .ok (j * k + i) := gr_ckAdd_ok (by omega)
    rw [GenR.fast_convert_array_loop3]
    simp only [e1, e2, e3, e4, e5, gw_multiply_u64operand_mod_eq, hT j hj, gx_setIdx_ok _ _ _ hl, gr_ok_bind]) n 0 temp (by rw [htl, Nat.zero_add]) (by omega)
  refine ⟨t', e, by rw [hlen, htl], fun pos => ?_⟩
  rw [hp pos]
  by_cases c : pos % k = i ∧ pos / k < n
  · rw [if_pos c, if_pos ⟨c.1, Nat.zero_le _, by rw [Nat.zero_add]; exact c.2⟩]
  · rw [if_neg c, if_neg]
    intro c2
    exact c ⟨c2.1, by have := c2.2.2; omega⟩

/-- the scratch buffer after the first phase: position `pos` holds `T (pos % k) (pos / k)` -/
def gr_fcaTemp (T : Nat → Nat → Nat) (k n : Nat) : List Nat := (List.range' 0 (n * k)).map (fun pos => T (pos % k) (pos / k))

/-- the outer loop of the first phase ends in the second phase (`loop4`) run on the completed scratch buffer -/
theorem gr_fca_loop1 (inp : List (List Nat)) (out : List Nat) (k m n : Nat) (qs : List Modulus) (ops : List MulOperand)
    (rows : List (List Nat)) (ps : List Modulus) (T : Nat → Nat → Nat)
    (hkn : k * n < 2^64) (hnk : n * k < 2^64) (hinp : inp.length = k) (hin : ∀ c ∈ inp, c.length = n)
    (hqs : qs.length = k) (hops : ops.length = k)
    (hT1 : ∀ i j, i < k → j < n → (ops.getD i default).operand = 1 → barrett64 ((inp.getD i []).getD j 0) (qs.getD i gr_dflt) = .ok (T i j))
    (hT2 : ∀ i j, i < k → j < n → (ops.getD i default).operand ≠ 1 →
      mulOperandMod ((inp.getD i []).getD j 0) (ops.getD i default) (qs.getD i gr_dflt) = .ok (T i j)) :
    ∀ f i (temp : List Nat), i + f = k → temp.length = n * k →
      (∀ pos, pos < n * k → pos % k < i → temp.getD pos 0 = T (pos % k) (pos / k)) →
      GenR.fast_convert_array_loop1 inp.flatten out k m n ops qs rows ps f i temp
        = GenR.fast_convert_array_loop4 k m n (gr_fcaTemp T k n) rows ps m 0 out := by
  intro f
  induction f with
  | zero =>
    intro i temp hif htl hinv
    have : temp = gr_fcaTemp T k n := by
      apply gr_ext_getD 0
      · rw [htl]; unfold gr_fcaTemp; rw [List.length_map, List.length_range']
      · intro pos hpos
        rw [htl] at hpos
        have hk : 0 < k := by
          rcases Nat.eq_zero_or_pos k with h | h
          · rw [h, Nat.mul_zero] at hpos; omega
          · exact h
        unfold gr_fcaTemp
        rw [gr_getD_map_range' _ _ _ _ hpos]
        exact hinv pos hpos (by have := Nat.mod_lt pos hk; omega)
    rw [GenR.fast_convert_array_loop1, this]
  | succ f ih =>
    intro i temp hif htl hinv
    have hi : i < k := by omega
    have e1 : GenR.idxOp ops i = .ok (ops.getD i default) := gr_idxOp_ok ops i _ (by omega)
    have e2 : GenR.idxMod qs i = .ok (qs.getD i gr_dflt) := gr_idxMod_ok qs i _ (by omega)
    rw [GenR.fast_convert_array_loop1]
    simp only [e1, e2, gr_ok_bind]
    have step : ∀ t' : List Nat, t'.length = n * k →
        (∀ pos, t'.getD pos 0 = if pos % k = i ∧ pos / k < n then T i (pos / k) else temp.getD pos 0) →
        ∀ pos, pos < n * k → pos % k < i + 1 → t'.getD pos 0 = T (pos % k) (pos / k) := by
      intro t' _ hp pos hpos hlt
      rw [hp pos]
      have hdiv : pos / k < n := by
        apply Nat.div_lt_of_lt_mul; rw [Nat.mul_comm]; exact hpos
      by_cases c : pos % k = i
      · rw [if_pos ⟨c, hdiv⟩, c]
      · rw [if_neg (fun h => c h.1)]
        exact hinv pos hpos (by omega)
    by_cases hop : (ops.getD i default).operand = 1
    · rw [if_pos hop]
      obtain ⟨t', e, hlen, hp⟩ := gr_fca_loop2 inp k n i (qs.getD i gr_dflt) (T i) hi hkn hnk hinp hin (fun j hj => hT1 i j hi hj hop) temp htl
      rw [e]
      simp only [gr_ok_bind]
      exact ih (i + 1) t' (by omega) hlen (step t' hlen hp)
    · rw [if_neg hop]
      obtain ⟨t', e, hlen, hp⟩ := gr_fca_loop3 inp k n i (ops.getD i default) (qs.getD i gr_dflt) (T i) hi hkn hnk hinp hin (fun j hj => hT2 i j hi hj hop) temp htl
      rw [e]
      simp only [gr_ok_bind]
      exact ih (i + 1) t' (by omega) hlen (step t' hlen hp)

/-! ### second phase: `output[i * n + j] = dot_product_mod(temp[j*k .. (j+1)*k], matrix[i], obase[i])` -/

theorem gr_idxRow_ok (l : List (List Nat)) (i : Nat) (h : i < l.length) : GenR.idxRow l i = .ok (l.getD i []) := by
  unfold GenR.idxRow; rw [List.getD_eq_getElem?_getD, List.getElem?_eq_getElem h]; rfl

/-- row `j` of the completed scratch buffer -/
theorem gr_fcaTemp_slice (T : Nat → Nat → Nat) (k n j : Nat) (hj : j < n) :
    GenR.slice (gr_fcaTemp T k n) (j * k) (j * k + k) = .ok ((List.range' 0 k).map (fun i => T i j)) := by
  have hlen : (gr_fcaTemp T k n).length = n * k := by unfold gr_fcaTemp; rw [List.length_map, List.length_range']
  have hle : j * k + k ≤ n * k := by
    have := Nat.mul_le_mul_right k (Nat.succ_le_of_lt hj); rw [Nat.succ_mul] at this; exact this
  unfold GenR.slice
  rw [if_pos ⟨by omega, by omega⟩, Nat.add_sub_cancel_left]
  congr 1
  apply gr_ext_getD 0
  · rw [List.length_take, List.length_drop, List.length_map, List.length_range', hlen]; omega
  · intro i hi
    rw [List.length_take, List.length_drop, hlen] at hi
    have hik : i < k := by omega
    rw [gr_getD_map_range' _ _ _ _ hik, List.getD_eq_getElem?_getD, List.getElem?_take_of_lt hik, List.getElem?_drop, ← List.getD_eq_getElem?_getD]
    unfold gr_fcaTemp
    rw [gr_getD_map_range' _ _ _ _ (by omega), gr_mul_add_mod j k i hik, gr_mul_add_div j k i hik]

theorem gr_fca_loop5 (ds : List (List Nat)) (k m n i : Nat) (rows : List (List Nat)) (ps : List Modulus) (T : Nat → Nat → Nat) (D : Nat → Nat)
    (hi : i < m) (hnk : n * k < 2^64) (hmn : m * n < 2^64) (hn64 : n < 2^64)
    (hrows : rows.length = m) (hps : ps.length = m) (hds : ds.length = m) (hdn : ∀ c ∈ ds, c.length = n)
    (hD : ∀ j, j < n → dotProductMod ((List.range' 0 k).map (fun i' => T i' j)) (rows.getD i []) (ps.getD i gr_dflt) = .ok (D j)) :
    GenR.fast_convert_array_loop5 k n (gr_fcaTemp T k n) i rows ps n 0 ds.flatten
      = .ok (ds.set i ((List.range' 0 n).map D)).flatten := by
  have hfd := gr_flat_length n ds hdn
  rw [hds] at hfd
  have hin1 : i * n + n ≤ m * n := by
    have := Nat.mul_le_mul_right n (Nat.succ_le_of_lt hi); rw [Nat.succ_mul] at this; exact this
  rw [gr_offloop (GenR.fast_convert_array_loop5 k n (gr_fcaTemp T k n) i rows ps) (fun j _ => .ok (D j)) (i * n) n (fun _ _ => rfl) (by
      intro f j l hl hj
      have h2 : j * k + k ≤ n * k := by
        have := Nat.mul_le_mul_right k (Nat.succ_le_of_lt hj); rw [Nat.succ_mul] at this; exact this
      have e1 : ckMul j k = .ok (j * k) := gr_ckMul_ok (by omega)
      have e2 : ckAdd j 1 = .ok (j + 1) := gr_ckAdd_ok (by omega)
      have e3 : ckMul (j + 1) k = .ok (j * k + k) := by rw [gr_ckMul_ok (by rw [Nat.succ_mul]; omega), Nat.succ_mul]
      have e4 := gr_fcaTemp_slice T k n j hj
      have e5 : GenR.idxRow rows i = .ok (rows.getD i []) := gr_idxRow_ok rows i (by omega)
      have e6 : GenR.idxMod ps i = .ok (ps.getD i gr_dflt) := gr_idxMod_ok ps i _ (by omega)
      have e7 : ckMul i n = .ok (i * n) := gr_ckMul_ok (by omega)
      have e8 : ckAdd (i * n) j = .ok (i * n + j) := gr_ckAdd_ok (by omega)
      rw [GenR.fast_convert_array_loop5]
      simp only [e1, e2, e3, e4, e5, e6, e7, e8, gw_dot_product_mod_eq, hD j hj, gx_setIdx_ok _ _ _ hl, gr_ok_bind])
    n 0 ds.flatten (by omega) (by omega)]
  rw [gr_mapM_ok _ D _ (fun j _ => rfl)]
  have hdl : ((List.range' 0 n).map D).length = n := by rw [List.length_map, List.length_range']
  rw [gr_ok_bind, Nat.add_zero, ← gr_splice_flat n ds i _ hdn (by omega) hdl]
  unfold GenR.splice
  rw [hdl]

theorem gr_fca_loop4 (k m n : Nat) (rows : List (List Nat)) (ps : List Modulus) (T : Nat → Nat → Nat) (D : Nat → Nat → Nat)
    (hnk : n * k < 2^64) (hmn : m * n < 2^64) (hn64 : n < 2^64) (hrows : rows.length = m) (hps : ps.length = m)
    (hD : ∀ i j, i < m → j < n → dotProductMod ((List.range' 0 k).map (fun i' => T i' j)) (rows.getD i []) (ps.getD i gr_dflt) = .ok (D i j)) :
    ∀ f i (ds : List (List Nat)), i + f = m → ds.length = m → (∀ c ∈ ds, c.length = n) →
      GenR.fast_convert_array_loop4 k m n (gr_fcaTemp T k n) rows ps f i ds.flatten
        = (gr_foldM (fun i _ => .ok ((List.range' 0 n).map (D i))) f i ds >>= fun ds' => .ok ds'.flatten) := by
  intro f
  induction f with
  | zero => intro i ds _ _ _; rfl
  | succ f ih =>
    intro i ds hif hds hdn
    rw [GenR.fast_convert_array_loop4, gr_foldM,
      gr_fca_loop5 ds k m n i rows ps T (D i) (by omega) hnk hmn hn64 hrows hps hds hdn (fun j hj => hD i j (by omega) hj)]
    simp only [gr_ok_bind]
    exact ih (i + 1) _ (by omega) (by rw [List.length_set]; exact hds)
      (gr_set_length_mem n ds i _ hdn (by rw [List.length_map, List.length_range']))

/-- the generated `fast_convert_array` on flat buffers: `k` input components of `n` words, ANY destination buffer of `m` components of `n` words
    (old contents irrelevant); `T i j` = scaled residue of coefficient `j` of component `i`, `D i j` = the dot product for output modulus `i` -/
theorem gr_fca_list (inp ds : List (List Nat)) (k m n : Nat) (qs : List Modulus) (ops : List MulOperand) (rows : List (List Nat)) (ps : List Modulus)
    (T D : Nat → Nat → Nat)
    (hk : 1 ≤ k) (hkn : k * n < 2^64) (hmn : m * n < 2^64)
    (hinp : inp.length = k) (hin : ∀ c ∈ inp, c.length = n) (hds : ds.length = m) (hdn : ∀ c ∈ ds, c.length = n)
    (hqs : qs.length = k) (hops : ops.length = k) (hrows : rows.length = m) (hps : ps.length = m)
    (hT1 : ∀ i j, i < k → j < n → (ops.getD i default).operand = 1 → barrett64 ((inp.getD i []).getD j 0) (qs.getD i gr_dflt) = .ok (T i j))
    (hT2 : ∀ i j, i < k → j < n → (ops.getD i default).operand ≠ 1 →
      mulOperandMod ((inp.getD i []).getD j 0) (ops.getD i default) (qs.getD i gr_dflt) = .ok (T i j))
    (hD : ∀ i j, i < m → j < n → dotProductMod ((List.range' 0 k).map (fun i' => T i' j)) (rows.getD i []) (ps.getD i gr_dflt) = .ok (D i j)) :
    GenR.fast_convert_array inp.flatten ds.flatten k m ops qs ps rows
      = .ok ((List.range' 0 m).map (fun i => (List.range' 0 n).map (D i))).flatten := by
  have hfi := gr_flat_length n inp hin
  rw [hinp] at hfi
  have hfd := gr_flat_length n ds hdn
  rw [hds] at hfd
  have hnk : n * k < 2^64 := by rw [Nat.mul_comm]; exact hkn
  have hn64 : n < 2^64 := Nat.lt_of_le_of_lt (Nat.le_mul_of_pos_left n hk) hkn
  have e1 : GenW.ckDiv inp.flatten.length k = .ok n := by
    unfold GenW.ckDiv; rw [if_neg (by omega), hfi, Nat.mul_div_cancel_left n hk]
  have e2 : ckMul n k = .ok (n * k) := gr_ckMul_ok hnk
  have e3 : ckMul n m = .ok (n * m) := gr_ckMul_ok (by rw [Nat.mul_comm]; exact hmn)
  unfold GenR.fast_convert_array
  simp only [e1, e2, e3, gr_ok_bind]
  rw [if_pos (by rw [hfi, Nat.mul_comm]), if_pos (by rw [hfd, Nat.mul_comm])]
  rw [gr_fca_loop1 inp ds.flatten k m n qs ops rows ps T hkn hnk hinp hin hqs hops hT1 hT2 k 0 (List.replicate (n * k) 0) (by omega)
      (List.length_replicate) (fun pos _ h => by omega),
    gr_fca_loop4 k m n rows ps T D hnk hmn hn64 hrows hps hD m 0 ds (by omega) hds hdn,
    gr_foldM_const _ m 0 ds (by omega)]
  rw [gr_mapM_ok _ (fun i => (List.range' 0 n).map (D i)) _ (fun i _ => rfl)]
  simp only [gr_ok_bind]
  rw [List.take_zero, List.nil_append, Nat.zero_add, List.drop_eq_nil_of_le (by omega), List.append_nil]

/-! ### `RNSTool::fast_floor` (the conversion q → Bsk is an abstract function input `F`; the correction loop rewrites the destination in place) -/

theorem gr_slice_take (n : Nat) (cs : List (List Nat)) (s : Nat) (h : ∀ c ∈ cs, c.length = n) (hs : s ≤ cs.length) :
    GenR.slice cs.flatten 0 (s * n) = .ok (cs.take s).flatten := by
  have hl := gr_flat_length n cs h
  have hlt := gr_flat_length n (cs.take s) (fun c hc => h c (List.mem_of_mem_take hc))
  rw [List.length_take, Nat.min_eq_left hs] at hlt
  unfold GenR.slice
  rw [if_pos ⟨by omega, by rw [hl]; exact Nat.mul_le_mul_right n hs⟩, List.drop_zero, Nat.sub_zero]
  congr 1
  conv => lhs; rw [← List.take_append_drop s cs, List.flatten_append]
  rw [List.take_left' hlt]

theorem gr_slice_drop (n : Nat) (cs : List (List Nat)) (s : Nat) (h : ∀ c ∈ cs, c.length = n) (hs : s ≤ cs.length) :
    GenR.slice cs.flatten (s * n) cs.flatten.length = .ok (cs.drop s).flatten := by
  have hl := gr_flat_length n cs h
  have hlt := gr_flat_length n (cs.take s) (fun c hc => h c (List.mem_of_mem_take hc))
  rw [List.length_take, Nat.min_eq_left hs] at hlt
  have hle : s * n ≤ cs.length * n := Nat.mul_le_mul_right n hs
  unfold GenR.slice
  rw [if_pos ⟨by omega, Nat.le_refl _⟩]
  congr 1
  rw [List.take_of_length_le (by rw [List.length_drop])]
  conv => lhs; rw [← List.take_append_drop s cs, List.flatten_append]
  rw [List.drop_left' hlt]

/-- the fold when step `i` reads only component `i` of the current list -/
theorem gr_foldM_self (comp : Nat → List Nat → R (List Nat)) :
    ∀ k i (cs : List (List Nat)), i + k ≤ cs.length →
      gr_foldM (fun i cs => comp i (cs.getD i [])) k i cs
        = ((List.range' i k).mapM (fun i' => comp i' (cs.getD i' [])) >>= fun outs => .ok (cs.take i ++ outs ++ cs.drop (i + k))) := by
  intro k
  induction k with
  | zero => intro i cs _; rw [gr_foldM, List.range'_zero, gr_mapM_nil, gr_ok_bind, List.append_nil, Nat.add_zero, List.take_append_drop]
  | succ k ih =>
    intro i cs hik
    rw [gr_foldM, List.range'_succ, gr_mapM_cons]
    cases hci : comp i (cs.getD i []) with
    | error e => rfl
    | ok c =>
      rw [gr_ok_bind, gr_ok_bind, ih (i+1) (cs.set i c) (by rw [List.length_set]; omega)]
      have hcg : (List.range' (i+1) k).mapM (fun i' => comp i' ((cs.set i c).getD i' [])) = (List.range' (i+1) k).mapM (fun i' => comp i' (cs.getD i' [])) := by
        apply gr_mapM_congr
        intro i' hi'
        rw [List.mem_range'_1] at hi'
        rw [gr_getD_set_ne _ _ _ _ _ (by omega)]
      rw [hcg]
      cases (List.range' (i+1) k).mapM (fun i' => comp i' (cs.getD i' [])) with
      | error e => rfl
      | ok outs =>
        rw [gr_ok_bind, gr_ok_bind, gr_ok_bind]
        have e2 : i + (k + 1) = i + 1 + k := by omega
        have hi : i < cs.length := by omega
        have ht : (cs.set i c).take (i + 1) = cs.take i ++ [c] := by
          rw [List.take_succ_eq_append_getElem (by rw [List.length_set]; exact hi), List.getElem_set_self, List.take_set_of_le (Nat.le_refl i)]
        rw [e2, ht, List.drop_set_of_lt (by omega)]
        simp

/-- one coefficient of `fast_floor`: `(x + (b − d)) · q⁻¹ mod b` with the checked `b − d`, `x + …` -/
def gr_ffElt (b : Modulus) (inv : MulOperand) (x d : Nat) : R Nat :=
  ckSub b.value d >>= fun nd => ckAdd x nd >>= fun s => mulOperandMod s inv b

theorem gr_ff_loop2 (in2 cs : List (List Nat)) (sB n i : Nat) (bs : List Modulus) (invs : List MulOperand)
    (hi : i < sB) (hsn : sB * n < 2^64) (hin2 : in2.length = sB) (hin : ∀ c ∈ in2, c.length = n)
    (hcs : cs.length = sB) (hcn : ∀ c ∈ cs, c.length = n) (hbs : bs.length = sB) (hinv : sB ≤ invs.length) :
    GenR.fast_floor_loop2 in2.flatten n i bs invs n 0 cs.flatten
      = ((List.range' 0 n).mapM (fun j => gr_ffElt (bs.getD i gr_dflt) (invs.getD i default) ((in2.getD i []).getD j 0) ((cs.getD i []).getD j 0))
          >>= fun d => .ok (cs.set i d).flatten) := by
  have hfi := gr_flat_length n in2 hin
  rw [hin2] at hfi
  have hfd := gr_flat_length n cs hcn
  rw [hcs] at hfd
  have hin1 : i * n + n ≤ sB * n := by
    have := Nat.mul_le_mul_right n (Nat.succ_le_of_lt hi); rw [Nat.succ_mul] at this; exact this
  rw [gr_offloop (GenR.fast_floor_loop2 in2.flatten n i bs invs)
      (fun j old => gr_ffElt (bs.getD i gr_dflt) (invs.getD i default) ((in2.getD i []).getD j 0) old) (i * n) n (fun _ _ => rfl) (by
      intro k j l hl hj
      have e1 : ckMul i n = .ok (i * n) := gr_ckMul_ok (by omega)
      have e2 : ckAdd (i * n) j = .ok (i * n + j) := gr_ckAdd_ok (by omega)
      have hlt : i * n + j < in2.flatten.length := by omega
      have e3 : GenW.idx in2.flatten (i * n + j) = .ok ((in2.getD i []).getD j 0) := by
        rw [gw_idx_eq _ _ hlt, ← gr_getD_of_lt _ _ hlt, gr_flat_getD n in2 i j hin (by omega) hj]
      have e4 : GenR.idxMod bs i = .ok (bs.getD i gr_dflt) := gr_idxMod_ok bs i _ (by omega)
      have e5 : GenR.idxOp invs i = .ok (invs.getD i default) := gr_idxOp_ok invs i _ (by omega)
      rw [GenR.fast_floor_loop2]
      simp only [e1, e2, e3, e4, e5, gw_idx_eq _ _ hl, gw_multiply_u64operand_mod_eq, gr_ok_bind]
      unfold gr_ffElt
      cases ckSub (bs.getD i gr_dflt).value l[i * n + j] with
      | error e => rfl
      | ok nd =>
        simp only [gr_ok_bind]
        cases ckAdd ((in2.getD i []).getD j 0) nd with
        | error e => rfl
        | ok s =>
          simp only [gr_ok_bind, gr_mulOperandMod, gx_setIdx_ok _ _ _ hl])
    n 0 cs.flatten (by omega) (by omega)]
  have hcg : (List.range' 0 n).mapM (fun j' => gr_ffElt (bs.getD i gr_dflt) (invs.getD i default) ((in2.getD i []).getD j' 0) (cs.flatten.getD (i * n + j') 0))
      = (List.range' 0 n).mapM (fun j => gr_ffElt (bs.getD i gr_dflt) (invs.getD i default) ((in2.getD i []).getD j 0) ((cs.getD i []).getD j 0)) := by
    apply gr_mapM_congr
    intro j hj
    rw [List.mem_range'_1] at hj
    rw [gr_flat_getD n cs i j hcn (by omega) (by omega)]
  rw [hcg]
  cases hm : (List.range' 0 n).mapM (fun j => gr_ffElt (bs.getD i gr_dflt) (invs.getD i default) ((in2.getD i []).getD j 0) ((cs.getD i []).getD j 0)) with
  | error e => rfl
  | ok d =>
    have hdl : d.length = n := by rw [gr_mapM_length _ _ _ hm, List.length_range']
    rw [gr_ok_bind, gr_ok_bind, Nat.add_zero, ← gr_splice_flat n cs i d hcn (by omega) hdl]
    unfold GenR.splice
    rw [hdl]

def gr_ffComp (b : Modulus) (inv : MulOperand) (n : Nat) (xi ci : List Nat) : R (List Nat) :=
  (List.range' 0 n).mapM (fun j => gr_ffElt b inv (xi.getD j 0) (ci.getD j 0))

theorem gr_ff_loop (in2 : List (List Nat)) (sB n : Nat) (bs : List Modulus) (invs : List MulOperand)
    (hsn : sB * n < 2^64) (hin2 : in2.length = sB) (hin : ∀ c ∈ in2, c.length = n) (hbs : bs.length = sB) (hinv : sB ≤ invs.length) :
    ∀ k i (cs : List (List Nat)), i + k = sB → cs.length = sB → (∀ c ∈ cs, c.length = n) →
      GenR.fast_floor_loop1 in2.flatten sB n bs invs k i cs.flatten
        = (gr_foldM (fun i cs => gr_ffComp (bs.getD i gr_dflt) (invs.getD i default) n (in2.getD i []) (cs.getD i [])) k i cs >>= fun cs' => .ok cs'.flatten) := by
  intro k
  induction k with
  | zero => intro i cs _ _ _; rfl
  | succ k ih =>
    intro i cs hik hcs hcn
    rw [GenR.fast_floor_loop1, gr_foldM, gr_ff_loop2 in2 cs sB n i bs invs (by omega) hsn hin2 hin hcs hcn hbs hinv]
    unfold gr_ffComp
    cases hm : (List.range' 0 n).mapM (fun j => gr_ffElt (bs.getD i gr_dflt) (invs.getD i default) ((in2.getD i []).getD j 0) ((cs.getD i []).getD j 0)) with
    | error e => rfl
    | ok d =>
      have hdl : d.length = n := by rw [gr_mapM_length _ _ _ hm, List.length_range']
      simp only [gr_ok_bind]
      have := ih (i + 1) (cs.set i d) (by omega) (by rw [List.length_set]; exact hcs) (gr_set_length_mem n cs i d hcn hdl)
      unfold gr_ffComp at this
      exact this

/-- the generated `fast_floor` on flat buffers (`sq + sB` input components, `sB` destination components); `F` = the q → Bsk conversion -/
theorem gr_ff_list (inp ds : List (List Nat)) (sq sB n : Nat) (bs : List Modulus) (invs : List MulOperand) (F : List Nat → List Nat → R (List Nat))
    (hinp : inp.length = sq + sB) (hin : ∀ c ∈ inp, c.length = n) (hbs : bs.length = sB) (hinv : sB ≤ invs.length)
    (hsn : (sq + sB) * n < 2^64) :
    (∀ e, F (inp.take sq).flatten ds.flatten = .error e → GenR.fast_floor inp.flatten ds.flatten sq sB n bs invs F = .error e) ∧
    (∀ conv : List (List Nat), conv.length = sB → (∀ c ∈ conv, c.length = n) → F (inp.take sq).flatten ds.flatten = .ok conv.flatten →
      GenR.fast_floor inp.flatten ds.flatten sq sB n bs invs F =
        ((List.range' 0 sB).mapM (fun i => gr_ffComp (bs.getD i gr_dflt) (invs.getD i default) n (inp.getD (sq + i) []) (conv.getD i []))
          >>= fun outs => .ok outs.flatten)) := by
  have hfi := gr_flat_length n inp hin
  rw [hinp] at hfi
  have h1 : sq * n ≤ (sq + sB) * n := Nat.mul_le_mul_right n (by omega)
  have h2 : sB * n ≤ (sq + sB) * n := Nat.mul_le_mul_right n (by omega)
  have e1 : ckMul sq n = .ok (sq * n) := gr_ckMul_ok (by omega)
  have e2 : GenR.slice inp.flatten 0 (sq * n) = .ok (inp.take sq).flatten := gr_slice_take n inp sq hin (by omega)
  have e3 : GenR.slice inp.flatten (sq * n) inp.flatten.length = .ok (inp.drop sq).flatten := gr_slice_drop n inp sq hin (by omega)
  constructor
  · intro e he
    unfold GenR.fast_floor
    simp only [e1, e2, he, gr_ok_bind, gr_err_bind]
  · intro conv hc1 hc2 hF
    have hin2 : (inp.drop sq).length = sB := by rw [List.length_drop, hinp]; omega
    have hin2n : ∀ c ∈ inp.drop sq, c.length = n := fun c hc => hin c (List.mem_of_mem_drop hc)
    unfold GenR.fast_floor
    simp only [e1, e2, e3, hF, gr_ok_bind]
    rw [gr_ff_loop (inp.drop sq) sB n bs invs (by omega) hin2 hin2n hbs hinv sB 0 conv (by omega) hc1 hc2,
      gr_foldM_self (fun i ci => gr_ffComp (bs.getD i gr_dflt) (invs.getD i default) n ((inp.drop sq).getD i []) ci) sB 0 conv (by omega)]
    have hcg : (List.range' 0 sB).mapM (fun i' => gr_ffComp (bs.getD i' gr_dflt) (invs.getD i' default) n ((inp.drop sq).getD i' []) (conv.getD i' []))
        = (List.range' 0 sB).mapM (fun i => gr_ffComp (bs.getD i gr_dflt) (invs.getD i default) n (inp.getD (sq + i) []) (conv.getD i [])) := by
      apply gr_mapM_congr
      intro i _
      have h : (inp.drop sq).getD i [] = inp.getD (sq + i) [] := by
        rw [List.getD_eq_getElem?_getD, List.getElem?_drop, ← List.getD_eq_getElem?_getD]
      rw [h]
    rw [hcg]
    cases (List.range' 0 sB).mapM (fun i => gr_ffComp (bs.getD i gr_dflt) (invs.getD i default) n (inp.getD (sq + i) []) (conv.getD i [])) with
    | error e => rfl
    | ok outs =>
      simp only [gr_ok_bind]
      rw [List.take_zero, List.nil_append, Nat.zero_add, List.drop_eq_nil_of_le (by omega), List.append_nil]

end HC
