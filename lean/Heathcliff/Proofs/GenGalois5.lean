import Heathcliff.Gen.GaloisPlanFns
import Heathcliff.Proofs.GenGalois3
import Heathcliff.Proofs.C04M

/-!
  Translator tie for the tail of `GaloisTool::apply_ntt` (src/util/galois.rs): the generated permutation loop
  `GenGal.galois_apply_ntt_permute` (Gen/GaloisPlanFns.lean; `result[i] = operand[table[i]]` after
  `assert_eq!(result.len(), coeff_count)`) equals `galoisApplyNtt` of the hand model (Model/Galois.lean), whatever the
  initial contents of the result buffer.  Helper names start with `gp_`.
-/
namespace HC

theorem gp_idx_getD (l : List Nat) (i : Nat) (h : i < l.length) : GenW.idx l i = .ok (l.getD i 0) := by
  rw [gw_idx_eq l i h, List.getD_eq_getElem?_getD, List.getElem?_eq_getElem h]; rfl

/-- the generated loop from position `i` = the `List.set` fold over the remaining positions.  Hypotheses: the table covers the
    `n` positions and each of its first `n` entries is a valid index into the operand (otherwise `operand[t]` panics). -/
theorem gp_permute_loop_eq (a0 tab : List Nat) (n : Nat) (htab : n ≤ tab.length)
    (hrange : ∀ j, j < n → tab.getD j 0 < a0.length) :
    ∀ cnt i res, i + cnt = n → res.length = n →
    GenGal.galois_apply_ntt_permute_loop1 a0 tab cnt i res =
      .ok ((List.range' i cnt).foldl (fun r j => r.set j (a0.getD (tab.getD j 0) 0)) res) := by
  intro cnt
  induction cnt with
  | zero => intro i res _ _; rfl
  | succ c ih =>
    intro i res hic hlen
    have h1 : GenW.idx tab i = .ok (tab.getD i 0) := gp_idx_getD tab i (by omega)
    have h2 : GenW.idx a0 (tab.getD i 0) = .ok (a0.getD (tab.getD i 0) 0) :=
      gp_idx_getD a0 _ (hrange i (by omega))
    have hset : GenW.setIdx res i (a0.getD (tab.getD i 0) 0) = .ok (res.set i (a0.getD (tab.getD i 0) 0)) := by
      unfold GenW.setIdx; rw [if_pos (by omega)]
    rw [GenGal.galois_apply_ntt_permute_loop1, List.range'_succ, List.foldl_cons]
    simp only [h1, h2, hset, gy_ok_bind]
    exact ih (i + 1) _ (by omega) (by rw [List.length_set]; exact hlen)

/-- `List.ofFn` of "read the operand at table entry `i`" over all positions of the table = `map` over the table -/
theorem gp_ofFn_eq_map (a0 tab : List Nat) (n : Nat) (htab : tab.length = n) :
    List.ofFn (n := n) (fun i => a0.getD (tab.getD i.val 0) 0) = tab.map (fun t => a0.getD t 0) := by
  apply List.ext_getElem?
  intro p
  by_cases hp : p < n
  · have hpt : p < tab.length := by omega
    have hg : tab.getD p 0 = tab[p] := by
      rw [List.getD_eq_getElem?_getD, List.getElem?_eq_getElem hpt]; rfl
    rw [List.getElem?_ofFn, dif_pos hp, List.getElem?_map, List.getElem?_eq_getElem hpt]
    show some (a0.getD (tab.getD p 0) 0) = some (a0.getD tab[p] 0)
    rw [hg]
  · rw [List.getElem?_eq_none (by rw [List.length_ofFn]; omega),
      List.getElem?_eq_none (by rw [List.length_map]; omega)]

/-- closed form: the fold over all `n` positions does not depend on the (dirty) initial buffer -/
theorem gp_fold_all_eq_map (a0 tab res : List Nat) (n : Nat) (htab : tab.length = n) (hres : res.length = n) :
    (List.range' 0 n).foldl (fun r j => r.set j (a0.getD (tab.getD j 0) 0)) res = tab.map (fun t => a0.getD t 0) := by
  rw [gq_fold_set_all (fun j => a0.getD (tab.getD j 0) 0) n res hres]
  exact gp_ofFn_eq_map a0 tab n htab

/-- the generated permutation on a general table of length `n` whose entries index into the operand -/
theorem gp_permute_eq_map (a0 tab res : List Nat) (n : Nat) (htab : tab.length = n) (hres : res.length = n)
    (hrange : ∀ j, j < n → tab.getD j 0 < a0.length) :
    GenGal.galois_apply_ntt_permute a0 tab res n = .ok (tab.map (fun t => a0.getD t 0)) := by
  unfold GenGal.galois_apply_ntt_permute
  rw [if_pos hres, hres, htab, Nat.min_self,
    gp_permute_loop_eq a0 tab n (by omega) hrange n 0 res (by omega) hres,
    gp_fold_all_eq_map a0 tab res n htab hres]

theorem gp_table_length (k g : Nat) : (galoisTableNtt k g).toList.length = 2^k := by
  unfold galoisTableNtt; simp

/-- tail of `GaloisTool::apply_ntt` (generated; tool field `coeff_count = 2^k`, `table` = the permutation table of the odd
    element `g`) = `galoisApplyNtt` of the hand model, for ANY initial contents of the result buffer of length `2^k`.
    `2^k ≤ operand.len()`: the table entries range over `0 .. 2^k`, and `operand[t]` panics beyond the operand. -/
theorem gp_apply_ntt_permute_eq (k g : Nat) (hg : g % 2 = 1) (a res : List Nat) (ha : 2^k ≤ a.length)
    (hres : res.length = 2^k) :
    GenGal.galois_apply_ntt_permute a (galoisTableNtt k g).toList res (2^k) = .ok (galoisApplyNtt k a.toArray g).toList := by
  have hrange : ∀ j, j < 2^k → (galoisTableNtt k g).toList.getD j 0 < a.length := by
    intro j hj
    have h := (galoisTable_spec (k := k) (g := g) (i := j) hg hj).2
    have he : (galoisTableNtt k g).toList.getD j 0 = (galoisTableNtt k g).getD j 0 := by simp
    rw [he]; omega
  rw [gp_permute_eq_map a _ res (2^k) (gp_table_length k g) hres hrange]
  unfold galoisApplyNtt
  rw [Array.toList_map]
  congr 2
  funext t
  simp

/-- `assert_eq!(result.len(), self.coeff_count)` -/
theorem gp_apply_ntt_permute_refuses (a tab res : List Nat) (n : Nat) (h : res.length ≠ n) :
    GenGal.galois_apply_ntt_permute a tab res n = .error .refused := by
  unfold GenGal.galois_apply_ntt_permute
  rw [if_neg h]

/-- composed with the generated table (`GaloisTool::generate_table_ntt`, tie in GenGalois3.lean) -/
theorem gp_apply_ntt_gen (k g : Nat) (hk : k ≤ 31) (hg : g % 2 = 1) (hg2 : g < 2^(k+1)) (a res : List Nat)
    (ha : 2^k ≤ a.length) (hres : res.length = 2^k) :
    (GenG.generate_table_ntt g (2^k) k >>= fun tab => GenGal.galois_apply_ntt_permute a tab res (2^k)) =
      .ok (galoisApplyNtt k a.toArray g).toList := by
  rw [gq_generate_table_ntt_eq_lib k g hk hg2, gy_ok_bind]
  exact gp_apply_ntt_permute_eq k g hg a res ha hres

/-- not vacuous: N = 4, g = 3 (table [2, 3, 0, 1]), dirty result buffer -/
example : GenGal.galois_apply_ntt_permute [10, 20, 30, 40] (galoisTableNtt 2 3).toList [9, 9, 9, 9] 4 =
    .ok [30, 40, 10, 20] := by decide

/-- the refusal is reachable: result buffer of the wrong length -/
example : GenGal.galois_apply_ntt_permute [10, 20, 30, 40] (galoisTableNtt 2 3).toList [9, 9, 9] 4 =
    .error .refused := gp_apply_ntt_permute_refuses _ _ _ _ (by decide)

end HC
