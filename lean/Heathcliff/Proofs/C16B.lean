/- C16 helper lemmas, part B: byte invariants, hamming weight / CBD bound, RNS encodings, samplers. -/
import Heathcliff.Proofs.C16
namespace HC.Rng
open HC

variable {xof : Xof}

/-! ### everything the generator holds is a byte -/

def ByteArr (b : Array Nat) : Prop := ∀ i, b.getD i 0 < 256
/-- BLAKE3 output consists of bytes -/
def ByteXof (xof : Xof) : Prop := ∀ seed c, ByteArr (xof seed c)
def ByteSt (s : St) : Prop := ByteArr s.buffer

theorem byteSt_fromSeed (seed : Seed) : ByteSt (fromSeed seed) := by
  intro i
  simp only [fromSeed, Array.getD_eq_getD_getElem?, Array.getElem?_replicate]
  split <;> simp

theorem byteSt_refill (hx : ByteXof xof) (s : St) : ByteSt (refill xof s) := hx _ _

theorem byteSt_preFill (hx : ByteXof xof) {s : St} (hs : ByteSt s) : ByteSt (preFill xof s) := by
  unfold preFill; split
  · exact byteSt_refill hx s
  · exact hs

theorem byte_readByte (hx : ByteXof xof) {s : St} (hs : ByteSt s) :
    (readByte xof s).1 < 256 ∧ ByteSt (readByte xof s).2 :=
  ⟨byteSt_preFill hx hs _, byteSt_preFill hx hs⟩

theorem byte_fillBytes (hx : ByteXof xof) {s : St} (hs : ByteSt s) (n : Nat) :
    (∀ b ∈ (fillBytes xof s n).1, b < 256) ∧ ByteSt (fillBytes xof s n).2 := by
  induction n generalizing s with
  | zero => simp [fillBytes_zero, hs]
  | succ n ih =>
    obtain ⟨h1, h2⟩ := byte_readByte hx hs
    obtain ⟨i1, i2⟩ := ih h2
    rw [fillBytes_succ]
    refine ⟨?_, i2⟩
    intro b hb
    simp only [List.mem_cons] at hb
    rcases hb with rfl | hb
    · exact h1
    · exact i1 b hb

theorem foldr_bytes_lt (f : Nat → Nat) (l : List Nat) (h : ∀ k ∈ l, f k < 256) :
    l.foldr (fun k acc => f k + 256 * acc) 0 < 256 ^ l.length := by
  induction l with
  | nil => simp
  | cons a l ih =>
    have h1 := h a (by simp)
    have h2 := ih (fun k hk => h k (by simp [hk]))
    simp only [List.foldr_cons, List.length_cons, Nat.pow_succ]
    omega

theorem leRead_lt {b : Array Nat} (hb : ByteArr b) (p w : Nat) : leRead b p w < 256 ^ w := by
  have := foldr_bytes_lt (fun k => b.getD (p + k) 0) (List.range w) (fun k _ => hb _)
  simpa [leRead] using this

theorem byte_takeWord (hx : ByteXof xof) {s : St} (hs : ByteSt s) (w : Nat) :
    (takeWord w xof s).1 < 256 ^ w ∧ ByteSt (takeWord w xof s).2 := by
  have h2 : ByteSt (if s.pos + w > BUF then refill xof s else s) := by
    split
    · exact byteSt_refill hx s
    · exact hs
  exact ⟨leRead_lt h2 _ _, h2⟩

theorem byte_nextU32 (hx : ByteXof xof) {s : St} (hs : ByteSt s) :
    (nextU32 xof s).1 < 2 ^ 32 ∧ ByteSt (nextU32 xof s).2 := by
  have e : nextU32 xof s = takeWord 4 xof { s with pos := (s.pos + 3) / 4 * 4 } := rfl
  rw [e]
  have := byte_takeWord hx (s := { s with pos := (s.pos + 3) / 4 * 4 }) hs 4
  exact ⟨by have := this.1; omega, this.2⟩

theorem byte_nextU64 (hx : ByteXof xof) {s : St} (hs : ByteSt s) :
    (nextU64 xof s).1 < 2 ^ 64 ∧ ByteSt (nextU64 xof s).2 := by
  have e : nextU64 xof s = takeWord 8 xof { s with pos := (s.pos + 7) / 8 * 8 } := rfl
  rw [e]
  have := byte_takeWord hx (s := { s with pos := (s.pos + 7) / 8 * 8 }) hs 8
  exact ⟨by have := this.1; omega, this.2⟩

/-! ### hamming weight and the centred binomial value -/

def popcount8 (x : Nat) : Nat :=
  x % 2 + x / 2 % 2 + x / 4 % 2 + x / 8 % 2 + x / 16 % 2 + x / 32 % 2 + x / 64 % 2 + x / 128 % 2

set_option maxRecDepth 100000 in
theorem hammingWeight_eq_popcount : ∀ x, x < 256 → hammingWeight x = popcount8 x := by decide

set_option maxRecDepth 100000 in
theorem hammingWeight_le8 : ∀ x, x < 256 → hammingWeight x ≤ 8 := by decide

set_option maxRecDepth 100000 in
theorem hammingWeight_mask_le5 : ∀ x, x < 256 → hammingWeight (x &&& 31) ≤ 5 := by decide

theorem cbdValue_six (b0 b1 b2 b3 b4 b5 : Nat) :
    cbdValue [b0, b1, b2, b3, b4, b5] =
      (hammingWeight b0 : Int) + hammingWeight b1 + hammingWeight (b2 &&& 31)
        - hammingWeight b3 - hammingWeight b4 - hammingWeight (b5 &&& 31) := by
  simp [cbdValue, applyMasks, Gen.CBD_MASKS, Gen.CBD_TERMS]
  omega

theorem cbdValue_bound (bytes : List Nat) (hl : bytes.length = 6) (hb : ∀ b ∈ bytes, b < 256) :
    -21 ≤ cbdValue bytes ∧ cbdValue bytes ≤ 21 := by
  rcases bytes with _ | ⟨b0, _ | ⟨b1, _ | ⟨b2, _ | ⟨b3, _ | ⟨b4, _ | ⟨b5, _ | ⟨b6, r⟩⟩⟩⟩⟩⟩⟩ <;> simp at hl
  rw [cbdValue_six]
  have h0 := hammingWeight_le8 b0 (hb b0 (by simp))
  have h1 := hammingWeight_le8 b1 (hb b1 (by simp))
  have h2 := hammingWeight_mask_le5 b2 (hb b2 (by simp))
  have h3 := hammingWeight_le8 b3 (hb b3 (by simp))
  have h4 := hammingWeight_le8 b4 (hb b4 (by simp))
  have h5 := hammingWeight_mask_le5 b5 (hb b5 (by simp))
  omega

/-! ### `Uniform`: the contract the sampler theorems assume, and rand 0.8.5's algorithm meets it -/

/-- documented contract of `rand::distributions::Uniform` for the two integer types used: the sample lies in
    `[lo, hi]` (and the generator stays a byte generator) -/
structure Uniform.Contract (U : Uniform) : Prop where
  i32 : ∀ (lo hi : Int) (xof : Xof) (s : St) (v : Int) (s' : St), ByteXof xof → ByteSt s → -2^31 ≤ lo → hi < 2^31 →
    U.i32 lo hi xof s = .ok (v, s') → lo ≤ v ∧ v ≤ hi ∧ ByteSt s'
  u64 : ∀ (lo hi : Nat) (xof : Xof) (s : St) (v : Nat) (s' : St), ByteXof xof → ByteSt s → hi < 2^64 →
    U.u64 lo hi xof s = .ok (v, s') → lo ≤ v ∧ v ≤ hi ∧ ByteSt s'

theorem randLoop_spec (next : Xof → St → Nat × St) (range zone W : Nat) (hr : 0 < range)
    (hnext : ∀ s, ByteSt s → (next xof s).1 < W ∧ ByteSt (next xof s).2) :
    ∀ (fuel : Nat) (s : St) (h : Nat) (s' : St), ByteSt s → randLoop next range zone W xof fuel s = .ok (h, s') →
      h < range ∧ ByteSt s' := by
  intro fuel
  induction fuel with
  | zero => intro s h s' _ he; simp [randLoop] at he
  | succ f ih =>
    intro s h s' hs he
    obtain ⟨h1, h2⟩ := hnext s hs
    simp only [randLoop] at he
    split at he
    · simp only [Except.ok.injEq, Prod.mk.injEq] at he
      obtain ⟨rfl, rfl⟩ := he
      refine ⟨?_, h2⟩
      apply Nat.div_lt_of_lt_mul
      exact Nat.mul_lt_mul_of_lt_of_le h1 (Nat.le_refl _) hr
    · exact ih _ _ _ h2 he

theorem wrapI32_id {x : Int} (h1 : -2^31 ≤ x) (h2 : x < 2^31) : wrapI32 x = x := by
  unfold wrapI32; omega

theorem wrapI32_range (x : Int) : -2^31 ≤ wrapI32 x ∧ wrapI32 x < 2^31 := by
  unfold wrapI32; omega

theorem randI32_spec (lo hi : Int) (s : St) (v : Int) (s' : St) (hx : ByteXof xof) (hs : ByteSt s)
    (hlo : -2^31 ≤ lo) (hhi : hi < 2^31) (he : randI32 lo hi xof s = .ok (v, s')) : lo ≤ v ∧ v ≤ hi ∧ ByteSt s' := by
  unfold randI32 at he
  split at he
  · simp at he
  · rename_i hle
    simp only at he
    split at he
    · rename_i hr0
      simp only [Except.ok.injEq, Prod.mk.injEq] at he
      obtain ⟨rfl, rfl⟩ := he
      have hw := wrapI32_range ((nextU32 xof s).1 : Int)
      refine ⟨by omega, by omega, (byte_nextU32 hx hs).2⟩
    · rename_i hr0
      split at he
      · rename_i h s1 heq
        simp only [Except.ok.injEq, Prod.mk.injEq] at he
        obtain ⟨rfl, rfl⟩ := he
        have hpos : 0 < ((hi - lo + 1) % 2 ^ 32).toNat := Nat.pos_of_ne_zero hr0
        obtain ⟨h1, h2⟩ := randLoop_spec nextU32 _ _ (2^32) hpos (fun s hs => byte_nextU32 hx hs) _ _ _ _ hs heq
        have : wrapI32 (lo + (h : Int)) = lo + h := wrapI32_id (by omega) (by omega)
        rw [this]
        exact ⟨by omega, by omega, h2⟩
      · simp at he

theorem randU64_spec (lo hi : Nat) (s : St) (v : Nat) (s' : St) (hx : ByteXof xof) (hs : ByteSt s)
    (hhi : hi < 2^64) (he : randU64 lo hi xof s = .ok (v, s')) : lo ≤ v ∧ v ≤ hi ∧ ByteSt s' := by
  unfold randU64 at he
  split at he
  · simp at he
  · rename_i hle
    simp only at he
    split at he
    · rename_i hr0
      simp only [Except.ok.injEq, Prod.mk.injEq] at he
      obtain ⟨rfl, rfl⟩ := he
      have hb := byte_nextU64 hx hs
      simp only [B64] at hr0
      refine ⟨by omega, by have := hb.1; omega, hb.2⟩
    · rename_i hr0
      split at he
      · rename_i h s1 heq
        simp only [Except.ok.injEq, Prod.mk.injEq] at he
        obtain ⟨rfl, rfl⟩ := he
        have hpos : 0 < (hi - lo + 1) % B64 := Nat.pos_of_ne_zero hr0
        obtain ⟨h1, h2⟩ := randLoop_spec nextU64 _ _ B64 hpos
          (fun s hs => by have := byte_nextU64 hx hs; simp only [B64]; exact this) _ _ _ _ hs heq
        simp only [B64] at h1 ⊢
        exact ⟨by omega, by omega, h2⟩
      · simp at he

/-- rand 0.8.5's `UniformInt::sample` (as modelled) meets the contract -/
theorem randUniform_contract : randUniform.Contract where
  i32 := fun lo hi _ s v s' hx hs h1 h2 he => randI32_spec lo hi s v s' hx hs h1 h2 he
  u64 := fun lo hi _ s v s' hx hs h2 he => randU64_spec lo hi s v s' hx hs h2 he

/-! ### repeated draws, `mapR` -/

theorem sampleMany_spec {α : Type} (draw : St → R (α × St)) (P : α → Prop)
    (hd : ∀ s v s', ByteSt s → draw s = .ok (v, s') → P v ∧ ByteSt s') :
    ∀ (n : Nat) (s : St) (vs : List α) (s' : St), ByteSt s → sampleMany draw n s = .ok (vs, s') →
      vs.length = n ∧ (∀ v ∈ vs, P v) ∧ ByteSt s' := by
  intro n
  induction n with
  | zero =>
    intro s vs s' hs he
    simp only [sampleMany, Except.ok.injEq, Prod.mk.injEq] at he
    obtain ⟨rfl, rfl⟩ := he
    simp [hs]
  | succ n ih =>
    intro s vs s' hs he
    simp only [sampleMany] at he
    split at he
    · simp at he
    · rename_i v s1 h1
      obtain ⟨p1, b1⟩ := hd _ _ _ hs h1
      split at he
      · simp at he
      · rename_i vs2 s2 h2
        obtain ⟨l2, p2, b2⟩ := ih _ _ _ b1 h2
        simp only [Except.ok.injEq, Prod.mk.injEq] at he
        obtain ⟨rfl, rfl⟩ := he
        refine ⟨by simp [l2], ?_, b2⟩
        intro x hx
        simp only [List.mem_cons] at hx
        rcases hx with rfl | hx
        · exact p1
        · exact p2 x hx

theorem mapR_eq_map {α β : Type} (f : α → R β) (g : α → β) (l : List α) (h : ∀ a ∈ l, f a = .ok (g a)) :
    mapR f l = .ok (l.map g) := by
  induction l with
  | nil => rfl
  | cons a l ih =>
    simp only [mapR, h a (by simp), ih (fun x hx => h x (by simp [hx])), List.map_cons]

/-! ### RNS encodings -/

theorem encTernary_eq {q : Nat} (hq : 2 ≤ q) {v : Int} (h1 : -1 ≤ v) (h2 : v ≤ 1) :
    encTernary q v = .ok (v % (q : Int)).toNat := by
  unfold encTernary
  have hv : v = -1 ∨ v = 0 ∨ v = 1 := by omega
  rcases hv with rfl | rfl | rfl
  · simp only [if_true, ckSub]
    rw [if_pos (by omega)]
    congr 1
    have : (-1 : Int) % (q : Int) = (q : Int) - 1 := by
      rw [Int.emod_def]
      have : (-1 : Int) / (q : Int) = -1 := by
        apply Int.ediv_eq_neg_one_of_neg_of_le <;> omega
      rw [this]; omega
    rw [this]; omega
  · simp
  · simp only [show ((1 : Int) = -1) = False by simp, show ((1:Int) = 0) = False by simp, if_false, if_true]
    congr 1
    have : (1 : Int) % (q : Int) = 1 := Int.emod_eq_of_lt (by omega) (by omega)
    rw [this]; rfl

theorem neg_emod_nat (n q : Nat) (hq : 0 < q) :
    (-(n : Int)) % (q : Int) = if n % q = 0 then 0 else ((q - n % q : Nat) : Int) := by
  have hd : q * (n / q) + n % q = n := Nat.div_add_mod n q
  have hm : n % q < q := Nat.mod_lt n hq
  have hdi : (n : Int) = (q : Int) * ((n / q : Nat) : Int) + ((n % q : Nat) : Int) := by
    rw [← Int.natCast_mul, ← Int.natCast_add, hd]
  by_cases h0 : n % q = 0
  · rw [if_pos h0]
    rw [h0] at hdi
    have : -(n : Int) = (q : Int) * (-((n / q : Nat) : Int)) := by rw [hdi]; simp [Int.mul_neg]
    rw [this, Int.mul_emod_right]
  · rw [if_neg h0]
    have e : -(n : Int) = ((q - n % q : Nat) : Int) + (q : Int) * (-((n / q : Nat) : Int) - 1) := by
      rw [Int.mul_sub, Int.mul_neg, Int.mul_one, Int.natCast_sub (Nat.le_of_lt hm)]
      rw [hdi]; omega
    rw [e, Int.add_mul_emod_self_left]
    exact Int.emod_eq_of_lt (by omega) (by omega)

/-- the (repaired) error encoding is the canonical residue of the signed value, for EVERY modulus `q ≥ 1`
    and every value (no bound needed) -/
theorem encError_eq {q : Nat} (hq : 0 < q) (v : Int) :
    encError q v = .ok (v % (q : Int)).toNat := by
  unfold encError
  rw [if_neg (by omega)]
  have hm : v.natAbs % q < q := Nat.mod_lt _ hq
  by_cases hv : v ≥ 0
  · rw [if_pos (Or.inl hv)]
    have e : v = ((v.natAbs : Nat) : Int) := (Int.natAbs_of_nonneg hv).symm
    congr 1
    conv => rhs; rw [e, ← Int.natCast_emod, Int.toNat_natCast]
  · have e : v = -((v.natAbs : Nat) : Int) := Int.eq_neg_natAbs_of_nonpos (by omega)
    have hn := neg_emod_nat v.natAbs q hq
    rw [← e] at hn
    by_cases h0 : v.natAbs % q = 0
    · rw [if_pos (Or.inr h0), hn, if_pos h0, h0]; rfl
    · rw [if_neg (by intro h; rcases h with h | h; exact hv h; exact h0 h)]
      simp only [ckSub]
      rw [if_pos (Nat.le_of_lt hm), hn, if_neg h0, Int.toNat_natCast]

theorem encodeAll_eq (enc : Nat → Int → R Nat) (g : Nat → Int → Nat) (moduli : List Nat) (vs : List Int)
    (h : ∀ q ∈ moduli, ∀ v ∈ vs, enc q v = .ok (g q v)) :
    encodeAll enc moduli vs = .ok (moduli.map fun q => vs.map (g q)) := by
  unfold encodeAll
  apply mapR_eq_map
  intro q hq
  exact mapR_eq_map _ _ _ (h q hq)

/-! ### the three samplers -/

theorem ternary_spec (U : Uniform) (hU : U.Contract) (hx : ByteXof xof) {s s' : St} (hs : ByteSt s) {n : Nat}
    {moduli : List Nat} {c : List (List Nat)} (hq : ∀ q ∈ moduli, 2 ≤ q)
    (h : ternary U xof s n moduli = .ok (c, s')) :
    ∃ vs : List Int, vs.length = n ∧ (∀ v ∈ vs, -1 ≤ v ∧ v ≤ 1) ∧
      c = moduli.map (fun (q : Nat) => vs.map fun v => (v % (q : Int)).toNat) ∧ ByteSt s' := by
  unfold ternary at h
  split at h
  · simp at h
  · rename_i vs s1 h1
    obtain ⟨l1, p1, b1⟩ := sampleMany_spec (U.i32 Gen.TERNARY_LOW Gen.TERNARY_HIGH xof) (fun v => -1 ≤ v ∧ v ≤ 1)
      (fun s v s' hs he => by
        obtain ⟨a, b, c⟩ := hU.i32 Gen.TERNARY_LOW Gen.TERNARY_HIGH xof s v s' hx hs (by decide) (by decide) he
        exact ⟨⟨a, b⟩, c⟩) n s vs s1 hs h1
    have he := encodeAll_eq encTernary (fun q v => (v % (q : Int)).toNat) moduli vs
      (fun q hq' v hv => encTernary_eq (hq q hq') (p1 v hv).1 (p1 v hv).2)
    rw [he] at h
    simp only [Except.ok.injEq, Prod.mk.injEq] at h
    obtain ⟨rfl, rfl⟩ := h
    exact ⟨vs, l1, p1, rfl, b1⟩

theorem cbdDraw_spec (hx : ByteXof xof) (s : St) (v : Int) (s' : St) (hs : ByteSt s)
    (he : cbdDraw xof s = .ok (v, s')) : (-21 ≤ v ∧ v ≤ 21) ∧ ByteSt s' := by
  simp only [cbdDraw, Except.ok.injEq, Prod.mk.injEq] at he
  obtain ⟨rfl, rfl⟩ := he
  obtain ⟨h1, h2⟩ := byte_fillBytes hx hs Gen.CBD_BYTES
  exact ⟨cbdValue_bound _ (fillBytes_length s _) h1, h2⟩

theorem centeredBinomial_spec (hx : ByteXof xof) {s s' : St} (hs : ByteSt s) {n : Nat}
    {moduli : List Nat} {c : List (List Nat)} (hq : ∀ q ∈ moduli, 2 ≤ q)
    (h : centeredBinomial xof s n moduli = .ok (c, s')) :
    ∃ vs : List Int, vs.length = n ∧ (∀ v ∈ vs, -21 ≤ v ∧ v ≤ 21) ∧
      c = moduli.map (fun (q : Nat) => vs.map fun v => (v % (q : Int)).toNat) ∧ ByteSt s' := by
  unfold centeredBinomial at h
  rw [if_neg (by decide), if_neg (by decide)] at h
  split at h
  · simp at h
  · rename_i vs s1 h1
    obtain ⟨l1, p1, b1⟩ := sampleMany_spec (cbdDraw xof) (fun v => -21 ≤ v ∧ v ≤ 21)
      (fun s v s' hs he => cbdDraw_spec hx s v s' hs he) n s vs s1 hs h1
    have he := encodeAll_eq encError (fun q v => (v % (q : Int)).toNat) moduli vs
      (fun q hq' v _ => encError_eq (by have := hq q hq'; omega) v)
    rw [he] at h
    simp only [Except.ok.injEq, Prod.mk.injEq] at h
    obtain ⟨rfl, rfl⟩ := h
    exact ⟨vs, l1, p1, rfl, b1⟩

/-- component `j` has `n` coefficients, all below `q_j` -/
def AllBelow (n : Nat) : List Nat → List (List Nat) → Prop
  | [], [] => True
  | q :: qs, p :: ps => (p.length = n ∧ ∀ x ∈ p, x < q) ∧ AllBelow n qs ps
  | _, _ => False

theorem uniformPoly_spec (U : Uniform) (hU : U.Contract) (hx : ByteXof xof) {n : Nat} :
    ∀ (moduli : List Nat) (s s' : St) (c : List (List Nat)), ByteSt s → (∀ q ∈ moduli, q ≤ 2^64) →
      uniformPoly U xof s n moduli = .ok (c, s') →
      AllBelow n moduli c ∧ ByteSt s' := by
  intro moduli
  induction moduli with
  | nil =>
    intro s s' c hs _ h
    simp only [uniformPoly, Except.ok.injEq, Prod.mk.injEq] at h
    obtain ⟨rfl, rfl⟩ := h
    exact ⟨trivial, hs⟩
  | cons q qs ih =>
    intro s s' c hs hq h
    simp only [uniformPoly] at h
    split at h
    · simp at h
    · rename_i hi hsub
      simp only [ckSub] at hsub
      split at hsub
      · rename_i hq1
        simp only [Except.ok.injEq] at hsub
        subst hsub
        have hq64 := hq q (by simp)
        split at h
        · simp at h
        · rename_i vs s1 h1
          obtain ⟨l1, p1, b1⟩ := sampleMany_spec (U.u64 0 (q - 1) xof) (fun v => v ≤ q - 1)
            (fun s v s' hs he => by
              obtain ⟨_, b, c⟩ := hU.u64 0 (q - 1) xof s v s' hx hs (by omega) he
              exact ⟨b, c⟩) n s vs s1 hs h1
          split at h
          · simp at h
          · rename_i rest s2 h2
            obtain ⟨f2, b2⟩ := ih s1 s2 rest b1 (fun x hx' => hq x (by simp [hx'])) h2
            simp only [Except.ok.injEq, Prod.mk.injEq] at h
            obtain ⟨rfl, rfl⟩ := h
            refine ⟨⟨⟨l1, ?_⟩, f2⟩, b2⟩
            intro x hx'
            have := p1 x hx'
            omega
      · simp at hsub

/-! ### factory: every generator creation is a new entropy request -/

theorem factory_new_random : Factory.new.useRandomSeed = true := rfl

/-- number of generators an operation takes from the factory -/
def HOp.cnt : HOp → Nat
  | .keygen => 1 | .symmetric => 2 | .symmetricWith _ => 1 | .asymmetric => 2 | .asymmetricWith _ => 1

theorem getRng_new (ent : Entropy) (w : Nat) : Factory.new.getRng ent w = (fromSeed (ent w), w + 1) := rfl

theorem fromSeed_seed (x : Seed) : (fromSeed x).seed = x := rfl

/-- one operation: the entropy index advances by the number of generators it creates and these
    generators are seeded with the next entropy outputs, in order -/
theorem hstep_fresh (U : Uniform) (P : Parms) (ent : Entropy) (w : Nat) (o : HOp) :
    (hstep U xof P Factory.new ent w o).2 = w + o.cnt ∧
      (hstep U xof P Factory.new ent w o).1.factorySeeds = (List.range o.cnt).map fun i => ent (w + i) := by
  cases o <;> simp [hstep, getRng_new, fromSeed_seed, HOp.cnt, symCore, asymCore, List.range_succ]

def allFactorySeeds (ds : List Draw) : List Seed := (ds.map Draw.factorySeeds).flatten

def totalCnt (ops : List HOp) : Nat := (ops.map HOp.cnt).sum

theorem hrun_fresh (U : Uniform) (P : Parms) (ent : Entropy) (ops : List HOp) (w : Nat) :
    (hrun U xof P Factory.new ent w ops).2 = w + totalCnt ops ∧
      allFactorySeeds (hrun U xof P Factory.new ent w ops).1 = (List.range (totalCnt ops)).map fun i => ent (w + i) := by
  induction ops generalizing w with
  | nil => simp [hrun, totalCnt, allFactorySeeds]
  | cons o os ih =>
    obtain ⟨h1, h2⟩ := hstep_fresh (xof := xof) U P ent w o
    obtain ⟨i1, i2⟩ := ih (hstep U xof P Factory.new ent w o).2
    have e1 : totalCnt (o :: os) = o.cnt + totalCnt os := by simp [totalCnt]
    have e2 : (hrun U xof P Factory.new ent w (o :: os)).2 = (hrun U xof P Factory.new ent (hstep U xof P Factory.new ent w o).2 os).2 := rfl
    have e3 : allFactorySeeds (hrun U xof P Factory.new ent w (o :: os)).1 =
        (hstep U xof P Factory.new ent w o).1.factorySeeds ++
          allFactorySeeds (hrun U xof P Factory.new ent (hstep U xof P Factory.new ent w o).2 os).1 := by
      simp [hrun, allFactorySeeds]
    refine ⟨by rw [e2, i1, h1, e1]; omega, ?_⟩
    rw [e3, h2, i2, h1, e1, List.range_add, List.map_append, List.map_map]
    simp [Function.comp_def, Nat.add_assoc]

theorem nodup_map_of_injective {α β : Type} (f : α → β) (hf : Function.Injective f) :
    ∀ l : List α, l.Nodup → (l.map f).Nodup := by
  intro l
  induction l with
  | nil => simp
  | cons a l ih =>
    intro h
    rw [List.nodup_cons] at h
    rw [List.map_cons, List.nodup_cons]
    refine ⟨?_, ih h.2⟩
    intro hm
    rw [List.mem_map] at hm
    obtain ⟨b, hb, hfb⟩ := hm
    have := hf hfb
    subst this
    exact h.1 hb

/-- with an injective entropy source no two generators of a history share a seed -/
theorem hrun_seeds_nodup (U : Uniform) (P : Parms) (ent : Entropy) (hent : Function.Injective ent) (ops : List HOp) (w : Nat) :
    (allFactorySeeds (hrun U xof P Factory.new ent w ops).1).Nodup := by
  rw [(hrun_fresh U P ent ops w).2]
  apply nodup_map_of_injective (fun i => ent (w + i))
  · intro a b hab
    have := hent hab
    omega
  · exact List.nodup_range

/-- entropy indices of the c1 generators of the factory-seeded symmetric operations of a history -/
def symIdx : Nat → List HOp → List Nat
  | _, [] => []
  | w, .symmetric :: os => w :: symIdx (w + 2) os
  | w, o :: os => symIdx (w + o.cnt) os

/-- public (stored) seeds of the factory-seeded symmetric operations -/
def symPublicSeeds : List HOp → List Draw → List Seed
  | .symmetric :: os, d :: ds => (match d.publicSeed with | some s => [s] | none => []) ++ symPublicSeeds os ds
  | _ :: os, _ :: ds => symPublicSeeds os ds
  | _, _ => []

/-- first 64 bytes of the stream of a seed: what `c1_prng.fill_bytes(public_prng_seed)` yields for a fresh generator -/
def firstBytes (xof : Xof) (seed : Seed) : Seed := (fillBytes xof (fromSeed seed) Gen.PRNG_SEED_BYTES).1

theorem symIdx_ge : ∀ (ops : List HOp) (w : Nat), ∀ i ∈ symIdx w ops, w ≤ i := by
  intro ops
  induction ops with
  | nil => intro w i h; simp [symIdx] at h
  | cons o os ih =>
    intro w i h
    cases o <;> simp only [symIdx, List.mem_cons] at h
    case symmetric =>
      rcases h with rfl | h
      · exact Nat.le_refl _
      · have := ih _ _ h; omega
    all_goals (have := ih _ _ h; omega)

theorem symIdx_nodup : ∀ (ops : List HOp) (w : Nat), (symIdx w ops).Nodup := by
  intro ops
  induction ops with
  | nil => intro w; simp [symIdx]
  | cons o os ih =>
    intro w
    cases o <;> simp only [symIdx]
    case symmetric =>
      rw [List.nodup_cons]
      refine ⟨?_, ih _⟩
      intro h
      have := symIdx_ge os (w + 2) w h
      omega
    all_goals exact ih _

theorem symPublicSeeds_eq (U : Uniform) (P : Parms) (ent : Entropy) :
    ∀ (ops : List HOp) (w : Nat),
      symPublicSeeds ops (hrun U xof P Factory.new ent w ops).1 = (symIdx w ops).map fun i => firstBytes xof (ent i) := by
  intro ops
  induction ops with
  | nil => intro w; simp [symPublicSeeds, symIdx]
  | cons o os ih =>
    intro w
    have hs := (hstep_fresh (xof := xof) U P ent w o).1
    cases o
    case symmetric =>
      simp only [hrun, symPublicSeeds, symIdx, List.map_cons]
      rw [hs, ih]
      simp [hstep, symCore, getRng_new, firstBytes, HOp.cnt]
    all_goals
      simp only [hrun, symPublicSeeds, symIdx]
      rw [hs, ih]

end HC.Rng
