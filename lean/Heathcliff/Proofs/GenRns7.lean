import Heathcliff.Proofs.GenRns5
import Heathcliff.Proofs.GenRns6

/-!
  Phase 4k of the translator tie: `RNSTool::decrypt_scale_and_round` generated from src/util/rns.rs EQUALS the hand model's
  `RNSTool.decryptScaleAndRound` on the flat layout; the call `self.base_q_to_t_gamma_conv.as_ref().unwrap().fast_convert_array(..)` is the
  GENERATED `fast_convert_array` on the fields of the model's `qToTGamma` (`gr_convF`).  Helper names start with `gr_`.
-/
namespace HC
open HC.GenW HC.GenR

/-- the scaled input of the conversion as an RNS polynomial -/
def gr_dsrT (r : RNSTool) (p : RnsPoly) : RnsPoly :=
  ((List.range r.baseQ.size).map (fun i =>
    ((p.getD i #[]).toList.map (fun x => mulOpV x (r.prodTGammaModQ.getD i default) (r.baseQ.q i))).toArray)).toArray

theorem gr_mapM'_mulOp (a : Array Nat) (o : MulOperand) (m : Modulus) :
    mapM' a (fun x => mulOperandMod x o m) = .ok (a.toList.map (fun x => mulOpV x o m)).toArray := by
  rw [gr_mapM'_eq, gr_mapM_ok _ (fun x => mulOpV x o m) _ (fun x _ => gr_mulOperandMod _ _ _)]
  rfl

/-- the hand model computed to the closed form of the generated code -/
theorem gr_dsr_model (r : RNSTool) (p convA : RnsPoly) {btg : RNSBase} {conv : BaseConverter} {ig : MulOperand}
    (h1 : r.baseTGamma = some btg) (h2 : r.qToTGamma = some conv) (h3 : r.invGammaModT = some ig)
    (hconv : conv.fastConvertArray (gr_dsrT r p) r.n = .ok convA)
    (hs0 : (convA.getD 0 #[]).size = r.n) (hs1 : (convA.getD 1 #[]).size = r.n) :
    r.decryptScaleAndRound p = ((List.range' 0 r.n).mapM (fun j => gr_dsrElt r.t r.gamma (r.gamma.value / 2) ig
        (mulOpV ((convA.getD 0 #[]).toList.getD j 0) (r.negInvQModTGamma.getD 0 default) r.t)
        (mulOpV ((convA.getD 1 #[]).toList.getD j 0) (r.negInvQModTGamma.getD 1 default) r.gamma)) >>= fun ys => .ok ys.toArray) := by
  have htemp : (List.range r.baseQ.size).mapM (fun i =>
      mapM' (p.getD i #[]) (fun x => mulOperandMod x (r.prodTGammaModQ.getD i default) (r.baseQ.q i)))
      = .ok ((List.range r.baseQ.size).map (fun i =>
        ((p.getD i #[]).toList.map (fun x => mulOpV x (r.prodTGammaModQ.getD i default) (r.baseQ.q i))).toArray)) :=
    gr_mapM_ok _ _ _ (fun i _ => gr_mapM'_mulOp _ _ _)
  unfold RNSTool.decryptScaleAndRound
  simp only [h1, h2, h3]
  unfold gr_dsrT at hconv
  rw [htemp, gr_ok_bind, hconv, gr_ok_bind, gr_mapM'_mulOp, gr_ok_bind, gr_mapM'_mulOp, gr_ok_bind, gr_zipM'_eq]
  have hsz : ((convA.getD 0 #[]).toList.map (fun x => mulOpV x (r.negInvQModTGamma.getD 0 default) r.t)).toArray.size = r.n := by
    rw [List.size_toArray, List.length_map, Array.length_toList, hs0]
  rw [hsz]
  congr 1
  apply gr_mapM_congr
  intro j hj
  rw [List.mem_range'_1] at hj
  simp only [List.toList_toArray]
  rw [gr_getD_map_lt _ (convA.getD 0 #[]).toList _ (by rw [Array.length_toList, hs0]; omega),
    gr_getD_map_lt _ (convA.getD 1 #[]).toList _ (by rw [Array.length_toList, hs1]; omega)]
  unfold gr_dsrElt
  by_cases hg : mulOpV ((convA.getD 1 #[]).toList.getD j 0) (r.negInvQModTGamma.getD 1 default) r.gamma > r.gamma.value / 2
  · rw [if_pos hg, if_pos hg]; simp only [bind_assoc]; rfl
  · rw [if_neg hg, if_neg hg]; simp only [bind_assoc]; rfl

theorem gr_flatP_zero (m n : Nat) : flatP (Array.replicate m (Array.replicate n 0)) = List.replicate (n * m) 0 := by
  unfold flatP
  simp [List.flatten_replicate_replicate, Nat.mul_comm]

theorem gr_flatP_dsrT (r : RNSTool) (p : RnsPoly) :
    flatP (gr_dsrT r p) = (gr_dsrTemp (p.toList.map Array.toList) r.baseQ.size r.prodTGammaModQ.toList r.baseQ.base.toList).flatten := by
  unfold flatP gr_dsrT gr_dsrTemp
  congr 1
  rw [List.map_map, List.range_eq_range']
  apply List.map_congr_left
  intro i _
  simp only [Function.comp, gr_cs_getD, gr_ops_toList, gr_q_toList]

/-- **`RNSTool::decrypt_scale_and_round` (generated from src/util/rns.rs) = the hand model `RNSTool.decryptScaleAndRound`**; input = flat buffer of the
    `|q|` components, destination = ANY buffer of `n` words (every position is written).  The `Option` fields are `Some` (the code `unwrap`s them);
    `base_t_gamma` = `[t, γ]` (the code reads `base_at(0)`, `base_at(1)` for the reductions and `self.t`, `self.gamma` for the correction; the model names
    `t`, `γ` throughout).  The γ-correction (`γ − g`, Barrett reduction, `add_u64_mod`) traps on both sides alike. -/
theorem gr_decrypt_scale_and_round_eq (r : RNSTool) (p : RnsPoly) (d : Poly) {btg : RNSBase} {conv : BaseConverter} {ig : MulOperand}
    (h1 : r.baseTGamma = some btg) (h2 : r.qToTGamma = some conv) (h3 : r.invGammaModT = some ig)
    (hbs : btg.size = 2) (hb0 : btg.q 0 = r.t) (hb1 : btg.q 1 = r.gamma)
    (hc : gr_ConvOK conv r.baseQ.size 2)
    (hp1 : p.size = r.baseQ.size) (hp2 : ∀ i, i < r.baseQ.size → (p.getD i #[]).size = r.n) (hd : d.size = r.n)
    (hops : r.baseQ.size ≤ r.prodTGammaModQ.size) (hnops : 2 ≤ r.negInvQModTGamma.size)
    (hsn : r.baseQ.size * r.n < 2^64) (h2n : 2 * r.n < 2^64) (hs64 : r.baseQ.size < 2^64) :
    GenR.decrypt_scale_and_round (flatP p) d.toList r.baseQ.size r.baseQ.base.toList btg.size btg.base.toList r.n
        r.prodTGammaModQ.toList r.negInvQModTGamma.toList r.t r.gamma ig (gr_convF conv)
      = (r.decryptScaleAndRound p).map Array.toList := by
  obtain ⟨hi, ho, hM, hsi, hso⟩ := hc
  obtain ⟨hcs, hn⟩ := gr_shape_cs' hp1 hp2
  -- the conversion of the scaled input
  have hT1 : (gr_dsrT r p).size = conv.ibase.size := by simp [gr_dsrT, hsi]
  have hTg : ∀ i, i < r.baseQ.size → (gr_dsrT r p).getD i #[] =
      ((p.getD i #[]).toList.map (fun x => mulOpV x (r.prodTGammaModQ.getD i default) (r.baseQ.q i))).toArray := by
    intro i hi'; unfold gr_dsrT; rw [getD_rangeMap' _ _ _ hi']
  have hTn : ∀ i, i < conv.ibase.size → ((gr_dsrT r p).getD i #[]).size = r.n := by
    intro i hi'; rw [hTg i (by omega), List.size_toArray, List.length_map, Array.length_toList, hp2 i (by omega)]
  have hTw : ∀ i j, i < conv.ibase.size → j < r.n → ((gr_dsrT r p).getD i #[]).getD j 0 < 2^64 := by
    intro i j hi' hj
    rw [hTg i (by omega), gr_arr_getD, List.toList_toArray, gr_getD_map_lt _ _ _ (by rw [Array.length_toList, hp2 i (by omega)]; exact hj)]
    exact gr_mulOpV_lt _ _ _
  have hmodel := gr_fca_model conv hi ho hM (gr_dsrT r p) r.n hT1 hTw
  obtain ⟨hA1, hA2⟩ := gr_fca_model_shape conv (gr_dsrT r p) r.n
  generalize hconvA : (((List.range conv.obase.size).map (fun o => ((List.range r.n).map (fun j => gr_fcaD conv (gr_dsrT r p) o j)).toArray)).toArray : RnsPoly) = convA at hmodel hA1 hA2
  have hF : gr_convF conv (gr_dsrTemp (p.toList.map Array.toList) r.baseQ.size r.prodTGammaModQ.toList r.baseQ.base.toList).flatten
      (List.replicate (r.n * 2) 0) = .ok (flatP convA) := by
    rw [← gr_flatP_dsrT, ← gr_flatP_zero 2 r.n]
    unfold gr_convF
    rw [gr_fca_core conv hi ho hM (gr_dsrT r p) (Array.replicate 2 (Array.replicate r.n 0)) r.n hT1 hTn hTw (by simp [hso])
      (fun i hi' => by rw [hso] at hi'; simp [Array.getD, hi']) (by rw [hsi]; exact hsn) (by rw [hso]; exact h2n), hmodel]
    rfl
  obtain ⟨hvs, hvn⟩ := gr_shape_cs' (hso ▸ hA1) (fun i hi' => hA2 i (by omega))
  have hgen := gr_dsr_list (p.toList.map Array.toList) d.toList r.baseQ.size r.n r.baseQ.base.toList btg.base.toList r.prodTGammaModQ.toList
    r.negInvQModTGamma.toList r.t r.gamma ig (gr_convF conv) (convA.toList.map Array.toList) hcs hn (by simp [RNSBase.size])
    (by simpa using hops) (by simpa [RNSBase.size] using hbs) (by simpa using hnops) (by simpa using hd) hsn h2n hs64 hvs hvn hF
  unfold flatP at hgen ⊢
  rw [hbs, hgen, gr_dsr_model r p convA h1 h2 h3 hmodel (hA2 0 (by omega)) (hA2 1 (by omega))]
  simp only [gr_q_toList, gr_cs_getD, gr_ops_toList, hb0, hb1]
  cases (List.range' 0 r.n).mapM (fun j => gr_dsrElt r.t r.gamma (r.gamma.value / 2) ig
        (mulOpV ((convA.getD 0 #[]).toList.getD j 0) (r.negInvQModTGamma.getD 0 default) r.t)
        (mulOpV ((convA.getD 1 #[]).toList.getD j 0) (r.negInvQModTGamma.getD 1 default) r.gamma)) with
  | error e => rfl
  | ok ys => rfl

end HC
