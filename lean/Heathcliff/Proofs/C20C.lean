/-
  C20: the block searches (`MatmulHelper::new`, `Conv2dHelper::new`) return non-zero blocks that satisfy the side
  conditions; the weight buffer of the convolution fits for those blocks.
-/
import Heathcliff.Proofs.C20A
import Mathlib.Tactic.NormNum

namespace HC
open HC.MM

theorem c20_ceilDiv_le {a b : Nat} (hb : 1 ≤ b) : ceilDiv a b ≤ a := by
  unfold ceilDiv
  rcases Nat.eq_zero_or_pos a with rfl | ha
  · simp; omega
  · apply Nat.div_le_of_le_mul
    obtain ⟨a', rfl⟩ : ∃ a', a = a' + 1 := ⟨a - 1, by omega⟩
    obtain ⟨b', rfl⟩ : ∃ b', b = b' + 1 := ⟨b - 1, by omega⟩
    have : (b' + 1) * (a' + 1) = b' * a' + b' + a' + 1 := by ring
    omega

/-- the side conditions of the coefficient-packing blocks -/
def c20_Good (N bs id od : Nat) (st : Best) : Prop :=
  1 ≤ st.b ∧ st.b ≤ bs ∧ 1 ≤ st.i ∧ st.i ≤ id ∧ 1 ≤ st.o ∧ st.o ≤ od ∧ st.b * st.i * st.o ≤ N

theorem c20_block_fit {N b i o : Nat} (hb : 1 ≤ b) (hi : 1 ≤ i) (ho : o ≤ N / b / i) : b * i * o ≤ N := by
  have h1 : o * i ≤ N / b := (Nat.le_div_iff_mul_le hi).mp ho
  have h2 : o * i * b ≤ N := (Nat.le_div_iff_mul_le hb).mp h1
  calc b * i * o = o * i * b := by ring
    _ ≤ N := h2

theorem c20_mmInner_inv (N bs id od : Nat) (obj : Objective) (b bc : Nat) (hb1 : 1 ≤ b) (hb2 : b ≤ bs)
    (st : Best) (i : Nat) (hi : 1 ≤ i) (h : st = Best.init ∨ c20_Good N bs id od st) :
    mmInner N id od obj b bc st i = Best.init ∨ c20_Good N bs id od (mmInner N id od obj b bc st i) := by
  unfold mmInner
  split
  · exact h
  · dsimp only
    split
    · exact h
    · split
      · exact h
      · right
        unfold c20_Good
        dsimp only
        refine ⟨hb1, hb2, hi, by omega, by omega, Nat.min_le_right _ _, ?_⟩
        exact c20_block_fit hb1 hi (Nat.min_le_left _ _)

theorem c20_mmOuter_inv (N bs id od : Nat) (obj : Objective) (st : Best) (b : Nat) (hb1 : 1 ≤ b) (hb2 : b ≤ bs)
    (h : st = Best.init ∨ c20_Good N bs id od st) :
    mmOuter N bs id od obj st b = Best.init ∨ c20_Good N bs id od (mmOuter N bs id od obj st b) := by
  unfold mmOuter
  dsimp only
  split
  · exact h
  · split
    · exact h
    · apply c20_foldl_inv (fun s => s = Best.init ∨ c20_Good N bs id od s) _ _ _ h
      intro s i hi hs
      exact c20_mmInner_inv N bs id od obj b _ hb1 hb2 s i (List.mem_range'_1.mp hi).1 hs

theorem c20_mmCost_lt (obj : Objective) {bc ic oc : Nat} (h1 : bc < 2^20) (h2 : ic < 2^20) (h3 : oc < 2^20) :
    mmCost obj bc ic oc < usizeMax := by
  have e : usizeMax = 18446744073709551615 := by norm_num [usizeMax]
  have a1 : bc * ic ≤ 2^20 * 2^20 := Nat.mul_le_mul (by omega) (by omega)
  have a2 : ic * oc ≤ 2^20 * 2^20 := Nat.mul_le_mul (by omega) (by omega)
  have a3 : bc * oc ≤ 2^20 * 2^20 := Nat.mul_le_mul (by omega) (by omega)
  rw [e]
  cases obj <;> simp only [mmCost]
  · rw [Nat.mul_add]; omega
  · omega
  · omega

theorem c20_mmInner_found_mono (N id od : Nat) (obj : Objective) (b bc : Nat) (st : Best) (i : Nat)
    (h : st.c < usizeMax) : (mmInner N id od obj b bc st i).c < usizeMax := by
  unfold mmInner
  split
  · exact h
  · dsimp only
    split
    · exact h
    · split
      · exact h
      · dsimp only; omega

/-- **block search (coefficient packing, no LWE packing)**: for every admissible shape the returned blocks are non-zero and
    satisfy `b ≤ batch`, `i ≤ input_dims`, `o ≤ output_dims`, `b·i·o ≤ N`. -/
theorem c20_mmSearch_sound (N bs id od : Nat) (obj : Objective) (hN : 2 ≤ N) (hbs : 1 ≤ bs) (hid : 1 ≤ id) (hod : 1 ≤ od)
    (hsz : bs < 2^20 ∧ id < 2^20 ∧ od < 2^20) : c20_Good N bs id od (mmSearch N bs id od obj) := by
  have hinv : mmSearch N bs id od obj = Best.init ∨ c20_Good N bs id od (mmSearch N bs id od obj) :=
    c20_downLoop_inv (fun s => s = Best.init ∨ c20_Good N bs id od s) _ bs Best.init (Or.inl rfl)
      (fun st b h1 h2 hs => c20_mmOuter_inv N bs id od obj st b h1 h2 hs)
  have hfound : (mmSearch N bs id od obj).c < usizeMax := by
    unfold mmSearch
    apply c20_downLoop_last (fun (s : Best) => s.c < usizeMax) _ bs hbs
    intro st
    unfold mmOuter
    dsimp only
    have hbc : ceilDiv bs 1 = bs := by unfold ceilDiv; simp
    rw [hbc]
    split
    · omega
    · split
      · rename_i h2
        have : usizeMax = 18446744073709551615 := by norm_num [usizeMax]
        omega
      · apply c20_foldl_reach (fun (s : Best) => s.c < usizeMax)
        · refine ⟨1, List.mem_range'_1.mpr ⟨le_refl _, by simp; omega⟩, ?_⟩
          intro s
          unfold mmInner
          split
          · omega
          · dsimp only
            split
            · rename_i h3
              simp at h3
              omega
            · have hc : mmCost obj bs (ceilDiv id 1) (ceilDiv od (min (N / 1 / 1) od)) < usizeMax := by
                apply c20_mmCost_lt obj hsz.1
                · exact lt_of_le_of_lt (c20_ceilDiv_le (le_refl 1)) hsz.2.1
                · rename_i h3
                  exact lt_of_le_of_lt (c20_ceilDiv_le (by omega)) hsz.2.2
              split
              · omega
              · exact hc
        · intro s i _ hs
          exact c20_mmInner_found_mono N id od obj 1 bs s i hs
  rcases hinv with h | h
  · rw [h] at hfound; simp [Best.init] at hfound
  · exact h

/-! ### LWE-packing variant -/

theorem c20_packExp_go_spec (N : Nat) : ∀ f e, 2^(100 * e) ≤ N^33 → 2^(100 * packExp.go N f e) ≤ N^33 := by
  intro f
  induction f with
  | zero => intro e h; simpa [packExp.go] using h
  | succ f ih =>
    intro e h
    simp only [packExp.go]
    split
    · rename_i h2; exact ih (e+1) h2
    · exact h

theorem c20_packExp_le {N : Nat} (hN : 1 ≤ N) : 2 ^ packExp N ≤ N := by
  have h := c20_packExp_go_spec N 64 0 (by simpa using Nat.one_le_pow _ _ hN)
  have h2 : (2 ^ packExp N) ^ 100 ≤ N ^ 100 := by
    unfold packExp
    rw [← Nat.pow_mul, Nat.mul_comm]
    exact le_trans h (Nat.pow_le_pow_right hN (by norm_num))
  exact (Nat.pow_le_pow_iff_left (by norm_num)).mp h2

theorem c20_ceilTwoPower_go_le (n e : Nat) (hn : n < 2^e) : ∀ f k, k ≤ e → ceilTwoPower.go n f (2^k) ≤ 2^e := by
  intro f
  induction f with
  | zero => intro k hk; simpa [ceilTwoPower.go] using Nat.pow_le_pow_right (by norm_num) hk
  | succ f ih =>
    intro k hk
    simp only [ceilTwoPower.go]
    split
    · rename_i h2
      have hke : k < e := by
        by_contra hcon
        have : k = e := by omega
        rw [this] at h2; omega
      have := ih (k+1) hke
      rwa [Nat.pow_succ, Nat.mul_comm] at this
    · exact Nat.pow_le_pow_right (by norm_num) hk

theorem c20_ceilTwoPower_go_pos (n : Nat) : ∀ f x, 1 ≤ x → 1 ≤ ceilTwoPower.go n f x := by
  intro f
  induction f with
  | zero => intro x hx; simpa [ceilTwoPower.go] using hx
  | succ f ih =>
    intro x hx
    simp only [ceilTwoPower.go]
    split
    · exact ih _ (by omega)
    · exact hx

theorem c20_packI_bounds {N : Nat} (hN : 1 ≤ N) (id : Nat) : 1 ≤ packI N id ∧ packI N id ≤ N := by
  unfold packI
  dsimp only
  split
  · rename_i h
    constructor
    · exact c20_ceilTwoPower_go_pos id 64 1 (le_refl 1)
    · have := c20_ceilTwoPower_go_le id (packExp N) h 64 0 (Nat.zero_le _)
      exact le_trans (by simpa [ceilTwoPower] using this) (c20_packExp_le hN)
  · exact ⟨Nat.one_le_two_pow, c20_packExp_le hN⟩

/-- side conditions with LWE packing: the input block is the fixed power of two `packI` -/
def c20_GoodPack (N bs id od : Nat) (st : Best) : Prop :=
  1 ≤ st.b ∧ st.b ≤ bs ∧ st.i = packI N id ∧ 1 ≤ st.i ∧ 1 ≤ st.o ∧ st.o ≤ od ∧ st.b * st.i * st.o ≤ N

theorem c20_mmPackCost_lt (obj : Objective) {bc ic oc i : Nat} (hi : 1 ≤ i) (h1 : bc < 2^20) (h2 : ic < 2^20) (h3 : oc < 2^20) :
    mmPackCost obj bc ic oc i < usizeMax := by
  have e : usizeMax = 18446744073709551615 := by norm_num [usizeMax]
  have a1 : bc * ic ≤ 2^20 * 2^20 := Nat.mul_le_mul (by omega) (by omega)
  have a2 : ic * oc ≤ 2^20 * 2^20 := Nat.mul_le_mul (by omega) (by omega)
  have a3 : bc * oc ≤ 2^20 * 2^20 := Nat.mul_le_mul (by omega) (by omega)
  have a4 : ceilDiv (bc * oc) i ≤ bc * oc := c20_ceilDiv_le hi
  rw [e]
  cases obj <;> simp only [mmPackCost] <;> omega

theorem c20_mmPackSearch_sound (N bs id od : Nat) (obj : Objective) (hN : 1 ≤ N) (hbs : 1 ≤ bs) (hod : 1 ≤ od)
    (hsz : bs < 2^20 ∧ id < 2^20 ∧ od < 2^20) : c20_GoodPack N bs id od (mmPackSearch N bs id od obj) := by
  obtain ⟨hi1, hiN⟩ := c20_packI_bounds hN id
  have hinv : mmPackSearch N bs id od obj = Best.init ∨ c20_GoodPack N bs id od (mmPackSearch N bs id od obj) := by
    apply c20_downLoop_inv (fun s => s = Best.init ∨ c20_GoodPack N bs id od s) _ bs Best.init (Or.inl rfl)
    intro st b h1 h2 hs
    unfold mmPackStep
    dsimp only
    split
    · exact hs
    · split
      · exact hs
      · split
        · exact hs
        · right
          unfold c20_GoodPack
          dsimp only
          exact ⟨h1, h2, rfl, hi1, by omega, Nat.min_le_right _ _, c20_block_fit h1 hi1 (Nat.min_le_left _ _)⟩
  have hfound : (mmPackSearch N bs id od obj).c < usizeMax := by
    unfold mmPackSearch
    apply c20_downLoop_last (fun (s : Best) => s.c < usizeMax) _ bs hbs
    intro st
    unfold mmPackStep
    dsimp only
    have hbc : ceilDiv bs 1 = bs := by unfold ceilDiv; simp
    rw [hbc]
    split
    · omega
    · split
      · rename_i h3
        have : 1 ≤ N / 1 / packI N id := by
          rw [Nat.div_one]; exact (Nat.le_div_iff_mul_le hi1).mpr (by omega)
        simp at h3; omega
      · rename_i h3
        have hc : mmPackCost obj bs (ceilDiv id (packI N id)) (ceilDiv od (min (N / 1 / packI N id) od)) (packI N id) < usizeMax := by
          apply c20_mmPackCost_lt obj hi1 hsz.1
          · exact lt_of_le_of_lt (c20_ceilDiv_le hi1) hsz.2.1
          · exact lt_of_le_of_lt (c20_ceilDiv_le (by omega)) hsz.2.2
        split
        · omega
        · exact hc
  rcases hinv with h | h
  · rw [h] at hfound; simp [Best.init] at hfound
  · exact h

/-! ### convolution -/

/-- the side conditions of the convolution blocks -/
def c20_GoodC (S : ConvShape) (N : Nat) (st : CBest) : Prop :=
  1 ≤ st.b ∧ st.b ≤ S.b ∧ S.kh ≤ st.h ∧ st.h ≤ S.h ∧ S.kw ≤ st.w ∧ st.w ≤ S.w ∧ 1 ≤ st.ci ∧ st.ci ≤ S.ci ∧ 1 ≤ st.co ∧ st.co ≤ S.co
    ∧ st.ci * st.co * st.w * st.h * st.b ≤ N

theorem c20_cvStep_inv (S : ConvShape) (N : Nat) (obj : Objective) (b h w : Nat) (hkh : 1 ≤ S.kh) (hkw : 1 ≤ S.kw)
    (hb : b ∈ downRange 1 S.b) (hh : h ∈ downRange S.kh (min S.h (N / b))) (hw : w ∈ downRange S.kw (min S.w (N / b / h)))
    (st : CBest) (co : Nat) (hco : co ∈ downRange 1 (min S.co (N / b / h / w)))
    (hs : st = CBest.init ∨ c20_GoodC S N st) :
    cvStep S obj b h w (N / b / h / w) st co = CBest.init ∨ c20_GoodC S N (cvStep S obj b h w (N / b / h / w) st co) := by
  obtain ⟨hb1, hb2⟩ := c20_mem_downRange.mp hb
  obtain ⟨hh1, hh2⟩ := c20_mem_downRange.mp hh
  obtain ⟨hw1, hw2⟩ := c20_mem_downRange.mp hw
  obtain ⟨hc1, hc2⟩ := c20_mem_downRange.mp hco
  unfold cvStep
  dsimp only
  split
  · exact hs
  · rename_i hci
    split
    · right
      have e1 : min S.ci (N / b / h / w / co) * co ≤ N / b / h / w :=
        (Nat.le_div_iff_mul_le hc1).mp (Nat.min_le_right _ _)
      have e2 : min S.ci (N / b / h / w / co) * co * w ≤ N / b / h := (Nat.le_div_iff_mul_le (by omega)).mp e1
      have e3 : min S.ci (N / b / h / w / co) * co * w * h ≤ N / b := (Nat.le_div_iff_mul_le (by omega)).mp e2
      have e4 : min S.ci (N / b / h / w / co) * co * w * h * b ≤ N := (Nat.le_div_iff_mul_le (by omega)).mp e3
      unfold c20_GoodC
      dsimp only
      exact ⟨hb1, hb2, hh1, by omega, hw1, by omega, Nat.pos_of_ne_zero hci, Nat.min_le_left _ _, hc1, by omega, e4⟩
    · exact hs

theorem c20_cvSearch_inv (S : ConvShape) (N : Nat) (obj : Objective) (hkh : 1 ≤ S.kh) (hkw : 1 ≤ S.kw) :
    cvSearch S N obj = CBest.init ∨ c20_GoodC S N (cvSearch S N obj) := by
  unfold cvSearch
  apply c20_foldl_inv (fun s => s = CBest.init ∨ c20_GoodC S N s) _ _ _ (Or.inl rfl)
  intro st b hb hs
  apply c20_foldl_inv (fun s => s = CBest.init ∨ c20_GoodC S N s) _ _ _ hs
  intro st h hh hs
  apply c20_foldl_inv (fun s => s = CBest.init ∨ c20_GoodC S N s) _ _ _ hs
  intro st w hw hs
  apply c20_foldl_inv (fun s => s = CBest.init ∨ c20_GoodC S N s) _ _ _ hs
  intro st co hco hs
  exact c20_cvStep_inv S N obj b h w hkh hkw hb hh hw st co hco hs

theorem c20_cvStep_found_mono (S : ConvShape) (obj : Objective) (b h w u : Nat) (st : CBest) (co : Nat)
    (hq : st.c < usizeMax) : (cvStep S obj b h w u st co).c < usizeMax := by
  unfold cvStep
  dsimp only
  split
  · exact hq
  · split
    · dsimp only; omega
    · exact hq

theorem c20_cvCost_lt (obj : Objective) {a b c : Nat} (ha : a ≤ 2^60) (hb : b ≤ 2^60) (hc : c ≤ 2^60) : cvCost obj a b c < usizeMax := by
  have e : usizeMax = 18446744073709551615 := by norm_num [usizeMax]
  rw [e]; cases obj <;> simp only [cvCost] <;> omega

theorem c20_mul4_le {a b c d : Nat} (ha : a ≤ 2^15) (hb : b ≤ 2^15) (hc : c ≤ 2^15) (hd : d ≤ 2^15) : a * b * c * d ≤ 2^60 := by
  calc a * b * c * d ≤ 2^15 * 2^15 * 2^15 * 2^15 := Nat.mul_le_mul (Nat.mul_le_mul (Nat.mul_le_mul ha hb) hc) hd
    _ = 2^60 := by norm_num

/-- **block search (convolution)**: for every admissible shape (kernel fits into the image and into the ring) the returned blocks
    are non-zero and satisfy the side conditions, in particular `b·ci·co·h·w ≤ N`. -/
theorem c20_cvSearch_sound (S : ConvShape) (N : Nat) (obj : Objective) (hb : 1 ≤ S.b) (hci : 1 ≤ S.ci) (hco : 1 ≤ S.co)
    (hkh : 1 ≤ S.kh) (hkw : 1 ≤ S.kw) (hh : S.kh ≤ S.h) (hw : S.kw ≤ S.w) (hN : S.kh * S.kw ≤ N)
    (hsz : S.b ≤ 2^15 ∧ S.ci ≤ 2^15 ∧ S.co ≤ 2^15 ∧ S.h ≤ 2^15 ∧ S.w ≤ 2^15) : c20_GoodC S N (cvSearch S N obj) := by
  have hfound : (cvSearch S N obj).c < usizeMax := by
    have mono : ∀ b h w u st co, st.c < usizeMax → (cvStep S obj b h w u st co).c < usizeMax :=
      fun b h w u st co hq => c20_cvStep_found_mono S obj b h w u st co hq
    have hdiv1 : S.kw ≤ N / 1 / S.kh := by
      rw [Nat.div_one]; exact (Nat.le_div_iff_mul_le hkh).mpr (by rw [Nat.mul_comm]; exact hN)
    have hdiv2 : 1 ≤ N / 1 / S.kh / S.kw := (Nat.le_div_iff_mul_le hkw).mpr (by omega)
    have hkhN : S.kh ≤ N / 1 := by
      rw [Nat.div_one]; exact le_trans (Nat.le_mul_of_pos_right _ hkw) hN
    unfold cvSearch
    apply c20_foldl_reach (fun (s : CBest) => s.c < usizeMax)
    · refine ⟨1, c20_mem_downRange.mpr ⟨le_refl _, hb⟩, ?_⟩
      intro st
      apply c20_foldl_reach (fun (s : CBest) => s.c < usizeMax)
      · refine ⟨S.kh, c20_mem_downRange.mpr ⟨le_refl _, by omega⟩, ?_⟩
        intro st
        apply c20_foldl_reach (fun (s : CBest) => s.c < usizeMax)
        · refine ⟨S.kw, c20_mem_downRange.mpr ⟨le_refl _, by omega⟩, ?_⟩
          intro st
          apply c20_foldl_reach (fun (s : CBest) => s.c < usizeMax)
          · refine ⟨1, c20_mem_downRange.mpr ⟨le_refl _, by omega⟩, ?_⟩
            intro st
            unfold cvStep
            dsimp only
            split
            · rename_i h0
              rw [Nat.div_one] at h0
              have : 1 ≤ min S.ci (N / 1 / S.kh / S.kw) := by omega
              omega
            · have hcut : ∀ a b, a ≤ 2^15 → ceilDiv a b ≤ 2^15 ∨ b = 0 := by
                intro a b ha
                rcases Nat.eq_zero_or_pos b with h | h
                · right; exact h
                · left; exact le_trans (c20_ceilDiv_le h) ha
              have c1 : ceilDiv S.b 1 ≤ 2^15 := le_trans (c20_ceilDiv_le (le_refl 1)) hsz.1
              have c2 : ceilDiv (S.h - S.kh + 1) (S.kh - S.kh + 1) ≤ 2^15 := le_trans (c20_ceilDiv_le (by omega)) (by omega)
              have c3 : ceilDiv (S.w - S.kw + 1) (S.kw - S.kw + 1) ≤ 2^15 := le_trans (c20_ceilDiv_le (by omega)) (by omega)
              have c4 : ceilDiv S.ci (min S.ci (N / 1 / S.kh / S.kw / 1)) ≤ 2^15 := by
                rename_i h0
                exact le_trans (c20_ceilDiv_le (by omega)) hsz.2.1
              have c5 : ceilDiv S.co 1 ≤ 2^15 := le_trans (c20_ceilDiv_le (le_refl 1)) hsz.2.2.1
              have hc := c20_cvCost_lt obj (c20_mul4_le c1 c2 c3 c4) (c20_mul4_le c1 c2 c3 c5)
                (le_trans (Nat.mul_le_mul c4 c5) (by norm_num))
              split
              · exact hc
              · rename_i hlt; omega
          · intro st co _ hq; exact mono _ _ _ _ st co hq
        · intro st w _ hq
          exact c20_foldl_inv (fun (s : CBest) => s.c < usizeMax) _ _ _ hq (fun s co _ hs => mono _ _ _ _ s co hs)
      · intro st h _ hq
        apply c20_foldl_inv (fun (s : CBest) => s.c < usizeMax) _ _ _ hq
        intro s w _ hs
        exact c20_foldl_inv (fun (s : CBest) => s.c < usizeMax) _ _ _ hs (fun s co _ hs => mono _ _ _ _ s co hs)
    · intro st b _ hq
      apply c20_foldl_inv (fun (s : CBest) => s.c < usizeMax) _ _ _ hq
      intro s h _ hs
      apply c20_foldl_inv (fun (s : CBest) => s.c < usizeMax) _ _ _ hs
      intro s w _ hs
      exact c20_foldl_inv (fun (s : CBest) => s.c < usizeMax) _ _ _ hs (fun s co _ hs => mono _ _ _ _ s co hs)
  rcases c20_cvSearch_inv S N obj hkh hkw with h | h
  · rw [h] at hfound; simp [CBest.init] at hfound
  · exact h

/-- the weight buffer `spread` (sized with the height *block*, as after the repair) fits into the ring -/
theorem c20_spread_fits (S : ConvShape) (N : Nat) (obj : Objective) (h : c20_GoodC S N (cvSearch S N obj)) :
    (CHelper.new S N obj).spreadSize ≤ N ∧ (CHelper.new S N obj).bb * (CHelper.new S N obj).cib * (CHelper.new S N obj).cob *
        (CHelper.new S N obj).blockSize ≤ N := by
  obtain ⟨hb1, _, _, _, _, _, _, _, _, _, hfit⟩ := h
  simp only [CHelper.new, CHelper.spreadSize, CHelper.blockSize]
  constructor
  · calc (cvSearch S N obj).ci * (cvSearch S N obj).co * (cvSearch S N obj).w * (cvSearch S N obj).h
        ≤ (cvSearch S N obj).ci * (cvSearch S N obj).co * (cvSearch S N obj).w * (cvSearch S N obj).h * (cvSearch S N obj).b :=
          Nat.le_mul_of_pos_right _ hb1
      _ ≤ N := hfit
  · calc (cvSearch S N obj).b * (cvSearch S N obj).ci * (cvSearch S N obj).co * ((cvSearch S N obj).h * (cvSearch S N obj).w)
        = (cvSearch S N obj).ci * (cvSearch S N obj).co * (cvSearch S N obj).w * (cvSearch S N obj).h * (cvSearch S N obj).b := by ring
      _ ≤ N := hfit

end HC
