import Heathcliff.Gen.GaloisFns
import Heathcliff.Model.Galois
import Heathcliff.Proofs.GenGalois
import Heathcliff.Proofs.GenEval

/-!
  Translator tie (phase 3) for src/util/galois.rs / src/util/basic.rs: `reverse_bits_u32`, `GaloisTool::apply`,
  `GaloisTool::generate_table_ntt` (generated into Gen/WordFns.lean, Gen/GaloisFns.lean) against `brev`, `galoisApply`,
  `galoisTableNtt` of the hand model.  Helper names start with `gy_`.
-/
namespace HC
open HC.GenG

/-! ### reverse_bits_u32 -/
theorem gy_revBits_eq_brev : ∀ k x, GenW.revBits k x = brev k x := by
  intro k; induction k with
  | zero => intro x; rfl
  | succ k ih => intro x; rw [GenW.revBits, brev, ih]

theorem gy_brev_zero : ∀ k, brev k 0 = 0 := by
  intro k; induction k with
  | zero => rfl
  | succ k ih => rw [brev, ih]; simp

/-- reversing `k + j` bits of a `k`-bit number = reversing `k` bits, shifted up by `j` -/
theorem gy_brev_add : ∀ k j x, x < 2^k → brev (k + j) x = brev k x * 2^j := by
  intro k; induction k with
  | zero => intro j x hx; have : x = 0 := by simpa using hx
            subst this; rw [gy_brev_zero, brev]; simp
  | succ k ih =>
    intro j x hx
    have h2 : x / 2 < 2^k := by rw [Nat.pow_succ] at hx; omega
    rw [show k + 1 + j = (k + j) + 1 by omega, brev, brev, ih j _ h2, Nat.pow_add]; ring

theorem gy_reverse_bits_u32_eq (x bc : Nat) (hbc : bc ≤ 32) (hx : x < 2^bc) :
    GenW.reverse_bits_u32 x bc = .ok (brev bc x) := by
  unfold GenW.reverse_bits_u32
  by_cases h0 : bc = 0
  · subst h0; rw [if_pos rfl]; rfl
  · rw [if_neg h0]
    have hs : ckSub 32 bc = .ok (32 - bc) := by unfold ckSub; rw [if_pos hbc]
    rw [hs, gy_ok_bind]
    unfold GenW.ckShr
    rw [if_pos (by omega), gy_revBits_eq_brev]
    have := gy_brev_add bc (32 - bc) x hx
    rw [show bc + (32 - bc) = 32 by omega] at this
    rw [this, Nat.shiftRight_eq_div_pow, Nat.mul_div_cancel _ (Nat.two_pow_pos _)]

/-! ### GaloisTool::apply -/
/-- one iteration of `GaloisTool::apply` on lists -/
def gy_applyStep (n : Nat) (a : List Nat) (g : Nat) (m : Modulus) (res : List Nat) (i : Nat) : R (List Nat) :=
  (if (i * g / n) % 2 = 1 then negateMod (a.getD i 0) m else pure (a.getD i 0)) >>= fun v => pure (res.set (i * g % n) v)

theorem gy_apply_loop_eq (a : List Nat) (g : Nat) (m : Modulus) (k : Nat) (hk : k < 64) (ha : 2^k ≤ a.length)
    (hg : 2^k * g < 2^64) : ∀ cnt i res, i + cnt = 2^k → res.length = 2^k →
    GenG.galois_apply_loop1 a g m (2^k - 1) k cnt i res (i * g) = (List.range' i cnt).foldlM (gy_applyStep (2^k) a g m) res := by
  intro cnt
  induction cnt with
  | zero => intro i res _ _; rfl
  | succ c ih =>
    intro i res hic hlen
    have hi : i < a.length := by omega
    have hidx : GenW.idx a i = .ok (a.getD i 0) := by
      rw [gw_idx_eq a i hi, List.getD_eq_getElem?_getD, List.getElem?_eq_getElem hi]; rfl
    have hshr : GenW.ckShr 64 (i * g) k = .ok (i * g / 2^k) := by
      unfold GenW.ckShr; rw [if_pos hk, Nat.shiftRight_eq_div_pow]
    have hlt : i * g % 2^k < res.length := by rw [hlen]; exact Nat.mod_lt _ (Nat.two_pow_pos _)
    have hadd : ckAdd (i * g) g = .ok ((i + 1) * g) := by
      unfold ckAdd
      have : (i + 1) * g ≤ 2^k * g := Nat.mul_le_mul_right _ (by omega)
      rw [if_pos (by rw [gx_B64]; nlinarith), Nat.add_mul, Nat.one_mul]
    have hgt : ∀ x : Nat, (x % 2 > 0) ↔ (x % 2 = 1) := by intro x; omega
    have hstep : gy_applyStep (2^k) a g m res i =
        ((if (i * g / 2^k) % 2 = 1 then negateMod (a.getD i 0) m else pure (a.getD i 0)) >>= fun v => pure (res.set (i * g % 2^k) v)) := rfl
    rw [GenG.galois_apply_loop1, List.range'_succ, List.foldlM_cons, hstep]
    simp only [if_pos hi.le, hidx, hshr, gy_ok_bind, gx_and_mask, Nat.and_one_is_mod, hgt, gw_negate_u64_mod_eq]
    by_cases hodd : i * g / 2^k % 2 = 1
    · simp only [hodd, if_true]
      cases hn : negateMod (a.getD i 0) m with
      | error e => simp only [gy_err_bind]
      | ok v =>
        simp only [gy_ok_bind, gy_pure_eq]
        unfold GenW.setIdx
        rw [if_pos hlt, gy_ok_bind, hadd, gy_ok_bind]
        exact ih (i + 1) _ (by omega) (by rw [List.length_set]; exact hlen)
    · simp only [hodd, if_false, gy_pure_eq, gy_ok_bind]
      unfold GenW.setIdx
      rw [if_pos hlt, gy_ok_bind, hadd, gy_ok_bind]
      exact ih (i + 1) _ (by omega) (by rw [List.length_set]; exact hlen)
theorem gy_foldlM_transfer {ι : Type} (FL : List Nat → ι → R (List Nat)) (FA : Array Nat → ι → R (Array Nat))
    (hF : ∀ res i, FA res.toArray i = (FL res i >>= fun r => pure r.toArray)) :
    ∀ (l : List ι) (res : List Nat), l.foldlM FL res = (l.foldlM FA res.toArray >>= fun r => pure r.toList) := by
  intro l
  induction l with
  | nil => intro res; rfl
  | cons i tl ih =>
    intro res
    rw [List.foldlM_cons, List.foldlM_cons, hF]
    cases h : FL res i with
    | error e => rfl
    | ok r => simp only [gy_ok_bind, gy_pure_eq]; exact ih r

/-- `GaloisTool::apply` (generated; tool fields `coeff_count = 2^k`, `coeff_count_power = k`, result buffer zero-initialised) =
    `galoisApply` of the hand model.  `2^k ≤ operand.len()`: the code reads `operand[i]` for every `i < 2^k` (its guard is
    `i <= operand.len()`, so a SHORTER operand panics at `i = len` where the model reads 0); `2^k·g < 2^64`: `index_raw += galois_elt`
    is overflow-checked. -/
theorem gy_galois_apply_eq (a : List Nat) (g : Nat) (m : Modulus) (k : Nat) (hk : k < 64) (ha : 2^k ≤ a.length)
    (hg : 2^k * g < 2^64) :
    GenG.galois_apply a g m (List.replicate (2^k) 0) (2^k) k = (galoisApply k a.toArray g m >>= fun r => pure r.toList) := by
  unfold GenG.galois_apply galoisApply
  have hs : ckSub (2^k) 1 = .ok (2^k - 1) := by unfold ckSub; rw [if_pos Nat.one_le_two_pow]
  simp only [hs, gy_ok_bind]
  have h0 := gy_apply_loop_eq a g m k hk ha hg (2^k) 0 (List.replicate (2^k) 0) (by omega) (by simp)
  rw [Nat.zero_mul] at h0
  rw [h0, List.range_eq_range']
  rw [← List.toArray_replicate]
  refine gy_foldlM_transfer (gy_applyStep (2^k) a g m) _ ?_ (List.range' 0 (2^k)) (List.replicate (2^k) 0)
  intro res i
  have hget : a.toArray.getD i 0 = a.getD i 0 := by simp
  unfold gy_applyStep
  by_cases hodd : i * g / 2 ^ k % 2 = 1
  · simp only [hodd, if_true, hget]
    cases negateMod (a.getD i 0) m with
    | error e => rfl
    | ok v => simp only [gy_ok_bind, gy_pure_eq, List.setIfInBounds_toArray]
  · simp only [hodd, if_false, hget, gy_ok_bind, gy_pure_eq, List.setIfInBounds_toArray]
end HC
