/- C02 (task V): the evaluator operations of the MODEL (`ctNegate`, `ctTranslate`, `ctTranslateBalanced`, `ctMultiplyDyadic`,
   `bgvMultiply`, `ctMultiplyPlainNtt`) are the ring operations on phases — for canonical operands of ALL sizes. -/
import Heathcliff.Model.Evaluator
import Heathcliff.Proofs.C01J
import Heathcliff.Proofs.C01O
import Heathcliff.Proofs.C02K
import Mathlib.Algebra.BigOperators.Intervals
import Mathlib.Algebra.BigOperators.Ring.Finset
import Mathlib.Data.Int.ModEq
import Mathlib.Tactic.Ring
import Mathlib.Tactic.Linarith
namespace HC
open Finset

/-! ## Definitions -/

/-- residue `j` of RNS component `i` of polynomial `k` of a ciphertext -/
def Ct.res (ct : Ct) (k i j : Nat) : Nat := ((ct.polys.getD k #[]).getD i #[]).getD j 0

/-- every modulus of the level is a well-formed word modulus (2 ≤ q < 2^61 with its Barrett constants) -/
def c02v_QsWF (l : Level) : Prop := ∀ i, i < l.size → (l.q i).WF

theorem c02v_qsWF_of_levelWF {l : Level} (hl : l.WF) : c02v_QsWF l :=
  fun _ hi => (c01o_level_comp hl hi).2.2.2

/-- the correction factor is in the range `Ciphertext::is_valid_for` accepts -/
def c02v_cfOk (l : Level) (f : Nat) : Prop :=
  match l.scheme with
  | .bfv | .ckks => f = 1
  | .bgv => f ≠ 0 ∧ f ≤ l.t.value

/-- canonical ciphertext at level `l`: 2 ≤ size ≤ 16, every polynomial canonical, correction factor in range -/
structure CtCanon (l : Level) (ct : Ct) : Prop where
  two_le : 2 ≤ ct.polys.size
  le16 : ct.polys.size ≤ 16
  canon : ∀ k, k < ct.polys.size → RnsCanon l (ct.polys.getD k #[])
  cf : c02v_cfOk l ct.cf

/-- value of an RNS component under an assignment `e` of ring elements to the `n` positions
    (`e j = X^j`: the polynomial in coefficient form; `e j = δ_j`: the vector of NTT slots; `e = δ_{j0}`: one slot) -/
def c02v_polyVal {S : Type} [CommRing S] (e : Nat → S) (n : Nat) (p : Array Nat) : S :=
  ∑ j ∈ range n, ((p.getD j 0 : Nat) : S) * e j

/-- phase Σ_k c_k s^k of RNS component `i` of a ciphertext, in a commutative ring `S`, for the secret `s` -/
def c02v_phase {S : Type} [CommRing S] (l : Level) (ct : Ct) (i : Nat) (e : Nat → S) (s : S) : S :=
  ctPhase ct.polys.size (fun k => c02v_polyVal e l.n ((ct.polys.getD k #[]).getD i #[])) s

/-! ## Generic helpers -/

theorem c02v_mapM_ok {α β : Type} (P : α → β → Prop) (F : α → R β) :
    ∀ (xs : List α), (∀ x ∈ xs, ∃ y, F x = .ok y ∧ P x y) → ∃ ys, xs.mapM F = .ok ys ∧ List.Forall₂ P xs ys
  | [], _ => ⟨[], by simp [pure, Except.pure], List.Forall₂.nil⟩
  | a :: xs, h => by
    obtain ⟨y, hy, hp⟩ := h a (by simp)
    obtain ⟨ys, hys, hps⟩ := c02v_mapM_ok P F xs (fun x hx => h x (by simp [hx]))
    refine ⟨y :: ys, ?_, List.Forall₂.cons hp hps⟩
    rw [List.mapM_cons, hy, hys]
    rfl

theorem c02v_forall2_getD {α β : Type} {P : α → β → Prop} {xs : List α} {ys : List β} (h : List.Forall₂ P xs ys)
    (dx : α) (dy : β) {k : Nat} (hk : k < xs.length) : P (xs.getD k dx) (ys.getD k dy) := by
  have hl := h.length_eq
  have := List.forall₂_iff_get.mp h
  have h2 := this.2 k hk (by omega)
  simpa [List.getD, List.getElem?_eq_getElem hk, List.getElem?_eq_getElem (show k < ys.length by omega)] using h2

theorem c02v_toArray_getD {β : Type} (ys : List β) (k : Nat) (d : β) : ys.toArray.getD k d = ys.getD k d := by
  simp [Array.getD, List.getD]
  split <;> rename_i h
  · simp [List.getElem?_eq_getElem h]
  · simp [List.getElem?_eq_none (by omega : ys.length ≤ k)]

theorem c02v_toList_getD {β : Type} (a : Array β) (k : Nat) (d : β) : a.toList.getD k d = a.getD k d := by
  rw [← c02v_toArray_getD]

theorem c02v_mod_cast {S : Type} [CommRing S] {q : Nat} (hS : ((q : Nat) : S) = 0) (x : Nat) :
    (((x % q : Nat)) : S) = ((x : Nat) : S) := by
  conv_rhs => rw [← Nat.div_add_mod x q]
  push_cast
  rw [hS]; ring

/-! ## V1  negation -/

theorem c02v_rnsNeg_spec {l : Level} (hq : c02v_QsWF l) {a : RnsPoly} (ha : RnsCanon l a) :
    ∃ r, rnsNeg l a = .ok r ∧ RnsCanon l r ∧ ∀ i, i < l.size → ∀ j, j < l.n →
      (r.getD i #[]).getD j 0 = ((l.q i).value - (a.getD i #[]).getD j 0) % (l.q i).value := by
  have hok := c01o_foldlM_push (List.range l.size) (fun i => mapM' (a.getD i #[]) (fun x => negateMod x (l.q i)))
    (fun i => (a.getD i #[]).map (fun x => ((l.q i).value - x) % (l.q i).value))
    (fun i hi => by
      have hi := List.mem_range.mp hi
      apply mapM'_ok
      intro x hx
      apply negateMod_exact (hq i hi)
      have := mem_lt_of_getD (B := (l.q i).value) (fun j hj => (ha.2 i hi).2 j (by rw [← (ha.2 i hi).1]; exact hj)) x hx
      omega) #[]
  refine ⟨_, hok, ?_⟩
  have hget : ∀ i, i < l.size → (#[] ++ ((List.range l.size).map
      (fun i => (a.getD i #[]).map (fun x => ((l.q i).value - x) % (l.q i).value))).toArray).getD i #[]
        = (a.getD i #[]).map (fun x => ((l.q i).value - x) % (l.q i).value) := by
    intro i hi
    rw [Array.empty_append]
    exact getD_rangeMap' _ _ _ hi
  refine ⟨⟨by simp, fun i hi => ?_⟩, fun i hi j hj => ?_⟩
  · rw [hget i hi]
    refine ⟨by rw [Array.size_map]; exact (ha.2 i hi).1, fun j hj => ?_⟩
    rw [c10i_getD_map_lt _ _ (by rw [(ha.2 i hi).1]; exact hj)]
    exact Nat.mod_lt _ (by have := (hq i hi).two_le; omega)
  · rw [hget i hi, c10i_getD_map_lt _ _ (by rw [(ha.2 i hi).1]; exact hj)]

theorem c02v_polys_getD (ct : Ct) {k : Nat} (hk : k < ct.polys.size) (d : RnsPoly) :
    ct.polys.toList.getD k d = ct.polys.getD k #[] := by
  rw [c02v_toList_getD]
  simp [Array.getD, hk]

theorem c02v_neg_cast {S : Type} [CommRing S] {q : Nat} (hS : ((q : Nat) : S) = 0) {x : Nat} (hx : x ≤ q) :
    ((((q - x) % q : Nat)) : S) = - ((x : Nat) : S) := by
  rw [c02v_mod_cast hS, Nat.cast_sub hx, hS, zero_sub]

theorem c02v_polyVal_neg {S : Type} [CommRing S] {q n : Nat} (hS : ((q : Nat) : S) = 0) (e : Nat → S) {p r : Array Nat}
    (hp : ∀ j, j < n → p.getD j 0 < q) (hr : ∀ j, j < n → r.getD j 0 = (q - p.getD j 0) % q) :
    c02v_polyVal e n r = - c02v_polyVal e n p := by
  unfold c02v_polyVal
  rw [← Finset.sum_neg_distrib]
  refine Finset.sum_congr rfl (fun j hj => ?_)
  have hj := Finset.mem_range.mp hj
  rw [hr j hj, c02v_neg_cast hS (hp j hj).le]
  ring

/-! ## Property theorems -/

/-- V1 residues: `ctNegate` succeeds on a canonical ciphertext, keeps size / representation / correction factor, the result is
    canonical and every residue is `(q_i − x) mod q_i` -/
theorem ctNegate_spec {l : Level} (hq : c02v_QsWF l) {a : Ct} (ha : CtCanon l a) :
    ∃ r, ctNegate l a = .ok r ∧ CtCanon l r ∧ r.polys.size = a.polys.size ∧ r.ntt = a.ntt ∧ r.cf = a.cf ∧
      ∀ k, k < a.polys.size → ∀ i, i < l.size → ∀ j, j < l.n →
        r.res k i j = ((l.q i).value - a.res k i j) % (l.q i).value := by
  obtain ⟨ys, hys, hall⟩ := c02v_mapM_ok
    (fun (p r : RnsPoly) => RnsCanon l r ∧ ∀ i, i < l.size → ∀ j, j < l.n →
      (r.getD i #[]).getD j 0 = ((l.q i).value - (p.getD i #[]).getD j 0) % (l.q i).value)
    (fun p => rnsNeg l p) a.polys.toList (fun p hp => by
      obtain ⟨k, hk, rfl⟩ := List.mem_iff_getElem.mp hp
      have hk' : k < a.polys.size := by simpa using hk
      have hc := ha.canon k hk'
      have e : a.polys.getD k #[] = a.polys.toList[k] := by simp [Array.getD, hk']
      rw [e] at hc
      exact c02v_rnsNeg_spec hq hc)
  have hlen : ys.length = a.polys.size := by rw [← hall.length_eq]; simp
  have hk : ∀ k, k < a.polys.size → RnsCanon l (ys.toArray.getD k #[]) ∧ ∀ i, i < l.size → ∀ j, j < l.n →
      ((ys.toArray.getD k #[]).getD i #[]).getD j 0
        = ((l.q i).value - ((a.polys.getD k #[]).getD i #[]).getD j 0) % (l.q i).value := by
    intro k hk
    have := c02v_forall2_getD hall #[] #[] (k := k) (by simpa using hk)
    rw [c02v_polys_getD a hk, ← c02v_toArray_getD] at this
    exact this
  refine ⟨{ a with polys := ys.toArray }, ?_, ⟨?_, ?_, ?_, ha.cf⟩, ?_, rfl, rfl, ?_⟩
  · unfold ctNegate
    rw [hys]; rfl
  · simpa [hlen] using ha.two_le
  · simpa [hlen] using ha.le16
  · intro k hk'
    exact (hk k (by simpa [hlen] using hk')).1
  · simp [hlen]
  · intro k hk' i hi j hj
    exact (hk k hk').2 i hi j hj

/-- V1 phase: in every commutative ring in which `q_i = 0`, for every secret `s` (and every reading `e` of the positions),
    the phase Σ_k c_k s^k of component `i` is negated -/
theorem ctNegate_phase {S : Type} [CommRing S] {l : Level} (hq : c02v_QsWF l) {a r : Ct} (ha : CtCanon l a)
    (hr : ctNegate l a = .ok r) {i : Nat} (hi : i < l.size) (hS : (((l.q i).value : Nat) : S) = 0) (e : Nat → S) (s : S) :
    c02v_phase l r i e s = - c02v_phase l a i e s := by
  obtain ⟨r', hr', _, hsz, _, _, hres⟩ := ctNegate_spec hq ha
  rw [hr] at hr'
  obtain rfl := Except.ok.inj hr'
  unfold c02v_phase
  rw [hsz, ← negate_phase]
  unfold ctPhase
  refine Finset.sum_congr rfl (fun k hk => ?_)
  have hk := Finset.mem_range.mp hk
  beta_reduce
  rw [c02v_polyVal_neg hS e (fun j hj => ((ha.canon k hk).2 i hi).2 j hj) (fun j hj => hres k hk i hi j hj)]

end HC
