/- C02 (task V): the evaluator operations of the MODEL (`ctNegate`, `ctTranslate`, `ctTranslateBalanced`, `ctMultiplyDyadic`,
   `bgvMultiply`, `ctMultiplyPlainNtt`) are the ring operations on phases — for canonical operands of ALL sizes 2..16
   (no enumeration of sizes: the proofs follow the `mapM` / `foldlM` structure of the model).
   For each operation: `_spec` (success, shape, canonicity, every residue), `_phase` (the phase Σ_k c_k s^k in ANY commutative
   ring in which q_i = 0, any secret s, any reading `e` of the positions), refusals; for the product also the coefficient form
   (`ctMultiplyDyadic_coeff`, negacyclic products via the NTT theorems of C09) and for BGV the correction factors and decoding.
   Helper names carry the prefix `c02v_`; the user-facing theorems are at the end under "Property theorems". -/
import Heathcliff.Model.Evaluator
import Heathcliff.Proofs.C01J
import Heathcliff.Proofs.C01O
import Heathcliff.Proofs.C02K
import Mathlib.Algebra.BigOperators.Intervals
import Mathlib.Algebra.BigOperators.Ring.Finset
import Mathlib.Data.Int.ModEq
import Mathlib.Tactic.Ring
import Mathlib.Tactic.Linarith
import Mathlib.Tactic.IntervalCases
namespace HC
open Finset

/-! ## Definitions -/

/-- residue `j` of RNS component `i` of polynomial `k` of a ciphertext -/
def Ct.c02v_res (ct : Ct) (k i j : Nat) : Nat := ((ct.polys.getD k #[]).getD i #[]).getD j 0

/-- every modulus of the level is a well-formed word modulus (2 ≤ q < 2^61 with its Barrett constants) -/
def c02v_QsWF (l : Level) : Prop := ∀ i, i < l.size → (l.q i).WF

theorem c02v_qsWF_of_levelWF {l : Level} (hl : l.WF) : c02v_QsWF l :=
  fun _ hi => (c01o_level_comp hl hi).2.2.2

/-- the correction factor is in the range `Ciphertext::is_valid_for` accepts -/
def c02v_cfOk (l : Level) (f : Nat) : Prop :=
  match l.scheme with
  | .bfv | .ckks => f = 1
  | .bgv => f ≠ 0 ∧ f < l.t.value

/-- the polynomial part of canonicity: 2 ≤ size ≤ 16 and every polynomial canonical at level `l` -/
structure c02v_PolysCanon (l : Level) (ct : Ct) : Prop where
  two_le : 2 ≤ ct.polys.size
  le16 : ct.polys.size ≤ 16
  canon : ∀ k, k < ct.polys.size → RnsCanon l (ct.polys.getD k #[])

/-- canonical ciphertext at level `l`: 2 ≤ size ≤ 16, every polynomial canonical, correction factor in range -/
structure CtCanon (l : Level) (ct : Ct) : Prop extends c02v_PolysCanon l ct where
  cf : c02v_cfOk l ct.cf

/-- value of an RNS component under an assignment `e` of ring elements to the `n` positions
    (`e j = X^j`: the polynomial in coefficient form; `e j = δ_j`: the vector of NTT slots; `e = δ_{j0}`: one slot) -/
def c02v_polyVal {S : Type} [CommRing S] (e : Nat → S) (n : Nat) (p : Array Nat) : S :=
  ∑ j ∈ range n, ((p.getD j 0 : Nat) : S) * e j

/-- phase Σ_k c_k s^k of RNS component `i` of a ciphertext, in a commutative ring `S`, for the secret `s` -/
def c02v_phase {S : Type} [CommRing S] (l : Level) (ct : Ct) (i : Nat) (e : Nat → S) (s : S) : S :=
  ctPhase ct.polys.size (fun k => c02v_polyVal e l.n ((ct.polys.getD k #[]).getD i #[])) s

/-! ## Generic helpers -/

theorem c02v_mapM_ok {α β : Type} (P : α → β → Prop) (F : α → R β) :
    ∀ (xs : List α), (∀ x ∈ xs, ∃ y, F x = .ok y ∧ P x y) → ∃ ys, xs.mapM F = .ok ys ∧ List.Forall₂ P xs ys
  | [], _ => ⟨[], by simp [pure, Except.pure], List.Forall₂.nil⟩
  | a :: xs, h => by
    obtain ⟨y, hy, hp⟩ := h a (by simp)
    obtain ⟨ys, hys, hps⟩ := c02v_mapM_ok P F xs (fun x hx => h x (by simp [hx]))
    refine ⟨y :: ys, ?_, List.Forall₂.cons hp hps⟩
    rw [List.mapM_cons, hy, hys]
    rfl

theorem c02v_forall2_getD {α β : Type} {P : α → β → Prop} {xs : List α} {ys : List β} (h : List.Forall₂ P xs ys)
    (dx : α) (dy : β) {k : Nat} (hk : k < xs.length) : P (xs.getD k dx) (ys.getD k dy) := by
  have hl := h.length_eq
  have := List.forall₂_iff_get.mp h
  have h2 := this.2 k hk (by omega)
  simpa [List.getD, List.getElem?_eq_getElem hk, List.getElem?_eq_getElem (show k < ys.length by omega)] using h2

theorem c02v_toArray_getD {β : Type} (ys : List β) (k : Nat) (d : β) : ys.toArray.getD k d = ys.getD k d := by
  simp [Array.getD, List.getD]
  split <;> rename_i h
  · simp [List.getElem?_eq_getElem h]
  · simp [List.getElem?_eq_none (by omega : ys.length ≤ k)]

theorem c02v_toList_getD {β : Type} (a : Array β) (k : Nat) (d : β) : a.toList.getD k d = a.getD k d := by
  rw [← c02v_toArray_getD]

theorem c02v_mod_cast {S : Type} [CommRing S] {q : Nat} (hS : ((q : Nat) : S) = 0) (x : Nat) :
    (((x % q : Nat)) : S) = ((x : Nat) : S) := by
  conv_rhs => rw [← Nat.div_add_mod x q]
  push_cast
  rw [hS]; ring

/-! ## V1  negation -/

theorem c02v_rnsNeg_spec {l : Level} (hq : c02v_QsWF l) {a : RnsPoly} (ha : RnsCanon l a) :
    ∃ r, rnsNeg l a = .ok r ∧ RnsCanon l r ∧ ∀ i, i < l.size → ∀ j, j < l.n →
      (r.getD i #[]).getD j 0 = ((l.q i).value - (a.getD i #[]).getD j 0) % (l.q i).value := by
  have hok := c01o_foldlM_push (List.range l.size) (fun i => mapM' (a.getD i #[]) (fun x => negateMod x (l.q i)))
    (fun i => (a.getD i #[]).map (fun x => ((l.q i).value - x) % (l.q i).value))
    (fun i hi => by
      have hi := List.mem_range.mp hi
      apply mapM'_ok
      intro x hx
      apply negateMod_exact (hq i hi)
      have := mem_lt_of_getD (B := (l.q i).value) (fun j hj => (ha.2 i hi).2 j (by rw [← (ha.2 i hi).1]; exact hj)) x hx
      omega) #[]
  refine ⟨_, hok, ?_⟩
  have hget : ∀ i, i < l.size → (#[] ++ ((List.range l.size).map
      (fun i => (a.getD i #[]).map (fun x => ((l.q i).value - x) % (l.q i).value))).toArray).getD i #[]
        = (a.getD i #[]).map (fun x => ((l.q i).value - x) % (l.q i).value) := by
    intro i hi
    rw [Array.empty_append]
    exact getD_rangeMap' _ _ _ hi
  refine ⟨⟨by simp, fun i hi => ?_⟩, fun i hi j hj => ?_⟩
  · rw [hget i hi]
    refine ⟨by rw [Array.size_map]; exact (ha.2 i hi).1, fun j hj => ?_⟩
    rw [c10i_getD_map_lt _ _ (by rw [(ha.2 i hi).1]; exact hj)]
    exact Nat.mod_lt _ (by have := (hq i hi).two_le; omega)
  · rw [hget i hi, c10i_getD_map_lt _ _ (by rw [(ha.2 i hi).1]; exact hj)]

theorem c02v_polys_getD (ct : Ct) {k : Nat} (hk : k < ct.polys.size) (d : RnsPoly) :
    ct.polys.toList.getD k d = ct.polys.getD k #[] := by
  rw [c02v_toList_getD]
  simp [Array.getD, hk]

theorem c02v_neg_cast {S : Type} [CommRing S] {q : Nat} (hS : ((q : Nat) : S) = 0) {x : Nat} (hx : x ≤ q) :
    ((((q - x) % q : Nat)) : S) = - ((x : Nat) : S) := by
  rw [c02v_mod_cast hS, Nat.cast_sub hx, hS, zero_sub]

theorem c02v_polyVal_neg {S : Type} [CommRing S] {q n : Nat} (hS : ((q : Nat) : S) = 0) (e : Nat → S) {p r : Array Nat}
    (hp : ∀ j, j < n → p.getD j 0 < q) (hr : ∀ j, j < n → r.getD j 0 = (q - p.getD j 0) % q) :
    c02v_polyVal e n r = - c02v_polyVal e n p := by
  unfold c02v_polyVal
  rw [← Finset.sum_neg_distrib]
  refine Finset.sum_congr rfl (fun j hj => ?_)
  have hj := Finset.mem_range.mp hj
  rw [hr j hj, c02v_neg_cast hS (hp j hj).le]
  ring

/-! ## V2  add / sub -/

theorem c02v_rnsZip_spec {l : Level} {f : Nat → Nat → Modulus → R Nat} (g : Nat → Nat → Nat → Nat)
    (hf : ∀ i, i < l.size → ∀ x y, x < (l.q i).value → y < (l.q i).value → f x y (l.q i) = .ok (g i x y))
    (hg : ∀ i, i < l.size → ∀ x y, x < (l.q i).value → y < (l.q i).value → g i x y < (l.q i).value)
    {a b : RnsPoly} (ha : RnsCanon l a) (hb : RnsCanon l b) :
    ∃ r, rnsZip l a b f = .ok r ∧ RnsCanon l r ∧ ∀ i, i < l.size → ∀ j, j < l.n →
      (r.getD i #[]).getD j 0 = g i ((a.getD i #[]).getD j 0) ((b.getD i #[]).getD j 0) := by
  refine ⟨_, c01o_rnsZip_ok g (fun i hi j hj => ?_), ⟨c01o_zipVal_size _ _ _ _, fun i hi => ⟨?_, fun j hj => ?_⟩⟩,
    fun i hi j hj => ?_⟩
  · rw [(ha.2 i hi).1] at hj
    exact hf i hi _ _ ((ha.2 i hi).2 j hj) ((hb.2 i hi).2 j hj)
  · rw [c01o_zipVal_comp_size _ _ _ _ hi]; exact (ha.2 i hi).1
  · rw [c01o_zipVal_coeff _ _ _ _ hi (by rw [(ha.2 i hi).1]; exact hj)]
    exact hg i hi _ _ ((ha.2 i hi).2 j hj) ((hb.2 i hi).2 j hj)
  · rw [c01o_zipVal_coeff _ _ _ _ hi (by rw [(ha.2 i hi).1]; exact hj)]

theorem c02v_rnsAdd_spec {l : Level} (hq : c02v_QsWF l) {a b : RnsPoly} (ha : RnsCanon l a) (hb : RnsCanon l b) :
    ∃ r, rnsAdd l a b = .ok r ∧ RnsCanon l r ∧ ∀ i, i < l.size → ∀ j, j < l.n →
      (r.getD i #[]).getD j 0 = ((a.getD i #[]).getD j 0 + (b.getD i #[]).getD j 0) % (l.q i).value :=
  c02v_rnsZip_spec (fun i x y => (x + y) % (l.q i).value)
    (fun i hi _ _ hx hy => addMod_exact (hq i hi) hx hy)
    (fun i hi _ _ _ _ => Nat.mod_lt _ (by have := (hq i hi).two_le; omega)) ha hb

theorem c02v_rnsSub_spec {l : Level} (hq : c02v_QsWF l) {a b : RnsPoly} (ha : RnsCanon l a) (hb : RnsCanon l b) :
    ∃ r, rnsSub l a b = .ok r ∧ RnsCanon l r ∧ ∀ i, i < l.size → ∀ j, j < l.n →
      (r.getD i #[]).getD j 0 = ((a.getD i #[]).getD j 0 + (l.q i).value - (b.getD i #[]).getD j 0) % (l.q i).value :=
  c02v_rnsZip_spec (fun i x y => (x + (l.q i).value - y) % (l.q i).value)
    (fun i hi _ _ hx hy => subMod_exact (hq i hi) hx hy)
    (fun i hi _ _ _ _ => Nat.mod_lt _ (by have := (hq i hi).two_le; omega)) ha hb

theorem c02v_rnsDyadic_spec {l : Level} (hq : c02v_QsWF l) {a b : RnsPoly} (ha : RnsCanon l a) (hb : RnsCanon l b) :
    ∃ r, rnsDyadic l a b = .ok r ∧ RnsCanon l r ∧ ∀ i, i < l.size → ∀ j, j < l.n →
      (r.getD i #[]).getD j 0 = ((a.getD i #[]).getD j 0 * (b.getD i #[]).getD j 0) % (l.q i).value :=
  c02v_rnsZip_spec (fun i x y => (x * y) % (l.q i).value)
    (fun i hi _ _ hx hy => mulMod_exact (hq i hi) (by have := (hq i hi).lt; omega) (by have := (hq i hi).lt; omega))
    (fun i hi _ _ _ _ => Nat.mod_lt _ (by have := (hq i hi).two_le; omega)) ha hb

/-- residue (i, j) of the result polynomial described by one term of `translateShape` -/
def c02v_trRes (l : Level) (a b : Ct) (sub : Bool) : TrTerm → Nat → Nat → Nat
  | .both k, i, j => if sub then (a.c02v_res k i j + (l.q i).value - b.c02v_res k i j) % (l.q i).value
                     else (a.c02v_res k i j + b.c02v_res k i j) % (l.q i).value
  | .left k, i, j => a.c02v_res k i j
  | .right k, i, j => if sub then ((l.q i).value - b.c02v_res k i j) % (l.q i).value else b.c02v_res k i j

/-- the term of `translateShape` at position k -/
def c02v_trTerm (n1 n2 k : Nat) : TrTerm :=
  if k < min n1 n2 then .both k else if n1 > n2 then .left k else .right k

theorem c02v_shape_getD (n1 n2 : Nat) {k : Nat} (hk : k < max n1 n2) (d : TrTerm) :
    (translateShape n1 n2).getD k d = c02v_trTerm n1 n2 k := by
  unfold translateShape c02v_trTerm
  rw [List.getD_eq_getElem?_getD, List.getElem?_eq_getElem (by simpa using hk), Option.getD_some]
  simp only [List.getElem_map, List.getElem_range]

theorem c02v_shape_len (n1 n2 : Nat) : (translateShape n1 n2).length = max n1 n2 := by
  simp [translateShape]

/-- the per-term step of `ctTranslate` succeeds with a canonical polynomial with the residues of `c02v_trRes` -/
theorem c02v_tr_step {l : Level} (hq : c02v_QsWF l) {a b : Ct} (ha : c02v_PolysCanon l a) (hb : c02v_PolysCanon l b) (sub : Bool)
    {k : Nat} (hk : k < max a.polys.size b.polys.size) :
    ∃ y, (match c02v_trTerm a.polys.size b.polys.size k with
        | .both i => if sub then rnsSub l (a.polys.getD i #[]) (b.polys.getD i #[]) else rnsAdd l (a.polys.getD i #[]) (b.polys.getD i #[])
        | .left i => pure (a.polys.getD i #[])
        | .right i => if sub then rnsNeg l (b.polys.getD i #[]) else pure (b.polys.getD i #[])) = Except.ok y ∧
      RnsCanon l y ∧ ∀ i, i < l.size → ∀ j, j < l.n →
        (y.getD i #[]).getD j 0 = c02v_trRes l a b sub (c02v_trTerm a.polys.size b.polys.size k) i j := by
  unfold c02v_trTerm
  by_cases h1 : k < min a.polys.size b.polys.size
  · rw [if_pos h1]
    have ca := ha.canon k (by omega)
    have cb := hb.canon k (by omega)
    cases sub
    · obtain ⟨y, h, c, v⟩ := c02v_rnsAdd_spec hq ca cb
      exact ⟨y, by simpa using h, c, fun i hi j hj => by simpa [c02v_trRes, Ct.c02v_res] using v i hi j hj⟩
    · obtain ⟨y, h, c, v⟩ := c02v_rnsSub_spec hq ca cb
      exact ⟨y, by simpa using h, c, fun i hi j hj => by simpa [c02v_trRes, Ct.c02v_res] using v i hi j hj⟩
  · rw [if_neg h1]
    by_cases h2 : a.polys.size > b.polys.size
    · rw [if_pos h2]
      exact ⟨_, rfl, ha.canon k (by omega), fun i hi j hj => rfl⟩
    · rw [if_neg h2]
      have cb := hb.canon k (by omega)
      cases sub
      · exact ⟨_, rfl, cb, fun i hi j hj => by simp [c02v_trRes, Ct.c02v_res]⟩
      · obtain ⟨y, h, c, v⟩ := c02v_rnsNeg_spec hq cb
        exact ⟨y, by simpa using h, c, fun i hi j hj => by simpa [c02v_trRes, Ct.c02v_res] using v i hi j hj⟩


theorem c02v_polyVal_congr {S : Type} [CommRing S] {n : Nat} (e : Nat → S) {p r : Array Nat}
    (hr : ∀ j, j < n → r.getD j 0 = p.getD j 0) : c02v_polyVal e n r = c02v_polyVal e n p := by
  unfold c02v_polyVal
  exact Finset.sum_congr rfl (fun j hj => by rw [hr j (Finset.mem_range.mp hj)])

theorem c02v_polyVal_add {S : Type} [CommRing S] {q n : Nat} (hS : ((q : Nat) : S) = 0) (e : Nat → S) {p p' r : Array Nat}
    (hr : ∀ j, j < n → r.getD j 0 = (p.getD j 0 + p'.getD j 0) % q) :
    c02v_polyVal e n r = c02v_polyVal e n p + c02v_polyVal e n p' := by
  unfold c02v_polyVal
  rw [← Finset.sum_add_distrib]
  refine Finset.sum_congr rfl (fun j hj => ?_)
  rw [hr j (Finset.mem_range.mp hj), c02v_mod_cast hS]
  push_cast; ring

theorem c02v_polyVal_sub {S : Type} [CommRing S] {q n : Nat} (hS : ((q : Nat) : S) = 0) (e : Nat → S) {p p' r : Array Nat}
    (hp' : ∀ j, j < n → p'.getD j 0 < q)
    (hr : ∀ j, j < n → r.getD j 0 = (p.getD j 0 + q - p'.getD j 0) % q) :
    c02v_polyVal e n r = c02v_polyVal e n p - c02v_polyVal e n p' := by
  unfold c02v_polyVal
  rw [← Finset.sum_sub_distrib]
  refine Finset.sum_congr rfl (fun j hj => ?_)
  have hj := Finset.mem_range.mp hj
  rw [hr j hj, c02v_mod_cast hS, Nat.cast_sub (by have := hp' j hj; omega)]
  push_cast; rw [hS]; ring


/-! ## V3  dyadic product -/

theorem c02v_rnsZero_spec {l : Level} (hq : c02v_QsWF l) :
    RnsCanon l (rnsZero l) ∧ ∀ i, i < l.size → ∀ j, j < l.n → ((rnsZero l).getD i #[]).getD j 0 = 0 := by
  have hget : ∀ i, i < l.size → (rnsZero l).getD i #[] = Array.replicate l.n 0 := by
    intro i hi; simp [rnsZero, Array.getD, hi]
  have hget2 : ∀ j, j < l.n → (Array.replicate l.n 0).getD j 0 = 0 := by
    intro j hj; simp [Array.getD, hj]
  refine ⟨⟨by simp [rnsZero], fun i hi => ⟨by rw [hget i hi]; simp, fun j hj => ?_⟩⟩, fun i hi j hj => ?_⟩
  · rw [hget i hi, hget2 j hj]; have := (hq i hi).two_le; omega
  · rw [hget i hi, hget2 j hj]

/-- the accumulation loop of one output polynomial: Σ over the visited pairs of dyadic products, reduced -/
theorem c02v_mulFold {l : Level} (hq : c02v_QsWF l) {a b : Ct}
    (ha : ∀ k, k < a.polys.size → RnsCanon l (a.polys.getD k #[])) (hb : ∀ k, k < b.polys.size → RnsCanon l (b.polys.getD k #[])) :
    ∀ (ps : List (Nat × Nat)) (acc : RnsPoly), RnsCanon l acc → (∀ p ∈ ps, p.1 < a.polys.size ∧ p.2 < b.polys.size) →
    ∃ r, ps.foldlM (fun acc p => do
        let pr ← rnsDyadic l (a.polys.getD p.1 #[]) (b.polys.getD p.2 #[])
        rnsAdd l acc pr) acc = .ok r ∧ RnsCanon l r ∧ ∀ i, i < l.size → ∀ j, j < l.n →
      (r.getD i #[]).getD j 0
        = ((acc.getD i #[]).getD j 0 + (ps.map (fun p => a.c02v_res p.1 i j * b.c02v_res p.2 i j)).sum) % (l.q i).value := by
  intro ps
  induction ps with
  | nil =>
    intro acc hacc _
    refine ⟨acc, rfl, hacc, fun i hi j hj => ?_⟩
    simp only [List.map_nil, List.sum_nil, Nat.add_zero]
    exact (Nat.mod_eq_of_lt ((hacc.2 i hi).2 j hj)).symm
  | cons p ps ih =>
    intro acc hacc hmem
    obtain ⟨h1, h2⟩ := hmem p (by simp)
    obtain ⟨pr, hpr, cpr, vpr⟩ := c02v_rnsDyadic_spec hq (ha _ h1) (hb _ h2)
    obtain ⟨acc', hacc', cacc', vacc'⟩ := c02v_rnsAdd_spec hq hacc cpr
    obtain ⟨r, hr, cr, vr⟩ := ih acc' cacc' (fun p' hp' => hmem p' (by simp [hp']))
    refine ⟨r, ?_, cr, fun i hi j hj => ?_⟩
    · rw [List.foldlM_cons, hpr]
      simp only [bind, Except.bind]
      rw [hacc']
      exact hr
    · rw [vr i hi j hj, vacc' i hi j hj, vpr i hi j hj]
      simp only [List.map_cons, List.sum_cons]
      unfold Ct.c02v_res
      rw [Nat.mod_add_mod, Nat.add_assoc, Nat.add_comm ((acc.getD i #[]).getD j 0), Nat.add_assoc, Nat.mod_add_mod]
      congr 1
      omega

theorem c02v_polyVal_mul {S : Type} [CommRing S] (e : Nat → S) {n : Nat}
    (he : ∀ j j', j < n → j' < n → e j * e j' = if j = j' then e j else 0) (x y : Array Nat) :
    ∑ j ∈ range n, (((x.getD j 0 : Nat) : S) * ((y.getD j 0 : Nat) : S)) * e j = c02v_polyVal e n x * c02v_polyVal e n y := by
  unfold c02v_polyVal
  rw [Finset.sum_mul_sum]
  refine Finset.sum_congr rfl (fun j hj => ?_)
  have hj' := Finset.mem_range.mp hj
  have : ∀ j' ∈ range n, ((x.getD j 0 : Nat) : S) * e j * (((y.getD j' 0 : Nat) : S) * e j')
      = if j = j' then ((x.getD j 0 : Nat) : S) * ((y.getD j' 0 : Nat) : S) * e j else 0 := by
    intro j' hj2
    have := he j j' hj' (Finset.mem_range.mp hj2)
    split
    · rename_i h; rw [if_pos h] at this
      calc _ = ((x.getD j 0 : Nat) : S) * ((y.getD j' 0 : Nat) : S) * (e j * e j') := by ring
        _ = _ := by rw [this]
    · rename_i h; rw [if_neg h] at this
      calc _ = ((x.getD j 0 : Nat) : S) * ((y.getD j' 0 : Nat) : S) * (e j * e j') := by ring
        _ = _ := by rw [this]; ring
  rw [Finset.sum_congr rfl this, Finset.sum_ite_eq, if_pos hj]

theorem c02v_sum_list {S : Type} [CommRing S] (n : Nat) (F : Nat × Nat → Nat → S) :
    ∀ ps : List (Nat × Nat), ∑ j ∈ range n, (ps.map (fun p => F p j)).sum = (ps.map (fun p => ∑ j ∈ range n, F p j)).sum
  | [] => by simp
  | p :: ps => by
    simp only [List.map_cons, List.sum_cons, Finset.sum_add_distrib, c02v_sum_list n F ps]

/-- an RNS component whose residues are the reduced sums of position-wise products has the value Σ (value · value) -/
theorem c02v_polyVal_mulsum {S : Type} [CommRing S] {q n : Nat} (hS : ((q : Nat) : S) = 0) (e : Nat → S)
    (he : ∀ j j', j < n → j' < n → e j * e j' = if j = j' then e j else 0)
    (X Y : Nat → Array Nat) (ps : List (Nat × Nat)) {r : Array Nat}
    (hr : ∀ j, j < n → r.getD j 0 = (ps.map (fun p => (X p.1).getD j 0 * (Y p.2).getD j 0)).sum % q) :
    c02v_polyVal e n r = (ps.map (fun p => c02v_polyVal e n (X p.1) * c02v_polyVal e n (Y p.2))).sum := by
  have h1 : c02v_polyVal e n r = ∑ j ∈ range n,
      (ps.map (fun p => (((X p.1).getD j 0 : Nat) : S) * (((Y p.2).getD j 0 : Nat) : S) * e j)).sum := by
    unfold c02v_polyVal
    refine Finset.sum_congr rfl (fun j hj => ?_)
    rw [hr j (Finset.mem_range.mp hj), c02v_mod_cast hS, Nat.cast_list_sum, List.map_map,
      ← List.sum_map_mul_right]
    congr 1
    apply List.map_congr_left
    intro p _
    simp only [Function.comp, Nat.cast_mul]
  rw [h1, c02v_sum_list n (fun p j => (((X p.1).getD j 0 : Nat) : S) * (((Y p.2).getD j 0 : Nat) : S) * e j) ps]
  congr 1
  apply List.map_congr_left
  intro p _
  exact c02v_polyVal_mul e he _ _


/-- core of V2 (polynomial part only): `ctTranslate` (add / sub of canonical ciphertexts of ANY two sizes, same representation and correction factor)
    succeeds; the result has size max(n1, n2), is canonical, and polynomial k is `a_k ± b_k` where both exist, `a_k` beyond the
    size of b, and `b_k` resp. `−b_k` (subtraction) beyond the size of a -/
theorem c02v_ctTranslate_core {l : Level} (hq : c02v_QsWF l) {a b : Ct} (ha : c02v_PolysCanon l a) (hb : c02v_PolysCanon l b) (sub : Bool)
    (hntt : a.ntt = b.ntt) (hcf : a.cf = b.cf) :
    ∃ r, ctTranslate l a b sub = .ok r ∧ c02v_PolysCanon l r ∧ r.polys.size = max a.polys.size b.polys.size ∧
      r.ntt = a.ntt ∧ r.cf = a.cf ∧
      ∀ k, k < max a.polys.size b.polys.size → ∀ i, i < l.size → ∀ j, j < l.n →
        r.c02v_res k i j =
          if k < a.polys.size ∧ k < b.polys.size then
            (if sub then (a.c02v_res k i j + (l.q i).value - b.c02v_res k i j) % (l.q i).value
             else (a.c02v_res k i j + b.c02v_res k i j) % (l.q i).value)
          else if k < a.polys.size then a.c02v_res k i j
          else (if sub then ((l.q i).value - b.c02v_res k i j) % (l.q i).value else b.c02v_res k i j) := by
  obtain ⟨ys, hys, hall⟩ := c02v_mapM_ok
    (fun (t : TrTerm) (y : RnsPoly) => RnsCanon l y ∧ ∀ i, i < l.size → ∀ j, j < l.n →
      (y.getD i #[]).getD j 0 = c02v_trRes l a b sub t i j)
    (fun t => match t with
      | .both i => if sub then rnsSub l (a.polys.getD i #[]) (b.polys.getD i #[]) else rnsAdd l (a.polys.getD i #[]) (b.polys.getD i #[])
      | .left i => pure (a.polys.getD i #[])
      | .right i => if sub then rnsNeg l (b.polys.getD i #[]) else pure (b.polys.getD i #[]))
    (translateShape a.polys.size b.polys.size) (fun t ht => by
      obtain ⟨k, hk, rfl⟩ := List.mem_iff_getElem.mp ht
      rw [c02v_shape_len] at hk
      have e := c02v_shape_getD a.polys.size b.polys.size hk (.both 0)
      rw [List.getD_eq_getElem?_getD, List.getElem?_eq_getElem (by rw [c02v_shape_len]; exact hk), Option.getD_some] at e
      rw [e]
      exact c02v_tr_step hq ha hb sub hk)
  have hlen : ys.length = max a.polys.size b.polys.size := by rw [← hall.length_eq, c02v_shape_len]
  have hk : ∀ k, k < max a.polys.size b.polys.size → RnsCanon l (ys.toArray.getD k #[]) ∧ ∀ i, i < l.size → ∀ j, j < l.n →
      ((ys.toArray.getD k #[]).getD i #[]).getD j 0
        = c02v_trRes l a b sub (c02v_trTerm a.polys.size b.polys.size k) i j := by
    intro k hk
    have := c02v_forall2_getD hall (.both 0) #[] (k := k) (by rw [c02v_shape_len]; exact hk)
    rw [c02v_shape_getD _ _ hk, ← c02v_toArray_getD] at this
    exact this
  have h2a := ha.two_le; have h2b := hb.two_le; have h16a := ha.le16; have h16b := hb.le16
  refine ⟨{ a with polys := ys.toArray }, ?_, ⟨?_, ?_, ?_⟩, ?_, rfl, rfl, ?_⟩
  · unfold ctTranslate
    rw [if_neg (not_not.mpr hntt), if_neg (not_not.mpr hcf)]
    erw [hys]; rfl
  · simp only [List.size_toArray, hlen]; omega
  · simp only [List.size_toArray, hlen]; omega
  · intro k hk'
    exact (hk k (by simpa [hlen] using hk')).1
  · simp [hlen]
  · intro k hk' i hi j hj
    have := (hk k hk').2 i hi j hj
    unfold Ct.c02v_res
    rw [this]
    unfold c02v_trTerm
    by_cases h1 : k < a.polys.size <;> by_cases h2 : k < b.polys.size
    · rw [if_pos (by omega), if_pos ⟨h1, h2⟩]; rfl
    · rw [if_neg (by omega), if_pos (by omega), if_neg (by tauto), if_pos h1]; rfl
    · rw [if_neg (by omega), if_neg (by omega), if_neg (by tauto), if_neg h1]; rfl
    · omega


/-- V2 refusals: operands in different representations are refused; different correction factors are not handled by
    `ctTranslate` (they go through `ctTranslateBalanced`) -/
theorem c02v_ctTranslate_refuse_ntt (l : Level) (a b : Ct) (sub : Bool) (h : a.ntt ≠ b.ntt) :
    ctTranslate l a b sub = .error .refused := by
  unfold ctTranslate
  rw [if_pos h]

theorem c02v_ctTranslate_error_cf (l : Level) (a b : Ct) (sub : Bool) (h : a.ntt = b.ntt) (hcf : a.cf ≠ b.cf) :
    ctTranslate l a b sub = .error .other := by
  unfold ctTranslate
  rw [if_neg (not_not.mpr h), if_pos hcf]

/-- core of the V2 phase theorem: in every commutative ring in which `q_i = 0`, the phase of the result of `ctTranslate` is the sum resp. difference
    of the phases — for all pairs of sizes (this is `translate_phase` of C02K instantiated with the model's output) -/
theorem c02v_ctTranslate_phase_core {S : Type} [CommRing S] {l : Level} (hq : c02v_QsWF l) {a b r : Ct} (ha : c02v_PolysCanon l a)
    (hb : c02v_PolysCanon l b) {sub : Bool} (hr : ctTranslate l a b sub = .ok r)
    {i : Nat} (hi : i < l.size) (hS : (((l.q i).value : Nat) : S) = 0) (e : Nat → S) (s : S) :
    c02v_phase l r i e s = if sub then c02v_phase l a i e s - c02v_phase l b i e s
      else c02v_phase l a i e s + c02v_phase l b i e s := by
  have hntt : a.ntt = b.ntt := by
    by_contra h; rw [c02v_ctTranslate_refuse_ntt l a b sub h] at hr; cases hr
  have hcf : a.cf = b.cf := by
    by_contra h; rw [c02v_ctTranslate_error_cf l a b sub hntt h] at hr; cases hr
  obtain ⟨r', hr', _, hsz, _, _, hres⟩ := c02v_ctTranslate_core hq ha hb sub hntt hcf
  rw [hr] at hr'
  obtain rfl := Except.ok.inj hr'
  unfold c02v_phase
  rw [hsz, ← translate_phase]
  unfold ctPhase
  refine Finset.sum_congr rfl (fun k hk => ?_)
  have hk := Finset.mem_range.mp hk
  beta_reduce
  rw [c02k_tr_getD _ _ _ _ _ hk]
  congr 1
  have hres' := fun j hj => hres k hk i hi j hj
  unfold Ct.c02v_res at hres'
  by_cases h1 : k < a.polys.size <;> by_cases h2 : k < b.polys.size
  · simp only [h1, h2, and_self, if_true] at hres' ⊢
    cases sub
    · simp only [Bool.false_eq_true, if_false] at hres' ⊢
      exact c02v_polyVal_add hS e hres'
    · simp only [if_true] at hres' ⊢
      rw [c02v_polyVal_sub hS e (fun j hj => ((hb.canon k h2).2 i hi).2 j hj) hres']; ring
  · simp only [h1, h2, and_false, if_true, if_false] at hres' ⊢
    rw [c02v_polyVal_congr e hres']
    cases sub <;> simp
  · simp only [h1, h2, false_and, if_true, if_false] at hres' ⊢
    cases sub
    · simp only [Bool.false_eq_true, if_false] at hres' ⊢
      rw [c02v_polyVal_congr e hres']; ring
    · simp only [if_true] at hres' ⊢
      rw [c02v_polyVal_neg hS e (fun j hj => ((hb.canon k h2).2 i hi).2 j hj) hres']; ring
  · omega

/-! ## V4  BGV correction factors -/

/-- one iteration of the balancing loop, recording that a replaced `e1` passed the `gcd = 1` test
    (`c02k_loop_step` of C02K forgets this) -/
theorem c02v_loop_step {t : Modulus} (ht : t.WF) (fuel : Nat) (prevA a prevB b : Int) (e1 e2 : Nat) (sum : Int)
    (ha : a ≠ 0) (haa : (Int.tmod prevA a).natAbs < 2^64)
    (hb1 : -(2^63 : Int) ≤ prevB - Int.tdiv prevA a * b) (hb2 : prevB - Int.tdiv prevA a * b < 2^63) :
    ∃ e1' e2' sum', balanceLoop t (fuel + 1) prevA a prevB b e1 e2 sum
        = balanceLoop t fuel a (Int.tmod prevA a) b (prevB - Int.tdiv prevA a * b) e1' e2' sum' ∧
      ((e1' = e1 ∧ e2' = e2) ∨
       (e1' = c02k_red (Int.tmod prevA a) t.value ∧ e2' = c02k_red (prevB - Int.tdiv prevA a * b) t.value ∧
        gcdU64 (c02k_red (Int.tmod prevA a) t.value) t.value = 1)) := by
  have hbb : (prevB - Int.tdiv prevA a * b).natAbs < 2^64 := by omega
  have hle1 : (Int.tmod prevA a).natAbs % t.value ≤ t.value :=
    (Nat.mod_lt _ (by have := ht.two_le; omega)).le
  have hle2 : (prevB - Int.tdiv prevA a * b).natAbs % t.value ≤ t.value :=
    (Nat.mod_lt _ (by have := ht.two_le; omega)).le
  rw [balanceLoop, if_neg ha]
  simp only [bind, Except.bind, ckI64_ok hb1 hb2, barrett64_exact ht haa, barrett64_exact ht hbb]
  have hra : ∀ (h : Int.tmod prevA a < 0), (t.value - (Int.tmod prevA a).natAbs % t.value) % t.value
      = c02k_red (Int.tmod prevA a) t.value := fun h => by unfold c02k_red; rw [if_pos h]
  have hra' : ∀ (h : ¬ Int.tmod prevA a < 0), (Int.tmod prevA a).natAbs % t.value
      = c02k_red (Int.tmod prevA a) t.value := fun h => by unfold c02k_red; rw [if_neg h]
  have hrb : ∀ (h : prevB - Int.tdiv prevA a * b < 0),
      (t.value - (prevB - Int.tdiv prevA a * b).natAbs % t.value) % t.value
      = c02k_red (prevB - Int.tdiv prevA a * b) t.value := fun h => by unfold c02k_red; rw [if_pos h]
  have hrb' : ∀ (h : ¬ prevB - Int.tdiv prevA a * b < 0), (prevB - Int.tdiv prevA a * b).natAbs % t.value
      = c02k_red (prevB - Int.tdiv prevA a * b) t.value := fun h => by unfold c02k_red; rw [if_neg h]
  have fin : ∀ am bm : Nat, ∀ ns : Int, ∀ c d : Prop, ∀ _ : Decidable (c ∧ d), ∃ e1' e2' sum',
      balanceLoop t fuel a (Int.tmod prevA a) b (prevB - Int.tdiv prevA a * b)
        (if c ∧ d then if ns < sum then (am, bm, ns) else (e1, e2, sum) else (e1, e2, sum)).1
        (if c ∧ d then if ns < sum then (am, bm, ns) else (e1, e2, sum) else (e1, e2, sum)).2.1
        (if c ∧ d then if ns < sum then (am, bm, ns) else (e1, e2, sum) else (e1, e2, sum)).2.2
      = balanceLoop t fuel a (Int.tmod prevA a) b (prevB - Int.tdiv prevA a * b) e1' e2' sum' ∧
      ((e1' = e1 ∧ e2' = e2) ∨ (e1' = am ∧ e2' = bm ∧ d)) := by
    intro am bm ns c d _
    refine ⟨_, _, _, rfl, ?_⟩
    split_ifs with h1 h2
    · exact Or.inr ⟨rfl, rfl, h1.2⟩
    · exact Or.inl ⟨rfl, rfl⟩
    · exact Or.inl ⟨rfl, rfl⟩
  by_cases hn : Int.tmod prevA a < 0 <;> by_cases hn' : prevB - Int.tdiv prevA a * b < 0 <;>
    simp only [hn, hn', if_true, if_false, negateMod_exact ht hle1, negateMod_exact ht hle2, pure, Except.pure]
  · rw [hra hn, hrb hn']; exact fin _ _ _ _ _ _
  · rw [hra hn, hrb' hn']; exact fin _ _ _ _ _ _
  · rw [hra' hn, hrb hn']; exact fin _ _ _ _ _ _
  · rw [hra' hn, hrb' hn']; exact fin _ _ _ _ _ _

/-- loop invariants missing from `c02k_loop_spec`: the second multiplier stays reduced and the first stays a unit -/
theorem c02v_loop_inv {t : Modulus} (ht : t.WF) :
    ∀ (fuel : Nat) (prevA a prevB b : Int) (e1 e2 : Nat) (sum : Int) (r : Nat × Nat),
    a.natAbs < 2^64 → e2 < t.value →
    balanceLoop t fuel prevA a prevB b e1 e2 sum = .ok r →
    r.2 < t.value ∧ (Nat.Coprime e1 t.value → Nat.Coprime r.1 t.value) := by
  have htpos : 0 < t.value := by have := ht.two_le; omega
  have htlt := ht.lt
  intro fuel
  induction fuel with
  | zero =>
    intro prevA a prevB b e1 e2 sum r _ _ h
    rw [balanceLoop] at h; cases h
  | succ fuel ih =>
    intro prevA a prevB b e1 e2 sum r hab he2 h
    by_cases ha : a = 0
    · subst ha
      rw [c02k_loop_zero] at h
      injection h with h
      subst h
      exact ⟨he2, fun hc => hc⟩
    · by_cases hb : (-(2^63 : Int) ≤ prevB - Int.tdiv prevA a * b ∧ prevB - Int.tdiv prevA a * b < 2^63)
      · have haa : (Int.tmod prevA a).natAbs < 2^64 := by
          rw [Int.natAbs_tmod]
          have : prevA.natAbs % a.natAbs < a.natAbs := Nat.mod_lt _ (by omega)
          omega
        obtain ⟨e1', e2', sum', heq, hcase⟩ := c02v_loop_step ht fuel prevA a prevB b e1 e2 sum ha haa hb.1 hb.2
        rw [heq] at h
        rcases hcase with ⟨rfl, rfl⟩ | ⟨rfl, rfl, hg⟩
        · exact ih _ _ _ _ _ _ _ r haa he2 h
        · obtain ⟨i1, i2⟩ := ih _ _ _ _ _ _ _ r haa (c02k_red_lt htpos _) h
          have hlt := c02k_red_lt htpos (Int.tmod prevA a)
          rw [gcdU64_exact (by omega) (by omega)] at hg
          exact ⟨i1, fun _ => i2 hg⟩
      · rw [c02k_loop_overflow t fuel prevA a prevB b e1 e2 sum ha hb] at h
        cases h


/-- what `balance_spec` of C02K does not state: both multipliers are reduced, a successful call certifies that `f1` is a unit,
    and if `f2` is a unit too then so are `e1` and the common factor `f` -/
theorem c02v_balance_inv {t : Modulus} (ht : t.WF) {f1 f2 f e1 e2 : Nat} (h1 : f1 < t.value) (h2 : f2 < t.value)
    (h : balanceCorrectionFactors f1 f2 t = .ok (f, e1, e2)) :
    e1 < t.value ∧ e2 < t.value ∧ Nat.Coprime f1 t.value ∧
      (Nat.Coprime f2 t.value → Nat.Coprime e1 t.value ∧ Nat.Coprime f t.value) := by
  have h2le := ht.two_le
  have hlt := ht.lt
  have htpos : 0 < t.value := by omega
  have hinv := tryInvert_spec_partial (v := f1) h2le hlt (by omega) (by omega)
  unfold balanceCorrectionFactors at h
  by_cases hc : f1 ≠ 0 ∧ Nat.gcd f1 t.value = 1
  · obtain ⟨inv, hti, hinvlt, hinv1⟩ := hinv.1 hc
    rw [hti] at h
    simp only [bind, Except.bind, mulMod_exact ht (x := inv) (y := f2) (by omega) (by omega)] at h
    split at h
    · cases h
    · rename_i r hL
      obtain ⟨hr1, _⟩ := c02k_loop_spec ht ((inv * f2 % t.value : Nat) : Int) 200 _ _ _ _ _ _ _ r
        (by simp only [Int.natAbs_natCast]; have := Nat.mod_lt (inv * f2) htpos; omega)
        (by simp [Int.ModEq]) (by simp [Int.ModEq]) (Nat.mod_lt _ htpos) (by simp [Int.ModEq]) hL
      obtain ⟨hr2, hr3⟩ := c02v_loop_inv ht 200 _ _ _ _ _ _ _ r
        (by simp only [Int.natAbs_natCast]; have := Nat.mod_lt (inv * f2) htpos; omega) (by omega) hL
      rw [mulMod_exact ht (x := r.1) (y := f1) (by omega) (by omega)] at h
      simp only [pure, Except.pure, Except.ok.injEq, Prod.mk.injEq] at h
      obtain ⟨hf, he1, he2⟩ := h
      subst he1 he2
      refine ⟨hr1, hr2, hc.2, fun hc2 => ?_⟩
      have hci : Nat.Coprime inv t.value := by
        apply Nat.coprime_of_mul_modEq_one f1
        unfold Nat.ModEq; rw [hinv1, Nat.mod_eq_of_lt (by omega)]
      have hcr : Nat.Coprime (inv * f2 % t.value) t.value := by
        unfold Nat.Coprime
        rw [← Nat.gcd_rec, Nat.gcd_comm]
        exact Nat.Coprime.mul_left hci hc2
      have hce := hr3 hcr
      refine ⟨hce, ?_⟩
      rw [← hf]
      unfold Nat.Coprime
      rw [← Nat.gcd_rec, Nat.gcd_comm]
      exact Nat.Coprime.mul_left hce hc.2
  · rw [hinv.2 (by by_cases h0 : f1 = 0; exact Or.inl h0; exact Or.inr (fun hg => hc ⟨h0, hg⟩))] at h
    cases h

/-- refusal of the balancing: a first factor that is not a unit modulo t -/
theorem c02v_balance_refuse {t : Modulus} (ht : t.WF) {f1 : Nat} (f2 : Nat) (h1 : f1 < 2^63)
    (hc : ¬ Nat.Coprime f1 t.value) : balanceCorrectionFactors f1 f2 t = .error .refused := by
  have h2le := ht.two_le
  have hlt := ht.lt
  have hinv := tryInvert_spec_partial (v := f1) h2le hlt (by omega) (by omega)
  unfold balanceCorrectionFactors
  rw [hinv.2 (Or.inr hc)]
  rfl


theorem c02v_compsMap_spec {l : Level} (hq : c02v_QsWF l) {e : Nat} (he : e < 2^64) {a : RnsPoly} (ha : RnsCanon l a) :
    ∃ r, compsMap l.qs a (fun x m => mulMod x e m) = .ok r ∧ RnsCanon l r ∧ ∀ i, i < l.size → ∀ j, j < l.n →
      (r.getD i #[]).getD j 0 = ((a.getD i #[]).getD j 0 * e) % (l.q i).value := by
  have hok := c01o_foldlM_push (List.range l.size) (fun i => mapM' (a.getD i #[]) (fun x => mulMod x e (l.q i)))
    (fun i => (a.getD i #[]).map (fun x => (x * e) % (l.q i).value))
    (fun i hi => by
      have hi := List.mem_range.mp hi
      apply mapM'_ok
      intro x hx
      apply mulMod_exact (hq i hi) _ he
      have := mem_lt_of_getD (B := (l.q i).value) (fun j hj => (ha.2 i hi).2 j (by rw [← (ha.2 i hi).1]; exact hj)) x hx
      have := (hq i hi).lt
      omega) #[]
  refine ⟨_, hok, ?_⟩
  have hget : ∀ i, i < l.size → (#[] ++ ((List.range l.size).map
      (fun i => (a.getD i #[]).map (fun x => (x * e) % (l.q i).value))).toArray).getD i #[]
        = (a.getD i #[]).map (fun x => (x * e) % (l.q i).value) := by
    intro i hi
    rw [Array.empty_append]
    exact getD_rangeMap' _ _ _ hi
  refine ⟨⟨by simp, fun i hi => ?_⟩, fun i hi j hj => ?_⟩
  · rw [hget i hi]
    refine ⟨by rw [Array.size_map]; exact (ha.2 i hi).1, fun j hj => ?_⟩
    rw [c10i_getD_map_lt _ _ (by rw [(ha.2 i hi).1]; exact hj)]
    exact Nat.mod_lt _ (by have := (hq i hi).two_le; omega)
  · rw [hget i hi, c10i_getD_map_lt _ _ (by rw [(ha.2 i hi).1]; exact hj)]

/-- the `scale` step of `ctTranslateBalanced`: every residue times `e`, correction factor set to `f` -/
def c02v_scale (l : Level) (f : Nat) (c : Ct) (e : Nat) : R Ct := do
  let ps ← c.polys.toList.mapM (fun p => compsMap l.qs p (fun x m => mulMod x e m))
  pure { c with polys := ps.toArray, cf := f }

theorem c02v_scale_spec {l : Level} (hq : c02v_QsWF l) (f : Nat) {e : Nat} (he : e < 2^64) {a : Ct} (ha : c02v_PolysCanon l a) :
    ∃ r, c02v_scale l f a e = .ok r ∧ c02v_PolysCanon l r ∧ r.polys.size = a.polys.size ∧ r.ntt = a.ntt ∧ r.cf = f ∧
      ∀ k, k < a.polys.size → ∀ i, i < l.size → ∀ j, j < l.n →
        r.c02v_res k i j = (a.c02v_res k i j * e) % (l.q i).value := by
  obtain ⟨ys, hys, hall⟩ := c02v_mapM_ok
    (fun (c r : RnsPoly) => RnsCanon l r ∧ ∀ i, i < l.size → ∀ j, j < l.n →
      (r.getD i #[]).getD j 0 = ((c.getD i #[]).getD j 0 * e) % (l.q i).value)
    (fun p => compsMap l.qs p (fun x m => mulMod x e m)) a.polys.toList (fun c hc => by
      obtain ⟨k, hk, rfl⟩ := List.mem_iff_getElem.mp hc
      have hk' : k < a.polys.size := by simpa using hk
      have hc := ha.canon k hk'
      have e : a.polys.getD k #[] = a.polys.toList[k] := by simp [Array.getD, hk']
      rw [e] at hc
      exact c02v_compsMap_spec hq he hc)
  have hlen : ys.length = a.polys.size := by rw [← hall.length_eq]; simp
  have hk : ∀ k, k < a.polys.size → RnsCanon l (ys.toArray.getD k #[]) ∧ ∀ i, i < l.size → ∀ j, j < l.n →
      ((ys.toArray.getD k #[]).getD i #[]).getD j 0
        = (((a.polys.getD k #[]).getD i #[]).getD j 0 * e) % (l.q i).value := by
    intro k hk
    have := c02v_forall2_getD hall #[] #[] (k := k) (by simpa using hk)
    rw [c02v_polys_getD a hk, ← c02v_toArray_getD] at this
    exact this
  refine ⟨{ a with polys := ys.toArray, cf := f }, ?_, ⟨?_, ?_, ?_⟩, ?_, rfl, rfl, ?_⟩
  · unfold c02v_scale
    rw [hys]; rfl
  · simpa [hlen] using ha.two_le
  · simpa [hlen] using ha.le16
  · intro k hk'
    exact (hk k (by simpa [hlen] using hk')).1
  · simp [hlen]
  · intro k hk' i hi j hj
    exact (hk k hk').2 i hi j hj

theorem c02v_balanced_eq (l : Level) (a b : Ct) (sub : Bool) (h : a.cf ≠ b.cf) :
    ctTranslateBalanced l a b sub = (do
      let r ← balanceCorrectionFactors a.cf b.cf l.t
      let a' ← c02v_scale l r.1 a r.2.1
      let b' ← c02v_scale l r.1 b r.2.2
      ctTranslate l a' b' sub) := by
  unfold ctTranslateBalanced
  rw [if_neg h]
  rfl

theorem c02v_polyVal_scale {S : Type} [CommRing S] {q n : Nat} (hS : ((q : Nat) : S) = 0) (e : Nat → S) (c : Nat) {p r : Array Nat}
    (hr : ∀ j, j < n → r.getD j 0 = (p.getD j 0 * c) % q) :
    c02v_polyVal e n r = c02v_polyVal e n p * ((c : Nat) : S) := by
  unfold c02v_polyVal
  rw [Finset.sum_mul]
  refine Finset.sum_congr rfl (fun j hj => ?_)
  rw [hr j (Finset.mem_range.mp hj), c02v_mod_cast hS]
  push_cast; ring

theorem c02v_scale_phase {S : Type} [CommRing S] {l : Level} {a r : Ct} {c : Nat} (hsz : r.polys.size = a.polys.size)
    {i : Nat} (hi : i < l.size) (hS : (((l.q i).value : Nat) : S) = 0)
    (hres : ∀ k, k < a.polys.size → ∀ i, i < l.size → ∀ j, j < l.n → r.c02v_res k i j = (a.c02v_res k i j * c) % (l.q i).value)
    (e : Nat → S) (s : S) :
    c02v_phase l r i e s = c02v_phase l a i e s * ((c : Nat) : S) := by
  unfold c02v_phase
  rw [hsz, ← mul_plain_phase]
  unfold ctPhase
  refine Finset.sum_congr rfl (fun k hk => ?_)
  have hk := Finset.mem_range.mp hk
  beta_reduce
  rw [c02v_polyVal_scale hS e c (fun j hj => hres k hk i hi j hj)]


/-- decomposition of the balancing branch of `ctTranslateBalanced`: both operands are scaled, then `ctTranslate` runs -/
theorem c02v_balanced_decomp {l : Level} (hq : c02v_QsWF l) (ht : l.t.WF) {a b : Ct} (ha : c02v_PolysCanon l a)
    (hb : c02v_PolysCanon l b) (sub : Bool) (hne : a.cf ≠ b.cf) (h1 : a.cf < l.t.value) (h2 : b.cf < l.t.value)
    {f e1 e2 : Nat} (hbal : balanceCorrectionFactors a.cf b.cf l.t = .ok (f, e1, e2)) :
    ∃ a' b', ctTranslateBalanced l a b sub = ctTranslate l a' b' sub ∧
      c02v_PolysCanon l a' ∧ a'.polys.size = a.polys.size ∧ a'.ntt = a.ntt ∧ a'.cf = f ∧
      (∀ k, k < a.polys.size → ∀ i, i < l.size → ∀ j, j < l.n → a'.c02v_res k i j = (a.c02v_res k i j * e1) % (l.q i).value) ∧
      c02v_PolysCanon l b' ∧ b'.polys.size = b.polys.size ∧ b'.ntt = b.ntt ∧ b'.cf = f ∧
      (∀ k, k < b.polys.size → ∀ i, i < l.size → ∀ j, j < l.n → b'.c02v_res k i j = (b.c02v_res k i j * e2) % (l.q i).value) := by
  obtain ⟨he1, he2, _, _⟩ := c02v_balance_inv ht h1 h2 hbal
  have htlt := ht.lt
  obtain ⟨a', ha', ca, sa, na, fa, ra⟩ := c02v_scale_spec hq f (e := e1) (by omega) ha
  obtain ⟨b', hb', cb, sb, nb, fb, rb⟩ := c02v_scale_spec hq f (e := e2) (by omega) hb
  refine ⟨a', b', ?_, ca, sa, na, fa, ra, cb, sb, nb, fb, rb⟩
  rw [c02v_balanced_eq l a b sub hne, hbal]
  simp only [bind, Except.bind]
  rw [ha', hb']

/-- decoding of one BGV phase coefficient: reduce modulo t, multiply by the inverse of the correction factor -/
def c02v_dec (t cf : Nat) (x : Int) : Nat := (Spec.imod x t * Spec.invMod cf t) % t

theorem c02v_bgvDecode_eq (t cf : Nat) (ph : Spec.ZPoly) : Spec.bgvDecode t cf ph = ph.map (c02v_dec t cf) := rfl

theorem c02v_imod_zmod (x : Int) {t : Nat} (ht : 0 < t) : ((Spec.imod x t : Nat) : ZMod t) = ((x : Int) : ZMod t) := by
  have h : (((Spec.imod x t : Nat) : Int) : ZMod t) = ((x % (t : Int) : Int) : ZMod t) := by rw [c01j_imod_cast x ht]
  rw [Int.cast_natCast] at h
  rw [h, ZMod.intCast_mod]

theorem c02v_inv_zmod {t cf : Nat} (ht : 2 ≤ t) (ht199 : t < 2^199) (hc : Nat.Coprime cf t) :
    ((Spec.invMod cf t : Nat) : ZMod t) * ((cf : Nat) : ZMod t) = 1 := by
  have := c01j_invMod_spec ht ht199 hc
  have h2 := (ZMod.natCast_eq_natCast_iff' (Spec.invMod cf t * cf) 1 t).mpr this
  push_cast at h2
  exact h2

theorem c02v_modeq_zmod {t : Nat} {x y : Nat} (h : x % t = y) : ((x : Nat) : ZMod t) = ((y : Nat) : ZMod t) := by
  apply (ZMod.natCast_eq_natCast_iff' x y t).mpr
  rw [← h, Nat.mod_mod]


/-! ## V3, coefficient form: the inverse transform of the accumulated dyadic products is the sum of negacyclic products -/

theorem c02v_intt_zero {t : NTTTables} (hw : t.WF) {z : Array Nat} (hz : z.size = 2^t.k)
    (hz0 : ∀ j, j < 2^t.k → z.getD j 0 = 0) : ∀ c, c < 2^t.k → (intt t z).getD c 0 = 0 := by
  have hq2 := hw.mwf.two_le
  intro c hc
  have hzl : ∀ j, j < 2^t.k → z.getD j 0 < t.modulus.value := fun j hj => by rw [hz0 j hj]; omega
  have h := c01o_intt_add hw hz hz hz hzl hzl (fun j hj => by rw [hz0 j hj]; simp) c hc
  have hv := ((intt_sim hw z hz (fun j hj => by rw [hz0 j hj]; omega)).2 c hc).1
  generalize (intt t z).getD c 0 = v at h hv
  by_cases h2 : v + v < t.modulus.value
  · rw [Nat.mod_eq_of_lt h2] at h; omega
  · rw [Nat.mod_eq_sub_mod (by omega), Nat.mod_eq_of_lt (by omega)] at h; omega

/-- `intt` of a reduced sum of canonical vectors is the reduced sum of their `intt`s -/
theorem c02v_intt_sum {t : NTTTables} (hw : t.WF) (D : Nat × Nat → Array Nat) :
    ∀ (ps : List (Nat × Nat)) (z0 z : Array Nat),
    (∀ p ∈ ps, (D p).size = 2^t.k ∧ ∀ j, j < 2^t.k → (D p).getD j 0 < t.modulus.value) →
    z0.size = 2^t.k → (∀ j, j < 2^t.k → z0.getD j 0 < t.modulus.value) → z.size = 2^t.k →
    (∀ j, j < 2^t.k → z.getD j 0 = (z0.getD j 0 + (ps.map (fun p => (D p).getD j 0)).sum) % t.modulus.value) →
    ∀ c, c < 2^t.k → (intt t z).getD c 0
      = ((intt t z0).getD c 0 + (ps.map (fun p => (intt t (D p)).getD c 0)).sum) % t.modulus.value := by
  have hq2 := hw.mwf.two_le
  intro ps
  induction ps with
  | nil =>
    intro z0 z _ hz0 hz0l hz hzv c hc
    have : z = z0 := array_ext_getD hz hz0 (fun j hj => by
      rw [hzv j hj]; simp only [List.map_nil, List.sum_nil, Nat.add_zero]; exact Nat.mod_eq_of_lt (hz0l j hj))
    rw [this]
    simp only [List.map_nil, List.sum_nil, Nat.add_zero]
    exact (Nat.mod_eq_of_lt ((intt_sim hw z0 hz0 (fun j hj => by have := hz0l j hj; omega)).2 c hc).1).symm
  | cons p ps ih =>
    intro z0 z hD hz0 hz0l hz hzv c hc
    obtain ⟨hDp, hDpl⟩ := hD p (by simp)
    generalize hwdef : ((List.range (2^t.k)).map fun j => (z0.getD j 0 + (D p).getD j 0) % t.modulus.value).toArray = w
    have hws : w.size = 2^t.k := by rw [← hwdef]; simp
    have hwv : ∀ j, j < 2^t.k → w.getD j 0 = (z0.getD j 0 + (D p).getD j 0) % t.modulus.value := by
      intro j hj; rw [← hwdef]; exact getD_rangeMap _ _ hj
    have hwl : ∀ j, j < 2^t.k → w.getD j 0 < t.modulus.value := by
      intro j hj; rw [hwv j hj]; exact Nat.mod_lt _ (by omega)
    have h1 := ih w z (fun p' hp' => hD p' (by simp [hp'])) hws hwl hz (fun j hj => by
      rw [hzv j hj, hwv j hj]
      simp only [List.map_cons, List.sum_cons]
      rw [Nat.mod_add_mod, Nat.add_assoc]) c hc
    rw [h1, c01o_intt_add hw hz0 hDp hws hz0l hDpl hwv c hc]
    simp only [List.map_cons, List.sum_cons]
    rw [Nat.mod_add_mod, Nat.add_assoc]

theorem c02v_list_sum_mod (q : Nat) (f : Nat × Nat → Nat) :
    ∀ ps : List (Nat × Nat), (ps.map f).sum % q = (ps.map (fun p => f p % q)).sum % q
  | [] => rfl
  | p :: ps => by
    simp only [List.map_cons, List.sum_cons]
    rw [Nat.add_mod, c02v_list_sum_mod q f ps, Nat.add_mod_mod]

/-- one output component, coefficient form: if z_j = Σ_p A_{p.1}[j]·B_{p.2}[j] mod q for canonical NTT-form vectors, then
    intt z = Σ_p (intt A_{p.1}) ⊛ (intt B_{p.2}) mod (X^N + 1, q) -/
theorem c02v_comp_coeff {t : NTTTables} (hw : t.WF) (A B : Nat → Array Nat) (ps : List (Nat × Nat))
    (hA : ∀ p ∈ ps, (A p.1).size = 2^t.k ∧ ∀ j, j < 2^t.k → (A p.1).getD j 0 < t.modulus.value)
    (hB : ∀ p ∈ ps, (B p.2).size = 2^t.k ∧ ∀ j, j < 2^t.k → (B p.2).getD j 0 < t.modulus.value)
    {z : Array Nat} (hz : z.size = 2^t.k)
    (hzv : ∀ j, j < 2^t.k → z.getD j 0 = (ps.map (fun p => (A p.1).getD j 0 * (B p.2).getD j 0)).sum % t.modulus.value) :
    ∀ c, c < 2^t.k → (intt t z).getD c 0
      = (ps.map (fun p => negMulNat (2^t.k) t.modulus.value (intt t (A p.1)) (intt t (B p.2)) c)).sum % t.modulus.value := by
  have hq2 := hw.mwf.two_le
  intro c hc
  generalize hDdef : (fun p : Nat × Nat => ((List.range (2^t.k)).map fun j =>
    ((A p.1).getD j 0 * (B p.2).getD j 0) % t.modulus.value).toArray) = D
  have hDs : ∀ p, (D p).size = 2^t.k := by intro p; rw [← hDdef]; simp
  have hDv : ∀ p j, j < 2^t.k → (D p).getD j 0 = ((A p.1).getD j 0 * (B p.2).getD j 0) % t.modulus.value := by
    intro p j hj; rw [← hDdef]; exact getD_rangeMap _ _ hj
  generalize hz0def : (Array.replicate (2^t.k) 0 : Array Nat) = z0
  have hz0s : z0.size = 2^t.k := by rw [← hz0def]; simp
  have hz0v : ∀ j, j < 2^t.k → z0.getD j 0 = 0 := by intro j hj; rw [← hz0def]; simp [Array.getD, hj]
  have h := c02v_intt_sum hw D ps z0 z
    (fun p _ => ⟨hDs p, fun j hj => by rw [hDv p j hj]; exact Nat.mod_lt _ (by omega)⟩)
    hz0s (fun j hj => by rw [hz0v j hj]; omega) hz
    (fun j hj => by
      rw [hzv j hj, hz0v j hj, Nat.zero_add, c02v_list_sum_mod]
      congr 2
      apply List.map_congr_left
      intro p _
      exact (hDv p j hj).symm) c hc
  rw [h, c02v_intt_zero hw hz0s hz0v c hc, Nat.zero_add]
  congr 2
  apply List.map_congr_left
  intro p hp
  obtain ⟨hAs, hAl⟩ := hA p hp
  obtain ⟨hBs, hBl⟩ := hB p hp
  obtain ⟨b1, b2⟩ := intt_sim hw (B p.2) hBs (fun j hj => by have := hBl j hj; omega)
  refine c01o_conv hw hAs b1 (hDs p) hAl (fun j hj => (b2 j hj).1) (fun j hj => ?_) c hc
  rw [hDv p j hj, ntt_intt hw (B p.2) hBs hBl]


/-! ## Satisfiability of the hypotheses: readings `e`, a concrete level and ciphertext -/

def c02v_delta {S : Type} [CommRing S] (j0 : Nat) : Nat → S := fun j => if j = j0 then 1 else 0

theorem c02v_delta_orth {S : Type} [CommRing S] (j0 n : Nat) :
    ∀ j j', j < n → j' < n → (c02v_delta j0 j : S) * c02v_delta j0 j' = if j = j' then c02v_delta j0 j else 0 := by
  intro j j' _ _
  unfold c02v_delta
  by_cases h1 : j = j0 <;> by_cases h2 : j' = j0 <;> by_cases h3 : j = j' <;> simp [h1, h2, h3] <;> omega

theorem c02v_single_orth {T : Type} [CommRing T] (n : Nat) :
    ∀ j j', j < n → j' < n →
      (Pi.single j (1 : T) : Nat → T) * Pi.single j' 1 = if j = j' then Pi.single j 1 else 0 := by
  intro j j' _ _
  ext x
  by_cases h3 : j = j'
  · subst h3
    rw [if_pos rfl]
    simp only [Pi.mul_apply, Pi.single_apply]
    by_cases hx : x = j <;> simp [hx]
  · rw [if_neg h3]
    simp only [Pi.mul_apply, Pi.single_apply, Pi.zero_apply]
    by_cases hx : x = j <;> by_cases hx' : x = j' <;> simp [hx, hx'] <;> omega

theorem c02v_polyVal_delta {S : Type} [CommRing S] {j0 n : Nat} (hj : j0 < n) (p : Array Nat) :
    c02v_polyVal (c02v_delta j0 : Nat → S) n p = ((p.getD j0 0 : Nat) : S) := by
  unfold c02v_polyVal c02v_delta
  simp only [mul_ite, mul_one, mul_zero]
  rw [Finset.sum_ite_eq' , if_pos (Finset.mem_range.mpr hj)]

theorem c02v_phase_delta {S : Type} [CommRing S] (l : Level) (ct : Ct) (i : Nat) {j : Nat} (hj : j < l.n) (s : S) :
    c02v_phase l ct i (c02v_delta j) s = ctPhase ct.polys.size (fun k => ((ct.c02v_res k i j : Nat) : S)) s := by
  unfold c02v_phase
  simp only [c02v_polyVal_delta hj]
  rfl

def c02v_exQ : Modulus := ⟨17, (2^128 / 17) % B64, (2^128 / 17) / B64, 2^128 % 17, bitCount 17⟩
def c02v_exT : Modulus := ⟨5, (2^128 / 5) % B64, (2^128 / 5) / B64, 2^128 % 5, bitCount 5⟩
def c02v_exLevel : Level := { (default : Level) with scheme := .bgv, n := 2, k := 1, qs := #[c02v_exQ, c02v_exQ], t := c02v_exT }
def c02v_exCt : Ct := ⟨#[#[#[1, 2], #[3, 16]], #[#[0, 5], #[7, 11]], #[#[4, 4], #[9, 0]]], true, 3⟩

def c02v_exCt2 : Ct := ⟨#[#[#[6, 2], #[3, 1]], #[#[0, 15], #[8, 11]]], true, 2⟩

theorem c02v_exQ_wf : c02v_exQ.WF := (Modulus.mk?_wf (v := 17) (m := c02v_exQ) rfl (by decide)).1
theorem c02v_exT_wf : c02v_exLevel.t.WF := (Modulus.mk?_wf (v := 5) (m := c02v_exT) rfl (by decide)).1

theorem c02v_exLevel_qsWF : c02v_QsWF c02v_exLevel := by
  intro i hi
  have hi' : i < 2 := hi
  have : c02v_exLevel.q i = c02v_exQ := by
    interval_cases i <;> rfl
  rw [this]; exact c02v_exQ_wf

theorem c02v_exCt_canon : CtCanon c02v_exLevel c02v_exCt := by
  refine ⟨⟨by decide, by decide, fun k hk => ?_⟩, ?_⟩
  · have hk' : k < 3 := hk
    interval_cases k <;> refine ⟨rfl, fun i hi => ?_⟩ <;>
      (have hi' : i < 2 := hi
       interval_cases i <;> refine ⟨rfl, fun j hj => ?_⟩ <;>
         (have hj' : j < 2 := hj
          interval_cases j <;> decide))
  · exact ⟨by decide, by decide⟩

theorem c02v_exCt2_canon : CtCanon c02v_exLevel c02v_exCt2 := by
  refine ⟨⟨by decide, by decide, fun k hk => ?_⟩, ?_⟩
  · have hk' : k < 2 := hk
    interval_cases k <;> refine ⟨rfl, fun i hi => ?_⟩ <;>
      (have hi' : i < 2 := hi
       interval_cases i <;> refine ⟨rfl, fun j hj => ?_⟩ <;>
         (have hj' : j < 2 := hj
          interval_cases j <;> decide))
  · exact ⟨by decide, by decide⟩



/-! ## Property theorems -/

/-- V1 residues: `ctNegate` succeeds on a canonical ciphertext, keeps size / representation / correction factor, the result is
    canonical and every residue is `(q_i − x) mod q_i` -/
theorem ctNegate_spec {l : Level} (hq : c02v_QsWF l) {a : Ct} (ha : CtCanon l a) :
    ∃ r, ctNegate l a = .ok r ∧ CtCanon l r ∧ r.polys.size = a.polys.size ∧ r.ntt = a.ntt ∧ r.cf = a.cf ∧
      ∀ k, k < a.polys.size → ∀ i, i < l.size → ∀ j, j < l.n →
        r.c02v_res k i j = ((l.q i).value - a.c02v_res k i j) % (l.q i).value := by
  obtain ⟨ys, hys, hall⟩ := c02v_mapM_ok
    (fun (p r : RnsPoly) => RnsCanon l r ∧ ∀ i, i < l.size → ∀ j, j < l.n →
      (r.getD i #[]).getD j 0 = ((l.q i).value - (p.getD i #[]).getD j 0) % (l.q i).value)
    (fun p => rnsNeg l p) a.polys.toList (fun p hp => by
      obtain ⟨k, hk, rfl⟩ := List.mem_iff_getElem.mp hp
      have hk' : k < a.polys.size := by simpa using hk
      have hc := ha.canon k hk'
      have e : a.polys.getD k #[] = a.polys.toList[k] := by simp [Array.getD, hk']
      rw [e] at hc
      exact c02v_rnsNeg_spec hq hc)
  have hlen : ys.length = a.polys.size := by rw [← hall.length_eq]; simp
  have hk : ∀ k, k < a.polys.size → RnsCanon l (ys.toArray.getD k #[]) ∧ ∀ i, i < l.size → ∀ j, j < l.n →
      ((ys.toArray.getD k #[]).getD i #[]).getD j 0
        = ((l.q i).value - ((a.polys.getD k #[]).getD i #[]).getD j 0) % (l.q i).value := by
    intro k hk
    have := c02v_forall2_getD hall #[] #[] (k := k) (by simpa using hk)
    rw [c02v_polys_getD a hk, ← c02v_toArray_getD] at this
    exact this
  refine ⟨{ a with polys := ys.toArray }, ?_, ⟨⟨?_, ?_, ?_⟩, ha.cf⟩, ?_, rfl, rfl, ?_⟩
  · unfold ctNegate
    rw [hys]; rfl
  · simpa [hlen] using ha.two_le
  · simpa [hlen] using ha.le16
  · intro k hk'
    exact (hk k (by simpa [hlen] using hk')).1
  · simp [hlen]
  · intro k hk' i hi j hj
    exact (hk k hk').2 i hi j hj

/-- V1 phase: in every commutative ring in which `q_i = 0`, for every secret `s` (and every reading `e` of the positions),
    the phase Σ_k c_k s^k of component `i` is negated -/
theorem ctNegate_phase {S : Type} [CommRing S] {l : Level} (hq : c02v_QsWF l) {a r : Ct} (ha : CtCanon l a)
    (hr : ctNegate l a = .ok r) {i : Nat} (hi : i < l.size) (hS : (((l.q i).value : Nat) : S) = 0) (e : Nat → S) (s : S) :
    c02v_phase l r i e s = - c02v_phase l a i e s := by
  obtain ⟨r', hr', _, hsz, _, _, hres⟩ := ctNegate_spec hq ha
  rw [hr] at hr'
  obtain rfl := Except.ok.inj hr'
  unfold c02v_phase
  rw [hsz, ← negate_phase]
  unfold ctPhase
  refine Finset.sum_congr rfl (fun k hk => ?_)
  have hk := Finset.mem_range.mp hk
  beta_reduce
  rw [c02v_polyVal_neg hS e (fun j hj => ((ha.canon k hk).2 i hi).2 j hj) (fun j hj => hres k hk i hi j hj)]

/-- V2 residues: `ctTranslate` (add / sub of canonical ciphertexts of ANY two sizes, same representation and correction factor)
    succeeds; the result has size max(n1, n2), is canonical, and polynomial k is `a_k ± b_k` where both exist, `a_k` beyond the
    size of b, and `b_k` resp. `−b_k` (subtraction) beyond the size of a -/
theorem ctTranslate_spec {l : Level} (hq : c02v_QsWF l) {a b : Ct} (ha : CtCanon l a) (hb : CtCanon l b) (sub : Bool)
    (hntt : a.ntt = b.ntt) (hcf : a.cf = b.cf) :
    ∃ r, ctTranslate l a b sub = .ok r ∧ CtCanon l r ∧ r.polys.size = max a.polys.size b.polys.size ∧
      r.ntt = a.ntt ∧ r.cf = a.cf ∧
      ∀ k, k < max a.polys.size b.polys.size → ∀ i, i < l.size → ∀ j, j < l.n →
        r.c02v_res k i j =
          if k < a.polys.size ∧ k < b.polys.size then
            (if sub then (a.c02v_res k i j + (l.q i).value - b.c02v_res k i j) % (l.q i).value
             else (a.c02v_res k i j + b.c02v_res k i j) % (l.q i).value)
          else if k < a.polys.size then a.c02v_res k i j
          else (if sub then ((l.q i).value - b.c02v_res k i j) % (l.q i).value else b.c02v_res k i j) := by
  obtain ⟨r, h, hc, hsz, hn, hf, hres⟩ := c02v_ctTranslate_core hq ha.toc02v_PolysCanon hb.toc02v_PolysCanon sub hntt hcf
  exact ⟨r, h, ⟨hc, by rw [hf]; exact ha.cf⟩, hsz, hn, hf, hres⟩

/-- V2 phase: in every commutative ring in which `q_i = 0`, the phase of the result of `ctTranslate` is the sum resp. difference
    of the phases — for all pairs of sizes (this is `translate_phase` of C02K instantiated with the model's output) -/
theorem ctTranslate_phase {S : Type} [CommRing S] {l : Level} (hq : c02v_QsWF l) {a b r : Ct} (ha : CtCanon l a)
    (hb : CtCanon l b) {sub : Bool} (hr : ctTranslate l a b sub = .ok r)
    {i : Nat} (hi : i < l.size) (hS : (((l.q i).value : Nat) : S) = 0) (e : Nat → S) (s : S) :
    c02v_phase l r i e s = if sub then c02v_phase l a i e s - c02v_phase l b i e s
      else c02v_phase l a i e s + c02v_phase l b i e s :=
  c02v_ctTranslate_phase_core hq ha.toc02v_PolysCanon hb.toc02v_PolysCanon hr hi hS e s

/-- V2 refusals: operands in different representations are refused; different correction factors are not handled by
    `ctTranslate` itself (error; they go through `ctTranslateBalanced`) -/
theorem ctTranslate_refuse_ntt (l : Level) (a b : Ct) (sub : Bool) (h : a.ntt ≠ b.ntt) :
    ctTranslate l a b sub = .error .refused := c02v_ctTranslate_refuse_ntt l a b sub h

theorem ctTranslate_error_cf (l : Level) (a b : Ct) (sub : Bool) (h : a.ntt = b.ntt) (hcf : a.cf ≠ b.cf) :
    ctTranslate l a b sub = .error .other := c02v_ctTranslate_error_cf l a b sub h hcf

/-- V3 refusal: the dyadic product needs both operands in NTT form -/
theorem ctMultiplyDyadic_refuse (l : Level) (a b : Ct) (h : a.ntt = false ∨ b.ntt = false) :
    ctMultiplyDyadic l a b = .error .refused := by
  unfold ctMultiplyDyadic
  rw [if_pos (by rcases h with h | h <;> simp [h])]

/-- the size check of `Ciphertext::resize_internal` with the regenerated limits: a size is accepted iff it is 0 or in [2, 16]
    (re-checked whenever `Gen/Constants.lean` changes) -/
theorem ctResizeRefuses_eq_false_iff (s : Nat) : ctResizeRefuses s = false ↔ (s = 0 ∨ (2 ≤ s ∧ s ≤ 16)) := by
  unfold ctResizeRefuses
  by_cases h1 : s < 2 <;> by_cases h2 : s = 0 <;> by_cases h3 : s > 16 <;>
    simp [Gen.HE_CIPHERTEXT_SIZE_MIN, Gen.HE_CIPHERTEXT_SIZE_MAX, h1, h2, h3] <;> omega

theorem ctResizeRefuses_eq_true_iff (s : Nat) : ctResizeRefuses s = true ↔ (s = 1 ∨ 16 < s) := by
  rw [← Bool.not_eq_false, ctResizeRefuses_eq_false_iff]
  omega

/-- V3 refusal (size): a destination size n1 + n2 − 1 that `resize` refuses (1, or more than 16) is refused by the dyadic product,
    whatever the operands are -/
theorem ctMultiplyDyadic_refuse_size (l : Level) (a b : Ct) (h : ctResizeRefuses (a.polys.size + b.polys.size - 1) = true) :
    ctMultiplyDyadic l a b = .error .refused := by
  unfold ctMultiplyDyadic
  split
  · rfl
  · simp only []
    split
    · rfl
    · first | rfl | rw [if_pos h]

/-- a successful dyadic product had an admissible destination size -/
theorem ctMultiplyDyadic_ok_size {l : Level} {a b r : Ct} (hr : ctMultiplyDyadic l a b = .ok r) :
    ctResizeRefuses (a.polys.size + b.polys.size - 1) = false := by
  cases h : ctResizeRefuses (a.polys.size + b.polys.size - 1) with
  | false => rfl
  | true => rw [ctMultiplyDyadic_refuse_size l a b h] at hr; cases hr

theorem ctMultiplyDyadic_ok_le16 {l : Level} {a b r : Ct} (hr : ctMultiplyDyadic l a b = .ok r) :
    a.polys.size + b.polys.size - 1 ≤ 16 := by
  have := (ctResizeRefuses_eq_false_iff _).mp (ctMultiplyDyadic_ok_size hr)
  omega

/-- V3 residues: the dyadic product of canonical NTT-form ciphertexts of ANY sizes n1, n2 with n1 + n2 − 1 ≤ 16 (a larger product is
    refused as in the code: `ctMultiplyDyadic_refuse_size`) succeeds, has n1 + n2 − 1 canonical polynomials, and residue (i, j) of polynomial k is Σ_{x + y = k} a_x[i][j] · b_y[i][j] mod q_i (the pairs are those of
    `mulPairs`, characterised by `mulPairs_spec`) -/
theorem ctMultiplyDyadic_spec {l : Level} (hq : c02v_QsWF l) {a b : Ct} (ha : CtCanon l a) (hb : CtCanon l b)
    (hna : a.ntt = true) (hnb : b.ntt = true) (hsz16 : a.polys.size + b.polys.size - 1 ≤ 16) :
    ∃ r, ctMultiplyDyadic l a b = .ok r ∧ r.polys.size = a.polys.size + b.polys.size - 1 ∧ r.ntt = true ∧ r.cf = a.cf ∧
      (∀ k, k < a.polys.size + b.polys.size - 1 → RnsCanon l (r.polys.getD k #[])) ∧
      (a.polys.size + b.polys.size - 1 ≤ 16 → CtCanon l r) ∧
      ∀ k, k < a.polys.size + b.polys.size - 1 → ∀ i, i < l.size → ∀ j, j < l.n →
        r.c02v_res k i j = ((mulPairs a.polys.size b.polys.size k).map (fun p => a.c02v_res p.1 i j * b.c02v_res p.2 i j)).sum
          % (l.q i).value := by
  have h2a := ha.two_le; have h2b := hb.two_le
  obtain ⟨z1, z2⟩ := c02v_rnsZero_spec hq
  obtain ⟨ys, hys, hall⟩ := c02v_mapM_ok
    (fun (k : Nat) (y : RnsPoly) => RnsCanon l y ∧ ∀ i, i < l.size → ∀ j, j < l.n →
      (y.getD i #[]).getD j 0 = ((mulPairs a.polys.size b.polys.size k).map (fun p => a.c02v_res p.1 i j * b.c02v_res p.2 i j)).sum
          % (l.q i).value)
    (fun k => (mulPairs a.polys.size b.polys.size k).foldlM (fun acc p => do
      let pr ← rnsDyadic l (a.polys.getD p.1 #[]) (b.polys.getD p.2 #[])
      rnsAdd l acc pr) (rnsZero l))
    (List.range (a.polys.size + b.polys.size - 1)) (fun k hk => by
      have hk := List.mem_range.mp hk
      obtain ⟨_, hmem⟩ := mulPairs_spec (n1 := a.polys.size) (n2 := b.polys.size) (by omega) (by omega) hk
      obtain ⟨r, hr, cr, vr⟩ := c02v_mulFold hq ha.canon hb.canon (mulPairs a.polys.size b.polys.size k) (rnsZero l) z1
        (fun p hp => by have := (hmem p.1 p.2).mp hp; exact ⟨this.1, this.2.1⟩)
      refine ⟨r, hr, cr, fun i hi j hj => ?_⟩
      rw [vr i hi j hj, z2 i hi j hj, Nat.zero_add])
  have hlen : ys.length = a.polys.size + b.polys.size - 1 := by rw [← hall.length_eq]; simp
  have hk : ∀ k, k < a.polys.size + b.polys.size - 1 → RnsCanon l (ys.toArray.getD k #[]) ∧ ∀ i, i < l.size → ∀ j, j < l.n →
      ((ys.toArray.getD k #[]).getD i #[]).getD j 0
        = ((mulPairs a.polys.size b.polys.size k).map (fun p => a.c02v_res p.1 i j * b.c02v_res p.2 i j)).sum % (l.q i).value := by
    intro k hk
    have := c02v_forall2_getD hall 0 #[] (k := k) (by simpa using hk)
    rw [← c02v_toArray_getD] at this
    have e : (List.range (a.polys.size + b.polys.size - 1)).getD k 0 = k := by
      simp [List.getD, List.getElem?_range hk]
    rw [e] at this
    exact this
  refine ⟨{ a with polys := ys.toArray }, ?_, by simp [hlen], hna, rfl, ?_, ?_, ?_⟩
  · unfold ctMultiplyDyadic
    rw [if_neg (by simp [hna, hnb])]
    simp only []
    rw [if_neg (by omega), if_neg (by rw [Bool.not_eq_true, ctResizeRefuses_eq_false_iff]; omega)]
    erw [hys]; rfl
  · intro k hk'
    exact (hk k hk').1
  · intro h16
    refine ⟨⟨?_, ?_, ?_⟩, ha.cf⟩
    · simp only [List.size_toArray, hlen]; omega
    · simp only [List.size_toArray, hlen]; omega
    · intro k hk'
      exact (hk k (by simpa [hlen] using hk')).1
  · intro k hk' i hi j hj
    exact (hk k hk').2 i hi j hj

/-- V3 phase: in every commutative ring in which `q_i = 0`, reading the NTT slots through orthogonal idempotents `e`
    (`e j = δ_j` in the product ring of the slots, or `e = δ_{j0}` for one slot), the phase of the result is the PRODUCT of
    the phases, for every secret `s` — `ct_mul_phase` of C02K instantiated with the model's output -/
theorem ctMultiplyDyadic_phase {S : Type} [CommRing S] {l : Level} (hq : c02v_QsWF l) {a b r : Ct} (ha : CtCanon l a)
    (hb : CtCanon l b) (hr : ctMultiplyDyadic l a b = .ok r)
    {i : Nat} (hi : i < l.size) (hS : (((l.q i).value : Nat) : S) = 0) (e : Nat → S)
    (he : ∀ j j', j < l.n → j' < l.n → e j * e j' = if j = j' then e j else 0) (s : S) :
    c02v_phase l r i e s = c02v_phase l a i e s * c02v_phase l b i e s := by
  have hna : a.ntt = true := by
    by_contra h; rw [ctMultiplyDyadic_refuse l a b (Or.inl (by simpa using h))] at hr; cases hr
  have hnb : b.ntt = true := by
    by_contra h; rw [ctMultiplyDyadic_refuse l a b (Or.inr (by simpa using h))] at hr; cases hr
  obtain ⟨r', hr', hsz, _, _, _, _, hres⟩ := ctMultiplyDyadic_spec hq ha hb hna hnb (ctMultiplyDyadic_ok_le16 hr)
  rw [hr] at hr'
  obtain rfl := Except.ok.inj hr'
  have h2a := ha.two_le; have h2b := hb.two_le
  unfold c02v_phase
  rw [hsz, ← ct_mul_phase (by omega) (by omega)]
  unfold ctPhase
  refine Finset.sum_congr rfl (fun k hk => ?_)
  have hk := Finset.mem_range.mp hk
  beta_reduce
  congr 1
  exact c02v_polyVal_mulsum hS e he (fun k => (a.polys.getD k #[]).getD i #[]) (fun k => (b.polys.getD k #[]).getD i #[])
    (mulPairs a.polys.size b.polys.size k) (fun j hj => hres k hk i hi j hj)

/-- V3 coefficient form (NTT multiplicativity of C09): for a level whose tables are well formed, the coefficient form
    `intt` of result polynomial k is Σ_{x + y = k} (intt a_x) ⊛ (intt b_y), the NEGACYCLIC products modulo (X^N + 1, q_i)
    (`negMulNat`), summed modulo q_i — i.e. the coefficient-form ciphertext is the Cauchy product of the coefficient-form
    operands in Z_{q_i}[X]/(X^N + 1), whose phase is the product of the phases by `ct_mul_phase` -/
theorem ctMultiplyDyadic_coeff {l : Level} (hl : l.WF) {a b r : Ct} (ha : CtCanon l a) (hb : CtCanon l b)
    (hr : ctMultiplyDyadic l a b = .ok r) :
    ∀ k, k < a.polys.size + b.polys.size - 1 → ∀ i, i < l.size → ∀ c, c < l.n →
      (intt (l.tbl i) ((r.polys.getD k #[]).getD i #[])).getD c 0 =
        ((mulPairs a.polys.size b.polys.size k).map (fun p => negMulNat l.n (l.q i).value
          (intt (l.tbl i) ((a.polys.getD p.1 #[]).getD i #[])) (intt (l.tbl i) ((b.polys.getD p.2 #[]).getD i #[])) c)).sum
          % (l.q i).value := by
  have hq := c02v_qsWF_of_levelWF hl
  have hna : a.ntt = true := by
    by_contra h; rw [ctMultiplyDyadic_refuse l a b (Or.inl (by simpa using h))] at hr; cases hr
  have hnb : b.ntt = true := by
    by_contra h; rw [ctMultiplyDyadic_refuse l a b (Or.inr (by simpa using h))] at hr; cases hr
  obtain ⟨r', hr', _, _, _, hcan, _, hres⟩ := ctMultiplyDyadic_spec hq ha hb hna hnb (ctMultiplyDyadic_ok_le16 hr)
  rw [hr] at hr'
  obtain rfl := Except.ok.inj hr'
  have h2a := ha.two_le; have h2b := hb.two_le
  intro k hk i hi c hc
  obtain ⟨htw, htm, htn, _⟩ := c01o_level_comp hl hi
  obtain ⟨_, hmem⟩ := mulPairs_spec (n1 := a.polys.size) (n2 := b.polys.size) (by omega) (by omega) hk
  have := c02v_comp_coeff htw (fun x => (a.polys.getD x #[]).getD i #[]) (fun y => (b.polys.getD y #[]).getD i #[])
    (mulPairs a.polys.size b.polys.size k)
    (fun p hp => by
      have hp1 := ((hmem p.1 p.2).mp hp).1
      rw [htn, htm]
      exact (ha.canon p.1 hp1).2 i hi)
    (fun p hp => by
      have hp2 := ((hmem p.1 p.2).mp hp).2.1
      rw [htn, htm]
      exact (hb.canon p.2 hp2).2 i hi)
    (z := (r.polys.getD k #[]).getD i #[])
    (by rw [htn]; exact ((hcan k hk).2 i hi).1)
    (fun j hj => by rw [htm]; exact hres k hk i hi j (by rw [← htn]; exact hj)) c (by rw [htn]; exact hc)
  rw [htn, htm] at this
  exact this

/-- V5 refusal: `multiply_plain_ntt` needs the ciphertext in NTT form -/
theorem ctMultiplyPlainNtt_refuse (l : Level) (a : Ct) (p : RnsPoly) (h : a.ntt = false) :
    ctMultiplyPlainNtt l a p = .error .refused := by
  unfold ctMultiplyPlainNtt
  rw [if_pos (by simp [h])]

/-- V5 residues: every polynomial of a canonical NTT-form ciphertext is multiplied dyadically by the canonical plaintext -/
theorem ctMultiplyPlainNtt_spec {l : Level} (hq : c02v_QsWF l) {a : Ct} (ha : CtCanon l a) (hna : a.ntt = true)
    {p : RnsPoly} (hp : RnsCanon l p) :
    ∃ r, ctMultiplyPlainNtt l a p = .ok r ∧ CtCanon l r ∧ r.polys.size = a.polys.size ∧ r.ntt = true ∧ r.cf = a.cf ∧
      ∀ k, k < a.polys.size → ∀ i, i < l.size → ∀ j, j < l.n →
        r.c02v_res k i j = (a.c02v_res k i j * (p.getD i #[]).getD j 0) % (l.q i).value := by
  obtain ⟨ys, hys, hall⟩ := c02v_mapM_ok
    (fun (c r : RnsPoly) => RnsCanon l r ∧ ∀ i, i < l.size → ∀ j, j < l.n →
      (r.getD i #[]).getD j 0 = ((c.getD i #[]).getD j 0 * (p.getD i #[]).getD j 0) % (l.q i).value)
    (fun c => rnsDyadic l c p) a.polys.toList (fun c hc => by
      obtain ⟨k, hk, rfl⟩ := List.mem_iff_getElem.mp hc
      have hk' : k < a.polys.size := by simpa using hk
      have hc := ha.canon k hk'
      have e : a.polys.getD k #[] = a.polys.toList[k] := by simp [Array.getD, hk']
      rw [e] at hc
      exact c02v_rnsDyadic_spec hq hc hp)
  have hlen : ys.length = a.polys.size := by rw [← hall.length_eq]; simp
  have hk : ∀ k, k < a.polys.size → RnsCanon l (ys.toArray.getD k #[]) ∧ ∀ i, i < l.size → ∀ j, j < l.n →
      ((ys.toArray.getD k #[]).getD i #[]).getD j 0
        = (((a.polys.getD k #[]).getD i #[]).getD j 0 * (p.getD i #[]).getD j 0) % (l.q i).value := by
    intro k hk
    have := c02v_forall2_getD hall #[] #[] (k := k) (by simpa using hk)
    rw [c02v_polys_getD a hk, ← c02v_toArray_getD] at this
    exact this
  refine ⟨{ a with polys := ys.toArray }, ?_, ⟨⟨?_, ?_, ?_⟩, ha.cf⟩, ?_, hna, rfl, ?_⟩
  · unfold ctMultiplyPlainNtt
    rw [if_neg (by simp [hna])]
    erw [hys]; rfl
  · simpa [hlen] using ha.two_le
  · simpa [hlen] using ha.le16
  · intro k hk'
    exact (hk k (by simpa [hlen] using hk')).1
  · simp [hlen]
  · intro k hk' i hi j hj
    exact (hk k hk').2 i hi j hj

/-- V5 phase: the phase is multiplied by the value of the plaintext (NTT slots read through orthogonal idempotents) -/
theorem ctMultiplyPlainNtt_phase {S : Type} [CommRing S] {l : Level} (hq : c02v_QsWF l) {a r : Ct} (ha : CtCanon l a)
    {p : RnsPoly} (hp : RnsCanon l p) (hr : ctMultiplyPlainNtt l a p = .ok r)
    {i : Nat} (hi : i < l.size) (hS : (((l.q i).value : Nat) : S) = 0) (e : Nat → S)
    (he : ∀ j j', j < l.n → j' < l.n → e j * e j' = if j = j' then e j else 0) (s : S) :
    c02v_phase l r i e s = c02v_phase l a i e s * c02v_polyVal e l.n (p.getD i #[]) := by
  have hna : a.ntt = true := by
    by_contra h; rw [ctMultiplyPlainNtt_refuse l a p (by simpa using h)] at hr; cases hr
  obtain ⟨r', hr', _, hsz, _, _, hres⟩ := ctMultiplyPlainNtt_spec hq ha hna hp
  rw [hr] at hr'
  obtain rfl := Except.ok.inj hr'
  unfold c02v_phase
  rw [hsz, ← mul_plain_phase]
  unfold ctPhase
  refine Finset.sum_congr rfl (fun k hk => ?_)
  have hk := Finset.mem_range.mp hk
  beta_reduce
  congr 1
  have := c02v_polyVal_mulsum hS e he (fun _ => (a.polys.getD k #[]).getD i #[]) (fun _ => p.getD i #[]) [(0, 0)]
    (r := (r.polys.getD k #[]).getD i #[]) (fun j hj => by
      simp only [List.map_cons, List.map_nil, List.sum_cons, List.sum_nil, Nat.add_zero]
      exact hres k hk i hi j hj)
  simpa using this

/-- V4 product: `bgvMultiply` is the dyadic product (all conclusions of `ctMultiplyDyadic_spec` / `_phase` apply to `c`) with the
    correction factor replaced by the product of the factors modulo t -/
theorem bgvMultiply_spec {l : Level} (ht : l.t.WF) {a b c : Ct} (hc : ctMultiplyDyadic l a b = .ok c)
    (h1 : a.cf < 2^64) (h2 : b.cf < 2^64) :
    bgvMultiply l a b = .ok { c with cf := (a.cf * b.cf) % l.t.value } := by
  unfold bgvMultiply
  rw [hc]
  simp only [bind, Except.bind, mulMod_exact ht h1 h2]
  rfl

theorem bgvMultiply_refuse (l : Level) (a b : Ct) (h : a.ntt = false ∨ b.ntt = false) :
    bgvMultiply l a b = .error .refused := by
  unfold bgvMultiply
  rw [ctMultiplyDyadic_refuse l a b h]
  rfl

/-- the product of unit correction factors is a unit in range, so the product of canonical BGV ciphertexts is canonical -/
theorem bgvMultiply_canon {l : Level} (hq : c02v_QsWF l) (ht : l.t.WF) {a b : Ct} (ha : CtCanon l a) (hb : CtCanon l b)
    (hna : a.ntt = true) (hnb : b.ntt = true) (hs : l.scheme = .bgv) (h16 : a.polys.size + b.polys.size - 1 ≤ 16)
    (c1 : Nat.Coprime a.cf l.t.value) (c2 : Nat.Coprime b.cf l.t.value) :
    ∃ r, bgvMultiply l a b = .ok r ∧ CtCanon l r ∧ r.cf = (a.cf * b.cf) % l.t.value ∧ Nat.Coprime r.cf l.t.value := by
  obtain ⟨c, hc, _, _, _, _, hcan, _⟩ := ctMultiplyDyadic_spec hq ha hb hna hnb h16
  have hfa := ha.cf; have hfb := hb.cf
  unfold c02v_cfOk at hfa hfb
  rw [hs] at hfa hfb
  simp only at hfa hfb
  have htlt := ht.lt
  have hcop : Nat.Coprime ((a.cf * b.cf) % l.t.value) l.t.value := by
    unfold Nat.Coprime
    rw [← Nat.gcd_rec, Nat.gcd_comm]
    exact Nat.Coprime.mul_left c1 c2
  refine ⟨_, bgvMultiply_spec ht hc (by omega) (by omega), ⟨⟨(hcan h16).two_le, (hcan h16).le16, (hcan h16).canon⟩, ?_⟩, rfl, hcop⟩
  unfold c02v_cfOk
  rw [hs]
  simp only
  have h2 := ht.two_le
  refine ⟨fun h0 => ?_, Nat.mod_lt _ (by omega)⟩
  rw [h0, Nat.Coprime, Nat.gcd_zero_left] at hcop
  omega

/-- V4 sum, equal factors: no balancing -/
theorem ctTranslateBalanced_same (l : Level) (a b : Ct) (sub : Bool) (h : a.cf = b.cf) :
    ctTranslateBalanced l a b sub = ctTranslate l a b sub := by
  unfold ctTranslateBalanced
  rw [if_pos h]

/-- V4 refusal: a first correction factor that is not a unit modulo t cannot be balanced -/
theorem ctTranslateBalanced_refuse {l : Level} (ht : l.t.WF) (a b : Ct) (sub : Bool) (hne : a.cf ≠ b.cf)
    (h1 : a.cf < 2^63) (hc : ¬ Nat.Coprime a.cf l.t.value) :
    ctTranslateBalanced l a b sub = .error .refused := by
  rw [c02v_balanced_eq l a b sub hne, c02v_balance_refuse ht b.cf h1 hc]
  rfl

/-- V4 sum, different factors: with the multipliers (f, e1, e2) returned by `balanceCorrectionFactors` (characterised by
    `balance_spec`: e1·f1 ≡ e2·f2 ≡ f mod t), the result has correction factor f and polynomial k is
    `e1·a_k ± e2·b_k` (all residue-wise mod q_i) with the tail of the longer operand scaled (and negated for a subtrahend) -/
theorem ctTranslateBalanced_spec {l : Level} (hq : c02v_QsWF l) (ht : l.t.WF) {a b : Ct} (ha : CtCanon l a) (hb : CtCanon l b)
    (sub : Bool) (hntt : a.ntt = b.ntt) (hne : a.cf ≠ b.cf) (h1 : a.cf < l.t.value) (h2 : b.cf < l.t.value)
    {f e1 e2 : Nat} (hbal : balanceCorrectionFactors a.cf b.cf l.t = .ok (f, e1, e2)) :
    ∃ r, ctTranslateBalanced l a b sub = .ok r ∧ c02v_PolysCanon l r ∧ r.polys.size = max a.polys.size b.polys.size ∧
      r.ntt = a.ntt ∧ r.cf = f ∧ f < l.t.value ∧ (e1 * a.cf) % l.t.value = f ∧ (e2 * b.cf) % l.t.value = f ∧
      e1 < l.t.value ∧ e2 < l.t.value ∧ Nat.Coprime a.cf l.t.value ∧
      (Nat.Coprime b.cf l.t.value → Nat.Coprime f l.t.value ∧ (l.scheme = .bgv → CtCanon l r)) ∧
      ∀ k, k < max a.polys.size b.polys.size → ∀ i, i < l.size → ∀ j, j < l.n →
        r.c02v_res k i j =
          if k < a.polys.size ∧ k < b.polys.size then
            (if sub then ((a.c02v_res k i j * e1) % (l.q i).value + (l.q i).value - (b.c02v_res k i j * e2) % (l.q i).value) % (l.q i).value
             else ((a.c02v_res k i j * e1) % (l.q i).value + (b.c02v_res k i j * e2) % (l.q i).value) % (l.q i).value)
          else if k < a.polys.size then (a.c02v_res k i j * e1) % (l.q i).value
          else (if sub then ((l.q i).value - (b.c02v_res k i j * e2) % (l.q i).value) % (l.q i).value
                else (b.c02v_res k i j * e2) % (l.q i).value) := by
  obtain ⟨a', b', heq, ca, sa, na, fa, ra, cb, sb, nb, fb, rb⟩ :=
    c02v_balanced_decomp hq ht ha.toc02v_PolysCanon hb.toc02v_PolysCanon sub hne h1 h2 hbal
  obtain ⟨s1, s2, s3⟩ := balance_spec ht h1 h2 hbal
  obtain ⟨i1, i2, i3, i4⟩ := c02v_balance_inv ht h1 h2 hbal
  obtain ⟨r, hr, cr, sr, nr, fr, rr⟩ := c02v_ctTranslate_core hq ca cb sub (by rw [na, nb, hntt]) (by rw [fa, fb])
  rw [sa, sb] at sr rr
  refine ⟨r, by rw [heq]; exact hr, cr, sr, by rw [nr, na], by rw [fr, fa], s3, s1, s2, i1, i2, i3, fun hcb => ?_, ?_⟩
  · obtain ⟨_, hcf⟩ := i4 hcb
    refine ⟨hcf, fun hs => ⟨cr, ?_⟩⟩
    unfold c02v_cfOk
    rw [hs, fr, fa]
    simp only
    have h2t := ht.two_le
    refine ⟨fun h0 => ?_, s3⟩
    rw [h0, Nat.Coprime, Nat.gcd_zero_left] at hcf
    omega
  · intro k hk i hi j hj
    rw [rr k hk i hi j hj]
    by_cases hka : k < a.polys.size <;> by_cases hkb : k < b.polys.size
    · simp only [hka, hkb, and_self, if_true, ra k hka i hi j hj, rb k hkb i hi j hj]
    · simp only [hka, hkb, and_false, if_true, if_false, ra k hka i hi j hj]
    · simp only [hka, hkb, false_and, if_false, rb k hkb i hi j hj]
    · omega

/-- V4 phase: in every commutative ring in which `q_i = 0`, phase(result) = e1·phase(a) ± e2·phase(b) -/
theorem ctTranslateBalanced_phase {S : Type} [CommRing S] {l : Level} (hq : c02v_QsWF l) (ht : l.t.WF) {a b r : Ct}
    (ha : CtCanon l a) (hb : CtCanon l b) {sub : Bool} (hne : a.cf ≠ b.cf) (h1 : a.cf < l.t.value) (h2 : b.cf < l.t.value)
    {f e1 e2 : Nat} (hbal : balanceCorrectionFactors a.cf b.cf l.t = .ok (f, e1, e2))
    (hr : ctTranslateBalanced l a b sub = .ok r)
    {i : Nat} (hi : i < l.size) (hS : (((l.q i).value : Nat) : S) = 0) (e : Nat → S) (s : S) :
    c02v_phase l r i e s = if sub then c02v_phase l a i e s * ((e1 : Nat) : S) - c02v_phase l b i e s * ((e2 : Nat) : S)
      else c02v_phase l a i e s * ((e1 : Nat) : S) + c02v_phase l b i e s * ((e2 : Nat) : S) := by
  obtain ⟨a', b', heq, ca, sa, na, fa, ra, cb, sb, nb, fb, rb⟩ :=
    c02v_balanced_decomp hq ht ha.toc02v_PolysCanon hb.toc02v_PolysCanon sub hne h1 h2 hbal
  rw [heq] at hr
  rw [c02v_ctTranslate_phase_core hq ca cb hr hi hS e s, c02v_scale_phase sa hi hS ra e s, c02v_scale_phase sb hi hS rb e s]

/-- V4 totality: for unit correction factors below t the balanced add / sub always succeeds -/
theorem ctTranslateBalanced_total {l : Level} (hq : c02v_QsWF l) (ht : l.t.WF) {a b : Ct} (ha : CtCanon l a) (hb : CtCanon l b)
    (sub : Bool) (hntt : a.ntt = b.ntt) (h1 : a.cf < l.t.value) (h2 : b.cf < l.t.value)
    (c1 : Nat.Coprime a.cf l.t.value) : ∃ r, ctTranslateBalanced l a b sub = .ok r := by
  by_cases hne : a.cf = b.cf
  · rw [ctTranslateBalanced_same l a b sub hne]
    obtain ⟨r, hr, _⟩ := ctTranslate_spec hq ha hb sub hntt hne
    exact ⟨r, hr⟩
  · obtain ⟨⟨f, e1, e2⟩, hbal⟩ := balance_total ht h1 h2 c1
    obtain ⟨r, hr, _⟩ := ctTranslateBalanced_spec hq ht ha hb sub hntt hne h1 h2 hbal
    exact ⟨r, hr⟩

/-- V4 decoding (per coefficient, `Spec.bgvDecode = map (c02v_dec t cf)`): if the exact phase coefficient of the balanced sum is
    congruent to e1·x1 ± e2·x2 modulo t (which the phase theorem gives as long as the integers do not wrap modulo Q), then
    decoding with the new factor f gives the sum resp. difference of the operands' decodings modulo t -/
theorem bgvDecode_balanced {t f1 f2 f e1 e2 : Nat} (ht : 2 ≤ t) (ht199 : t < 2^199)
    (c1 : Nat.Coprime f1 t) (c2 : Nat.Coprime f2 t) (cf : Nat.Coprime f t)
    (he1 : (e1 * f1) % t = f) (he2 : (e2 * f2) % t = f) (sub : Bool) {x x1 x2 : Int}
    (hx : x ≡ (if sub then (e1 : Int) * x1 - e2 * x2 else (e1 : Int) * x1 + e2 * x2) [ZMOD t]) :
    c02v_dec t f x = if sub then (c02v_dec t f1 x1 + t - c02v_dec t f2 x2) % t
      else (c02v_dec t f1 x1 + c02v_dec t f2 x2) % t := by
  have htpos : 0 < t := by omega
  have hI := c02v_inv_zmod ht ht199 cf
  have hI1 := c02v_inv_zmod ht ht199 c1
  have hI2 := c02v_inv_zmod ht ht199 c2
  have hF1 := c02v_modeq_zmod he1
  have hF2 := c02v_modeq_zmod he2
  push_cast at hF1 hF2
  have hX := (ZMod.intCast_eq_intCast_iff x _ t).mpr hx
  have hd : ∀ c y, ((c02v_dec t c y : Nat) : ZMod t) = ((y : Int) : ZMod t) * ((Spec.invMod c t : Nat) : ZMod t) := by
    intro c y
    unfold c02v_dec
    rw [ZMod.natCast_mod, Nat.cast_mul, c02v_imod_zmod y htpos]
  have hdlt : c02v_dec t f2 x2 < t := Nat.mod_lt _ htpos
  have k1 : ((e1 : Nat) : ZMod t) * ((Spec.invMod f t : Nat) : ZMod t) = ((Spec.invMod f1 t : Nat) : ZMod t) := by
    linear_combination (((Spec.invMod f t : Nat) : ZMod t) * ((Spec.invMod f1 t : Nat) : ZMod t)) * hF1
      - (((e1 : Nat) : ZMod t) * ((Spec.invMod f t : Nat) : ZMod t)) * hI1 + ((Spec.invMod f1 t : Nat) : ZMod t) * hI
  have k2 : ((e2 : Nat) : ZMod t) * ((Spec.invMod f t : Nat) : ZMod t) = ((Spec.invMod f2 t : Nat) : ZMod t) := by
    linear_combination (((Spec.invMod f t : Nat) : ZMod t) * ((Spec.invMod f2 t : Nat) : ZMod t)) * hF2
      - (((e2 : Nat) : ZMod t) * ((Spec.invMod f t : Nat) : ZMod t)) * hI2 + ((Spec.invMod f2 t : Nat) : ZMod t) * hI
  have hlhs : c02v_dec t f x = c02v_dec t f x % t := (Nat.mod_eq_of_lt (Nat.mod_lt _ htpos)).symm
  cases sub
  · simp only [Bool.false_eq_true, if_false] at hX ⊢
    rw [hlhs]
    apply (ZMod.natCast_eq_natCast_iff' _ _ t).mp
    rw [Nat.cast_add, hd, hd, hd, hX]
    push_cast
    linear_combination ((x1 : Int) : ZMod t) * k1 + ((x2 : Int) : ZMod t) * k2
  · simp only [if_true] at hX ⊢
    rw [hlhs]
    apply (ZMod.natCast_eq_natCast_iff' _ _ t).mp
    rw [Nat.cast_sub (by omega), Nat.cast_add, hd, hd, hd, hX, ZMod.natCast_self]
    push_cast
    linear_combination ((x1 : Int) : ZMod t) * k1 - ((x2 : Int) : ZMod t) * k2

/-- V4 decoding of a product: correction factors multiply, decodings multiply -/
theorem bgvDecode_mul {t f1 f2 : Nat} (ht : 2 ≤ t) (ht199 : t < 2^199)
    (c1 : Nat.Coprime f1 t) (c2 : Nat.Coprime f2 t) {x x1 x2 : Int} (hx : x ≡ x1 * x2 [ZMOD t]) :
    c02v_dec t ((f1 * f2) % t) x = (c02v_dec t f1 x1 * c02v_dec t f2 x2) % t := by
  have htpos : 0 < t := by omega
  have cf : Nat.Coprime ((f1 * f2) % t) t := by
    unfold Nat.Coprime
    rw [← Nat.gcd_rec, Nat.gcd_comm]
    exact Nat.Coprime.mul_left c1 c2
  have hI := c02v_inv_zmod ht ht199 cf
  have hI1 := c02v_inv_zmod ht ht199 c1
  have hI2 := c02v_inv_zmod ht ht199 c2
  rw [ZMod.natCast_mod, Nat.cast_mul] at hI
  have hX := (ZMod.intCast_eq_intCast_iff x _ t).mpr hx
  have hd : ∀ c y, ((c02v_dec t c y : Nat) : ZMod t) = ((y : Int) : ZMod t) * ((Spec.invMod c t : Nat) : ZMod t) := by
    intro c y
    unfold c02v_dec
    rw [ZMod.natCast_mod, Nat.cast_mul, c02v_imod_zmod y htpos]
  have k : ((Spec.invMod ((f1 * f2) % t) t : Nat) : ZMod t)
      = ((Spec.invMod f1 t : Nat) : ZMod t) * ((Spec.invMod f2 t : Nat) : ZMod t) := by
    linear_combination (((Spec.invMod f1 t : Nat) : ZMod t) * ((Spec.invMod f2 t : Nat) : ZMod t)) * hI
      - (((Spec.invMod ((f1 * f2) % t) t : Nat) : ZMod t) * ((f2 : Nat) : ZMod t) * ((Spec.invMod f2 t : Nat) : ZMod t)) * hI1
      - ((Spec.invMod ((f1 * f2) % t) t : Nat) : ZMod t) * hI2
  have hlhs : c02v_dec t ((f1 * f2) % t) x = c02v_dec t ((f1 * f2) % t) x % t :=
    (Nat.mod_eq_of_lt (Nat.mod_lt _ htpos)).symm
  rw [hlhs]
  apply (ZMod.natCast_eq_natCast_iff' _ _ t).mp
  rw [Nat.cast_mul, hd, hd, hd, hX, k]
  push_cast
  ring

/-- V4 decoding, whole polynomials under `Spec.bgvDecode` -/
theorem bgvDecode_balanced_poly {t f1 f2 f e1 e2 : Nat} (ht : 2 ≤ t) (ht199 : t < 2^199)
    (c1 : Nat.Coprime f1 t) (c2 : Nat.Coprime f2 t) (cf : Nat.Coprime f t)
    (he1 : (e1 * f1) % t = f) (he2 : (e2 * f2) % t = f) (sub : Bool) {ph ph1 ph2 : Spec.ZPoly}
    (hs1 : ph1.size = ph.size) (hs2 : ph2.size = ph.size)
    (hx : ∀ j, j < ph.size → ph.getD j 0 ≡
      (if sub then (e1 : Int) * ph1.getD j 0 - e2 * ph2.getD j 0 else (e1 : Int) * ph1.getD j 0 + e2 * ph2.getD j 0) [ZMOD t]) :
    ∀ j, j < ph.size → (Spec.bgvDecode t f ph).getD j 0 =
      if sub then ((Spec.bgvDecode t f1 ph1).getD j 0 + t - (Spec.bgvDecode t f2 ph2).getD j 0) % t
      else ((Spec.bgvDecode t f1 ph1).getD j 0 + (Spec.bgvDecode t f2 ph2).getD j 0) % t := by
  intro j hj
  have hm : ∀ (c : Nat) (p : Spec.ZPoly), j < p.size → (Spec.bgvDecode t c p).getD j 0 = c02v_dec t c (p.getD j 0) := by
    intro c p hp
    rw [c02v_bgvDecode_eq]
    simp [Array.getD, hp]
  rw [hm f ph hj, hm f1 ph1 (by omega), hm f2 ph2 (by omega)]
  exact bgvDecode_balanced ht ht199 c1 c2 cf he1 he2 sub (hx j hj)

/-- the example level with the COMPOSITE plain modulus t = 4 (same N = 2, q = 17·17) -/
def c02v_exT4 : Modulus := ⟨4, (2^128 / 4) % B64, (2^128 / 4) / B64, 2^128 % 4, bitCount 4⟩
def c02v_exLevel4 : Level := { c02v_exLevel with t := c02v_exT4 }

theorem c02v_exT4_wf : c02v_exLevel4.t.WF := (Modulus.mk?_wf (v := 4) (m := c02v_exT4) rfl (by decide)).1

theorem c02v_exLevel4_qsWF : c02v_QsWF c02v_exLevel4 := c02v_exLevel_qsWF

/-- `c02v_exCt2` (correction factor 2, a NON-UNIT modulo 4 in the accepted range [1, t − 1]) is canonical at the composite level -/
theorem c02v_exCt2_canon4 : CtCanon c02v_exLevel4 c02v_exCt2 :=
  ⟨⟨c02v_exCt2_canon.two_le, c02v_exCt2_canon.le16, c02v_exCt2_canon.canon⟩, by decide, by decide⟩

/-- REMARK (validity predicate, not the arithmetic): `ctValid` / `c02v_cfOk` accept exactly the BGV correction factors 1 ≤ cf ≤ t − 1
    (the factor t itself is rejected since the repair of `is_metadata_valid_for`).  For a COMPOSITE plain modulus that range still
    contains non-units; the product of two such ciphertexts can have correction factor 0, which the same predicate rejects —
    canonicity is preserved by `bgvMultiply` for unit factors (`bgvMultiply_canon`), hence for every factor in range when t is prime.
    Witness at the composite example level (t = 4, cf = 2, 2·2 ≡ 0). -/
theorem c02v_bgvMultiply_cf_zero_witness :
    ∃ a r, CtCanon c02v_exLevel4 a ∧ bgvMultiply c02v_exLevel4 a c02v_exCt2 = .ok r ∧ r.cf = 0 := by
  have ha : CtCanon c02v_exLevel4 c02v_exCt2 := c02v_exCt2_canon4
  obtain ⟨c, hc, _⟩ := ctMultiplyDyadic_spec c02v_exLevel4_qsWF ha ha rfl rfl (by decide)
  refine ⟨_, _, ha, bgvMultiply_spec c02v_exT4_wf hc (by decide) (by decide), ?_⟩
  show (2 * 2) % 4 = 0
  rfl

/-! ### hypotheses are satisfiable / specialisations -/

/-- `CtCanon` is what the model's validator `ctValid` (`Ciphertext::is_valid_for`) establishes for a non-empty ciphertext -/
theorem CtCanon.of_ctValid {l : Level} {ct : Ct} {s1 s2 : Bool} (h : ctValid l ct s1 s2 = true)
    (h0 : ct.polys.size ≠ 0) : CtCanon l ct := by
  unfold ctValid at h
  simp only [Bool.and_eq_true, decide_eq_true_eq, Array.all_eq_true, List.all_eq_true, List.mem_range] at h
  obtain ⟨⟨⟨hsz, hshape⟩, _⟩, hcf⟩ := h
  refine ⟨⟨by omega, by omega, fun k hk => ?_⟩, ?_⟩
  · obtain ⟨h1, h2⟩ := hshape k hk
    have e : ct.polys.getD k #[] = ct.polys[k] := by simp [Array.getD, hk]
    rw [e]
    refine ⟨h1, fun i hi => ⟨(h2 i hi).1, fun j hj => ?_⟩⟩
    have hj' : j < (Array.getD ct.polys[k] i #[]).size := by rw [(h2 i hi).1]; exact hj
    have key : ∀ (arr : Array Nat) (j : Nat) (hj' : j < arr.size), arr[j] < (l.q i).value → arr.getD j 0 < (l.q i).value := by
      intro arr j hj' h; simpa [Array.getD, hj'] using h
    exact key _ j hj' ((h2 i hi).2 j hj')
  · unfold c02v_cfOk
    cases hs : l.scheme <;> rw [hs] at hcf <;> simpa using hcf

/-- moduli produced by the model's constructor `Modulus.mk?` are well formed -/
theorem c02v_qsWF_of_mk {l : Level} (h : ∀ i, i < l.size → ∃ v, v ≠ 0 ∧ Modulus.mk? v = .ok (l.q i)) : c02v_QsWF l :=
  fun i hi => let ⟨_, hv, hm⟩ := h i hi; (Modulus.mk?_wf hm hv).1

/-- one NTT slot, in `ZMod q_i` (the reading `e = δ_j`; `q_i = 0` holds by `ZMod.natCast_self`): the slot-wise phase of the
    dyadic product is the product of the slot-wise phases, for every value `s` of the secret in that slot -/
theorem ctMultiplyDyadic_slot {l : Level} (hq : c02v_QsWF l) {a b r : Ct} (ha : CtCanon l a) (hb : CtCanon l b)
    (hr : ctMultiplyDyadic l a b = .ok r) {i : Nat} (hi : i < l.size) {j : Nat} (hj : j < l.n) (s : ZMod (l.q i).value) :
    ctPhase r.polys.size (fun k => ((r.c02v_res k i j : Nat) : ZMod (l.q i).value)) s
      = ctPhase a.polys.size (fun k => ((a.c02v_res k i j : Nat) : ZMod (l.q i).value)) s
        * ctPhase b.polys.size (fun k => ((b.c02v_res k i j : Nat) : ZMod (l.q i).value)) s := by
  have := ctMultiplyDyadic_phase hq ha hb hr hi (ZMod.natCast_self _) (c02v_delta j) (c02v_delta_orth j l.n) s
  rwa [c02v_phase_delta l r i hj, c02v_phase_delta l a i hj, c02v_phase_delta l b i hj] at this

/-- the hypotheses are jointly satisfiable (non-trivial instance: 2 moduli, N = 2, size 3, BGV factors 3 and 3 resp. 3 and 2) -/
example : ∃ r, ctNegate c02v_exLevel c02v_exCt = .ok r ∧ CtCanon c02v_exLevel r :=
  let ⟨r, h, c, _⟩ := ctNegate_spec c02v_exLevel_qsWF c02v_exCt_canon
  ⟨r, h, c⟩

example : ∃ r, ctMultiplyDyadic c02v_exLevel c02v_exCt c02v_exCt = .ok r ∧ r.polys.size = 5 :=
  let ⟨r, h, sz, _⟩ := ctMultiplyDyadic_spec c02v_exLevel_qsWF c02v_exCt_canon c02v_exCt_canon rfl rfl (by decide)
  ⟨r, h, sz⟩

example : ∃ r, ctTranslateBalanced c02v_exLevel c02v_exCt c02v_exCt2 true = .ok r :=
  ctTranslateBalanced_total c02v_exLevel_qsWF c02v_exT_wf c02v_exCt_canon c02v_exCt2_canon true rfl
    (by decide) (by decide) (by decide)

end HC
