/- Task N — NON-VACUITY: concrete, non-trivial instances of every hypothesis bundle the property theorems (Props/C*.lean) are stated
   under, derived from the model's constructors where a constructor theorem exists, and instantiations of the main end theorems on
   these instances.  All helper names carry the tag `nv_`.

   Concrete world: N = 4 (k = 2), coefficient moduli q = {97, 113} (both ≡ 1 mod 8), plain modulus t = 17 (≡ 1 mod 8, batching),
   auxiliary 61-bit primes ≡ 1 mod 8 for the BEHZ tool. -/
import Heathcliff.Proofs.C01O
import Heathcliff.Proofs.C01J
import Heathcliff.Proofs.C09G
import Heathcliff.Proofs.C10H
import Heathcliff.Proofs.C10I
import Heathcliff.Proofs.C04M
import Heathcliff.Proofs.C11N
import Heathcliff.Proofs.C02K
import Heathcliff.Proofs.C12A
import Heathcliff.Proofs.C19
import Heathcliff.Proofs.C20D
import Mathlib.Tactic.NormNum.Prime
import Heathcliff.Proofs.CodecExact
import Heathcliff.Proofs.C16B
import Heathcliff.Props.C13
import Heathcliff.Props.C14
import Heathcliff.Props.C17
import Heathcliff.Props.C18
import Heathcliff.Model.Evaluator
import Heathcliff.Model.KeySwitch
import Heathcliff.Proofs.C07L
import Heathcliff.Proofs.C08C
namespace HC
set_option warn.classDefReducibility false

/-! ## decidable equality / decidability helpers (local instances only) -/

def nv_decModulus : DecidableEq Modulus := fun a b =>
  decidable_of_iff (a.value = b.value ∧ a.cr0 = b.cr0 ∧ a.cr1 = b.cr1 ∧ a.cr2 = b.cr2 ∧ a.bits = b.bits)
    (by cases a; cases b; simp)
def nv_decMulOperand : DecidableEq MulOperand := fun a b =>
  decidable_of_iff (a.operand = b.operand ∧ a.quotient = b.quotient) (by cases a; cases b; simp)
attribute [local instance] nv_decModulus nv_decMulOperand
def nv_decNTTTables : DecidableEq NTTTables := fun a b =>
  decidable_of_iff (a.k = b.k ∧ a.modulus = b.modulus ∧ a.root = b.root ∧ a.rootPowers = b.rootPowers ∧
      a.invRootPowers = b.invRootPowers ∧ a.invDegree = b.invDegree) (by cases a; cases b; simp)
def nv_decRNSBase : DecidableEq RNSBase := fun a b =>
  decidable_of_iff (a.base = b.base ∧ a.prod = b.prod ∧ a.punct = b.punct ∧ a.invPunct = b.invPunct)
    (by cases a; cases b; simp)
attribute [local instance] nv_decNTTTables nv_decRNSBase
def nv_decWFOp (m : Modulus) (o : MulOperand) : Decidable (WFOp m o) :=
  inferInstanceAs (Decidable (o.operand < m.value ∧ o.quotient = o.operand * 2^64 / m.value))
def nv_decModWF (m : Modulus) : Decidable m.WF :=
  decidable_of_iff (2 ≤ m.value ∧ m.value < 2^61 ∧ m.cr0 + B64 * m.cr1 = 2^128 / m.value ∧ m.cr0 < B64 ∧ m.cr2 = 2^128 % m.value)
    ⟨fun ⟨a, b, c, d, e⟩ => ⟨a, b, c, d, e⟩, fun ⟨a, b, c, d, e⟩ => ⟨a, b, c, d, e⟩⟩
def nv_decRnsCanon (l : Level) (p : RnsPoly) : Decidable (RnsCanon l p) :=
  inferInstanceAs (Decidable (p.size = l.size ∧ ∀ i, i < l.size → (p.getD i #[]).size = l.n ∧
    ∀ j, j < l.n → (p.getD i #[]).getD j 0 < (l.q i).value))
attribute [local instance] nv_decWFOp nv_decModWF nv_decRnsCanon

theorem nv_ok_of_toOption {α : Type} {r : R α} {a : α} (h : r.toOption = some a) : r = .ok a := by
  cases r with
  | error e => simp [Except.toOption] at h
  | ok b => simp [Except.toOption] at h; rw [h]

/-- a constructor that succeeds returns `(r.toOption.getD d)` -/
theorem nv_ok_of_isOk {α : Type} {r : R α} (d : α) (h : r.toOption.isSome = true) : r = .ok (r.toOption.getD d) := by
  cases r with
  | error e => simp [Except.toOption] at h
  | ok b => simp [Except.toOption]

theorem nv_some_of_isSome {α : Type} {o : Option α} (d : α) (h : o.isSome = true) : o = some (o.getD d) := by
  cases o with
  | none => simp at h
  | some b => simp

def nv_errOf {α : Type} : R α → Option Err
  | .error e => some e
  | .ok _ => none
theorem nv_err_of {α : Type} {r : R α} {e : Err} (h : nv_errOf r = some e) : r = .error e := by
  cases r with
  | error e' => simp [nv_errOf] at h; rw [h]
  | ok b => simp [nv_errOf] at h

/-! ## `Modulus.WF` — from `Modulus.mk?` + `Modulus.mk?_wf` -/

def nv_m17 : Modulus := ⟨17, 1085102592571150095, 1085102592571150095, 1, 5⟩
def nv_m97 : Modulus := ⟨97, 11600529778312192253, 190172619316593315, 35, 7⟩
def nv_m113 : Modulus := ⟨113, 4897365683285721667, 163245522776190722, 109, 7⟩
theorem nv_m17_mk : Modulus.mk? 17 = .ok nv_m17 := by rfl
theorem nv_m97_mk : Modulus.mk? 97 = .ok nv_m97 := by rfl
theorem nv_m113_mk : Modulus.mk? 113 = .ok nv_m113 := by rfl
theorem nv_m17_wf : nv_m17.WF := (Modulus.mk?_wf nv_m17_mk (by decide)).1
theorem nv_m97_wf : nv_m97.WF := (Modulus.mk?_wf nv_m97_mk (by decide)).1
theorem nv_m113_wf : nv_m113.WF := (Modulus.mk?_wf nv_m113_mk (by decide)).1

/-- refusals of the constructor: 1 and values of more than 61 bits -/
theorem nv_mk_refuses : Modulus.mk? 1 = .error .refused ∧ Modulus.mk? (2^61) = .error .refused := ⟨by rfl, by rfl⟩

/-! ## `WFOp` — from `MulOperand.new` + `mulOperand_new` -/

theorem nv_op_new : MulOperand.new 22 nv_m97 = .ok ⟨22, 4183797624965052943⟩ := nv_ok_of_toOption (by decide +kernel)
theorem nv_op_wf : WFOp nv_m97 ⟨22, 4183797624965052943⟩ := by
  obtain ⟨o, ho, h1, h2⟩ := mulOperand_new nv_m97_wf (y := 22) (by decide)
  rw [nv_op_new] at ho; cases ho; exact ⟨by rw [h1]; decide, by rw [h2, h1]⟩

/-! ## `NTTTables.WF` — from `NTTTables.new` + `NTTTables.new_wf_u64` -/

def nv_t17 : NTTTables := ⟨2, nv_m17, 2,
  #[⟨1, 1085102592571150095⟩, ⟨4, 4340410370284600380⟩, ⟨2, 2170205185142300190⟩, ⟨8, 8680820740569200760⟩],
  #[⟨1, 1085102592571150095⟩, ⟨9, 9765923333140350855⟩, ⟨15, 16276538888567251425⟩, ⟨13, 14106333703424951235⟩],
  ⟨13, 14106333703424951235⟩⟩
def nv_t97 : NTTTables := ⟨2, nv_m97, 33,
  #[⟨1, 190172619316593315⟩, ⟨22, 4183797624965052943⟩, ⟨33, 6275696437447579415⟩, ⟨47, 8938113107879885834⟩],
  #[⟨1, 190172619316593315⟩, ⟨50, 9508630965829665781⟩, ⟨64, 12171047636261972200⟩, ⟨75, 14262946448744498672⟩],
  ⟨73, 13882601210111312040⟩⟩
def nv_t113 : NTTTables := ⟨2, nv_m113, 18,
  #[⟨1, 163245522776190722⟩, ⟨98, 15998061232066690782⟩, ⟨18, 2938419409971433000⟩, ⟨69, 11263941071557159836⟩],
  #[⟨1, 163245522776190722⟩, ⟨44, 7182803002152391779⟩, ⟨95, 15508324663738118615⟩, ⟨15, 2448682841642860833⟩],
  ⟨85, 13875869435976211392⟩⟩

/-- the random root search may hand in ANY primitive root: 2, 8, 9, 15 all give the same table (root 2) -/
theorem nv_t17_new : NTTTables.new 2 nv_m17 true 2 = .ok nv_t17 ∧ NTTTables.new 2 nv_m17 true 15 = .ok nv_t17 :=
  ⟨nv_ok_of_toOption (by decide +kernel), nv_ok_of_toOption (by decide +kernel)⟩
theorem nv_t97_new : NTTTables.new 2 nv_m97 true 64 = .ok nv_t97 := nv_ok_of_toOption (by decide +kernel)
theorem nv_t113_new : NTTTables.new 2 nv_m113 true 95 = .ok nv_t113 := nv_ok_of_toOption (by decide +kernel)
theorem nv_t17_wf : nv_t17.WF := (NTTTables.new_wf_u64 nv_m17_wf (by decide) (by decide) nv_t17_new.1).1
theorem nv_t97_wf : nv_t97.WF := (NTTTables.new_wf_u64 nv_m97_wf (by decide) (by decide) nv_t97_new).1
theorem nv_t113_wf : nv_t113.WF := (NTTTables.new_wf_u64 nv_m113_wf (by decide) (by decide) nv_t113_new).1

/-- refusals: not flagged prime; 2N ∤ q − 1 (N = 16, q = 17); not a primitive root (4^4 = 1 mod 17) -/
theorem nv_tables_refuse :
    NTTTables.new 2 nv_m17 false 2 = .error .refused ∧ NTTTables.new 4 nv_m17 true 2 = .error .refused ∧
    NTTTables.new 2 nv_m17 true 4 = .error .refused :=
  ⟨by rfl, by rfl, nv_err_of (by decide +kernel)⟩

/-! ## `RNSBase.WF` — from `RNSBase.new` + `RNSBase.new_wf` -/

def nv_base : RNSBase := ⟨#[nv_m97, nv_m113], 10961, #[113, 97], #[⟨91, 17305708357809991722⟩, ⟨7, 1142718659433335055⟩]⟩
theorem nv_base_new : RNSBase.new [nv_m97, nv_m113] = .ok nv_base := nv_ok_of_toOption (by decide +kernel)
theorem nv_base_wf : nv_base.WF :=
  (RNSBase.new_wf (by intro m hm; simp at hm; rcases hm with rfl | rfl; exact nv_m97_wf; exact nv_m113_wf) (by decide) nv_base_new).1

/-- single-modulus base (the code path that does not reduce) -/
def nv_base17 : RNSBase := ⟨#[nv_m17], 17, #[1], #[⟨1, 1085102592571150095⟩]⟩
theorem nv_base17_new : RNSBase.new [nv_m17] = .ok nv_base17 := nv_ok_of_toOption (by decide +kernel)
theorem nv_base17_wf : nv_base17.WF :=
  (RNSBase.new_wf (by intro m hm; simp at hm; rcases hm with rfl; exact nv_m17_wf) (by decide) nv_base17_new).1

/-- refusals: empty base, non-coprime moduli -/
theorem nv_base_refuse : RNSBase.new [] = .error .refused ∧ RNSBase.new [nv_m97, nv_m97] = .error .refused :=
  ⟨by rfl, nv_err_of (by decide +kernel)⟩

/-! ## the BEHZ tool — from `RNSTool.new` (no constructor theorem exists: fields are proved for the instance) -/

def nv_a0 : Modulus := ⟨2305843009213693921, 1984, 8, 61504, 61⟩
def nv_a1 : Modulus := ⟨2305843009213693561, 25024, 8, 9784384, 61⟩
def nv_a2 : Modulus := ⟨2305843009213693193, 48576, 8, 36869184, 61⟩
def nv_a3 : Modulus := ⟨2305843009213693153, 51136, 8, 40857664, 61⟩
theorem nv_aux_mk : Modulus.mk? 2305843009213693921 = .ok nv_a0 ∧ Modulus.mk? 2305843009213693561 = .ok nv_a1 ∧
    Modulus.mk? 2305843009213693193 = .ok nv_a2 ∧ Modulus.mk? 2305843009213693153 = .ok nv_a3 := ⟨by rfl, by rfl, by rfl, by rfl⟩

/-- `RNSTool::new(4, {97, 113}, 17)` with the auxiliary primes `get_primes(8, 61, 4)` -/
def nv_tool : RNSTool := (RNSTool.new 4 nv_base nv_m17 [nv_a0, nv_a1, nv_a2, nv_a3]).toOption.getD default
theorem nv_tool_new : RNSTool.new 4 nv_base nv_m17 [nv_a0, nv_a1, nv_a2, nv_a3] = .ok nv_tool :=
  nv_ok_of_isOk default (by decide +kernel)

/-- refusals: N not a power of two; too few auxiliary primes -/
theorem nv_tool_refuse : RNSTool.new 6 nv_base nv_m17 [nv_a0, nv_a1, nv_a2, nv_a3] = .error .refused ∧
    RNSTool.new 4 nv_base nv_m17 [nv_a0, nv_a1] = .error .refused :=
  ⟨nv_err_of (by decide +kernel), nv_err_of (by decide +kernel)⟩

/-! ## `Level.WF`, `RnsCanon` -/

def nv_level : Level := ⟨.bfv, 4, 2, #[nv_m97, nv_m113], nv_m17, #[nv_t97, nv_t113], nv_tool⟩

theorem nv_level_wf : nv_level.WF := by
  refine ⟨by rfl, by rfl, ?_⟩
  intro i hi
  have hi' : i < 2 := hi
  interval_cases i
  · exact ⟨nv_t97_wf, by rfl, by rfl⟩
  · exact ⟨nv_t113_wf, by rfl, by rfl⟩

/-- two canonical RNS polynomials (c0, c1), non-zero in every component, values up to q_i − 1 -/
def nv_c0 : RnsPoly := #[#[96, 5, 0, 41], #[112, 7, 100, 3]]
def nv_c1 : RnsPoly := #[#[1, 95, 50, 2], #[110, 0, 9, 64]]
theorem nv_c0_canon : RnsCanon nv_level nv_c0 := by decide +kernel
theorem nv_c1_canon : RnsCanon nv_level nv_c1 := by decide +kernel
/-- non-canonical: a residue equal to its modulus, a component of the wrong length -/
theorem nv_not_canon : ¬ RnsCanon nv_level #[#[97, 5, 0, 41], #[112, 7, 100, 3]] ∧ ¬ RnsCanon nv_level #[#[1, 2, 3], #[1, 2, 3, 4]] :=
  ⟨by decide +kernel, by decide +kernel⟩

/-- a ternary secret key of full length -/
def nv_sk : Array Int := #[1, -1, 0, 1]

/-! ## `FreshOK`, `IsPrim` -/

/-- the concrete world satisfies the fresh-noise condition: Q = 97·113 = 10961, t = 17, N = 4 -/
theorem nv_freshOK : FreshOK 4 17 10961 := by unfold FreshOK; decide
/-- … and it is a real restriction -/
theorem nv_not_freshOK : ¬ FreshOK 4 17 6460 := by unfold FreshOK; decide
theorem nv_isPrim : IsPrim 4 97 33 ∧ IsPrim 4 113 18 ∧ IsPrim 4 17 2 ∧ ¬ IsPrim 4 17 4 := by unfold IsPrim; decide

/-! ## end theorems instantiated on the concrete world -/

/-- C01 `dotProduct_size2_coeff` on (c0, c1), sk = 1 − X + X³, with the value the model computes -/
theorem nv_dot_coeff :
    ∃ ph, dotProductCtSk nv_level nv_sk ⟨#[nv_c0, nv_c1], false, 1⟩ = .ok ph ∧ RnsCanon nv_level ph ∧
      ph = #[#[4, 49, 50, 91], #[60, 1, 45, 55]] ∧
      ∀ i, i < nv_level.size → ∀ j, j < nv_level.n →
        (ph.getD i #[]).getD j 0 =
          ((nv_c0.getD i #[]).getD j 0 + negMulNat nv_level.n (nv_level.q i).value (nv_c1.getD i #[]) (skRes nv_level nv_sk i) j)
            % (nv_level.q i).value := by
  obtain ⟨ph, h1, h2, h3⟩ := dotProduct_size2_coeff nv_level_wf (sk := nv_sk) (by rfl) nv_c0_canon nv_c1_canon
  have hv : dotProductCtSk nv_level nv_sk ⟨#[nv_c0, nv_c1], false, 1⟩ = .ok #[#[4, 49, 50, 91], #[60, 1, 45, 55]] :=
    nv_ok_of_toOption (by decide +kernel)
  refine ⟨ph, h1, h2, ?_, h3⟩
  rw [hv] at h1; cases h1; rfl

/-- C01 `dotProduct_size2_ntt` on the same operands read as NTT-form polynomials -/
theorem nv_dot_ntt :
    ∃ ph, dotProductCtSk nv_level nv_sk ⟨#[nv_c0, nv_c1], true, 1⟩ = .ok ph ∧ RnsCanon nv_level ph ∧
      ph = #[#[14, 31, 29, 71], #[69, 7, 102, 54]] ∧
      ∀ i, i < nv_level.size → ∀ j, j < nv_level.n →
        (intt (nv_level.tbl i) (ph.getD i #[])).getD j 0 =
          ((intt (nv_level.tbl i) (nv_c0.getD i #[])).getD j 0 +
            negMulNat nv_level.n (nv_level.q i).value (intt (nv_level.tbl i) (nv_c1.getD i #[])) (skRes nv_level nv_sk i) j)
              % (nv_level.q i).value := by
  obtain ⟨ph, h1, h2, h3⟩ := dotProduct_size2_ntt nv_level_wf (sk := nv_sk) (by rfl) nv_c0_canon nv_c1_canon
  have hv : dotProductCtSk nv_level nv_sk ⟨#[nv_c0, nv_c1], true, 1⟩ = .ok #[#[14, 31, 29, 71], #[69, 7, 102, 54]] :=
    nv_ok_of_toOption (by decide +kernel)
  refine ⟨ph, h1, h2, ?_, h3⟩
  rw [hv] at h1; cases h1; rfl

/-- refusal: a ciphertext of size 1 -/
theorem nv_dot_refuse : dotProductCtSk nv_level nv_sk ⟨#[nv_c0], false, 1⟩ = .error .refused := by rfl

/-- C10 `compose_decompose` at v = 10000 < 97·113, with the residues -/
theorem nv_compose_decompose : ∃ rs, nv_base.decompose 10000 = .ok rs ∧ nv_base.compose rs = .ok 10000 ∧ rs = #[9, 56] := by
  obtain ⟨rs, h1, h2⟩ := compose_decompose nv_base_wf (v := 10000) (by decide)
  have hv : nv_base.decompose 10000 = .ok #[9, 56] := nv_ok_of_toOption (by decide +kernel)
  refine ⟨rs, h1, h2, ?_⟩
  rw [hv] at h1; cases h1; rfl

/-- the converter {97, 113} → {17}: matrix of (Q/q_j) mod 17 -/
def nv_conv : BaseConverter := ⟨nv_base, nv_base17, #[#[11, 12]]⟩
theorem nv_conv_new : BaseConverter.new nv_base nv_base17 = .ok nv_conv :=
  (BaseConverter.new_eq nv_base_wf nv_base17_wf).trans (by rfl)

/-- C10 `fastConvert_spec` {97, 113} → {17} at x = 5000: the overshoot alpha is 1 here (output 15 = (5000 + 10961) mod 17) -/
theorem nv_fastConvert : ∃ out alpha, nv_conv.fastConvert #[53, 28] = .ok out ∧
    out.size = 1 ∧ alpha < 2 ∧ out.getD 0 0 = (5000 + alpha * 10961) % 17 ∧ out = #[15] := by
  obtain ⟨out, alpha, h1, h2, h3, h4⟩ := fastConvert_spec nv_base_wf nv_base17_wf nv_conv_new (xs := #[53, 28]) (x := 5000) (by rfl)
    (by decide +kernel) (by decide) (by decide +kernel)
  have hv : nv_conv.fastConvert #[53, 28] = .ok #[15] := nv_ok_of_toOption (by decide +kernel)
  refine ⟨out, alpha, h1, h2, h3, h4 0 (by decide), ?_⟩
  rw [hv] at h1; cases h1; rfl

/-- C04 `galoisApply_spec`: X ↦ X³ on 96 + 5X + 7X² + 41X³ mod (X⁴ + 1, 97) -/
theorem nv_galois : ∃ r, galoisApply 2 #[96, 5, 7, 41] 3 nv_m97 = .ok r ∧ r = #[96, 41, 90, 5] ∧ ∀ i, i < 2^2 →
    r.getD ((i * 3) % 2^2) 0 = (if ((i * 3) / 2^2) % 2 = 1 then (nv_m97.value - (#[96, 5, 7, 41] : Array Nat).getD i 0) % nv_m97.value
      else (#[96, 5, 7, 41] : Array Nat).getD i 0) := by
  obtain ⟨r, h1, _, h3⟩ := galoisApply_spec (k := 2) (g := 3) nv_m97_wf (by decide) (a := #[96, 5, 7, 41]) (by rfl) (by decide +kernel)
  have hv : galoisApply 2 #[96, 5, 7, 41] 3 nv_m97 = .ok #[96, 41, 90, 5] := nv_ok_of_toOption (by decide +kernel)
  refine ⟨r, h1, ?_, h3⟩
  rw [hv] at h1; cases h1; rfl

/-- C09 round trip and convolution on the table of 97 -/
theorem nv_ntt_roundtrip : ntt nv_t97 #[96, 5, 0, 41] = #[54, 41, 35, 60] ∧ intt nv_t97 (ntt nv_t97 #[96, 5, 0, 41]) = #[96, 5, 0, 41] ∧
    ntt nv_t97 (intt nv_t97 #[96, 5, 0, 41]) = #[96, 5, 0, 41] :=
  ⟨by decide +kernel, intt_ntt nv_t97_wf _ (by rfl) (by decide +kernel), ntt_intt nv_t97_wf _ (by rfl) (by decide +kernel)⟩

theorem nv_ntt_convolution : ∃ p, dyadicProduct (ntt nv_t97 #[96, 5, 0, 41]) (ntt nv_t97 #[1, 95, 50, 2]) nv_m97 = .ok p ∧
    ∀ c, c < 4 → (intt nv_t97 p).getD c 0 = negMulNat 4 97 #[96, 5, 0, 41] #[1, 95, 50, 2] c := by
  obtain ⟨p, h1, _, h3⟩ := ntt_convolution_api nv_t97_wf #[96, 5, 0, 41] #[1, 95, 50, 2] (by rfl) (by rfl) (by decide +kernel) (by decide +kernel)
  exact ⟨p, h1, h3⟩

/-- C11 decode ∘ encode on a short slot vector (zero padded), plain modulus 17, N = 4 -/
theorem nv_batch : ∃ p, batchEncode nv_t17 #[3, 16, 0] = .ok p ∧ p = #[9, 3, 13, 9] ∧
    ∀ i, i < 4 → (batchDecode nv_t17 p).getD i 0 = (#[3, 16, 0] : Array Nat).getD i 0 := by
  obtain ⟨p, h1, _, _, h4⟩ := batch_decode_encode nv_t17_wf (by decide) #[3, 16, 0] (by decide) (by decide +kernel)
  have hv : batchEncode nv_t17 #[3, 16, 0] = .ok #[9, 3, 13, 9] := nv_ok_of_toOption (by decide +kernel)
  refine ⟨p, h1, ?_, h4⟩
  rw [hv] at h1; cases h1; rfl

/-! ## RNSTool-level hypothesis bundles of C10 (`divideAndRoundQLast_spec`, `modTAndDivideQLast_spec`, `decryptScaleAndRound_spec`,
      `smMrq_spec`, `fastFloor_spec`, `fastbconvSk_spec`) on the tool built by `RNSTool.new` -/

/-- shape of the tool -/
theorem nv_tool_shape : nv_tool.n = 4 ∧ nv_tool.baseQ = nv_base ∧ nv_tool.baseB.size = 2 ∧ nv_tool.baseBsk.size = 3 ∧
    nv_tool.t = nv_m17 ∧ nv_tool.gamma = nv_a1 ∧ nv_tool.mSk = nv_a0 ∧ nv_tool.mTilde.value = 2^32 ∧ nv_tool.invQLastModT = 14 := by
  decide +kernel

/-- C10 `divideAndRoundQLast_spec` (rounding division by the last prime 113) on c0 -/
theorem nv_divRound : ∃ out, nv_tool.divideAndRoundQLast nv_c0 = .ok out ∧ ∀ i j, i < nv_tool.baseQ.size - 1 → j < nv_tool.n →
      (out.getD i #[]).getD j 0 =
        divRoundLastCoeff (nv_tool.baseQ.q (nv_tool.baseQ.size - 1)).value (nv_tool.baseQ.q i).value
          (nv_tool.invQLastModQ.getD i default).operand
          ((nv_c0.getD (nv_tool.baseQ.size - 1) #[]).getD j 0) ((nv_c0.getD i #[]).getD j 0) :=
  divideAndRoundQLast_spec (r := nv_tool) (p := nv_c0) (by decide +kernel) (by decide +kernel) (by decide +kernel) (by decide +kernel)
    (by decide +kernel)
    (by have h : ∀ i, i < nv_tool.baseQ.size → ∀ j, j < nv_tool.n → (nv_c0.getD i #[]).getD j 0 < (nv_tool.baseQ.q i).value := by
          decide +kernel
        exact fun i j hi hj => h i hi j hj)

theorem nv_divRound_val : nv_tool.divideAndRoundQLast nv_c0 = .ok #[#[0, 12, 19, 63], #[55, 63, 43, 59]] :=
  nv_ok_of_toOption (by decide +kernel)

/-- C10 `modTAndDivideQLast_spec` (BGV division by the last prime) on c0 -/
theorem nv_modTDiv : ∃ out, nv_tool.modTAndDivideQLast nv_c0 = .ok out ∧ ∀ i j, i < nv_tool.baseQ.size - 1 → j < nv_tool.n →
      (out.getD i #[]).getD j 0 =
        modTDivLastCoeff nv_tool.t.value (nv_tool.baseQ.q (nv_tool.baseQ.size - 1)).value (nv_tool.baseQ.q i).value
          (nv_tool.invQLastModQ.getD i default).operand nv_tool.invQLastModT
          ((nv_c0.getD (nv_tool.baseQ.size - 1) #[]).getD j 0) ((nv_c0.getD i #[]).getD j 0) :=
  modTAndDivideQLast_spec (r := nv_tool) (p := nv_c0) (by decide +kernel) (by decide +kernel) (by decide +kernel) (by decide +kernel)
    (by decide +kernel) (by decide +kernel) (by decide +kernel)
    (by have h : ∀ i, i < nv_tool.baseQ.size - 1 → ∀ j, j < nv_tool.n →
          (nv_c0.getD i #[]).getD j 0 + 2 * (nv_tool.baseQ.q i).value < 2^64 := by decide +kernel
        exact fun i j hi hj => h i hi j hj)

theorem nv_modTDiv_val : nv_tool.modTAndDivideQLast nv_c0 = .ok #[#[83, 8, 7, 54], #[112, 7, 100, 3]] :=
  nv_ok_of_toOption (by decide +kernel)

/-! ### a genuine BFV encryption in the concrete world: m = 3 + 16X + 9X³, e = (5, −7, 21, −2) (|e| up to the bound 21),
      c0 = Δ(m) + e − c1·s,  Δ(m) = (1934, 10316, 0, 5803) -/

def nv_c0enc : RnsPoly := #[#[91, 80, 68, 28], #[70, 32, 76, 99]]
def nv_phase : RnsPoly := #[#[96, 27, 21, 78], #[18, 26, 21, 38]]
theorem nv_c0enc_canon : RnsCanon nv_level nv_c0enc := by decide +kernel
theorem nv_phase_val : dotProductCtSk nv_level nv_sk ⟨#[nv_c0enc, nv_c1], false, 1⟩ = .ok nv_phase :=
  nv_ok_of_toOption (by decide +kernel)
/-- the phase really is Δ(m) + e in every RNS component -/
theorem nv_phase_is_delta_plus_e : ∀ i, i < 2 → ∀ j, j < 4 →
    ((nv_phase.getD i #[]).getD j 0 : Int) =
      ((deltaM 10961 17 ((#[3, 16, 0, 9] : Array Nat).getD j 0) : Int) + (#[5, -7, 21, -2] : Array Int).getD j 0) % ((nv_level.q i).value : Int) := by
  decide +kernel
/-- the model decrypts it to m (and the noise budget is 4 bits) -/
theorem nv_bfv_decrypt : bfvDecrypt nv_level nv_sk ⟨#[nv_c0enc, nv_c1], false, 1⟩ = .ok #[3, 16, 0, 9] ∧
    noiseBudget nv_level nv_sk ⟨#[nv_c0enc, nv_c1], false, 1⟩ = .ok 4 :=
  ⟨nv_ok_of_toOption (by decide +kernel), nv_ok_of_toOption (by decide +kernel)⟩
/-- C01 `decrypt_fresh_bfv` on every coefficient of this encryption (spec side) -/
theorem nv_decrypt_fresh : ∀ j, j < 4 →
    Spec.imod (Spec.roundDiv (17 * Spec.centred (Spec.imod ((deltaM 10961 17 ((#[3, 16, 0, 9] : Array Nat).getD j 0) : Int)
      + (#[5, -7, 21, -2] : Array Int).getD j 0) 10961) 10961) 10961) 17 = (#[3, 16, 0, 9] : Array Nat).getD j 0 := by
  intro j hj
  refine decrypt_fresh_bfv (n := 4) (by decide) ?_ nv_freshOK ?_ <;> interval_cases j <;> decide

/-- C10 `decryptScaleAndRound_spec` on that phase -/
def nv_tg : RnsPoly := (nv_tool.qToTGamma.getD default |>.fastConvertArray ((List.range nv_tool.baseQ.size).map (fun i =>
        (nv_phase.getD i #[]).map (fun x => (x * (nv_tool.prodTGammaModQ.getD i default).operand) % (nv_tool.baseQ.q i).value))).toArray
        nv_tool.n).toOption.getD default

theorem nv_scaleRound : ∃ out, nv_tool.decryptScaleAndRound nv_phase = .ok out ∧ out = #[3, 16, 0, 9] ∧ ∀ j, j < nv_tool.n →
      out.getD j 0 =
        scaleAndRoundCoeff nv_tool.t.value nv_tool.gamma.value (nv_tool.negInvQModTGamma.getD 0 default).operand
          (nv_tool.negInvQModTGamma.getD 1 default).operand (nv_tool.invGammaModT.getD default).operand
          ((nv_tg.getD 0 #[]).getD j 0) ((nv_tg.getD 1 #[]).getD j 0) := by
  obtain ⟨out, h1, h2⟩ := decryptScaleAndRound_spec (r := nv_tool) (p := nv_phase) (tg := nv_tg)
    (btg := nv_tool.baseTGamma.getD default) (conv := nv_tool.qToTGamma.getD default) (ig := nv_tool.invGammaModT.getD default)
    (nv_some_of_isSome default (by decide +kernel)) (nv_some_of_isSome default (by decide +kernel))
    (nv_some_of_isSome default (by decide +kernel))
    (nv_ok_of_isOk default (by decide +kernel))
    (by decide +kernel) (by decide +kernel) (by decide +kernel) (by decide +kernel) (by decide +kernel) (by decide +kernel)
    (by decide +kernel) (by decide +kernel) (by decide +kernel) (by decide +kernel) (by decide +kernel)
  have hv : nv_tool.decryptScaleAndRound nv_phase = .ok #[3, 16, 0, 9] := nv_ok_of_toOption (by decide +kernel)
  refine ⟨out, h1, ?_, h2⟩
  rw [hv] at h1; cases h1; rfl

/-! ### the BEHZ multiplication pipeline on c0: `fastbconv_m_tilde` → `sm_mrq` → `fast_floor` → `fastbconv_sk` -/

def nv_p1 : RnsPoly := #[#[1905, 12203, 1261, 13269], #[1905, 12203, 1261, 13269], #[1905, 12203, 1261, 13269], #[1905, 12203, 1261, 13269]]
theorem nv_p1_val : nv_tool.fastbconvMTilde nv_c0 = .ok nv_p1 := nv_ok_of_toOption (by decide +kernel)
def nv_p2 : RnsPoly := #[#[2305843009213693192, 1363, 2134, 2305843009213689354], #[2305843009213693152, 1363, 2134, 2305843009213689314],
  #[2305843009213693920, 1363, 2134, 2305843009213690082]]
def nv_p4 : RnsPoly := #[#[2305843009213693192, 2305843009213693192, 0, 2305843009213693192],
  #[2305843009213693152, 2305843009213693152, 0, 2305843009213693152],
  #[2305843009213693920, 2305843009213693920, 0, 2305843009213693920]]

/-- C10 `smMrq_spec` -/
theorem nv_smMrq : ∃ out, nv_tool.smMrq nv_p1 = .ok out ∧ out = nv_p2 ∧ ∀ i j, i < nv_tool.baseBsk.size → j < nv_tool.n →
      (out.getD i #[]).getD j 0 =
        smMrqCoeff nv_tool.mTilde.value (nv_tool.baseBsk.q i).value (nv_tool.prodQModBsk.getD i 0)
          (nv_tool.invMtModBsk.getD i default).operand nv_tool.negInvProdQModMt.operand
          ((nv_p1.getD i #[]).getD j 0) ((nv_p1.getD nv_tool.baseBsk.size #[]).getD j 0) := by
  obtain ⟨out, h1, h2⟩ := smMrq_spec (r := nv_tool) (p := nv_p1) (by decide +kernel) (by decide +kernel) (by decide +kernel)
    (by decide +kernel)
    (by have h : ∀ i, i ≤ nv_tool.baseBsk.size → ∀ j, j < nv_tool.n → (nv_p1.getD i #[]).getD j 0 < 2^64 := by decide +kernel
        exact fun i j hi hj => h i hi j hj)
  have hv : nv_tool.smMrq nv_p1 = .ok nv_p2 := nv_ok_of_toOption (by decide +kernel)
  refine ⟨out, h1, ?_, h2⟩
  rw [hv] at h1; cases h1; rfl

/-- C10 `fastFloor_spec` on (c0 ‖ sm_mrq output) -/
def nv_ffconv : RnsPoly := (nv_tool.qToBsk.fastConvertArray ((nv_c0 ++ nv_p2).extract 0 nv_tool.baseQ.size) nv_tool.n).toOption.getD default
theorem nv_fastFloor : ∃ out, nv_tool.fastFloor (nv_c0 ++ nv_p2) = .ok out ∧ out = nv_p4 ∧ ∀ i j, i < nv_tool.baseBsk.size → j < nv_tool.n →
      (out.getD i #[]).getD j 0 =
        fastFloorCoeff (nv_tool.baseBsk.q i).value (nv_tool.invProdQModBsk.getD i default).operand
          (((nv_c0 ++ nv_p2).getD (nv_tool.baseQ.size + i) #[]).getD j 0) ((nv_ffconv.getD i #[]).getD j 0) := by
  obtain ⟨out, h1, h2⟩ := fastFloor_spec (r := nv_tool) (p := nv_c0 ++ nv_p2) (conv := nv_ffconv)
    (nv_ok_of_isOk default (by decide +kernel)) (by decide +kernel) (by decide +kernel)
    (by have h : ∀ i, i < nv_tool.baseBsk.size → ∀ j, j < nv_tool.n →
          ((nv_c0 ++ nv_p2).getD (nv_tool.baseQ.size + i) #[]).getD j 0 + (nv_tool.baseBsk.q i).value < 2^64 := by decide +kernel
        exact fun i j hi hj => h i hi j hj)
    (by have h : ∀ i, i < nv_tool.baseBsk.size → ∀ j, j < nv_tool.n →
          (nv_ffconv.getD i #[]).getD j 0 ≤ (nv_tool.baseBsk.q i).value := by decide +kernel
        exact fun i j hi hj => h i hi j hj)
  have hv : nv_tool.fastFloor (nv_c0 ++ nv_p2) = .ok nv_p4 := nv_ok_of_toOption (by decide +kernel)
  refine ⟨out, h1, ?_, h2⟩
  rw [hv] at h1; cases h1; rfl

/-- C10 `fastbconvSk_spec` on the fast-floor output: ⌊·/Q⌋ = (−1, −1, 0, −1) comes back to base q exactly -/
def nv_skdest : RnsPoly := (nv_tool.bToQ.fastConvertArray (nv_p4.extract 0 nv_tool.baseB.size) nv_tool.n).toOption.getD default
def nv_sktemp : RnsPoly := (nv_tool.bToMsk.fastConvertArray (nv_p4.extract 0 nv_tool.baseB.size) nv_tool.n).toOption.getD default
theorem nv_fastbconvSk : ∃ out, nv_tool.fastbconvSk nv_p4 = .ok out ∧ out = #[#[96, 96, 0, 96], #[112, 112, 0, 112]] ∧
    ∀ i j, i < nv_tool.baseQ.size → j < nv_tool.n →
      (out.getD i #[]).getD j 0 =
        fastbconvSkCoeff nv_tool.mSk.value (nv_tool.baseQ.q i).value nv_tool.invProdBModMsk.operand (nv_tool.prodBModQ.getD i 0)
          ((nv_sktemp.getD 0 #[]).getD j 0) ((nv_p4.getD nv_tool.baseB.size #[]).getD j 0) ((nv_skdest.getD i #[]).getD j 0) := by
  obtain ⟨out, h1, h2⟩ := fastbconvSk_spec (r := nv_tool) (p := nv_p4) (dest := nv_skdest) (temp := nv_sktemp)
    (nv_ok_of_isOk default (by decide +kernel)) (nv_ok_of_isOk default (by decide +kernel))
    (by decide +kernel) (by decide +kernel) (by decide +kernel) (by decide +kernel) (by decide +kernel) (by decide +kernel)
    (by have h : ∀ i, i < nv_tool.baseQ.size → ∀ j, j < nv_tool.n → (nv_skdest.getD i #[]).getD j 0 < 2^64 := by decide +kernel
        exact fun i j hi hj => h i hi j hj)
  have hv : nv_tool.fastbconvSk nv_p4 = .ok #[#[96, 96, 0, 96], #[112, 112, 0, 112]] := nv_ok_of_toOption (by decide +kernel)
  refine ⟨out, h1, ?_, h2⟩
  rw [hv] at h1; cases h1; rfl

/-! ## further end theorems on the concrete world -/

/-- C01 `multiplyAddPlain_coeff` (component 97 of Δ(16) added to 5): operand ⌊Q/t⌋ mod 97 = 62 built by `MulOperand.new` -/
theorem nv_multiplyAddPlain :
    (do
      let lo := mulLo 16 (10961 % 17)
      let hi := mulHi 16 (10961 % 17)
      let (n0, carry) := addU64 lo ((17 + 1) / 2)
      let n1 ← ckAdd hi carry
      let fix := ((n0 + B64 * n1) / 17) % B64
      let sc ← mulOperandAddMod 16 ⟨62, 11790702397628785568⟩ fix nv_m97
      addMod 5 sc nv_m97) = .ok ((5 + deltaM 10961 17 16) % nv_m97.value) ∧ (5 + deltaM 10961 17 16) % nv_m97.value = 39 :=
  ⟨multiplyAddPlain_coeff nv_m97_wf (Q := 10961) (t := 17) (m := 16) (d := 5) (by decide) (by decide) (by decide) (by decide)
    (op := ⟨62, 11790702397628785568⟩) (by decide +kernel) (by decide), by decide⟩

/-- C02 `balance_total` / `balance_spec` with t = 17, factors 3 and 5: e1 = 13, e2 = 1, f = 5 -/
theorem nv_balance : balanceCorrectionFactors 3 5 nv_m17 = .ok (5, 13, 1) ∧
    (13 * 3) % nv_m17.value = 5 ∧ (1 * 5) % nv_m17.value = 5 ∧ 5 < nv_m17.value := by
  have hv : balanceCorrectionFactors 3 5 nv_m17 = .ok (5, 13, 1) := nv_ok_of_toOption (by decide +kernel)
  exact ⟨hv, balance_spec nv_m17_wf (by decide) (by decide) hv⟩
theorem nv_balance_total : ∃ r, balanceCorrectionFactors 3 5 nv_m17 = .ok r :=
  balance_total nv_m17_wf (by decide) (by decide) (by decide)

/-- C09 root search: 97 is prime, 64 is a primitive 8th root, the minimal one is 33 whatever root is handed in -/
theorem nv_prime97 : Nat.Prime nv_m97.value := by show Nat.Prime 97; norm_num
theorem nv_isPrimitiveRoot : ∃ b, isPrimitiveRoot 64 (2 * 4) nv_m97 = .ok b ∧ (b = true ↔ IsPrim 4 nv_m97.value 64) :=
  isPrimitiveRoot_spec nv_m97_wf (by decide) (by decide) (by decide)
theorem nv_minimalRoot : ∃ r, minimalRootFrom (2 * 4) nv_m97 64 = .ok r ∧ IsPrim 4 nv_m97.value r ∧ (∀ x, IsPrim 4 nv_m97.value x → r ≤ x) ∧ r = 33 := by
  obtain ⟨r, h1, h2, h3⟩ := minimalRoot_least_pow2 nv_m97_wf nv_prime97 (n := 4) (g := 64) ⟨2, rfl⟩ (by unfold IsPrim; decide)
  have hv : minimalRootFrom (2 * 4) nv_m97 64 = .ok 33 := nv_ok_of_toOption (by decide +kernel)
  refine ⟨r, h1, h2, h3, ?_⟩
  rw [hv] at h1; cases h1; rfl
theorem nv_root_det : minimalRootFrom (2 * 4) nv_m97 64 = minimalRootFrom (2 * 4) nv_m97 47 :=
  root_deterministic_pow2 nv_m97_wf nv_prime97 ⟨2, rfl⟩ (by unfold IsPrim; decide) (by unfold IsPrim; decide)

/-- C10 `decompose_spec_of` beyond the product (two moduli: reduced), and on the single-modulus base below the product -/
theorem nv_decompose : ∃ rs, nv_base.decompose 123456789 = .ok rs ∧ rs.size = nv_base.size ∧
    ∀ i, i < nv_base.size → rs.getD i 0 = 123456789 % (nv_base.q i).value :=
  decompose_spec_of nv_base_wf (by decide +kernel) (Or.inl (by decide))
theorem nv_decompose1 : ∃ rs, nv_base17.decompose 16 = .ok rs ∧ rs.size = nv_base17.size ∧
    ∀ i, i < nv_base17.size → rs.getD i 0 = 16 % (nv_base17.q i).value :=
  decompose_spec_of nv_base17_wf (by decide +kernel) (Or.inr (by decide))

/-- C04 gadget identities on {97, 113} -/
theorem nv_gadget : (∑ j ∈ Finset.range nv_base.size,
      (5000 % (nv_base.q j).value) * (nv_base.punct.getD j 0 * (nv_base.invPunct.getD j default).operand)) % nv_base.prod
    = 5000 % nv_base.prod := gadget_crt nv_base_wf 5000

/-- C12 `coeff_to_rns` (negative coefficient, 64-bit path) and `i64_single` -/
theorem nv_coeffToRns : ∃ rs, Ckks.coeffToRns nv_base 13 (-5000) = .ok rs ∧ rs.size = nv_base.size ∧
    ∀ i, i < nv_base.size → rs.getD i 0 = c12_res (-5000) (nv_base.q i).value :=
  coeffToRns_spec nv_base_wf (by intro _; decide) (by intro h; omega) (by intro h; omega)
theorem nv_i64 : ∃ rs, Ckks.i64Residues #[nv_m97, nv_m113] (-5) = .ok rs ∧ rs.size = 2 ∧
    ∀ i, i < 2 → rs.getD i 0 = c12_res (-5) ((#[nv_m97, nv_m113] : Array Modulus).getD i ⟨0,0,0,0,0⟩).value :=
  i64Residues_spec (qs := #[nv_m97, nv_m113]) (by
    intro i hi
    have hi' : i < 2 := hi
    interval_cases i
    · exact nv_m97_wf
    · exact nv_m113_wf) (by decide)

/-- C19 `extract_assemble` on the BFV encryption above (coefficient 3) -/
theorem nv_ct_valid : ctValidFor nv_level ⟨#[nv_c0enc, nv_c1], false, 1⟩ = true := by decide +kernel
theorem nv_extract : ∃ w, extractLwe nv_level ⟨#[nv_c0enc, nv_c1], false, 1⟩ 3 = .ok w ∧
    w.c1 = #[#[2, 96, 2, 47], #[64, 3, 0, 104]] ∧ w.c0 = #[28, 99] := by
  obtain ⟨w, h1, _⟩ := c19_extract_assemble nv_level ⟨#[nv_c0enc, nv_c1], false, 1⟩ 3 (by rfl) nv_ct_valid (by decide)
  have hv : (extractLwe nv_level ⟨#[nv_c0enc, nv_c1], false, 1⟩ 3).toOption.map (fun w => (w.c1, w.c0, w.cf))
      = some (#[#[2, 96, 2, 47], #[64, 3, 0, 104]], #[28, 99], 1) := by decide +kernel
  rw [h1] at hv
  simp only [Except.toOption, Option.map_some, Option.some.injEq, Prod.mk.injEq] at hv
  exact ⟨w, h1, hv.1, hv.2.1⟩

/-- C20 `rnsp_crt` / `rnsp_split_merge` on the base {97, 113} read as RNS plain moduli -/
theorem nv_rnsp : ∃ ru, nv_base.decompose 123456789 = .ok ru ∧ nv_base.compose ru = .ok (123456789 % nv_base.prod) :=
  c20_rnsp_split_merge nv_base_wf (by decide) (by decide +kernel)

/-- C18 `final_decode_bfv`: the multiparty final decoding of the phase is the decryptor's output on the BFV encryption -/
theorem nv_final_decode : (bfvDecrypt nv_level nv_sk ⟨#[nv_c0enc, nv_c1], false, 1⟩).map MP.PlainOut.coeffs
      = MP.decryptPolynomial nv_level false 1 nv_phase ∧
    MP.decryptPolynomial nv_level false 1 nv_phase = .ok (.coeffs #[3, 16, 0, 9]) := by
  have h := C18.final_decode_bfv nv_level (by rfl) nv_sk ⟨#[nv_c0enc, nv_c1], false, 1⟩ (by rfl) nv_phase nv_phase_val
  refine ⟨h, ?_⟩
  rw [← h, nv_bfv_decrypt.1]; rfl

/-! ## C13: the concrete world passes `validate` (toy primality notion = the seven primes in use) -/

def nv_isPrime (v : Nat) : Bool :=
  [17, 97, 113, 2305843009213693921, 2305843009213693561, 2305843009213693193, 2305843009213693153].contains v

theorem nv_validate : ∃ c, Ctx.validate nv_isPrime ⟨.BFV, 4, [97, 113], 17, false⟩ .None = .ok c ∧ c.err = .Success ∧
    c.batching = true ∧ c.qModT = 13 ∧ c.coeffDivPlain.map (·.operand) = [62, 79] ∧ c.plainUpperHalfThreshold = 9 := by
  have hv : (Ctx.validate nv_isPrime ⟨.BFV, 4, [97, 113], 17, false⟩ .None).toOption.map
      (fun c => (c.err, c.batching, c.qModT, c.coeffDivPlain.map (·.operand), c.plainUpperHalfThreshold))
      = some (.Success, true, 13, [62, 79], 9) := by decide +kernel
  cases h : Ctx.validate nv_isPrime ⟨.BFV, 4, [97, 113], 17, false⟩ .None with
  | error e => rw [h] at hv; simp [Except.toOption] at hv
  | ok c =>
    rw [h] at hv
    simp only [Except.toOption, Option.map_some, Option.some.injEq, Prod.mk.injEq] at hv
    exact ⟨c, rfl, hv.1, hv.2.1, hv.2.2.1, hv.2.2.2.1, hv.2.2.2.2⟩

/-- … and `validate_sound` / `constants_eq_definitions` apply to it -/
theorem nv_validate_sound : (∃ e, 1 ≤ e ∧ e ≤ 17 ∧ (4 : Nat) = 2^e) ∧ (∀ q ∈ [97, 113], nv_isPrime q = true ∧ q % (2 * 4) = 1) := by
  obtain ⟨c, h, hs, _⟩ := nv_validate
  have := C13.validate_sound h hs
  exact ⟨this.1, this.2.2.2.2.1⟩

/-- the modulus-switching chain has the two levels {97, 113} → {97} -/
theorem nv_chain : (Ctx.Context.new nv_isPrime ⟨.BFV, 4, [97, 113], 17, false⟩ true .None).toOption.map
    (fun x => (x.levels.length, x.firstIdx, x.usingKeyswitching, x.levels.map (·.parms.q))) = some (2, 1, true, [[97, 113], [97]]) := by
  decide +kernel

/-- rejections: plain modulus not coprime; modulus ≢ 1 mod 2N -/
theorem nv_validate_rejects :
    (Ctx.validate nv_isPrime ⟨.BFV, 4, [97, 113], 97, false⟩ .None).toOption.map (·.err) = some .InvalidPlainModulusCoprimality ∧
    (Ctx.validate nv_isPrime ⟨.BFV, 16, [97, 113], 17, false⟩ .None).toOption.map (·.err) = some .InvalidCoeffModulusNoNTT := by
  constructor <;> decide +kernel

/-! ## C14 / C15: a valid ciphertext object of the wire codec (`(ctC ctx expand).valid`, `CtDefaults`) -/

def nv_cctx : Codec.Ctx := ⟨[⟨[1, 2, 3, 4], 1, 4, [97, 113]⟩], 17, 4⟩
def nv_cct : Codec.Ct :=
  ⟨[1, 2, 3, 4], 2, false, Codec.oneF64, 1, [[[91, 80, 68, 28], [70, 32, 76, 99]], [[1, 95, 50, 2], [110, 0, 9, 64]]], []⟩

theorem nv_cct_valid (expand : List Nat → Codec.Level → Codec.Poly) : (Codec.ctC nv_cctx expand).valid nv_cct := by
  dsimp only [Codec.ctC, Codec.mapC, Codec.ctWireC, Codec.depC, Codec.guardC, Codec.ctToWire, nv_cct]
  have hf : nv_cctx.find [1, 2, 3, 4] = some ⟨[1, 2, 3, 4], 1, 4, [97, 113]⟩ := by rfl
  rw [hf]
  dsimp only [Option.getD, Option.isSome, Codec.pairC, Codec.extraC, Codec.ctBodyC, Codec.depC, Codec.Ct.seeded]
  have hb : ∀ x : Nat, x < 256 → (Codec.limC 1).valid x := by
    intro x hx
    exact ⟨⟨Nat.lt_of_lt_of_le (Nat.mod_lt _ (by decide)) (by decide), trivial⟩, hx⟩
  have hl : Codec.u64Limit 97 = 1 ∧ Codec.u64Limit 113 = 1 := by decide
  have hp : ∀ a b c d e f g h : Nat, a < 256 → b < 256 → c < 256 → d < 256 → e < 256 → f < 256 → g < 256 → h < 256 →
      (Codec.polyC ⟨[1, 2, 3, 4], 1, 4, [97, 113]⟩).valid [[a, b, c, d], [e, f, g, h]] := by
    intro a b c d e f g h ha hb' hc hd he hf' hg hh
    show (Codec.repC 4 (Codec.limC (Codec.u64Limit 97))).valid [a, b, c, d] ∧
      (Codec.repC 4 (Codec.limC (Codec.u64Limit 113))).valid [e, f, g, h] ∧ True
    rw [hl.1, hl.2]
    exact ⟨⟨hb _ ha, hb _ hb', hb _ hc, hb _ hd, trivial⟩, ⟨hb _ he, hb _ hf', hb _ hg, hb _ hh, trivial⟩, trivial⟩
  refine ⟨⟨?_, by rfl⟩, by rfl, ?_, by rfl, ?_, ?_, ?_, by rfl, ?_, ?_⟩
  · show (1 : Nat) < 256 ^ 8 ∧ (2 : Nat) < 256 ^ 8 ∧ (3 : Nat) < 256 ^ 8 ∧ (4 : Nat) < 256 ^ 8 ∧ True
    decide
  · show (2 : Nat) < 256 ^ 8
    decide
  · show (0 : Nat) < 256 ^ 1
    decide
  · trivial
  · show (0 : Nat) < 256 ^ 1
    decide
  · exact ⟨hp _ _ _ _ _ _ _ _ (by decide) (by decide) (by decide) (by decide) (by decide) (by decide) (by decide) (by decide),
      hp _ _ _ _ _ _ _ _ (by decide) (by decide) (by decide) (by decide) (by decide) (by decide) (by decide) (by decide), trivial⟩
  · trivial

theorem nv_cct_defaults : Codec.CtDefaults nv_cctx nv_cct := ⟨fun _ => rfl, fun _ => rfl⟩

/-- C14 `ciphertext_round_trip` / `size_exact` and C15 `truncation_is_eof` on it (2·2·4 one-byte residues + 42 header bytes) -/
theorem nv_ct_round_trip (expand : List Nat → Codec.Level → Codec.Poly) (rest : Codec.Bytes) :
    (Codec.ctC nv_cctx expand).dec ((Codec.ctC nv_cctx expand).enc nv_cct ++ rest) = .ok (nv_cct, rest) ∧
    ((Codec.ctC nv_cctx expand).enc nv_cct).length = 58 ∧
    ∃ s, (Codec.ctC nv_cctx expand).dec (((Codec.ctC nv_cctx expand).enc nv_cct).take 57) = .error (.eof s) := by
  have hlen : ((Codec.ctC nv_cctx expand).enc nv_cct).length = 58 := by rfl
  exact ⟨C14.ciphertext_round_trip nv_cctx expand nv_cct (nv_cct_valid expand) nv_cct_defaults rfl rest, hlen,
    (Codec.ctC_lawful nv_cctx expand).pre nv_cct (nv_cct_valid expand) 57 (by rw [hlen]; decide)⟩

/-! ## C16: `ByteXof`, `ByteSt`, `Uniform.Contract`, and samplers that succeed -/

/-- a block function with 4096-byte blocks depending on seed, counter and position -/
def nv_xof : Rng.Xof := fun seed c => ((List.range Rng.BUF).map fun i => (seed.sum + 7 * c + 13 * i * i + i) % 256).toArray

theorem nv_xof_byte : Rng.ByteXof nv_xof := by
  intro seed c i
  unfold nv_xof
  by_cases h : i < Rng.BUF
  · simp [Array.getD, h]; omega
  · simp [Array.getD, h]

theorem nv_xof_size : ∀ seed c, (nv_xof seed c).size = Rng.BUF := by intro seed c; simp [nv_xof]

theorem nv_fst_ok {α β : Type} {r : R (α × β)} {a : α} (h : r.toOption.map Prod.fst = some a) : ∃ b, r = .ok (a, b) := by
  cases r with
  | error e => simp [Except.toOption] at h
  | ok p => obtain ⟨x, y⟩ := p; simp [Except.toOption] at h; exact ⟨y, by rw [h]⟩

/-- the three samplers succeed on (N = 4, {97, 113}) from a fresh generator, and the C16 theorems apply -/
theorem nv_ternary : ∃ s', Rng.ternary Rng.randUniform nv_xof (Rng.fromSeed [1, 2, 3]) 4 [97, 113] = .ok ([[0, 0, 96, 0], [0, 0, 112, 0]], s') :=
  nv_fst_ok (by decide +kernel)
theorem nv_error : ∃ s', Rng.centeredBinomial nv_xof (Rng.fromSeed [1, 2, 3]) 4 [97, 113] = .ok ([[92, 1, 1, 3], [108, 1, 1, 3]], s') :=
  nv_fst_ok (by decide +kernel)
theorem nv_uniform : ∃ s', Rng.uniformPoly Rng.randUniform nv_xof (Rng.fromSeed [1, 2, 3]) 4 [97, 113] = .ok ([[52, 49, 94, 92], [47, 43, 96, 92]], s') :=
  nv_fst_ok (by decide +kernel)

theorem nv_ternary_spec : ∃ vs : List Int, vs.length = 4 ∧ (∀ v ∈ vs, -1 ≤ v ∧ v ≤ 1) ∧
    [[0, 0, 96, 0], [0, 0, 112, 0]] = [97, 113].map (fun (q : Nat) => vs.map fun v => (v % (q : Int)).toNat) := by
  obtain ⟨s', h⟩ := nv_ternary
  obtain ⟨vs, h1, h2, h3, _⟩ := Rng.ternary_spec Rng.randUniform Rng.randUniform_contract nv_xof_byte (Rng.byteSt_fromSeed [1, 2, 3])
    (by intro q hq; simp at hq; rcases hq with rfl | rfl <;> decide) h
  exact ⟨vs, h1, h2, h3⟩

theorem nv_error_spec : ∃ vs : List Int, vs.length = 4 ∧ (∀ v ∈ vs, -21 ≤ v ∧ v ≤ 21) ∧
    [[92, 1, 1, 3], [108, 1, 1, 3]] = [97, 113].map (fun (q : Nat) => vs.map fun v => (v % (q : Int)).toNat) := by
  obtain ⟨s', h⟩ := nv_error
  obtain ⟨vs, h1, h2, h3, _⟩ := Rng.centeredBinomial_spec nv_xof_byte (Rng.byteSt_fromSeed [1, 2, 3])
    (by intro q hq; simp at hq; rcases hq with rfl | rfl <;> decide) h
  exact ⟨vs, h1, h2, h3⟩

/-! ## C17: a productive schedule (`Productive`) of the secret-key-power cache: threads wanting 3 and 2 powers, racing -/

theorem nv_productive : Conc.Productive C17.natAlg true [0, 1, 0, 0, 1, 1, 0, 1] (Conc.init C17.natAlg 1 [3, 2]) := by
  repeat' (first | exact trivial | refine ⟨⟨_, rfl, rfl⟩, ?_⟩)

/-! ## the level below ({97}) and the ciphertext-level bundles of the modulus-switching / budget proofs
      (`c05u_ToolOK`, `c05u_BgvOK`, `c05u_IsNext`, `c05u_ChainOK`, `c05u_CtCanon` of Proofs/C05U.lean, `c07s_LevelQ` of Proofs/C07S.lean,
      `CtCanon` / `c02v_PolysCanon` / `c02v_QsWF` of Proofs/C02V.lean).  Those files are not part of this project copy, so the FIELDS of the
      bundles are proved here as plain conjunctions, in the order of the structure fields (each structure is then `⟨_, _, …⟩`). -/

def nv_base97 : RNSBase := ⟨#[nv_m97], 97, #[1], #[⟨1, 190172619316593315⟩]⟩
theorem nv_base97_new : RNSBase.new [nv_m97] = .ok nv_base97 := nv_ok_of_toOption (by decide +kernel)
theorem nv_base97_wf : nv_base97.WF :=
  (RNSBase.new_wf (by intro m hm; simp at hm; rcases hm with rfl; exact nv_m97_wf) (by decide) nv_base97_new).1
def nv_tool1 : RNSTool := (RNSTool.new 4 nv_base97 nv_m17 [nv_a0, nv_a1, nv_a2, nv_a3]).toOption.getD default
theorem nv_tool1_new : RNSTool.new 4 nv_base97 nv_m17 [nv_a0, nv_a1, nv_a2, nv_a3] = .ok nv_tool1 :=
  nv_ok_of_isOk default (by decide +kernel)
def nv_level1 : Level := ⟨.bfv, 4, 2, #[nv_m97], nv_m17, #[nv_t97], nv_tool1⟩
theorem nv_level1_wf : nv_level1.WF := by
  refine ⟨by rfl, by rfl, ?_⟩
  intro i hi
  have hi' : i < 1 := hi
  interval_cases i
  exact ⟨nv_t97_wf, by rfl, by rfl⟩

/-- fields of `c05u_ToolOK nv_level` (bwf, base, tn, inv) — also `c07s_LevelQ nv_level` (bwf, base) -/
theorem nv_toolOK_fields : nv_level.tool.baseQ.WF ∧ nv_level.tool.baseQ.base = nv_level.qs ∧ nv_level.tool.n = nv_level.n ∧
    ∀ i, i < nv_level.size - 1 → WFOp (nv_level.q i) (nv_level.tool.invQLastModQ.getD i default) ∧
      ((nv_level.tool.invQLastModQ.getD i default).operand * (nv_level.q (nv_level.size - 1)).value) % (nv_level.q i).value = 1 := by
  have hb : nv_level.tool.baseQ = nv_base := nv_tool_shape.2.1
  refine ⟨by rw [hb]; exact nv_base_wf, by rw [hb]; rfl, by decide +kernel, by decide +kernel⟩
/-- fields of `c05u_ToolOK nv_level1` -/
theorem nv_toolOK1_fields : nv_level1.tool.baseQ.WF ∧ nv_level1.tool.baseQ.base = nv_level1.qs ∧ nv_level1.tool.n = nv_level1.n ∧
    ∀ i, i < nv_level1.size - 1 → WFOp (nv_level1.q i) (nv_level1.tool.invQLastModQ.getD i default) ∧
      ((nv_level1.tool.invQLastModQ.getD i default).operand * (nv_level1.q (nv_level1.size - 1)).value) % (nv_level1.q i).value = 1 := by
  have hb : nv_level1.tool.baseQ = nv_base97 := by decide +kernel
  refine ⟨by rw [hb]; exact nv_base97_wf, by rw [hb]; rfl, by decide +kernel, by decide +kernel⟩
/-- fields of `c05u_BgvOK nv_level` (tt, twf, invt_lt, invt): 14·113 ≡ 1 (mod 17) -/
theorem nv_bgvOK_fields : nv_level.tool.t = nv_level.t ∧ nv_level.t.WF ∧ nv_level.tool.invQLastModT < nv_level.t.value ∧
    (nv_level.tool.invQLastModT * (nv_level.q (nv_level.size - 1)).value) % nv_level.t.value = 1 :=
  ⟨by decide +kernel, nv_m17_wf, by decide +kernel, by decide +kernel⟩
/-- fields of `c05u_IsNext nv_level nv_level1` (size, n, q); with the two `ToolOK`s this is `c05u_ChainOK (fun c => if c = 0 then nv_level1 else nv_level) 1` -/
theorem nv_isNext_fields : nv_level1.size + 1 = nv_level.size ∧ nv_level1.n = nv_level.n ∧
    ∀ i, i < nv_level1.size → nv_level1.q i = nv_level.q i :=
  ⟨by rfl, by rfl, by intro i hi; have hi' : i < 1 := hi; interval_cases i; rfl⟩
/-- fields of `CtCanon nv_level ct` (two_le, le16, canon, cf) — `canon` alone is `c05u_CtCanon` -/
theorem nv_ctCanon_fields : 2 ≤ (⟨#[nv_c0enc, nv_c1], false, 1⟩ : Ct).polys.size ∧ (⟨#[nv_c0enc, nv_c1], false, 1⟩ : Ct).polys.size ≤ 16 ∧
    (∀ k, k < (⟨#[nv_c0enc, nv_c1], false, 1⟩ : Ct).polys.size → RnsCanon nv_level ((⟨#[nv_c0enc, nv_c1], false, 1⟩ : Ct).polys.getD k #[])) ∧
    (⟨#[nv_c0enc, nv_c1], false, 1⟩ : Ct).cf = 1 := by
  refine ⟨by decide, by decide, ?_, rfl⟩
  intro k hk
  have hk' : k < 2 := hk
  interval_cases k
  · exact nv_c0enc_canon
  · exact nv_c1_canon

/-- the model switches the BFV encryption down to {97}; the result is canonical there and still decrypts to m -/
def nv_ct1 : Ct := ⟨#[#[#[69, 3, 49, 39]], #[#[73, 12, 45, 82]]], false, 1⟩
theorem nv_modswitch : (modSwitchScaleNext nv_level ⟨#[nv_c0enc, nv_c1], false, 1⟩).toOption.map (fun c => (c.polys, c.ntt, c.cf))
    = some (nv_ct1.polys, nv_ct1.ntt, nv_ct1.cf) := by decide +kernel
theorem nv_ct1_canon : ∀ k, k < nv_ct1.polys.size → RnsCanon nv_level1 (nv_ct1.polys.getD k #[]) := by decide +kernel
theorem nv_ct1_decrypt : bfvDecrypt nv_level1 nv_sk nv_ct1 = .ok #[3, 16, 0, 9] := nv_ok_of_toOption (by decide +kernel)
/-- upward switching is refused -/
theorem nv_switch_up : switchSteps 0 1 = .error .refused := by rfl

/-! ## purely numeric hypothesis sets (C01, C05, C07, C08) -/

/-- C05 `bfv_switch_message`: t = 17, Q' = 97, q_L = 113, x = 113·17 + 5, m = 3, ν = −141, E = 1 -/
theorem nv_bfv_switch : Spec.roundDiv ((17 : Nat) * (17 : Int)) 97 = 3 :=
  bfv_switch_message (t := 17) (Q' := 97) (qL := 113) (x := 1926) (x' := 17) (m := 3) (ν := -141) (ρ := 5) (E := 1)
    (by decide) (by decide) (by decide) (by decide) (by decide) (by decide)

/-- C01 `bgv_round_trip_cf_bounded`: t = 17, correction factor 3, m = 16, noise −3, q = 10961 -/
theorem nv_bgv_cf : (Spec.imod (Spec.centred (Spec.imod (bgvLift 17 ((3 * 16) % 17) + 17 * (-3)) 10961) 10961) 17 * Spec.invMod 3 17) % 17 = 16 :=
  bgv_round_trip_cf_bounded (q := 10961) (t := 17) (m := 16) (cf := 3) (v := -3) (by decide) (by decide) (by decide) (by decide)
    (by decide) rfl

/-- C08 `Limbs` and the multi-word theorems: (2^64 − 1, 5) · (3, 2^63) truncated to 3 limbs; division with remainder -/
theorem nv_limbs : Limbs [2^64 - 1, 5] ∧ Limbs [3, 2^63] := by
  constructor <;> (intro x hx; simp at hx; rcases hx with rfl | rfl <;> decide)
theorem nv_multiplyUint : ∃ r, multiplyUint [2^64 - 1, 5] [3, 2^63] 3 = .ok r ∧ r.length = 3 ∧ Limbs r ∧
    toNat r = (toNat [2^64 - 1, 5] * toNat [3, 2^63]) % 2^(64*3) :=
  multiplyUint_spec (by decide) nv_limbs.1 nv_limbs.2
theorem nv_divideUint : ∃ r q, divideUint [2^64 - 1, 5] [3, 2^63] 2 = .ok (r, q) ∧ toNat [2^64 - 1, 5] = toNat q * toNat [3, 2^63] + toNat r ∧
    toNat r < toNat [3, 2^63] := by
  obtain ⟨r, q, h1, _, _, _, _, h6, h7⟩ := divideUint_spec (a := [2^64 - 1, 5]) (d := [3, 2^63]) (n := 2) (by decide) nv_limbs.1 nv_limbs.2
    rfl rfl (by decide)
  exact ⟨r, q, h1, h6, h7⟩

/-! ## key switching: the bundles `KeyLevel.WF`, `c04t_Canon`, `c04t_KeyCanonAt`, `c04t_InvP`, `c04t_KSInput` of Proofs/C04T.lean
      (not part of this project copy: the FIELDS are proved, with `c04t_keyIndex kl dsz i = if i = dsz then ms.size − 1 else i` and
      `c04t_P = (last modulus).value` written out).  Key level {97, P = 113}, one decomposition digit, a genuine key-switching key
      from s' = X + X² − X³ to s = 1 − X + X³ (mask a, error e = (1, 0, −1, 1)): k0 = −a·s + e + P·s' (component 97 only), k1 = a. -/

def nv_kl : KeyLevel := ⟨4, #[nv_m97, nv_m113], #[nv_t97, nv_t113], #[⟨91, 17305708357809991722⟩], 14, nv_m17⟩
def nv_sk' : Array Int := #[0, 1, 1, -1]
def nv_kskey : KSKey := #[#[#[#[45, 23, 8, 22], #[44, 82, 82, 10]], #[#[59, 0, 36, 50], #[16, 14, 101, 47]]]]
def nv_kstarget : RnsPoly := #[#[73, 12, 45, 82]]
def nv_ksct : Ct := ⟨#[#[#[69, 3, 49, 39]], #[#[0, 0, 0, 0]]], false, 1⟩

/-- fields of `KeyLevel.WF nv_kl` -/
theorem nv_kl_wf_fields : nv_kl.tables.size = nv_kl.ms.size ∧
    ∀ i, i < nv_kl.ms.size → (nv_kl.tb i).WF ∧ (nv_kl.tb i).modulus = nv_kl.m i ∧ 2^(nv_kl.tb i).k = nv_kl.n := by
  refine ⟨by rfl, ?_⟩
  intro i hi
  have hi' : i < 2 := hi
  interval_cases i
  · exact ⟨nv_t97_wf, by rfl, by rfl⟩
  · exact ⟨nv_t113_wf, by rfl, by rfl⟩

/-- remaining fields of `c04t_KSInput nv_kl 1 nv_ksct nv_kstarget nv_kskey` (hsz, hd, hks, htarget, hkey, hov, hct, hinv) -/
theorem nv_ksinput_fields :
    2 ≤ nv_kl.ms.size ∧ 1 + 1 ≤ nv_kl.ms.size ∧ 1 ≤ nv_kskey.size ∧
    (∀ j, j < 1 → (nv_kstarget.getD j #[]).size = nv_kl.n ∧ ∀ l, l < nv_kl.n → (nv_kstarget.getD j #[]).getD l 0 < (nv_kl.m j).value) ∧
    (∀ i, i ≤ 1 → ∀ j, j < 1 → ∀ k, k < (nv_kskey.getD 0 #[]).size →
      (((nv_kskey.getD j #[]).getD k #[]).getD (if i = 1 then nv_kl.ms.size - 1 else i) #[]).size = nv_kl.n ∧
      ∀ l, l < nv_kl.n → (((nv_kskey.getD j #[]).getD k #[]).getD (if i = 1 then nv_kl.ms.size - 1 else i) #[]).getD l 0
        < (nv_kl.m (if i = 1 then nv_kl.ms.size - 1 else i)).value) ∧
    (∀ i, i ≤ 1 → 1 * (4 * (nv_kl.m (if i = 1 then nv_kl.ms.size - 1 else i)).value
        * (nv_kl.m (if i = 1 then nv_kl.ms.size - 1 else i)).value) < 2^128) ∧
    (∀ k, k < (nv_kskey.getD 0 #[]).size → ∀ j, j < 1 → ((nv_ksct.polys.getD k #[]).getD j #[]).size = nv_kl.n ∧
      ∀ l, l < nv_kl.n → ((nv_ksct.polys.getD k #[]).getD j #[]).getD l 0 < (nv_kl.m j).value) ∧
    (∀ j, j < 1 → WFOp (nv_kl.m j) (nv_kl.invPModQ.getD j default) ∧
      ((nv_kl.invPModQ.getD j default).operand * (nv_kl.m (nv_kl.ms.size - 1)).value) % (nv_kl.m j).value = 1) := by
  refine ⟨by decide, by decide, by decide, by decide +kernel, by decide +kernel, by decide +kernel, by decide +kernel, by decide +kernel⟩

/-- the model switches the key: phase (51, 39, 22, 23) under s' becomes (52, 39, 21, 24) under s — the key-switching noise (1, 0, −1, 1) -/
theorem nv_switchKey : ∃ ct', switchKey nv_kl .bfv 1 nv_ksct nv_kstarget nv_kskey = .ok ct' ∧
    ct'.polys = #[#[#[65, 12, 17, 9]], #[#[1, 79, 51, 65]]] ∧
    dotProductCtSk nv_level1 nv_sk' ⟨#[nv_ksct.polys.getD 0 #[], nv_kstarget], false, 1⟩ = .ok #[#[51, 39, 22, 23]] ∧
    dotProductCtSk nv_level1 nv_sk ct' = .ok #[#[52, 39, 21, 24]] := by
  have hv : (switchKey nv_kl .bfv 1 nv_ksct nv_kstarget nv_kskey).toOption.map (fun c => (c.polys, c.ntt, c.cf))
      = some (#[#[#[65, 12, 17, 9]], #[#[1, 79, 51, 65]]], false, 1) := by decide +kernel
  cases h : switchKey nv_kl .bfv 1 nv_ksct nv_kstarget nv_kskey with
  | error e => rw [h] at hv; simp [Except.toOption] at hv
  | ok c =>
    rw [h] at hv
    simp only [Except.toOption, Option.map_some, Option.some.injEq, Prod.mk.injEq] at hv
    obtain ⟨c1, c2, c3⟩ := c
    simp only at hv
    obtain ⟨rfl, rfl, rfl⟩ := hv
    exact ⟨_, rfl, rfl, nv_ok_of_toOption (by decide +kernel), nv_ok_of_toOption (by decide +kernel)⟩

/-- refusals: NTT-form input for BFV; more digits than the key level has moduli -/
theorem nv_switchKey_refuse : switchKey nv_kl .bfv 1 { nv_ksct with ntt := true } nv_kstarget nv_kskey = .error .refused ∧
    switchKey nv_kl .bfv 2 nv_ksct nv_kstarget nv_kskey = .error .refused :=
  ⟨nv_err_of (by decide +kernel), nv_err_of (by decide +kernel)⟩

/-! ## Property theorems -/

/-- NON-VACUITY, bundles: every well-formedness bundle used as a hypothesis by the property theorems has a concrete, non-trivial
    inhabitant, all in ONE consistent world (N = 4, q = {97, 113}, t = 17, 61-bit auxiliary primes) -/
theorem nonvac_bundles :
    nv_m17.WF ∧ nv_m97.WF ∧ nv_m113.WF ∧ WFOp nv_m97 ⟨22, 4183797624965052943⟩ ∧
    nv_t17.WF ∧ nv_t97.WF ∧ nv_t113.WF ∧ nv_base.WF ∧ nv_base17.WF ∧ nv_base97.WF ∧
    nv_level.WF ∧ nv_level1.WF ∧ RnsCanon nv_level nv_c0 ∧ RnsCanon nv_level nv_c1 ∧ RnsCanon nv_level nv_c0enc ∧
    FreshOK 4 17 10961 ∧ IsPrim 4 97 33 ∧ Nat.Prime nv_m97.value ∧
    Rng.ByteXof nv_xof ∧ Rng.ByteSt (Rng.fromSeed [1, 2, 3]) ∧ Rng.randUniform.Contract ∧
    (∀ e, (Codec.ctC nv_cctx e).valid nv_cct) ∧ Codec.CtDefaults nv_cctx nv_cct ∧
    Limbs [2^64 - 1, 5] ∧ ctValidFor nv_level ⟨#[nv_c0enc, nv_c1], false, 1⟩ = true ∧
    Conc.Productive C17.natAlg true [0, 1, 0, 0, 1, 1, 0, 1] (Conc.init C17.natAlg 1 [3, 2]) :=
  ⟨nv_m17_wf, nv_m97_wf, nv_m113_wf, nv_op_wf, nv_t17_wf, nv_t97_wf, nv_t113_wf, nv_base_wf, nv_base17_wf, nv_base97_wf,
   nv_level_wf, nv_level1_wf, nv_c0_canon, nv_c1_canon, nv_c0enc_canon, nv_freshOK, nv_isPrim.1, nv_prime97,
   nv_xof_byte, Rng.byteSt_fromSeed _, Rng.randUniform_contract, nv_cct_valid, nv_cct_defaults, nv_limbs.1, nv_ct_valid, nv_productive⟩

/-- NON-VACUITY, constructors: the inhabitants are what the model's constructors return -/
theorem nonvac_constructors :
    Modulus.mk? 17 = .ok nv_m17 ∧ Modulus.mk? 97 = .ok nv_m97 ∧ Modulus.mk? 113 = .ok nv_m113 ∧
    MulOperand.new 22 nv_m97 = .ok ⟨22, 4183797624965052943⟩ ∧
    NTTTables.new 2 nv_m17 true 2 = .ok nv_t17 ∧ NTTTables.new 2 nv_m97 true 64 = .ok nv_t97 ∧ NTTTables.new 2 nv_m113 true 95 = .ok nv_t113 ∧
    RNSBase.new [nv_m97, nv_m113] = .ok nv_base ∧ RNSBase.new [nv_m17] = .ok nv_base17 ∧ RNSBase.new [nv_m97] = .ok nv_base97 ∧
    BaseConverter.new nv_base nv_base17 = .ok nv_conv ∧
    RNSTool.new 4 nv_base nv_m17 [nv_a0, nv_a1, nv_a2, nv_a3] = .ok nv_tool ∧
    RNSTool.new 4 nv_base97 nv_m17 [nv_a0, nv_a1, nv_a2, nv_a3] = .ok nv_tool1 :=
  ⟨nv_m17_mk, nv_m97_mk, nv_m113_mk, nv_op_new, nv_t17_new.1, nv_t97_new, nv_t113_new, nv_base_new, nv_base17_new, nv_base97_new,
   nv_conv_new, nv_tool_new, nv_tool1_new⟩

/-- NON-VACUITY, refusals: the constructors do refuse (the `.error` branches are reachable) -/
theorem nonvac_refusals :
    Modulus.mk? 1 = .error .refused ∧ NTTTables.new 4 nv_m17 true 2 = .error .refused ∧ RNSBase.new [nv_m97, nv_m97] = .error .refused ∧
    RNSTool.new 6 nv_base nv_m17 [nv_a0, nv_a1, nv_a2, nv_a3] = .error .refused ∧
    dotProductCtSk nv_level nv_sk ⟨#[nv_c0], false, 1⟩ = .error .refused :=
  ⟨nv_mk_refuses.1, nv_tables_refuse.2.1, nv_base_refuse.2, nv_tool_refuse.1, nv_dot_refuse⟩

/-! end theorems instantiated on the concrete world (statements: see the `nv_…` theorems above) -/
theorem nonvac_dotProduct_coeff : type_of% @nv_dot_coeff := @nv_dot_coeff
theorem nonvac_dotProduct_ntt : type_of% @nv_dot_ntt := @nv_dot_ntt
theorem nonvac_compose_decompose : type_of% @nv_compose_decompose := @nv_compose_decompose
theorem nonvac_fastConvert : type_of% @nv_fastConvert := @nv_fastConvert
theorem nonvac_galoisApply : type_of% @nv_galois := @nv_galois
theorem nonvac_ntt_roundtrip : type_of% @nv_ntt_roundtrip := @nv_ntt_roundtrip
theorem nonvac_ntt_convolution : type_of% @nv_ntt_convolution := @nv_ntt_convolution
theorem nonvac_batch_decode_encode : type_of% @nv_batch := @nv_batch
theorem nonvac_divideAndRoundQLast : type_of% @nv_divRound := @nv_divRound
theorem nonvac_modTAndDivideQLast : type_of% @nv_modTDiv := @nv_modTDiv
theorem nonvac_decryptScaleAndRound : type_of% @nv_scaleRound := @nv_scaleRound
theorem nonvac_smMrq : type_of% @nv_smMrq := @nv_smMrq
theorem nonvac_fastFloor : type_of% @nv_fastFloor := @nv_fastFloor
theorem nonvac_fastbconvSk : type_of% @nv_fastbconvSk := @nv_fastbconvSk
theorem nonvac_bfv_decrypt : type_of% @nv_bfv_decrypt := @nv_bfv_decrypt
theorem nonvac_decrypt_fresh : type_of% @nv_decrypt_fresh := @nv_decrypt_fresh
theorem nonvac_modswitch_decrypt : type_of% @nv_ct1_decrypt := @nv_ct1_decrypt
theorem nonvac_switchKey : type_of% @nv_switchKey := @nv_switchKey
theorem nonvac_validate : type_of% @nv_validate := @nv_validate
theorem nonvac_ciphertext_round_trip : type_of% @nv_ct_round_trip := @nv_ct_round_trip
theorem nonvac_samplers : type_of% @nv_ternary_spec := @nv_ternary_spec

end HC
