import Heathcliff.Gen.ScalingFns
import Heathcliff.Model.Scheme
import Heathcliff.Proofs.GenWord2

/-!
  Phase 4a of the translator tie: `multiply_add_plain` / `multiply_sub_plain` (src/util/scaling_variant.rs), generated into
  `Heathcliff/Gen/ScalingFns.lean` (`HC.GenS`), against `multiplyAddPlain` / `multiplySubPlain` of `Heathcliff/Model/Scheme.lean`.

  The code walks coefficient-outer / component-inner over a FLAT destination (`destination[j * coeff_count + i]`), the hand model
  component-outer / coefficient-inner over an `RnsPoly`.  Both are traversals of the same matrix of cells
  `gz_cell f … m j d` (one scaled coefficient added to / subtracted from one destination word); every cell either succeeds or fails
  with `.overflow`, so the two traversals agree on success (same matrix) and on failure (same error).  Helper names start with `gz_`.
-/
namespace HC
open HC.GenW HC.GenS

/-! ### the flat layout of one polynomial of a ciphertext: component `j`, coefficient `i` at `j * n + i` -/

/-- `RnsPoly` (components × coefficients) ↦ the flat buffer the code works on -/
def flattenRns (size n : Nat) (p : RnsPoly) : List Nat :=
  (List.range (size * n)).map fun x => (p.getD (x / n) #[]).getD (x % n) 0

/-- the flat buffer ↦ `RnsPoly` -/
def unflattenRns (size n : Nat) (d : List Nat) : RnsPoly :=
  ((List.range size).map fun j => ((List.range n).map fun i => d.getD (j * n + i) 0).toArray).toArray

theorem gz_getD_map_range {α : Type} (n : Nat) (g : Nat → α) (d : α) (i : Nat) (h : i < n) : ((List.range n).map g).getD i d = g i := by
  simp [List.getD, h]

theorem gz_div_lt {x size n : Nat} (h : x < size * n) : x / n < size :=
  Nat.div_lt_of_lt_mul (by rw [Nat.mul_comm]; exact h)

theorem gz_npos {x size n : Nat} (h : x < size * n) : 0 < n := by
  rcases Nat.eq_zero_or_pos n with h0 | h0
  · subst h0; simp at h
  · exact h0

theorem gz_idx_lt {i j size n : Nat} (hi : i < n) (hj : j < size) : j * n + i < size * n := by
  have : (j + 1) * n ≤ size * n := Nat.mul_le_mul_right _ hj
  rw [Nat.add_mul, Nat.one_mul] at this
  omega

theorem gz_idx_div {i j n : Nat} (hi : i < n) : (j * n + i) / n = j := by
  rw [Nat.mul_comm, Nat.mul_add_div (by omega), Nat.div_eq_of_lt hi, Nat.add_zero]

theorem gz_idx_mod {i j n : Nat} (hi : i < n) : (j * n + i) % n = i := by
  rw [Nat.mul_comm, Nat.mul_add_mod, Nat.mod_eq_of_lt hi]

theorem gz_div_mod (x n : Nat) : x / n * n + x % n = x := by
  rw [Nat.mul_comm]; exact Nat.div_add_mod x n

theorem gz_unflatten_getD (size n : Nat) (d : List Nat) {i j : Nat} (hi : i < n) (hj : j < size) :
    ((unflattenRns size n d).getD j #[]).getD i 0 = d.getD (j * n + i) 0 := by
  unfold unflattenRns
  rw [show ∀ (l : List (Array Nat)), l.toArray.getD j #[] = l.getD j #[] from fun l => by simp, gz_getD_map_range _ _ _ _ hj,
    show ∀ (l : List Nat), l.toArray.getD i 0 = l.getD i 0 from fun l => by simp, gz_getD_map_range _ _ _ _ hi]

/-- the two layouts are inverse to each other on buffers of the right length -/
theorem flatten_unflatten (size n : Nat) (d : List Nat) (h : d.length = size * n) : flattenRns size n (unflattenRns size n d) = d := by
  apply List.ext_getElem
  · simp [flattenRns, h]
  · intro x h1 h2
    have hx : x < size * n := by simpa [flattenRns] using h1
    have hn := gz_npos hx
    simp only [flattenRns, List.getElem_map, List.getElem_range]
    rw [gz_unflatten_getD size n d (Nat.mod_lt _ hn) (gz_div_lt hx), gz_div_mod]
    simp [List.getD, h2]

/-! ### traversals that collect results with `push` (the hand model's loops) -/

theorem gz_pushfold_ok {α : Type} (g : Nat → R α) (v : Nat → α) : ∀ n, (∀ i, i < n → g i = .ok (v i)) →
    (List.range n).foldlM (fun (c : Array α) i => do let x ← g i; pure (c.push x)) #[] = .ok ((List.range n).map v).toArray := by
  intro n
  induction n with
  | zero => intro _; rfl
  | succ n ih =>
    intro h
    rw [List.range_succ, List.foldlM_append, ih (fun i hi => h i (by omega))]
    simp only [bind, Except.bind, List.foldlM, h n (by omega), List.map_append, List.map]
    simp [pure, Except.pure]

theorem gz_pushfold_uniform {α : Type} (g : Nat → R α) (e : Err) (hu : ∀ i x, g i = .error x → x = e) : ∀ n x,
    (List.range n).foldlM (fun (c : Array α) i => do let x ← g i; pure (c.push x)) #[] = .error x → x = e := by
  intro n
  induction n with
  | zero => intro x h; cases h
  | succ n ih =>
    intro x h
    rw [List.range_succ, List.foldlM_append] at h
    cases h1 : (List.range n).foldlM (fun (c : Array α) i => do let x ← g i; pure (c.push x)) #[] with
    | error y =>
      rw [h1] at h
      have : y = e := ih y h1
      simp only [bind, Except.bind] at h
      have hxy : y = x := by cases h; rfl
      rw [← hxy]; exact this
    | ok c =>
      rw [h1] at h
      cases h2 : g n with
      | error y =>
        simp only [bind, Except.bind, List.foldlM, h2] at h
        have hxy : y = x := by cases h; rfl
        rw [← hxy]; exact hu n y h2
      | ok y =>
        simp only [bind, Except.bind, List.foldlM, h2, pure, Except.pure] at h
        cases h

theorem gz_pushfold_err {α : Type} (g : Nat → R α) (e : Err) (hu : ∀ i x, g i = .error x → x = e) : ∀ n,
    (∃ i, i < n ∧ g i = .error e) →
    (List.range n).foldlM (fun (c : Array α) i => do let x ← g i; pure (c.push x)) #[] = .error e := by
  intro n
  induction n with
  | zero => intro ⟨i, hi, _⟩; omega
  | succ n ih =>
    intro ⟨i, hi, hg⟩
    rw [List.range_succ, List.foldlM_append]
    cases h1 : (List.range n).foldlM (fun (c : Array α) i => do let x ← g i; pure (c.push x)) #[] with
    | error y =>
      have : y = e := gz_pushfold_uniform g e hu n y h1
      subst this; rfl
    | ok c =>
      by_cases hin : i < n
      · rw [ih ⟨i, hin, hg⟩] at h1; cases h1
      · have : i = n := by omega
        subst this
        simp only [bind, Except.bind, List.foldlM, hg]

/-! ### the cell and the hand model for a generic last step `f` (`addMod` / `subMod`) -/

/-- one scaled coefficient combined with one destination word (the body of the hand model's inner loop) -/
def gz_cell (f : Nat → Nat → Modulus → R Nat) (t qModT upperHalf : Nat) (q : Modulus) (op : MulOperand) (m d : Nat) : R Nat := do
  let lo := mulLo m qModT
  let hi := mulHi m qModT
  let (n0, carry) := addU64 lo upperHalf
  let n1 ← ckAdd hi carry
  if t = 0 then .error .other else
  let fix := ((n0 + B64 * n1) / t) % B64
  let sc ← mulOperandAddMod m op fix q
  f d sc q

def gz_model (f : Nat → Nat → Modulus → R Nat) (l : Level) (cdp : Array MulOperand) (qModT upperHalf : Nat)
    (plain : Poly) (dest : RnsPoly) : R RnsPoly :=
  if plain.size > l.n then .error .refused else
  (List.range l.size).foldlM (fun acc j => do
    let x ← (List.range l.n).foldlM (fun (c : Array Nat) i => do
      let v ← (if i < plain.size then
          gz_cell f l.t.value qModT upperHalf (l.q j) (cdp.getD j default) (plain.getD i 0) ((dest.getD j #[]).getD i 0)
        else pure ((dest.getD j #[]).getD i 0))
      pure (c.push v)) #[]
    pure (acc.push x)) #[]

theorem gz_cell_push (f : Nat → Nat → Modulus → R Nat) (t qModT upperHalf : Nat) (q : Modulus) (op : MulOperand) (m d : Nat) (c : Array Nat) :
    (do
      let lo := mulLo m qModT
      let hi := mulHi m qModT
      let (n0, carry) := addU64 lo upperHalf
      let n1 ← ckAdd hi carry
      if t = 0 then .error .other else
      let fix := ((n0 + B64 * n1) / t) % B64
      let sc ← mulOperandAddMod m op fix q
      let v ← f d sc q
      pure (c.push v) : R (Array Nat)) = (do let v ← gz_cell f t qModT upperHalf q op m d; pure (c.push v)) := by
  unfold gz_cell
  simp only []
  cases ckAdd (mulHi m qModT) (addU64 (mulLo m qModT) upperHalf).2 with
  | error e => rfl
  | ok n1 =>
    simp only [bind, Except.bind]
    split
    · rfl
    · cases mulOperandAddMod m op (((addU64 (mulLo m qModT) upperHalf).1 + B64 * n1) / t % B64) q with
      | error e => rfl
      | ok sc => rfl

theorem gz_model_add (l : Level) (cdp : Array MulOperand) (qModT upperHalf : Nat) (plain : Poly) (dest : RnsPoly) :
    multiplyAddPlain l cdp qModT upperHalf plain dest = gz_model addMod l cdp qModT upperHalf plain dest := by
  unfold multiplyAddPlain gz_model
  split
  · rfl
  · congr 1
    funext acc j
    simp only []
    congr 2
    funext c i
    split
    · exact gz_cell_push addMod _ _ _ _ _ _ _ c
    · rfl

theorem gz_model_sub (l : Level) (cdp : Array MulOperand) (qModT upperHalf : Nat) (plain : Poly) (dest : RnsPoly) :
    multiplySubPlain l cdp qModT upperHalf plain dest = gz_model subMod l cdp qModT upperHalf plain dest := by
  unfold multiplySubPlain gz_model
  split
  · rfl
  · congr 1
    funext acc j
    simp only []
    congr 2
    funext c i
    split
    · exact gz_cell_push subMod _ _ _ _ _ _ _ c
    · rfl

/-! ### every failure of a cell is an arithmetic overflow -/

/-- all failures of `r` are `.overflow` -/
def gz_Ov {α : Type} (r : R α) : Prop := ∀ x, r = .error x → x = .overflow

theorem gz_Ov_pure {α : Type} (a : α) : gz_Ov (pure a : R α) := by intro x h; cases h
theorem gz_Ov_ok {α : Type} (a : α) : gz_Ov (.ok a : R α) := by intro x h; cases h
theorem gz_Ov_bind {α β : Type} {r : R α} {k : α → R β} (h1 : gz_Ov r) (h2 : ∀ a, gz_Ov (k a)) : gz_Ov (r >>= k) := by
  intro x h
  cases hr : r with
  | error y =>
    rw [hr] at h
    have hxy : y = x := by cases h; rfl
    rw [← hxy]; exact h1 y hr
  | ok a => rw [hr] at h; exact h2 a x h
theorem gz_Ov_ite {α : Type} {c : Prop} [Decidable c] {a b : R α} (h1 : gz_Ov a) (h2 : gz_Ov b) : gz_Ov (if c then a else b) := by
  split
  · exact h1
  · exact h2
theorem gz_Ov_ckAdd (a b : Nat) : gz_Ov (ckAdd a b) := by
  unfold ckAdd; intro x h; split at h <;> cases h; rfl
theorem gz_Ov_ckSub (a b : Nat) : gz_Ov (ckSub a b) := by
  unfold ckSub; intro x h; split at h <;> cases h; rfl
theorem gz_Ov_ckMul (a b : Nat) : gz_Ov (ckMul a b) := by
  unfold ckMul; intro x h; split at h <;> cases h; rfl
theorem gz_Ov_addMod (a b : Nat) (m : Modulus) : gz_Ov (addMod a b m) :=
  gz_Ov_bind (gz_Ov_ckAdd _ _) fun _ => gz_Ov_ite (gz_Ov_ckSub _ _) (gz_Ov_pure _)
theorem gz_Ov_subMod (a b : Nat) (m : Modulus) : gz_Ov (subMod a b m) := gz_Ov_pure _
theorem gz_Ov_barrett64 (x : Nat) (m : Modulus) : gz_Ov (barrett64 x m) :=
  gz_Ov_bind (gz_Ov_ckMul _ _) fun _ => gz_Ov_bind (gz_Ov_ckSub _ _) fun _ => gz_Ov_ite (gz_Ov_ckSub _ _) (gz_Ov_pure _)
theorem gz_Ov_mulOperandMod (x : Nat) (y : MulOperand) (m : Modulus) : gz_Ov (mulOperandMod x y m) :=
  gz_Ov_ite (gz_Ov_ckSub _ _) (gz_Ov_pure _)
theorem gz_Ov_mulOperandAddMod (a : Nat) (b : MulOperand) (c : Nat) (m : Modulus) : gz_Ov (mulOperandAddMod a b c m) :=
  gz_Ov_bind (gz_Ov_mulOperandMod _ _ _) fun _ => gz_Ov_bind (gz_Ov_barrett64 _ _) fun _ => gz_Ov_addMod _ _ _

theorem gz_Ov_cell {f : Nat → Nat → Modulus → R Nat} (hf : ∀ a b m, gz_Ov (f a b m)) {t : Nat} (ht : t ≠ 0)
    (qModT upperHalf : Nat) (q : Modulus) (op : MulOperand) (m d : Nat) : gz_Ov (gz_cell f t qModT upperHalf q op m d) := by
  unfold gz_cell
  simp only [if_neg ht]
  exact gz_Ov_bind (gz_Ov_ckAdd _ _) fun _ => gz_Ov_bind (gz_Ov_mulOperandAddMod _ _ _ _) fun _ => hf _ _ _

/-! ### the hand model as a matrix of cells -/

theorem gz_model_ok (f : Nat → Nat → Modulus → R Nat) (l : Level) (cdp : Array MulOperand) (qModT upperHalf : Nat)
    (plain : Poly) (dest : RnsPoly) (V : Nat → Nat → Nat) (hp : plain.size ≤ l.n)
    (h : ∀ j, j < l.size → ∀ i, i < plain.size →
      gz_cell f l.t.value qModT upperHalf (l.q j) (cdp.getD j default) (plain.getD i 0) ((dest.getD j #[]).getD i 0) = .ok (V i j)) :
    gz_model f l cdp qModT upperHalf plain dest =
      .ok ((List.range l.size).map fun j =>
        ((List.range l.n).map fun i => if i < plain.size then V i j else (dest.getD j #[]).getD i 0).toArray).toArray := by
  unfold gz_model
  rw [if_neg (by omega)]
  apply gz_pushfold_ok
    (fun j => (List.range l.n).foldlM (fun (c : Array Nat) i => do
      let v ← (if i < plain.size then
          gz_cell f l.t.value qModT upperHalf (l.q j) (cdp.getD j default) (plain.getD i 0) ((dest.getD j #[]).getD i 0)
        else pure ((dest.getD j #[]).getD i 0))
      pure (c.push v)) #[])
    (fun j => ((List.range l.n).map fun i => if i < plain.size then V i j else (dest.getD j #[]).getD i 0).toArray)
  intro j hj
  apply gz_pushfold_ok
    (fun i => if i < plain.size then
        gz_cell f l.t.value qModT upperHalf (l.q j) (cdp.getD j default) (plain.getD i 0) ((dest.getD j #[]).getD i 0)
      else pure ((dest.getD j #[]).getD i 0))
    (fun i => if i < plain.size then V i j else (dest.getD j #[]).getD i 0)
  intro i _
  by_cases hi : i < plain.size
  · rw [if_pos hi, if_pos hi]; exact h j hj i hi
  · rw [if_neg hi, if_neg hi]; rfl

theorem gz_model_err (f : Nat → Nat → Modulus → R Nat) (l : Level) (cdp : Array MulOperand) (qModT upperHalf : Nat)
    (plain : Poly) (dest : RnsPoly) (hp : plain.size ≤ l.n)
    (hu : ∀ j i, gz_Ov (gz_cell f l.t.value qModT upperHalf (l.q j) (cdp.getD j default) (plain.getD i 0) ((dest.getD j #[]).getD i 0)))
    (h : ∃ j, j < l.size ∧ ∃ i, i < plain.size ∧
      gz_cell f l.t.value qModT upperHalf (l.q j) (cdp.getD j default) (plain.getD i 0) ((dest.getD j #[]).getD i 0) = .error .overflow) :
    gz_model f l cdp qModT upperHalf plain dest = .error .overflow := by
  unfold gz_model
  rw [if_neg (by omega)]
  have hin : ∀ j i x, (if i < plain.size then
        gz_cell f l.t.value qModT upperHalf (l.q j) (cdp.getD j default) (plain.getD i 0) ((dest.getD j #[]).getD i 0)
      else pure ((dest.getD j #[]).getD i 0)) = .error x → x = .overflow := by
    intro j i x hx
    by_cases hi : i < plain.size
    · rw [if_pos hi] at hx; exact hu j i x hx
    · rw [if_neg hi] at hx; cases hx
  obtain ⟨j, hj, i, hi, hc⟩ := h
  apply gz_pushfold_err
    (fun j => (List.range l.n).foldlM (fun (c : Array Nat) i => do
      let v ← (if i < plain.size then
          gz_cell f l.t.value qModT upperHalf (l.q j) (cdp.getD j default) (plain.getD i 0) ((dest.getD j #[]).getD i 0)
        else pure ((dest.getD j #[]).getD i 0))
      pure (c.push v)) #[]) .overflow
  · intro j x hx
    exact gz_pushfold_uniform _ .overflow (hin j) l.n x hx
  · refine ⟨j, hj, ?_⟩
    apply gz_pushfold_err _ .overflow (hin j) l.n
    exact ⟨i, by omega, by rw [if_pos hi]; exact hc⟩

/-! ### the generated loops with the last step abstracted (`f` = `addMod` / `subMod`) -/

/-- the generated inner loop (over the components `j`, at coefficient `i`) -/
def gz_ref2 (f : Nat → Nat → Modulus → R Nat) (cm : List Modulus) (N : Nat) (cdp : List MulOperand) (pd : List Nat) (fix i : Nat) :
    Nat → Nat → List Nat → R (List Nat)
  | 0, _, a => pure a
  | fuel+1, j, a => do
    let t3 ← GenW.idx pd i
    let t4 ← GenS.idxT cdp j
    let t5 ← GenS.idxT cm j
    let v12 ← mulOperandAddMod t3 t4 fix t5
    let t6 ← ckMul j N
    let t7 ← ckAdd t6 i
    let t8 ← GenW.idx a t7
    let t9 ← GenS.idxT cm j
    let t10 ← f t8 v12 t9
    let t11 ← ckMul j N
    let t12 ← ckAdd t11 i
    let a ← GenW.setIdx a t12 t10
    gz_ref2 f cm N cdp pd fix i fuel (j + 1) a

/-- the generated outer loop (over the coefficients `i` of the plaintext) -/
def gz_ref1 (f : Nat → Nat → Modulus → R Nat) (cm : List Modulus) (N : Nat) (cdp : List MulOperand) (pd : List Nat) (t upperHalf qModT : Nat) :
    Nat → Nat → List Nat → R (List Nat)
  | 0, _, a => pure a
  | fuel+1, i, a => do
    let t1 ← GenW.idx pd i
    let (n0, c) := addU64 (mulLo t1 qModT) upperHalf
    let n1 ← ckAdd (mulHi t1 qModT) c
    let (_, _, fix, _) ← GenW.divide_u128_u64_inplace n0 n1 t
    let a ← gz_ref2 f cm N cdp pd fix i cm.length 0 a
    gz_ref1 f cm N cdp pd t upperHalf qModT fuel (i + 1) a

theorem gz_add_loop2_eq (cm : List Modulus) (N v1 : Nat) (cdp : List MulOperand) (pd : List Nat) (fix f1 i : Nat) : ∀ cnt j a,
    GenS.multiply_add_plain_loop2 v1 fix f1 i cm N cdp pd cnt j a = gz_ref2 addMod cm N cdp pd fix i cnt j a := by
  intro cnt
  induction cnt with
  | zero => intro j a; rfl
  | succ n ih =>
    intro j a
    rw [GenS.multiply_add_plain_loop2, gz_ref2]
    simp only [gw_multiply_u64operand_add_u64_mod_eq, gw_add_u64_mod_eq, ih]

theorem gz_add_loop1_eq (v1 : Nat) (cm : List Modulus) (pc N : Nat) (pm : Modulus) (cdp : List MulOperand) (uh qModT : Nat) (pd : List Nat) (hv3 : v1 = cm.length) :
    ∀ cnt i a p0 p1 n0 n1 f0 f1,
    GenS.multiply_add_plain_loop1 v1 cm pc N pm cdp uh qModT pd cnt i a p0 p1 n0 n1 f0 f1 =
      gz_ref1 addMod cm N cdp pd pm.value uh qModT cnt i a := by
  subst hv3
  intro cnt
  induction cnt with
  | zero => intro i a _ _ _ _ _ _; rfl
  | succ n ih =>
    intro i a _ _ _ _ _ _
    rw [GenS.multiply_add_plain_loop1, gz_ref1]
    simp only [gw_multiply_u64_u64_eq, gw_add_u64_eq, gz_add_loop2_eq, ih]
theorem gz_sub_loop2_eq (cm : List Modulus) (N v1 : Nat) (cdp : List MulOperand) (pd : List Nat) (i fix f1 : Nat) : ∀ cnt j a,
    GenS.multiply_sub_plain_loop2 v1 i fix f1 cm N cdp pd cnt j a = gz_ref2 subMod cm N cdp pd fix i cnt j a := by
  intro cnt
  induction cnt with
  | zero => intro j a; rfl
  | succ n ih =>
    intro j a
    rw [GenS.multiply_sub_plain_loop2, gz_ref2]
    simp only [gw_multiply_u64operand_add_u64_mod_eq, gw_sub_u64_mod_eq, ih]

theorem gz_sub_loop1_eq (v1 : Nat) (cm : List Modulus) (pc N : Nat) (pm : Modulus) (cdp : List MulOperand) (uh qModT : Nat) (pd : List Nat) (hv3 : v1 = cm.length) :
    ∀ cnt i a,
    GenS.multiply_sub_plain_loop1 v1 cm pc N pm cdp uh qModT pd cnt i a =
      gz_ref1 subMod cm N cdp pd pm.value uh qModT cnt i a := by
  subst hv3
  intro cnt
  induction cnt with
  | zero => intro i a; rfl
  | succ n ih =>
    intro i a
    rw [GenS.multiply_sub_plain_loop1, gz_ref1]
    simp only [gw_multiply_u64_u64_eq, gw_add_u64_eq, gz_sub_loop2_eq, ih]

/-! ### one step of the reference loops -/

theorem gz_idx_getD (l : List Nat) (i : Nat) (h : i < l.length) : GenW.idx l i = .ok (l.getD i 0) := by
  rw [gw_idx_eq l i h]; simp [List.getD, h]

theorem gz_idxT_getD {α : Type} [Inhabited α] (l : List α) (i : Nat) (h : i < l.length) : GenS.idxT l i = .ok (l.getD i default) := by
  unfold GenS.idxT; simp [List.getD, h]

/-- the second half of a cell: scaled coefficient (with the rounding fix-up `fix` already computed) combined with the destination word -/
def gz_cell2 (f : Nat → Nat → Modulus → R Nat) (q : Modulus) (op : MulOperand) (m fix d : Nat) : R Nat := do
  let sc ← mulOperandAddMod m op fix q
  f d sc q

/-- the rounding fix-up ⌊((q mod t)·m + upperHalf) / t⌋ as the code computes it (two-word numerator, low word of the quotient) -/
def gz_fix (t qModT upperHalf m : Nat) : Nat :=
  (((addU64 (mulLo m qModT) upperHalf).1 + B64 * (mulHi m qModT + (addU64 (mulLo m qModT) upperHalf).2)) / t) % B64

theorem gz_ckAdd_hi {m qModT : Nat} (hm : m < 2^64) (hq : qModT < 2^64) (upperHalf : Nat) :
    ckAdd (mulHi m qModT) (addU64 (mulLo m qModT) upperHalf).2 = .ok (mulHi m qModT + (addU64 (mulLo m qModT) upperHalf).2) := by
  have hc : (addU64 (mulLo m qModT) upperHalf).2 ≤ 1 := by
    unfold addU64; simp only []; split <;> omega
  have hh : mulHi m qModT < B64 - 1 := by
    unfold mulHi
    apply Nat.div_lt_of_lt_mul
    have h1 : m * qModT ≤ (2^64 - 1) * (2^64 - 1) := Nat.mul_le_mul (by omega) (by omega)
    have h2 : (2^64 - 1) * (2^64 - 1) < B64 * (B64 - 1) := by decide
    omega
  unfold ckAdd
  rw [if_pos (by omega)]

theorem gz_cell_eq (f : Nat → Nat → Modulus → R Nat) {t qModT m : Nat} (ht : t ≠ 0) (hm : m < 2^64) (hq : qModT < 2^64)
    (upperHalf : Nat) (q : Modulus) (op : MulOperand) (d : Nat) :
    gz_cell f t qModT upperHalf q op m d = gz_cell2 f q op m (gz_fix t qModT upperHalf m) d := by
  unfold gz_cell gz_cell2 gz_fix
  simp only [gz_ckAdd_hi hm hq upperHalf, if_neg ht, bind, Except.bind]

theorem gz_ref2_step (f : Nat → Nat → Modulus → R Nat) (cm : List Modulus) (N : Nat) (cdp : List MulOperand) (pd : List Nat) (fix i cnt j : Nat)
    (a : List Nat) (hi : i < pd.length) (hj : j < cm.length) (hj' : j < cdp.length) (hidx : j * N + i < a.length) (ha : a.length < B64) :
    gz_ref2 f cm N cdp pd fix i (cnt + 1) j a =
      (do let v ← gz_cell2 f (cm.getD j default) (cdp.getD j default) (pd.getD i 0) fix (a.getD (j * N + i) 0)
          gz_ref2 f cm N cdp pd fix i cnt (j + 1) (a.set (j * N + i) v)) := by
  rw [gz_ref2]
  have h1 : ckMul j N = .ok (j * N) := by unfold ckMul; rw [if_pos (by omega)]
  have h2 : ckAdd (j * N) i = .ok (j * N + i) := by unfold ckAdd; rw [if_pos (by omega)]
  simp only [gz_idx_getD pd i hi, gz_idxT_getD cdp j hj', gz_idxT_getD cm j hj, h1, h2, gz_idx_getD a _ hidx, bind, Except.bind, gz_cell2]
  cases mulOperandAddMod (pd.getD i 0) (cdp.getD j default) fix (cm.getD j default) with
  | error e => rfl
  | ok sc =>
    simp only []
    cases f (a.getD (j * N + i) 0) sc (cm.getD j default) with
    | error e => rfl
    | ok v =>
      have hs : GenW.setIdx a (j * N + i) v = .ok (a.set (j * N + i) v) := by unfold GenW.setIdx; rw [if_pos hidx]
      simp only [hs]

theorem gz_ref1_step (f : Nat → Nat → Modulus → R Nat) (cm : List Modulus) (N : Nat) (cdp : List MulOperand) (pd : List Nat)
    {t qModT : Nat} (upperHalf cnt i : Nat) (a : List Nat) (ht : t ≠ 0) (hq : qModT < 2^64) (hi : i < pd.length) (hm : pd.getD i 0 < 2^64) :
    gz_ref1 f cm N cdp pd t upperHalf qModT (cnt + 1) i a =
      (do let a' ← gz_ref2 f cm N cdp pd (gz_fix t qModT upperHalf (pd.getD i 0)) i cm.length 0 a
          gz_ref1 f cm N cdp pd t upperHalf qModT cnt (i + 1) a') := by
  rw [gz_ref1]
  have hn0 : (addU64 (mulLo (pd.getD i 0) qModT) upperHalf).1 < 2^64 := by
    unfold addU64 wAdd; simp only []; exact Nat.mod_lt _ (by decide)
  have hc : (addU64 (mulLo (pd.getD i 0) qModT) upperHalf).2 ≤ 1 := by
    unfold addU64; simp only []; split <;> omega
  have hh : mulHi (pd.getD i 0) qModT < B64 - 1 := by
    unfold mulHi
    apply Nat.div_lt_of_lt_mul
    have h1 : pd.getD i 0 * qModT ≤ (2^64 - 1) * (2^64 - 1) := Nat.mul_le_mul (by omega) (by omega)
    have h2 : (2^64 - 1) * (2^64 - 1) < B64 * (B64 - 1) := by decide
    omega
  have hB : B64 = 2^64 := by decide
  have hn1 : mulHi (pd.getD i 0) qModT + (addU64 (mulLo (pd.getD i 0) qModT) upperHalf).2 < 2^64 := by omega
  have hor : ∀ n0 n1 : Nat, n0 < 2^64 → (n1 <<< 64 ||| n0) = n0 + B64 * n1 := by
    intro n0 n1 h0
    rw [Nat.shiftLeft_eq, Nat.mul_comm, ← Nat.two_pow_add_eq_or_of_lt h0, hB, Nat.add_comm]
  simp only [gz_idx_getD pd i hi, gz_ckAdd_hi hm hq upperHalf, gx_divide_u128_u64_inplace_eq _ _ t hn0 hn1, if_neg ht, bind, Except.bind,
    hor _ _ hn0, gz_fix]
theorem gz_Ov_cell2 {f : Nat → Nat → Modulus → R Nat} (hf : ∀ a b m, gz_Ov (f a b m)) (q : Modulus) (op : MulOperand) (m fix d : Nat) :
    gz_Ov (gz_cell2 f q op m fix d) :=
  gz_Ov_bind (gz_Ov_mulOperandAddMod _ _ _ _) fun _ => hf _ _ _

theorem gz_getD_set_self (a : List Nat) (p v : Nat) (h : p < a.length) : (a.set p v).getD p 0 = v := by
  simp [List.getD, h]

theorem gz_getD_set_ne (a : List Nat) {p p' : Nat} (v : Nat) (h : p ≠ p') : (a.set p v).getD p' 0 = a.getD p' 0 := by
  simp [List.getD, h]

theorem gz_idx_inj {i j j' n : Nat} (h : j * n + i = j' * n + i) (hn : 0 < n) : j = j' := by
  have : j * n = j' * n := by omega
  exact Nat.eq_of_mul_eq_mul_right hn this

/-! ### the inner loop: all cells of the row succeed / one fails -/

theorem gz_ref2_ok (f : Nat → Nat → Modulus → R Nat) (cm : List Modulus) (N : Nat) (cdp : List MulOperand) (pd : List Nat) (fix i size : Nat)
    (hcm : cm.length = size) (hcdp : size ≤ cdp.length) (hi : i < pd.length) (hiN : i < N) (v : Nat → Nat) :
    ∀ cnt j a, j + cnt = size → a.length = size * N → a.length < B64 →
    (∀ j', j ≤ j' → j' < size →
      gz_cell2 f (cm.getD j' default) (cdp.getD j' default) (pd.getD i 0) fix (a.getD (j' * N + i) 0) = .ok (v j')) →
    gz_ref2 f cm N cdp pd fix i cnt j a =
      .ok ((List.range (size * N)).map fun p => if p % N = i ∧ j ≤ p / N then v (p / N) else a.getD p 0) := by
  intro cnt
  induction cnt with
  | zero =>
    intro j a hj hl _ _
    rw [gz_ref2]
    show Except.ok a = _
    congr 1
    apply List.ext_getElem
    · simp [hl]
    · intro p h1 h2
      have hp : p < size * N := by rw [← hl]; exact h1
      have : ¬ (p % N = i ∧ j ≤ p / N) := by
        have := gz_div_lt hp; omega
      simp only [List.getElem_map, List.getElem_range, if_neg this]
      simp [List.getD, h1]
  | succ n ih =>
    intro j a hj hl hB hc
    have hjs : j < size := by omega
    have hidx : j * N + i < a.length := by rw [hl]; exact gz_idx_lt hiN hjs
    rw [gz_ref2_step f cm N cdp pd fix i n j a hi (by omega) (by omega) hidx hB, hc j (Nat.le_refl _) hjs]
    show gz_ref2 f cm N cdp pd fix i n (j + 1) (a.set (j * N + i) (v j)) = _
    rw [ih (j + 1) _ (by omega) (by rw [List.length_set]; exact hl) (by rw [List.length_set]; exact hB)]
    · congr 1
      apply List.map_congr_left
      intro p hp
      have hp : p < size * N := List.mem_range.mp hp
      by_cases hpe : p = j * N + i
      · subst hpe
        rw [gz_idx_mod hiN, gz_idx_div hiN, if_neg (by omega), if_pos ⟨rfl, Nat.le_refl _⟩, gz_getD_set_self _ _ _ hidx]
      · rw [gz_getD_set_ne _ _ (Ne.symm hpe)]
        by_cases hc1 : p % N = i ∧ j ≤ p / N
        · have hne : p / N ≠ j := by
            intro he
            apply hpe
            have := gz_div_mod p N
            rw [he, hc1.1] at this; exact this.symm
          rw [if_pos hc1, if_pos ⟨hc1.1, by omega⟩]
        · rw [if_neg hc1, if_neg (fun h => hc1 ⟨h.1, by omega⟩)]
    · intro j' h1 h2
      rw [gz_getD_set_ne _ _ (fun he => by have := gz_idx_inj he (by omega); omega)]
      exact hc j' (by omega) h2

theorem gz_ref2_err {f : Nat → Nat → Modulus → R Nat} (hf : ∀ a b m, gz_Ov (f a b m)) (cm : List Modulus) (N : Nat) (cdp : List MulOperand)
    (pd : List Nat) (fix i size : Nat) (hcm : cm.length = size) (hcdp : size ≤ cdp.length) (hi : i < pd.length) (hiN : i < N) :
    ∀ cnt j a, j + cnt = size → a.length = size * N → a.length < B64 →
    (∃ j', j ≤ j' ∧ j' < size ∧
      gz_cell2 f (cm.getD j' default) (cdp.getD j' default) (pd.getD i 0) fix (a.getD (j' * N + i) 0) = .error .overflow) →
    gz_ref2 f cm N cdp pd fix i cnt j a = .error .overflow := by
  intro cnt
  induction cnt with
  | zero => intro j a hj _ _ ⟨j', h1, h2, _⟩; omega
  | succ n ih =>
    intro j a hj hl hB ⟨j', h1, h2, hc⟩
    have hjs : j < size := by omega
    have hidx : j * N + i < a.length := by rw [hl]; exact gz_idx_lt hiN hjs
    rw [gz_ref2_step f cm N cdp pd fix i n j a hi (by omega) (by omega) hidx hB]
    cases hcj : gz_cell2 f (cm.getD j default) (cdp.getD j default) (pd.getD i 0) fix (a.getD (j * N + i) 0) with
    | error x =>
      have := gz_Ov_cell2 hf _ _ _ _ _ x hcj
      subst this; rfl
    | ok v0 =>
      show gz_ref2 f cm N cdp pd fix i n (j + 1) (a.set (j * N + i) v0) = _
      have hne : j' ≠ j := by intro he; subst he; rw [hcj] at hc; cases hc
      apply ih (j + 1) _ (by omega) (by rw [List.length_set]; exact hl) (by rw [List.length_set]; exact hB)
      refine ⟨j', by omega, h2, ?_⟩
      rw [gz_getD_set_ne _ _ (fun he => hne (gz_idx_inj he (by omega)).symm)]
      exact hc
/-- the value of a successful computation (0 for a failed one) -/
def gz_val (r : R Nat) : Nat := match r with | .ok v => v | .error _ => 0

theorem gz_val_ok {r : R Nat} (h : ∃ v, r = .ok v) : r = .ok (gz_val r) := by
  obtain ⟨v, hv⟩ := h; rw [hv]; rfl

theorem gz_not_ok {r : R Nat} (hu : gz_Ov r) (h : ¬ ∃ v, r = .ok v) : r = .error .overflow := by
  cases hr : r with
  | ok v => exact absurd ⟨v, hr⟩ h
  | error x => rw [hu x hr]

/-! ### the outer loop -/

theorem gz_ref1_ok (f : Nat → Nat → Modulus → R Nat) (cm : List Modulus) (N : Nat) (cdp : List MulOperand) (pd : List Nat)
    {t qModT : Nat} (upperHalf size pc : Nat) (hcm : cm.length = size) (hcdp : size ≤ cdp.length) (hpc : pc ≤ pd.length) (hpN : pc ≤ N)
    (ht : t ≠ 0) (hq : qModT < 2^64) (hw : ∀ i, i < pc → pd.getD i 0 < 2^64) (V : Nat → Nat → Nat) :
    ∀ cnt i a, i + cnt = pc → a.length = size * N → a.length < B64 →
    (∀ i', i ≤ i' → i' < pc → ∀ j, j < size →
      gz_cell2 f (cm.getD j default) (cdp.getD j default) (pd.getD i' 0) (gz_fix t qModT upperHalf (pd.getD i' 0)) (a.getD (j * N + i') 0)
        = .ok (V i' j)) →
    gz_ref1 f cm N cdp pd t upperHalf qModT cnt i a =
      .ok ((List.range (size * N)).map fun p => if i ≤ p % N ∧ p % N < pc then V (p % N) (p / N) else a.getD p 0) := by
  intro cnt
  induction cnt with
  | zero =>
    intro i a hi hl _ _
    rw [gz_ref1]
    show Except.ok a = _
    congr 1
    apply List.ext_getElem
    · simp [hl]
    · intro p h1 h2
      simp only [List.getElem_map, List.getElem_range, if_neg (show ¬ (i ≤ p % N ∧ p % N < pc) by omega)]
      simp [List.getD, h1]
  | succ n ih =>
    intro i a hi hl hB hc
    have hip : i < pc := by omega
    rw [gz_ref1_step f cm N cdp pd upperHalf n i a ht hq (by omega) (hw i hip),
      gz_ref2_ok f cm N cdp pd _ i size hcm hcdp (by omega) (by omega) (V i) cm.length 0 a (by omega) hl hB
        (fun j' _ h2 => hc i (Nat.le_refl _) hip j' h2)]
    show gz_ref1 f cm N cdp pd t upperHalf qModT n (i + 1) _ = _
    have hl1 : ((List.range (size * N)).map fun p => if p % N = i ∧ 0 ≤ p / N then V i (p / N) else a.getD p 0).length = size * N := by simp
    rw [ih (i + 1) _ (by omega) hl1 (by rw [hl1, ← hl]; exact hB)]
    · congr 1
      apply List.map_congr_left
      intro p hp
      have hp : p < size * N := List.mem_range.mp hp
      rw [gz_getD_map_range _ _ _ _ hp]
      by_cases hpi : p % N = i
      · rw [if_neg (show ¬ (i + 1 ≤ p % N ∧ p % N < pc) by omega), if_pos (show p % N = i ∧ 0 ≤ p / N from ⟨hpi, Nat.zero_le _⟩),
          if_pos (show i ≤ p % N ∧ p % N < pc by omega), hpi]
      · by_cases hc1 : i ≤ p % N ∧ p % N < pc
        · rw [if_pos (show i + 1 ≤ p % N ∧ p % N < pc by omega), if_pos hc1]
        · rw [if_neg (show ¬ (i + 1 ≤ p % N ∧ p % N < pc) by omega), if_neg (show ¬ (p % N = i ∧ 0 ≤ p / N) from fun h => hpi h.1),
            if_neg hc1]
    · intro i' h1 h2 j hj
      have hi'N : i' < N := by omega
      rw [gz_getD_map_range _ _ _ _ (gz_idx_lt hi'N hj), gz_idx_mod hi'N, if_neg (by omega)]
      exact hc i' (by omega) h2 j hj

theorem gz_ref1_err {f : Nat → Nat → Modulus → R Nat} (hf : ∀ a b m, gz_Ov (f a b m)) (cm : List Modulus) (N : Nat) (cdp : List MulOperand)
    (pd : List Nat) {t qModT : Nat} (upperHalf size pc : Nat) (hcm : cm.length = size) (hcdp : size ≤ cdp.length) (hpc : pc ≤ pd.length)
    (hpN : pc ≤ N) (ht : t ≠ 0) (hq : qModT < 2^64) (hw : ∀ i, i < pc → pd.getD i 0 < 2^64) :
    ∀ cnt i a, i + cnt = pc → a.length = size * N → a.length < B64 →
    (∃ i', i ≤ i' ∧ i' < pc ∧ ∃ j, j < size ∧
      gz_cell2 f (cm.getD j default) (cdp.getD j default) (pd.getD i' 0) (gz_fix t qModT upperHalf (pd.getD i' 0)) (a.getD (j * N + i') 0)
        = .error .overflow) →
    gz_ref1 f cm N cdp pd t upperHalf qModT cnt i a = .error .overflow := by
  intro cnt
  induction cnt with
  | zero => intro i a hi _ _ ⟨i', h1, h2, _⟩; omega
  | succ n ih =>
    intro i a hi hl hB ⟨i', h1, h2, j, hj, hc⟩
    have hip : i < pc := by omega
    rw [gz_ref1_step f cm N cdp pd upperHalf n i a ht hq (by omega) (hw i hip)]
    by_cases hrow : ∀ j, j < size → ∃ v,
        gz_cell2 f (cm.getD j default) (cdp.getD j default) (pd.getD i 0) (gz_fix t qModT upperHalf (pd.getD i 0)) (a.getD (j * N + i) 0) = .ok v
    · rw [gz_ref2_ok f cm N cdp pd _ i size hcm hcdp (by omega) (by omega)
        (fun j => gz_val (gz_cell2 f (cm.getD j default) (cdp.getD j default) (pd.getD i 0) (gz_fix t qModT upperHalf (pd.getD i 0)) (a.getD (j * N + i) 0)))
        cm.length 0 a (by omega) hl hB (fun j' _ h2 => gz_val_ok (hrow j' h2))]
      show gz_ref1 f cm N cdp pd t upperHalf qModT n (i + 1) _ = _
      have hne : i' ≠ i := by
        intro he; subst he
        obtain ⟨v, hv⟩ := hrow j hj
        rw [hv] at hc; cases hc
      have hi'N : i' < N := by omega
      apply ih (i + 1) _ (by omega) (by simp) (by rw [List.length_map, List.length_range, ← hl]; exact hB)
      refine ⟨i', by omega, h2, j, hj, ?_⟩
      rw [gz_getD_map_range _ _ _ _ (gz_idx_lt hi'N hj), gz_idx_mod hi'N, if_neg (fun h => hne h.1)]
      exact hc
    · have hex : ∃ j, j < size ∧ ¬ ∃ v,
          gz_cell2 f (cm.getD j default) (cdp.getD j default) (pd.getD i 0) (gz_fix t qModT upperHalf (pd.getD i 0)) (a.getD (j * N + i) 0) = .ok v := by
        by_contra hno
        apply hrow
        intro j hj
        by_contra hnv
        exact hno ⟨j, hj, hnv⟩
      obtain ⟨j0, hj0, hbad⟩ := hex
      rw [gz_ref2_err hf cm N cdp pd _ i size hcm hcdp (by omega) (by omega) cm.length 0 a (by omega) hl hB
        ⟨j0, Nat.zero_le _, hj0, gz_not_ok (gz_Ov_cell2 hf _ _ _ _ _) hbad⟩]
      rfl
/-! ### reference loops = hand model (any last step `f` all of whose failures are overflows) -/

theorem gz_toList_getD {α : Type} (a : Array α) (i : Nat) (d : α) : a.toList.getD i d = a.getD i d := by
  simp [List.getD, Array.getD]
  by_cases h : i < a.size
  · simp [h]
  · simp [h]

theorem gz_toArray_getD {α : Type} (x : List α) (i : Nat) (d : α) : x.toArray.getD i d = x.getD i d := by simp

theorem gz_ref1_eq_model {f : Nat → Nat → Modulus → R Nat} (hf : ∀ a b m, gz_Ov (f a b m)) (l : Level) (cdp : Array MulOperand)
    (qModT upperHalf : Nat) (plain : Poly) (dest : List Nat)
    (hcdp : l.size ≤ cdp.size) (hp : plain.size ≤ l.n) (ht : l.t.value ≠ 0) (hq : qModT < 2^64)
    (hw : ∀ i, i < plain.size → plain.getD i 0 < 2^64) (hl : dest.length = l.size * l.n) (hB : dest.length < B64) :
    gz_ref1 f l.qs.toList l.n cdp.toList plain.toList l.t.value upperHalf qModT plain.size 0 dest =
      Except.map (flattenRns l.size l.n) (gz_model f l cdp qModT upperHalf plain (unflattenRns l.size l.n dest)) := by
  have hcell : ∀ i, i < plain.size → ∀ j, j < l.size →
      gz_cell2 f (l.qs.toList.getD j default) (cdp.toList.getD j default) (plain.toList.getD i 0)
          (gz_fix l.t.value qModT upperHalf (plain.toList.getD i 0)) (dest.getD (j * l.n + i) 0) =
        gz_cell f l.t.value qModT upperHalf (l.q j) (cdp.getD j default) (plain.getD i 0)
          (((unflattenRns l.size l.n dest).getD j #[]).getD i 0) := by
    intro i hi j hj
    rw [gz_toList_getD, gz_toList_getD, gz_toList_getD, gz_unflatten_getD _ _ _ (by omega) hj,
      gz_cell_eq f ht (hw i hi) hq]
    rfl
  have hOv : ∀ j i, gz_Ov (gz_cell f l.t.value qModT upperHalf (l.q j) (cdp.getD j default) (plain.getD i 0)
      (((unflattenRns l.size l.n dest).getD j #[]).getD i 0)) := fun j i => gz_Ov_cell hf ht _ _ _ _ _ _
  by_cases hall : ∀ i, i < plain.size → ∀ j, j < l.size → ∃ v,
      gz_cell f l.t.value qModT upperHalf (l.q j) (cdp.getD j default) (plain.getD i 0)
        (((unflattenRns l.size l.n dest).getD j #[]).getD i 0) = .ok v
  · rw [gz_model_ok f l cdp qModT upperHalf plain _
        (fun i j => gz_val (gz_cell f l.t.value qModT upperHalf (l.q j) (cdp.getD j default) (plain.getD i 0)
          (((unflattenRns l.size l.n dest).getD j #[]).getD i 0))) hp (fun j hj i hi => gz_val_ok (hall i hi j hj)),
      gz_ref1_ok f l.qs.toList l.n cdp.toList plain.toList upperHalf l.size plain.size (by simp [Level.size]) (by simpa using hcdp)
        (by simp) hp ht hq (fun i hi => by rw [gz_toList_getD]; exact hw i hi)
        (fun i j => gz_val (gz_cell f l.t.value qModT upperHalf (l.q j) (cdp.getD j default) (plain.getD i 0)
          (((unflattenRns l.size l.n dest).getD j #[]).getD i 0))) plain.size 0 dest (by omega) hl hB
        (fun i' _ h2 j hj => by rw [hcell i' h2 j hj]; exact gz_val_ok (hall i' h2 j hj))]
    show _ = Except.ok _
    congr 1
    unfold flattenRns
    apply List.map_congr_left
    intro p hp'
    have hp' : p < l.size * l.n := List.mem_range.mp hp'
    have hn := gz_npos hp'
    rw [gz_toArray_getD (List.map _ (List.range l.size)), gz_getD_map_range _ _ _ _ (gz_div_lt hp'),
      gz_toArray_getD (List.map _ (List.range l.n)), gz_getD_map_range _ _ _ _ (Nat.mod_lt _ hn)]
    by_cases hc : p % l.n < plain.size
    · rw [if_pos ⟨Nat.zero_le _, hc⟩, if_pos hc]
    · rw [if_neg (fun h => hc h.2), if_neg hc, gz_unflatten_getD _ _ _ (Nat.mod_lt _ hn) (gz_div_lt hp'), gz_div_mod]
  · have hex : ∃ i, i < plain.size ∧ ∃ j, j < l.size ∧ ¬ ∃ v,
        gz_cell f l.t.value qModT upperHalf (l.q j) (cdp.getD j default) (plain.getD i 0)
          (((unflattenRns l.size l.n dest).getD j #[]).getD i 0) = .ok v := by
      by_contra hno
      apply hall
      intro i hi j hj
      by_contra hnv
      exact hno ⟨i, hi, j, hj, hnv⟩
    obtain ⟨i, hi, j, hj, hbad⟩ := hex
    have herr := gz_not_ok (hOv j i) hbad
    rw [gz_model_err f l cdp qModT upperHalf plain _ hp hOv ⟨j, hj, i, hi, herr⟩,
      gz_ref1_err hf l.qs.toList l.n cdp.toList plain.toList upperHalf l.size plain.size (by simp [Level.size]) (by simpa using hcdp)
        (by simp) hp ht hq (fun i hi => by rw [gz_toList_getD]; exact hw i hi) plain.size 0 dest (by omega) hl hB
        ⟨i, Nat.zero_le _, hi, j, hj, by rw [hcell i hi j hj]; exact herr⟩]
    rfl
/-! ### the generated functions = the hand model -/

/-- `multiply_add_plain` (generated from src/util/scaling_variant.rs) on the flat destination buffer IS the hand model
    `multiplyAddPlain` on the corresponding `RnsPoly`, flattened again — successes (same buffer), the refusal of a plaintext longer than
    the degree (`assert!`), and failures (every arithmetic trap of a cell is an overflow on both sides).
    The context getters are instantiated with the level's data: `coeff_modulus()` = the level's moduli, `poly_modulus_degree()` = `l.n`,
    `plain_modulus()` = `l.t`, `coeff_div_plain_modulus()` = `cdp`, `plain.coeff_count()` = `plain.data().len()` = `plain.size`.
    Hypotheses: the buffer has the level's shape and a length that fits a `usize` (true of every slice), one operand per modulus,
    `t ≠ 0` (at `t = 0` the code divides by zero for every coefficient), and the words are words (`u64`). -/
theorem gz_multiply_add_plain_eq (l : Level) (cdp : Array MulOperand) (qModT upperHalf : Nat) (plain : Poly) (dest : List Nat)
    (hcdp : l.size ≤ cdp.size) (ht : l.t.value ≠ 0) (hq : qModT < 2^64)
    (hw : ∀ i, i < plain.size → plain.getD i 0 < 2^64) (hl : dest.length = l.size * l.n) (hB : dest.length < B64) :
    GenS.multiply_add_plain dest l.qs.toList plain.size l.n l.t cdp.toList upperHalf qModT plain.toList =
      Except.map (flattenRns l.size l.n) (multiplyAddPlain l cdp qModT upperHalf plain (unflattenRns l.size l.n dest)) := by
  unfold GenS.multiply_add_plain
  simp only []
  by_cases hp : plain.size ≤ l.n
  · rw [if_pos hp, if_pos (by simp), gz_add_loop1_eq _ _ _ _ _ _ _ _ _ rfl, gz_model_add,
      gz_ref1_eq_model gz_Ov_addMod l cdp qModT upperHalf plain dest hcdp hp ht hq hw hl hB]
  · rw [if_neg hp]
    unfold multiplyAddPlain
    rw [if_pos (by omega)]
    rfl

/-- `multiply_sub_plain` likewise.  The code has NO `assert!` on the plaintext length: for `plain.size > l.n` (excluded here) it
    writes into the neighbouring component and finally panics with an index out of bounds (non-empty chain), where the model refuses. -/
theorem gz_multiply_sub_plain_eq (l : Level) (cdp : Array MulOperand) (qModT upperHalf : Nat) (plain : Poly) (dest : List Nat)
    (hcdp : l.size ≤ cdp.size) (hp : plain.size ≤ l.n) (ht : l.t.value ≠ 0) (hq : qModT < 2^64)
    (hw : ∀ i, i < plain.size → plain.getD i 0 < 2^64) (hl : dest.length = l.size * l.n) (hB : dest.length < B64) :
    GenS.multiply_sub_plain dest l.qs.toList plain.size l.n l.t cdp.toList upperHalf qModT plain.toList =
      Except.map (flattenRns l.size l.n) (multiplySubPlain l cdp qModT upperHalf plain (unflattenRns l.size l.n dest)) := by
  unfold GenS.multiply_sub_plain
  simp only []
  rw [gz_sub_loop1_eq _ _ _ _ _ _ _ _ _ rfl, gz_model_sub,
    gz_ref1_eq_model gz_Ov_subMod l cdp qModT upperHalf plain dest hcdp hp ht hq hw hl hB]

/-- the second `assert!` of `multiply_add_plain`: a coefficient count beyond the data buffer is refused -/
theorem gz_multiply_add_plain_refuses_short (dest : List Nat) (cm : List Modulus) (pc N : Nat) (pm : Modulus) (cdp : List MulOperand)
    (uh qModT : Nat) (pd : List Nat) (h : pd.length < pc) :
    GenS.multiply_add_plain dest cm pc N pm cdp uh qModT pd = .error .refused := by
  unfold GenS.multiply_add_plain
  simp only []
  split
  · rw [if_neg (by omega)]
  · rfl
end HC
