/- C01 part X, non-vacuity: the seed-compressed pipeline in the concrete world of C01LW at the key level {97, 113, 193}, N = 4 (12 words ≥ 9:
   the seed is saved; at {97, 113} it would NOT be: 8 < 9, `c01xw_not_saved`), with the driver's own rejection sampler `Rng.randUniform`
   on a concrete byte stream. -/
import Heathcliff.Proofs.C01X
import Heathcliff.Proofs.C01VW
namespace HC
open Finset

attribute [local instance] c01w_decRnsCanon c01w_decWFOp

/-- a concrete extendable-output function: byte i of every block is (37·i + 11·counter + 5) mod 256 -/
def c01xw_xof : Rng.Xof := fun _ c => ((List.range Rng.BUF).map fun i => (37 * i + 11 * c + 5) % 256).toArray

def c01xw_seed : Rng.Seed := List.replicate 64 1

def c01xw_draw : R (List (List Nat) × Rng.St) :=
  Rng.uniformPoly Rng.randUniform c01xw_xof (Rng.fromSeed c01xw_seed) 4 [97, 113, 193]

/-- the mask the seed expands to -/
def c01xw_a : RnsPoly := toRns ((c01xw_draw.toOption.map (·.1)).getD [])

theorem c01xw_ofRns_toRns (c : List (List Nat)) : ofRns (toRns c) = c := by
  unfold ofRns toRns
  simp only [List.toList_toArray, List.map_map]
  rw [show (Array.toList ∘ List.toArray : List Nat → List Nat) = id from rfl, List.map_id]

theorem c01xw_draw_ok : ∃ st, c01xw_draw = .ok (ofRns c01xw_a, st) := by
  have h : c01xw_draw.toOption.isSome = true := by decide +kernel
  unfold c01xw_a
  rw [c01xw_ofRns_toRns]
  cases hd : c01xw_draw with
  | error e => rw [hd] at h; cases h
  | ok r => exact ⟨r.2, rfl⟩

theorem c01xw_expands (s : Scheme) (t : Nat) (hkl : Drv.Sch.mkLevel s 4 [97, 113, 193] t = .ok (c01w_pl s t)) :
    SeedExpands Rng.randUniform c01xw_xof (c01w_pl s t) c01xw_seed c01xw_a := by
  obtain ⟨a1, a2, a3, a4, a5, a6, a7, a8, a9⟩ := mkLevel_ok hkl
  obtain ⟨st, hst⟩ := c01xw_draw_ok
  refine ⟨st, ?_⟩
  have e : (c01w_pl s t).qs.toList.map (·.value) = [97, 113, 193] := a8
  rw [a6, e]
  exact hst

/-- at {97, 113}, N = 4 the flag word and the seed do not fit into one polynomial: the seed is NOT saved (the code falls back silently) -/
theorem c01xw_not_saved : seedSaved (c01w_l .bfv 17) true = false := by decide +kernel

/-- NON-VACUITY of `drv_bfv_encrypt_decrypt_seeded` -/
theorem c01xw_bfv_seeded :
    ∃ cdp ct, Drv.C01E.bfvConsts (c01w_pl .bfv 17) [97, 113, 193] 17 = .ok cdp ∧
      bfvEncrypt (c01w_pl .bfv 17) cdp (Spec.prodL [97, 113, 193] % 17) ((17 + 1) / 2)
        (.sym c01w_sk c01xw_a (rnsOfInt (c01w_pl .bfv 17) c01w_e0) true) c01w_plain = .ok ct ∧
      expandSeed Rng.randUniform c01xw_xof (c01w_pl .bfv 17) (ct.toSeeded c01xw_seed) = .ok ct ∧
      bfvDecrypt (c01w_pl .bfv 17) c01w_sk ct = .ok (trimPlain (padPlain 4 c01w_plain)) :=
  drv_bfv_encrypt_decrypt_seeded c01vw_ctx_bfv c01w_pl_ok_bfv (by decide) (e := c01w_e0) (by decide +kernel) rfl (by decide)
    (by decide +kernel) (c01xw_expands _ _ c01w_pl_ok_bfv) (by decide) (by decide)
    (mkLevel_freshEncOK c01w_pl_ok_bfv (by decide) (by decide))

/-- NON-VACUITY of `drv_bgv_encrypt_decrypt_seeded` -/
theorem c01xw_bgv_seeded :
    ∃ ct, bgvEncrypt (c01w_pl .bgv 17) (Drv.C01E.bgvIncr [97, 113, 193] 17).1 ((17 + 1) / 2) (Drv.C01E.bgvIncr [97, 113, 193] 17).2
        (.sym c01w_sk c01xw_a (rnsOfInt (c01w_pl .bgv 17) c01w_e0) true) c01w_plain = .ok ct ∧
      ct.cf = 1 ∧ expandSeed Rng.randUniform c01xw_xof (c01w_pl .bgv 17) (ct.toSeeded c01xw_seed) = .ok ct ∧
      bgvDecrypt (c01w_pl .bgv 17) c01w_sk ct = .ok (trimPlain (padPlain 4 c01w_plain)) :=
  drv_bgv_encrypt_decrypt_seeded c01vw_ctx_bgv c01w_pl_ok_bgv (e := c01w_e0) (by decide +kernel) rfl (by decide)
    (by decide +kernel) (c01xw_expands _ _ c01w_pl_ok_bgv) (by decide) (by decide) (by decide)

/-- NON-VACUITY of `drv_ckks_encrypt_decrypt_seeded` -/
theorem c01xw_ckks_seeded :
    ∃ (ν : Nat → Int) (ct : Ct) (dec : RnsPoly), (∀ c, c < 4 → (ν c).natAbs ≤ 21) ∧
      ckksEncrypt (c01w_pl .ckks 0) (.sym c01w_sk c01xw_a (rnsOfInt (c01w_pl .ckks 0) c01w_e0) true)
        (ckksPlainOfInt (c01w_pl .ckks 0) c01vw_M) = .ok ct ∧
      expandSeed Rng.randUniform c01xw_xof (c01w_pl .ckks 0) (ct.toSeeded c01xw_seed) = .ok ct ∧
      ckksDecrypt (c01w_pl .ckks 0) c01w_sk ct = .ok dec ∧ RnsCanon (c01w_pl .ckks 0) dec ∧
      (∀ c, c < 4 → (Drv.Sch.exactPhase (c01w_pl .ckks 0) [97, 113, 193] c01w_sk ct).getD c 0 = c01vw_M.getD c 0 + ν c) ∧
      ∀ i, i < (c01w_pl .ckks 0).size → ∀ c, c < 4 →
        (intt ((c01w_pl .ckks 0).tbl i) (dec.getD i #[])).getD c 0 = Spec.imod (c01vw_M.getD c 0 + ν c) ((c01w_pl .ckks 0).q i).value :=
  drv_ckks_encrypt_decrypt_seeded c01vw_ctx_ckks c01w_pl_ok_ckks (e := c01w_e0) (by decide +kernel) rfl (by decide)
    (by decide +kernel) (c01xw_expands _ _ c01w_pl_ok_ckks) rfl (by decide)

end HC
