import Heathcliff.Gen.ContextFns
import Heathcliff.Proofs.GenWord3
import Heathcliff.Proofs.C13Chain

/-!
  Translator tie, round 7 (worker T), part 4: `HeContext::create_next_context_data` (src/context.rs) as a decision skeleton over prime counts
  (Gen/ContextFns.lean `GenX.create_next_context_data`), against the model's `createNext`; and the shape of the chain the model's `Context.new`
  builds: the level at position `i` carries the first `K − i` primes and `prime count − 1 = chain_index + (K − L)`.  Helper names `gcx_`.
-/
namespace HC
open HC.GenW HC.Ctx HC.Ctx.Chain

/-- what `create_next_context_data` reports for the model's outcome: (trace of created levels, prime count of the new level or 0 = `PARMS_ID_ZERO`) -/
def gcx_nextResult (chain : List Nat) : Option ContextData → List Nat × Nat
  | some c => (chain ++ [c.parms.q.length], c.parms.q.length)
  | none => (chain, 0)

/-- **generated = model, `create_next_context_data`**: whenever the model's `createNext` returns (the next parameter set = the previous one without its
    last modulus is validated; `none` = `PARMS_ID_ZERO`), the generated skeleton — run on the prime count of the previous level and a table `valid` that
    says which prefix lengths validate — returns the same verdict: the new level's prime count (pushed on the trace of created levels), or 0 -/
theorem gcx_create_next_eq {isPrime : Nat → Bool} {prev : Params} {sec : SecLevel} {o : Option ContextData}
    (h : createNext isPrime prev sec = .ok o) {valid : List Nat} (hv : prev.q.length - 1 < valid.length)
    (hval : valid.getD (prev.q.length - 1) 0 ≠ 0 ↔ ∃ c, validate isPrime (dropLastP prev) sec = .ok c ∧ c.valid = true) (chain : List Nat) :
    GenX.create_next_context_data prev.q.length valid chain = .ok (gcx_nextResult chain o) := by
  obtain ⟨hlen, c, hc, ho⟩ := createNext_ok h
  have hcq : c.parms.q.length = prev.q.length - 1 := by
    rw [validate_parms hc]; simp [dropLastP, List.length_dropLast]
  unfold GenX.create_next_context_data
  have hsub : ckSub prev.q.length 1 = .ok (prev.q.length - 1) := by unfold ckSub; rw [if_pos (by omega)]
  have hge : prev.q.length - 1 ≥ 1 := by omega
  have hget : valid.getD (prev.q.length - 1) 0 = valid[prev.q.length - 1] := by simp [List.getD, hv]
  simp only [hsub, bind, Except.bind, if_pos hge, gw_idx_eq valid _ hv, pure, Except.pure]
  rw [hget] at hval
  subst ho
  by_cases hcv : c.valid = true
  · have hne : valid[prev.q.length - 1] ≠ 0 := hval.mpr ⟨c, hc, hcv⟩
    rw [if_pos hcv]
    simp [gcx_nextResult, hne, hcq]
  · have hz : ¬ valid[prev.q.length - 1] ≠ 0 := by
      intro hne
      obtain ⟨c', hc', hv'⟩ := hval.mp hne
      rw [hc] at hc'; cases hc'; exact hcv hv'
    rw [if_neg hcv]
    simp only [gcx_nextResult, if_pos hz]

/-- a single remaining modulus: the code would call `set_coeff_modulus(&[])`, which panics; the skeleton refuses (the callers never come here) -/
theorem gcx_create_next_refuses (valid chain : List Nat) : GenX.create_next_context_data 1 valid chain = .error .refused := rfl

/-- **shape of the chain**: in the chain built by `HeContext::new` the level at position `i` (key level = 0) carries exactly the FIRST `K − i` primes of the key
    level's `K`; the other parameters are unchanged; and `prime count − 1 = chain_index + (K − L)` where `L` is the number of levels — so the chain index is
    the prime count minus one ONLY when the chain is complete (`L = K`), not on short chains (BFV / BGV with a plain modulus that is not smaller than a
    remaining prefix product, a prefix failing a security bound, no expansion, …) -/
theorem gcx_chain_level_primes {isPrime : Nat → Bool} {p : Params} {expand : Bool} {sec : SecLevel} {x : Context}
    (h : Context.new isPrime p expand sec = .ok x) (hK : 1 ≤ p.q.length) {i : Nat} {c : ContextData} (hi : x.levels[i]? = some c) :
    c.parms = { p with q := p.q.take (p.q.length - i) } ∧ c.parms.q.length = p.q.length - i ∧ i < p.q.length ∧
    x.levels.length ≤ p.q.length ∧
    c.parms.q.length - 1 = x.chainIndex i + (p.q.length - x.levels.length) := by
  have hpre := chain_prefix h
  have hiL : i < x.levels.length := by
    rcases Nat.lt_or_ge i x.levels.length with hlt | hge
    · exact hlt
    · rw [List.getElem?_eq_none hge] at hi; cases hi
  -- the last level gives L ≤ K
  have hL : x.levels.length ≤ p.q.length := by
    have hlast : x.levels.length - 1 < x.levels.length := by omega
    rcases hpre (x.levels.length - 1) _ (List.getElem?_eq_getElem hlast) with ⟨_, hlt⟩ | ⟨h0, _⟩
    · omega
    · omega
  have hparms : c.parms = { p with q := p.q.take (p.q.length - i) } ∧ i < p.q.length := by
    rcases hpre i c hi with ⟨h1, h2⟩ | ⟨h0, h1⟩
    · exact ⟨h1, h2⟩
    · subst h0
      refine ⟨?_, by omega⟩
      rw [h1, Nat.sub_zero, List.take_length]
  have hlen : c.parms.q.length = p.q.length - i := by
    rw [hparms.1]; simp [List.length_take]
  refine ⟨hparms.1, hlen, hparms.2, hL, ?_⟩
  rw [hlen]; unfold Context.chainIndex; omega

/-- … relative to the first data level: the level `j` positions below the first one has `j` primes fewer than the first level -/
theorem gcx_chain_from_first {isPrime : Nat → Bool} {p : Params} {expand : Bool} {sec : SecLevel} {x : Context}
    (h : Context.new isPrime p expand sec = .ok x) (hK : 1 ≤ p.q.length) {j : Nat} {f c : ContextData}
    (hf : x.levels[x.firstIdx]? = some f) (hc : x.levels[x.firstIdx + j]? = some c) :
    c.parms.q = f.parms.q.take (f.parms.q.length - j) ∧ c.parms.q.length = f.parms.q.length - j := by
  obtain ⟨hf1, hf2, hf3, _, _⟩ := gcx_chain_level_primes h hK hf
  obtain ⟨hc1, hc2, hc3, _, _⟩ := gcx_chain_level_primes h hK hc
  refine ⟨?_, by omega⟩
  rw [hc1, hf1]
  simp only [List.length_take, List.take_take]
  congr 1
  omega

/-- **generated = model, choice of the first data level in `HeContext::new`** (the statement `let first_parms_id = if .. { key } else { .. create_next_context_data .. }`):
    the generated skeleton leaves the trace of created levels untouched exactly when the model takes first = key (key level invalid, a single modulus, the
    special-prime flag, or the next parameter set invalid) and otherwise appends the prime count of the level the model creates -/
theorem gcx_new_first_eq {isPrime : Nat → Bool} {p : Params} {sec : SecLevel} {key : ContextData} {o : Option ContextData}
    (ho : (if !key.valid || p.q.length == 1 || p.special then (pure none : R (Option ContextData)) else createNext isPrime p sec) = .ok o)
    {valid : List Nat} (hv : p.q.length < valid.length)
    (hk : valid.getD p.q.length 0 ≠ 0 ↔ key.valid = true)
    (hval : valid.getD (p.q.length - 1) 0 ≠ 0 ↔ ∃ c, validate isPrime (dropLastP p) sec = .ok c ∧ c.valid = true) (chain : List Nat) :
    GenX.new_first p.q.length valid p.special chain = .ok (gcx_nextResult chain o).1 := by
  have hget : valid.getD p.q.length 0 = valid[p.q.length] := by simp [List.getD, hv]
  rw [hget] at hk
  unfold GenX.new_first
  simp only [gw_idx_eq valid _ hv, bind, Except.bind]
  by_cases hc : (!key.valid || p.q.length == 1 || p.special) = true
  · rw [if_pos hc] at ho
    cases ho
    have hcond : (¬ valid[p.q.length] ≠ 0 ∨ p.q.length = 1) ∨ p.special = true := by
      simp only [Bool.or_eq_true, Bool.not_eq_true', beq_iff_eq] at hc
      rcases hc with (h1 | h1) | h1
      · left; left; intro hne; have := hk.mp hne; rw [h1] at this; cases this
      · left; right; exact h1
      · right; exact h1
    rw [if_pos hcond]
    rfl
  · rw [if_neg hc] at ho
    have hcond : ¬ ((¬ valid[p.q.length] ≠ 0 ∨ p.q.length = 1) ∨ p.special = true) := by
      simp only [Bool.or_eq_true, Bool.not_eq_true', beq_iff_eq, not_or] at hc
      obtain ⟨⟨h1, h2⟩, h3⟩ := hc
      have hkv : key.valid = true := by cases hkv' : key.valid <;> simp_all
      rintro ((h | h) | h)
      · exact h (hk.mpr hkv)
      · exact h2 h
      · exact h3 h
    rw [if_neg hcond, gcx_create_next_eq ho (by omega) hval chain]
    rfl
end HC
