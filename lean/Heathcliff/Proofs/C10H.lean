/- C10 part H: CRT tables, decompose/compose are mutually inverse bijections, fast base conversion returns the exact
   value plus alpha·Q with 0 ≤ alpha < k.

   NOTE: the originally given statement `decompose_spec` (for every `v < 2^(64·size)`) is FALSE for single-modulus
   bases (`decompose` does not reduce when `size = 1`); see `decomposeSpecStatement_false`.  Generic helper lemmas live in `HC.RNSH`.  The corrected version is
   `decompose_spec_of` (extra hypothesis `1 < b.size ∨ v < b.prod`). -/
import Heathcliff.Model.RNS
import Heathcliff.Proofs.C08A
import Heathcliff.Proofs.C08B
import Heathcliff.Proofs.NTTDefs
import Mathlib.Data.Nat.ChineseRemainder
namespace HC

/-- what `RNSBase::new` establishes -/
structure RNSBase.WF (b : RNSBase) : Prop where
  pos : 0 < b.size
  le64 : b.size ≤ 64
  mwf : ∀ i, i < b.size → (b.q i).WF
  punct_size : b.punct.size = b.size
  inv_size : b.invPunct.size = b.size
  coprime : ∀ i j, i < b.size → j < b.size → i ≠ j → Nat.Coprime (b.q i).value (b.q j).value
  prod_eq : b.prod = ((List.range b.size).map (fun i => (b.q i).value)).prod
  punct_eq : ∀ i, i < b.size → b.punct.getD i 0 * (b.q i).value = b.prod
  inv_wf : ∀ i, i < b.size → WFOp (b.q i) (b.invPunct.getD i default) ∧
            ((b.punct.getD i 0 % (b.q i).value) * (b.invPunct.getD i default).operand) % (b.q i).value = 1 % (b.q i).value

/-! ### limbs -/

theorem RNSH.fromNat_length (n v : Nat) : (fromNat n v).length = n := by
  induction n generalizing v with
  | zero => simp [fromNat]
  | succ k ih => simp [fromNat, ih]

theorem RNSH.fromNat_lt (n v : Nat) : ∀ x ∈ fromNat n v, x < 2^64 := by
  induction n generalizing v with
  | zero => simp [fromNat]
  | succ k ih =>
    intro x hx
    simp only [fromNat, List.mem_cons] at hx
    rcases hx with rfl | hx
    · rw [← B64_eq]; exact Nat.mod_lt _ B64_pos
    · exact ih _ x hx

theorem RNSH.toNat_fromNat (n v : Nat) : toNat (fromNat n v) = v % 2^(64*n) := by
  induction n generalizing v with
  | zero => simp [fromNat, toNat, Nat.mod_one]
  | succ k ih =>
    simp only [fromNat, toNat, ih]
    rw [show 64 * (k+1) = 64 + 64 * k by ring, Nat.pow_add, Nat.mod_mul, B64_eq]

theorem RNSH.moduloUint_limbs {m : Modulus} (h : m.WF) {n v : Nat} (hn : 0 < n) (hv : v < 2^(64*n)) :
    moduloUint (limbsOf n v) m = .ok (v % m.value) := by
  unfold limbsOf
  rw [moduloUint_exact h _ (RNSH.fromNat_lt n v), RNSH.toNat_fromNat, Nat.mod_eq_of_lt hv]
  intro h0
  have := RNSH.fromNat_length n v
  rw [h0] at this
  simp at this
  omega

/-! ### `mapM` / `foldlM` in `Except` -/

theorem RNSH.mapM_ok_of_forall {α β : Type} (f : α → R β) (g : α → β) (l : List α)
    (h : ∀ a ∈ l, f a = .ok (g a)) : l.mapM f = .ok (l.map g) := by
  induction l with
  | nil => rfl
  | cons a l ih =>
    rw [List.mapM_cons, h a (by simp), ih (fun x hx => h x (by simp [hx]))]
    rfl

theorem RNSH.foldlM_push_ok {α : Type} (f : Nat → R α) (g : Nat → α) (l : List Nat)
    (h : ∀ a ∈ l, f a = .ok (g a)) (acc : Array α) :
    l.foldlM (fun acc i => do let r ← f i; pure (acc.push r)) acc = .ok (acc ++ (l.map g).toArray) := by
  induction l generalizing acc with
  | nil => simp; rfl
  | cons a l ih =>
    rw [List.foldlM_cons, h a (by simp)]
    show l.foldlM _ (acc.push (g a)) = _
    rw [ih (fun x hx => h x (by simp [hx]))]
    simp

/-! ### consequences of `WF` -/

theorem RNSH.list_prod_le (l : List Nat) (B : Nat) (h : ∀ x ∈ l, x ≤ B) : l.prod ≤ B ^ l.length := by
  induction l with
  | nil => simp
  | cons a l ih =>
    simp only [List.prod_cons, List.length_cons, Nat.pow_succ]
    rw [Nat.mul_comm]
    exact Nat.mul_le_mul (ih (fun x hx => h x (by simp [hx]))) (h a (by simp))

namespace RNSBase.WF
variable {b : RNSBase} (hb : b.WF)
include hb

theorem prod_lt : b.prod < 2^(64 * b.size) := by
  have h1 : b.prod ≤ (2^61) ^ b.size := by
    rw [hb.prod_eq]
    have := RNSH.list_prod_le ((List.range b.size).map (fun i => (b.q i).value)) (2^61) (by
      intro x hx
      simp only [List.mem_map, List.mem_range] at hx
      obtain ⟨i, hi, rfl⟩ := hx
      exact (hb.mwf i hi).lt.le)
    simpa using this
  have h2 : (2^61) ^ b.size < 2^(64 * b.size) := by
    rw [← Nat.pow_mul]
    apply Nat.pow_lt_pow_right (by norm_num)
    have := hb.pos
    omega
  omega

theorem q_dvd_prod {i : Nat} (hi : i < b.size) : (b.q i).value ∣ b.prod :=
  ⟨b.punct.getD i 0, by rw [← hb.punct_eq i hi, Nat.mul_comm]⟩

theorem prod_pos : 0 < b.prod := by
  have h0 := hb.punct_eq 0 hb.pos
  have h1 := (hb.mwf 0 hb.pos).two_le
  rcases Nat.eq_zero_or_pos b.prod with h | h
  · exfalso
    rw [hb.prod_eq] at h
    rw [List.prod_eq_zero_iff] at h
    simp only [List.mem_map, List.mem_range] at h
    obtain ⟨i, hi, h⟩ := h
    have := (hb.mwf i hi).two_le
    omega
  · exact h

theorem punct_le {i : Nat} (hi : i < b.size) : b.punct.getD i 0 ≤ b.prod := by
  have h0 := hb.punct_eq i hi
  have h1 := (hb.mwf i hi).two_le
  rw [← h0]
  exact Nat.le_mul_of_pos_right _ (by omega)

theorem q_dvd_punct {i j : Nat} (hi : i < b.size) (hj : j < b.size) (hij : i ≠ j) :
    (b.q j).value ∣ b.punct.getD i 0 := by
  have h1 : (b.q j).value ∣ b.punct.getD i 0 * (b.q i).value := by
    rw [hb.punct_eq i hi]; exact hb.q_dvd_prod hj
  exact (hb.coprime j i hj hi (Ne.symm hij)).dvd_of_dvd_mul_right h1

theorem crt_modEq {x y : Nat} (h : ∀ i, i < b.size → x % (b.q i).value = y % (b.q i).value) :
    x ≡ y [MOD b.prod] := by
  rw [hb.prod_eq]
  rw [Nat.modEq_list_map_prod_iff]
  · intro i hi
    exact h i (List.mem_range.mp hi)
  · apply (List.pairwise_lt_range (n := b.size)).imp_of_mem
    intro i j hi hj hij
    exact hb.coprime i j (List.mem_range.mp hi) (List.mem_range.mp hj) (Nat.ne_of_lt hij)

theorem mod_q_of_modEq {x y : Nat} (h : x ≡ y [MOD b.prod]) {i : Nat} (hi : i < b.size) :
    x % (b.q i).value = y % (b.q i).value :=
  h.of_dvd (hb.q_dvd_prod hi)

end RNSBase.WF

/-- CRT uniqueness below the product -/
theorem crt_unique {b : RNSBase} (hb : b.WF) {x y : Nat} (hx : x < b.prod) (hy : y < b.prod)
    (h : ∀ i, i < b.size → x % (b.q i).value = y % (b.q i).value) : x = y :=
  (hb.crt_modEq h).eq_of_lt_of_lt hx hy

/-! ### decompose -/

theorem RNSBase.WF.prod_of_size_one {b : RNSBase} (hb : b.WF) (h1 : b.size = 1) : b.prod = (b.q 0).value := by
  rw [hb.prod_eq, h1]; simp

/-- `decompose` is correct when the base has at least two moduli, or the value is already reduced. -/
theorem decompose_spec_of {b : RNSBase} (hb : b.WF) {v : Nat} (hv : v < 2^(64 * b.size))
    (h1 : 1 < b.size ∨ v < b.prod) :
    ∃ rs, b.decompose v = .ok rs ∧ rs.size = b.size ∧ ∀ i, i < b.size → rs.getD i 0 = v % (b.q i).value := by
  unfold RNSBase.decompose
  by_cases hs : b.size > 1
  · rw [if_pos hs]
    have key := RNSH.foldlM_push_ok (fun i => moduloUint (limbsOf b.size v) (b.q i)) (fun i => v % (b.q i).value)
      (List.range b.size) (by
        intro i hi
        exact RNSH.moduloUint_limbs (hb.mwf i (List.mem_range.mp hi)) hb.pos hv) #[]
    refine ⟨_, key, by simp, ?_⟩
    intro i hi
    simp [Array.getD, hi]
  · rw [if_neg hs]
    have hs1 : b.size = 1 := by have := hb.pos; omega
    have hvp : v < b.prod := by
      rcases h1 with h | h
      · omega
      · exact h
    refine ⟨#[v], rfl, by simp [hs1], ?_⟩
    intro i hi
    have hi0 : i = 0 := by omega
    subst hi0
    rw [hb.prod_of_size_one hs1] at hvp
    rw [Nat.mod_eq_of_lt hvp]
    simp

/-- The given statement `decompose_spec` (for every `v < 2^(64·size)`) is FALSE for single-modulus bases:
    `decompose` does not reduce in that case (as in the code: `if size_ > 1 { … }`). -/
def DecomposeSpecStatement : Prop :=
  ∀ {b : RNSBase} (_ : b.WF) {v : Nat} (_ : v < 2^(64 * b.size)),
    ∃ rs, b.decompose v = .ok rs ∧ rs.size = b.size ∧ ∀ i, i < b.size → rs.getD i 0 = v % (b.q i).value

def RNSH.cexBase : RNSBase := ⟨#[⟨2, 0, 2^63, 0, 2⟩], 2, #[1], #[⟨1, 2^63⟩]⟩

theorem RNSH.cexBase_wf : RNSH.cexBase.WF := by
  have hq : ∀ i, i < 1 → RNSH.cexBase.q i = ⟨2, 0, 2^63, 0, 2⟩ := by
    intro i hi
    have : i = 0 := by omega
    subst this; rfl
  have hsz : RNSH.cexBase.size = 1 := rfl
  refine ⟨by rw [hsz]; omega, by rw [hsz]; omega, ?_, rfl, rfl, ?_, ?_, ?_, ?_⟩
  · intro i hi
    rw [hq i (by rw [hsz] at hi; exact hi)]
    exact ⟨by norm_num, by norm_num, by norm_num [B64], by norm_num [B64], by norm_num⟩
  · intro i j hi hj hij
    rw [hsz] at hi hj; omega
  · rw [hsz]; simp [hq 0 (by omega)]; rfl
  · intro i hi
    rw [hsz] at hi
    have : i = 0 := by omega
    subst this
    rfl
  · intro i hi
    rw [hsz] at hi
    have : i = 0 := by omega
    subst this
    refine ⟨⟨by show 1 < 2; omega, by show 2^63 = 1 * 2^64 / 2; norm_num⟩, by show (1 % 2 * 1) % 2 = 1 % 2; rfl⟩

theorem decomposeSpecStatement_false : ¬ DecomposeSpecStatement := by
  intro h
  obtain ⟨rs, h1, _, h3⟩ := @h RNSH.cexBase RNSH.cexBase_wf 3 (by show 3 < 2^(64 * 1); norm_num)
  have h2 : RNSH.cexBase.decompose 3 = .ok #[3] := rfl
  rw [h2] at h1
  injection h1 with h1
  subst h1
  have := h3 0 (by show 0 < 1; omega)
  revert this
  show ¬ ((3 : Nat) = 3 % 2)
  omega

/-! ### compose -/

theorem RNSH.wfop_new_eq {m : Modulus} (h : m.WF) {o : MulOperand} (ho : WFOp m o) :
    MulOperand.new o.operand m = .ok o := by
  obtain ⟨o', h1, h2, h3⟩ := mulOperand_new h ho.1
  rw [h1]
  cases o; cases o'
  simp only [] at h2 h3
  have := ho.2
  simp only [] at this
  subst h2
  rw [← this] at h3
  subst h3
  rfl

theorem RNSH.mulOperandMod_wf {m : Modulus} (h : m.WF) {o : MulOperand} (ho : WFOp m o) {x : Nat} (hx : x < 2^64) :
    mulOperandMod x o m = .ok ((x * o.operand) % m.value) :=
  mulOperandMod_exact h hx ho.1 (RNSH.wfop_new_eq h ho)

theorem RNSH.foldlM_range_inv {α : Type} (f : α → Nat → R α) (P : Nat → α → Prop) (n : Nat) (a0 : α) (h0 : P 0 a0)
    (hstep : ∀ i a, i < n → P i a → ∃ a', f a i = .ok a' ∧ P (i+1) a') :
    ∃ a, (List.range n).foldlM f a0 = .ok a ∧ P n a := by
  induction n with
  | zero => exact ⟨a0, rfl, h0⟩
  | succ k ih =>
    obtain ⟨a, h1, h2⟩ := ih (fun i a hi hp => hstep i a (by omega) hp)
    obtain ⟨a', h3, h4⟩ := hstep k a (by omega) h2
    refine ⟨a', ?_, h4⟩
    rw [List.range_succ, List.foldlM_append, h1]
    show List.foldlM f a [k] = _
    rw [List.foldlM_cons, h3]; rfl

theorem RNSH.inv_cancel {p r v q : Nat} (h : (p % q * v) % q = 1 % q) : (p * ((r * v) % q)) % q = r % q := by
  have h1 : p * v ≡ 1 [MOD q] := by
    have : (p * v) % q = (p % q * v) % q := by rw [Nat.mul_mod p v, Nat.mul_mod (p % q) v, Nat.mod_mod]
    unfold Nat.ModEq
    rw [this]; exact h
  have h2 : p * ((r * v) % q) ≡ p * (r * v) [MOD q] := Nat.ModEq.mul_left _ (Nat.mod_modEq _ _)
  have h3 : p * (r * v) ≡ r * 1 [MOD q] := by
    rw [show p * (r * v) = r * (p * v) by ring]
    exact Nat.ModEq.mul_left _ h1
  have := h2.trans h3
  rw [Nat.mul_one] at this
  exact this

/-- the `add_uint_mod` step at the value level -/
theorem RNSH.addUintMod_val {acc term P M : Nat} (ha : acc < P) (ht : term < P) (hP : P < M) :
    let s := acc + term
    let r := if s ≥ M ∨ s ≥ P then (s + M - P) % M else s
    r < P ∧ r ≡ acc + term [MOD P] := by
  intro s r
  by_cases hc : s ≥ P
  · have hr : r = s - P := by
      show (if s ≥ M ∨ s ≥ P then (s + M - P) % M else s) = _
      rw [if_pos (Or.inr hc)]
      have : s + M - P = (s - P) + M := by omega
      rw [this, Nat.add_mod_right, Nat.mod_eq_of_lt]
      show acc + term - P < M
      omega
    rw [hr]
    refine ⟨by show acc + term - P < P; omega, ?_⟩
    have : s = (s - P) + P := by omega
    show s - P ≡ s [MOD P]
    conv_rhs => rw [this]
    unfold Nat.ModEq
    rw [Nat.add_mod_right]
  · have hr : r = s := by
      show (if s ≥ M ∨ s ≥ P then (s + M - P) % M else s) = _
      rw [if_neg]
      intro h
      rcases h with h | h
      · omega
      · exact hc h
    rw [hr]
    exact ⟨by omega, Nat.ModEq.refl _⟩

theorem compose_spec {b : RNSBase} (hb : b.WF) {rs : Array Nat} (hs : rs.size = b.size) (hr : ∀ i, i < b.size → rs.getD i 0 < (b.q i).value) :
    ∃ x, b.compose rs = .ok x ∧ x < b.prod ∧ ∀ i, i < b.size → x % (b.q i).value = rs.getD i 0 % (b.q i).value := by
  have _ := hs
  unfold RNSBase.compose
  by_cases hk : b.size > 1
  · rw [if_pos hk]
    have key := RNSH.foldlM_range_inv
      (fun acc i => do
        let tp ← mulOperandMod (rs.getD i 0) (b.invPunct.getD i default) (b.q i)
        let term := (b.punct.getD i 0 * tp) % 2^(64 * b.size)
        let s := acc + term
        pure (if s ≥ 2^(64 * b.size) ∨ s ≥ b.prod then (s + 2^(64 * b.size) - b.prod) % 2^(64 * b.size) else s))
      (fun i acc => acc < b.prod ∧ ∀ j, j < b.size →
        acc % (b.q j).value = if j < i then rs.getD j 0 % (b.q j).value else 0)
      b.size 0 ⟨hb.prod_pos, fun j _ => by simp⟩ (by
        intro i acc hi ⟨ha, hinv⟩
        have hm := hb.mwf i hi
        have hq2 := hm.two_le
        have hql := hm.lt
        obtain ⟨hop, hinvq⟩ := hb.inv_wf i hi
        have hri := hr i hi
        rw [RNSH.mulOperandMod_wf hm hop (by omega)]
        have htp : (rs.getD i 0 * (b.invPunct.getD i default).operand) % (b.q i).value < (b.q i).value :=
          Nat.mod_lt _ (by omega)
        generalize htpd : (rs.getD i 0 * (b.invPunct.getD i default).operand) % (b.q i).value = tp at htp
        have hterm : b.punct.getD i 0 * tp < b.prod := by
          rw [← hb.punct_eq i hi]
          apply Nat.mul_lt_mul_of_le_of_lt (Nat.le_refl _) htp
          have h5 := hb.punct_eq i hi
          have h6 := hb.prod_pos
          exact Nat.pos_of_ne_zero (fun h0 => by rw [h0, Nat.zero_mul] at h5; omega)
        have hPM := hb.prod_lt
        have hmod : (b.punct.getD i 0 * tp) % 2^(64 * b.size) = b.punct.getD i 0 * tp :=
          Nat.mod_eq_of_lt (by omega)
        obtain ⟨r1, r2⟩ := RNSH.addUintMod_val ha hterm hPM
        refine ⟨_, rfl, ?_, ?_⟩
        · simp only [hmod]; exact r1
        · intro j hj
          simp only [hmod]
          rw [hb.mod_q_of_modEq r2 hj, Nat.add_mod, hinv j hj]
          by_cases hji : j = i
          · subst hji
            rw [if_neg (by omega), if_pos (by omega), ← htpd, RNSH.inv_cancel hinvq]
            simp
          · have hd := hb.q_dvd_punct hi hj (Ne.symm hji)
            have : (b.punct.getD i 0 * tp) % (b.q j).value = 0 :=
              Nat.mod_eq_zero_of_dvd (Dvd.dvd.mul_right hd _)
            rw [this]
            by_cases hlt : j < i
            · rw [if_pos hlt, if_pos (by omega)]; simp
            · rw [if_neg hlt, if_neg (by omega)]; simp)
    obtain ⟨x, h1, h2, h3⟩ := key
    refine ⟨x, h1, h2, ?_⟩
    intro i hi
    rw [h3 i hi, if_pos hi]
  · rw [if_neg hk]
    have hs1 : b.size = 1 := by have := hb.pos; omega
    have h0 := hr 0 hb.pos
    refine ⟨_, rfl, ?_, ?_⟩
    · rw [hb.prod_of_size_one hs1]; exact h0
    · intro i hi
      have : i = 0 := by omega
      subst this; rfl

/-- decompose ∘ compose = id on canonical residue vectors, compose ∘ decompose = id below the product -/
theorem compose_decompose {b : RNSBase} (hb : b.WF) {v : Nat} (hv : v < b.prod) :
    ∃ rs, b.decompose v = .ok rs ∧ b.compose rs = .ok v := by
  have hvM : v < 2^(64 * b.size) := Nat.lt_trans hv hb.prod_lt
  obtain ⟨rs, h1, h2, h3⟩ := decompose_spec_of hb hvM (Or.inr hv)
  refine ⟨rs, h1, ?_⟩
  have hq : ∀ i, i < b.size → 0 < (b.q i).value := fun i hi => by have := (hb.mwf i hi).two_le; omega
  obtain ⟨x, c1, c2, c3⟩ := compose_spec hb h2 (fun i hi => by rw [h3 i hi]; exact Nat.mod_lt _ (hq i hi))
  have : x = v := crt_unique hb c2 hv (fun i hi => by rw [c3 i hi, h3 i hi, Nat.mod_mod])
  rw [c1, this]

theorem decompose_compose {b : RNSBase} (hb : b.WF) {rs : Array Nat} (hs : rs.size = b.size)
    (hr : ∀ i, i < b.size → rs.getD i 0 < (b.q i).value) :
    ∃ x, b.compose rs = .ok x ∧ b.decompose x = .ok rs := by
  obtain ⟨x, c1, c2, c3⟩ := compose_spec hb hs hr
  refine ⟨x, c1, ?_⟩
  obtain ⟨rs', h1, h2, h3⟩ := decompose_spec_of hb (Nat.lt_trans c2 hb.prod_lt) (Or.inr c2)
  rw [h1]
  congr 1
  apply Array.ext (by rw [h2, hs])
  intro i hi1 hi2
  have hi : i < b.size := by rw [← hs]; exact hi2
  have e := h3 i hi
  rw [c3 i hi, Nat.mod_eq_of_lt (hr i hi)] at e
  simpa [Array.getD, hi1, hi2] using e

/-! ### fast base conversion -/

theorem BaseConverter.new_eq {ib ob : RNSBase} (hi : ib.WF) (ho : ob.WF) :
    BaseConverter.new ib ob = .ok ⟨ib, ob,
      (((List.range ob.size).map fun i => (List.range ib.size).map fun j =>
          ib.punct.getD j 0 % (ob.q i).value).map List.toArray).toArray⟩ := by
  have key : (List.range ob.size).mapM (fun i =>
      (List.range ib.size).mapM fun j => moduloUint (limbsOf ib.size (ib.punct.getD j 0)) (ob.q i))
      = .ok ((List.range ob.size).map fun i => (List.range ib.size).map fun j =>
          ib.punct.getD j 0 % (ob.q i).value) :=
    RNSH.mapM_ok_of_forall _ _ _ (fun i hi' => RNSH.mapM_ok_of_forall _ _ _ (fun j hj =>
      RNSH.moduloUint_limbs (ho.mwf i (List.mem_range.mp hi')) hi.pos
        (Nat.lt_of_le_of_lt (hi.punct_le (List.mem_range.mp hj)) hi.prod_lt)))
  unfold BaseConverter.new
  rw [key]
  rfl

theorem RNSH.scaled_ok (c : BaseConverter) (hi : c.ibase.WF) {xs : Array Nat}
    (hx : ∀ i, i < c.ibase.size → xs.getD i 0 < 2^64) :
    c.scaled xs = .ok ((List.range c.ibase.size).map fun i =>
      (xs.getD i 0 * (c.ibase.invPunct.getD i default).operand) % (c.ibase.q i).value) := by
  unfold BaseConverter.scaled
  apply RNSH.mapM_ok_of_forall
  intro i hi'
  have hi'' := List.mem_range.mp hi'
  have hm := hi.mwf i hi''
  obtain ⟨hop, _⟩ := hi.inv_wf i hi''
  simp only []
  split
  · rename_i h1
    rw [barrett64_exact hm (hx i hi''), h1, Nat.mul_one]
  · exact RNSH.mulOperandMod_wf hm hop (hx i hi'')

theorem RNSH.list_sum_mod_congr {α : Type} (l : List α) (f g : α → Nat) (p : Nat) (h : ∀ a ∈ l, f a % p = g a % p) :
    (l.map f).sum % p = (l.map g).sum % p := by
  induction l with
  | nil => rfl
  | cons a l ih =>
    simp only [List.map_cons, List.sum_cons]
    rw [Nat.add_mod, h a (by simp), ih (fun x hx => h x (by simp [hx])), ← Nat.add_mod]

theorem RNSH.list_sum_le {α : Type} (l : List α) (f : α → Nat) (B : Nat) (h : ∀ a ∈ l, f a ≤ B) :
    (l.map f).sum ≤ l.length * B := by
  induction l with
  | nil => simp
  | cons a l ih =>
    simp only [List.map_cons, List.sum_cons, List.length_cons]
    have := ih (fun x hx => h x (by simp [hx]))
    have := h a (by simp)
    rw [Nat.succ_mul]; omega

theorem RNSH.sum_range_mod_single (f : Nat → Nat) (q j n : Nat) (h : ∀ i, i < n → i ≠ j → f i % q = 0) :
    ((List.range n).map f).sum % q = if j < n then f j % q else 0 := by
  induction n with
  | zero => simp
  | succ k ih =>
    have ih' := ih (fun i hi => h i (by omega))
    rw [List.range_succ, List.map_append, List.sum_append, Nat.add_mod, ih']
    simp only [List.map_cons, List.map_nil, List.sum_cons, List.sum_nil, Nat.add_zero]
    by_cases hjk : j = k
    · subst hjk
      rw [if_neg (by omega), if_pos (by omega)]; simp
    · rw [h k (by omega) (Ne.symm hjk)]
      by_cases hlt : j < k
      · rw [if_pos hlt, if_pos (by omega)]; simp
      · rw [if_neg hlt, if_neg (by omega)]; simp

/-- the CRT reconstruction sum `S = Σ temp_i · (Q/q_i)` equals `x + α·Q` with `α < k` -/
theorem RNSH.crt_sum {b : RNSBase} (hb : b.WF) {xs : Array Nat} {x : Nat} (hxl : x < b.prod)
    (hxr : ∀ i, i < b.size → x % (b.q i).value = xs.getD i 0 % (b.q i).value) :
    ∃ alpha, alpha < b.size ∧
      ((List.range b.size).map fun i =>
        ((xs.getD i 0 * (b.invPunct.getD i default).operand) % (b.q i).value) * b.punct.getD i 0).sum
        = x + alpha * b.prod := by
  generalize hS : ((List.range b.size).map fun i =>
        ((xs.getD i 0 * (b.invPunct.getD i default).operand) % (b.q i).value) * b.punct.getD i 0).sum = S
  have hQ := hb.prod_pos
  have hbound : S ≤ b.size * (b.prod - 1) := by
    rw [← hS]
    have := RNSH.list_sum_le (List.range b.size) (fun i =>
        ((xs.getD i 0 * (b.invPunct.getD i default).operand) % (b.q i).value) * b.punct.getD i 0) (b.prod - 1) (by
      intro i hi
      have hi' := List.mem_range.mp hi
      have h2 := (hb.mwf i hi').two_le
      have hpe := hb.punct_eq i hi'
      have hlt : (xs.getD i 0 * (b.invPunct.getD i default).operand) % (b.q i).value ≤ (b.q i).value - 1 := by
        have := Nat.mod_lt (xs.getD i 0 * (b.invPunct.getD i default).operand) (show 0 < (b.q i).value by omega)
        omega
      have hpp : 0 < b.punct.getD i 0 :=
        Nat.pos_of_ne_zero (fun h0 => by rw [h0, Nat.zero_mul] at hpe; omega)
      calc _ ≤ ((b.q i).value - 1) * b.punct.getD i 0 := Nat.mul_le_mul_right _ hlt
        _ = b.prod - b.punct.getD i 0 := by
            rw [Nat.sub_mul, Nat.one_mul, Nat.mul_comm, hpe]
        _ ≤ b.prod - 1 := by omega)
    simpa using this
  have hmod : S ≡ x [MOD b.prod] := by
    apply hb.crt_modEq
    intro j hj
    rw [← hS, RNSH.sum_range_mod_single _ _ j, if_pos hj, hxr j hj]
    · rw [Nat.mul_comm]
      exact RNSH.inv_cancel (hb.inv_wf j hj).2
    · intro i hi hij
      exact Nat.mod_eq_zero_of_dvd (Dvd.dvd.mul_left (hb.q_dvd_punct hi hj hij) _)
  have hSx : S % b.prod = x := by
    rw [hmod, Nat.mod_eq_of_lt hxl]
  refine ⟨S / b.prod, ?_, ?_⟩
  · apply Nat.div_lt_of_lt_mul
    have hk := hb.pos
    have : b.size * (b.prod - 1) < b.prod * b.size := by
      rw [Nat.mul_comm b.prod]
      exact Nat.mul_lt_mul_of_pos_left (by omega) hk
    omega
  · have := Nat.mod_add_div S b.prod
    rw [hSx] at this
    rw [Nat.mul_comm]; exact this.symm

theorem RNSH.dot_ok {ib : RNSBase} (hi : ib.WF) {p : Modulus} (hp : p.WF) (t : Nat → Nat)
    (ht : ∀ i, i < ib.size → t i < (ib.q i).value) :
    dotProductMod ((List.range ib.size).map t)
        ((List.range ib.size).map fun i => ib.punct.getD i 0 % p.value) p
      = .ok (((List.range ib.size).map fun i => t i * ib.punct.getD i 0).sum % p.value) := by
  have hp2 := hp.two_le
  have hpl := hp.lt
  have hT : ∀ x ∈ (List.range ib.size).map t, x < 2^61 := by
    intro x hx
    simp only [List.mem_map, List.mem_range] at hx
    obtain ⟨i, hi', rfl⟩ := hx
    exact Nat.lt_trans (ht i hi') (hi.mwf i hi').lt
  have hMx : ∀ y ∈ (List.range ib.size).map (fun i => ib.punct.getD i 0 % p.value), y < 2^61 := by
    intro y hy
    simp only [List.mem_map, List.mem_range] at hy
    obtain ⟨i, _, rfl⟩ := hy
    exact Nat.lt_trans (Nat.mod_lt _ (by omega)) hpl
  have hlen : ((List.range ib.size).map t).length
      = ((List.range ib.size).map fun i => ib.punct.getD i 0 % p.value).length := by simp
  rw [dotProductMod_exact hp hlen
    (fun x hx => Nat.lt_trans (hT x hx) (by norm_num))
    (fun y hy => Nat.lt_trans (hMx y hy) (by norm_num))
    (dotProduct_sum_bound hlen (by simpa using hi.le64) hT hMx)]
  congr 1
  rw [List.zip_map', List.map_map]
  apply RNSH.list_sum_mod_congr
  intro i _
  simp only [Function.comp]
  rw [Nat.mul_mod, Nat.mod_mod, ← Nat.mul_mod]

theorem RNSH.fastConvert_core (c : BaseConverter) (hi : c.ibase.WF) (ho : c.obase.WF)
    (hM : ∀ j, j < c.obase.size → (c.matrix.getD j #[]).toList =
        (List.range c.ibase.size).map (fun i => c.ibase.punct.getD i 0 % (c.obase.q j).value))
    {xs : Array Nat} (hx : ∀ i, i < c.ibase.size → xs.getD i 0 < 2^64)
    {x : Nat} (hxl : x < c.ibase.prod)
    (hxr : ∀ i, i < c.ibase.size → x % (c.ibase.q i).value = xs.getD i 0 % (c.ibase.q i).value) :
    ∃ out alpha, c.fastConvert xs = .ok out ∧ out.size = c.obase.size ∧ alpha < c.ibase.size ∧
      ∀ j, j < c.obase.size → out.getD j 0 = (x + alpha * c.ibase.prod) % (c.obase.q j).value := by
  obtain ⟨alpha, ha, hS⟩ := RNSH.crt_sum hi hxl hxr
  refine ⟨((List.range c.obase.size).map fun j => (x + alpha * c.ibase.prod) % (c.obase.q j).value).toArray,
    alpha, ?_, by simp, ha, ?_⟩
  · unfold BaseConverter.fastConvert
    rw [RNSH.scaled_ok c hi hx]
    have key : (List.range c.obase.size).mapM (fun j =>
        dotProductMod ((List.range c.ibase.size).map fun i =>
          (xs.getD i 0 * (c.ibase.invPunct.getD i default).operand) % (c.ibase.q i).value)
          (c.matrix.getD j #[]).toList (c.obase.q j))
        = .ok ((List.range c.obase.size).map fun j => (x + alpha * c.ibase.prod) % (c.obase.q j).value) := by
      apply RNSH.mapM_ok_of_forall
      intro j hj
      have hj' := List.mem_range.mp hj
      rw [hM j hj', RNSH.dot_ok hi (ho.mwf j hj') _ (fun i hi' =>
        Nat.mod_lt _ (by have := (hi.mwf i hi').two_le; omega)), hS]
    simp only [bind, Except.bind]
    rw [key]
    rfl
  · intro j hj
    simp [Array.getD, hj]

/-- FAST BASE CONVERSION: output = (x + alpha·Q) mod p_j for ONE alpha < k common to all output moduli -/
theorem fastConvert_spec {ib ob : RNSBase} {c : BaseConverter} (hi : ib.WF) (ho : ob.WF)
    (hc : BaseConverter.new ib ob = .ok c) {xs : Array Nat} (hs : xs.size = ib.size) (hx : ∀ i, i < ib.size → xs.getD i 0 < 2^64)
    {x : Nat} (hxl : x < ib.prod) (hxr : ∀ i, i < ib.size → x % (ib.q i).value = xs.getD i 0 % (ib.q i).value) :
    ∃ out alpha, c.fastConvert xs = .ok out ∧ out.size = ob.size ∧ alpha < ib.size ∧
      ∀ j, j < ob.size → out.getD j 0 = (x + alpha * ib.prod) % (ob.q j).value := by
  have _ := hs
  rw [BaseConverter.new_eq hi ho] at hc
  injection hc with hc
  subst hc
  refine RNSH.fastConvert_core _ hi ho ?_ hx hxl hxr
  intro j hj
  have hj' : j < ob.size := hj
  simp [Array.getD, hj']

/-! ### `RNSBase::new` -/

theorem RNSH.coprimeAll_pairwise (l : List Nat) (h : RNSBase.new.coprimeAll l = true) :
    l.Pairwise (fun x y => gcdU64 x y ≤ 1) := by
  induction l with
  | nil => exact List.Pairwise.nil
  | cons x xs ih =>
    unfold RNSBase.new.coprimeAll at h
    rw [Bool.and_eq_true, List.all_eq_true] at h
    refine List.Pairwise.cons ?_ (ih h.2)
    intro y hy
    have := h.1 y hy
    simpa using this

theorem RNSH.mapM_ok_inv {α β : Type} (f : α → R β) (l : List α) (r : List β) (h : l.mapM f = .ok r) :
    List.Forall₂ (fun a b => f a = .ok b) l r := by
  induction l generalizing r with
  | nil =>
    have : r = [] := by
      have h' : (Except.ok [] : R (List β)) = .ok r := h
      injection h' with h'; exact h'.symm
    subst this; exact List.Forall₂.nil
  | cons a l ih =>
    rw [List.mapM_cons] at h
    cases hfa : f a with
    | error e => rw [hfa] at h; cases h
    | ok b =>
      rw [hfa] at h
      cases hl : l.mapM f with
      | error e => rw [hl] at h; cases h
      | ok r' =>
        rw [hl] at h
        have h' : (Except.ok (b :: r') : R (List β)) = .ok r := h
        injection h' with h'
        subst h'
        exact List.Forall₂.cons hfa (ih r' hl)

theorem RNSH.invStep_spec {m : Modulus} (hm : m.WF) {n p : Nat} (hn : 0 < n) (hp : p < 2^(64*n)) {o : MulOperand}
    (h : (do
      let t ← moduloUint (limbsOf n p) m
      match ← tryInvert t m.value with
      | none => .error .refused
      | some iv => MulOperand.new iv m : R MulOperand) = .ok o) :
    WFOp m o ∧ (p % m.value * o.operand) % m.value = 1 % m.value := by
  have h2 := hm.two_le
  have hl := hm.lt
  rw [RNSH.moduloUint_limbs hm hn hp] at h
  simp only [bind, Except.bind] at h
  have ht : p % m.value < m.value := Nat.mod_lt _ (by omega)
  obtain ⟨s1, s2⟩ := tryInvert_spec_partial (v := p % m.value) h2 hl (by omega) (by omega)
  by_cases hc : p % m.value ≠ 0 ∧ Nat.gcd (p % m.value) m.value = 1
  · obtain ⟨r, hr1, hr2, hr3⟩ := s1 hc
    rw [hr1] at h
    simp only [] at h
    obtain ⟨e1, e2⟩ := mulOperand_new_eq hm hr2 h
    refine ⟨⟨by rw [e1]; exact hr2, by rw [e2, e1]⟩, ?_⟩
    rw [e1, Nat.mul_comm, hr3, Nat.mod_eq_of_lt (by omega)]
  · have : p % m.value = 0 ∨ Nat.gcd (p % m.value) m.value ≠ 1 := by
      by_cases h0 : p % m.value = 0
      · exact Or.inl h0
      · exact Or.inr (fun hg => hc ⟨h0, hg⟩)
    rw [s2 this] at h
    cases h

theorem RNSH.mk_wf (ms : List Modulus) (pl : List Nat) (il : List MulOperand) (P : Nat)
    (hm : ∀ m ∈ ms, m.WF) (hpos : 0 < ms.length) (hl : ms.length ≤ 64)
    (hpl : pl.length = ms.length) (hil : il.length = ms.length)
    (hcop : ∀ i j (hi : i < ms.length) (hj : j < ms.length), i < j → Nat.Coprime ms[i].value ms[j].value)
    (hP : P = (ms.map (·.value)).prod)
    (hpu : ∀ i (h : i < ms.length), pl.getD i 0 * ms[i].value = P)
    (hinv : ∀ i (h : i < ms.length), WFOp ms[i] (il.getD i default) ∧
      (pl.getD i 0 % ms[i].value * (il.getD i default).operand) % ms[i].value = 1 % ms[i].value) :
    (⟨ms.toArray, P, pl.toArray, il.toArray⟩ : RNSBase).WF := by
  subst hP
  have hsz : (⟨ms.toArray, (ms.map (·.value)).prod, pl.toArray, il.toArray⟩ : RNSBase).size = ms.length := by
    simp [RNSBase.size]
  have hq : ∀ i (h : i < ms.length), (⟨ms.toArray, (ms.map (·.value)).prod, pl.toArray, il.toArray⟩ : RNSBase).q i = ms[i] := by
    intro i h
    simp [RNSBase.q, h]
  have hpg : ∀ i, (pl.toArray).getD i 0 = pl.getD i 0 := by intro i; simp
  have hig : ∀ i, (il.toArray).getD i default = il.getD i default := by intro i; simp
  refine ⟨by rw [hsz]; exact hpos, by rw [hsz]; exact hl, ?_, ?_, ?_, ?_, ?_, ?_, ?_⟩
  · intro i hi
    rw [hsz] at hi
    rw [hq i hi]
    exact hm _ (List.getElem_mem hi)
  · rw [hsz]; simpa using hpl
  · rw [hsz]; simpa using hil
  · intro i j hi hj hij
    rw [hsz] at hi hj
    rw [hq i hi, hq j hj]
    rcases Nat.lt_or_gt_of_ne hij with h | h
    · exact hcop i j hi hj h
    · exact (hcop j i hj hi h).symm
  · rw [hsz]
    show (ms.map (·.value)).prod = _
    congr 1
    apply List.ext_getElem (by simp)
    intro i h1 h2
    simp only [List.length_map] at h1
    simp only [List.getElem_map, List.getElem_range]
    rw [hq i h1]
  · intro i hi
    rw [hsz] at hi
    rw [hq i hi]
    show (pl.toArray).getD i 0 * _ = _
    rw [hpg]
    exact hpu i hi
  · intro i hi
    rw [hsz] at hi
    rw [hq i hi]
    show WFOp ms[i] ((il.toArray).getD i default) ∧
      ((pl.toArray).getD i 0 % ms[i].value * ((il.toArray).getD i default).operand) % ms[i].value = 1 % ms[i].value
    rw [hpg, hig]
    exact hinv i hi

theorem RNSH.pairwise_coprime_vals (ms : List Modulus) (hm : ∀ m ∈ ms, m.WF)
    (h : RNSBase.new.coprimeAll (ms.map (·.value)) = true) :
    ∀ i j (hi : i < ms.length) (hj : j < ms.length), i < j → Nat.Coprime ms[i].value ms[j].value := by
  intro i j hi hj hij
  have hp := RNSH.coprimeAll_pairwise _ h
  rw [List.pairwise_iff_getElem] at hp
  have := hp i j (by simpa using hi) (by simpa using hj) hij
  simp only [List.getElem_map] at this
  have wi := hm _ (List.getElem_mem hi)
  have wj := hm _ (List.getElem_mem hj)
  have h1 := wi.two_le; have h2 := wi.lt; have h3 := wj.two_le; have h4 := wj.lt
  rw [gcdU64_exact (by omega) (by omega)] at this
  have hpos : 0 < Nat.gcd ms[i].value ms[j].value := Nat.gcd_pos_of_pos_left _ (by omega)
  show Nat.gcd _ _ = 1
  omega

theorem RNSBase.new_wf {ms : List Modulus} {b : RNSBase} (hm : ∀ m ∈ ms, m.WF) (hl : ms.length ≤ 64)
    (h : RNSBase.new ms = .ok b) : b.WF ∧ b.base = ms.toArray := by
  unfold RNSBase.new at h
  simp only [bind, Except.bind, pure, Except.pure] at h
  split at h
  · cases h
  rename_i hne
  split at h
  · cases h
  split at h
  · cases h
  rename_i hcop
  have hcop' : RNSBase.new.coprimeAll (ms.map (·.value)) = true := by simpa using hcop
  have hco := RNSH.pairwise_coprime_vals ms hm hcop'
  have hpos : 0 < ms.length := by
    cases ms with
    | nil => simp at hne
    | cons a l => simp
  split at h
  · rename_i h1
    obtain ⟨m, rfl⟩ := List.length_eq_one_iff.mp h1
    have hmw := hm m (by simp)
    have h2 := hmw.two_le
    split at h
    · cases h
    rename_i one hone
    injection h with h
    subst h
    have hone' : MulOperand.new 1 m = .ok one := hone
    obtain ⟨e1, e2⟩ := mulOperand_new_eq hmw (by omega) hone'
    refine ⟨?_, rfl⟩
    show (⟨[m].toArray, m.value, [1].toArray, [one].toArray⟩ : RNSBase).WF
    apply RNSH.mk_wf [m] [1] [one] m.value hm hpos hl rfl rfl hco (by simp)
    · intro i hi
      have : i = 0 := by simpa using hi
      subst this
      simp
    · intro i hi
      have : i = 0 := by simpa using hi
      subst this
      simp only [List.getD_cons_zero, List.getElem_cons_zero]
      refine ⟨⟨by rw [e1]; omega, by rw [e2, e1]⟩, by rw [e1, Nat.mul_one, Nat.mod_mod]⟩
  · rename_i hn1
    split at h
    · cases h
    rename_i v heq
    injection h with h
    subst h
    refine ⟨?_, rfl⟩
    have hf := RNSH.mapM_ok_inv _ _ _ heq
    have hlen := hf.length_eq
    simp only [List.length_range] at hlen
    generalize hP : List.foldl (fun x1 x2 => x1 * x2) 1 (List.map (fun x => x.value) ms) = P at *
    have hP' : P = (ms.map (·.value)).prod := by rw [← hP]; exact List.prod_eq_foldl_nat.symm
    have hPlt : P < 2^(64 * ms.length) := by
      have h1 : P ≤ (2^61)^ms.length := by
        rw [hP']
        have := RNSH.list_prod_le (ms.map (·.value)) (2^61) (by
          intro x hx
          simp only [List.mem_map] at hx
          obtain ⟨m, hmm, rfl⟩ := hx
          exact (hm m hmm).lt.le)
        simpa using this
      have h2 : (2^61) ^ ms.length < 2^(64 * ms.length) := by
        rw [← Nat.pow_mul]
        exact Nat.pow_lt_pow_right (by norm_num) (by omega)
      omega
    have hpl : ∀ i (hi : i < ms.length),
        (List.map (fun v => P / v) (List.map (fun x => x.value) ms)).getD i 0 = P / ms[i].value := by
      intro i hi
      simp [List.getD_eq_getElem?_getD, hi]
    show (⟨ms.toArray, P, (List.map (fun v => P / v) (List.map (fun x => x.value) ms)).toArray, v.toArray⟩ : RNSBase).WF
    apply RNSH.mk_wf ms _ v P hm hpos hl (by simp) hlen.symm hco hP'
    · intro i hi
      rw [hpl i hi]
      apply Nat.div_mul_cancel
      rw [hP']
      exact List.dvd_prod (List.mem_map_of_mem (List.getElem_mem hi))
    · intro i hi
      have hiv : i < v.length := by omega
      have := hf.get (i := i) (by simpa using hi) hiv
      simp only [List.get_eq_getElem, List.getElem_range] at this
      have hg : ms.getD i default = ms[i] := by simp [hi]
      have hgv : v.getD i default = v[i] := by simp [hiv]
      rw [hg] at this
      rw [hgv]
      have hmi := hm _ (List.getElem_mem hi)
      refine RNSH.invStep_spec hmi hpos ?_ (by simp only [bind, Except.bind]; exact this)
      rw [hpl i hi]
      exact Nat.lt_of_le_of_lt (Nat.div_le_self _ _) hPlt

end HC
