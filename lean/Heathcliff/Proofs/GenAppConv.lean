/-
  Translator phase 4h (app mode): `Conv2dHelper::new` (src/app/conv2d.rs, four nested reversed inclusive loops) regenerated into
  Gen/AppFns.lean = the hand model `cvSearch` / `CHelper.new` (Model/Matmul.lean).  Helper prefix `ga_`.
-/
import Heathcliff.Proofs.GenApp

namespace HC
open HC.MM HC.GenApp


/-- generated state `(best, best_b, best_h, best_w, best_ci, best_co)` of the model's `CBest` -/
def ga_ofCBest (s : CBest) : Nat × Nat × Nat × Nat × Nat × Nat := (s.c, s.b, s.h, s.w, s.ci, s.co)

theorem ga_ofCBest_init : ga_ofCBest CBest.init = (18446744073709551615, 0, 0, 0, 0, 0) := by rfl

/-- the arithmetic tail of the innermost loop body (five block counts in, updated best out): no trap for counts ≤ 2^15 / 2^16 -/
theorem ga_cv_tail (obj : Objective) (cB cH cW cCi cCo : Nat) (b1 : cB ≤ 2^15) (b2 : cH ≤ 2^16) (b3 : cW ≤ 2^16)
    (b4 : cCi ≤ 2^15) (b5 : cCo ≤ 2^15) (t : CBest) (b h w ci co : Nat) :
    (do
      let t18 ← ckMul cB cH
      let t19 ← ckMul t18 cW
      let t20 ← ckMul t19 cCi
      let v21 := t20
      let t21 ← ckMul cB cH
      let t22 ← ckMul t21 cW
      let t23 ← ckMul t22 cCo
      let v22 := t23
      let t24 ← ckMul cCi cCo
      let v23 := t24
      let t29 ← (match obj with
          | .cipherPlain => (do
              ckAdd v21 v22)
          | .plainCipher => (do
              ckAdd v23 v22)
          | .cpAddPc => (do
              let t27 ← ckAdd v21 v22
              ckAdd t27 v23))
      let v24 := t29
      let (v1, v2, v3, v4, v5, v6) := if v24 < t.c then (let v1 := v24; let v2 := b; let v3 := h; let v4 := w; let v5 := ci; let v6 := co; (v1, v2, v3, v4, v5, v6)) else (t.c, t.b, t.h, t.w, t.ci, t.co)
      pure (Ctl.next (v1, v2, v3, v4, v5, v6)) : R (Ctl (Nat × Nat × Nat × Nat × Nat × Nat)))
    = .ok (.next (ga_ofCBest (if cvCost obj (cB * cH * cW * cCi) (cB * cH * cW * cCo) (cCi * cCo) < t.c
        then ⟨b, h, w, ci, co, cvCost obj (cB * cH * cW * cCi) (cB * cH * cW * cCo) (cCi * cCo)⟩ else t))) := by
  have p1 : cB * cH ≤ 2^15 * 2^16 := Nat.mul_le_mul b1 b2
  have p2 : cB * cH * cW ≤ 2^15 * 2^16 * 2^16 := Nat.mul_le_mul p1 b3
  have p3 : cB * cH * cW * cCi ≤ 2^15 * 2^16 * 2^16 * 2^15 := Nat.mul_le_mul p2 b4
  have p4 : cB * cH * cW * cCo ≤ 2^15 * 2^16 * 2^16 * 2^15 := Nat.mul_le_mul p2 b5
  have p5 : cCi * cCo ≤ 2^15 * 2^15 := Nat.mul_le_mul b4 b5
  simp only [ga_ckMul (show cB * cH < 2^64 by omega), ga_ckMul (show cB * cH * cW < 2^64 by omega),
    ga_ckMul (show cB * cH * cW * cCi < 2^64 by omega), ga_ckMul (show cB * cH * cW * cCo < 2^64 by omega),
    ga_ckMul (show cCi * cCo < 2^64 by omega), ga_ok_bind]
  cases obj
  · simp only [cvCost, ga_ckAdd (show cB * cH * cW * cCi + cB * cH * cW * cCo < 2^64 by omega), ga_ok_bind]
    by_cases hc : cB * cH * cW * cCi + cB * cH * cW * cCo < t.c <;> simp [hc, pure, Except.pure, ga_ofCBest]
  · simp only [cvCost, ga_ckAdd (show cCi * cCo + cB * cH * cW * cCo < 2^64 by omega), ga_ok_bind]
    by_cases hc : cCi * cCo + cB * cH * cW * cCo < t.c <;> simp [hc, pure, Except.pure, ga_ofCBest]
  · simp only [cvCost, ga_ckAdd (show cB * cH * cW * cCi + cB * cH * cW * cCo < 2^64 by omega),
      ga_ckAdd (show cB * cH * cW * cCi + cB * cH * cW * cCo + cCi * cCo < 2^64 by omega), ga_ok_bind]
    by_cases hc : cB * cH * cW * cCi + cB * cH * cW * cCo + cCi * cCo < t.c <;> simp [hc, pure, Except.pure, ga_ofCBest]

/-- innermost loop body (`co`): generated = `cvStep`; none of the 20 checked operations can trap for dimensions ≤ 2^15 -/
theorem ga_cv_new_loop1 (S : ConvShape) (obj : Objective) (b h w upper : Nat)
    (hsz : S.b ≤ 2^15 ∧ S.ci ≤ 2^15 ∧ S.co ≤ 2^15 ∧ S.h ≤ 2^15 ∧ S.w ≤ 2^15)
    (hb1 : 1 ≤ b) (hb2 : b ≤ S.b) (hh1 : S.kh ≤ h) (hh2 : h ≤ S.h) (hw1 : S.kw ≤ w) (hw2 : w ≤ S.w)
    (co : Nat) (hco1 : 1 ≤ co) (hco2 : co ≤ S.co) (t : CBest) :
    cv_new_loop1 S.b S.ci S.co S.h S.w S.kh S.kw obj b h w upper co (ga_ofCBest t)
      = .ok (.next (ga_ofCBest (cvStep S obj b h w upper t co))) := by
  obtain ⟨hSb, hSci, hSco, hSh, hSw⟩ := hsz
  simp only [cv_new_loop1, ga_ofCBest, cvStep, ga_ckDiv hco1, ga_ok_bind]
  generalize upper / co = q
  by_cases hci : min S.ci q = 0
  · simp [hci, pure, Except.pure]
  · have hci1 : 1 ≤ min S.ci q := by omega
    have hcile : min S.ci q ≤ S.ci := Nat.min_le_left _ _
    simp only [if_neg hci, ga_cv_ceil_div hb1 (show S.b + b < 2^64 by omega),
      ga_ckSub (show S.kh ≤ S.h by omega), ga_ckAdd (show S.h - S.kh + 1 < 2^64 by omega),
      ga_ckSub hh1, ga_ckAdd (show h - S.kh + 1 < 2^64 by omega),
      ga_cv_ceil_div (show 1 ≤ h - S.kh + 1 by omega) (show S.h - S.kh + 1 + (h - S.kh + 1) < 2^64 by omega),
      ga_ckSub (show S.kw ≤ S.w by omega), ga_ckAdd (show S.w - S.kw + 1 < 2^64 by omega),
      ga_ckSub hw1, ga_ckAdd (show w - S.kw + 1 < 2^64 by omega),
      ga_cv_ceil_div (show 1 ≤ w - S.kw + 1 by omega) (show S.w - S.kw + 1 + (w - S.kw + 1) < 2^64 by omega),
      ga_cv_ceil_div hci1 (show S.ci + min S.ci q < 2^64 by omega),
      ga_cv_ceil_div hco1 (show S.co + co < 2^64 by omega), ga_ok_bind]
    have b1 : ceilDiv S.b b ≤ 2^15 := Nat.le_trans (c20_ceilDiv_le hb1) hSb
    have b2 : ceilDiv (S.h - S.kh + 1) (h - S.kh + 1) ≤ 2^16 := Nat.le_trans (c20_ceilDiv_le (by omega)) (by omega)
    have b3 : ceilDiv (S.w - S.kw + 1) (w - S.kw + 1) ≤ 2^16 := Nat.le_trans (c20_ceilDiv_le (by omega)) (by omega)
    have b4 : ceilDiv S.ci (min S.ci q) ≤ 2^15 := Nat.le_trans (c20_ceilDiv_le hci1) hSci
    have b5 : ceilDiv S.co co ≤ 2^15 := Nat.le_trans (c20_ceilDiv_le hco1) hSco
    exact ga_cv_tail obj _ _ _ _ _ b1 b2 b3 b4 b5 t b h w (min S.ci q) co

/-- the `w` loop body -/
theorem ga_cv_new_loop2 (S : ConvShape) (obj : Objective) (b h upper : Nat)
    (hsz : S.b ≤ 2^15 ∧ S.ci ≤ 2^15 ∧ S.co ≤ 2^15 ∧ S.h ≤ 2^15 ∧ S.w ≤ 2^15) (hkw : 1 ≤ S.kw)
    (hb1 : 1 ≤ b) (hb2 : b ≤ S.b) (hh1 : S.kh ≤ h) (hh2 : h ≤ S.h) (w : Nat) (hw1 : S.kw ≤ w) (hw2 : w ≤ S.w) (t : CBest) :
    cv_new_loop2 S.b S.ci S.co S.h S.w S.kh S.kw obj b h upper w (ga_ofCBest t)
      = .ok (.next (ga_ofCBest ((downRange 1 (min S.co (upper / w))).foldl (cvStep S obj b h w (upper / w)) t))) := by
  have hl := ga_forDown_eq ga_ofCBest (cvStep S obj b h w (upper / w))
    (cv_new_loop1 S.b S.ci S.co S.h S.w S.kh S.kw obj b h w (upper / w)) 1 (min S.co (upper / w) + 1 - 1) t
    (fun j t' h1 h2 => ga_cv_new_loop1 S obj b h w (upper / w) hsz hb1 hb2 hh1 hh2 hw1 hw2 j h1
      (by have := Nat.min_le_left S.co (upper / w); omega) t')
  simp only [ga_ofCBest] at hl
  simp only [cv_new_loop2, ga_ofCBest, ga_ckDiv (show 1 ≤ w by omega), ga_ok_bind, hl, ga_downRange_eq]
  rfl

/-- the `h` loop body -/
theorem ga_cv_new_loop3 (S : ConvShape) (obj : Objective) (b upper : Nat)
    (hsz : S.b ≤ 2^15 ∧ S.ci ≤ 2^15 ∧ S.co ≤ 2^15 ∧ S.h ≤ 2^15 ∧ S.w ≤ 2^15) (hkh : 1 ≤ S.kh) (hkw : 1 ≤ S.kw)
    (hb1 : 1 ≤ b) (hb2 : b ≤ S.b) (h : Nat) (hh1 : S.kh ≤ h) (hh2 : h ≤ S.h) (t : CBest) :
    cv_new_loop3 S.b S.ci S.co S.h S.w S.kh S.kw obj b upper h (ga_ofCBest t)
      = .ok (.next (ga_ofCBest ((downRange S.kw (min S.w (upper / h))).foldl (fun st w =>
          (downRange 1 (min S.co (upper / h / w))).foldl (cvStep S obj b h w (upper / h / w)) st) t))) := by
  have hl := ga_forDown_eq ga_ofCBest (fun st w =>
      (downRange 1 (min S.co (upper / h / w))).foldl (cvStep S obj b h w (upper / h / w)) st)
    (cv_new_loop2 S.b S.ci S.co S.h S.w S.kh S.kw obj b h (upper / h)) S.kw (min S.w (upper / h) + 1 - S.kw) t
    (fun j t' h1 h2 => ga_cv_new_loop2 S obj b h (upper / h) hsz hkw hb1 hb2 hh1 hh2 j h1
      (by have := Nat.min_le_left S.w (upper / h); omega) t')
  simp only [ga_ofCBest] at hl
  simp only [cv_new_loop3, ga_ofCBest, ga_ckDiv (show 1 ≤ h by omega), ga_ok_bind, hl, ga_downRange_eq]
  rfl

/-- the `b` loop body -/
theorem ga_cv_new_loop4 (S : ConvShape) (obj : Objective) (N : Nat)
    (hsz : S.b ≤ 2^15 ∧ S.ci ≤ 2^15 ∧ S.co ≤ 2^15 ∧ S.h ≤ 2^15 ∧ S.w ≤ 2^15) (hkh : 1 ≤ S.kh) (hkw : 1 ≤ S.kw)
    (b : Nat) (hb1 : 1 ≤ b) (hb2 : b ≤ S.b) (t : CBest) :
    cv_new_loop4 S.b S.ci S.co S.h S.w S.kh S.kw obj N b (ga_ofCBest t)
      = .ok (.next (ga_ofCBest ((downRange S.kh (min S.h (N / b))).foldl (fun st h =>
          (downRange S.kw (min S.w (N / b / h))).foldl (fun st w =>
            (downRange 1 (min S.co (N / b / h / w))).foldl (cvStep S obj b h w (N / b / h / w)) st) st) t))) := by
  have hl := ga_forDown_eq ga_ofCBest (fun st h =>
      (downRange S.kw (min S.w (N / b / h))).foldl (fun st w =>
        (downRange 1 (min S.co (N / b / h / w))).foldl (cvStep S obj b h w (N / b / h / w)) st) st)
    (cv_new_loop3 S.b S.ci S.co S.h S.w S.kh S.kw obj b (N / b)) S.kh (min S.h (N / b) + 1 - S.kh) t
    (fun j t' h1 h2 => ga_cv_new_loop3 S obj b (N / b) hsz hkh hkw hb1 hb2 j h1
      (by have := Nat.min_le_left S.h (N / b); omega) t')
  simp only [ga_ofCBest] at hl
  simp only [cv_new_loop4, ga_ofCBest, ga_ckDiv hb1, ga_ok_bind, hl, ga_downRange_eq]
  rfl

/-- the model's view of the generated `struct Conv2dHelper` -/
def ga_toCHelper (h : Conv2dHelper) : CHelper :=
  ⟨⟨h.batch_size, h.input_channels, h.output_channels, h.image_height, h.image_width, h.kernel_height, h.kernel_width⟩,
   h.batch_block, h.image_height_block, h.image_width_block, h.input_channel_block, h.output_channel_block, h.slot_count⟩

/-- **`Conv2dHelper::new`, generated = model**: every shape with dimensions ≤ 2^15 and a non-empty kernel, every degree, every objective.
    (`kernel_height = 0` / `kernel_width = 0` are excluded because the code divides by the loop variable `h` / `w`, which then starts at 0.) -/
theorem ga_cv_new_eq (S : ConvShape) (N : Nat) (obj : Objective)
    (hsz : S.b ≤ 2^15 ∧ S.ci ≤ 2^15 ∧ S.co ≤ 2^15 ∧ S.h ≤ 2^15 ∧ S.w ≤ 2^15) (hkh : 1 ≤ S.kh) (hkw : 1 ≤ S.kw) :
    (cv_new S.b S.ci S.co S.h S.w S.kh S.kw N obj).map ga_toCHelper = .ok (CHelper.new S N obj) := by
  have hl := ga_forDown_eq ga_ofCBest (fun st b =>
      (downRange S.kh (min S.h (N / b))).foldl (fun st h =>
        (downRange S.kw (min S.w (N / b / h))).foldl (fun st w =>
          (downRange 1 (min S.co (N / b / h / w))).foldl (cvStep S obj b h w (N / b / h / w)) st) st) st)
    (cv_new_loop4 S.b S.ci S.co S.h S.w S.kh S.kw obj N) 1 (S.b + 1 - 1) CBest.init
    (fun j t' h1 h2 => ga_cv_new_loop4 S obj N hsz hkh hkw j h1 (by omega) t')
  rw [ga_ofCBest_init] at hl
  simp only [cv_new, ga_ok_bind, hl, Except.map, pure, Except.pure, bind, Except.bind]
  simp only [ga_ofCBest, ga_toCHelper, CHelper.new, cvSearch, ga_downRange_eq]

end HC
