/- C08 part A: single-word modular primitives. -/
import Heathcliff.Proofs.Word
namespace HC

variable {m : Modulus}

/-! ### generic helpers -/

theorem condSub_eq {r q : Nat} (hr : r < 2 * q) :
    (if r ≥ q then ckSub r q else (pure r : R Nat)) = .ok (r % q) := by
  by_cases hge : r ≥ q
  · rw [if_pos hge]
    unfold ckSub
    rw [if_pos hge, Nat.mod_eq_sub_mod hge, Nat.mod_eq_of_lt (by omega)]
  · rw [if_neg hge, Nat.mod_eq_of_lt (by omega)]; rfl

theorem condSub_eq' {r q x : Nat} (hr : r < 2 * q) (hx : r % q = x % q) :
    (if r ≥ q then ckSub r q else (pure r : R Nat)) = .ok (x % q) := by
  rw [condSub_eq hr, hx]

theorem incrementMod_exact (h : m.WF) {x : Nat} (hx : x ≤ 2 * m.value - 2) :
    incrementMod x m = .ok ((x + 1) % m.value) := by
  have h2 := h.two_le; have hl := h.lt
  unfold incrementMod ckAdd
  simp only [bind, Except.bind]
  rw [if_pos (by unfold B64; omega)]
  exact condSub_eq (by omega)

theorem decrementMod_exact (h : m.WF) {x : Nat} (hx : x < m.value) :
    decrementMod x m = .ok ((x + m.value - 1) % m.value) := by
  have h2 := h.two_le
  unfold decrementMod ckSub
  by_cases h0 : x = 0
  · subst h0
    rw [if_pos rfl, if_pos (by omega)]
    rw [Nat.mod_eq_of_lt (by omega)]; simp
  · rw [if_neg h0, if_pos (by omega)]
    have : x + m.value - 1 = (x - 1) + m.value := by omega
    rw [this, Nat.add_mod_right, Nat.mod_eq_of_lt (by omega)]

theorem negateMod_exact (h : m.WF) {x : Nat} (hx : x ≤ m.value) :
    negateMod x m = .ok ((m.value - x) % m.value) := by
  have h2 := h.two_le
  unfold negateMod ckSub
  by_cases h0 : x = 0
  · subst h0
    rw [if_pos rfl]; simp; rfl
  · rw [if_neg h0, if_pos hx, Nat.mod_eq_of_lt (by omega)]

theorem addMod_exact (h : m.WF) {x y : Nat} (hx : x < m.value) (hy : y < m.value) :
    addMod x y m = .ok ((x + y) % m.value) := by
  have h2 := h.two_le; have hl := h.lt
  unfold addMod ckAdd
  simp only [bind, Except.bind]
  rw [if_pos (by unfold B64; omega)]
  exact condSub_eq (by omega)

theorem subMod_exact (h : m.WF) {x y : Nat} (hx : x < m.value) (hy : y < m.value) :
    subMod x y m = .ok ((x + m.value - y) % m.value) := by
  have h2 := h.two_le; have hl := h.lt
  unfold subMod subU64 wAdd wSub
  simp only [pure, Except.pure]
  congr 1
  by_cases hlt : y > x
  · rw [if_pos hlt, if_pos (by omega)]
    rw [Nat.mod_eq_of_lt (show x + m.value - y < m.value by omega)]
    unfold B64; omega
  · rw [if_neg hlt, if_neg (by omega)]
    have : x + m.value - y = (x - y) + m.value := by omega
    rw [this, Nat.add_mod_right, Nat.mod_eq_of_lt (show x - y < m.value by omega)]
    unfold B64; omega

/-! ### quotient estimate shared by Barrett and Harvey -/

/-- `w = ⌊yN/q⌋`, `t = ⌊xw/N⌋`, `x ≤ N` ⇒ `tq ≤ xy < tq + 2q` -/
theorem harvey_bounds {x y q N : Nat} (hq : 0 < q) (hN : 0 < N) (hx : x ≤ N) :
    (x * (y * N / q) / N) * q ≤ x * y ∧ x * y < (x * (y * N / q) / N) * q + 2 * q := by
  generalize hw : y * N / q = w
  generalize ht : x * w / N = t
  have h1 : t * N ≤ x * w := by rw [← ht]; exact Nat.div_mul_le_self _ _
  have h2 : w * q ≤ y * N := by rw [← hw]; exact Nat.div_mul_le_self _ _
  have h3 : x * w < t * N + N := by rw [← ht]; exact Nat.lt_div_mul_add hN
  have h4 : y * N < w * q + q := by rw [← hw]; exact Nat.lt_div_mul_add hq
  constructor
  · apply Nat.le_of_mul_le_mul_right _ hN
    calc t * q * N = (t * N) * q := by ring
      _ ≤ (x * w) * q := Nat.mul_le_mul_right _ h1
      _ = x * (w * q) := by ring
      _ ≤ x * (y * N) := Nat.mul_le_mul_left _ h2
      _ = x * y * N := by ring
  · apply Nat.lt_of_mul_lt_mul_right (a := N)
    have a : x * y * N ≤ x * w * q + x * q := by
      calc x * y * N = x * (y * N) := by ring
        _ ≤ x * (w * q + q) := Nat.mul_le_mul_left _ h4.le
        _ = _ := by ring
    have b : x * w * q < (t * N + N) * q := Nat.mul_lt_mul_of_pos_right h3 hq
    have c : x * q ≤ N * q := Nat.mul_le_mul_right _ hx
    calc x * y * N ≤ x * w * q + x * q := a
      _ < (t * N + N) * q + N * q := by omega
      _ = (t * q + 2 * q) * N := by ring

theorem barrett_bounds {x q N : Nat} (hq : 0 < q) (hN : 0 < N) (hx : x ≤ N) :
    (x * (N / q) / N) * q ≤ x ∧ x < (x * (N / q) / N) * q + 2 * q := by
  have := harvey_bounds (y := 1) hq hN hx
  simpa using this

/-- wrapped subtraction recovers a small true difference -/
theorem wSub_mod_eq {X P d : Nat} (hX : X = P + d) (hd : d < B64) :
    wSub (X % B64) (P % B64) = d := by
  unfold wSub B64 at *
  omega

theorem mod_eq_of_sub {x p d q : Nat} (hx : x = p * q + d) : d % q = x % q := by
  rw [hx, Nat.add_comm, Nat.add_mul_mod_self_right]

theorem barrett64_exact (h : m.WF) {x : Nat} (hx : x < 2^64) :
    barrett64 x m = .ok (x % m.value) := by
  have h2 := h.two_le; have hl := h.lt
  obtain ⟨b1, b2⟩ := barrett_bounds (x := x) (q := m.value) (N := 2^64) (by omega) (by norm_num) hx.le
  unfold barrett64 mulHi ckMul
  rw [h.cr1_eq, B64_eq]
  generalize x * (2^64 / m.value) / 2^64 = t at *
  simp only [bind, Except.bind]
  rw [if_pos (by omega)]
  unfold ckSub
  simp only []
  rw [if_pos b1]
  simp only []
  refine condSub_eq' (by omega) (mod_eq_of_sub (p := t) (by omega))

theorem mulOperand_new (h : m.WF) {y : Nat} (hy : y < m.value) :
    ∃ o, MulOperand.new y m = .ok o ∧ o.operand = y ∧ o.quotient = y * 2^64 / m.value := by
  have h2 := h.two_le
  unfold MulOperand.new
  rw [if_neg (by omega)]
  refine ⟨_, rfl, rfl, ?_⟩
  show y * B64 / m.value % B64 = _
  rw [B64_eq]
  apply Nat.mod_eq_of_lt
  apply Nat.div_lt_of_lt_mul
  exact Nat.mul_lt_mul_of_pos_right hy (by norm_num)

theorem mulOperand_new_eq (h : m.WF) {y : Nat} (hy : y < m.value)
    {o : MulOperand} (ho : MulOperand.new y m = .ok o) :
    o.operand = y ∧ o.quotient = y * 2^64 / m.value := by
  obtain ⟨o', h1, h2, h3⟩ := mulOperand_new h hy
  rw [ho] at h1
  injection h1 with h1
  subst h1
  exact ⟨h2, h3⟩

/-- Harvey lazy multiplication: for EVERY x < 2^64 the result is congruent and below 2q -/
theorem mulOperandModLazy_spec (h : m.WF) {x y : Nat} (hx : x < 2^64) (hy : y < m.value)
    {o : MulOperand} (ho : MulOperand.new y m = .ok o) :
    mulOperandModLazy x o m < 2 * m.value ∧ mulOperandModLazy x o m % m.value = (x * y) % m.value := by
  have h2 := h.two_le; have hl := h.lt
  obtain ⟨e1, e2⟩ := mulOperand_new_eq h hy ho
  obtain ⟨b1, b2⟩ := harvey_bounds (x := x) (y := y) (q := m.value) (N := 2^64) (by omega) (by norm_num) hx.le
  unfold mulOperandModLazy mulHi wMul
  rw [e1, e2, B64_eq]
  generalize x * (y * 2^64 / m.value) / 2^64 = t at *
  simp only []
  have key : wSub (y * x % 2^64) (t * m.value % 2^64) = x * y - t * m.value := by
    rw [← B64_eq]
    apply wSub_mod_eq
    · rw [Nat.mul_comm y x]; omega
    · rw [B64_eq]; omega
  rw [key]
  exact ⟨by omega, mod_eq_of_sub (p := t) (by omega)⟩

theorem mulOperandMod_exact (h : m.WF) {x y : Nat} (hx : x < 2^64) (hy : y < m.value)
    {o : MulOperand} (ho : MulOperand.new y m = .ok o) :
    mulOperandMod x o m = .ok ((x * y) % m.value) := by
  obtain ⟨s1, s2⟩ := mulOperandModLazy_spec h hx hy ho
  unfold mulOperandMod
  exact condSub_eq' s1 s2

/-! ### Barrett reduction of a 128-bit value -/
theorem carry_chain (A E C D : Nat) :
    D + (E / B64 + (E % B64 + A / B64) / B64) + (C / B64 + ((E % B64 + A / B64) % B64 + C % B64) / B64)
      = (A + B64 * (E + C) + B64 * B64 * D) / (B64 * B64) := by
  unfold B64; omega

theorem addU64_fst (a b : Nat) : (addU64 a b).1 = (a + b) % B64 := rfl

theorem addU64_snd {a b : Nat} (ha : a < B64) (hb : b < B64) :
    (addU64 a b).2 = (a + b) / B64 := by
  show (if wAdd a b < a then 1 else 0) = _
  unfold wAdd B64 at *
  split <;> omega

theorem wAdd3 (a b v w : Nat) : wAdd (wAdd (wMul a b) v) w = (a * b + v + w) % B64 := by
  unfold wAdd wMul B64
  omega

theorem barrett128_unfold (x0 x1 : Nat) (m : Modulus) :
    barrett128 x0 x1 m =
      (ckAdd (mulHi x0 m.cr1) (addU64 (mulLo x0 m.cr1) (mulHi x0 m.cr0)).2).bind fun tmp3 =>
      (ckAdd (mulHi x1 m.cr0)
        (addU64 (addU64 (mulLo x0 m.cr1) (mulHi x0 m.cr0)).1 (mulLo x1 m.cr0)).2).bind fun carry2 =>
      if wSub x0 (wMul (wAdd (wAdd (wMul x1 m.cr1) tmp3) carry2) m.value) ≥ m.value
      then ckSub (wSub x0 (wMul (wAdd (wAdd (wMul x1 m.cr1) tmp3) carry2) m.value)) m.value
      else pure (wSub x0 (wMul (wAdd (wAdd (wMul x1 m.cr1) tmp3) carry2) m.value)) := rfl

theorem barrett128_core {x0 x1 c0 c1 : Nat} (h0 : x0 < B64) (h1 : x1 < B64)
    (hc0 : c0 < B64) (hc1 : c1 ≤ 2^63) :
    ∃ v w,
      ckAdd (mulHi x0 c1) (addU64 (mulLo x0 c1) (mulHi x0 c0)).2 = .ok v ∧
      ckAdd (mulHi x1 c0) (addU64 (addU64 (mulLo x0 c1) (mulHi x0 c0)).1 (mulLo x1 c0)).2 = .ok w ∧
      wAdd (wAdd (wMul x1 c1) v) w = ((x0 + B64 * x1) * (c0 + B64 * c1) / (B64 * B64)) % B64 := by
  have hA : x0 * c0 < B64 * B64 := Nat.mul_lt_mul'' h0 hc0
  have hE : x0 * c1 ≤ (B64 - 1) * 2^63 := Nat.mul_le_mul (by omega) hc1
  have hC : x1 * c0 ≤ (B64 - 1) * (B64 - 1) := Nat.mul_le_mul (by omega) (by omega)
  have hexp : (x0 + B64 * x1) * (c0 + B64 * c1)
      = x0 * c0 + B64 * (x0 * c1 + x1 * c0) + B64 * B64 * (x1 * c1) := by ring
  rw [hexp, ← carry_chain]
  unfold mulHi mulLo
  generalize x0 * c0 = A at *
  generalize x0 * c1 = E at *
  generalize x1 * c0 = C at *
  have hAd : A / B64 < B64 := Nat.div_lt_of_lt_mul hA
  have hEd : E / B64 < 2^63 := by
    apply Nat.div_lt_of_lt_mul
    simp only [B64] at *; omega
  have hCd : C / B64 < B64 - 1 := by
    apply Nat.div_lt_of_lt_mul
    simp only [B64] at *; omega
  rw [addU64_fst, addU64_snd (Nat.mod_lt _ B64_pos) hAd,
    addU64_snd (Nat.mod_lt _ B64_pos) (Nat.mod_lt _ B64_pos)]
  have k1 : (E % B64 + A / B64) / B64 ≤ 1 := by simp only [B64] at *; omega
  have k2 : ((E % B64 + A / B64) % B64 + C % B64) / B64 ≤ 1 := by simp only [B64] at *; omega
  refine ⟨E / B64 + (E % B64 + A / B64) / B64,
    C / B64 + ((E % B64 + A / B64) % B64 + C % B64) / B64, ?_, ?_, ?_⟩
  · unfold ckAdd; rw [if_pos]; simp only [B64] at *; omega
  · unfold ckAdd; rw [if_pos]; simp only [B64] at *; omega
  · rw [wAdd3]

theorem barrett128_exact (h : m.WF) {x0 x1 : Nat} (h0 : x0 < 2^64) (h1 : x1 < 2^64) :
    barrett128 x0 x1 m = .ok ((x0 + 2^64 * x1) % m.value) := by
  have h2 := h.two_le; have hl := h.lt
  have hcr0 := h.cr0_lt
  have hcr1 : m.cr1 ≤ 2^63 := by
    rw [h.cr1_eq]; apply Nat.le_of_lt_succ; apply Nat.div_lt_of_lt_mul; omega
  rw [← B64_eq] at h0 h1 ⊢
  obtain ⟨v, w, e1, e2, e3⟩ := barrett128_core h0 h1 hcr0 hcr1
  have hx : x0 + B64 * x1 < 2^128 := by simp only [B64] at *; omega
  obtain ⟨b1, b2⟩ := barrett_bounds (x := x0 + B64 * x1) (q := m.value) (N := 2^128)
    (by omega) (by norm_num) hx.le
  rw [h.ratio, show B64 * B64 = 2^128 by norm_num [B64]] at e3
  rw [barrett128_unfold, e1, e2]
  simp only [Except.bind]
  rw [e3]
  generalize (x0 + B64 * x1) * (2^128 / m.value) / 2^128 = t at *
  have e4 : wMul (t % B64) m.value = (t * m.value) % B64 := by
    unfold wMul; exact Nat.mod_mul_mod _ _ _
  have e5 : x0 = (x0 + B64 * x1) % B64 := by
    rw [Nat.add_mul_mod_self_left, Nat.mod_eq_of_lt h0]
  have key : wSub x0 (wMul (t % B64) m.value) = (x0 + B64 * x1) - t * m.value := by
    rw [e4]
    conv_lhs => rw [e5]
    apply wSub_mod_eq
    · omega
    · simp only [B64] at *; omega
  rw [key]
  exact condSub_eq' (by omega) (mod_eq_of_sub (p := t) (by omega))

/-! ### products -/

theorem mulHiLo (x y : Nat) : mulLo x y + B64 * mulHi x y = x * y := Nat.mod_add_div _ _

theorem mulHi_le {x y : Nat} (hx : x < B64) (hy : y < B64) : mulHi x y ≤ B64 - 2 := by
  have hC : x * y ≤ (B64 - 1) * (B64 - 1) := Nat.mul_le_mul (by omega) (by omega)
  unfold mulHi
  apply Nat.le_of_lt_succ
  apply Nat.div_lt_of_lt_mul
  simp only [B64] at *; omega

theorem mulMod_exact (h : m.WF) {x y : Nat} (hx : x < 2^64) (hy : y < 2^64) :
    mulMod x y m = .ok ((x * y) % m.value) := by
  rw [← B64_eq] at hx hy
  have hh := mulHi_le hx hy
  unfold mulMod
  have hlo : mulLo x y < B64 := Nat.mod_lt _ B64_pos
  rw [barrett128_exact h (x0 := mulLo x y) (x1 := mulHi x y) (by rw [← B64_eq]; exact hlo)
    (by rw [← B64_eq]; omega), ← B64_eq, mulHiLo]

theorem mulAddMod_exact (h : m.WF) {x y z : Nat} (hx : x < 2^64) (hy : y < 2^64) (hz : z < 2^64) :
    mulAddMod x y z m = .ok ((x * y + z) % m.value) := by
  rw [← B64_eq] at hx hy hz
  have hh := mulHi_le hx hy
  have hlo : mulLo x y < B64 := Nat.mod_lt _ B64_pos
  have e := mulHiLo x y
  have unf : mulAddMod x y z m =
      (ckAdd (mulHi x y) (addU64 (mulLo x y) z).2).bind fun hi' =>
        barrett128 (addU64 (mulLo x y) z).1 hi' m := rfl
  rw [unf, addU64_snd hlo hz, addU64_fst]
  have k : (mulLo x y + z) / B64 ≤ 1 := by simp only [B64] at *; omega
  unfold ckAdd
  rw [if_pos (by simp only [B64] at *; omega)]
  simp only [Except.bind]
  rw [barrett128_exact h (by rw [← B64_eq]; exact Nat.mod_lt _ B64_pos)
    (by rw [← B64_eq]; simp only [B64] at *; omega)]
  congr 2
  rw [← e, ← B64_eq]
  have := Nat.mod_add_div (mulLo x y + z) B64
  rw [Nat.mul_add]
  omega

theorem mulOperandAddMod_exact (h : m.WF) {x y z : Nat} (hx : x < 2^64) (hy : y < m.value) (hz : z < 2^64)
    {o : MulOperand} (ho : MulOperand.new y m = .ok o) :
    mulOperandAddMod x o z m = .ok ((x * y + z) % m.value) := by
  have h2 := h.two_le
  unfold mulOperandAddMod
  simp only [bind, Except.bind]
  rw [mulOperandMod_exact h hx hy ho]; simp only []
  rw [barrett64_exact h hz]; simp only []
  rw [addMod_exact h (Nat.mod_lt _ (by omega)) (Nat.mod_lt _ (by omega)), ← Nat.add_mod]

/-! ### halving -/

theorem div2Mod_unfold (x : Nat) (m : Modulus) :
    div2Mod x m = if x % 2 = 1 then
        pure (if (addU64 x m.value).2 > 0
          then (addU64 x m.value).1 / 2 + 2^63 - ((addU64 x m.value).1 / 2 / 2^63 % 2) * 2^63
          else (addU64 x m.value).1 / 2)
      else pure (x / 2) := rfl

theorem div2Mod_exact (h : m.WF) (hodd : m.value % 2 = 1) {x : Nat} (hx : x < m.value) :
    ∃ y, div2Mod x m = .ok y ∧ y < m.value ∧ (2 * y) % m.value = x := by
  have h2 := h.two_le; have hl := h.lt
  rw [div2Mod_unfold]
  by_cases hxo : x % 2 = 1
  · rw [if_pos hxo]
    have hxB : x < B64 := by unfold B64; omega
    have hqB : m.value < B64 := by unfold B64; omega
    rw [addU64_snd hxB hqB, addU64_fst]
    have e1 : (x + m.value) / B64 = 0 := by unfold B64; omega
    have e2 : (x + m.value) % B64 = x + m.value := by unfold B64; omega
    rw [e1, e2, if_neg (by omega)]
    refine ⟨_, rfl, by omega, ?_⟩
    have : 2 * ((x + m.value) / 2) = x + m.value := by omega
    rw [this, Nat.add_mod_right, Nat.mod_eq_of_lt hx]
  · rw [if_neg hxo]
    refine ⟨_, rfl, by omega, ?_⟩
    have : 2 * (x / 2) = x := by omega
    rw [this, Nat.mod_eq_of_lt hx]

/-! ### dot product -/

theorem dotProduct_sum_le (xs ys : List Nat)
    (hxs : ∀ x ∈ xs, x < 2^61) (hys : ∀ y ∈ ys, y < 2^61) :
    ((xs.zip ys).map (fun p => p.1 * p.2)).sum ≤ xs.length * (2^122 - 1) := by
  induction xs generalizing ys with
  | nil => simp
  | cons a xs ih =>
    cases ys with
    | nil => simp
    | cons b ys =>
      have ha : a < 2^61 := hxs a (by simp)
      have hb : b < 2^61 := hys b (by simp)
      have hab : a * b ≤ (2^61 - 1) * (2^61 - 1) := Nat.mul_le_mul (by omega) (by omega)
      have ih' := ih ys (fun x hx => hxs x (by simp [hx])) (fun y hy => hys y (by simp [hy]))
      simp only [List.zip_cons_cons, List.map_cons, List.sum_cons, List.length_cons]
      have : (xs.length + 1) * (2^122 - 1) = xs.length * (2^122 - 1) + (2^122 - 1) := by ring
      rw [this]
      norm_num at hab ⊢
      omega

theorem dotProduct_sum_bound {xs ys : List Nat} (hl : xs.length = ys.length) (hn : xs.length ≤ 64)
    (hxs : ∀ x ∈ xs, x < 2^61) (hys : ∀ y ∈ ys, y < 2^61) :
    ((xs.zip ys).map (fun p => p.1 * p.2)).sum < 2^128 := by
  have h1 := dotProduct_sum_le xs ys hxs hys
  have h2 : xs.length * (2^122 - 1) ≤ 64 * (2^122 - 1) := Nat.mul_le_mul_right _ hn
  norm_num at h1 h2 ⊢
  omega

theorem addU128_unfold (a0 a1 b0 b1 : Nat) :
    addU128 a0 a1 b0 b1 = ((a0 + b0) % B64, wAdd (wAdd a1 b1) (addU64 a0 b0).2) := rfl

theorem addU128_val {a0 a1 b0 b1 : Nat} (ha0 : a0 < B64) (ha1 : a1 < B64) (hb0 : b0 < B64)
    (hb1 : b1 < B64) (hs : a0 + B64 * a1 + (b0 + B64 * b1) < B64 * B64) :
    (addU128 a0 a1 b0 b1).1 + B64 * (addU128 a0 a1 b0 b1).2 = a0 + B64 * a1 + (b0 + B64 * b1) ∧
    (addU128 a0 a1 b0 b1).1 < B64 ∧ (addU128 a0 a1 b0 b1).2 < B64 := by
  rw [addU128_unfold, addU64_snd ha0 hb0]
  unfold wAdd
  simp only [B64] at *
  omega

theorem dot_fold (l : List (Nat × Nat)) (hl : ∀ p ∈ l, p.1 < B64 ∧ p.2 < B64) (acc : Nat × Nat)
    (h1 : acc.1 < B64) (h2 : acc.2 < B64)
    (hs : acc.1 + B64 * acc.2 + (l.map (fun p => p.1 * p.2)).sum < B64 * B64) :
    let r := l.foldl (fun (acc : Nat × Nat) (p : Nat × Nat) =>
      addU128 acc.1 acc.2 (mulLo p.1 p.2) (mulHi p.1 p.2)) acc
    r.1 + B64 * r.2 = acc.1 + B64 * acc.2 + (l.map (fun p => p.1 * p.2)).sum ∧
      r.1 < B64 ∧ r.2 < B64 := by
  induction l generalizing acc with
  | nil => simp; exact ⟨h1, h2⟩
  | cons p l ih =>
    obtain ⟨hp1, hp2⟩ := hl p (by simp)
    simp only [List.map_cons, List.sum_cons, List.foldl_cons] at hs ⊢
    have e := mulHiLo p.1 p.2
    have hlo : mulLo p.1 p.2 < B64 := Nat.mod_lt _ B64_pos
    have hhi : mulHi p.1 p.2 < B64 := by have := mulHi_le hp1 hp2; omega
    obtain ⟨v1, v2, v3⟩ := addU128_val h1 h2 hlo hhi (by rw [e]; omega)
    have := ih (fun q hq => hl q (by simp [hq])) _ v2 v3 (by rw [v1, e]; omega)
    simp only [] at this
    rw [v1, e] at this
    refine ⟨by omega, this.2⟩

theorem dotProductMod_exact (h : m.WF) {xs ys : List Nat} (hl : xs.length = ys.length)
    (hxs : ∀ x ∈ xs, x < 2^64) (hys : ∀ y ∈ ys, y < 2^64)
    (hsum : ((xs.zip ys).map (fun p => p.1 * p.2)).sum < 2^128) :
    dotProductMod xs ys m = .ok (((xs.zip ys).map (fun p => p.1 * p.2)).sum % m.value) := by
  unfold dotProductMod
  rw [if_neg (by omega)]
  have hB : B64 * B64 = 2^128 := by norm_num [B64]
  obtain ⟨r1, r2, r3⟩ := dot_fold (xs.zip ys)
    (fun p hp => by
      have := List.of_mem_zip (a := p.1) (b := p.2) hp
      rw [B64_eq]; exact ⟨hxs _ this.1, hys _ this.2⟩)
    (0, 0) B64_pos B64_pos (by rw [hB]; simpa using hsum)
  simp only [] at r1 r2 r3 ⊢
  rw [barrett128_exact h (by rw [← B64_eq]; exact r2) (by rw [← B64_eq]; exact r3), ← B64_eq, r1]
  simp

/-! ### multi-limb reduction -/

theorem toNat_append (a b : List Nat) : toNat (a ++ b) = toNat a + B64 ^ a.length * toNat b := by
  induction a with
  | nil => simp [toNat]
  | cons x a ih =>
    simp only [List.cons_append, toNat, ih, List.length_cons]
    ring

theorem mod_congr_aux (T P X q : Nat) : (T + P * (X % q)) % q = (T + P * X) % q := by
  rw [Nat.add_mod T (P * (X % q)) q, Nat.mul_mod P (X % q) q, Nat.mod_mod,
    ← Nat.mul_mod, ← Nat.add_mod]

theorem moduloFold_step (h : m.WF) {l : List Nat} {lo acc : Nat}
    (ih : ∀ a, a < m.value →
      l.foldlM (fun acc lo => barrett128 lo acc m) a
        = .ok ((toNat l.reverse + B64 ^ l.length * a) % m.value))
    (hlo : lo < 2^64) (hacc : acc < 2^64) :
    (lo :: l).foldlM (fun acc lo => barrett128 lo acc m) acc
      = .ok ((toNat (lo :: l).reverse + B64 ^ (lo :: l).length * acc) % m.value) := by
  have h2 := h.two_le
  rw [List.foldlM_cons, barrett128_exact h hlo hacc]
  show l.foldlM (fun acc lo => barrett128 lo acc m) ((lo + 2^64 * acc) % m.value) = _
  rw [ih _ (Nat.mod_lt _ (by omega)), mod_congr_aux]
  congr 2
  rw [List.reverse_cons, toNat_append, List.length_reverse, List.length_cons, ← B64_eq]
  simp only [toNat]
  ring

theorem moduloFold (h : m.WF) (l : List Nat) (hl : ∀ x ∈ l, x < 2^64) (acc : Nat)
    (hacc : acc < m.value) :
    l.foldlM (fun acc lo => barrett128 lo acc m) acc
      = .ok ((toNat l.reverse + B64 ^ l.length * acc) % m.value) := by
  have hq := h.lt
  induction l generalizing acc with
  | nil =>
    simp [toNat, Nat.mod_eq_of_lt hacc]; rfl
  | cons lo l ih =>
    exact moduloFold_step h (fun a ha => ih (fun x hx => hl x (by simp [hx])) a ha)
      (hl lo (by simp)) (by omega)

theorem moduloUint_cons2 (a b : Nat) (t : List Nat) (m : Modulus) :
    moduloUint (a :: b :: t) m =
      match (a :: b :: t).reverse with
      | [] => .error .oob
      | top :: rest => rest.foldlM (fun acc lo => barrett128 lo acc m) top := rfl

/-- multi-word value reduced modulo q, any number of limbs ≥ 1 -/
theorem moduloUint_exact (h : m.WF) {v : List Nat} (hne : v ≠ []) (hv : ∀ x ∈ v, x < 2^64) :
    moduloUint v m = .ok (toNat v % m.value) := by
  have h2 := h.two_le
  match v, hne, hv with
  | [x], _, hv =>
    have hx : x < 2^64 := hv x (by simp)
    show (if x < m.value then pure x else barrett64 x m) = _
    have : toNat [x] = x := by simp [toNat]
    rw [this]
    by_cases hlt : x < m.value
    · rw [if_pos hlt, Nat.mod_eq_of_lt hlt]; rfl
    · rw [if_neg hlt, barrett64_exact h hx]
  | a :: b :: t, _, hv =>
    rw [moduloUint_cons2]
    generalize hrv : (a :: b :: t).reverse = rv
    have hv' : ∀ x ∈ rv, x < 2^64 := fun x hx => hv x (by rw [← hrv] at hx; exact List.mem_reverse.mp hx)
    have hvr : a :: b :: t = rv.reverse := by rw [← hrv, List.reverse_reverse]
    have hlen : rv.length = t.length + 2 := by rw [← hrv]; simp
    match rv, hv', hvr, hlen with
    | [], _, _, hlen => simp at hlen
    | [_], _, _, hlen => simp at hlen
    | top :: lo :: rest, hv', hvr, _ =>
      show (lo :: rest).foldlM (fun acc lo => barrett128 lo acc m) top = _
      rw [moduloFold_step h (fun a ha => moduloFold h rest (fun x hx => hv' x (by simp [hx])) a ha)
        (hv' lo (by simp)) (hv' top (by simp))]
      rw [hvr, List.reverse_cons (a := top), toNat_append, List.length_reverse]
      simp [toNat]

end HC

