/-
  Translator phase 4i (stream mode): the WRITERS of src/serialize.rs, regenerated into Gen/SerFns.lean, are the model's chunk
  lists (`Codec.chunks`) run on the stream — for EVERY stream (`WStream S E`), hence in particular
  * on the faulty sinks of C15 (`Codec.serialize (fun _ => .writeAll)`), and
  * on an ideal in-memory stream (bytes = `Codec.enc`, count = their number).
  Helper prefix `gs_`.
-/
import Heathcliff.Gen.SerFns
import Heathcliff.Proofs.Codec
namespace HC.GS
open HC HC.Codec HC.GenS

variable {S E : Type}

/-! ### the writer monad -/

theorem wbind_wpure {α β} (a : α) (f : α → W S E β) : wbind (wpure a) f = f a := rfl

theorem wbind_pure_right {α} (m : W S E α) : wbind m (fun a => wpure a) = m := by
  funext s; unfold wbind wpure; rcases h : m s with ⟨r, s'⟩; cases r <;> simp

theorem wbind_assoc {α β γ} (m : W S E α) (f : α → W S E β) (g : β → W S E γ) :
    wbind (wbind m f) g = wbind m (fun a => wbind (f a) g) := by
  funext s; unfold wbind; rcases h : m s with ⟨r, s'⟩; cases r <;> simp

/-- the model's chunk list run on an arbitrary stream: every chunk is ONE `write_all` call, the count is the number of bytes handed over -/
def runChunks (st : WStream S E) : List Chunk → W S E Nat
  | [] => wpure 0
  | c :: cs => wbind (wio (st.writeAll c.bytes)) fun _ => wbind (runChunks st cs) fun m => wpure (c.bytes.length + m)

theorem runChunks_append (st : WStream S E) (a b : List Chunk) :
    runChunks st (a ++ b) = wbind (runChunks st a) fun n => wbind (runChunks st b) fun m => wpure (n + m) := by
  induction a with
  | nil => simp [runChunks, wbind_wpure, wbind_pure_right]
  | cons c cs ih =>
    simp only [List.cons_append, runChunks, ih, wbind_assoc, wbind_wpure]
    congr 1; funext _; congr 1; funext n; congr 1; funext m; rw [Nat.add_assoc]

/-- accumulator form used by the generated loops -/
theorem runChunks_acc (st : WStream S E) (a : List Chunk) (acc : Nat) {β} (k : Nat → W S E β) :
    wbind (runChunks st a) (fun n => k (acc + n)) = wbind (wbind (runChunks st a) fun n => wpure (acc + n)) k := by
  rw [wbind_assoc]; rfl

/-! ### scalars -/

theorem gs_u64_serialize (st : WStream S E) (v : Nat) : u64_serialize st v = runChunks st (u64C.chunks v) := by
  simp [u64_serialize, runChunks, u64C, scalarC, leBytes_length, wbind_wpure]

theorem gs_usize_serialize (st : WStream S E) (v : Nat) : usize_serialize st v = runChunks st (usizeC.chunks v) := by
  simp [usize_serialize, runChunks, usizeC, scalarC, leBytes_length, wbind_wpure]

/-- `u8`: the code hands over `[*self]`; this is `to_le_bytes` truncated to one byte exactly for a value that IS a byte -/
theorem gs_u8_serialize (st : WStream S E) (v : Nat) (hv : v < 256) : u8_serialize st v = runChunks st (u8C.chunks v) := by
  have : v % 256 = v := Nat.mod_eq_of_lt hv
  simp [u8_serialize, runChunks, u8C, scalarC, leBytes, wbind_wpure, this]

theorem gs_bool_serialize (st : WStream S E) (b : Bool) : bool_serialize st b = runChunks st (boolC.chunks b) := by
  unfold bool_serialize boolC mapC
  cases b <;> simp [gs_u8_serialize]

theorem gs_f64_serialize (st : WStream S E) (v : Nat) : f64_serialize st v = runChunks st (f64C.chunks v) := by
  simp [f64_serialize, f64C, gs_u64_serialize]

theorem gs_modulus_serialize (st : WStream S E) (v : Nat) : modulus_serialize st v = runChunks st (modulusC.chunks v) := by
  simp [modulus_serialize, modulusC, gs_u64_serialize]

/-- `SchemeType as u8` -/
theorem gs_scheme_serialize (st : WStream S E) (v : Nat) (hv : v < 256) : scheme_serialize st v = runChunks st (schemeC.chunks v) := by
  simp [scheme_serialize, schemeC, guardC, gs_u8_serialize st v hv]

/-! ### `Vec<I>`, `ParmsID` -/

theorem gs_vec_loop {α} (st : WStream S E) (item : α → W S E Nat) (c : Codec α) (l : List α)
    (hi : ∀ x ∈ l, item x = runChunks st (c.chunks x)) (acc : Nat) :
    vec_serialize_loop1 st item l acc
      = wbind (runChunks st (seqChunks (List.replicate l.length c) l)) fun n => wpure (acc + n) := by
  induction l generalizing acc with
  | nil => simp [vec_serialize_loop1, seqChunks, runChunks, wbind_wpure]
  | cons x xs ih =>
    have hx := hi x (List.mem_cons_self)
    have ih' := fun a => ih (fun y hy => hi y (List.mem_cons_of_mem _ hy)) a
    simp only [vec_serialize_loop1, List.length_cons, List.replicate_succ, seqChunks, runChunks_append, hx, ih', wbind_assoc, wbind_wpure]
    congr 1; funext n; congr 1; funext m; rw [Nat.add_assoc]

theorem gs_vec_serialize {α} (st : WStream S E) (item : α → W S E Nat) (c : Codec α) (l : List α)
    (hi : ∀ x ∈ l, item x = runChunks st (c.chunks x)) :
    vec_serialize st item l = runChunks st ((vecC c).chunks l) := by
  have : (vecC c).chunks l = usizeC.chunks l.length ++ seqChunks (List.replicate l.length c) l := rfl
  rw [this, runChunks_append]
  simp only [vec_serialize, gs_usize_serialize, gs_vec_loop st item c l hi, wbind_assoc, wbind_wpure, Nat.zero_add]

theorem gs_pid_loop (st : WStream S E) (l : List Nat) (acc : Nat) :
    pid_serialize_loop1 st l acc
      = wbind (runChunks st (seqChunks (List.replicate l.length u64C) l)) fun n => wpure (acc + n) := by
  induction l generalizing acc with
  | nil => simp [pid_serialize_loop1, seqChunks, runChunks, wbind_wpure]
  | cons x xs ih =>
    simp only [pid_serialize_loop1, List.length_cons, List.replicate_succ, seqChunks, runChunks_append, gs_u64_serialize, ih, wbind_assoc, wbind_wpure]
    congr 1; funext n; congr 1; funext m; rw [Nat.add_assoc]

/-- `ParmsID = [u64; 4]`: the hypothesis is the array type's length -/
theorem gs_pid_serialize (st : WStream S E) (l : List Nat) (hl : l.length = 4) :
    pid_serialize st l = runChunks st (pidC.chunks l) := by
  have : pidC.chunks l = seqChunks (List.replicate l.length u64C) l := by rw [hl]; rfl
  rw [this]
  simp only [pid_serialize, gs_pid_loop, Nat.zero_add, wbind_assoc, wbind_wpure, wbind_pure_right]

/-! ### `EncryptionParameters`, `Plaintext` -/

theorem gs_params_serialize (st : WStream S E) (p : Params) (hs : p.scheme < 256) :
    params_serialize st p = runChunks st (paramsC.chunks p) := by
  have hv := gs_vec_serialize st (modulus_serialize st) modulusC p.coeffMod (fun x _ => gs_modulus_serialize st x)
  have hc : paramsC.chunks p = schemeC.chunks p.scheme ++ (usizeC.chunks p.n ++ ((vecC modulusC).chunks p.coeffMod ++
      ((repC (if hasPlain p.scheme then 1 else 0) modulusC).chunks (if hasPlain p.scheme then [p.plainMod] else []) ++ boolC.chunks p.special))) := rfl
  rw [hc]
  simp only [params_serialize, gs_scheme_serialize st _ hs, gs_usize_serialize, hv, gs_bool_serialize, gs_modulus_serialize,
    runChunks_append, wbind_assoc, wbind_wpure, Nat.zero_add]
  by_cases h : hasPlain p.scheme = true
  · have h' : (p.scheme == 1 || p.scheme == 3) = true := h
    simp only [h, h', if_true, repC, List.replicate_succ, List.replicate_zero, seqC, seqChunks, List.append_nil, wbind_assoc, wbind_wpure]
    congr 1; funext a; congr 1; funext b; congr 1; funext c; congr 1; funext d; congr 1; funext e
    congr 1; omega
  · have h0 : hasPlain p.scheme = false := by simpa using h
    have h' : (p.scheme == 1 || p.scheme == 3) = false := h0
    simp only [h0, h', repC, List.replicate_zero, seqC, seqChunks, runChunks, wbind_assoc, wbind_wpure, Bool.false_eq_true, if_false]
    congr 1; funext a; congr 1; funext b; congr 1; funext c; congr 1; funext d
    congr 1; omega

theorem gs_plain_serialize (st : WStream S E) (p : Plain) (hl : p.pid.length = 4) :
    plain_serialize st p = runChunks st (plainC.chunks p) := by
  have hv := gs_vec_serialize st (u64_serialize st) u64C p.data (fun x _ => gs_u64_serialize st x)
  have hc : plainC.chunks p = pidC.chunks p.pid ++ ((vecC u64C).chunks p.data ++ f64C.chunks p.scale) := rfl
  rw [hc]
  simp only [plain_serialize, gs_pid_serialize st _ hl, hv, gs_f64_serialize, runChunks_append, wbind_assoc, wbind_wpure, Nat.zero_add]
  congr 1; funext a; congr 1; funext b; congr 1; funext c
  congr 1; omega

/-! ### the two instances -/

/-- the faulty sinks of C15 as a stream -/
def sinkStream : WStream Sink IOErr := ⟨fun b s => s.write b, fun b s => writeAll s b⟩

def liftIO {α} (r : Except IOErr α × Sink) : Except (WErr IOErr) α × Sink :=
  match r with
  | (.ok a, s) => (.ok a, s)
  | (.error e, s) => (.error (.io e), s)

/-- on a C15 sink the chunk program IS the model's `serialize` in `write_all` mode -/
theorem runChunks_sink (cs : List Chunk) (s : Sink) :
    runChunks sinkStream cs s = liftIO (Codec.serialize (fun _ => .writeAll) cs s) := by
  induction cs generalizing s with
  | nil => rfl
  | cons c cs ih =>
    simp only [runChunks, Codec.serialize, scalarWrite, wbind, wio]
    have hw : sinkStream.writeAll c.bytes s = writeAll s c.bytes := rfl
    rw [hw]
    rcases h : writeAll s c.bytes with ⟨r, s'⟩
    cases r with
    | error e => simp [liftIO]
    | ok u =>
      simp only [ih s']
      rcases h2 : Codec.serialize (fun _ => WMode.writeAll) cs s' with ⟨r2, s''⟩
      cases r2 <;> simp [liftIO, wpure]

/-- an in-memory stream that takes everything (`Vec<u8>`) -/
def idealStream : WStream Bytes Empty := ⟨fun b s => (.ok b.length, s ++ b), fun b s => (.ok (), s ++ b)⟩

theorem runChunks_ideal (cs : List Chunk) (s : Bytes) :
    runChunks idealStream cs s = (.ok (flat cs).length, s ++ flat cs) := by
  induction cs generalizing s with
  | nil => simp [runChunks, wpure, flat]
  | cons c cs ih =>
    simp only [runChunks, wbind, wio, idealStream, flat] at ih ⊢
    simp [ih, wpure, List.length_append, List.append_assoc]

end HC.GS
