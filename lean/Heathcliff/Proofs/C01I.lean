/- C01 part I: the PLAINTEXT layers on top of a fresh encryption of zero (`FreshZero`, any dispatch branch):
   I1  BFV: `bfvDecrypt (bfvEncrypt m) = m` from any fresh zero with ‖ν‖ ≤ B under `FreshEncOK l B`;
   I2  BGV: the plaintext lift `bgvLiftPlain` (fast per-component increments and the multi-word path) ≡ the centred lift of m modulo every q_i;
       `bgvDecrypt (bgvEncrypt m) = m` under the decidable margin `FreshEncOKBgv l B` (noise t·ν, correction factor 1);
   I3  CKKS: decrypted RNS plaintext = plaintext + ONE integer noise vector ν (‖ν‖ ≤ B) in every RNS component.
   Helper names carry the prefix `c01i_`. -/
import Heathcliff.Proofs.C01H
namespace HC
open Finset Polynomial

/-! ## I1: BFV -/

/-- BFV, any encryption mode / dispatch branch: if the encryption of zero is fresh with ‖ν‖∞ ≤ B and the margin `FreshEncOK l B` holds,
    encryption of a plaintext succeeds and the model's decryption returns the plaintext -/
theorem bfv_encrypt_decrypt_of_fresh {l : Level} (hl : l.WF) (hd : DecOK l) (hb : l.scheme = .bfv) {cdp : Array MulOperand}
    (hsc : ScalingOK l (Spec.prodL (c01p_qvals l)) cdp) {sk : Array Int} (hsk : sk.size = l.n) {mode : EncMode} {ν : Nat → Int}
    (hf : FreshZero l sk (encryptZeroInternal l mode) ν) {B : Nat} (hν : ∀ c, c < l.n → (ν c).natAbs ≤ B)
    {plain : Poly} (hp : plain.size ≤ l.n) (hm : ∀ i, i < plain.size → plain.getD i 0 < l.t.value) (hok : FreshEncOK l B) :
    ∃ ct, bfvEncrypt l cdp (Spec.prodL (c01p_qvals l) % l.t.value) ((l.t.value + 1) / 2) mode plain = .ok ct ∧
      bfvDecrypt l sk ct = .ok (trimPlain (padPlain l.n plain)) := by
  have hq := c04r_levelQ_of_decOK hd
  have hn : l.scheme.encNtt = false := by rw [hb]; rfl
  have htt : encTT l = 1 := c01f_encTT_other (by rw [hb]; decide)
  obtain ⟨c0, c1, hz, hC0, hC1, hph⟩ := hf
  rw [hn] at hz hph
  obtain ⟨c0', hmul, hC0', hmv⟩ := multiplyAddPlain_spec hsc hp hm hC0
  refine ⟨⟨#[c0', c1], false, 1⟩, ?_, ?_⟩
  · unfold bfvEncrypt
    rw [hz, ok_bind]
    show (do let c0 ← multiplyAddPlain l cdp (Spec.prodL (c01p_qvals l) % l.t.value) ((l.t.value + 1) / 2) plain c0
             pure (⟨(#[c0, c1] : Array RnsPoly).setIfInBounds 0 c0, false, 1⟩ : Ct)) = _
    rw [hmul]; rfl
  · apply c01e_decrypt_of_phase hl hd hsk hC0' hC1 hm (v := ν) hν hok
    intro c hc
    have h1 := c01g_phase_add_c0 hq (sk := sk) (C0 := c0) (C0' := c0') (C1 := c1)
      (M := fun c => (deltaM (Spec.prodL (c01p_qvals l)) l.t.value (plain.getD c 0) : Int)) hC0.1 hC0'.1 hC1.1
      (fun i hi c hc => by
        rw [hmv i hi c hc]
        refine (cast_mod_modEq _ _).trans ?_
        push_cast
        exact Int.ModEq.refl _) c hc
    have h2 := hph c hc
    unfold encPhase cview at h2
    simp only [Bool.false_eq_true, ↓reduceIte, htt, Nat.cast_one, one_mul] at h2
    refine h1.trans ?_
    rw [add_comm]
    exact Int.ModEq.add (Int.ModEq.refl _) h2

/-! ## I2: BGV -/

/-- what `encrypt_internal` is handed for the BGV plaintext lift: threshold ⌊(t+1)/2⌋; fast path: every q_i > t and the increments
    q_i − t; multi-word path: t < Q and the increment Q − t as `l.size` limbs -/
def BgvLiftOK (l : Level) (fast : Bool) (thr : Nat) (incr : Array Nat) : Prop :=
  thr = (l.t.value + 1) / 2 ∧
  if fast then ∀ i, i < l.size → l.t.value < (l.q i).value ∧ incr.getD i 0 = (l.q i).value - l.t.value
  else l.t.value < Spec.prodL (c01p_qvals l) ∧ toNat (incr.toList.take l.size) = Spec.prodL (c01p_qvals l) - l.t.value

theorem c01i_lift_zero {t : Nat} (ht : 1 ≤ t) : bgvLift t 0 = 0 := by
  unfold bgvLift
  rw [if_neg (by omega)]; rfl

theorem c01i_getD_oob (plain : Poly) {j : Nat} (h : ¬ j < plain.size) : plain.getD j 0 = 0 := by
  simp [Array.getD, h]

/-- I2a, FAST PATH of the plaintext lift -/
theorem bgvLiftPlain_fast_spec {l : Level} (hl : l.WF) {thr : Nat} {incr : Array Nat} (h : BgvLiftOK l true thr incr)
    (ht1 : 1 ≤ l.t.value) {plain : Poly} (hp : plain.size ≤ l.n) (hm : ∀ i, i < plain.size → plain.getD i 0 < l.t.value) :
    ∃ r, bgvLiftPlain l true thr incr plain = .ok r ∧ RnsCanon l r ∧ ∀ i, i < l.size → ∀ j, j < l.n →
      (((r.getD i #[]).getD j 0 : Nat) : Int) ≡ bgvLift l.t.value (plain.getD j 0) [ZMOD ((l.q i).value : Int)] := by
  obtain ⟨hthr, hfast⟩ := h
  simp only [if_true] at hfast
  let G : Nat → Nat → Nat := fun i j =>
    if j < plain.size then (if plain.getD j 0 ≥ thr then plain.getD j 0 + incr.getD i 0 else plain.getD j 0) else 0
  have hrow : ∀ i, i < l.size → ((List.range l.n).mapM fun j =>
      if j < plain.size then
        let m := plain.getD j 0
        if m ≥ thr then ckAdd m (incr.getD i 0) else pure m
      else (pure 0 : R Nat)) = .ok ((List.range l.n).map (G i)) := by
    intro i hi
    apply c01e_mapM_range_ok
    intro j hj
    show (if j < plain.size then (if plain.getD j 0 ≥ thr then ckAdd (plain.getD j 0) (incr.getD i 0) else pure (plain.getD j 0))
      else (pure 0 : R Nat)) = .ok (G i j)
    simp only [G]
    by_cases hjp : j < plain.size
    · rw [if_pos hjp, if_pos hjp]
      by_cases hge : plain.getD j 0 ≥ thr
      · rw [if_pos hge, if_pos hge]
        unfold ckAdd
        have h61 := (c01o_level_comp hl hi).2.2.2.lt
        have := hm j hjp
        have := (hfast i hi).1
        rw [(hfast i hi).2, if_pos (by unfold B64; omega)]
      · rw [if_neg hge, if_neg hge]; rfl
    · rw [if_neg hjp, if_neg hjp]; rfl
  have hall : ((List.range l.size).mapM fun i => (List.range l.n).mapM fun j =>
      if j < plain.size then
        let m := plain.getD j 0
        if m ≥ thr then ckAdd m (incr.getD i 0) else pure m
      else (pure 0 : R Nat)) = .ok ((List.range l.size).map fun i => (List.range l.n).map (G i)) :=
    c01e_mapM_range_ok _ _ _ hrow
  refine ⟨((List.range l.size).map fun i => ((List.range l.n).map (G i)).toArray).toArray, ?_, ?_, ?_⟩
  · unfold bgvLiftPlain
    rw [if_neg (by omega)]
    simp only [if_true]
    rw [hall]
    simp [List.map_map, Function.comp_def]
  · refine ⟨by simp, fun i hi => ?_⟩
    rw [getD_rangeMap' _ _ _ hi]
    refine ⟨by simp, fun j hj => ?_⟩
    rw [getD_rangeMap _ _ hj]
    simp only [G]
    have hq0 : 0 < (l.q i).value := by have := (c01o_level_comp hl hi).2.2.2.two_le; omega
    by_cases hjp : j < plain.size
    · rw [if_pos hjp]
      have hmj := hm j hjp
      have hlt := (hfast i hi).1
      by_cases hge : plain.getD j 0 ≥ thr
      · rw [if_pos hge, (hfast i hi).2]; omega
      · rw [if_neg hge]; omega
    · rw [if_neg hjp]; exact hq0
  · intro i hi j hj
    rw [getD_rangeMap' _ _ _ hi, getD_rangeMap _ _ hj]
    simp only [G]
    by_cases hjp : j < plain.size
    · rw [if_pos hjp]
      have hmj := hm j hjp
      have hlt := (hfast i hi).1
      unfold bgvLift
      rw [← hthr]
      by_cases hge : plain.getD j 0 ≥ thr
      · rw [if_pos hge, if_pos hge, (hfast i hi).2]
        apply Int.modEq_iff_dvd.mpr
        refine ⟨-1, ?_⟩
        rw [Nat.cast_add, Nat.cast_sub (Nat.le_of_lt hlt)]
        ring
      · rw [if_neg hge, if_neg hge]
    · rw [if_neg hjp, c01i_getD_oob plain hjp, c01i_lift_zero ht1]; rfl

/-- I2b, MULTI-WORD PATH of the plaintext lift (`add_uint_u64` of the size-limb increment Q − t, then `decompose_array`) -/
theorem bgvLiftPlain_multiword_spec {l : Level} (hl : l.WF) (hq : c07s_LevelQ l) {thr : Nat} {incr : Array Nat}
    (h : BgvLiftOK l false thr incr) (ht1 : 1 ≤ l.t.value) {plain : Poly} (hp : plain.size ≤ l.n)
    (hm : ∀ i, i < plain.size → plain.getD i 0 < l.t.value) :
    ∃ r, bgvLiftPlain l false thr incr plain = .ok r ∧ RnsCanon l r ∧ ∀ i, i < l.size → ∀ j, j < l.n →
      (((r.getD i #[]).getD j 0 : Nat) : Int) ≡ bgvLift l.t.value (plain.getD j 0) [ZMOD ((l.q i).value : Int)] := by
  obtain ⟨hthr, hslow⟩ := h
  simp only [Bool.false_eq_true, if_false] at hslow
  obtain ⟨htQ, hincr⟩ := hslow
  have hb := hq.bwf
  have hbs := hq.size_eq
  have hQ : Spec.prodL (c01p_qvals l) = l.tool.baseQ.prod := by rw [c01h_prodL hq]; rfl
  rw [hQ] at htQ hincr
  generalize hQd : l.tool.baseQ.prod = Q at *
  have hQlt : Q < 2^(64 * l.size) := by rw [← hQd, ← hbs]; exact hb.prod_lt
  let V : Nat → Nat := fun j =>
    if j < plain.size then
      (if plain.getD j 0 ≥ thr then (toNat (incr.toList.take l.size) + plain.getD j 0) % 2^(64 * l.size) else plain.getD j 0)
    else 0
  have hVval : ∀ j, V j = if j < plain.size then (if plain.getD j 0 ≥ thr then Q - l.t.value + plain.getD j 0 else plain.getD j 0) else 0 := by
    intro j
    simp only [V]
    by_cases hjp : j < plain.size
    · rw [if_pos hjp, if_pos hjp]
      by_cases hge : plain.getD j 0 ≥ thr
      · rw [if_pos hge, if_pos hge, hincr]
        have := hm j hjp
        exact Nat.mod_eq_of_lt (by omega)
      · rw [if_neg hge, if_neg hge]
    · rw [if_neg hjp, if_neg hjp]
  have hVlt : ∀ j, V j < Q := by
    intro j
    rw [hVval]
    by_cases hjp : j < plain.size
    · rw [if_pos hjp]
      have := hm j hjp
      by_cases hge : plain.getD j 0 ≥ thr
      · rw [if_pos hge]; omega
      · rw [if_neg hge]; omega
    · rw [if_neg hjp]; omega
  let F : Nat → R (Array Nat) := fun v => l.tool.baseQ.decompose v
  have hF : ∀ j, ∃ rs, F (V j) = .ok rs ∧ rs.size = l.size ∧ ∀ i, i < l.size → rs.getD i 0 = V j % (l.q i).value := by
    intro j
    obtain ⟨rs, h1, h2, h3⟩ := decompose_spec_of hb (v := V j) (by rw [hbs]; exact Nat.lt_trans (hVlt j) hQlt)
      (Or.inr (by rw [hQd]; exact hVlt j))
    exact ⟨rs, h1, by rw [h2, hbs], fun i hi => by rw [h3 i (by rw [hbs]; exact hi), hq.q_eq hi]⟩
  have hmap : ((List.range l.n).map V).mapM F = .ok (((List.range l.n).map V).map (fun v => c01p_val (F v))) := by
    apply listMapM_ok
    intro x hx
    obtain ⟨j, -, rfl⟩ := List.mem_map.mp hx
    obtain ⟨rs, hrs, -⟩ := hF j
    exact c01p_val_ok ⟨rs, hrs⟩
  have hval : ∀ j, c01p_val (F (V j)) = c01p_val (F (V j)) ∧ (c01p_val (F (V j))).size = l.size ∧
      ∀ i, i < l.size → (c01p_val (F (V j))).getD i 0 = V j % (l.q i).value := by
    intro j
    obtain ⟨rs, hrs, h2, h3⟩ := hF j
    have : c01p_val (F (V j)) = rs := by rw [hrs]; rfl
    rw [this]; exact ⟨rfl, h2, h3⟩
  refine ⟨untranspose (((List.range l.n).map V).map (fun v => c01p_val (F v))).toArray l.size, ?_, ?_, ?_⟩
  · unfold bgvLiftPlain
    rw [if_neg (by omega)]
    simp only [Bool.false_eq_true, if_false]
    show (do let cols ← ((List.range l.n).map V).mapM F; pure (untranspose cols.toArray l.size)) = _
    rw [hmap]; rfl
  all_goals
    have hcomp : ∀ i, i < l.size → ∀ j, j < l.n →
        ((untranspose (((List.range l.n).map V).map (fun v => c01p_val (F v))).toArray l.size).getD i #[]).getD j 0
          = V j % (l.q i).value := by
      intro i hi j hj
      unfold untranspose
      rw [c01o_ofFn_getD _ _ _ hi, List.map_map]
      rw [c05u_map_getD _ _ #[] 0 (by simp; exact hj), getD_rangeMap' _ _ _ hj]
      exact (hval j).2.2 i hi
  · refine ⟨by simp [untranspose], fun i hi => ⟨?_, fun j hj => ?_⟩⟩
    · unfold untranspose
      rw [c01o_ofFn_getD _ _ _ hi]; simp
    · rw [hcomp i hi j hj]
      exact Nat.mod_lt _ (by have := (c01o_level_comp hl hi).2.2.2.two_le; omega)
  · intro i hi j hj
    rw [hcomp i hi j hj]
    refine (cast_mod_modEq _ _).trans ?_
    rw [hVval]
    by_cases hjp : j < plain.size
    · rw [if_pos hjp]
      have hmj := hm j hjp
      unfold bgvLift
      rw [← hthr]
      by_cases hge : plain.getD j 0 ≥ thr
      · rw [if_pos hge, if_pos hge]
        have hdvd : ((l.q i).value : Int) ∣ (Q : Int) := by
          rw [← hQd, ← hq.q_eq hi]
          exact Int.natCast_dvd_natCast.mpr (hb.q_dvd_prod (by rw [hbs]; exact hi))
        apply Int.modEq_iff_dvd.mpr
        obtain ⟨k, hk⟩ := hdvd
        refine ⟨-k, ?_⟩
        rw [Nat.cast_add, Nat.cast_sub (Nat.le_of_lt htQ), hk]
        ring
      · rw [if_neg hge, if_neg hge]
    · rw [if_neg hjp, c01i_getD_oob plain hjp, c01i_lift_zero ht1]; rfl

/-- I2 (both paths): the lifted plaintext is canonical and ≡ the centred lift of m in every component -/
theorem bgvLiftPlain_spec {l : Level} (hl : l.WF) (hq : c07s_LevelQ l) {fast : Bool} {thr : Nat} {incr : Array Nat}
    (h : BgvLiftOK l fast thr incr) (ht1 : 1 ≤ l.t.value) {plain : Poly} (hp : plain.size ≤ l.n)
    (hm : ∀ i, i < plain.size → plain.getD i 0 < l.t.value) :
    ∃ r, bgvLiftPlain l fast thr incr plain = .ok r ∧ RnsCanon l r ∧ ∀ i, i < l.size → ∀ j, j < l.n →
      (((r.getD i #[]).getD j 0 : Nat) : Int) ≡ bgvLift l.t.value (plain.getD j 0) [ZMOD ((l.q i).value : Int)] := by
  cases fast
  · exact bgvLiftPlain_multiword_spec hl hq h ht1 hp hm
  · exact bgvLiftPlain_fast_spec hl h ht1 hp hm

/-- the margin of the BGV end-to-end theorems at fresh-noise bound B: 2·t·(B+1) < Q (|lift(m) + t·ν| < Q/2) -/
def FreshEncOKBgv (l : Level) (B : Nat) : Prop := 2 * (l.t.value * (B + 1)) < Spec.prodL (c01p_qvals l)

instance (l : Level) (B : Nat) : Decidable (FreshEncOKBgv l B) := by unfold FreshEncOKBgv; exact inferInstance

/-- a centred residue that is congruent to a small x IS x -/
theorem c01i_centred_unique {X Q : Nat} {x : Int} (h : 2 * x.natAbs < Q) (hc : Spec.centred X Q ≡ x [ZMOD (Q : Int)]) :
    Spec.centred X Q = x := by
  have hQ : 0 < Q := by omega
  have hr := Nat.mod_lt X hQ
  obtain ⟨k, hk⟩ := Int.modEq_iff_dvd.mp hc
  have hb : -(Q : Int) < 2 * Spec.centred X Q ∧ 2 * Spec.centred X Q ≤ Q := by
    unfold Spec.centred
    split <;> omega
  have hk0 : k = 0 := by
    by_contra hne
    rcases Int.lt_or_gt_of_ne hne with h' | h'
    · have : (Q : Int) * k ≤ -(Q : Int) := by nlinarith
      omega
    · have : (Q : Int) ≤ (Q : Int) * k := by nlinarith
      omega
  subst hk0
  omega

/-- one coefficient of the sum of an NTT-form polynomial with another one, on coefficient forms -/
theorem c01i_intt_add_comp {l : Level} (hl : l.WF) {a b r : RnsPoly} (ha : RnsCanon l a) (hb : RnsCanon l b) (hr : RnsCanon l r)
    (hv : ∀ i, i < l.size → ∀ j, j < l.n → (r.getD i #[]).getD j 0 = ((a.getD i #[]).getD j 0 + (b.getD i #[]).getD j 0) % (l.q i).value) :
    ∀ i, i < l.size → ∀ c, c < l.n → (intt (l.tbl i) (r.getD i #[])).getD c 0 =
      ((intt (l.tbl i) (a.getD i #[])).getD c 0 + (intt (l.tbl i) (b.getD i #[])).getD c 0) % (l.q i).value := by
  intro i hi c hc
  obtain ⟨htw, htm, htn, _⟩ := c01o_level_comp hl hi
  have h1 := c01o_intt_add htw (x := a.getD i #[]) (y := b.getD i #[]) (z := r.getD i #[])
    (by rw [(ha.2 i hi).1, htn]) (by rw [(hb.2 i hi).1, htn]) (by rw [(hr.2 i hi).1, htn])
    (fun j hj => by rw [htm]; exact (ha.2 i hi).2 j (by omega))
    (fun j hj => by rw [htm]; exact (hb.2 i hi).2 j (by omega))
    (fun j hj => by rw [htm]; exact hv i hi j (by omega)) c (by omega)
  rw [htm] at h1
  exact h1

/-- from a phase congruence lift(m) + t·v (|v| ≤ B) and the margin: the model decrypts the NTT-form (c0, c1), correction factor 1, to the
    padded plaintext -/
theorem c01i_bgv_decrypt_of_phase {l : Level} (hl : l.WF) (hd : DecOK l) {sk : Array Int} (hsk : sk.size = l.n) {c0 c1 : RnsPoly}
    (h0 : RnsCanon l c0) (h1 : RnsCanon l c1) {plain : Poly} (hm : ∀ i, i < plain.size → plain.getD i 0 < l.t.value)
    {v : Nat → Int} {B : Nat} (hv : ∀ c, c < l.n → (v c).natAbs ≤ B) (hok : FreshEncOKBgv l B)
    (hph : ∀ c, c < l.n → (Spec.phase (c01p_qvals l) l.n sk [rnsIntt l c0, rnsIntt l c1]).getD c 0 ≡
      bgvLift l.t.value (plain.getD c 0) + (l.t.value : Int) * v c [ZMOD (Spec.prodL (c01p_qvals l) : Int)]) :
    bgvDecrypt l sk ⟨#[c0, c1], true, 1⟩ = .ok (trimPlain (padPlain l.n plain)) := by
  have ht2 : 2 ≤ l.t.value := by have := hd.tool.twf.two_le; rw [hd.t_eq] at this; exact this
  have ht61 : l.t.value < 2^61 := by have := hd.tool.twf.lt; rw [hd.t_eq] at this; exact this
  unfold FreshEncOKBgv at hok
  have hmc : ∀ c, plain.getD c 0 < l.t.value := by
    intro c
    by_cases hc : c < plain.size
    · exact hm c hc
    · rw [c01i_getD_oob plain hc]; omega
  -- the exact value of every phase coefficient
  have hval : ∀ c, c < l.n → (Spec.phase (c01p_qvals l) l.n sk [rnsIntt l c0, rnsIntt l c1]).getD c 0 =
      bgvLift l.t.value (plain.getD c 0) + (l.t.value : Int) * v c ∧
      2 * (bgvLift l.t.value (plain.getD c 0) + (l.t.value : Int) * v c).natAbs < Spec.prodL (c01p_qvals l) := by
    intro c hc
    have hb := c01j_bgvLift_bounds (hmc c)
    have hsmall : 2 * (bgvLift l.t.value (plain.getD c 0) + (l.t.value : Int) * v c).natAbs < Spec.prodL (c01p_qvals l) := by
      have a1 := Int.natAbs_add_le (bgvLift l.t.value (plain.getD c 0)) ((l.t.value : Int) * v c)
      have a2 : ((l.t.value : Int) * v c).natAbs = l.t.value * (v c).natAbs := by rw [Int.natAbs_mul]; rfl
      have a3 : l.t.value * (v c).natAbs ≤ l.t.value * B := Nat.mul_le_mul_left _ (hv c hc)
      have a4 : l.t.value * (B + 1) = l.t.value * B + l.t.value := by ring
      omega
    refine ⟨?_, hsmall⟩
    have h := hph c hc
    rw [c01p_phase2_getD _ _ _ _ _ hc] at h ⊢
    exact c01i_centred_unique hsmall h
  have htie : BgvNoTie l (Spec.phase (c01p_qvals l) l.n sk [rnsIntt l c0, rnsIntt l c1]) := by
    intro j hj
    obtain ⟨e1, e2⟩ := hval j hj
    rw [e1]
    omega
  rw [bgvDecrypt_size2_eq_spec hl hd hsk h0 h1 (by norm_num) (Nat.coprime_one_left _) htie]
  unfold Spec.trim
  congr 2
  apply array_ext_getD (by rw [c01p_bgvDecode_size, c01p_phase2_size]) (by simp [padPlain])
  intro c hc
  obtain ⟨e1, e2⟩ := hval c hc
  rw [c01p_bgvDecode_getD _ _ _ (by rw [c01p_phase2_size]; exact hc), e1, c01j_bgvLift_imod (hmc c)]
  have h199 : l.t.value < 2^199 := by
    have : (2:Nat)^61 < 2^199 := by norm_num
    omega
  have hinv := c01j_invMod_spec (cf := 1) ht2 h199 (Nat.coprime_one_left _)
  rw [Nat.mul_one, Nat.mod_eq_of_lt (show 1 < l.t.value by omega)] at hinv
  have hfin : (plain.getD c 0 * Spec.invMod 1 l.t.value) % l.t.value = plain.getD c 0 := by
    rw [Nat.mul_mod, hinv, Nat.mul_one, Nat.mod_mod, Nat.mod_eq_of_lt (hmc c)]
  rw [hfin]
  simp [padPlain, Array.getD, hc]

/-- BGV, any encryption mode / dispatch branch: if the encryption of zero is fresh with ‖ν‖∞ ≤ B (phase t·ν) and 2t(B+1) < Q, encryption
    of a plaintext succeeds (lift on either path, transform, add) and the model's decryption returns the plaintext; the correction
    factor of the fresh ciphertext is 1 -/
theorem bgv_encrypt_decrypt_of_fresh {l : Level} (hl : l.WF) (hd : DecOK l) (hb : l.scheme = .bgv) {fast : Bool} {thr : Nat}
    {incr : Array Nat} (hlift : BgvLiftOK l fast thr incr) {sk : Array Int} (hsk : sk.size = l.n) {mode : EncMode} {ν : Nat → Int}
    (hf : FreshZero l sk (encryptZeroInternal l mode) ν) {B : Nat} (hν : ∀ c, c < l.n → (ν c).natAbs ≤ B)
    {plain : Poly} (hp : plain.size ≤ l.n) (hm : ∀ i, i < plain.size → plain.getD i 0 < l.t.value) (hok : FreshEncOKBgv l B) :
    ∃ ct, bgvEncrypt l fast thr incr mode plain = .ok ct ∧ ct.cf = 1 ∧
      bgvDecrypt l sk ct = .ok (trimPlain (padPlain l.n plain)) := by
  have hq := c04r_levelQ_of_decOK hd
  have ht2 : 2 ≤ l.t.value := by have := hd.tool.twf.two_le; rw [hd.t_eq] at this; exact this
  have hn : l.scheme.encNtt = true := by rw [hb]; rfl
  have htt : encTT l = l.t.value := c01f_encTT_bgv hb
  obtain ⟨c0, c1, hz, hC0, hC1, hph⟩ := hf
  rw [hn] at hz hph
  obtain ⟨r, hr, hrC, hrv⟩ := bgvLiftPlain_spec hl hq hlift (by omega) hp hm
  have hN := c01e_rnsNtt_canon hl hrC.pre
  obtain ⟨c0', hadd, hC0', hav⟩ := c02v_rnsAdd_spec (c02v_qsWF_of_levelWF hl) hC0 hN
  have hback : ∀ i, i < l.size → intt (l.tbl i) ((rnsNtt l r).getD i #[]) = r.getD i #[] := by
    intro i hi
    obtain ⟨htw, htm, htn, _⟩ := c01o_level_comp hl hi
    rw [c01o_rnsNtt_getD l r hi]
    exact intt_ntt htw _ (by rw [(hrC.2 i hi).1, htn]) (fun j hj => by rw [htm]; exact (hrC.2 i hi).2 j (by omega))
  have hI := c01i_intt_add_comp hl hC0 hN hC0' hav
  refine ⟨⟨#[c0', c1], true, 1⟩, ?_, rfl, ?_⟩
  · unfold bgvEncrypt
    rw [hz, ok_bind, hr, ok_bind]
    show (do let c0 ← rnsAdd l c0 (rnsNtt l r)
             pure (⟨(#[c0, c1] : Array RnsPoly).setIfInBounds 0 c0, true, 1⟩ : Ct)) = _
    rw [hadd]; rfl
  · apply c01i_bgv_decrypt_of_phase hl hd hsk hC0' hC1 hm (v := ν) hν hok
    intro c hc
    have h1 := c01g_phase_add_c0 hq (sk := sk) (C0 := rnsIntt l c0) (C0' := rnsIntt l c0') (C1 := rnsIntt l c1)
      (M := fun c => bgvLift l.t.value (plain.getD c 0)) (c01p_rnsIntt_size l _) (c01p_rnsIntt_size l _) (c01p_rnsIntt_size l _)
      (fun i hi c hc => by
        rw [c01o_rnsIntt_getD l _ hi, c01o_rnsIntt_getD l _ hi, hI i hi c hc, hback i hi]
        refine (cast_mod_modEq _ _).trans ?_
        push_cast
        exact Int.ModEq.add (Int.ModEq.refl _) (hrv i hi c hc)) c hc
    have h2 := hph c hc
    unfold encPhase cview at h2
    simp only [↓reduceIte, htt] at h2
    refine h1.trans ?_
    rw [add_comm]
    exact Int.ModEq.add (Int.ModEq.refl _) h2

/-! ## I3: CKKS -/

/-- CKKS, any encryption mode / dispatch branch, every level: encryption of an (NTT-form, canonical) RNS plaintext succeeds, decryption
    succeeds, and the decrypted RNS plaintext is the plaintext plus ONE integer noise polynomial ν — the noise of the fresh encryption
    of zero — in every RNS component (coefficient forms, modulo q_i): the components are consistent -/
theorem ckks_encrypt_decrypt_of_fresh {l : Level} (hl : l.WF) (hq : c07s_LevelQ l) (htool : c05u_ToolOK l) (hc : l.scheme = .ckks)
    {sk : Array Int} (hsk : sk.size = l.n) {mode : EncMode} {ν : Nat → Int}
    (hf : FreshZero l sk (encryptZeroInternal l mode) ν) {plain : RnsPoly} (hpl : RnsCanon l plain) :
    ∃ ct dec, ckksEncrypt l mode plain = .ok ct ∧ ckksDecrypt l sk ct = .ok dec ∧ RnsCanon l dec ∧
      ∀ i, i < l.size → ∀ c, c < l.n → (((intt (l.tbl i) (dec.getD i #[])).getD c 0 : Nat) : Int) ≡
        (((intt (l.tbl i) (plain.getD i #[])).getD c 0 : Nat) : Int) + ν c [ZMOD ((l.q i).value : Int)] := by
  have hn : l.scheme.encNtt = true := by rw [hc]; rfl
  have htt : encTT l = 1 := c01f_encTT_other (by rw [hc]; decide)
  obtain ⟨c0, c1, hz, hC0, hC1, hph⟩ := hf
  rw [hn] at hz hph
  obtain ⟨c0', hadd, hC0', hav⟩ := c02v_rnsAdd_spec (c02v_qsWF_of_levelWF hl) hC0 hpl
  have hI := c01i_intt_add_comp hl hC0 hpl hC0' hav
  -- CRT lift of the plaintext's coefficient form
  have hPC := c01p_rnsIntt_canon hl hpl
  have exP : ∀ j, ∃ X, j < l.n → c05u_IsCrt l (rnsIntt l plain) j X := fun j => by
    by_cases hj : j < l.n
    · obtain ⟨X, hX⟩ := c05u_crt_exists htool hPC hj; exact ⟨X, fun _ => hX⟩
    · exact ⟨0, fun h => absurd h hj⟩
  choose P hP using exP
  have hPi : ∀ i, i < l.size → ∀ c, c < l.n → (((intt (l.tbl i) (plain.getD i #[])).getD c 0 : Nat) : Int) ≡ (P c : Int)
      [ZMOD ((l.q i).value : Int)] := by
    intro i hi c hc
    have := (hP c hc).2 i hi
    rw [c01o_rnsIntt_getD l plain hi] at this
    rw [← this]
    exact cast_mod_modEq _ _
  have hph' : ∀ c, c < l.n → (Spec.phase (c01p_qvals l) l.n sk [rnsIntt l c0', rnsIntt l c1]).getD c 0 ≡ ν c + (P c : Int)
      [ZMOD (Spec.prodL (c01p_qvals l) : Int)] := by
    intro c hc
    have h1 := c01g_phase_add_c0 hq (sk := sk) (C0 := rnsIntt l c0) (C0' := rnsIntt l c0') (C1 := rnsIntt l c1)
      (M := fun c => (P c : Int)) (c01p_rnsIntt_size l _) (c01p_rnsIntt_size l _) (c01p_rnsIntt_size l _)
      (fun i hi c hc => by
        rw [c01o_rnsIntt_getD l _ hi, c01o_rnsIntt_getD l _ hi, hI i hi c hc]
        refine (cast_mod_modEq _ _).trans ?_
        push_cast
        exact Int.ModEq.add (Int.ModEq.refl _) (hPi i hi c hc)) c hc
    have h2 := hph c hc
    unfold encPhase cview at h2
    simp only [↓reduceIte, htt, Nat.cast_one, one_mul] at h2
    exact h1.trans (Int.ModEq.add h2 (Int.ModEq.refl _))
  obtain ⟨dec, hdec, hdC, hdv, -⟩ := ckksDecrypt_intt_eq_phase hl hq hsk (polys := #[c0', c1]) (by simp)
    (fun k hk => by
      have hk' : k < 2 := hk
      interval_cases k
      · exact hC0'
      · exact hC1) 1
  refine ⟨⟨#[c0', c1], true, 1⟩, dec, ?_, hdec, hdC, fun i hi c hc => ?_⟩
  · unfold ckksEncrypt
    rw [hz, ok_bind]
    show (do let c0 ← rnsAdd l c0 plain
             pure (⟨(#[c0, c1] : Array RnsPoly).setIfInBounds 0 c0, true, 1⟩ : Ct)) = _
    rw [hadd]; rfl
  · have hq0 : 0 < (l.q i).value := by have := (c01o_level_comp hl hi).2.2.2.two_le; omega
    rw [hdv i hi c hc, c01j_imod_cast _ hq0]
    refine (Int.mod_modEq _ _).trans ?_
    have hdvd : ((l.q i).value : Int) ∣ (Spec.prodL (c01p_qvals l) : Int) := by
      rw [c01h_prodL hq, ← hq.q_eq hi]
      exact Int.natCast_dvd_natCast.mpr (hq.bwf.q_dvd_prod (by rw [hq.size_eq]; exact hi))
    have h3 := (hph' c hc).of_dvd hdvd
    have e : (#[c0', c1] : Array RnsPoly).toList.map (rnsIntt l) = [rnsIntt l c0', rnsIntt l c1] := rfl
    rw [e]
    refine h3.trans ?_
    rw [add_comm]
    exact Int.ModEq.add (hPi i hi c hc).symm (Int.ModEq.refl _)

end HC
