import Heathcliff.Proofs.GenRns10
import Heathcliff.Proofs.GenPolyRns

/-!
  Phase 4k of the translator tie: `RNSTool::fastbconv_m_tilde` (src/util/rns.rs) generated into `Heathcliff/Gen/RnsFns.lean` EQUALS the hand model's
  `RNSTool.fastbconvMTilde`.  The routine calls `polymod::multiply_scalar_p`, which is generated into `Gen/PolyFns.lean` (`HC.GenP`): its block-form
  theorem `gp_poly_multiply_scalar_p_blocks` (kernel applied to consecutive `degree`-blocks) is bridged to the component lists used here
  (`gr_msp_list`); the two conversions are the generated `fast_convert_array` on the model's `qToBsk` / `qToMt`, each writing a SUB-SLICE of the
  destination.  Helper names start with `gr_`.
-/
namespace HC
open HC.GenW HC.GenR

theorem gr_idxT_ok (l : List Modulus) (i : Nat) (h : i < l.length) : GenP.idxT l i = .ok (l.getD i gr_dflt) := by
  unfold GenP.idxT; simp [List.getD, h]

/-- BRIDGE: `multiply_scalar_p` (generated in `Gen/PolyFns.lean`) on a flat buffer of `sq` components, into a zeroed scratch buffer = component-wise
    `mulMod · s q_i` -/
theorem gr_msp_list (cs : List (List Nat)) (sq n s : Nat) (qs : List Modulus)
    (hcs : cs.length = sq) (hcn : ∀ c ∈ cs, c.length = n) (hqs : qs.length = sq) (hsn : sq * n < 2^64) :
    GenP.poly_multiply_scalar_p cs.flatten s n qs (List.replicate (n * sq) 0)
      = ((List.range' 0 sq).mapM (fun i => (cs.getD i []).mapM (fun x => mulMod x s (qs.getD i gr_dflt))) >>= fun outs => .ok outs.flatten) := by
  have hfl := gr_flat_length n cs hcn
  rw [hcs] at hfl
  have hrl : (List.replicate (n * sq) 0).length = sq * n := by rw [List.length_replicate, Nat.mul_comm]
  rw [gp_poly_multiply_scalar_p_blocks _ _ _ _ _ (by rw [hqs, hrl]) (by rw [hrl]; simpa [B64] using hsn)]
  have h := gp_blocks_mapM (gp_msp_block cs.flatten s n qs) n (List.replicate (n * sq) 0) sq 0
  simp only [Nat.zero_mul, List.drop_zero, Nat.zero_add] at h
  rw [hqs, h, List.drop_eq_nil_of_le (by rw [hrl])]
  have hcg : (List.range' 0 sq).mapM (fun j => gp_msp_block cs.flatten s n qs j (gp_blk n (List.replicate (n * sq) 0) j))
      = (List.range' 0 sq).mapM (fun i => (cs.getD i []).mapM (fun x => mulMod x s (qs.getD i gr_dflt))) := by
    apply gr_mapM_congr
    intro j hj
    rw [List.mem_range'_1, Nat.zero_add] at hj
    have hjn : j * n + n ≤ sq * n := by
      have := Nat.mul_le_mul_right n (Nat.succ_le_of_lt hj.2); rw [Nat.succ_mul] at this; exact this
    have hcl : (cs.getD j []).length = n := hcn _ (gr_getD_mem cs j (by omega))
    have e1 : GenP.slice cs.flatten (j * n) (j * n + n) = .ok (cs.getD j []) := by
      rw [gp_slice_blk _ _ _ (by omega)]
      unfold gp_blk
      rw [gr_flat_drop_take n cs j hcn (by omega)]
    have hbl : (gp_blk n (List.replicate (n * sq) 0) j).length = n := gp_blk_length _ _ _ (by rw [hrl]; exact hjn)
    unfold gp_msp_block
    simp only [e1, gr_idxT_ok qs j (by omega), gr_ok_bind]
    rw [gp_poly_multiply_scalar_eq, hbl, hcl, Nat.min_self, List.take_of_length_le (by omega), List.drop_eq_nil_of_le (by omega)]
    simp only [List.append_nil]
    exact bind_pure _
  rw [hcg]
  cases (List.range' 0 sq).mapM (fun i => (cs.getD i []).mapM (fun x => mulMod x s (qs.getD i gr_dflt))) with
  | error e => rfl
  | ok outs => simp only [gr_ok_bind, gr_pure, List.append_nil]

/-- the generated `fastbconv_m_tilde` on flat buffers: `sq` input components, destination `sB + 1` components (`Bsk`, then m̃); `F1`, `F2` the conversions -/
theorem gr_mt_list (inp ds : List (List Nat)) (sq sB n : Nat) (qs : List Modulus) (mt : Modulus) (F1 F2 : List Nat → List Nat → R (List Nat))
    (hinp : inp.length = sq) (hin : ∀ c ∈ inp, c.length = n) (hqs : qs.length = sq)
    (hds : ds.length = sB + 1) (hdn : ∀ c ∈ ds, c.length = n)
    (hsn : sq * n < 2^64) (hbn : (sB + 1) * n < 2^64) (hs64 : sB + 1 < 2^64) :
    (∀ e, (List.range' 0 sq).mapM (fun i => (inp.getD i []).mapM (fun x => mulMod x mt.value (qs.getD i gr_dflt))) = .error e →
      GenR.fastbconv_m_tilde inp.flatten ds.flatten sq sB n mt qs F1 F2 = .error e) ∧
    (∀ (temp conv1 : List (List Nat)) (t2 : List Nat), (List.range' 0 sq).mapM (fun i => (inp.getD i []).mapM (fun x => mulMod x mt.value (qs.getD i gr_dflt))) = .ok temp →
      conv1.length = sB → (∀ c ∈ conv1, c.length = n) → t2.length = n →
      F1 temp.flatten (ds.take sB).flatten = .ok conv1.flatten → F2 temp.flatten (ds.getD sB []) = .ok t2 →
      GenR.fastbconv_m_tilde inp.flatten ds.flatten sq sB n mt qs F1 F2 = .ok (conv1.flatten ++ t2)) := by
  have e0 : ckMul n sq = .ok (n * sq) := gr_ckMul_ok (by rw [Nat.mul_comm]; exact hsn)
  have hmsp := gr_msp_list inp sq n mt.value qs hinp hin hqs hsn
  constructor
  · intro e he
    unfold GenR.fastbconv_m_tilde
    simp only [e0, gr_ok_bind, hmsp, he, gr_err_bind]
  · intro temp conv1 t2 hT hc1 hc2 ht2 hF1 hF2
    have hle : sB * n ≤ (sB + 1) * n := Nat.mul_le_mul_right n (by omega)
    have hsb : (sB + 1) * n = sB * n + n := Nat.succ_mul sB n
    have e1 : ckMul sB n = .ok (sB * n) := gr_ckMul_ok (by omega)
    have e2 : GenR.slice ds.flatten 0 (sB * n) = .ok (ds.take sB).flatten := gr_slice_take n ds sB hdn (by omega)
    have hc1l := gr_flat_length n conv1 hc2
    rw [hc1] at hc1l
    -- the destination after the first conversion
    have hd' : (conv1 ++ ds.drop sB).length = sB + 1 := by rw [List.length_append, List.length_drop, hc1, hds]; omega
    have hdn' : ∀ c ∈ conv1 ++ ds.drop sB, c.length = n := by
      intro c hc
      rcases List.mem_append.mp hc with h | h
      · exact hc2 c h
      · exact hdn c (List.mem_of_mem_drop h)
    have e3 : GenR.splice ds.flatten 0 conv1.flatten = (conv1 ++ ds.drop sB).flatten := by
      unfold GenR.splice
      rw [List.take_zero, List.nil_append, Nat.zero_add, hc1l, List.flatten_append]
      congr 1
      have hlt := gr_flat_length n (ds.take sB) (fun c hc => hdn c (List.mem_of_mem_take hc))
      rw [List.length_take, Nat.min_eq_left (by omega)] at hlt
      conv => lhs; rw [← List.take_append_drop sB ds, List.flatten_append]
      rw [List.drop_left' hlt]
    have e4 : ckAdd sB 1 = .ok (sB + 1) := gr_ckAdd_ok hs64
    have e5 : ckMul (sB + 1) n = .ok (sB * n + n) := by rw [gr_ckMul_ok hbn, Nat.succ_mul]
    have hlast : (conv1 ++ ds.drop sB).getD sB [] = ds.getD sB [] := by
      rw [List.getD_eq_getElem?_getD, List.getElem?_append_right (by omega), hc1, Nat.sub_self, List.getElem?_drop, Nat.add_zero,
        ← List.getD_eq_getElem?_getD]
    have e6 : GenR.slice (conv1 ++ ds.drop sB).flatten (sB * n) (sB * n + n) = .ok (ds.getD sB []) := by
      rw [gr_slice_flat n _ sB hdn' (by omega), hlast]
    have e7 : GenR.splice (conv1 ++ ds.drop sB).flatten (sB * n) t2 = conv1.flatten ++ t2 := by
      rw [gr_splice_flat n _ sB t2 hdn' (by omega) ht2]
      have : (conv1 ++ ds.drop sB).set sB t2 = conv1 ++ [t2] := by
        rw [List.set_append_right _ _ (by omega), hc1, Nat.sub_self]
        have hdl : (ds.drop sB).length = 1 := by rw [List.length_drop, hds]; omega
        match hd : ds.drop sB, hdl with
        | [x], _ => rfl
      rw [this, List.flatten_append]
      simp
    unfold GenR.fastbconv_m_tilde
    simp only [e0, gr_ok_bind, hmsp, hT, e1, e2, hF1, e3, e4, e5, e6, hF2, e7, gr_pure]

end HC
